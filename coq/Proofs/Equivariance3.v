(* C09, arbitrary axis orders (np.transpose(image, axes)) for the discrete pipeline.

   Generalises Proofs/Equivariance.maxima_transposed and Proofs/Equivariance2 (full
   reversal, numpy .T) to ANY permutation of the axes of an image with any number of
   axes:  im2 = np.transpose(im1, axes), i.e.  im2.shape[k] = im1.shape[axes[k]]  and
   im2[q] = im1[p]  whenever  q[k] = p[axes[k]].  Per-axis parameters and coordinates
   are taken in the same order ([permute]).  *)
From Coq Require Import ZArith NArith QArith Qabs List Bool Arith Lia Permutation.
From TP Require Import Model.Dilation Model.COM Model.Equivariance Proofs.COM Proofs.Dilation Proofs.Equivariance Proofs.Equivariance2.
Import ListNotations.
Open Scope Z_scope.

(* v taken in the axis order [axes]:  result[k] = v[axes[k]] *)
Definition permute {A : Type} (def : A) (axes : list nat) (v : list A) : list A :=
  map (fun a => nth a v def) axes.
Notation zperm := (permute 0%Z).
Notation qperm := (permute 0%Q).

(* inv is the inverse of the axis order axes on 0..n-1 (np.argsort(axes)) *)
Definition axes_inverse (n : nat) (axes inv : list nat) : Prop :=
  length axes = n /\
  forall k, (k < n)%nat -> (nth k axes 0 < n)%nat /\ nth (nth k axes 0%nat) inv 0%nat = k.
Definition axes_pair (n : nat) (axes inv : list nat) : Prop :=
  axes_inverse n axes inv /\ axes_inverse n inv axes.

(* np.transpose(im1, axes) *)
Definition axes_permuted (axes : list nat) (im1 im2 : image) : Prop :=
  shape im2 = zperm axes (shape im1) /\
  forall p, length p = length (shape im1) -> pix im2 (zperm axes p) = pix im1 p.

Definition lp_perm (axes : list nat) (P : lparams) : lparams :=
  mkLP (qperm axes (lp_sep P)) (zperm axes (lp_margin P)) (zperm axes (lp_radius P))
       (lp_thresh P) (lp_maxit P) (lp_char P).

(* "row b is row a seen in the image with permuted axes": position columns permuted, mass,
   signal, raw_mass identical; sizes: a single (isotropic) size identical, per-axis sizes permuted *)
Definition char_permuted (axes : list nat) (a b : option (list Q * Z * Z)) : Prop :=
  match a, b with
  | None, None => True
  | Some (sizes, signal, raw_mass), Some (sizes', signal', raw_mass') =>
      (sizes' = if (length sizes =? 1)%nat then sizes else qperm axes sizes) /\
      signal' = signal /\ raw_mass' = raw_mass
  | _, _ => False
  end.
Definition row_permuted (axes : list nat) (a b : output) : Prop :=
  o_pos b = qperm axes (o_pos a) /\ o_mass b = o_mass a /\ char_permuted axes (o_char a) (o_char b).

(* ============================================================== permute, basics *)
Lemma axes_pair_sym : forall n axes inv, axes_pair n axes inv -> axes_pair n inv axes.
Proof. intros n axes inv [H1 H2]. split; assumption. Qed.

Section PermuteBasics.
  Variables (n : nat) (axes inv : list nat).
  Hypothesis Hax : axes_pair n axes inv.

  Lemma axes_len : length axes = n.
  Proof. apply Hax. Qed.

  Lemma axes_lt : forall k, (k < n)%nat -> (nth k axes 0 < n)%nat.
  Proof. intros k Hk. apply Hax, Hk. Qed.

  Lemma axes_in_lt : forall a, In a axes -> (a < n)%nat.
  Proof.
    intros a Ha. destruct (In_nth _ _ 0%nat Ha) as [k [Hk <-]]. apply axes_lt. rewrite <- axes_len. exact Hk.
  Qed.

  Lemma inv_axes : forall k, (k < n)%nat -> nth (nth k axes 0%nat) inv 0%nat = k.
  Proof. intros k Hk. apply Hax, Hk. Qed.

  Lemma axes_inv : forall j, (j < n)%nat -> (nth j inv 0 < n)%nat /\ nth (nth j inv 0%nat) axes 0%nat = j.
  Proof. intros j Hj. apply Hax, Hj. Qed.

  Lemma axes_perm_seq : Permutation axes (seq 0 n).
  Proof.
    apply NoDup_Permutation_bis.
    - apply (NoDup_nth axes 0%nat). intros i j Hi Hj E. rewrite axes_len in Hi, Hj.
      rewrite <- (inv_axes i Hi), <- (inv_axes j Hj), E. reflexivity.
    - rewrite seq_length, axes_len. lia.
    - intros a Ha. apply in_seq. pose proof (axes_in_lt a Ha). lia.
  Qed.

  Section Poly.
    Variables (A : Type) (def : A).

    Lemma permute_length : forall v : list A, length (permute def axes v) = n.
    Proof. intros. unfold permute. rewrite map_length. apply axes_len. Qed.

    Lemma nth_permute : forall (v : list A) k, (k < n)%nat ->
      nth k (permute def axes v) def = nth (nth k axes 0%nat) v def.
    Proof.
      intros v k Hk. unfold permute.
      rewrite (nth_indep _ def ((fun a => nth a v def) 0%nat)) by (rewrite map_length, axes_len; exact Hk).
      apply (map_nth (fun a => nth a v def)).
    Qed.

    (* a list built per axis from the ingredients of axis axes[k] is the permuted list *)
    Lemma map_seq_permute : forall (f g : nat -> A),
      (forall k, (k < n)%nat -> g k = f (nth k axes 0%nat)) ->
      map g (seq 0 n) = permute def axes (map f (seq 0 n)).
    Proof.
      intros f g H. apply (nth_ext _ _ def def).
      - rewrite permute_length, map_length, seq_length. reflexivity.
      - intros k Hk. rewrite map_length, seq_length in Hk.
        rewrite nth_permute by exact Hk. rewrite !nth_map_seq by (try apply axes_lt; exact Hk).
        cbn [Nat.add]. apply H, Hk.
    Qed.

    Lemma permute_as_perm : forall v : list A, length v = n -> Permutation (permute def axes v) v.
    Proof.
      intros v L. unfold permute.
      eapply Permutation_trans; [apply Permutation_map, axes_perm_seq|].
      replace (map (fun a => nth a v def) (seq 0 n)) with v; [apply Permutation_refl|].
      apply (nth_ext _ _ def def).
      - rewrite map_length, seq_length. exact L.
      - intros k Hk. rewrite nth_map_seq by lia. reflexivity.
    Qed.
  End Poly.

  Lemma permute_map : forall (A B : Type) (da : A) (db : B) (h : A -> B) (v : list A), length v = n ->
    map h (permute da axes v) = permute db axes (map h v).
  Proof.
    intros A B da db h v L. unfold permute. rewrite map_map. apply map_ext_in. intros a Ha.
    apply axes_in_lt in Ha.
    rewrite (nth_indep (map h v) db (h da)) by (rewrite map_length; lia).
    symmetry. apply map_nth.
  Qed.
End PermuteBasics.

Lemma permute_cancel : forall n axes inv (A : Type) (def : A) (v : list A),
  axes_pair n axes inv -> length v = n -> permute def axes (permute def inv v) = v.
Proof.
  intros n axes inv A def v Hax L. apply (nth_ext _ _ def def).
  - rewrite (permute_length n axes inv Hax). symmetry; exact L.
  - intros k Hk. rewrite (permute_length n axes inv Hax) in Hk.
    rewrite (nth_permute n axes inv Hax) by exact Hk.
    pose proof (axes_lt n axes inv Hax k Hk) as Hlt.
    rewrite (nth_permute n inv axes (axes_pair_sym _ _ _ Hax)) by exact Hlt.
    rewrite (inv_axes n axes inv Hax) by exact Hk. reflexivity.
Qed.

Lemma ix_permute : forall n axes inv v k, axes_pair n axes inv -> (k < n)%nat ->
  ix (zperm axes v) k = ix v (nth k axes 0%nat).
Proof. intros. unfold ix. eapply nth_permute; eassumption. Qed.

Lemma qx_permute : forall n axes inv v k, axes_pair n axes inv -> (k < n)%nat ->
  qx (qperm axes v) k = qx v (nth k axes 0%nat).
Proof. intros. unfold qx. eapply nth_permute; eassumption. Qed.

Lemma permute_inj : forall n axes inv (A : Type) (def : A) (v w : list A),
  axes_pair n axes inv -> length v = n -> length w = n ->
  permute def axes v = permute def axes w -> v = w.
Proof.
  intros n axes inv A def v w Hax Lv Lw E.
  rewrite <- (permute_cancel n inv axes A def v (axes_pair_sym _ _ _ Hax) Lv).
  rewrite <- (permute_cancel n inv axes A def w (axes_pair_sym _ _ _ Hax) Lw).
  rewrite E. reflexivity.
Qed.

(* -------------------------------------------- order-insensitive folds *)
Lemma forallb_perm : forall (A : Type) (f : A -> bool) l l', Permutation l l' -> forallb f l = forallb f l'.
Proof.
  intros A f l l' H. induction H; cbn [forallb].
  - reflexivity.
  - rewrite IHPermutation. reflexivity.
  - rewrite !andb_assoc, (andb_comm (f y)). reflexivity.
  - congruence.
Qed.

Lemma qsum_perm : forall l l', Permutation l l' -> (fold_right Qplus 0 l == fold_right Qplus 0 l')%Q.
Proof.
  intros l l' H. induction H; cbn [fold_right].
  - reflexivity.
  - rewrite IHPermutation. reflexivity.
  - ring.
  - rewrite IHPermutation1. exact IHPermutation2.
Qed.

(* ------------------------------------------- index-wise Forall2 / Forall3 *)
Lemma Forall3_ix : forall (R : Z -> Z -> Z -> Prop) a b c,
  Forall3 R a b c <->
  (length b = length a /\ length c = length a /\ forall k, (k < length a)%nat -> R (ix a k) (ix b k) (ix c k)).
Proof.
  intros R a b c. split.
  - intros H. induction H; cbn [length]; [repeat split; intros k Hk; inversion Hk|].
    destruct IHForall3 as [L1 [L2 Hk]]. repeat split; try lia.
    intros [|k] Hlt; [exact H|]. apply Hk. lia.
  - revert b c. induction a as [|x a IH]; intros [|y b] [|z c] [L1 [L2 H]]; cbn in L1, L2; try discriminate.
    + constructor.
    + constructor; [apply (H 0%nat); cbn; lia|].
      apply IH. repeat split; try lia. intros k Hk. apply (H (S k)). cbn; lia.
Qed.

Lemma in_bounds_ix : forall sh p,
  in_bounds sh p <-> (length p = length sh /\ forall k, (k < length sh)%nat -> 0 <= ix p k < ix sh k).
Proof.
  intros sh p. unfold in_bounds. split.
  - intros H. induction H; cbn [length]; [split; [reflexivity|intros k Hk; inversion Hk]|].
    destruct IHForall2 as [L Hk]. split; [lia|]. intros [|k] Hlt; [exact H|]. apply Hk. lia.
  - revert p. induction sh as [|x sh IH]; intros [|y p] [L H]; cbn in L; try discriminate.
    + constructor.
    + constructor; [apply (H 0%nat); cbn; lia|].
      apply IH. split; [lia|]. intros k Hk. apply (H (S k)). cbn; lia.
Qed.

Section PermuteRelations.
  Variables (n : nat) (axes inv : list nat).
  Hypothesis Hax : axes_pair n axes inv.

  Lemma Forall3_permute1 : forall (R : Z -> Z -> Z -> Prop) a b c,
    length a = n -> Forall3 R a b c -> Forall3 R (zperm axes a) (zperm axes b) (zperm axes c).
  Proof.
    intros R a b c La H. apply Forall3_ix in H. destruct H as [Lb [Lc H]].
    apply Forall3_ix. rewrite !(permute_length n axes inv Hax). repeat split.
    intros k Hk. rewrite !(ix_permute n axes inv) by assumption. apply H.
    rewrite La. apply (axes_lt n axes inv Hax), Hk.
  Qed.
End PermuteRelations.

Lemma Forall3_permute : forall n axes inv (R : Z -> Z -> Z -> Prop) a b c,
  axes_pair n axes inv -> length a = n -> length b = n -> length c = n ->
  (Forall3 R (zperm axes a) (zperm axes b) (zperm axes c) <-> Forall3 R a b c).
Proof.
  intros n axes inv R a b c Hax La Lb Lc. split.
  - intros H. apply (Forall3_permute1 n inv axes (axes_pair_sym _ _ _ Hax)) in H.
    + rewrite !(permute_cancel n inv axes) in H by (try apply axes_pair_sym; assumption). exact H.
    + apply (permute_length n axes inv Hax).
  - apply (Forall3_permute1 n axes inv Hax). exact La.
Qed.

Lemma in_bounds_permute1 : forall n axes inv sh p, axes_pair n axes inv -> length sh = n ->
  in_bounds sh p -> in_bounds (zperm axes sh) (zperm axes p).
Proof.
  intros n axes inv sh p Hax Ls H. apply in_bounds_ix in H. destruct H as [Lp H].
  apply in_bounds_ix. rewrite !(permute_length n axes inv Hax). split; [reflexivity|].
  intros k Hk. rewrite !(ix_permute n axes inv) by assumption. apply H.
  rewrite Ls. apply (axes_lt n axes inv Hax), Hk.
Qed.

Lemma in_bounds_permute : forall n axes inv sh p, axes_pair n axes inv -> length sh = n -> length p = n ->
  (in_bounds (zperm axes sh) (zperm axes p) <-> in_bounds sh p).
Proof.
  intros n axes inv sh p Hax Ls Lp. split.
  - intros H. apply (in_bounds_permute1 n inv axes _ _ (axes_pair_sym _ _ _ Hax)) in H.
    + rewrite !(permute_cancel n inv axes) in H by (try apply axes_pair_sym; assumption). exact H.
    + apply (permute_length n axes inv Hax).
  - apply (in_bounds_permute1 n axes inv); assumption.
Qed.

(* ======================================= maxima stage under an axis permutation *)
Section PermutedMaxima.
  Variable percentile : list Z -> Q.
  Hypothesis percentile_perm : forall l l', Permutation l l' -> percentile l = percentile l'.
  Variables (axes inv : list nat) (im1 im2 : image) (P : lparams).
  Let n := length (shape im1).
  Hypothesis Hax : axes_pair n axes inv.
  Hypothesis Ht : axes_permuted axes im1 im2.
  Hypothesis Hsep : length (lp_sep P) = length (shape im1).
  Hypothesis Hmg : length (lp_margin P) = length (shape im1).
  Hypothesis Hsz : Forall (fun s => 1 <= s) (sizes_of im1 (lp_sep P)).

  Let Hinv : axes_pair n inv axes := axes_pair_sym _ _ _ Hax.

  Lemma shape2_perm : shape im2 = zperm axes (shape im1).
  Proof. apply Ht. Qed.

  Lemma shape2_length : length (shape im2) = n.
  Proof. rewrite shape2_perm. apply (permute_length n axes inv Hax). Qed.

  Lemma pix2_perm : forall p, length p = n -> pix im2 (zperm axes p) = pix im1 p.
  Proof. intros p Lp. apply Ht. exact Lp. Qed.

  Lemma pix2_inv : forall q, length q = n -> pix im2 q = pix im1 (zperm inv q).
  Proof.
    intros q Lq. rewrite <- (permute_cancel n axes inv Z 0 q Hax Lq) at 1.
    apply pix2_perm. apply (permute_length n inv axes Hinv).
  Qed.

  Lemma support_permuted :
    Permutation (filter (fun p => nzb (pix im2 p)) (coords (shape im2)))
                (map (zperm axes) (filter (fun p => nzb (pix im1 p)) (coords (shape im1)))).
  Proof.
    apply NoDup_Permutation.
    - apply NoDup_filter, nodup_coords.
    - apply NoDup_map_inj_in; [|apply NoDup_filter, nodup_coords].
      intros x y Hx Hy E. apply filter_In in Hx, Hy. destruct Hx as [Hx _], Hy as [Hy _].
      apply in_coords, in_bounds_length in Hx. apply in_coords, in_bounds_length in Hy.
      apply (permute_inj n axes inv Z 0 x y Hax Hx Hy E).
    - intros q. rewrite filter_In, in_map_iff, in_coords. split.
      + intros [Hb Hnz]. pose proof (in_bounds_length _ _ Hb) as Lq. rewrite shape2_length in Lq.
        exists (zperm inv q). split; [apply (permute_cancel n axes inv); assumption|].
        apply filter_In. rewrite in_coords, <- pix2_inv by exact Lq. split; [|exact Hnz].
        apply (in_bounds_permute n axes inv); [exact Hax|reflexivity|apply (permute_length n inv axes Hinv)|].
        rewrite (permute_cancel n axes inv) by assumption. rewrite <- shape2_perm. exact Hb.
      + intros [p [<- Hp]]. apply filter_In in Hp. rewrite in_coords in Hp. destruct Hp as [Hb Hnz].
        pose proof (in_bounds_length _ _ Hb) as Lp.
        rewrite pix2_perm by exact Lp. split; [|exact Hnz].
        rewrite shape2_perm. apply (in_bounds_permute1 n axes inv); [exact Hax|reflexivity|exact Hb].
  Qed.

  Lemma not_black_permuted : Permutation (not_black im2) (not_black im1).
  Proof.
    rewrite !not_black_as_map.
    eapply Permutation_trans; [apply Permutation_map, support_permuted|].
    rewrite map_map. erewrite map_ext_in; [apply Permutation_refl|].
    intros p Hp. apply filter_In in Hp. destruct Hp as [Hp _].
    apply in_coords, in_bounds_length in Hp. apply pix2_perm, Hp.
  Qed.

  Lemma sizes_of_permuted : sizes_of im2 (lp_sep (lp_perm axes P)) = zperm axes (sizes_of im1 (lp_sep P)).
  Proof.
    unfold sizes_of, lp_perm. cbn [lp_sep]. rewrite shape2_length. fold n.
    apply (permute_map n axes inv Hax). exact Hsep.
  Qed.

  Lemma maxima2_length : forall q, In q (find_maxima percentile (lp_perm axes P) im2) -> length q = n.
  Proof.
    intros q H. unfold find_maxima in H.
    pose proof (maxima_exact percentile false im2 (lp_sep (lp_perm axes P)) (Some (lp_margin (lp_perm axes P))) q) as H2.
    cbv zeta in H2. rewrite convert_to_int_integer in H2. cbn [eff_margin] in H2.
    rewrite H2 in H.
    - destruct H as [_ [Hb _]]. apply in_bounds_length in Hb. rewrite shape2_length in Hb. exact Hb.
    - unfold lp_perm; cbn [lp_sep]. rewrite shape2_length. apply (permute_length n axes inv Hax).
    - unfold lp_perm; cbn [lp_margin]. rewrite shape2_length. apply (permute_length n axes inv Hax).
    - rewrite sizes_of_permuted. apply Forall_forall. intros s Hs.
      rewrite Forall_forall in Hsz. apply Hsz.
      apply (Permutation_in s (permute_as_perm n axes inv Hax Z 0 (sizes_of im1 (lp_sep P))
               ltac:(unfold sizes_of; rewrite map_length; exact Hsep))). exact Hs.
  Qed.

  (* the maxima of the axis-permuted image (parameters permuted alike) are the permuted maxima *)
  Theorem maxima_permuted : forall p, length p = n ->
    (In (zperm axes p) (find_maxima percentile (lp_perm axes P) im2) <-> In p (find_maxima percentile P im1)).
  Proof.
    intros p Lp. unfold find_maxima.
    pose proof (maxima_exact percentile false im1 (lp_sep P) (Some (lp_margin P)) p) as H1.
    pose proof (maxima_exact percentile false im2 (lp_sep (lp_perm axes P)) (Some (lp_margin (lp_perm axes P))) (zperm axes p)) as H2.
    cbv zeta in H1, H2. rewrite convert_to_int_integer in H1, H2. cbn [eff_margin] in H1, H2.
    assert (Lsz : length (sizes_of im1 (lp_sep P)) = n) by (unfold sizes_of; rewrite map_length; exact Hsep).
    rewrite H1 by assumption.
    rewrite H2; [| unfold lp_perm; cbn [lp_sep]; rewrite shape2_length; apply (permute_length n axes inv Hax)
                 | unfold lp_perm; cbn [lp_margin]; rewrite shape2_length; apply (permute_length n axes inv Hax)
                 | rewrite sizes_of_permuted; apply Forall_forall; intros s Hs;
                   rewrite Forall_forall in Hsz; apply Hsz;
                   apply (Permutation_in s (permute_as_perm n axes inv Hax Z 0 _ Lsz)); exact Hs ].
    rewrite sizes_of_permuted.
    assert (Enb : not_black im2 <> [] <-> not_black im1 <> []).
    { pose proof not_black_permuted as Hperm.
      split; intros H E; apply H; rewrite E in Hperm.
      - apply Permutation_nil, Permutation_sym. exact Hperm.
      - apply Permutation_nil. exact Hperm. }
    rewrite Enb, (percentile_perm _ _ not_black_permuted).
    unfold admissible, lp_perm. cbn [lp_margin]. rewrite shape2_perm, pix2_perm by exact Lp.
    rewrite (in_bounds_permute n axes inv) by (try reflexivity; assumption).
    unfold outside_margin. rewrite (Forall3_permute n axes inv) by (try reflexivity; assumption).
    assert (Hbox : (forall q', in_box (zperm axes (sizes_of im1 (lp_sep P))) (zperm axes p) q' -> pix im2 q' <= pix im1 p) <->
                   (forall p', in_box (sizes_of im1 (lp_sep P)) p p' -> pix im1 p' <= pix im1 p)).
    { unfold in_box. split.
      - intros H p' Hp'. pose proof (Forall3_length _ _ _ _ _ _ _ Hp') as [_ L2].
        rewrite <- (pix2_perm p') by lia. apply H.
        apply (Forall3_permute n axes inv); try assumption; lia.
      - intros H q' Hq'. pose proof (Forall3_length _ _ _ _ _ _ _ Hq') as [_ L2].
        rewrite (permute_length n axes inv Hax) in L2.
        rewrite pix2_inv by lia. apply H.
        apply (Forall3_permute n axes inv); try assumption.
        + apply (permute_length n inv axes Hinv).
        + rewrite (permute_cancel n axes inv) by (try assumption; lia). exact Hq'. }
    rewrite Hbox. reflexivity.
  Qed.

  Corollary maxima_permuted_perm :
    Permutation (find_maxima percentile (lp_perm axes P) im2) (map (zperm axes) (find_maxima percentile P im1)).
  Proof.
    apply NoDup_Permutation.
    - apply maxima_nodup.
    - apply NoDup_map_inj_in; [|apply maxima_nodup].
      intros x y Hx Hy E.
      apply (maxima_length percentile im1 P Hsep Hmg Hsz) in Hx, Hy.
      apply (permute_inj n axes inv Z 0 x y Hax Hx Hy E).
    - intros q. rewrite in_map_iff. split.
      + intros H. pose proof (maxima2_length q H) as Lq.
        exists (zperm inv q). split; [apply (permute_cancel n axes inv); assumption|].
        apply maxima_permuted; [apply (permute_length n inv axes Hinv)|].
        rewrite (permute_cancel n axes inv) by assumption. exact H.
      + intros [p [<- Hp]]. apply maxima_permuted; [|exact Hp].
        apply (maxima_length percentile im1 P Hsep Hmg Hsz p Hp).
  Qed.
End PermutedMaxima.

(* ============================================================ the mask box *)
Section PermutedBox.
  Variables (n : nat) (axes inv : list nat).
  Hypothesis Hax : axes_pair n axes inv.

  Lemma grid_permute_in : forall ds q, length ds = n -> In q (grid ds) -> In (zperm axes q) (grid (zperm axes ds)).
  Proof.
    intros ds q Ls H. apply in_grid in H. destruct H as [L B].
    apply grid_in; [rewrite !(permute_length n axes inv Hax); reflexivity|].
    intros d Hd. rewrite (permute_length n axes inv Hax) in Hd.
    rewrite !(ix_permute n axes inv) by assumption. apply B. rewrite Ls. apply (axes_lt n axes inv Hax), Hd.
  Qed.
End PermutedBox.

Lemma grid_permute : forall n axes inv ds, axes_pair n axes inv -> length ds = n ->
  Permutation (grid (zperm axes ds)) (map (zperm axes) (grid ds)).
Proof.
  intros n axes inv ds Hax Ls. pose proof (axes_pair_sym _ _ _ Hax) as Hinv. apply NoDup_Permutation.
  - apply NoDup_grid.
  - apply NoDup_map_inj_in; [|apply NoDup_grid].
    intros x y Hx Hy E. apply in_grid in Hx, Hy. destruct Hx as [Lx _], Hy as [Ly _].
    apply (permute_inj n axes inv Z 0 x y Hax); congruence.
  - intros q. rewrite in_map_iff. split.
    + intros H. pose proof (in_grid _ _ H) as [Lq _]. rewrite (permute_length n axes inv Hax) in Lq.
      exists (zperm inv q). split; [apply (permute_cancel n axes inv); assumption|].
      apply (grid_permute_in n inv axes Hinv) in H; [|apply (permute_length n axes inv Hax)].
      rewrite (permute_cancel n inv axes) in H by assumption. exact H.
    + intros [p [<- Hp]]. apply (grid_permute_in n axes inv Hax); assumption.
Qed.

Lemma box_permute : forall n axes inv radius, axes_pair n axes inv -> length radius = n ->
  Permutation (Model.COM.box (zperm axes radius)) (map (zperm axes) (Model.COM.box radius)).
Proof.
  intros n axes inv radius Hax L. unfold Model.COM.box.
  rewrite (permute_map n axes inv Hax Z Z 0 0) by exact L.
  apply (grid_permute n axes inv); [exact Hax|rewrite map_length; exact L].
Qed.

(* ================================================== masks.py under permutation *)
Section PermutedMask.
  Variables (axes inv : list nat) (radius : list Z).
  Let n := length radius.
  Hypothesis Hax : axes_pair n axes inv.

  Lemma zsum_box_permute : forall f : list Z -> Z,
    zsum (map f (Model.COM.box (zperm axes radius))) = zsum (map (fun p => f (zperm axes p)) (Model.COM.box radius)).
  Proof.
    intros. rewrite (zsum_perm _ _ (Permutation_map f (box_permute n axes inv radius Hax eq_refl))), map_map. reflexivity.
  Qed.

  Lemma list_max_box_permute : forall f : list Z -> Z,
    list_max (map f (Model.COM.box (zperm axes radius))) = list_max (map (fun p => f (zperm axes p)) (Model.COM.box radius)).
  Proof.
    intros. rewrite (list_max_perm _ _ (Permutation_map f (box_permute n axes inv radius Hax eq_refl))), map_map. reflexivity.
  Qed.

  Lemma offs_permute : forall p, offs (zperm axes radius) (zperm axes p) = zperm axes (offs radius p).
  Proof.
    intros p. unfold offs. rewrite (permute_length n axes inv Hax). fold n.
    apply (map_seq_permute n axes inv Hax). intros k Hk.
    rewrite !(ix_permute n axes inv) by assumption. reflexivity.
  Qed.

  Lemma ell_permute : forall o, (ell (zperm axes radius) (zperm axes o) == ell radius o)%Q.
  Proof.
    intros o. unfold ell. rewrite (permute_length n axes inv Hax). fold n.
    rewrite (map_seq_permute n axes inv Hax Q 0%Q
               (fun d => let q := (inject_Z (ix o d) / inject_Z (ix radius d))%Q in (q * q)%Q)).
    - apply qsum_perm, (permute_as_perm n axes inv Hax). rewrite map_length, seq_length. reflexivity.
    - intros k Hk. cbv zeta. rewrite !(ix_permute n axes inv) by assumption. reflexivity.
  Qed.

  Lemma binary_mask_permute : forall p, binary_mask (zperm axes radius) (zperm axes p) = binary_mask radius p.
  Proof.
    intros p. unfold binary_mask. rewrite offs_permute.
    apply eq_true_iff_eq. rewrite !Qle_bool_iff. rewrite ell_permute. reflexivity.
  Qed.

  Lemma isotropic_permute : isotropic (zperm axes radius) = isotropic radius.
  Proof.
    pose proof (permute_as_perm n axes inv Hax Z 0 radius eq_refl) as Hp.
    apply eq_true_iff_eq. rewrite !isotropic_iff. split; intros H x y Hx Hy; apply H.
    - apply (Permutation_in _ (Permutation_sym Hp)), Hx.
    - apply (Permutation_in _ (Permutation_sym Hp)), Hy.
    - apply (Permutation_in _ Hp), Hx.
    - apply (Permutation_in _ Hp), Hy.
  Qed.
End PermutedMask.

(* ================================================ _refine under permutation *)
Section PermutedRefine.
  Variables pix1 pix2 raw1 raw2 : list Z -> Z.
  Variables (axes inv : list nat) (radius sh1 : list Z) (thresh : Q) (mask1 mask2 : list Z -> bool).
  Let n := length radius.
  Hypothesis Hax : axes_pair n axes inv.
  Hypothesis Hsh : length sh1 = n.
  Hypothesis Hpix : forall p, length p = n -> pix2 (zperm axes p) = pix1 p.
  Hypothesis Hraw : forall p, length p = n -> raw2 (zperm axes p) = raw1 p.
  Hypothesis Hmask : forall p, mask2 (zperm axes p) = mask1 p.

  Let radius2 := zperm axes radius.
  Let Ln2 : length radius2 = n := permute_length n axes inv Hax Z 0 radius.

  Lemma at_win_permute : forall c p, at_win radius2 (zperm axes c) (zperm axes p) = zperm axes (at_win radius c p).
  Proof.
    intros c p. unfold at_win, dims, ndim. rewrite Ln2. fold n.
    apply (map_seq_permute n axes inv Hax). intros k Hk.
    unfold radius2. rewrite !(ix_permute n axes inv) by assumption. reflexivity.
  Qed.

  Lemma at_win_len : forall c p, length (at_win radius c p) = n.
  Proof. intros. unfold at_win, dims, ndim. rewrite map_length, seq_length. reflexivity. Qed.

  Lemma nbh_permute : forall c p, nbh pix2 radius2 mask2 (zperm axes c) (zperm axes p) = nbh pix1 radius mask1 c p.
  Proof.
    intros c p. unfold nbh. rewrite Hmask. destruct (mask1 p); [|reflexivity].
    rewrite at_win_permute. apply Hpix, at_win_len.
  Qed.

  Lemma nb_sum_permute : forall c, nb_sum pix2 radius2 mask2 (zperm axes c) = nb_sum pix1 radius mask1 c.
  Proof.
    intros c. unfold nb_sum, radius2. rewrite (zsum_box_permute axes inv radius Hax). f_equal.
    apply map_ext. intros p. apply nbh_permute.
  Qed.

  Lemma nb_moment_permute : forall c k, (k < n)%nat ->
    nb_moment pix2 radius2 mask2 (zperm axes c) k = nb_moment pix1 radius mask1 c (nth k axes 0%nat).
  Proof.
    intros c k Hk. unfold nb_moment, radius2. rewrite (zsum_box_permute axes inv radius Hax). f_equal.
    apply map_ext. intros p. fold radius2. rewrite nbh_permute.
    rewrite (ix_permute n axes inv) by assumption. reflexivity.
  Qed.

  Lemma safe_com_permute : forall c,
    safe_com pix2 radius2 mask2 (zperm axes c) = qperm axes (safe_com pix1 radius mask1 c).
  Proof.
    intros c. unfold safe_com. rewrite nb_sum_permute.
    destruct (nb_sum pix1 radius mask1 c =? 0).
    - unfold radius2. apply (permute_map n axes inv Hax). reflexivity.
    - unfold dims, ndim. rewrite Ln2. fold n. apply (map_seq_permute n axes inv Hax).
      intros k Hk. rewrite nb_moment_permute by exact Hk. reflexivity.
  Qed.

  Lemma offc_permute : forall c,
    offc pix2 radius2 mask2 (zperm axes c) = qperm axes (offc pix1 radius mask1 c).
  Proof.
    intros c. unfold offc. rewrite Ln2, safe_com_permute. fold n.
    apply (map_seq_permute n axes inv Hax). intros k Hk.
    unfold radius2. rewrite (qx_permute n axes inv), (ix_permute n axes inv) by assumption. reflexivity.
  Qed.

  Lemma cmi_permute : forall off c,
    cmi_of radius2 (qperm axes off) (zperm axes c) = qperm axes (cmi_of radius off c).
  Proof.
    intros off c. unfold cmi_of. rewrite Ln2. fold n.
    apply (map_seq_permute n axes inv Hax). intros k Hk.
    rewrite (qx_permute n axes inv), (ix_permute n axes inv) by assumption. reflexivity.
  Qed.

  Lemma nextc_permute : forall off c,
    nextc radius2 (zperm axes sh1) thresh (qperm axes off) (zperm axes c) = zperm axes (nextc radius sh1 thresh off c).
  Proof.
    intros off c. unfold nextc. rewrite Ln2. fold n.
    apply (map_seq_permute n axes inv Hax). intros k Hk.
    unfold upper, radius2. rewrite (qx_permute n axes inv) by assumption.
    rewrite !(ix_permute n axes inv) by assumption. reflexivity.
  Qed.

  Lemma offc_len : forall pix mask c, length (offc pix radius mask c) = n.
  Proof. intros. unfold offc. rewrite map_length. apply seq_length. Qed.

  Lemma ref_loop_permute : forall k c,
    let s1 := ref_loop pix1 radius sh1 thresh mask1 k c in
    let s2 := ref_loop pix2 radius2 (zperm axes sh1) thresh mask2 k (zperm axes c) in
    r_rect s2 = zperm axes (r_rect s1) /\ r_cmi s2 = qperm axes (r_cmi s1).
  Proof.
    induction k as [|k IH]; intros c; cbv zeta;
      rewrite (ref_loop_unfold pix1), (ref_loop_unfold pix2); cbv zeta;
      rewrite offc_permute; unfold all_lt;
      rewrite (forallb_perm _ _ _ _ (permute_as_perm n axes inv Hax Q 0%Q _ (offc_len pix1 mask1 c)));
      destruct (forallb _ (offc pix1 radius mask1 c)); cbn [r_rect r_cmi].
    - split; [reflexivity|apply cmi_permute].
    - split; [reflexivity|apply cmi_permute].
    - split; [reflexivity|apply cmi_permute].
    - rewrite nextc_permute. apply IH.
  Qed.

  Lemma ref_output_permute : forall charz s1 s2,
    r_rect s2 = zperm axes (r_rect s1) -> r_cmi s2 = qperm axes (r_cmi s1) ->
    row_permuted axes (ref_output pix1 raw1 radius mask1 charz s1) (ref_output pix2 raw2 radius2 mask2 charz s2).
  Proof.
    intros charz s1 s2 Er Ec. unfold ref_output, row_permuted. rewrite Er, Ec.
    rewrite nb_sum_permute.
    destruct charz; cbn [negb o_pos o_mass o_char char_permuted]; [|repeat split].
    split; [reflexivity|]. split; [reflexivity|]. split; [|split].
    - unfold radius2 at 1. rewrite (isotropic_permute axes inv radius Hax).
      destruct (isotropic radius) eqn:Eiso.
      + cbn [length Nat.eqb]. f_equal. f_equal. unfold radius2. rewrite (zsum_box_permute axes inv radius Hax). f_equal.
        apply map_ext. intros p. fold radius2. rewrite nbh_permute, Hmask. unfold radius2.
        rewrite (offs_permute axes inv radius Hax).
        rewrite (permute_map n axes inv Hax Z Z 0 0) by apply offs_length.
        rewrite (zsum_perm _ _ (permute_as_perm n axes inv Hax Z 0 _ ltac:(rewrite map_length; apply offs_length))).
        reflexivity.
      + unfold dims, ndim. rewrite Ln2, map_length, seq_length. fold n.
        assert (Hn1 : (n =? 1)%nat = false).
        { apply Nat.eqb_neq. intros E1. unfold isotropic in Eiso.
          destruct radius as [|r [|r' rs]]; cbn in E1; try discriminate.
          cbn in Eiso. rewrite Z.eqb_refl in Eiso. discriminate. }
        rewrite Hn1. apply (map_seq_permute n axes inv Hax). intros k Hk.
        f_equal. f_equal. unfold radius2. rewrite (zsum_box_permute axes inv radius Hax). f_equal.
        apply map_ext. intros p. fold radius2. rewrite nbh_permute, Hmask. unfold radius2.
        rewrite !(ix_permute n axes inv) by assumption. reflexivity.
    - unfold radius2. rewrite (list_max_box_permute axes inv radius Hax). f_equal.
      apply map_ext. intros p. apply nbh_permute.
    - unfold radius2. rewrite (zsum_box_permute axes inv radius Hax). f_equal. apply map_ext. intros p.
      rewrite Hmask. destruct (mask1 p); [|reflexivity].
      fold radius2. rewrite at_win_permute. apply Hraw, at_win_len.
  Qed.
End PermutedRefine.

(* (P2) one row of refine_com on the image with permuted axes *)
Theorem refine_at_permuted : forall axes inv P im1 im2 start,
  axes_pair (length (shape im1)) axes inv -> axes_permuted axes im1 im2 ->
  length (lp_radius P) = length (shape im1) ->
  row_permuted axes (refine_at P im1 start) (refine_at (lp_perm axes P) im2 (zperm axes start)).
Proof.
  intros axes inv P im1 im2 start Hax [Es Hp] Hr.
  unfold refine_at, refine_python, ref_run, lp_perm.
  cbn [lp_radius lp_thresh lp_maxit lp_char]. rewrite Es. rewrite <- Hr in Hax, Hp.
  assert (Hm : forall p, binary_mask (zperm axes (lp_radius P)) (zperm axes p) = binary_mask (lp_radius P) p)
    by (intros; apply (binary_mask_permute axes inv (lp_radius P) Hax)).
  destruct (ref_loop_permute (pix im1) (pix im2) axes inv (lp_radius P) (shape im1) (lp_thresh P)
              (binary_mask (lp_radius P)) (binary_mask (zperm axes (lp_radius P)))
              Hax Hp Hm (pred (iters_of (lp_maxit P))) start) as [E1 E2].
  apply ref_output_permute with (inv := inv) (sh1 := shape im1); solve [assumption | symmetry; assumption].
Qed.

(* ============================ the discrete pipeline under an axis permutation *)
Section PermutedPipeline.
  Variable percentile : list Z -> Q.
  Hypothesis percentile_perm : forall l l', Permutation l l' -> percentile l = percentile l'.

  (* (P3) locate's table before the tail on np.transpose(image, axes), per-axis parameters
     taken in the same axis order: the same rows as a multiset, every row permuted *)
  Theorem locate_discrete_permuted : forall axes inv im1 im2 P,
    axes_pair (length (shape im1)) axes inv -> axes_permuted axes im1 im2 ->
    length (lp_sep P) = length (shape im1) -> length (lp_margin P) = length (shape im1) ->
    length (lp_radius P) = length (shape im1) ->
    Forall (fun s => 1 <= s) (sizes_of im1 (lp_sep P)) ->
    exists rows, Permutation (locate_discrete percentile (lp_perm axes P) im2) rows /\
                 Forall2 (row_permuted axes) (locate_discrete percentile P im1) rows.
  Proof.
    intros axes inv im1 im2 P Hax Ht Hsep Hmg Hrad Hsz.
    exists (map (refine_at (lp_perm axes P) im2) (map (zperm axes) (find_maxima percentile P im1))). split.
    - unfold locate_discrete. apply Permutation_map.
      apply (maxima_permuted_perm percentile percentile_perm axes inv); assumption.
    - unfold locate_discrete. rewrite map_map. apply Forall2_map_in. intros p Hp.
      apply (refine_at_permuted axes inv); assumption.
  Qed.
End PermutedPipeline.

(* ================================== every permutation of 0..n-1 has an inverse *)
Fixpoint find_index (j : nat) (l : list nat) : nat :=
  match l with
  | [] => 0%nat
  | a :: t => if Nat.eqb a j then 0%nat else S (find_index j t)
  end.
(* np.argsort(axes) *)
Definition inv_of (axes : list nat) : list nat := map (fun j => find_index j axes) (seq 0 (length axes)).

Lemma find_index_in : forall j l, In j l -> (find_index j l < length l)%nat /\ nth (find_index j l) l 0%nat = j.
Proof.
  induction l as [|a l IH]; intros H; [destruct H|]. cbn [find_index].
  destruct (Nat.eqb_spec a j) as [->|Hne]; cbn; [split; [lia|reflexivity]|].
  destruct H as [E|H]; [congruence|]. destruct (IH H). split; [lia|assumption].
Qed.

Lemma find_index_nth : forall l k, NoDup l -> (k < length l)%nat -> find_index (nth k l 0%nat) l = k.
Proof.
  induction l as [|a l IH]; intros k Hn Hk; [cbn in Hk; lia|]. inversion Hn; subst.
  destruct k; cbn [nth find_index]; [rewrite Nat.eqb_refl; reflexivity|].
  cbn in Hk. destruct (Nat.eqb_spec a (nth k l 0%nat)) as [E|_].
  - exfalso. apply H1. rewrite E. apply nth_In. lia.
  - f_equal. apply IH; [assumption|lia].
Qed.

Theorem axes_pair_of_permutation : forall n axes, Permutation axes (seq 0 n) -> axes_pair n axes (inv_of axes).
Proof.
  intros n axes Hp.
  assert (L : length axes = n) by (rewrite (Permutation_length Hp); apply seq_length).
  assert (Hnd : NoDup axes) by (apply (Permutation_NoDup (Permutation_sym Hp)), seq_NoDup).
  assert (Hin : forall j, (j < n)%nat -> In j axes)
    by (intros j Hj; apply (Permutation_in _ (Permutation_sym Hp)), in_seq; lia).
  assert (Hlt : forall k, (k < n)%nat -> (nth k axes 0 < n)%nat).
  { intros k Hk. assert (In (nth k axes 0%nat) (seq 0 n)) by (apply (Permutation_in _ Hp), nth_In; lia).
    apply in_seq in H. lia. }
  assert (Einv : forall j, (j < n)%nat -> nth j (inv_of axes) 0%nat = find_index j axes).
  { intros j Hj. unfold inv_of. rewrite L. rewrite nth_map_seq by exact Hj. reflexivity. }
  split; split.
  - exact L.
  - intros k Hk. split; [apply Hlt, Hk|].
    rewrite Einv by (apply Hlt, Hk). apply find_index_nth; [exact Hnd|lia].
  - unfold inv_of. rewrite map_length, seq_length. exact L.
  - intros j Hj. rewrite Einv by exact Hj. destruct (find_index_in j axes (Hin j Hj)) as [A B].
    split; [lia|exact B].
Qed.

(* the same two theorems, stated for any list [axes] that is a permutation of 0..n-1 *)
Corollary refine_at_axes : forall axes P im1 im2 start,
  Permutation axes (seq 0 (length (shape im1))) -> axes_permuted axes im1 im2 ->
  length (lp_radius P) = length (shape im1) ->
  row_permuted axes (refine_at P im1 start) (refine_at (lp_perm axes P) im2 (zperm axes start)).
Proof.
  intros axes P im1 im2 start Hp. apply (refine_at_permuted axes (inv_of axes)).
  apply axes_pair_of_permutation, Hp.
Qed.

Corollary locate_discrete_axes :
  forall (percentile : list Z -> Q),
    (forall l l', Permutation l l' -> percentile l = percentile l') ->
  forall axes im1 im2 P,
    Permutation axes (seq 0 (length (shape im1))) -> axes_permuted axes im1 im2 ->
    length (lp_sep P) = length (shape im1) -> length (lp_margin P) = length (shape im1) ->
    length (lp_radius P) = length (shape im1) ->
    Forall (fun s => 1 <= s) (sizes_of im1 (lp_sep P)) ->
    exists rows, Permutation (locate_discrete percentile (lp_perm axes P) im2) rows /\
                 Forall2 (row_permuted axes) (locate_discrete percentile P im1) rows.
Proof.
  intros percentile Hperc axes im1 im2 P Hp.
  apply (locate_discrete_permuted percentile Hperc axes (inv_of axes)).
  apply axes_pair_of_permutation, Hp.
Qed.

(* numpy .T is the axis order n-1, ..., 0 *)
Lemma permute_rev_seq : forall (A : Type) (def : A) (v : list A),
  permute def (rev (seq 0 (length v))) v = rev v.
Proof.
  intros. unfold permute. rewrite map_rev. f_equal.
  apply (nth_ext _ _ def def); [rewrite map_length, seq_length; reflexivity|].
  intros k Hk. rewrite map_length, seq_length in Hk. rewrite nth_map_seq by exact Hk. reflexivity.
Qed.

(* ------------------------------------------------ np.transpose as a constructor *)
Definition transpose_axes (axes : list nat) (im : image) : image :=
  let sh := zperm axes (shape im) in
  {| shape := sh; data := arr_of sh (fun q => pix im (zperm (inv_of axes) q)) |}.

Theorem transpose_axes_permuted : forall axes im,
  Permutation axes (seq 0 (length (shape im))) ->
  (forall p, pix im p <> 0 -> in_bounds (shape im) p) ->
  axes_permuted axes im (transpose_axes axes im).
Proof.
  intros axes im Hp Hw. pose proof (axes_pair_of_permutation _ _ Hp) as Hax.
  split; [reflexivity|]. intros p Lp. unfold transpose_axes, pix at 1. cbn [data].
  rewrite get_arr_of.
  rewrite (permute_cancel _ (inv_of axes) axes Z 0 p (axes_pair_sym _ _ _ Hax) Lp).
  destruct (inb _ _) eqn:E; [reflexivity|].
  destruct (Z.eq_dec (pix im p) 0) as [E0|E0]; [symmetry; exact E0|].
  apply Hw in E0.
  apply (in_bounds_permute1 _ axes (inv_of axes) _ _ Hax eq_refl) in E0.
  apply inb_iff in E0. congruence.
Qed.

(* ---------------------------------------------------- a 3-D instance *)
(* an ellipsoidal blob at (4, 5, 6) in a 9x10x12 volume, diameter (3, 5, 5); the volume
   with its axes taken in the order (2, 0, 1): shape 12x9x10 *)
Definition ex3_blob (c : list Z) : Z :=
  Z.max 0 (12 - 3 * ((ix c 0 - 4) * (ix c 0 - 4)) - 2 * ((ix c 1 - 5) * (ix c 1 - 5)) - (ix c 2 - 6) * (ix c 2 - 6)).
Definition ex3_im : image := tab [9; 10; 12] ex3_blob.
Definition ex3_P : lparams := mkLP [3#1; 5#1; 5#1]%Q [1; 2; 2] [1; 2; 2] (3 # 5) 3 true.
Definition ex3_axes : list nat := [2; 0; 1]%nat.

Lemma ex3_premises :
  Permutation ex3_axes (seq 0 (length (shape ex3_im))) /\
  axes_permuted ex3_axes ex3_im (transpose_axes ex3_axes ex3_im) /\
  length (lp_sep ex3_P) = length (shape ex3_im) /\ length (lp_margin ex3_P) = length (shape ex3_im) /\
  length (lp_radius ex3_P) = length (shape ex3_im) /\
  Forall (fun s => 1 <= s) (sizes_of ex3_im (lp_sep ex3_P)).
Proof.
  assert (Hp : Permutation ex3_axes (seq 0 (length (shape ex3_im)))).
  { cbn. apply (Permutation_cons_app [0%nat; 1%nat] [] 2%nat). apply Permutation_refl. }
  split; [exact Hp|]. split; [apply transpose_axes_permuted; [exact Hp|apply tab_wf]|].
  repeat split.
  assert (E : sizes_of ex3_im (lp_sep ex3_P) = [3; 5; 5]) by (vm_compute; reflexivity).
  rewrite E. repeat constructor; lia.
Qed.

Lemma ex3_locate_permuted :
  shape (transpose_axes ex3_axes ex3_im) = [12; 9; 10] /\
  locate_discrete ex_percentile ex3_P ex3_im =
    [mkOut [528 # 132; 660 # 132; 792 # 132]%Q 132 (Some ([54 # 132; 264 # 132; 366 # 132]%Q, 12, 132))] /\
  locate_discrete ex_percentile (lp_perm ex3_axes ex3_P) (transpose_axes ex3_axes ex3_im) =
    [mkOut [792 # 132; 528 # 132; 660 # 132]%Q 132 (Some ([366 # 132; 54 # 132; 264 # 132]%Q, 12, 132))].
Proof. vm_compute. repeat split. Qed.
