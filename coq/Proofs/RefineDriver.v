(* Proofs about Model/RefineDriver.v:
   - failure isolation: whatever the optimiser does, a unit that ends in
     RefineException only gets cost := NaN, every unit's outcome is a function
     of its own rows of the *input* table, rows of no unit are untouched;
   - success within bounds, under the only assumption made on SLSQP: a
     successful result lies inside the box it was given;
   - the model raises exactly when the box is empty or max_iter = 0. *)
From Coq Require Import QArith List Bool Arith Lia.
From TP Require Import Model.RefineBounds Model.RefineDriver Proofs.RefineBounds.
Import ListNotations.
Open Scope Q_scope.

(* ---- set_nth / scatter / write_cols ---------------------------------------- *)
Lemma set_nth_length : forall {A} (l : list A) i v, length (set_nth i v l) = length l.
Proof. induction l; destruct i; simpl; intros; auto. Qed.

Lemma set_nth_other : forall {A} (l : list A) i j v d, j <> i -> nth j (set_nth i v l) d = nth j l d.
Proof.
  induction l; intros i j v d H; destruct i; simpl; auto.
  - destruct j; [congruence | reflexivity].
  - destruct j; auto.
Qed.

Lemma set_nth_same : forall {A} (l : list A) i v d, (i < length l)%nat -> nth i (set_nth i v l) d = v.
Proof. induction l; intros i v d H; simpl in H; [lia|]. destruct i; simpl; auto. apply IHl. lia. Qed.

Lemma scatter_length : forall {A} idx (vals col : list A), length (scatter idx vals col) = length col.
Proof.
  induction idx; intros vals col; simpl; auto. destruct vals; auto.
  rewrite IHidx. apply set_nth_length.
Qed.

Lemma scatter_other : forall {A} idx (vals col : list A) j d,
  ~ In j idx -> nth j (scatter idx vals col) d = nth j col d.
Proof.
  induction idx; intros vals col j d H; simpl; auto. destruct vals; auto.
  rewrite IHidx by (simpl in H; tauto). apply set_nth_other. simpl in H. intro; subst; tauto.
Qed.

Lemma scatter_hit : forall {A} idx (vals col : list A) k d,
  NoDup idx -> (k < length idx)%nat -> (k < length vals)%nat -> (nth k idx 0 < length col)%nat ->
  nth (nth k idx 0%nat) (scatter idx vals col) d = nth k vals d.
Proof.
  induction idx; intros vals col k d ND Hk Hv Hr; simpl in Hk; [lia|].
  destruct vals as [|v vs]; simpl in Hv; [lia|]. inversion ND; subst.
  destruct k; simpl in *.
  - rewrite scatter_other by auto. apply set_nth_same. auto.
  - apply IHidx; auto; try lia. rewrite set_nth_length. auto.
Qed.

Lemma scatter_repeat_hit : forall {A} idx (c : A) col i d,
  In i idx -> (i < length col)%nat -> nth i (scatter idx (repeat c (length idx)) col) d = c.
Proof.
  induction idx; intros c col i d Hin Hr; simpl in *; [tauto|].
  destruct (in_dec Nat.eq_dec i idx) as [I|N].
  - apply IHidx; auto. rewrite set_nth_length. auto.
  - destruct Hin as [->|]; [|tauto]. rewrite scatter_other by auto. apply set_nth_same. auto.
Qed.

Lemma write_cols_length : forall idx p cols, length (write_cols idx p cols) = length cols.
Proof. intros idx p cols. revert p. induction cols; destruct p; simpl; auto. Qed.

Lemma write_cols_nth : forall idx p cols j,
  (j < length p)%nat -> (j < length cols)%nat ->
  nth j (write_cols idx p cols) [] = scatter idx (map Fin (nth j p [])) (nth j cols []).
Proof.
  intros idx p cols. revert p. induction cols; intros p j Hp Hc; simpl in Hc; [lia|].
  destruct p; simpl in Hp; [lia|]. destruct j; simpl; auto. apply IHcols; lia.
Qed.

Lemma write_cols_other : forall idx p cols j i d,
  ~ In i idx -> nth i (nth j (write_cols idx p cols) []) d = nth i (nth j cols []) d.
Proof.
  intros idx p cols. revert p. induction cols; intros p j i d H.
  - destruct p; reflexivity.
  - destruct p; [reflexivity|]. destruct j; simpl.
    + apply scatter_other; auto.
    + apply IHcols; auto.
Qed.

Lemma write_cols_col_length : forall idx p cols j,
  length (nth j (write_cols idx p cols) []) = length (nth j cols []).
Proof.
  intros idx p cols; revert p; induction cols; intros p j; destruct p; simpl; auto.
  destruct j; simpl; [apply scatter_length | apply IHcols].
Qed.

(* the rows a unit reads depend only on those rows *)
Lemma select_frame : forall idx (cols cols' : list (list ext)),
  length cols = length cols' ->
  (forall i, In i idx -> forall j d, nth i (nth j cols []) d = nth i (nth j cols' []) d) ->
  map (select NaN idx) cols = map (select NaN idx) cols'.
Proof.
  intros idx cols. induction cols; intros cols' L H; destruct cols'; simpl in L; try lia; auto.
  simpl. f_equal.
  - unfold select. apply map_ext_in. intros i Hi. apply (H i Hi 0%nat).
  - apply IHcols; [lia|]. intros i Hi j d. apply (H i Hi (S j)).
Qed.

Section Isolation.
  Variable in_image : list (list Q) -> bool.
  Variable opt : list ext -> list ext -> list Q -> list (list Q) -> list (list Q) -> ores.
  Variable ps : list pkind.
  Variable modes : list nat.
  Variable ndim : nat.
  Variable bd : bdict.
  Variable radius : list Q.
  Variable max_iter : nat.
  Variable max_shift max_rms_dev : Q.

  Local Notation fit := (fit in_image opt ps modes ndim bd radius max_iter max_shift max_rms_dev).
  Local Notation step := (step in_image opt ps modes ndim bd radius max_iter max_shift max_rms_dev).
  Local Notation run := (run in_image opt ps modes ndim bd radius max_iter max_shift max_rms_dev).

  (* the outcome of a unit evaluated on a table *)
  Definition outcome_on (t : tbl) (u : unit_t) : outcome :=
    fit (snd u) (map (select NaN (fst u)) (pcols t)).

  Definition same_row (t t' : tbl) (i : nat) : Prop :=
    (forall j d, nth i (nth j (pcols t') []) d = nth i (nth j (pcols t) []) d) /\
    (forall d, nth i (cost t') d = nth i (cost t) d).

  Lemma step_frame : forall t u t', step t u = Some t' ->
    length (pcols t') = length (pcols t) /\ length (cost t') = length (cost t) /\
    forall i, ~ In i (fst u) -> same_row t t' i.
  Proof.
    intros t u t' H. unfold RefineDriver.step in H.
    destruct (RefineDriver.fit _ _ _ _ _ _ _ _ _ _ _ _) as [|p r|]; inversion H; subst; clear H; simpl.
    - split; auto. split; [apply scatter_length|]. intros i N. split; simpl; auto.
      intros d. apply scatter_other; auto.
    - split; [apply write_cols_length|]. split; [apply scatter_length|]. intros i N. split; simpl.
      + intros j d. apply write_cols_other; auto.
      + intros d. apply scatter_other; auto.
  Qed.

  Lemma step_cols_length : forall t u t', step t u = Some t' ->
    forall j, length (nth j (pcols t') []) = length (nth j (pcols t) []).
  Proof.
    intros t u t' H j. unfold RefineDriver.step in H.
    destruct (RefineDriver.fit _ _ _ _ _ _ _ _ _ _ _ _) as [|p r|]; inversion H; subst; clear H; simpl; auto.
    apply write_cols_col_length.
  Qed.

  Lemma run_frame : forall us t t', run t us = Some t' ->
    length (pcols t') = length (pcols t) /\ length (cost t') = length (cost t) /\
    forall i, (forall u, In u us -> ~ In i (fst u)) -> same_row t t' i.
  Proof.
    induction us as [|u us IH]; intros t t' H; simpl in H.
    - inversion H; subst. repeat split; auto.
    - destruct (step t u) as [t1|] eqn:S; [|discriminate].
      apply step_frame in S. destruct S as (L1 & C1 & F1).
      apply IH in H. destruct H as (L2 & C2 & F2).
      split; [congruence|]. split; [congruence|].
      intros i N. destruct (F1 i) as (A1 & B1); [apply N; simpl; auto|].
      destruct (F2 i) as (A2 & B2); [intros v Hv; apply N; simpl; auto|].
      split; intros; [rewrite A2, A1 | rewrite B2, B1]; reflexivity.
  Qed.

  Definition disjoint_units (us : list unit_t) : Prop :=
    ForallOrdPairs (fun u v => forall i, In i (fst u) -> ~ In i (fst v)) us.

  (* what the call leaves in the rows of a unit, given the unit's outcome *)
  Definition unit_result (t0 t : tbl) (u : unit_t) (o : outcome) : Prop :=
    match o with
    | Failed =>
        forall i, In i (fst u) ->
          (forall j d, nth i (nth j (pcols t) []) d = nth i (nth j (pcols t0) []) d) /\
          ((i < length (cost t0))%nat -> nth i (cost t) PInf = NaN)
    | Fitted p r =>
        (forall i, In i (fst u) -> (i < length (cost t0))%nat -> nth i (cost t) PInf = Fin r) /\
        (forall k j, NoDup (fst u) -> (k < length (fst u))%nat ->
           (j < length p)%nat -> (j < length (pcols t0))%nat -> (k < length (nth j p []))%nat ->
           (nth k (fst u) 0 < length (nth j (pcols t0) []))%nat ->
           nth (nth k (fst u) 0%nat) (nth j (pcols t) []) PInf = Fin (nth k (nth j p []) 0))
    | Raised => False
    end.

  Lemma step_result : forall t u t', step t u = Some t' -> unit_result t t' u (outcome_on t u).
  Proof.
    intros t u t' H. unfold outcome_on. unfold RefineDriver.step in H.
    destruct (RefineDriver.fit _ _ _ _ _ _ _ _ _ _ _ _) as [|p r|]; inversion H; subst; clear H; simpl.
    - intros i Hi. split; auto. intros Hr. apply scatter_repeat_hit; auto.
    - split.
      + intros i Hi Hr. apply scatter_repeat_hit; auto.
      + intros k j ND Hk Hj Hc Hl Hr. rewrite write_cols_nth by auto.
        rewrite scatter_hit; auto.
        * rewrite nth_indep with (d' := Fin 0) by (rewrite map_length; auto).
          apply (map_nth Fin).
        * rewrite map_length. auto.
  Qed.

  (* a result established right after a unit's own step survives the later,
     disjoint steps *)
  Lemma unit_result_frame : forall t0 t1 t u o,
    unit_result t0 t1 u o ->
    length (cost t1) = length (cost t0) ->
    (forall i, In i (fst u) -> same_row t1 t i) ->
    unit_result t0 t u o.
  Proof.
    intros t0 t1 t u o H C F. destruct o as [|p r|]; simpl in *; auto.
    - intros i Hi. destruct (H i Hi) as (A & B). destruct (F i Hi) as (A' & B').
      split; intros; [rewrite A'; apply A | rewrite B'; apply B; auto].
    - destruct H as (H1 & H2). split.
      + intros i Hi Hr. destruct (F i Hi) as (_ & B'). rewrite B'. apply H1; auto.
      + intros k j ND Hk Hj Hc Hl Hr.
        destruct (F (nth k (fst u) 0%nat)) as (A' & _); [apply nth_In; auto|].
        rewrite A'. apply H2; auto.
  Qed.

  Theorem failure_isolated : forall us t0 t,
    disjoint_units us -> run t0 us = Some t ->
    (forall u, In u us -> unit_result t0 t u (outcome_on t0 u)) /\
    (forall i, (forall u, In u us -> ~ In i (fst u)) -> same_row t0 t i).
  Proof.
    intros us t0 t D H. split; [|apply (run_frame us t0 t H)].
    revert t0 t D H. induction us as [|u us IH]; intros t0 t D H v Hv; [destruct Hv|].
    simpl in H. destruct (step t0 u) as [t1|] eqn:S; [|discriminate].
    inversion D as [|? ? Du Dus]; subst.
    pose proof (step_frame _ _ _ S) as (L1 & C1 & F1).
    pose proof (run_frame _ _ _ H) as (L2 & C2 & F2).
    destruct Hv as [<-|Hv].
    - apply unit_result_frame with (t1 := t1); auto.
      + apply step_result; auto.
      + intros i Hi. apply F2. intros w Hw Hiw. rewrite Forall_forall in Du. exact (Du w Hw i Hi Hiw).
    - assert (E : outcome_on t0 v = outcome_on t1 v).
      { unfold outcome_on. f_equal. apply select_frame; [congruence|].
        intros i Hi j d. destruct (F1 i) as (A & _).
        - intro Hu. rewrite Forall_forall in Du. exact (Du v Hv i Hu Hi).
        - symmetry. apply A. }
      rewrite E. specialize (IH t1 t Dus H v Hv).
      (* transport the statement about t1 to t0: rows of v agree in t0 and t1 *)
      assert (Same : forall i, In i (fst v) -> same_row t0 t1 i).
      { intros i Hi. apply F1. intro Hu. rewrite Forall_forall in Du. exact (Du v Hv i Hu Hi). }
      destruct (outcome_on t1 v) as [|p r|]; simpl in *; auto.
      + intros i Hi. destruct (IH i Hi) as (A & B). destruct (Same i Hi) as (A' & _).
        split; intros; [rewrite A; apply A' | apply B; lia].
      + destruct IH as (H1 & H2). split.
        * intros i Hi Hr. apply H1; auto. lia.
        * intros k j ND Hk Hj Hc Hl Hr. apply H2; auto; try lia.
          destruct (Same (nth k (fst v) 0%nat)) as (A' & _); [apply nth_In; auto|].
          assert (LL : length (nth j (pcols t1) []) = length (nth j (pcols t0) [])).
          { apply (step_cols_length t0 u t1 S j). }
          lia.
  Qed.
End Isolation.

(* ---- success within bounds --------------------------------------------------- *)
Lemma shape_len : forall {A B} (a : list (list A)) (b : list (list B)), shape a = shape b ->
  length a = length b /\ forall j, length (nth j a []) = length (nth j b []).
Proof.
  intros A B a. induction a; destruct b; simpl; intros H; try discriminate.
  - split; auto. intros j; destruct j; reflexivity.
  - inversion H. destruct (IHa b H2) as (L & N). split; [lia|]. destruct j; simpl; auto.
Qed.

Lemma Forall2_len_shape : forall {A B} (l1 : list (list A)) (l2 : list (list B)),
  Forall2 (fun b c => length b = length c) l1 l2 <-> shape l1 = shape l2.
Proof.
  intros A B l1. induction l1; destruct l2; simpl; split; intro H; try (inversion H; fail); auto.
  - inversion H; subst. f_equal; auto. apply IHl1; auto.
  - inversion H. constructor; auto. apply IHl1; auto.
Qed.

Lemma entry_ok_old : forall R m g b old old' new i,
  (m = 0%nat -> nth i old 0 = nth i old' 0) ->
  entry_ok R m g b old new i -> entry_ok R m g b old' new i.
Proof.
  intros R m g b old old' new i H E. destruct m as [|[|[|m]]]; simpl in *; auto.
  rewrite E. auto.
Qed.

Section Success.
  Variable in_image : list (list Q) -> bool.
  Variable opt : list ext -> list ext -> list Q -> list (list Q) -> list (list Q) -> ores.
  Variable ps : list pkind.
  Variable modes : list nat.
  Variable ndim : nat.
  Variable bd : bdict.
  Variable radius : list Q.
  Variable max_iter : nat.
  Variable max_shift max_rms_dev : Q.

  (* the only thing assumed about scipy's SLSQP: a result reported as success
     lies inside the bounds it was given *)
  Definition opt_in_box : Prop := forall lo hi v pc co x r,
    opt lo hi v pc co = OSucc x r -> Forall2 sat_low lo x /\ Forall2 sat_high hi x.
  Hypothesis contract : opt_in_box.

  Local Notation fit := (fit in_image opt ps modes ndim bd radius max_iter max_shift max_rms_dev).
  Local Notation loop := (loop in_image opt modes ndim max_shift).
  Local Notation bs := (validate_bounds bd radius ps).

  Variable g : grouping.
  Variable params0 : list (list Q).          (* the start values of the unit *)
  Hypothesis Lmodes : length modes = length params0.
  Hypothesis Lps : length ps = length params0.

  Definition Good (p : list (list Q)) : Prop :=
    shape p = shape params0 /\
    forall j i, (j < length params0)%nat -> (i < length (nth j params0 []))%nat ->
      entry_ok sat_low (nth j modes 0%nat) g (nth j (lows bs params0) []) (nth j params0 []) (nth j p []) i /\
      entry_ok sat_high (nth j modes 0%nat) g (nth j (highs bs params0) []) (nth j params0 []) (nth j p []) i.

  Definition Pre (p : list (list Q)) : Prop :=
    shape p = shape params0 /\
    forall j i, nth j modes 0%nat = 0%nat -> nth i (nth j p []) 0 = nth i (nth j params0 []) 0.

  Lemma Lbs : length bs = length params0.
  Proof. unfold validate_bounds. rewrite map_length. exact Lps. Qed.

  Lemma unpack_step : forall pcur x,
    Pre pcur ->
    Forall2 sat_low (box_low bs modes g params0) x ->
    Forall2 sat_high (box_high bs modes g params0) x ->
    Good (unpack modes g x pcur) /\ Pre (unpack modes g x pcur).
  Proof.
    intros pcur x (Sh & Const) Hlo Hhi.
    destruct (shape_len _ _ Sh) as (Lc & Lj).
    assert (SL : shape (lows bs params0) = shape pcur).
    { rewrite Sh. apply Forall2_len_shape. apply lows_shape. apply Lbs. }
    assert (SH : shape (highs bs params0) = shape pcur).
    { rewrite Sh. apply Forall2_len_shape. apply highs_shape. apply Lbs. }
    destruct (shape_len _ _ SL) as (LL & _). destruct (shape_len _ _ SH) as (LH & _).
    destruct (unpack_ok sat_low emin_list emin_list_low modes g (lows bs params0) pcur x) as (S1 & E1);
      try congruence; [apply Forall2_len_shape; auto | exact Hlo |].
    destruct (unpack_ok sat_high emax_list emax_list_high modes g (highs bs params0) pcur x) as (S2 & E2);
      try congruence; [apply Forall2_len_shape; auto | exact Hhi |].
    apply shape_Forall2 in S1.
    assert (G : Good (unpack modes g x pcur)).
    { split; [congruence|]. intros j i Hj Hi. rewrite <- Lc in Hj. rewrite <- Lj in Hi. split.
      - eapply entry_ok_old; [|apply E1; auto]. intro M. apply Const; auto.
      - eapply entry_ok_old; [|apply E2; auto]. intro M. apply Const; auto. }
    split; auto. split; [congruence|].
    intros j i M.
    destruct (Nat.lt_ge_cases j (length pcur)) as [Hj|Hj].
    - destruct (Nat.lt_ge_cases i (length (nth j pcur []))) as [Hi|Hi].
      + specialize (E1 j i Hj Hi). rewrite M in E1. simpl in E1. rewrite E1. apply Const; auto.
      + destruct (shape_len _ _ S1) as (_ & Lu). rewrite !nth_overflow; auto.
        * rewrite <- Lj. auto.
        * rewrite Lu. auto.
    - destruct (shape_len _ _ S1) as (Lu0 & _).
      rewrite (nth_overflow (unpack modes g x pcur)) by lia.
      rewrite (nth_overflow params0) by lia. destruct i; reflexivity.
  Qed.

  Lemma loop_good : forall fuel pcur coords rms p r,
    Pre pcur -> (rms = None \/ Good pcur) ->
    loop fuel g (box_low bs modes g params0) (box_high bs modes g params0)
         (pack 0 qmean modes g params0) pcur coords rms = LDone p (Some r) ->
    Good p.
  Proof.
    induction fuel; intros pcur coords rms p r HP HG H; simpl in H.
    - inversion H; subst. destruct HG; [discriminate | auto].
    - destruct (negb (in_image coords)); [discriminate|].
      destruct (box_empty _ _); [discriminate|].
      destruct (opt _ _ _ _ _) as [|x r0] eqn:O; [discriminate|].
      apply contract in O. destruct O as (Hlo & Hhi).
      destruct (unpack_step pcur x HP Hlo Hhi) as (G' & P').
      destruct (all_small _ _ _).
      + inversion H; subst. auto.
      + eapply IHfuel; eauto.
  Qed.

  Lemma Pre_start : Pre params0.
  Proof. split; auto. Qed.

  Theorem fit_success_good : forall params_e p r,
    all_fin2 params_e = Some params0 -> fit g params_e = Fitted p r -> Good p.
  Proof.
    intros params_e p r F H. unfold RefineDriver.fit in H. rewrite F in H.
    destruct (RefineDriver.loop _ _ _ _ _ _ _ _ _ _ _ _ _) as [| |p' [r'|]] eqn:L; try discriminate.
    destruct (Qlt_b max_rms_dev r'); [discriminate|]. inversion H; subst.
    eapply loop_good; [apply Pre_start | left; reflexivity | exact L].
  Qed.

  (* --- readable consequences -------------------------------------------- *)
  (* the six constraints of parameter j on feature i, from the requested or
     default bounds of that parameter and the feature's start value *)
  Definition within_all (b : pbnd) (start v : Q) : Prop :=
    sat_low (esub start (fst (b_diff b))) v /\ sat_low (ediv start (fst (b_rel b))) v /\ sat_low (fst (b_abs b)) v /\
    sat_high (eadd start (snd (b_diff b))) v /\ sat_high (emul start (snd (b_rel b))) v /\ sat_high (snd (b_abs b)) v.
  Definition within_abs (b : pbnd) (v : Q) : Prop :=
    sat_low (fst (b_abs b)) v /\ sat_high (snd (b_abs b)) v.

  Lemma nth_lows : forall j i, (j < length params0)%nat -> (i < length (nth j params0 []))%nat ->
    nth i (nth j (lows bs params0) []) NaN =
    bound_low (nth i (nth j params0 []) 0) (fst (b_abs (nth j bs (validate_one bd radius PSignal))))
              (fst (b_diff (nth j bs (validate_one bd radius PSignal)))) (fst (b_rel (nth j bs (validate_one bd radius PSignal)))).
  Proof.
    intros j i Hj Hi. unfold lows.
    rewrite nth_map2 with (da := validate_one bd radius PSignal) (db := []) by (rewrite ?Lbs; auto).
    unfold low_col.
    match goal with |- nth i (map ?f ?l) NaN = _ =>
      rewrite nth_indep with (d' := f 0) by (rewrite map_length; auto); rewrite (map_nth f) end.
    reflexivity.
  Qed.
  Lemma nth_highs : forall j i, (j < length params0)%nat -> (i < length (nth j params0 []))%nat ->
    nth i (nth j (highs bs params0) []) NaN =
    bound_high (nth i (nth j params0 []) 0) (snd (b_abs (nth j bs (validate_one bd radius PSignal))))
              (snd (b_diff (nth j bs (validate_one bd radius PSignal)))) (snd (b_rel (nth j bs (validate_one bd radius PSignal)))).
  Proof.
    intros j i Hj Hi. unfold highs.
    rewrite nth_map2 with (da := validate_one bd radius PSignal) (db := []) by (rewrite ?Lbs; auto).
    unfold high_col.
    match goal with |- nth i (map ?f ?l) NaN = _ =>
      rewrite nth_indep with (d' := f 0) by (rewrite map_length; auto); rewrite (map_nth f) end.
    reflexivity.
  Qed.

  Lemma length_lows_col : forall j, (j < length params0)%nat ->
    length (nth j (lows bs params0) []) = length (nth j params0 []).
  Proof.
    intros j Hj. pose proof (lows_shape bs params0 Lbs) as F. apply Forall2_len_shape in F.
    apply shape_len in F. apply F.
  Qed.
  Lemma length_highs_col : forall j, (j < length params0)%nat ->
    length (nth j (highs bs params0) []) = length (nth j params0 []).
  Proof.
    intros j Hj. pose proof (highs_shape bs params0 Lbs) as F. apply Forall2_len_shape in F.
    apply shape_len in F. apply F.
  Qed.

  (* groups (global level) cover the rows and stay in range: what
     DataFrame.groupby('cluster').indices delivers *)
  Definition groups_ok (n : nat) : Prop :=
    match g with
    | None => True
    | Some gs => (forall i, (i < n)%nat -> exists grp, In grp gs /\ In i grp) /\
                 (forall grp i, In grp gs -> In i grp -> (i < n)%nat)
    end.

  Theorem fit_success_in_bounds : forall params_e p r,
    all_fin2 params_e = Some params0 -> fit g params_e = Fitted p r ->
    shape p = shape params0 /\
    forall j i, (j < length params0)%nat -> (i < length (nth j params0 []))%nat ->
      let b := nth j bs (validate_one bd radius PSignal) in
      let start := nth i (nth j params0 []) 0 in
      let v := nth i (nth j p []) 0 in
      match nth j modes 0%nat with
      | 0%nat => v = start                                    (* const: copied *)
      | 1%nat => within_all b start v                         (* var: every requested and default bound *)
      | _ => groups_ok (length (nth j params0 [])) -> within_abs b v   (* global / cluster: the absolute bounds *)
      end.
  Proof.
    intros params_e p r F H. destruct (fit_success_good _ _ _ F H) as (Sh & E). split; auto.
    intros j i Hj Hi b start v. destruct (E j i Hj Hi) as (El & Eh).
    assert (Whole : (exists i', (i' < length (nth j (lows bs params0) []))%nat /\
                        sat_low (nth i' (nth j (lows bs params0) []) NaN) v) ->
                    (exists i', (i' < length (nth j (highs bs params0) []))%nat /\
                        sat_high (nth i' (nth j (highs bs params0) []) NaN) v) -> within_abs b v).
    { intros (i1 & L1 & S1) (i2 & L2 & S2). rewrite length_lows_col in L1 by auto.
      rewrite length_highs_col in L2 by auto.
      rewrite nth_lows in S1 by auto. rewrite nth_highs in S2 by auto.
      apply bound_low_spec in S1. apply bound_high_spec in S2. unfold within_abs, b. tauto. }
    destruct (nth j modes 0%nat) as [|[|[|m]]] eqn:M; simpl in El, Eh.
    - exact El.
    - fold v in El, Eh. rewrite nth_lows in El by auto. rewrite nth_highs in Eh by auto.
      apply bound_low_spec in El. apply bound_high_spec in Eh. unfold within_all, b, start. tauto.
    - intros _. apply Whole; auto.
    - intros GO. unfold groups_ok in GO. destruct g as [gs|].
      + destruct GO as (Cov & Rng).
        destruct (El (Cov i Hi)) as (grp1 & i1 & G1 & _ & I1 & S1).
        destruct (Eh (Cov i Hi)) as (grp2 & i2 & G2 & _ & I2 & S2).
        apply Whole.
        * exists i1. split; [rewrite length_lows_col by auto; exact (Rng grp1 i1 G1 I1) | exact S1].
        * exists i2. split; [rewrite length_highs_col by auto; exact (Rng grp2 i2 G2 I2) | exact S2].
      + apply Whole; auto.
  Qed.
End Success.

(* ---- when does the model raise ------------------------------------------------ *)
Section Raise.
  Variable in_image : list (list Q) -> bool.
  Variable opt : list ext -> list ext -> list Q -> list (list Q) -> list (list Q) -> ores.
  Variable ps : list pkind.
  Variable modes : list nat.
  Variable ndim : nat.
  Variable bd : bdict.
  Variable radius : list Q.
  Variable max_iter : nat.
  Variable max_shift max_rms_dev : Q.
  Local Notation fit := (fit in_image opt ps modes ndim bd radius max_iter max_shift max_rms_dev).
  Local Notation loop := (loop in_image opt modes ndim max_shift).
  Local Notation bs := (validate_bounds bd radius ps).

  Lemma loop_no_raise : forall fuel g lo hi vect p co rms,
    box_empty lo hi = false -> loop fuel g lo hi vect p co rms <> LRaise.
  Proof.
    induction fuel; intros g lo hi vect p co rms E; simpl; [discriminate|].
    destruct (negb (in_image co)); [discriminate|]. rewrite E.
    destruct (opt _ _ _ _ _); [discriminate|].
    destruct (all_small _ _ _); [discriminate|]. apply IHfuel; auto.
  Qed.

  Lemma loop_rms : forall fuel g lo hi vect p co rms p',
    loop fuel g lo hi vect p co rms = LDone p' None -> rms = None /\ fuel = 0%nat.
  Proof.
    induction fuel; intros g lo hi vect p co rms p' H; simpl in H.
    - inversion H; auto.
    - destruct (negb (in_image co)); [discriminate|]. destruct (box_empty lo hi); [discriminate|].
      destruct (opt _ _ _ _ _); [discriminate|].
      destruct (all_small _ _ _); [discriminate|]. apply IHfuel in H. destruct H; discriminate.
  Qed.

  (* with a non-empty box and at least one iteration allowed, no exception
     leaves the try block of the model: every failure is a RefineException *)
  Theorem fit_no_raise : forall g params_e,
    (0 < max_iter)%nat ->
    (forall params0, all_fin2 params_e = Some params0 ->
       box_empty (box_low bs modes g params0) (box_high bs modes g params0) = false) ->
    fit g params_e <> Raised.
  Proof.
    intros g params_e Hm Hb. unfold RefineDriver.fit.
    destruct (all_fin2 params_e) as [params0|] eqn:F; [|discriminate].
    specialize (Hb params0 eq_refl).
    destruct (RefineDriver.loop _ _ _ _ _ _ _ _ _ _ _ _ _) as [| |p' [r'|]] eqn:L; try discriminate.
    - exfalso. eapply loop_no_raise; eauto.
    - destruct (Qlt_b max_rms_dev r'); discriminate.
    - apply loop_rms in L. lia.
  Qed.

  (* ... and an empty box (some lower bound above its upper bound) on a unit
     that is inside the image does raise (scipy's ValueError), whatever SLSQP does *)
  Theorem fit_raises_on_empty_box : forall g params_e params0,
    (0 < max_iter)%nat -> all_fin2 params_e = Some params0 ->
    in_image (coords_of ndim params0) = true ->
    box_empty (box_low bs modes g params0) (box_high bs modes g params0) = true ->
    fit g params_e = Raised.
  Proof.
    intros g params_e params0 Hm F I E. unfold RefineDriver.fit. rewrite F.
    destruct max_iter; [lia|]. simpl. rewrite I, E. reflexivity.
  Qed.
End Raise.

(* ---- an optimiser that meets the contract (non-vacuity of opt_in_box) --------- *)
Definition proper (l h : ext) : bool :=
  match l, h with
  | PInf, _ => false
  | _, NInf => false
  | Fin a, Fin b => Qle_bool a b
  | _, _ => true
  end.
Definition clip1 (l h : ext) (x : Q) : Q :=
  let v1 := match l with Fin a => if Qle_bool a x then x else a | _ => x end in
  match h with Fin b => if Qle_bool v1 b then v1 else b | _ => v1 end.
Fixpoint clip (lo hi : list ext) (v : list Q) : option (list Q) :=
  match lo, hi, v with
  | [], [], [] => Some []
  | l :: lo', h :: hi', x :: v' =>
    if proper l h then match clip lo' hi' v' with Some r => Some (clip1 l h x :: r) | None => None end
    else None
  | _, _, _ => None
  end.
(* "project the start vector onto the box and report success" *)
Definition clip_opt (lo hi : list ext) (v : list Q) (_ _ : list (list Q)) : ores :=
  match clip lo hi v with Some r => OSucc r 0 | None => OFail end.

Lemma clip1_ok : forall l h x, proper l h = true -> sat_low l (clip1 l h x) /\ sat_high h (clip1 l h x).
Proof.
  intros l h x P. unfold clip1.
  destruct l as [| | |a], h as [| | |b]; simpl in *; try discriminate; auto;
    repeat match goal with |- context [Qle_bool ?u ?w] => destruct (Qle_bool u w) eqn:? end;
    repeat match goal with
           | H : Qle_bool _ _ = true |- _ => apply Qle_bool_iff in H
           | H : Qle_bool _ _ = false |- _ => apply Qle_bool_false in H
           end;
    split; auto using Qle_refl, Qlt_le_weak.
Qed.

Lemma clip_in_box : forall lo hi v r, clip lo hi v = Some r -> Forall2 sat_low lo r /\ Forall2 sat_high hi r.
Proof.
  induction lo as [|l lo IH]; intros hi v r H; destruct hi as [|h hi], v as [|x v]; simpl in H; try discriminate.
  - inversion H; subst. split; constructor.
  - destruct (proper l h) eqn:P; [|discriminate].
    destruct (clip lo hi v) as [r'|] eqn:C; [|discriminate]. inversion H; subst.
    destruct (IH _ _ _ C). destruct (clip1_ok l h x P). split; constructor; auto.
Qed.

Lemma clip_opt_in_box : opt_in_box clip_opt.
Proof.
  intros lo hi v pc co x r H. unfold clip_opt in H.
  destruct (clip lo hi v) eqn:C; inversion H; subst. eapply clip_in_box; eauto.
Qed.
