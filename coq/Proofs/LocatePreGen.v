(* C09 -- the GENERATED whole locate (Gen/locatehead.py_locate = generated head ; generated tail) with preprocess=True on
   a 2-D integer image, tied to the model Model/LocateWhole2.v, and its translation equivariance:
     (1) the table of the C08 tail model (LocateTail.tail with the parameters locate computes, Proofs/TailGen.tail_P, any
         scale factor, measure_noise on (image, raw image)) on the rows of refine_com  IS  Model/LocateWhole2.whole_table
         column by column (labels aside);
     (2) py_locate with preprocess=True, python engine, is validation ; preprocess_stage ; Proofs/TailGen.tail_result on
         the rows of refine_com(raw, processed image);
     (3) with Proofs/LocateWhole2.locate_pre_whole_moved: the tables py_locate returns for one content at two places. *)
From Coq Require Import ZArith QArith List Bool Arith String Lia Permutation.
From TP Require Import Model.Dilation Model.COM Model.Equivariance Model.LocateTail Model.LocateWhole Model.LocateWhole2.
From TP Require Model.LocatePipe Model.StaticError Model.Bandpass Model.BandpassShift Gen.preproc.
From TP Require Import Model.PyTail Model.PyLocatehead Model.LocatePipe2 Gen.locatehead Model.PreprocessMoved.
From TP Require Import Proofs.Dilation Proofs.Equivariance Proofs.LocateWhole Proofs.LocateheadGen Proofs.TailGen
                       Proofs.PreprocessMoved Proofs.LocateWhole2.
Import ListNotations.
Open Scope Q_scope.

(* ============================================================== (1) LocateTail.tail and whole_table *)
Lemma dedupe_row_of : forall sqrtf sep outs,
  dedupe sep (map (LocatePipe.row_of sqrtf) outs) = map (LocatePipe.row_of sqrtf) (dedupe_out sep outs).
Proof.
  intros sqrtf sep outs. unfold dedupe, dedupe_out. destruct (forallb (Qltb 0) sep); [|reflexivity].
  rewrite map_map. cbn [LocatePipe.row_of r_pos r_mass]. unfold out_mass.
  generalize (where_close sep (map (fun o => (o_pos o, inject_Z (o_mass o))) outs)). intro W.
  unfold drop_rows. rewrite Proofs.LocateTail.index_map, filter_map_comm, !map_map. reflexivity.
Qed.

Lemma index_fin_row : forall (f : output -> row) outs s,
  Forall2 (fun (x : lrow) (o : output) => snd x = f o) (combine (seq s (List.length outs)) (map f outs)) outs.
Proof. induction outs as [|o t IH]; intro s; cbn; constructor; [reflexivity|apply IH]. Qed.

Lemma select_is_tail_sf : forall sqrtf sep mm ms topn sf outs,
  map snd (select mm ms topn (candidates sep sf (map (LocatePipe.row_of sqrtf) outs))) =
  map (fin_row sqrtf sf) (tail_sf sqrtf sep (mkTP mm ms topn) sf outs).
Proof.
  intros sqrtf sep mm ms topn sf outs. unfold candidates. rewrite dedupe_row_of, map_map.
  change (fun x => scale sf (LocatePipe.row_of sqrtf x)) with (fin_row sqrtf sf).
  unfold tail_sf, gtail, select, sel. cbn [t_topn]. rewrite topn_sel_is_g_topn.
  set (cands := dedupe_out sep outs). set (T := mkTP mm ms topn).
  assert (F : Forall2 (fun (x : lrow) (o : output) => snd x = fin_row sqrtf sf o)
                      (g_topn lrow lmass topn (filt mm ms (index (map (fin_row sqrtf sf) cands))))
                      (g_topn output (mass_sf sqrtf sf) topn (filter (pass_sf sqrtf T sf) cands))).
  { apply (g_topn_rel lrow output lmass (mass_sf sqrtf sf)).
    - intros a b H. unfold lmass, mass_sf. rewrite H. reflexivity.
    - unfold filt. apply Forall2_filter.
      + unfold index. rewrite map_length. apply index_fin_row.
      + intros a b H. unfold pass_sf. rewrite H. reflexivity. }
  induction F as [|a b l l' Hab Hl IH]; cbn; [reflexivity|]. rewrite IH, Hab. reflexivity.
Qed.

(* the columns of a line, its index label aside *)
Definition unlabel (x : lrow * list fval) : row * list fval := (snd (fst x), snd x).
Definition wl_cols (w : wline) : row * list fval := (snd (fst w), snd w).

Theorem tail_is_whole_table : forall sqrtf sep sf mm ms topn im raw radius ns ch outs,
  map unlabel (tail (tail_P sqrtf sep sf mm ms topn im raw radius ns ch) (map (LocatePipe.row_of sqrtf) outs)) =
  map wl_cols (whole_table sqrtf sep (mkTP mm ms topn) sf radius ns ch im raw outs).
Proof.
  intros. unfold tail, tail_P, whole_table. cbn [p_sep p_sf p_minmass p_maxsize p_topn p_noise p_black p_npx p_cs].
  rewrite !map_map. unfold unlabel, wl_cols. cbn [fst snd].
  rewrite <- (map_map snd (fun r => (r, ep_row _ _ _ _ r))).
  rewrite select_is_tail_sf, map_map. apply map_ext. intro o. unfold ep_of. reflexivity.
Qed.

(* ============================================================== (2) the generated whole locate, preprocess=True *)
Section GenPre.
  Variable npp : list Z -> Q -> Q.
  Variable nexp : Q -> Q.
  Variable NA : bool.
  Variable sqrtf : Q -> Q.

  Theorem gen_locate_pre_eq : forall fno dt raw0 diameter minmass maxsize separation noise_size smoothing_size threshold
                                     percentile topn maxit fa ch engine V sf im,
    let raw := squeeze_image raw0 in
    let thr := match threshold with Some t => t | None => 1%Q end in
    let radius := radius_of (a_diameter V) in
    List.length (shape raw) = 2%nat -> List.length (shape im) = 2%nat ->
    locate_args 2 diameter maxsize separation smoothing_size noise_size = ROk V ->
    preprocess_stage nexp dt raw (a_noise V) (a_smooth V) thr = ROk (sf, ImZ dt im) ->
    Forall (fun s => (0 <= s)%Q) (a_sep V) ->
    py_engine NA 2 engine ->
    py_locate fops2 npp nexp NA sqrtf fno (ImZ dt raw0) diameter minmass maxsize separation noise_size smoothing_size threshold
              false percentile topn true maxit None fa ch engine =
    tail_result sqrtf (PyRefine.default_pos_columns 2) ch (ch && isotropic radius) (a_sep V) sf
                (match minmass with Some m => m | None => 0%Q end) maxsize topn im raw fno radius (a_noise V)
                (map (LocatePipe.row_of sqrtf) (pre_rows npp percentile (lp_of V maxit ch) raw im)).
  Proof.
    intros fno dt raw0 diameter minmass maxsize separation noise_size smoothing_size threshold percentile topn maxit fa ch engine
           V sf im raw thr radius Lraw Lim HV E Hsep Heng.
    unfold py_locate. rewrite gen_head_preprocess_stage. cbv zeta. fold raw. rewrite Lraw, HV. cbn [rbind].
    fold thr. rewrite E. cbn [rbind]. unfold head_after. cbn [img_as_int rbind].
    destruct (locate_args_ok _ _ _ _ _ _ _ HV) as [Ld _].
    rewrite Proofs.FindGen.gen_grey_dilation_eq by exact Hsep.
    change (grey_dilation (fun l => npp l percentile) false im (a_sep V) (Some (margin_of V)) false)
      with (find_maxima (fun l => npp l percentile) (lp_of V maxit ch) im).
    set (coords := find_maxima (fun l => npp l percentile) (lp_of V maxit ch) im).
    fold radius.
    assert (Lr : List.length radius = List.length (shape raw)) by (unfold radius, radius_of; rewrite map_length, Lraw; exact Ld).
    assert (Lc : List.length (shape im) = List.length (shape raw)) by (rewrite Lim, Lraw; reflexivity).
    rewrite (refine_com_frame NA raw im radius coords maxit engine ch Lc Lr).
    2:{ apply Forall_forall. intros p Hp. rewrite <- Lc. eapply maxima_length. exact Hp. }
    2:{ rewrite Lraw. exact Heng. }
    cbn [rbind img_as_int]. unfold dframe_of_frame. cbn [PyRefine.of_columns PyRefine.of_rows].
    set (nd := Z.of_nat (List.length (shape im))).
    destruct (has_labels_com nd ch (isotropic radius)) as [H1 [H2 H3]]. rewrite H1, H2, H3.
    assert (Hnd : (1 <= nd)%Z) by (unfold nd; rewrite Lim; cbn; lia).
    set (outs := map (refine_python (pix im) (pix raw) radius (shape im) LocatePipe.shift_thresh maxit ch) coords).
    assert (Hrows : map (row_of_cells sqrtf (COMRefine.com_columns (PyRefine.default_pos_columns nd) nd ch (isotropic radius)))
                        (COMRefine.refine_rows (pix im) (pix raw) radius (shape im) LocatePipe.shift_thresh maxit ch coords)
                    = map (LocatePipe.row_of sqrtf) outs).
    { unfold COMRefine.refine_rows, outs. rewrite !map_map. apply map_ext. intros start.
      destruct (refine_python_form (pix im) (pix raw) radius (shape im) LocatePipe.shift_thresh maxit ch start) as [Lp Hc].
      apply row_of_cells_eq; [exact Hnd| |].
      - rewrite Lp, Lr. unfold nd. rewrite Lc. now rewrite Nat2Z.id.
      - destruct (o_char _) as [[[rg2 sg] rw]|]; [|exact Hc]. destruct Hc as [-> Hl]. split; [reflexivity|].
        rewrite Hl. destruct (isotropic radius); [reflexivity|]. rewrite Lr. unfold nd. rewrite Lc. now rewrite Nat2Z.id. }
    rewrite Hrows.
    change (img_ndim fops2 (ImZ dt im)) with nd.
    assert (End : nd = 2%Z) by (unfold nd; rewrite Lim; reflexivity).
    rewrite End. rewrite py_locate_tail_eq. reflexivity.
  Qed.
End GenPre.

(* ============================================================== (3) one content at two places *)
(* line b is line a, d further, as the generated table carries it (position columns, mass, size, raw_mass; ep columns) *)
Definition dline_moved (d : list Z) (a b : row * list fval) : Prop :=
  pos_moved d (r_pos (fst a)) (r_pos (fst b)) /\ r_mass (fst b) == r_mass (fst a) /\
  r_size (fst b) = r_size (fst a) /\ r_raw (fst b) = r_raw (fst a).
Definition dline_moved_ep (d : list Z) (a b : row * list fval) : Prop :=
  dline_moved d a b /\ Forall2 fval_eq (snd a) (snd b).

Lemma fval_eq_sym : forall a b, fval_eq a b -> fval_eq b a.
Proof. intros [| | |x] [| | |y] H; cbn in *; try contradiction; try exact I. symmetry. exact H. Qed.
Lemma fval_eq_trans : forall a b c, fval_eq a b -> fval_eq b c -> fval_eq a c.
Proof.
  intros [| | |x] [| | |y] [| | |z] H K; cbn in *; try contradiction; try exact I. rewrite H. exact K.
Qed.
Lemma fval_eq_list_sym : forall l l', Forall2 fval_eq l l' -> Forall2 fval_eq l' l.
Proof. intros l l' H. induction H; constructor; [apply fval_eq_sym|]; assumption. Qed.
Lemma fval_eq_list_trans : forall l1 l2 l3, Forall2 fval_eq l1 l2 -> Forall2 fval_eq l2 l3 -> Forall2 fval_eq l1 l3.
Proof.
  intros l1 l2 l3 H. revert l3. induction H; intros l3 K; inversion K; subst; constructor.
  - eapply fval_eq_trans; eassumption.
  - apply IHForall2. assumption.
Qed.

(* same row, ep entries equal as float64 values: what Proofs/TailGen.table_feq says line by line *)
Definition same_cols (x y : row * list fval) : Prop := fst x = fst y /\ Forall2 fval_eq (snd x) (snd y).

Lemma table_feq_cols : forall a b, table_feq a b -> Forall2 same_cols (map unlabel a) (map unlabel b).
Proof.
  intros a b H. induction H as [|x y a b [E F] _ IH]; cbn [map]; constructor; [|exact IH].
  unfold same_cols, unlabel. cbn [fst snd]. rewrite E. split; [reflexivity|]. exact F.
Qed.

Lemma Forall2_perm_r : forall {A B} (S : A -> B -> Prop) l u u',
  Forall2 S l u -> Permutation u u' -> exists k, Permutation l k /\ Forall2 S k u'.
Proof.
  intros A B S l u u' H P. revert l H. induction P as [|b u u' P IH|b b' u|u u' u'' P1 IH1 P2 IH2]; intros l0 H.
  - inversion H; subst. exists []. split; constructor.
  - inversion H as [|a b0 la lb Hab Hl]; subst. destruct (IH la Hl) as [k [Pk Fk]].
    exists (a :: k). split; constructor; assumption.
  - inversion H as [|a b0 la lb Hab Hl]; subst. inversion Hl as [|a2 b2 la2 lb2 Hab2 Hl2]; subst.
    exists (a2 :: a :: la2). split; [apply perm_swap|]. repeat constructor; assumption.
  - destruct (IH1 l0 H) as [k1 [Pk1 F1]]. destruct (IH2 k1 F1) as [k2 [Pk2 F2]].
    exists k2. split; [eapply Permutation_trans; eassumption|exact F2].
Qed.

Lemma Forall2_three : forall {A B} (S : A -> B -> Prop) (R : B -> B -> Prop) (R' : A -> A -> Prop),
  (forall x1 c1 c2 x2, S x1 c1 -> R c1 c2 -> S x2 c2 -> R' x1 x2) ->
  forall l1 u1 u2 l2, Forall2 S l1 u1 -> Forall2 R u1 u2 -> Forall2 S l2 u2 -> Forall2 R' l1 l2.
Proof.
  intros A B S R R' H l1 u1 u2 l2 F1. revert u2 l2. induction F1; intros u2 l2 F2 F3.
  - inversion F2; subst. inversion F3; subst. constructor.
  - inversion F2; subst. inversion F3; subst. constructor; [eapply H; eassumption|]. eapply IHF1; eassumption.
Qed.

Lemma tail_result_ok : forall sqrtf pc ch hs sep sf mm ms topn im raw fno radius ns rows,
  LocatePipe.is_some ms && negb hs = false ->
  exists d, tail_result sqrtf pc ch hs sep sf mm ms topn im raw fno radius ns rows = ROk d /\
            table_feq (df_lines d) (tail (tail_P sqrtf sep sf mm ms topn im raw radius ns ch) rows).
Proof.
  intros sqrtf pc ch hs sep sf mm ms topn im raw fno radius ns rows Hok.
  destruct (tail_result sqrtf pc ch hs sep sf mm ms topn im raw fno radius ns rows) as [d|e] eqn:Et.
  - exists d. split; [reflexivity|].
    apply (py_tail_is_tail sqrtf pc ch hs sep sf mm ms topn im raw fno radius 0%nat ns rows d).
    rewrite py_locate_tail_eq. exact Et.
  - exfalso. unfold tail_result in Et. destruct rows as [|r0 rs]; [discriminate|]. rewrite Hok in Et.
    destruct (filt mm ms (index (candidates sep sf (r0 :: rs)))); [discriminate|]. destruct ch; discriminate.
Qed.

Section GenPreMoved.
  Variable npp : list Z -> Q -> Q.
  Variable nexp : Q -> Q.
  Variable NA : bool.
  Variable sqrtf : Q -> Q.
  Variable percentile : Q.
  Hypothesis Hperm : forall l l', Permutation l l' -> npp l percentile = npp l' percentile.
  Hypothesis Hnn : forall l, (forall v, In v l -> (0 <= v)%Z) -> (0 <= npp l percentile)%Q.

  Local Open Scope Z_scope.

  Theorem gen_locate_preprocess_moved_core :
    forall fno1 fno2 dt content h w H1 W1 oy1 ox1 H2 W2 oy2 ox2 raw01 raw02 diameter minmass maxsize separation noise_size
           smoothing_size threshold topn maxit fa ch engine V ny nx sy sx,
    let thr := match threshold with Some t => t | None => 1%Q end in
    let Tr := Gen.preproc.py_bandpass_default_truncate in
    let py := stage_par nexp ny sy in
    let px := stage_par nexp nx sx in
    let ry := stage_reach nexp ny sy in
    let rx := stage_reach nexp nx sx in
    let csh' := [h + 2 * ry; w + 2 * rx] in
    let d := vsub [oy2; ox2] [oy1; ox1] in
    let P := lp_of V maxit ch in
    let T := mkTP (match minmass with Some m => m | None => 0%Q end) maxsize topn in
    let m := map (fun r => r + Z.of_nat (pred (iters_of maxit))) (lp_radius P) in
    shape content = [h; w] -> (forall c, pix content c <> 0 -> in_bounds (shape content) c) ->
    1 <= h -> 1 <= w -> 1 <= sy -> 1 <= sx ->
    stage_moved_ok nexp dt content h w H1 W1 oy1 ox1 H2 W2 oy2 ox2 ny nx sy sx thr ->
    squeeze_image raw01 = embed [H1; W1] [oy1; ox1] content -> squeeze_image raw02 = embed [H2; W2] [oy2; ox2] content ->
    locate_args 2 diameter maxsize separation smoothing_size noise_size = ROk V ->
    a_noise V = [ny; nx] -> a_smooth V = [sy; sx] -> List.length (a_sep V) = 2%nat ->
    Forall (fun s => (0 <= s)%Q) (a_sep V) -> Forall (fun s => 1 <= s) (map (box_size 2) (a_sep V)) ->
    py_engine NA 2 engine ->
    maxsize = None \/ ch = true ->
    BandpassShift.paddedb [H1; W1] [oy1; ox1] [h; w] [BandpassShift.ghw_of Tr py; BandpassShift.ghw_of Tr px]
                          [BandpassShift.bhw_of py; BandpassShift.bhw_of px] = true ->
    BandpassShift.paddedb [H2; W2] [oy2; ox2] [h; w] [BandpassShift.ghw_of Tr py; BandpassShift.ghw_of Tr px]
                          [BandpassShift.bhw_of py; BandpassShift.bhw_of px] = true ->
    fitsb [H1; W1] [oy1 - ry; ox1 - rx] csh' (lp_margin P) = true ->
    fitsb [H2; W2] [oy2 - ry; ox2 - rx] csh' (lp_margin P) = true ->
    fitsb [H1; W1] [oy1 - ry; ox1 - rx] csh' m = true -> fitsb [H2; W2] [oy2 - ry; ox2 - rx] csh' m = true ->
    (forall sf im, preprocess_stage nexp dt (embed [H1; W1] [oy1; ox1] content) [ny; nx] [sy; sx] thr = ROk (sf, ImZ dt im) ->
                   no_tie_sf sqrtf (a_sep V) T sf
                             (refine_rows2 (fun l => npp l percentile) P (embed [H1; W1] [oy1; ox1] content) im) = true) ->
    exists d1 d2 lines,
      py_locate fops2 npp nexp NA sqrtf fno1 (ImZ dt raw01) diameter minmass maxsize separation noise_size smoothing_size
                threshold false percentile topn true maxit None fa ch engine = ROk d1 /\
      py_locate fops2 npp nexp NA sqrtf fno2 (ImZ dt raw02) diameter minmass maxsize separation noise_size smoothing_size
                threshold false percentile topn true maxit None fa ch engine = ROk d2 /\
      Permutation (map unlabel (df_lines d2)) lines /\
      Forall2 (dline_moved d) (map unlabel (df_lines d1)) lines /\
      (H1 * W1 = H2 * W2 -> (forall a b, (a == b)%Q -> (sqrtf a == sqrtf b)%Q) ->
       Forall2 (dline_moved_ep d) (map unlabel (df_lines d1)) lines).
  Proof.
    intros fno1 fno2 dt content h w H1 W1 oy1 ox1 H2 W2 oy2 ox2 raw01 raw02 diameter minmass maxsize separation noise_size
           smoothing_size threshold topn maxit fa ch engine V ny nx sy sx thr Tr py px ry rx csh' d P T m
           S Hwf Hh Hw Sy1 Sx1 Hstage Q1 Q2 HV Hns Hsm Lsep Hsep Hsz Heng Hms D1 D2 F1 F2 G1 G2 Hnt.
    destruct (locate_args_ok _ _ _ _ _ _ _ HV) as [Ld [Ha _]].
    assert (Lm : List.length (lp_margin P) = 2%nat).
    { cbn [lp_margin P lp_of]. unfold margin_of. rewrite Proofs.LocatePipe.margins_length.
      - unfold radius_of. rewrite map_length. exact Ld.
      - unfold radius_of. rewrite map_length. lia.
      - unfold radius_of. rewrite !map_length. rewrite Hsm. cbn. lia. }
    assert (Lr : List.length (lp_radius P) = 2%nat) by (cbn [lp_radius P lp_of]; unfold radius_of; rewrite map_length; exact Ld).
    destruct (locate_pre_whole_moved_core sqrtf (fun l => npp l percentile) Hperm Hnn nexp dt content h w H1 W1 oy1 ox1 H2 W2 oy2 ox2
                P T ny nx sy sx thr S Hwf Hh Hw Sy1 Sx1 Hstage Lsep Lm Lr Hsz D1 D2 F1 F2 G1 G2 Hnt)
      as (sf1 & sf2 & t1 & t2 & rows & A1 & A2 & Es & Pt & Fm & Fe).
    fold d in Fm, Fe.
    unfold locate_pre_whole in A1, A2.
    destruct (preprocess_stage nexp dt (embed [H1; W1] [oy1; ox1] content) [ny; nx] [sy; sx] thr) as [[s1 [dt1 im1|a1]]|e1] eqn:E1;
      cbn [rbind fst snd img_as_int] in A1; try discriminate A1.
    destruct (preprocess_stage nexp dt (embed [H2; W2] [oy2; ox2] content) [ny; nx] [sy; sx] thr) as [[s2 [dt2 im2|a2]]|e2] eqn:E2;
      cbn [rbind fst snd img_as_int] in A2; try discriminate A2.
    injection A1 as -> <-. injection A2 as -> <-.
    (* the dtype and shape of the processed images *)
    destruct Hstage
      as (sf1' & sf2' & im1' & im2' & E1' & E2' & _ & Sh1 & Sh2 & _).
    rewrite E1 in E1'. rewrite E2 in E2'. injection E1' as -> -> ->. injection E2' as -> -> ->.
    assert (Hok : LocatePipe.is_some maxsize && negb (ch && isotropic (radius_of (a_diameter V))) = false).
    { destruct Hms as [-> | ->]; [reflexivity|]. destruct maxsize; [|reflexivity].
      cbn [LocatePipe.is_some andb] in *. rewrite andb_true_r in Ha. apply negb_false_iff in Ha. rewrite Ha. reflexivity. }
    (* the two runs of the generated locate *)
    pose proof (gen_locate_pre_eq npp nexp NA sqrtf fno1 dt raw01 diameter minmass maxsize separation noise_size smoothing_size
                  threshold percentile topn maxit fa ch engine V sf1' im1') as R1.
    cbv zeta in R1. rewrite Q1, Hns, Hsm in R1. fold thr in R1.
    specialize (R1 eq_refl ltac:(rewrite Sh1; reflexivity) HV E1 Hsep Heng).
    pose proof (gen_locate_pre_eq npp nexp NA sqrtf fno2 dt raw02 diameter minmass maxsize separation noise_size smoothing_size
                  threshold percentile topn maxit fa ch engine V sf2' im2') as R2.
    cbv zeta in R2. rewrite Q2, Hns, Hsm in R2. fold thr in R2.
    specialize (R2 eq_refl ltac:(rewrite Sh2; reflexivity) HV E2 Hsep Heng).
    destruct (tail_result_ok sqrtf (PyRefine.default_pos_columns 2) ch (ch && isotropic (radius_of (a_diameter V))) (a_sep V) sf1'
                (match minmass with Some m0 => m0 | None => 0%Q end) maxsize topn im1' (embed [H1; W1] [oy1; ox1] content) fno1
                (radius_of (a_diameter V)) [ny; nx]
                (map (LocatePipe.row_of sqrtf) (pre_rows npp percentile (lp_of V maxit ch) (embed [H1; W1] [oy1; ox1] content) im1')) Hok)
      as (d1 & Ed1 & T1).
    destruct (tail_result_ok sqrtf (PyRefine.default_pos_columns 2) ch (ch && isotropic (radius_of (a_diameter V))) (a_sep V) sf2'
                (match minmass with Some m0 => m0 | None => 0%Q end) maxsize topn im2' (embed [H2; W2] [oy2; ox2] content) fno2
                (radius_of (a_diameter V)) [ny; nx]
                (map (LocatePipe.row_of sqrtf) (pre_rows npp percentile (lp_of V maxit ch) (embed [H2; W2] [oy2; ox2] content) im2')) Hok)
      as (d2 & Ed2 & T2).
    apply table_feq_cols in T1, T2. rewrite tail_is_whole_table in T1, T2.
    assert (T1' : Forall2 same_cols (map unlabel (df_lines d1))
                    (map wl_cols (whole_table sqrtf (lp_sep P) T sf1' (lp_radius P) [ny; nx] (lp_char P) im1'
                                              (embed [H1; W1] [oy1; ox1] content)
                                              (refine_rows2 (fun l => npp l percentile) P (embed [H1; W1] [oy1; ox1] content) im1'))))
      by exact T1.
    assert (T2' : Forall2 same_cols (map unlabel (df_lines d2))
                    (map wl_cols (whole_table sqrtf (lp_sep P) T sf2' (lp_radius P) [ny; nx] (lp_char P) im2'
                                              (embed [H2; W2] [oy2; ox2] content)
                                              (refine_rows2 (fun l => npp l percentile) P (embed [H2; W2] [oy2; ox2] content) im2'))))
      by exact T2.
    clear T1 T2. rename T1' into T1. rename T2' into T2.
    destruct (Forall2_perm_r same_cols _ _ _ T2 (Permutation_map wl_cols Pt)) as (lines & Pl & Fl).
    exists d1, d2, lines. split; [rewrite R1; exact Ed1|]. split; [rewrite R2; exact Ed2|]. split; [exact Pl|].
    split.
    - match type of T1 with Forall2 _ _ ?u => assert (Fmid : Forall2 (dline_moved d) u (map wl_cols rows)) end.
      { apply Forall2_map2. eapply Forall2_impl; [|exact Fm]. intros [[oa ra] ea] [[ob rb] eb] K. unfold dline_moved, wl_cols. cbn [fst snd].
        unfold wline_moved in K. tauto. }
      refine (Forall2_three same_cols (dline_moved d) (dline_moved d) _ _ _ _ _ T1 Fmid Fl).
      intros x1 c1 c2 x2 [E1x _] K [E2x _]. unfold dline_moved. rewrite E1x, E2x. exact K.
    - intros HW Hsq. specialize (Fe HW Hsq).
      match type of T1 with Forall2 _ _ ?u => assert (Fmid : Forall2 (dline_moved_ep d) u (map wl_cols rows)) end.
      { apply Forall2_map2. eapply Forall2_impl; [|exact Fe]. intros [[oa ra] ea] [[ob rb] eb] [K Ke]. unfold dline_moved_ep, dline_moved, wl_cols.
        cbn [fst snd] in *. unfold wline_moved in K. tauto. }
      refine (Forall2_three same_cols (dline_moved_ep d) (dline_moved_ep d) _ _ _ _ _ T1 Fmid Fl).
      intros x1 c1 c2 x2 [E1x F1x] [K Ke] [E2x F2x]. unfold dline_moved_ep, dline_moved. rewrite E1x, E2x. split; [exact K|].
      eapply fval_eq_list_trans; [exact F1x|]. eapply fval_eq_list_trans; [exact Ke|]. apply fval_eq_list_sym. exact F2x.
  Qed.

  Theorem gen_locate_preprocess_moved :
    forall fno1 fno2 dt content h w H1 W1 oy1 ox1 H2 W2 oy2 ox2 raw01 raw02 diameter minmass maxsize separation noise_size
           smoothing_size threshold topn maxit fa ch engine V ny nx sy sx,
    let thr := match threshold with Some t => t | None => 1%Q end in
    let Tr := Gen.preproc.py_bandpass_default_truncate in
    let py := stage_par nexp ny sy in
    let px := stage_par nexp nx sx in
    let ry := stage_reach nexp ny sy in
    let rx := stage_reach nexp nx sx in
    let csh' := [h + 2 * ry; w + 2 * rx] in
    let d := vsub [oy2; ox2] [oy1; ox1] in
    let P := lp_of V maxit ch in
    let T := mkTP (match minmass with Some m => m | None => 0%Q end) maxsize topn in
    let m := map (fun r => r + Z.of_nat (pred (iters_of maxit))) (lp_radius P) in
    shape content = [h; w] -> (forall c, pix content c <> 0 -> in_bounds (shape content) c) ->
    1 <= h -> 1 <= w -> (0 <= thr)%Q -> 0 <= iinfo_max dt -> 1 <= sy -> 1 <= sx ->
    (ny < inject_Z sy)%Q -> (nx < inject_Z sx)%Q -> Z.odd sy = true -> Z.odd sx = true ->
    squeeze_image raw01 = embed [H1; W1] [oy1; ox1] content -> squeeze_image raw02 = embed [H2; W2] [oy2; ox2] content ->
    locate_args 2 diameter maxsize separation smoothing_size noise_size = ROk V ->
    a_noise V = [ny; nx] -> a_smooth V = [sy; sx] -> List.length (a_sep V) = 2%nat ->
    Forall (fun s => (0 <= s)%Q) (a_sep V) -> Forall (fun s => 1 <= s) (map (box_size 2) (a_sep V)) ->
    py_engine NA 2 engine ->
    maxsize = None \/ ch = true ->
    BandpassShift.paddedb [H1; W1] [oy1; ox1] [h; w] [BandpassShift.ghw_of Tr py; BandpassShift.ghw_of Tr px]
                          [BandpassShift.bhw_of py; BandpassShift.bhw_of px] = true ->
    BandpassShift.paddedb [H2; W2] [oy2; ox2] [h; w] [BandpassShift.ghw_of Tr py; BandpassShift.ghw_of Tr px]
                          [BandpassShift.bhw_of py; BandpassShift.bhw_of px] = true ->
    fitsb [H1; W1] [oy1 - ry; ox1 - rx] csh' (lp_margin P) = true ->
    fitsb [H2; W2] [oy2 - ry; ox2 - rx] csh' (lp_margin P) = true ->
    fitsb [H1; W1] [oy1 - ry; ox1 - rx] csh' m = true -> fitsb [H2; W2] [oy2 - ry; ox2 - rx] csh' m = true ->
    (forall sf im, preprocess_stage nexp dt (embed [H1; W1] [oy1; ox1] content) [ny; nx] [sy; sx] thr = ROk (sf, ImZ dt im) ->
                   no_tie_sf sqrtf (a_sep V) T sf
                             (refine_rows2 (fun l => npp l percentile) P (embed [H1; W1] [oy1; ox1] content) im) = true) ->
    exists d1 d2 lines,
      py_locate fops2 npp nexp NA sqrtf fno1 (ImZ dt raw01) diameter minmass maxsize separation noise_size smoothing_size
                threshold false percentile topn true maxit None fa ch engine = ROk d1 /\
      py_locate fops2 npp nexp NA sqrtf fno2 (ImZ dt raw02) diameter minmass maxsize separation noise_size smoothing_size
                threshold false percentile topn true maxit None fa ch engine = ROk d2 /\
      Permutation (map unlabel (df_lines d2)) lines /\
      Forall2 (dline_moved d) (map unlabel (df_lines d1)) lines /\
      (H1 * W1 = H2 * W2 -> (forall a b, (a == b)%Q -> (sqrtf a == sqrtf b)%Q) ->
       Forall2 (dline_moved_ep d) (map unlabel (df_lines d1)) lines).
  Proof.
    intros fno1 fno2 dt content h w H1 W1 oy1 ox1 H2 W2 oy2 ox2 raw01 raw02 diameter minmass maxsize separation noise_size
           smoothing_size threshold topn maxit fa ch engine V ny nx sy sx thr Tr py px ry rx csh' d P T m
           S Hwf Hh Hw Hthr Hdt Sy1 Sx1 Gy Gx Oy Ox Q1 Q2 HV Hns Hsm Lsep Hsep Hsz Heng Hms D1 D2 F1 F2 G1 G2 Hnt.
    apply (gen_locate_preprocess_moved_core fno1 fno2 dt content h w H1 W1 oy1 ox1 H2 W2 oy2 ox2 raw01 raw02 diameter minmass maxsize
             separation noise_size smoothing_size threshold topn maxit fa ch engine V ny nx sy sx); try assumption.
    unfold stage_moved_ok. apply preprocess_moved; assumption.
  Qed.

  (* any threshold: each canvas has a pixel outside the grown content box *)
  Theorem gen_locate_preprocess_moved2 :
    forall fno1 fno2 dt content h w H1 W1 oy1 ox1 H2 W2 oy2 ox2 raw01 raw02 diameter minmass maxsize separation noise_size
           smoothing_size threshold topn maxit fa ch engine V ny nx sy sx,
    let thr := match threshold with Some t => t | None => 1%Q end in
    let Tr := Gen.preproc.py_bandpass_default_truncate in
    let py := stage_par nexp ny sy in
    let px := stage_par nexp nx sx in
    let ry := stage_reach nexp ny sy in
    let rx := stage_reach nexp nx sx in
    let csh' := [h + 2 * ry; w + 2 * rx] in
    let d := vsub [oy2; ox2] [oy1; ox1] in
    let P := lp_of V maxit ch in
    let T := mkTP (match minmass with Some m => m | None => 0%Q end) maxsize topn in
    let m := map (fun r => r + Z.of_nat (pred (iters_of maxit))) (lp_radius P) in
    shape content = [h; w] -> (forall c, pix content c <> 0 -> in_bounds (shape content) c) ->
    1 <= h -> 1 <= w -> 0 <= iinfo_max dt -> 1 <= sy -> 1 <= sx ->
    (ny < inject_Z sy)%Q -> (nx < inject_Z sx)%Q -> Z.odd sy = true -> Z.odd sx = true ->
    squeeze_image raw01 = embed [H1; W1] [oy1; ox1] content -> squeeze_image raw02 = embed [H2; W2] [oy2; ox2] content ->
    locate_args 2 diameter maxsize separation smoothing_size noise_size = ROk V ->
    a_noise V = [ny; nx] -> a_smooth V = [sy; sx] -> List.length (a_sep V) = 2%nat ->
    Forall (fun s => (0 <= s)%Q) (a_sep V) -> Forall (fun s => 1 <= s) (map (box_size 2) (a_sep V)) ->
    py_engine NA 2 engine ->
    maxsize = None \/ ch = true ->
    BandpassShift.paddedb [H1; W1] [oy1; ox1] [h; w] [BandpassShift.ghw_of Tr py; BandpassShift.ghw_of Tr px]
                          [BandpassShift.bhw_of py; BandpassShift.bhw_of px] = true ->
    BandpassShift.paddedb [H2; W2] [oy2; ox2] [h; w] [BandpassShift.ghw_of Tr py; BandpassShift.ghw_of Tr px]
                          [BandpassShift.bhw_of py; BandpassShift.bhw_of px] = true ->
    h + 2 * ry < H1 \/ w + 2 * rx < W1 -> h + 2 * ry < H2 \/ w + 2 * rx < W2 ->
    fitsb [H1; W1] [oy1 - ry; ox1 - rx] csh' (lp_margin P) = true ->
    fitsb [H2; W2] [oy2 - ry; ox2 - rx] csh' (lp_margin P) = true ->
    fitsb [H1; W1] [oy1 - ry; ox1 - rx] csh' m = true -> fitsb [H2; W2] [oy2 - ry; ox2 - rx] csh' m = true ->
    (forall sf im, preprocess_stage nexp dt (embed [H1; W1] [oy1; ox1] content) [ny; nx] [sy; sx] thr = ROk (sf, ImZ dt im) ->
                   no_tie_sf sqrtf (a_sep V) T sf
                             (refine_rows2 (fun l => npp l percentile) P (embed [H1; W1] [oy1; ox1] content) im) = true) ->
    exists d1 d2 lines,
      py_locate fops2 npp nexp NA sqrtf fno1 (ImZ dt raw01) diameter minmass maxsize separation noise_size smoothing_size
                threshold false percentile topn true maxit None fa ch engine = ROk d1 /\
      py_locate fops2 npp nexp NA sqrtf fno2 (ImZ dt raw02) diameter minmass maxsize separation noise_size smoothing_size
                threshold false percentile topn true maxit None fa ch engine = ROk d2 /\
      Permutation (map unlabel (df_lines d2)) lines /\
      Forall2 (dline_moved d) (map unlabel (df_lines d1)) lines /\
      (H1 * W1 = H2 * W2 -> (forall a b, (a == b)%Q -> (sqrtf a == sqrtf b)%Q) ->
       Forall2 (dline_moved_ep d) (map unlabel (df_lines d1)) lines).
  Proof.
    intros fno1 fno2 dt content h w H1 W1 oy1 ox1 H2 W2 oy2 ox2 raw01 raw02 diameter minmass maxsize separation noise_size
           smoothing_size threshold topn maxit fa ch engine V ny nx sy sx thr Tr py px ry rx csh' d P T m
           S Hwf Hh Hw Hdt Sy1 Sx1 Gy Gx Oy Ox Q1 Q2 HV Hns Hsm Lsep Hsep Hsz Heng Hms D1 D2 K1 K2 F1 F2 G1 G2 Hnt.
    apply (gen_locate_preprocess_moved_core fno1 fno2 dt content h w H1 W1 oy1 ox1 H2 W2 oy2 ox2 raw01 raw02 diameter minmass maxsize
             separation noise_size smoothing_size threshold topn maxit fa ch engine V ny nx sy sx); try assumption.
    unfold stage_moved_ok. apply Proofs.PreprocessMoved2.preprocess_moved2; assumption.
  Qed.
End GenPreMoved.

(* ============================================================== non-vacuity and executed instances *)
Local Open Scope Z_scope.
(* a stand-in for np.sqrt that respects the value of its argument: two decimals of the square root *)
Definition xsqrt (q : Q) : Q := (inject_Z (Z.sqrt (Qround.Qfloor (10000 * q))) / 100)%Q.
Lemma xsqrt_compat : forall a b, (a == b)%Q -> (xsqrt a == xsqrt b)%Q.
Proof.
  intros a b E. unfold xsqrt. rewrite (Qround.Qfloor_comp (10000 * a) (10000 * b)) by (rewrite E; reflexivity). reflexivity.
Qed.

(* the 5 x 5 blob of the other examples and, six columns to its right, ONE pixel of brightness 1 that the bandpass
   threshold removes from the processed image: it belongs to the background of measure_noise with the raw value 1 *)
Definition yblob (c : list Z) : Z :=
  if ix c 1 <? 5 then ex_blob c else if (ix c 0 =? 2) && (ix c 1 =? 10) then 1 else 0.
Definition ycontent : image := tab [5; 11] yblob.
Definition yP : Equivariance.lparams := mkLP [4#1; 4#1]%Q [2; 2] [1; 1] LocatePipe.shift_thresh 3 true.
Definition yT : tparams := mkTP 0%Q None None.
Definition yr1 : image := embed [20; 30] [7; 8] ycontent.     (* 600 pixels *)
Definition yr2 : image := embed [24; 25] [8; 7] ycontent.     (* 600 pixels, another shape *)
Definition yr3 : image := embed [22; 25] [8; 7] ycontent.     (* 550 pixels *)
Definition yrun (raw : image) : res dframe :=
  py_locate fops2 (fun _ _ => 1 # 2)%Q ex_nexp false xsqrt None (ImZ (mkDT false 8) raw)
            (PyPreproc.PyScalar 3) None None None (PyPreproc.PyScalar 1%Q) (Some (PyPreproc.PyScalar 5)) (Some (1 # 10)%Q)
            false 64%Q None true 3 None None true "python"%string.
Definition yshow (d : dframe) := map (fun x => (r_pos (snd (fst x)), r_mass (snd (fst x)), r_raw (snd (fst x)), snd x)) (df_lines d).

Lemma ex_pre_whole_premises :
  let Tr := Gen.preproc.py_bandpass_default_truncate in
  let p := stage_par ex_nexp 1 5 in
  shape ycontent = [5; 11] /\ (forall c, pix ycontent c <> 0 -> in_bounds (shape ycontent) c) /\
  (0 <= 1 # 10)%Q /\ 0 <= iinfo_max (mkDT false 8) /\ (1 < inject_Z 5)%Q /\ Z.odd 5 = true /\
  stage_reach ex_nexp 1 5 = 4 /\
  List.length (lp_sep yP) = 2%nat /\ List.length (lp_margin yP) = 2%nat /\ List.length (lp_radius yP) = 2%nat /\
  Forall (fun s => 1 <= s) (map (box_size 2) (lp_sep yP)) /\
  BandpassShift.paddedb [20; 30] [7; 8] [5; 11] [BandpassShift.ghw_of Tr p; BandpassShift.ghw_of Tr p]
                        [BandpassShift.bhw_of p; BandpassShift.bhw_of p] = true /\
  BandpassShift.paddedb [24; 25] [8; 7] [5; 11] [BandpassShift.ghw_of Tr p; BandpassShift.ghw_of Tr p]
                        [BandpassShift.bhw_of p; BandpassShift.bhw_of p] = true /\
  fitsb [20; 30] [7 - 4; 8 - 4] [5 + 2 * 4; 11 + 2 * 4] (lp_margin yP) = true /\
  fitsb [24; 25] [8 - 4; 7 - 4] [5 + 2 * 4; 11 + 2 * 4] (lp_margin yP) = true /\
  fitsb [20; 30] [7 - 4; 8 - 4] [5 + 2 * 4; 11 + 2 * 4]
        (map (fun r => r + Z.of_nat (pred (iters_of (lp_maxit yP)))) (lp_radius yP)) = true /\
  fitsb [24; 25] [8 - 4; 7 - 4] [5 + 2 * 4; 11 + 2 * 4]
        (map (fun r => r + Z.of_nat (pred (iters_of (lp_maxit yP)))) (lp_radius yP)) = true /\
  (forall sf im, preprocess_stage ex_nexp (mkDT false 8) yr1 [1; 1]%Q [5; 5] (1 # 10) = ROk (sf, ImZ (mkDT false 8) im) ->
                 no_tie_sf xsqrt (lp_sep yP) yT sf (refine_rows2 ex_percentile yP yr1 im) = true) /\
  20 * 30 = 24 * 25 /\ (forall a b, (a == b)%Q -> (xsqrt a == xsqrt b)%Q).
Proof.
  cbv zeta. split; [reflexivity|]. split; [intros c; apply tab_wf|].
  do 5 (split; [try discriminate; reflexivity|]). do 3 (split; [reflexivity|]).
  split; [vm_compute; repeat constructor; discriminate|].
  do 6 (split; [vm_compute; reflexivity|]).
  split; [|split; [reflexivity|exact xsqrt_compat]].
  assert (K : match preprocess_stage ex_nexp (mkDT false 8) yr1 [1; 1]%Q [5; 5] (1 # 10) with
              | ROk (sf, ImZ _ im) => no_tie_sf xsqrt (lp_sep yP) yT sf (refine_rows2 ex_percentile yP yr1 im) = true
              | _ => True
              end) by (vm_compute; reflexivity).
  intros sf im E. rewrite E in K. exact K.
Qed.

(* the arguments of the generated locate for the same instance: diameter 3, smoothing_size 5, threshold 1/10, max_iterations 3 *)
Lemma ex_pre_gen_premises :
  exists V, locate_args 2 (PyPreproc.PyScalar 3) None None (Some (PyPreproc.PyScalar 5)) (PyPreproc.PyScalar 1%Q) = ROk V /\
            a_noise V = [1; 1]%Q /\ a_smooth V = [5; 5] /\ lp_of V 3 true = yP /\
            Forall (fun s => (0 <= s)%Q) (a_sep V) /\ py_engine false 2 "python"%string /\
            squeeze_image yr1 = yr1 /\ squeeze_image yr2 = yr2.
Proof.
  eexists. split; [vm_compute; reflexivity|]. split; [reflexivity|]. split; [reflexivity|]. split; [reflexivity|].
  split; [repeat constructor; discriminate|]. split; [left; reflexivity|]. split; reflexivity.
Qed.

(* executed: the generated locate on the two canvases of 600 pixels: five features each, every position moved by (1, -1),
   mass, raw_mass and ep identical; on the canvas of 550 pixels the same rows with ANOTHER ep for the feature that has one
   (the background mean 25/n and its deviation depend on the number n of background pixels) *)
Lemma ex_pre_whole_runs :
  match yrun yr1, yrun yr2, yrun yr3 with
  | ROk d1, ROk d2, ROk d3 =>
      yshow d1 = [([2514 # 516; 5160 # 516], 823639200 # 803409375, 0, [FNaN]);
                  ([4644 # 516; 3030 # 516], 823639200 # 803409375, 0, [FNaN]);
                  ([2295 # 255; 2550 # 255], 407031000 # 803409375, 37, [FVal (3166155 # 183380000)]);
                  ([4806 # 534; 7549 # 534], 852370800 # 803409375, 0, [FNaN]);
                  ([6774 # 516; 5160 # 516], 823639200 # 803409375, 0, [FNaN])]%Q /\
      yshow d2 = [([3030 # 516; 4644 # 516], 823639200 # 803409375, 0, [FNaN]);
                  ([5160 # 516; 2514 # 516], 823639200 # 803409375, 0, [FNaN]);
                  ([2550 # 255; 2295 # 255], 407031000 # 803409375, 37, [FVal (3166155 # 183380000)]);
                  ([5340 # 534; 7015 # 534], 852370800 # 803409375, 0, [FNaN]);
                  ([7290 # 516; 4644 # 516], 823639200 # 803409375, 0, [FNaN])]%Q /\
      map (fun l => (fst (fst (fst l)), snd (fst (fst l)), snd (fst l))) (yshow d3) =
      map (fun l => (fst (fst (fst l)), snd (fst (fst l)), snd (fst l))) (yshow d2) /\
      map snd (yshow d3) = [[FNaN]; [FNaN]; [FVal (3038832 # 164880000)%Q]; [FNaN]; [FNaN]] /\
      ~ (3038832 # 164880000 == 3166155 # 183380000)%Q
  | _, _, _ => False
  end.
Proof. vm_compute. repeat split. discriminate. Qed.

(* the same instance with the NEGATIVE threshold -1/10 (premises of the ..._moved2 theorems that depend on the threshold) *)
Lemma ex_pre_whole_premises_negthr :
  (-1 # 10 < 0)%Q /\ stage_reach ex_nexp 1 5 = 4 /\ (5 + 2 * 4 < 20 \/ 11 + 2 * 4 < 30) /\ (5 + 2 * 4 < 24 \/ 11 + 2 * 4 < 25) /\
  (forall sf im, preprocess_stage ex_nexp (mkDT false 8) yr1 [1; 1]%Q [5; 5] (-1 # 10) = ROk (sf, ImZ (mkDT false 8) im) ->
                 no_tie_sf xsqrt (lp_sep yP) yT sf (refine_rows2 ex_percentile yP yr1 im) = true).
Proof.
  split; [reflexivity|]. split; [reflexivity|]. split; [left; reflexivity|]. split; [left; reflexivity|].
  assert (K : match preprocess_stage ex_nexp (mkDT false 8) yr1 [1; 1]%Q [5; 5] (-1 # 10) with
              | ROk (sf, ImZ _ im) => no_tie_sf xsqrt (lp_sep yP) yT sf (refine_rows2 ex_percentile yP yr1 im) = true
              | _ => True
              end) by (vm_compute; reflexivity).
  intros sf im E. rewrite E in K. exact K.
Qed.
