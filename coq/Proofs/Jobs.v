From Coq Require Import ZArith List Bool Lia.
From TP Require Import Model.Assign Model.Link Model.Jobs.
Import ListNotations.
Open Scope Z_scope.

Lemma upd_same s j v : upd s j v j = v.
Proof. unfold upd. rewrite Nat.eqb_refl. reflexivity. Qed.
Lemma upd_other s j v k : k <> j -> upd s j v k = s k.
Proof. unfold upd. intros H. apply Nat.eqb_neq in H. rewrite H. reflexivity. Qed.

(* an operation of another job leaves job j's state alone and emits nothing for j *)
Lemma exec1_other cfg g (s : store) o j :
  job_of o <> j ->
  snd (fst (exec1 cfg (g, s) o)) j = s j /\ fst (snd (exec1 cfg (g, s) o)) <> j.
Proof.
  intros H. destruct o as [k f|k f]; cbn in *.
  - destruct (init_state f) as [st labs]. cbn. split; [apply upd_other; congruence|exact H].
  - destruct (s k) as [st|]; cbn; [|split; [reflexivity|exact H]].
    destruct (link_step _ _ _ _ st f) as [[st' labs]|]; cbn; split; try exact H; apply upd_other; congruence.
Qed.

(* an operation of job j depends only on job j's state *)
Lemma exec1_own cfg g (s : store) g' (s' : store) o j :
  job_of o = j -> s j = s' j ->
  snd (exec1 cfg (g, s) o) = snd (exec1 cfg (g', s') o) /\
  snd (fst (exec1 cfg (g, s) o)) j = snd (fst (exec1 cfg (g', s') o)) j.
Proof.
  intros Hj Hs. destruct o as [k f|k f]; cbn in *; subst k.
  - destruct (init_state f) as [st labs]. cbn. rewrite !upd_same. auto.
  - rewrite <- Hs. destruct (s j) as [st|] eqn:Esj; cbn; [|split; [reflexivity|congruence]].
    destruct (link_step _ _ _ _ st f) as [[st' labs]|]; cbn; rewrite ?upd_same; auto.
Qed.

(* Non-interference: for EVERY schedule, what job j outputs equals what it outputs when
   only its own operations run (from any store/global state agreeing on job j). *)
Theorem isolation cfg j : forall ops g (s : store) g' (s' : store),
  s j = s' j ->
  proj j (exec cfg (g, s) ops) = proj j (exec cfg (g', s') (own j ops)).
Proof.
  induction ops as [|o ops IH]; intros g s g' s' Hs; [reflexivity|].
  cbn [exec own filter]. destruct (Nat.eqb (job_of o) j) eqn:E.
  - apply Nat.eqb_eq in E. cbn [exec].
    destruct (exec1_own cfg g s g' s' o j E Hs) as [Hout Hst].
    remember (exec1 cfg (g, s) o) as r1 eqn:E1 in *. destruct r1 as [[g1 s1] out1].
    remember (exec1 cfg (g', s') o) as r2 eqn:E2 in *. destruct r2 as [[g2 s2] out2]. cbn [fst snd] in Hout, Hst. subst out2.
    cbn [proj filter]. destruct (Nat.eqb (fst out1) j); [f_equal|]; apply IH; exact Hst.
  - apply Nat.eqb_neq in E. destruct (exec1_other cfg g s o j E) as [Hst Hout].
    remember (exec1 cfg (g, s) o) as r1 eqn:E1 in *. destruct r1 as [[g1 s1] out1]. cbn [fst snd] in Hst, Hout.
    cbn [proj filter]. apply Nat.eqb_neq in Hout. rewrite Hout.
    apply IH. rewrite Hst. exact Hs.
Qed.

(* repeating a job gives the same labels: exec is a function; with isolation, also
   whatever ran before or in between *)
Corollary reproducible cfg j ops1 ops2 g1 (s1 : store) g2 (s2 : store) :
  s1 j = s2 j -> own j ops1 = own j ops2 ->
  proj j (exec cfg (g1, s1) ops1) = proj j (exec cfg (g2, s2) ops2).
Proof.
  intros Hs Ho. rewrite (isolation cfg j ops1 g1 s1 g1 s1 eq_refl).
  rewrite (isolation cfg j ops2 g2 s2 g1 s1 (eq_sym Hs)). rewrite Ho. reflexivity.
Qed.

(* ---- the shared-counter model (code before the fix) is NOT isolated ---- *)
Definition cfg0 : nat -> config := fun _ => {| c_metric := {| mw := [1]; mR2 := 4 |}; c_mem := 0; c_max := 30 |}.
Definition no_jobs : store := fun _ => None.
(* job 0 advances two frames (a newborn in each), job 1 starts, job 0 advances *)
Definition witness_sched : list op :=
  [ Start 0 [[0]; [10]; [20]]; Step 0 [[0]; [10]; [20]; [30]]; Start 1 [[0]];
    Step 0 [[0]; [10]; [20]; [30]; [40]] ].

Theorem shared_counter_refuted :
  proj 0 (exec_shared cfg0 ({| point_ctr := 0; track_ctr := 0 |}, no_jobs) witness_sched)
  = [(0%nat, Some [0; 1; 2]%nat); (0%nat, Some [0; 1; 2; 3]%nat); (0%nat, Some [0; 1; 2; 3; 1]%nat)]
  /\ proj 0 (exec cfg0 ({| point_ctr := 0; track_ctr := 0 |}, no_jobs) witness_sched)
  = [(0%nat, Some [0; 1; 2]%nat); (0%nat, Some [0; 1; 2; 3]%nat); (0%nat, Some [0; 1; 2; 3; 4]%nat)].
Proof. split; vm_compute; reflexivity. Qed.
