(* C19, route T for the pair-correlation functions: the functions of Gen/paircorr.v (generated from
   trackpy/static.py by tools/py2coq_paircorr.py), read under the interpretation PairCorrI of
   Model/PyPairCorr.v, equal the hand-written pair_correlation_sel (Model/StaticPairCorrSel.v) on every
   input on which they do not raise; the C19 theorems about g(r) carry over. *)
From Coq Require Import QArith Qabs Qround List Bool Arith NArith ZArith Lia Lqa Permutation String.
From TP Require Import Model.StaticPairCorr Model.StaticPairCorrSel Model.PyPairCorr Gen.paircorr.
From TP Require Import Proofs.StaticPairCorr Proofs.StaticPairCorrSel.
Import ListNotations.
Open Scope Q_scope.

(* ------------------------------------------------------------------ *)
(* lists                                                               *)
(* ------------------------------------------------------------------ *)
Lemma map2_map_same {A} (f g : A -> bool) l :
  map2 andb (map f l) (map g l) = map (fun x => f x && g x) l.
Proof. induction l; simpl; congruence. Qed.

Lemma map2_map2_map_same {A} (f g : A -> bool) (D : list (list A)) :
  map2 (map2 andb) (map (map f) D) (map (map g) D) = map (map (fun x => f x && g x)) D.
Proof. induction D; simpl; auto. rewrite map2_map_same, IHD. reflexivity. Qed.

Lemma sel1_map {A} (f : A -> bool) l : sel1 l (map f l) = filter f l.
Proof.
  unfold sel1. induction l; simpl; auto. destruct (f a); simpl; congruence.
Qed.

Lemma sel1_repeat_map {A B} (p : B) (f : A -> bool) l :
  sel1 (repeat p (List.length l)) (map f l) = map (fun _ => p) (filter f l).
Proof.
  unfold sel1. induction l; simpl; auto. destruct (f a); simpl; congruence.
Qed.

Lemma sel2_map {A} (f : A -> bool) (D : list (list A)) :
  sel2 D (map (map f) D) = flat_map (filter f) D.
Proof.
  unfold sel2. induction D; simpl; auto. rewrite sel1_map, IHD. reflexivity.
Qed.

Lemma sel2_repeat_map {A B} (f : A -> bool) (row : B -> list A) (k : nat) refs :
  (forall p, List.length (row p) = k) ->
  sel2 (map (fun p => repeat p k) refs) (map (map f) (map row refs))
  = flat_map (fun p => map (fun _ => p) (filter f (row p))) refs.
Proof.
  intros L. unfold sel2. induction refs as [|p refs IH]; simpl; auto.
  rewrite IH. f_equal. rewrite <- (L p). apply sel1_repeat_map.
Qed.

Lemma combine_app_eq {A B} (l1 l2 : list A) (m1 m2 : list B) :
  List.length l1 = List.length m1 -> combine (l1 ++ l2) (m1 ++ m2) = combine l1 m1 ++ combine l2 m2.
Proof.
  revert m1. induction l1; intros [|b m1] L; simpl in *; try discriminate; auto.
  f_equal. apply IHl1. lia.
Qed.

Lemma combine_map_same {A B C} (f : A -> B) (g : A -> C) l :
  combine (map f l) (map g l) = map (fun x => (f x, g x)) l.
Proof. induction l; simpl; congruence. Qed.

Lemma firstn_repeat_filter_none (t : option Q -> bool) m k :
  t None = false -> filter t (firstn m (repeat None k)) = [].
Proof.
  intros T. revert m. induction k; intros [|m]; simpl; auto. rewrite T. auto.
Qed.

Lemma last_map_some {A} (l : list A) : l <> [] -> exists x, last (map Some l) None = Some x.
Proof.
  induction l as [|a l IH]; intros N; [congruence|].
  destruct l as [|b l]; simpl; [eauto|]. apply IH. discriminate.
Qed.

(* arrays indexed by (reference particle, neighbour): flat_map over refs of a map over F p *)
Definition FM {B} (E : qpt -> qpt -> B) (F : qpt -> list qpt) (refs : list qpt) : list B :=
  flat_map (fun p => map (E p) (F p)) refs.

Lemma map_FM {B C} (h : B -> C) E F refs : map h (FM E F refs) = FM (fun p q => h (E p q)) F refs.
Proof.
  unfold FM. induction refs; simpl; auto. rewrite map_app, map_map, IHrefs. reflexivity.
Qed.

Lemma combine_FM {B C} (E1 : qpt -> qpt -> B) (E2 : qpt -> qpt -> C) F refs :
  combine (FM E1 F refs) (FM E2 F refs) = FM (fun p q => (E1 p q, E2 p q)) F refs.
Proof.
  unfold FM. induction refs; simpl; auto.
  rewrite combine_app_eq by (rewrite !map_length; auto).
  rewrite combine_map_same, IHrefs. reflexivity.
Qed.

Lemma hist_input_FM (a : qpt -> qpt -> Q) (b : qpt -> qpt -> option Q) F refs :
  flat_map i_hist_input (FM (fun p q => (Some (a p q), b p q)) F refs) = FM (fun p q => (a p q, b p q)) F refs.
Proof.
  unfold FM. induction refs as [|p refs IH]; simpl; auto.
  rewrite flat_map_app, IH. f_equal.
  induction (F p); simpl; auto. f_equal. auto.
Qed.

(* ------------------------------------------------------------------ *)
(* numbers                                                             *)
(* ------------------------------------------------------------------ *)
Lemma Qltb_red a x : Qltb a (Qred x) = Qltb a x.
Proof.
  unfold Qltb. f_equal.
  destruct (Qle_bool (Qred x) a) eqn:A, (Qle_bool x a) eqn:B; auto.
  - apply Qle_bool_iff in A. rewrite Qred_correct in A. apply Qle_bool_iff in A. congruence.
  - apply Qle_bool_iff in B. rewrite <- (Qred_correct x) in B. apply Qle_bool_iff in B. congruence.
Qed.

Lemma Qceiling_plus1 x : Qceiling (x + 1) = (Qceiling x + 1)%Z.
Proof.
  assert (A1 := Qle_ceiling x). assert (A2 := Qceiling_lt x).
  assert (B1 := Qle_ceiling (x + 1)). assert (B2 := Qceiling_lt (x + 1)).
  set (z := Qceiling x) in *. set (w := Qceiling (x + 1)) in *.
  unfold Z.sub in A2, B2. rewrite inject_Z_plus in A2, B2. change (inject_Z (Z.opp 1)) with (Qopp 1) in A2, B2.
  assert (C1 : (z < w)%Z). { rewrite Zlt_Qlt. lra. }
  assert (C2 : (w < z + 2)%Z). { rewrite Zlt_Qlt, inject_Z_plus. change (inject_Z 2) with 2. lra. }
  lia.
Qed.

Lemma ceiling_nonneg cutoff dr : 0 < dr -> 0 <= cutoff -> (0 <= Qceiling (cutoff / dr))%Z.
Proof.
  intros Hd Hc. assert (C := Qle_ceiling (cutoff / dr)).
  assert (0 <= cutoff / dr) by (apply Qle_shift_div_l; auto; rewrite Qmult_0_l; auto).
  assert (X : 0 <= inject_Z (Qceiling (cutoff / dr))) by (eapply Qle_trans; eauto).
  change 0 with (inject_Z 0) in X. rewrite <- Zle_Qle in X. auto.
Qed.

(* r_edges = np.arange(0, cutoff + dr, dr): the nbins + 1 edges k * dr *)
Lemma arange_edges cutoff dr : 0 < dr -> 0 <= cutoff ->
  i_arange0 (cutoff + dr) dr = map (fun k => inject_Z (Z.of_nat k) * dr) (seq 0 (S (nbins cutoff dr))).
Proof.
  intros Hd Hc. unfold i_arange0, nbins. f_equal. f_equal.
  assert (E : (cutoff + dr) / dr == cutoff / dr + 1) by (field; intro Z0; rewrite Z0 in Hd; inversion Hd).
  rewrite E, Qceiling_plus1. rewrite Z2Nat.inj_add by (try lia; apply ceiling_nonneg; auto).
  simpl. lia.
Qed.

Lemma edges_sq dr nb :
  map (fun e => e * e) (map (fun k => inject_Z (Z.of_nat k) * dr) (seq 0 (S nb))) = edges2 dr nb.
Proof. unfold edges2. rewrite map_map. reflexivity. Qed.

Lemma finish_norm_comp n1 n2 a : n1 == n2 -> finish n1 a = finish n2 a.
Proof.
  intros E. unfold finish. destruct (fst a =? 0)%nat; auto. f_equal. apply Qred_complete. rewrite E. reflexivity.
Qed.

(* ------------------------------------------------------------------ *)
(* the kd-tree query, the guard, the mask                              *)
(* ------------------------------------------------------------------ *)
Definition keep (d : option Q) : bool := i_gt0 d && i_finite d.

Lemma i_row_length k c2 tree p : List.length (i_row k c2 tree p) = k.
Proof.
  unfold i_row. rewrite firstn_length, app_length, repeat_length. lia.
Qed.

(* the RuntimeError guard: the last column is infinite in every row => every reference particle
   has fewer than k neighbours (itself included), so the query returned all of them *)
Lemma guard_row k c2 tree p : (0 < k)%nat ->
  i_finite (last (i_row k c2 tree p) None) = false -> (List.length (i_nbrs c2 tree p) < k)%nat.
Proof.
  intros K H. destruct (le_lt_dec k (List.length (i_nbrs c2 tree p))) as [L|L]; auto. exfalso.
  unfold i_row in H. rewrite firstn_app, map_length in H.
  replace (k - List.length (i_nbrs c2 tree p))%nat with 0%nat in H by lia.
  simpl in H. rewrite app_nil_r, firstn_map in H.
  destruct (last_map_some (firstn k (i_nbrs c2 tree p))) as [x X].
  - intro E. apply (f_equal (@List.length Q)) in E. rewrite firstn_length in E. simpl in E. lia.
  - rewrite X in H. discriminate.
Qed.

Lemma guard_rows k c2 tree refs : (0 < k)%nat ->
  existsb (fun b => b) (map i_finite (map (fun row => last row None) (map (i_row k c2 tree) refs))) = false ->
  Forall (fun p => (List.length (i_nbrs c2 tree p) < k)%nat) refs.
Proof.
  intros K. induction refs as [|p refs IH]; simpl; intros H; constructor.
  - apply orb_false_iff in H. apply guard_row; tauto.
  - apply IH. apply orb_false_iff in H. tauto.
Qed.

Lemma keep_row k c2 tree p : (List.length (i_nbrs c2 tree p) < k)%nat ->
  filter keep (i_row k c2 tree p) = map (fun q => Some (Qred (qd2 p q))) (filter (in_range c2 p) tree).
Proof.
  intros L. unfold i_row. rewrite firstn_app, filter_app, map_length.
  rewrite firstn_repeat_filter_none by reflexivity. rewrite app_nil_r.
  rewrite firstn_all2 by (rewrite map_length; lia).
  unfold i_nbrs. rewrite map_map, filter_map_comm, filter_filter_and. f_equal.
  apply filter_ext. intros q. unfold keep, in_range. simpl. rewrite Qltb_red.
  rewrite andb_true_r. apply andb_comm.
Qed.

Lemma dist_sel_aux k c2 tree refs :
  Forall (fun p => (List.length (i_nbrs c2 tree p) < k)%nat) refs ->
  flat_map (filter keep) (map (i_row k c2 tree) refs)
  = FM (fun p q => Some (Qred (qd2 p q))) (fun p => filter (in_range c2 p) tree) refs.
Proof.
  unfold FM. induction 1 as [|p r Hp Hr IH]; simpl; auto. rewrite keep_row by auto. f_equal. apply IH.
Qed.

Lemma pos_sel_aux k c2 tree refs :
  Forall (fun p => (List.length (i_nbrs c2 tree p) < k)%nat) refs ->
  flat_map (fun p => map (fun _ => p) (filter keep (i_row k c2 tree p))) refs
  = FM (fun p _ => p) (fun p => filter (in_range c2 p) tree) refs.
Proof.
  unfold FM. induction 1 as [|p r Hp Hr IH]; simpl; auto. rewrite keep_row by auto. rewrite map_map. f_equal. apply IH.
Qed.

Section Tail.
Variables (k : nat) (c2 : Q) (tree refs : list qpt).
Hypothesis K : (0 < k)%nat.
Hypothesis G : existsb (fun b => b) (map i_finite (map (fun row => last row None) (map (i_row k c2 tree) refs))) = false.

Let D := map (i_row k c2 tree) refs.
Let M := map2 (map2 andb) (map (map i_gt0) D) (map (map i_finite) D).
Let F := fun p => filter (in_range c2 p) tree.

Lemma mask_is_keep : M = map (map keep) D.
Proof. apply map2_map2_map_same. Qed.

Lemma dist_selected : sel2 D M = FM (fun p q => Some (Qred (qd2 p q))) F refs.
Proof.
  rewrite mask_is_keep, sel2_map. unfold D. apply dist_sel_aux. apply guard_rows; auto.
Qed.

Lemma pos_selected : sel2 (map (fun p => repeat p k) refs) M = FM (fun p _ => p) F refs.
Proof.
  rewrite mask_is_keep. unfold D. rewrite sel2_repeat_map by (intros; apply i_row_length).
  apply pos_sel_aux. apply guard_rows; auto.
Qed.

(* handle_edge=True: weights 1 / arc(dist, walls of the reference particle) *)
Lemma tail_edge (arc : Q -> list Q -> option Q) (b : box) :
  flat_map i_hist_input
    (combine (sel2 D M)
             (map (option_map Qinv) (i_bounded arc (sel2 D M) (sel2 (map (fun p => repeat p k) refs) M) b)))
  = values_ref arc b c2 refs tree.
Proof.
  rewrite dist_selected, pos_selected. unfold i_bounded.
  rewrite combine_FM, !map_FM, combine_FM. simpl.
  rewrite (hist_input_FM (fun p q => Qred (qd2 p q))). reflexivity.
Qed.

(* handle_edge=False: weights 1 / (a function of the distance alone) *)
Lemma tail_free (A : Q -> option Q) (b : box) :
  flat_map i_hist_input
    (combine (sel2 D M)
             (map (option_map Qinv) (map (fun d => match d with Some d2 => A d2 | None => None end) (sel2 D M))))
  = values_ref (fun d2 _ => A d2) b c2 refs tree.
Proof.
  rewrite dist_selected. rewrite !map_FM, combine_FM. simpl.
  rewrite (hist_input_FM (fun p q => Qred (qd2 p q))). reflexivity.
Qed.
End Tail.

(* handle_edge=False in 3-D: 4 pi dist^2, rational in the squared distance *)
Lemma tail_free_sq k c2 tree refs (K : (0 < k)%nat)
  (G : existsb (fun b => b) (map i_finite (map (fun row => last row None) (map (i_row k c2 tree) refs))) = false)
  (c : Q) (b : box) :
  let D := map (i_row k c2 tree) refs in
  let M := map2 (map2 andb) (map (map i_gt0) D) (map (map i_finite) D) in
  flat_map i_hist_input
    (combine (sel2 D M) (map (option_map Qinv) (map (option_map (Qmult c)) (sel2 D M))))
  = values_ref (fun d2 _ => Some (c * d2)) b c2 refs tree.
Proof. exact (tail_free k c2 tree refs K G (fun d2 => Some (c * d2)) b). Qed.

(* ------------------------------------------------------------------ *)
(* the boundary filter, the column selection, the default density      *)
(* ------------------------------------------------------------------ *)
Lemma ci_x : col_index "x" = 0%nat. Proof. reflexivity. Qed.
Lemma ci_y : col_index "y" = 1%nat. Proof. reflexivity. Qed.
Lemma ci_z : col_index "z" = 2%nat. Proof. reflexivity. Qed.

Lemma mask2 a b c d (feat : list qpt) : Forall (fun p => List.length p = 2%nat) feat ->
  sel1 feat (map2 andb (map2 andb (map2 andb
      (map (fun v => Qle_bool a v) (column 0 feat)) (map (fun v => Qle_bool v b) (column 0 feat)))
      (map (fun v => Qle_bool c v) (column 1 feat))) (map (fun v => Qle_bool v d) (column 1 feat)))
  = filter (inside [(a, b); (c, d)]) feat.
Proof.
  intros HF. unfold column. rewrite !map_map, !map2_map_same, sel1_map.
  apply filter_ext_in. intros p Hp. rewrite Forall_forall in HF. specialize (HF p Hp).
  destruct p as [|x [|y [|]]]; try discriminate. simpl. rewrite andb_true_r, !andb_assoc. reflexivity.
Qed.

Lemma mask3 a b c d e f (feat : list qpt) : Forall (fun p => List.length p = 3%nat) feat ->
  sel1 feat (map2 andb (map2 andb (map2 andb (map2 andb (map2 andb
      (map (fun v => Qle_bool a v) (column 0 feat)) (map (fun v => Qle_bool v b) (column 0 feat)))
      (map (fun v => Qle_bool c v) (column 1 feat))) (map (fun v => Qle_bool v d) (column 1 feat)))
      (map (fun v => Qle_bool e v) (column 2 feat))) (map (fun v => Qle_bool v f) (column 2 feat)))
  = filter (inside [(a, b); (c, d); (e, f)]) feat.
Proof.
  intros HF. unfold column. rewrite !map_map, !map2_map_same, sel1_map.
  apply filter_ext_in. intros p Hp. rewrite Forall_forall in HF. specialize (HF p Hp).
  destruct p as [|x [|y [|z [|]]]]; try discriminate. simpl. rewrite andb_true_r, !andb_assoc. reflexivity.
Qed.

Lemma proj2_id (feat : list qpt) : Forall (fun p => List.length p = 2%nat) feat ->
  map (fun p : list Q => [nth 0 p 0; nth 1 p 0]) feat = feat.
Proof.
  intros HF. rewrite <- (map_id feat) at 2. apply map_ext_in. intros p Hp.
  rewrite Forall_forall in HF. specialize (HF p Hp). destruct p as [|x [|y [|]]]; try discriminate. reflexivity.
Qed.

Lemma proj3_id (feat : list qpt) : Forall (fun p => List.length p = 3%nat) feat ->
  map (fun p : list Q => [nth 0 p 0; nth 1 p 0; nth 2 p 0]) feat = feat.
Proof.
  intros HF. rewrite <- (map_id feat) at 2. apply map_ext_in. intros p Hp.
  rewrite Forall_forall in HF. specialize (HF p Hp). destruct p as [|x [|y [|z [|]]]]; try discriminate. reflexivity.
Qed.

Lemma Forall_filter {A} (P : A -> Prop) (f : A -> bool) l : Forall P l -> Forall P (filter f l).
Proof. rewrite !Forall_forall. intros H x Hx. apply filter_In in Hx. apply H. tauto. Qed.

Lemma ndens_eq2 a b c d (n : nat) :
  inject_Z (Z.of_nat n - 1) / ((b - a) * (d - c)) == ndens_default n [(a, b); (c, d)].
Proof.
  unfold ndens_default. rewrite Qred_correct. unfold extent, Z.sub. rewrite inject_Z_plus.
  change (inject_Z (- (1))) with (- (1)).
  assert (E : (b - a) * ((d - c) * 1) == (b - a) * (d - c)) by ring. rewrite E. reflexivity.
Qed.

Lemma ndens_eq3 a b c d e f (n : nat) :
  inject_Z (Z.of_nat n - 1) / ((b - a) * (d - c) * (f - e)) == ndens_default n [(a, b); (c, d); (e, f)].
Proof.
  unfold ndens_default. rewrite Qred_correct. unfold extent, Z.sub. rewrite inject_Z_plus.
  change (inject_Z (- (1))) with (- (1)).
  assert (E : (b - a) * ((d - c) * ((f - e) * 1)) == (b - a) * (d - c) * (f - e)) by ring. rewrite E. reflexivity.
Qed.

Lemma select_length idx (feat : list qpt) : List.length (select idx feat) = List.length idx.
Proof. unfold select. apply map_length. Qed.

(* ------------------------------------------------------------------ *)
(* the generated functions                                             *)
(* ------------------------------------------------------------------ *)
Ltac unfold_I H :=
  cbv beta iota zeta delta [PairCorrI DataFrame Series BoolSeries Scalar Indices Edges Tree Points PointMat DistMat IdxMat
    BoolMat DistCol BoolCol DistArr Arr Hist Box p_float p_of_int p_pi p_add p_sub p_mul p_div p_pow p_int p_eqb p_gtb p_col
    p_min p_max p_count p_len p_ge p_le p_and p_getitem_mask p_getitem_cols p_slice p_random_randint p_arange0 p_edges_max
    p_cKDTree p_tree_data p_take p_len_points p_query p_mat_lastcol p_isfinite_col p_any p_mat_gt0 p_mat_isfinite p_mat_and
    p_mat_select p_repeat_axis1 p_pts_select p_box p_arclen_2d_bounded p_area_3d_bounded p_dist_scale p_dist_sq p_arr_scale
    p_recip p_histogram p_hist_div] in H;
  rewrite ?ci_x, ?ci_y, ?ci_z in H; cbn [map nth] in H.

(* from the particle table on: name the reference particles and max_p_count, pass the MemoryError guard, the
   query (max_p_count >= 2) and the RuntimeError guard *)
Ltac tail_tac H :=
  rewrite ?Nat2Z.id in H;
  match type of H with context [i_query _ (select ?idx ?f) ?kk _] => set (refs := select idx f) in *; set (kq := kk) in * end;
  match type of H with (if ?c then _ else _) = _ => destruct c; [discriminate H|] end;
  unfold i_query in H;
  match type of H with context [(?kv <? 2)%Z] => destruct (kv <? 2)%Z eqn:K2; [discriminate H|] end;
  cbv beta iota delta [bind] in H;
  match type of H with (if ?c then _ else _) = _ => destruct c eqn:G; [discriminate H|] end.

Ltac norm_tac lem :=
  apply map_ext; intros; apply finish_norm_comp;
  match goal with |- context [match ?nd with Some _ => _ | None => _ end] => destruct nd end;
  [reflexivity | unfold column; rewrite map_length, lem; reflexivity].

(* pair_correlation_2d, as generated from the source, wherever it does not raise: r_edges are the
   nbins + 1 edges k dr and g_r IS pair_correlation_sel of the hand-written model, with the reference
   particles gen_idx (p_indices / all / the drawn sample), the edge measure arc evaluated at the
   reference particle (handle_edge=True) or the free circle 2 pi r (handle_edge=False). *)
Theorem py_pair_correlation_2d_eq :
  forall (arc : Q -> list Q -> option Q) (pi_q : Q) (oracle : Z -> Z -> Z -> list nat) (scale_sqrt : Q -> Q -> option Q)
         (feat : list qpt) (cutoff fraction dr : Q) (p_indices : option (list nat)) (ndensity : option Q)
         (boundary : option (Q * Q * Q * Q)) (handle_edge : bool) (mrd : Q) (r_edges : list Q) (g : list (option Q)),
  Forall (fun p => List.length p = 2%nat) feat -> 0 < dr -> 0 <= cutoff ->
  py_pair_correlation_2d (PairCorrI arc pi_q oracle scale_sqrt) feat cutoff fraction dr p_indices ndensity boundary
                         handle_edge mrd = Ok (r_edges, g) ->
  let b := option_map box_of4 boundary in
  r_edges = map (fun k => inject_Z (Z.of_nat k) * dr) (seq 0 (S (nbins cutoff dr))) /\
  g = pair_correlation_sel (if handle_edge then arc else fun d2 _ => scale_sqrt (inject_Z 2 * pi_q) d2) 2 b feat
        (gen_idx oracle fraction p_indices (List.length (kept b feat))) ndensity cutoff dr.
Proof.
  intros arc pi_q oracle scale_sqrt feat cutoff fraction dr p_indices ndensity boundary handle_edge mrd r_edges g HF Hd Hc H.
  unfold py_pair_correlation_2d in H. unfold_I H.
  destruct boundary as [[[[a b] c] d]|]; cbv beta iota in H.
  - rewrite !mask2 in H by auto.
    assert (HF' := Forall_filter _ (inside [(a, b); (c, d)]) _ HF).
    set (feat' := filter (inside [(a, b); (c, d)]) feat) in *.
    rewrite !proj2_id in H by auto.
    tail_tac H.
    assert (K : (0 < Z.to_nat kq)%nat) by (apply Z.ltb_ge in K2; lia).
    inversion H; subst r_edges g; clear H. cbv zeta.
    split; [apply arange_edges; auto|].
    cbn [option_map]. unfold pair_correlation_sel, box_of4, kept, gr_box_ref, gen_idx, i_histogram.
    rewrite arange_edges, edges_sq by auto. fold feat'. fold refs.
    destruct handle_edge.
    + rewrite (tail_edge _ _ _ _ K G). norm_tac ndens_eq2.
    + rewrite (tail_free _ _ _ _ K G _ [(a, b); (c, d)]). norm_tac ndens_eq2.
  - rewrite !proj2_id in H by auto.
    tail_tac H.
    assert (K : (0 < Z.to_nat kq)%nat) by (apply Z.ltb_ge in K2; lia).
    inversion H; subst r_edges g; clear H. cbv zeta.
    split; [apply arange_edges; auto|].
    cbn [option_map]. unfold pair_correlation_sel, kept, gr_box_ref, gen_idx, i_histogram, bbox. cbn [map seq].
    rewrite arange_edges, edges_sq by auto. fold refs.
    destruct handle_edge.
    + rewrite (tail_edge _ _ _ _ K G). norm_tac ndens_eq2.
    + match goal with |- context [values_ref _ ?bx] => rewrite (tail_free _ _ _ _ K G _ bx) end. norm_tac ndens_eq2.
Qed.

(* pair_correlation_3d likewise (free sphere 4 pi r^2 when handle_edge=False: rational in the squared distance) *)
Theorem py_pair_correlation_3d_eq :
  forall (arc : Q -> list Q -> option Q) (pi_q : Q) (oracle : Z -> Z -> Z -> list nat) (scale_sqrt : Q -> Q -> option Q)
         (feat : list qpt) (cutoff fraction dr : Q) (p_indices : option (list nat)) (ndensity : option Q)
         (boundary : option (Q * Q * Q * Q * Q * Q)) (handle_edge : bool) (mrd : Q) (r_edges : list Q) (g : list (option Q)),
  Forall (fun p => List.length p = 3%nat) feat -> 0 < dr -> 0 <= cutoff ->
  py_pair_correlation_3d (PairCorrI arc pi_q oracle scale_sqrt) feat cutoff fraction dr p_indices ndensity boundary
                         handle_edge mrd = Ok (r_edges, g) ->
  let b := option_map box_of6 boundary in
  r_edges = map (fun k => inject_Z (Z.of_nat k) * dr) (seq 0 (S (nbins cutoff dr))) /\
  g = pair_correlation_sel (if handle_edge then arc else fun d2 _ => Some (inject_Z 4 * pi_q * d2)) 3 b feat
        (gen_idx oracle fraction p_indices (List.length (kept b feat))) ndensity cutoff dr.
Proof.
  intros arc pi_q oracle scale_sqrt feat cutoff fraction dr p_indices ndensity boundary handle_edge mrd r_edges g HF Hd Hc H.
  unfold py_pair_correlation_3d in H. unfold_I H.
  destruct boundary as [[[[[[a b] c] d] e] f]|]; cbv beta iota in H.
  - rewrite !mask3 in H by auto.
    assert (HF' := Forall_filter _ (inside [(a, b); (c, d); (e, f)]) _ HF).
    set (feat' := filter (inside [(a, b); (c, d); (e, f)]) feat) in *.
    rewrite !proj3_id in H by auto.
    tail_tac H.
    assert (K : (0 < Z.to_nat kq)%nat) by (apply Z.ltb_ge in K2; lia).
    inversion H; subst r_edges g; clear H. cbv zeta.
    split; [apply arange_edges; auto|].
    cbn [option_map]. unfold pair_correlation_sel, box_of6, kept, gr_box_ref, gen_idx, i_histogram.
    rewrite arange_edges, edges_sq by auto. fold feat'. fold refs.
    destruct handle_edge.
    + rewrite (tail_edge _ _ _ _ K G). norm_tac ndens_eq3.
    + rewrite (tail_free_sq _ _ _ _ K G _ [(a, b); (c, d); (e, f)]). norm_tac ndens_eq3.
  - rewrite !proj3_id in H by auto.
    tail_tac H.
    assert (K : (0 < Z.to_nat kq)%nat) by (apply Z.ltb_ge in K2; lia).
    inversion H; subst r_edges g; clear H. cbv zeta.
    split; [apply arange_edges; auto|].
    cbn [option_map]. unfold pair_correlation_sel, kept, gr_box_ref, gen_idx, i_histogram, bbox. cbn [map seq].
    rewrite arange_edges, edges_sq by auto. fold refs.
    destruct handle_edge.
    + rewrite (tail_edge _ _ _ _ K G). norm_tac ndens_eq3.
    + match goal with |- context [values_ref _ ?bx] => rewrite (tail_free_sq _ _ _ _ K G _ bx) end. norm_tac ndens_eq3.
Qed.

(* ------------------------------------------------------------------ *)
(* the C19 theorems about g(r), for the generated functions            *)
(* ------------------------------------------------------------------ *)
Lemma pc_sel_as_box arc dim b feat idx nd cutoff dr :
  pair_correlation_sel arc dim b feat idx nd cutoff dr
  = gr_box_ref arc (match b with Some bx => bx | None => bbox dim feat end)
               (select idx (kept b feat)) (kept b feat) nd cutoff dr.
Proof. destruct b; reflexivity. Qed.

Lemma pc_sel_permutation arc dim b feat feat' idx idx' nd cutoff dr :
  Permutation feat feat' -> Permutation (select idx (kept b feat)) (select idx' (kept b feat')) ->
  pair_correlation_sel arc dim b feat' idx' nd cutoff dr = pair_correlation_sel arc dim b feat idx nd cutoff dr.
Proof.
  intros Pf Pr. rewrite !pc_sel_as_box. destruct b as [bx|]; simpl in *.
  - apply gr_box_ref_permutation; auto. apply perm_filter; auto.
  - rewrite (bbox_perm arc dim feat feat' Pf). apply gr_box_ref_permutation; auto.
Qed.

Lemma shift_length t : forall p, List.length (shift t p) = List.length p.
Proof. induction t; intros [|x p]; simpl; auto. Qed.

Lemma Forall_shift n t feat :
  Forall (fun p => List.length p = n) feat -> Forall (fun p => List.length p = n) (map (shift t) feat).
Proof. rewrite !Forall_forall. intros H p Hp. apply in_map_iff in Hp. destruct Hp as [q [<- Hq]]. rewrite shift_length. auto. Qed.

Lemma kept_shift_length t bx feat :
  List.length (kept (Some (shift_box t bx)) (map (shift t) feat)) = List.length (kept (Some bx) feat).
Proof.
  unfold kept. rewrite filter_map_comm, map_length.
  rewrite (filter_ext _ (inside bx)) by (intros p; apply inside_shift). reflexivity.
Qed.

Section Carry2.
Variables (arc : Q -> list Q -> option Q) (pi_q : Q) (oracle : Z -> Z -> Z -> list nat) (scale_sqrt : Q -> Q -> option Q).
Let I := PairCorrI arc pi_q oracle scale_sqrt.
Let arc2 (handle_edge : bool) := if handle_edge then arc else fun d2 (_ : list Q) => scale_sqrt (inject_Z 2 * pi_q) d2.
Let arc3 (handle_edge : bool) := if handle_edge then arc else fun d2 (_ : list Q) => Some (inject_Z 4 * pi_q * d2).

(* per bin: the sum over the ordered pairs (reference particle, particle) in the bin of 1 / measure at the
   reference particle, over density * number of reference particles * dr *)
Theorem py_gr_2d_spec feat cutoff fraction dr p_indices ndensity boundary handle_edge mrd r_edges g k :
  Forall (fun p => List.length p = 2%nat) feat -> 0 < dr -> 0 <= cutoff ->
  py_pair_correlation_2d I feat cutoff fraction dr p_indices ndensity boundary handle_edge mrd = Ok (r_edges, g) ->
  (k < nbins cutoff dr)%nat ->
  let ob := option_map box_of4 boundary in
  let b := match ob with Some bx => bx | None => bbox 2 feat end in
  let parts := kept ob feat in
  let refs := select (gen_idx oracle fraction p_indices (List.length parts)) parts in
  let rho := match ndensity with Some r => r | None => ndens_default (List.length parts) b end in
  nth_error g k
  = Some (finish (rho * inject_Z (Z.of_nat (List.length refs)) * dr)
                 (fold_left addw (bin_terms_ref (arc2 handle_edge) b refs parts cutoff dr k) (0%nat, 0))).
Proof.
  intros HF Hd Hc H Lk. destruct (py_pair_correlation_2d_eq _ _ _ _ _ _ _ _ _ _ _ _ _ _ _ HF Hd Hc H) as [_ ->].
  cbv zeta. rewrite pc_sel_as_box. apply gr_box_ref_spec; auto.
Qed.

Theorem py_gr_3d_spec feat cutoff fraction dr p_indices ndensity boundary handle_edge mrd r_edges g k :
  Forall (fun p => List.length p = 3%nat) feat -> 0 < dr -> 0 <= cutoff ->
  py_pair_correlation_3d I feat cutoff fraction dr p_indices ndensity boundary handle_edge mrd = Ok (r_edges, g) ->
  (k < nbins cutoff dr)%nat ->
  let ob := option_map box_of6 boundary in
  let b := match ob with Some bx => bx | None => bbox 3 feat end in
  let parts := kept ob feat in
  let refs := select (gen_idx oracle fraction p_indices (List.length parts)) parts in
  let rho := match ndensity with Some r => r | None => ndens_default (List.length parts) b end in
  nth_error g k
  = Some (finish (rho * inject_Z (Z.of_nat (List.length refs)) * dr)
                 (fold_left addw (bin_terms_ref (arc3 handle_edge) b refs parts cutoff dr k) (0%nat, 0))).
Proof.
  intros HF Hd Hc H Lk. destruct (py_pair_correlation_3d_eq _ _ _ _ _ _ _ _ _ _ _ _ _ _ _ HF Hd Hc H) as [_ ->].
  cbv zeta. rewrite pc_sel_as_box. apply gr_box_ref_spec; auto.
Qed.

(* another order of the particles, the same reference particles (wherever they now stand, in any order) *)
Theorem py_gr_2d_permutation feat feat' cutoff fraction dr idx idx' ndensity boundary handle_edge mrd r_edges g r_edges' g' :
  Forall (fun p => List.length p = 2%nat) feat -> 0 < dr -> 0 <= cutoff ->
  Permutation feat feat' ->
  (let ob := option_map box_of4 boundary in Permutation (select idx (kept ob feat)) (select idx' (kept ob feat'))) ->
  py_pair_correlation_2d I feat cutoff fraction dr (Some idx) ndensity boundary handle_edge mrd = Ok (r_edges, g) ->
  py_pair_correlation_2d I feat' cutoff fraction dr (Some idx') ndensity boundary handle_edge mrd = Ok (r_edges', g') ->
  r_edges' = r_edges /\ g' = g.
Proof.
  intros HF Hd Hc Pf Pr H H'.
  assert (HF' : Forall (fun p => List.length p = 2%nat) feat').
  { rewrite Forall_forall in *. intros p Hp. apply HF. eapply Permutation_in; [apply Permutation_sym; eauto|auto]. }
  destruct (py_pair_correlation_2d_eq _ _ _ _ _ _ _ _ _ _ _ _ _ _ _ HF Hd Hc H) as [-> ->].
  destruct (py_pair_correlation_2d_eq _ _ _ _ _ _ _ _ _ _ _ _ _ _ _ HF' Hd Hc H') as [-> ->].
  split; auto. cbv zeta in *. simpl gen_idx. apply pc_sel_permutation; auto.
Qed.

Theorem py_gr_3d_permutation feat feat' cutoff fraction dr idx idx' ndensity boundary handle_edge mrd r_edges g r_edges' g' :
  Forall (fun p => List.length p = 3%nat) feat -> 0 < dr -> 0 <= cutoff ->
  Permutation feat feat' ->
  (let ob := option_map box_of6 boundary in Permutation (select idx (kept ob feat)) (select idx' (kept ob feat'))) ->
  py_pair_correlation_3d I feat cutoff fraction dr (Some idx) ndensity boundary handle_edge mrd = Ok (r_edges, g) ->
  py_pair_correlation_3d I feat' cutoff fraction dr (Some idx') ndensity boundary handle_edge mrd = Ok (r_edges', g') ->
  r_edges' = r_edges /\ g' = g.
Proof.
  intros HF Hd Hc Pf Pr H H'.
  assert (HF' : Forall (fun p => List.length p = 3%nat) feat').
  { rewrite Forall_forall in *. intros p Hp. apply HF. eapply Permutation_in; [apply Permutation_sym; eauto|auto]. }
  destruct (py_pair_correlation_3d_eq _ _ _ _ _ _ _ _ _ _ _ _ _ _ _ HF Hd Hc H) as [-> ->].
  destruct (py_pair_correlation_3d_eq _ _ _ _ _ _ _ _ _ _ _ _ _ _ _ HF' Hd Hc H') as [-> ->].
  split; auto. cbv zeta in *. simpl gen_idx. apply pc_sel_permutation; auto.
Qed.

(* particles and boundary translated by (tx, ty): the same g(r)  (p_indices given, all, or drawn: the oracle
   is asked the same question, the number of particles inside the boundary being the same) *)
Theorem py_gr_2d_translation tx ty feat cutoff fraction dr p_indices ndensity a b c d handle_edge mrd r_edges g r_edges' g' :
  Forall (fun p => List.length p = 2%nat) feat -> 0 < dr -> 0 <= cutoff ->
  (forall i, In i (gen_idx oracle fraction p_indices (List.length (filter (inside [(a, b); (c, d)]) feat))) ->
             (i < List.length (filter (inside [(a, b); (c, d)]) feat))%nat) ->
  py_pair_correlation_2d I feat cutoff fraction dr p_indices ndensity (Some (a, b, c, d)) handle_edge mrd = Ok (r_edges, g) ->
  py_pair_correlation_2d I (map (shift [tx; ty]) feat) cutoff fraction dr p_indices ndensity
                         (Some (a + tx, b + tx, c + ty, d + ty)) handle_edge mrd = Ok (r_edges', g') ->
  r_edges' = r_edges /\ g' = g.
Proof.
  intros HF Hd Hc Hi H H'.
  destruct (py_pair_correlation_2d_eq _ _ _ _ _ _ _ _ _ _ _ _ _ _ _ HF Hd Hc H) as [-> ->].
  destruct (py_pair_correlation_2d_eq _ _ _ _ _ _ _ _ _ _ _ _ _ _ _ (Forall_shift _ [tx; ty] _ HF) Hd Hc H') as [-> ->].
  split; auto. cbv zeta. cbn [option_map box_of4].
  change [(a + tx, b + tx); (c + ty, d + ty)] with (shift_box [tx; ty] [(a, b); (c, d)]).
  rewrite kept_shift_length. apply pair_correlation_sel_translation. exact Hi.
Qed.

Theorem py_gr_3d_translation tx ty tz feat cutoff fraction dr p_indices ndensity a b c d e f handle_edge mrd r_edges g r_edges' g' :
  Forall (fun p => List.length p = 3%nat) feat -> 0 < dr -> 0 <= cutoff ->
  (forall i, In i (gen_idx oracle fraction p_indices (List.length (filter (inside [(a, b); (c, d); (e, f)]) feat))) ->
             (i < List.length (filter (inside [(a, b); (c, d); (e, f)]) feat))%nat) ->
  py_pair_correlation_3d I feat cutoff fraction dr p_indices ndensity (Some (a, b, c, d, e, f)) handle_edge mrd = Ok (r_edges, g) ->
  py_pair_correlation_3d I (map (shift [tx; ty; tz]) feat) cutoff fraction dr p_indices ndensity
                         (Some (a + tx, b + tx, c + ty, d + ty, e + tz, f + tz)) handle_edge mrd = Ok (r_edges', g') ->
  r_edges' = r_edges /\ g' = g.
Proof.
  intros HF Hd Hc Hi H H'.
  destruct (py_pair_correlation_3d_eq _ _ _ _ _ _ _ _ _ _ _ _ _ _ _ HF Hd Hc H) as [-> ->].
  destruct (py_pair_correlation_3d_eq _ _ _ _ _ _ _ _ _ _ _ _ _ _ _ (Forall_shift _ [tx; ty; tz] _ HF) Hd Hc H') as [-> ->].
  split; auto. cbv zeta. cbn [option_map box_of6].
  change [(a + tx, b + tx); (c + ty, d + ty); (e + tz, f + tz)] with (shift_box [tx; ty; tz] [(a, b); (c, d); (e, f)]).
  rewrite kept_shift_length. apply pair_correlation_sel_translation. exact Hi.
Qed.
End Carry2.
