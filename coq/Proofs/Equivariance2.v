(* C09, transposition of the refinement stage and of the composed discrete pipeline.

   Model/COM.refine_python (the C07 model of refine_com_arr, engine='python') run on the
   transposed image (numpy .T: all axes reversed) with the radii reversed and the start
   coordinate reversed returns the transposed row: the position coordinates reversed,
   mass, signal and raw_mass identical, the per-axis sizes reversed (a single isotropic
   size: identical).  All equalities are Leibniz equalities of the model's exact
   rationals -- no premise on the image content, the clip bounds or the iteration count
   is needed, because every step of the loop (mask, window sums, centroid, shift, clip)
   is the same per-axis operation carried out at the mirrored axis index.

   Composed with Proofs/Equivariance.maxima_transposed this gives the analogue of
   locate_discrete_moved for transposition.  ecc is not in the model (finding F13). *)
From Coq Require Import ZArith NArith QArith Qabs List Bool Arith Lia Permutation.
From TP Require Import Model.Dilation Model.COM Model.Equivariance Proofs.COM Proofs.Dilation Proofs.Equivariance.
Import ListNotations.
Open Scope Z_scope.

(* "row b is row a seen in the transposed image" *)
Definition char_transposed (a b : option (list Q * Z * Z)) : Prop :=
  match a, b with
  | None, None => True
  | Some (sizes, signal, raw_mass), Some (sizes', signal', raw_mass') =>
      sizes' = rev sizes /\ signal' = signal /\ raw_mass' = raw_mass
  | _, _ => False
  end.
Definition row_transposed (a b : output) : Prop :=
  o_pos b = rev (o_pos a) /\ o_mass b = o_mass a /\ char_transposed (o_char a) (o_char b).

(* ================================================================ list facts *)
Lemma ix_rev : forall v d, (d < length v)%nat -> ix (rev v) d = ix v (length v - S d).
Proof. intros. unfold ix. apply rev_nth. exact H. Qed.

Lemma qx_rev : forall v d, (d < length v)%nat -> qx (rev v) d = qx v (length v - S d).
Proof. intros. unfold qx. apply rev_nth. exact H. Qed.

Lemma map_seq_rev : forall (A : Type) (f : nat -> A) n,
  map (fun d => f (n - S d)%nat) (seq 0 n) = rev (map f (seq 0 n)).
Proof.
  intros A f n. induction n as [|n IH]; [reflexivity|].
  replace (rev (map f (seq 0 (S n)))) with (f n :: rev (map f (seq 0 n)))
    by (rewrite seq_S, map_app, rev_app_distr; reflexivity).
  cbn [seq map]. rewrite <- seq_shift, map_map. f_equal; [f_equal; lia|].
  rewrite <- IH. apply map_ext. intros a. f_equal.
Qed.

(* a list built per axis from mirrored ingredients is the mirrored list *)
Lemma map_seq_mirror : forall (A : Type) (f g : nat -> A) n,
  (forall d, (d < n)%nat -> g d = f (n - S d)%nat) -> map g (seq 0 n) = rev (map f (seq 0 n)).
Proof. intros A f g n H. rewrite <- map_seq_rev. apply map_seq_ext. exact H. Qed.

Lemma forallb_rev : forall (A : Type) (f : A -> bool) l, forallb f (rev l) = forallb f l.
Proof.
  induction l as [|a l IH]; [reflexivity|]. cbn [rev forallb].
  rewrite forallb_app, IH. cbn [forallb]. rewrite andb_true_r. apply andb_comm.
Qed.

Lemma zsum_perm : forall l l', Permutation l l' -> zsum l = zsum l'.
Proof. intros l l' H. unfold zsum. induction H; cbn [fold_right]; lia. Qed.

Lemma zsum_rev : forall l, zsum (rev l) = zsum l.
Proof. intros. apply zsum_perm, Permutation_sym, Permutation_rev. Qed.

Lemma fold_max_mem : forall l a, In (fold_left Z.max l a) (a :: l).
Proof.
  induction l as [|y l IH]; intros a; [left; reflexivity|]. cbn [fold_left].
  destruct (IH (Z.max a y)) as [E|H].
  - rewrite <- E. destruct (Z.max_spec a y) as [[_ ->]|[_ ->]]; [right; left|left]; reflexivity.
  - right; right; exact H.
Qed.

Lemma list_max_spec : forall l, l <> [] -> In (list_max l) l /\ forall x, In x l -> x <= list_max l.
Proof.
  intros [|a l] H; [congruence|]. unfold list_max. split; [apply fold_max_mem|].
  intros x [<-|Hx]; [apply fold_max_ge|apply fold_max_in, Hx].
Qed.

Lemma list_max_perm : forall l l', Permutation l l' -> list_max l = list_max l'.
Proof.
  intros l l' H. destruct l as [|a l].
  - apply Permutation_nil in H. subst. reflexivity.
  - assert (N1 : a :: l <> []) by discriminate.
    assert (N2 : l' <> []) by (intros ->; apply Permutation_sym, Permutation_nil in H; discriminate).
    destruct (list_max_spec _ N1) as [I1 M1]. destruct (list_max_spec _ N2) as [I2 M2].
    apply (Permutation_in _ H) in I1. apply (Permutation_in _ (Permutation_sym H)) in I2.
    specialize (M1 _ I2). specialize (M2 _ I1). lia.
Qed.

Lemma qsum_snoc : forall l x, (fold_right Qplus 0 (l ++ [x]) == x + fold_right Qplus 0 l)%Q.
Proof. induction l as [|a l IH]; intros x; cbn; [ring|]. rewrite IH. ring. Qed.

Lemma qsum_rev : forall l, (fold_right Qplus 0 (rev l) == fold_right Qplus 0 l)%Q.
Proof. induction l as [|a l IH]; cbn; [reflexivity|]. rewrite qsum_snoc, IH. reflexivity. Qed.

(* ============================================================ the mask box *)
Lemma grid_rev_in : forall ds q, In q (grid ds) -> In (rev q) (grid (rev ds)).
Proof.
  intros ds q H. apply in_grid in H. destruct H as [L B].
  apply grid_in; [rewrite !rev_length; exact L|].
  intros d Hd. rewrite rev_length in Hd.
  rewrite !ix_rev by lia. rewrite L. apply B. lia.
Qed.

Lemma grid_rev : forall ds, Permutation (grid (rev ds)) (map (@rev Z) (grid ds)).
Proof.
  intros ds. apply NoDup_Permutation.
  - apply NoDup_grid.
  - apply NoDup_map_inj_in; [|apply NoDup_grid].
    intros x y _ _ E. rewrite <- (rev_involutive x), <- (rev_involutive y), E. reflexivity.
  - intros q. rewrite in_map_iff. split.
    + intros H. exists (rev q). split; [apply rev_involutive|].
      rewrite <- (rev_involutive ds). apply grid_rev_in, H.
    + intros [p [<- Hp]]. apply grid_rev_in, Hp.
Qed.

Lemma box_rev : forall radius, Permutation (Model.COM.box (rev radius)) (map (@rev Z) (Model.COM.box radius)).
Proof. intros. unfold Model.COM.box. rewrite map_rev. apply grid_rev. Qed.

Lemma zsum_box_rev : forall radius (f : list Z -> Z),
  zsum (map f (Model.COM.box (rev radius))) = zsum (map (fun p => f (rev p)) (Model.COM.box radius)).
Proof.
  intros. rewrite (zsum_perm _ _ (Permutation_map f (box_rev radius))), map_map. reflexivity.
Qed.

Lemma list_max_box_rev : forall radius (f : list Z -> Z),
  list_max (map f (Model.COM.box (rev radius))) = list_max (map (fun p => f (rev p)) (Model.COM.box radius)).
Proof.
  intros. rewrite (list_max_perm _ _ (Permutation_map f (box_rev radius))), map_map. reflexivity.
Qed.

Lemma box_length : forall radius p, In p (Model.COM.box radius) -> length p = length radius.
Proof. intros radius p H. apply Proofs.COM.in_box in H. apply H. Qed.

(* ================================================== masks.py under reversal *)
Lemma offs_rev : forall radius p, length p = length radius ->
  offs (rev radius) (rev p) = rev (offs radius p).
Proof.
  intros radius p L. unfold offs. rewrite rev_length. apply map_seq_mirror.
  intros d Hd. rewrite !ix_rev by lia. rewrite L. reflexivity.
Qed.

Lemma offs_length : forall radius p, length (offs radius p) = length radius.
Proof. intros. unfold offs. rewrite map_length, seq_length. reflexivity. Qed.

Lemma ell_rev : forall radius o, length o = length radius -> (ell (rev radius) (rev o) == ell radius o)%Q.
Proof.
  intros radius o L. unfold ell. rewrite rev_length.
  rewrite (map_seq_mirror Q
             (fun d => let q := (inject_Z (ix o d) / inject_Z (ix radius d))%Q in (q * q)%Q)).
  - apply qsum_rev.
  - intros d Hd. cbv zeta. rewrite !ix_rev by lia. rewrite L. reflexivity.
Qed.

Lemma binary_mask_rev : forall radius p, length p = length radius ->
  binary_mask (rev radius) (rev p) = binary_mask radius p.
Proof.
  intros radius p L. unfold binary_mask. rewrite offs_rev by exact L.
  apply eq_true_iff_eq. rewrite !Qle_bool_iff.
  rewrite (ell_rev radius (offs radius p)) by apply offs_length. reflexivity.
Qed.

Lemma isotropic_iff : forall l, isotropic l = true <-> forall x y, In x l -> In y l -> x = y.
Proof.
  intros l. unfold isotropic. rewrite forallb_forall. split.
  - intros H x y Hx Hy. apply H, Z.eqb_eq in Hx. apply H, Z.eqb_eq in Hy. congruence.
  - intros H x Hx. apply Z.eqb_eq. apply H; [exact Hx|].
    destruct l as [|a l]; [destruct Hx|left; reflexivity].
Qed.

Lemma isotropic_rev : forall l, isotropic (rev l) = isotropic l.
Proof.
  intros l. apply eq_true_iff_eq. rewrite !isotropic_iff.
  split; intros H x y Hx Hy; apply H; first [rewrite <- in_rev; assumption | rewrite in_rev; assumption | apply in_rev; assumption].
Qed.

(* ================================================ _refine under reversal *)
(* one pass of the loop body, named (definitional unfoldings of ref_loop) *)
Definition offc (pix : list Z -> Z) (radius : list Z) (mask : list Z -> bool) (c : list Z) : list Q :=
  map (fun d => (qx (safe_com pix radius mask c) d - inject_Z (ix radius d))%Q) (seq 0 (length radius)).
Definition cmi_of (radius : list Z) (off : list Q) (c : list Z) : list Q :=
  map (fun d => (qx off d + inject_Z (ix c d))%Q) (seq 0 (length radius)).
Definition nextc (radius sh : list Z) (thresh : Q) (off : list Q) (c : list Z) : list Z :=
  map (fun d => r_clip1 (r_shift1 thresh (ix c d) (qx off d)) (ix radius d) (upper radius sh d)) (seq 0 (length radius)).

Lemma ref_loop_unfold : forall pix radius sh thresh mask k c,
  ref_loop pix radius sh thresh mask k c =
  let off := offc pix radius mask c in
  if all_lt thresh off then mkR c (cmi_of radius off c)
  else match k with
       | O => mkR c (cmi_of radius off c)
       | S k' => ref_loop pix radius sh thresh mask k' (nextc radius sh thresh off c)
       end.
Proof. intros. destruct k; reflexivity. Qed.

Section TransposedRefine.
  Variables pix1 pix2 raw1 raw2 : list Z -> Z.
  Variables (radius sh1 : list Z) (thresh : Q) (mask1 mask2 : list Z -> bool).
  Let n := length radius.
  Hypothesis Hsh : length sh1 = n.
  Hypothesis Hpix : forall p, pix2 (rev p) = pix1 p.
  Hypothesis Hraw : forall p, raw2 (rev p) = raw1 p.
  Hypothesis Hmask : forall p, length p = n -> mask2 (rev p) = mask1 p.

  Lemma at_win_rev : forall c p, length c = n -> length p = n ->
    at_win (rev radius) (rev c) (rev p) = rev (at_win radius c p).
  Proof.
    intros c p Lc Lp. unfold at_win, dims, ndim. rewrite rev_length. apply map_seq_mirror.
    intros d Hd. fold n in Hd. rewrite !ix_rev by lia. rewrite Lc, Lp. reflexivity.
  Qed.

  Lemma nbh_rev : forall c p, length c = n -> length p = n ->
    nbh pix2 (rev radius) mask2 (rev c) (rev p) = nbh pix1 radius mask1 c p.
  Proof.
    intros c p Lc Lp. unfold nbh. rewrite Hmask by exact Lp. destruct (mask1 p); [|reflexivity].
    rewrite at_win_rev by assumption. apply Hpix.
  Qed.

  Lemma nb_sum_rev : forall c, length c = n ->
    nb_sum pix2 (rev radius) mask2 (rev c) = nb_sum pix1 radius mask1 c.
  Proof.
    intros c Lc. unfold nb_sum. rewrite zsum_box_rev. f_equal. apply map_ext_in.
    intros p Hp. apply nbh_rev; [exact Lc|apply box_length, Hp].
  Qed.

  Lemma nb_moment_rev : forall c d, length c = n -> (d < n)%nat ->
    nb_moment pix2 (rev radius) mask2 (rev c) d = nb_moment pix1 radius mask1 c (n - S d).
  Proof.
    intros c d Lc Hd. unfold nb_moment. rewrite zsum_box_rev. f_equal. apply map_ext_in.
    intros p Hp. pose proof (box_length _ _ Hp) as Lp. fold n in Lp.
    rewrite nbh_rev by assumption. rewrite ix_rev by lia. rewrite Lp. reflexivity.
  Qed.

  Lemma safe_com_length : forall pix mask c, length (safe_com pix radius mask c) = n.
  Proof.
    intros. unfold safe_com. destruct (_ =? 0); rewrite map_length; [reflexivity|].
    unfold dims, ndim. apply seq_length.
  Qed.

  Lemma safe_com_rev : forall c, length c = n ->
    safe_com pix2 (rev radius) mask2 (rev c) = rev (safe_com pix1 radius mask1 c).
  Proof.
    intros c Lc. unfold safe_com. rewrite nb_sum_rev by exact Lc.
    destruct (nb_sum pix1 radius mask1 c =? 0); [apply map_rev|].
    unfold dims, ndim. rewrite rev_length. apply map_seq_mirror.
    intros d Hd. rewrite nb_moment_rev by assumption. reflexivity.
  Qed.

  Lemma offc_rev : forall c, length c = n ->
    offc pix2 (rev radius) mask2 (rev c) = rev (offc pix1 radius mask1 c).
  Proof.
    intros c Lc. unfold offc. rewrite rev_length, safe_com_rev by exact Lc. apply map_seq_mirror.
    intros d Hd. fold n in Hd. rewrite qx_rev by (rewrite safe_com_length; exact Hd).
    rewrite ix_rev by exact Hd. rewrite safe_com_length. reflexivity.
  Qed.

  Lemma offc_length : forall pix mask c, length (offc pix radius mask c) = n.
  Proof. intros. unfold offc. rewrite map_length. apply seq_length. Qed.

  Lemma cmi_rev : forall off c, length off = n -> length c = n ->
    cmi_of (rev radius) (rev off) (rev c) = rev (cmi_of radius off c).
  Proof.
    intros off c Lo Lc. unfold cmi_of. rewrite rev_length. apply map_seq_mirror.
    intros d Hd. fold n in Hd. rewrite qx_rev, ix_rev by lia. rewrite Lo, Lc. reflexivity.
  Qed.

  Lemma nextc_rev : forall off c, length off = n -> length c = n ->
    nextc (rev radius) (rev sh1) thresh (rev off) (rev c) = rev (nextc radius sh1 thresh off c).
  Proof.
    intros off c Lo Lc. unfold nextc. rewrite rev_length. apply map_seq_mirror.
    intros d Hd. fold n in Hd. unfold upper. rewrite qx_rev by lia. rewrite !ix_rev by lia.
    rewrite Lo, Lc, Hsh. reflexivity.
  Qed.

  Lemma nextc_length : forall sh off c, length (nextc radius sh thresh off c) = n.
  Proof. intros. unfold nextc. rewrite map_length. apply seq_length. Qed.

  (* the iteration visits the mirrored windows and ends with the mirrored state *)
  Lemma ref_loop_rev : forall k c, length c = n ->
    let s1 := ref_loop pix1 radius sh1 thresh mask1 k c in
    let s2 := ref_loop pix2 (rev radius) (rev sh1) thresh mask2 k (rev c) in
    r_rect s2 = rev (r_rect s1) /\ r_cmi s2 = rev (r_cmi s1) /\ length (r_rect s1) = n.
  Proof.
    induction k as [|k IH]; intros c Lc; cbv zeta;
      rewrite (ref_loop_unfold pix1), (ref_loop_unfold pix2); cbv zeta;
      rewrite offc_rev by exact Lc; unfold all_lt; rewrite forallb_rev;
      destruct (forallb _ (offc pix1 radius mask1 c)); cbn [r_rect r_cmi].
    - repeat split; [apply cmi_rev; [apply offc_length|exact Lc]|exact Lc].
    - repeat split; [apply cmi_rev; [apply offc_length|exact Lc]|exact Lc].
    - repeat split; [apply cmi_rev; [apply offc_length|exact Lc]|exact Lc].
    - rewrite nextc_rev by (try apply offc_length; exact Lc). apply IH. apply nextc_length.
  Qed.

  Lemma ref_output_rev : forall charz s1 s2,
    r_rect s2 = rev (r_rect s1) -> r_cmi s2 = rev (r_cmi s1) -> length (r_rect s1) = n ->
    row_transposed (ref_output pix1 raw1 radius mask1 charz s1) (ref_output pix2 raw2 (rev radius) mask2 charz s2).
  Proof.
    intros charz s1 s2 Er Ec Lr. unfold ref_output, row_transposed. rewrite Er, Ec.
    rewrite nb_sum_rev by exact Lr.
    assert (Hn : forall p, In p (Model.COM.box radius) ->
                 nbh pix2 (rev radius) mask2 (rev (r_rect s1)) (rev p) = nbh pix1 radius mask1 (r_rect s1) p).
    { intros p Hp. apply nbh_rev; [exact Lr|apply box_length, Hp]. }
    destruct charz; cbn [negb o_pos o_mass o_char char_transposed]; [|repeat split].
    split; [reflexivity|]. split; [reflexivity|]. split; [|split].
    - rewrite isotropic_rev. destruct (isotropic radius).
      + cbn [rev app]. f_equal. f_equal. rewrite zsum_box_rev. f_equal. apply map_ext_in. intros p Hp.
        pose proof (box_length _ _ Hp) as Lp.
        rewrite Hn by exact Hp. rewrite Hmask by exact Lp. rewrite offs_rev by exact Lp.
        rewrite map_rev, zsum_rev. reflexivity.
      + unfold dims, ndim. rewrite rev_length. apply map_seq_mirror. intros d Hd. fold n in Hd.
        f_equal. f_equal. rewrite zsum_box_rev. f_equal. apply map_ext_in. intros p Hp.
        pose proof (box_length _ _ Hp) as Lp. fold n in Lp.
        rewrite Hn by exact Hp. rewrite Hmask by exact Lp. rewrite !ix_rev by lia. rewrite Lp. reflexivity.
    - rewrite list_max_box_rev. f_equal. apply map_ext_in. exact Hn.
    - rewrite zsum_box_rev. f_equal. apply map_ext_in. intros p Hp.
      pose proof (box_length _ _ Hp) as Lp. rewrite Hmask by exact Lp. destruct (mask1 p); [|reflexivity].
      rewrite at_win_rev by assumption. apply Hraw.
  Qed.
End TransposedRefine.

(* (T2) one row of refine_com on the transposed image *)
Theorem refine_at_transposed : forall P im1 im2 start,
  transposed im1 im2 ->
  length (lp_radius P) = length (shape im1) -> length start = length (shape im1) ->
  row_transposed (refine_at P im1 start) (refine_at (lp_rev P) im2 (rev start)).
Proof.
  intros P im1 im2 start [Es Hp] Hr Hs.
  unfold refine_at, refine_python, ref_run, lp_rev.
  cbn [lp_radius lp_thresh lp_maxit lp_char]. rewrite Es.
  assert (Hm : forall p, length p = length (lp_radius P) ->
               binary_mask (rev (lp_radius P)) (rev p) = binary_mask (lp_radius P) p)
    by (intros; apply binary_mask_rev; assumption).
  destruct (ref_loop_rev (pix im1) (pix im2) (lp_radius P) (shape im1) (lp_thresh P)
              (binary_mask (lp_radius P)) (binary_mask (rev (lp_radius P)))
              (eq_sym Hr) Hp Hm (pred (iters_of (lp_maxit P))) start ltac:(lia)) as [E1 [E2 E3]].
  apply ref_output_rev with (sh1 := shape im1); solve [assumption | symmetry; assumption].
Qed.

(* isotropic radii: refine reports ONE size, so the whole (size, signal, raw_mass) entry is identical *)
Lemma refine_at_char_isotropic : forall P im start sizes signal raw_mass,
  isotropic (lp_radius P) = true ->
  o_char (refine_at P im start) = Some (sizes, signal, raw_mass) -> length sizes = 1%nat.
Proof.
  intros P im start sizes signal raw_mass Hi H.
  unfold refine_at, refine_python, ref_run, ref_output in H.
  destruct (lp_char P); cbn [negb o_char] in H; [|discriminate].
  rewrite Hi in H. injection H as <- _ _. reflexivity.
Qed.

Corollary refine_at_transposed_isotropic : forall P im1 im2 start,
  transposed im1 im2 ->
  length (lp_radius P) = length (shape im1) -> length start = length (shape im1) ->
  isotropic (lp_radius P) = true ->
  o_char (refine_at (lp_rev P) im2 (rev start)) = o_char (refine_at P im1 start).
Proof.
  intros P im1 im2 start Ht Hr Hs Hi.
  destruct (refine_at_transposed P im1 im2 start Ht Hr Hs) as [_ [_ Hc]].
  pose proof (refine_at_char_isotropic P im1 start) as Hl.
  destruct (o_char (refine_at P im1 start)) as [[[sz sg] rm]|];
    destruct (o_char (refine_at (lp_rev P) im2 (rev start))) as [[[sz' sg'] rm']|];
    cbn in Hc; try contradiction; [|reflexivity].
  destruct Hc as [-> [-> ->]]. specialize (Hl sz sg rm Hi eq_refl).
  destruct sz as [|a [|b sz]]; cbn in Hl; try discriminate. reflexivity.
Qed.

(* ============================ the discrete pipeline under transposition, composed *)
Section TransposedPipeline.
  Variable percentile : list Z -> Q.
  Hypothesis percentile_perm : forall l l', Permutation l l' -> percentile l = percentile l'.

  Lemma maxima_transposed_perm : forall im1 im2 P,
    transposed im1 im2 ->
    length (lp_sep P) = length (shape im1) -> length (lp_margin P) = length (shape im1) ->
    Forall (fun s => 1 <= s) (sizes_of im1 (lp_sep P)) ->
    Permutation (find_maxima percentile (lp_rev P) im2) (map (@rev Z) (find_maxima percentile P im1)).
  Proof.
    intros im1 im2 P Ht Hsep Hmg Hsz. apply NoDup_Permutation.
    - apply maxima_nodup.
    - apply NoDup_map_inj_in; [|apply maxima_nodup].
      intros x y _ _ E. rewrite <- (rev_involutive x), <- (rev_involutive y), E. reflexivity.
    - intros q. rewrite (maxima_transposed percentile percentile_perm im1 im2 P Ht Hsep Hmg Hsz q), in_map_iff.
      split.
      + intros H. exists (rev q). split; [apply rev_involutive|exact H].
      + intros [p [<- Hp]]. rewrite rev_involutive. exact Hp.
  Qed.

  (* (T3) locate's table before the tail, on the transposed image with every per-axis
     parameter reversed: the same rows (as a multiset -- the row order follows np.where
     order, which transposition changes), every row transposed *)
  Theorem locate_discrete_transposed : forall im1 im2 P,
    transposed im1 im2 ->
    length (lp_sep P) = length (shape im1) -> length (lp_margin P) = length (shape im1) ->
    length (lp_radius P) = length (shape im1) ->
    Forall (fun s => 1 <= s) (sizes_of im1 (lp_sep P)) ->
    exists rows, Permutation (locate_discrete percentile (lp_rev P) im2) rows /\
                 Forall2 row_transposed (locate_discrete percentile P im1) rows.
  Proof.
    intros im1 im2 P Ht Hsep Hmg Hrad Hsz.
    exists (map (refine_at (lp_rev P) im2) (map (@rev Z) (find_maxima percentile P im1))). split.
    - unfold locate_discrete. apply Permutation_map. apply maxima_transposed_perm; assumption.
    - unfold locate_discrete. rewrite map_map. apply Forall2_map_in. intros p Hp.
      pose proof (maxima_length percentile im1 P Hsep Hmg Hsz p Hp) as HL.
      apply refine_at_transposed; assumption.
  Qed.
End TransposedPipeline.

(* ---------------------------------------------------- concrete instances *)
(* the blob of ex_im1 (14x15 canvas) and its transpose (15x14); ex_P: diameter 3 on both
   axes; ex_P2: diameter (3, 5), separation (3, 5), margin (1, 2) *)
Definition ex_P2 : lparams := mkLP [3#1; 5#1]%Q [1; 2] [1; 2] (3 # 5) 3 true.

Lemma ex_transposed_premises :
  transposed ex_im1 (transpose ex_im1) /\
  length (lp_sep ex_P2) = length (shape ex_im1) /\ length (lp_margin ex_P2) = length (shape ex_im1) /\
  length (lp_radius ex_P2) = length (shape ex_im1) /\
  Forall (fun s => 1 <= s) (sizes_of ex_im1 (lp_sep ex_P2)).
Proof.
  split; [apply ex_transposed|]. repeat split.
  assert (E : sizes_of ex_im1 (lp_sep ex_P2) = [4; 7]) by (vm_compute; reflexivity).
  rewrite E. repeat constructor; lia.
Qed.

(* isotropic: position columns swapped, one size, everything else identical *)
Lemma ex_locate_transposed_iso :
  locate_discrete ex_percentile ex_P ex_im1 =
    [mkOut [222 # 37; 259 # 37]%Q 37 (Some ([28 # 37]%Q, 9, 37))] /\
  locate_discrete ex_percentile (lp_rev ex_P) (transpose ex_im1) =
    [mkOut [259 # 37; 222 # 37]%Q 37 (Some ([28 # 37]%Q, 9, 37))].
Proof. vm_compute. split; reflexivity. Qed.

(* anisotropic: the two per-axis sizes differ and are swapped with the axes *)
Lemma ex_locate_transposed_aniso :
  locate_discrete ex_percentile ex_P2 ex_im1 =
    [mkOut [234 # 39; 273 # 39]%Q 39 (Some ([28 # 39; 44 # 39]%Q, 9, 39))] /\
  locate_discrete ex_percentile (lp_rev ex_P2) (transpose ex_im1) =
    [mkOut [273 # 39; 234 # 39]%Q 39 (Some ([44 # 39; 28 # 39]%Q, 9, 39))].
Proof. vm_compute. split; reflexivity. Qed.
