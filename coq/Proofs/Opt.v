(* Optimality of an assignment, stated symmetrically on (source, chosen candidate)
   pairs, so that it is invariant under reordering of the sources and composes
   over groups of sources that share no destination. *)
From Coq Require Import ZArith List Bool Lia Permutation.
From TP Require Import Model.Assign Model.Link Proofs.BnB.
Import ListNotations.
Open Scope Z_scope.

Definition pair_t := (item * cand)%type.
Definition pairs_ok (l : list pair_t) : Prop :=
  Forall (fun p : pair_t => In (snd p) (snd (fst p))) l /\ NoDup (reals (map snd l)).
Definition ptotal (l : list pair_t) : Z := total (map snd l).
(* [l] assigns one candidate to each source of [its] (in some order), one-to-one on
   real destinations, with minimal total cost among all such assignments *)
Definition is_opt (its : list item) (l : list pair_t) : Prop :=
  Permutation (map fst l) its /\ pairs_ok l /\
  forall l', Permutation (map fst l') its -> pairs_ok l' -> ptotal l <= ptotal l'.

Lemma total_perm a b : Permutation a b -> total a = total b.
Proof.
  induction 1 as [|x a b _ IH|x y a|a b c _ IH1 _ IH2]; unfold total in *; cbn; lia.
Qed.

Lemma reals_perm a b : Permutation a b -> Permutation (reals a) (reals b).
Proof. intros H. unfold reals. apply Permutation_flat_map. exact H. Qed.

Lemma ptotal_perm a b : Permutation a b -> ptotal a = ptotal b.
Proof. intros H. unfold ptotal. apply total_perm. apply Permutation_map. exact H. Qed.

Lemma pairs_ok_perm a b : Permutation a b -> pairs_ok a -> pairs_ok b.
Proof.
  intros H [HF HN]. split.
  - rewrite Forall_forall in *. intros p Hp. apply HF. eapply Permutation_in; [apply Permutation_sym; exact H|exact Hp].
  - eapply Permutation_NoDup; [|exact HN]. apply reals_perm. apply Permutation_map. exact H.
Qed.

Lemma ptotal_app a b : ptotal (a ++ b) = ptotal a + ptotal b.
Proof. unfold ptotal. rewrite map_app. apply total_app. Qed.

Lemma is_opt_perm its its' l : Permutation its its' -> is_opt its l -> is_opt its' l.
Proof.
  intros HP [H1 [H2 H3]]. split; [|split].
  - eapply Permutation_trans; eassumption.
  - exact H2.
  - intros l' Hl' Hok. apply H3; [|exact Hok].
    eapply Permutation_trans; [exact Hl'|apply Permutation_sym; exact HP].
Qed.

(* ---- from the list-ordered [completion] to the symmetric form ---- *)
Lemma combine_map_fst {A B} (l : list A) (l' : list B) :
  length l = length l' -> map fst (combine l l') = l.
Proof. revert l'; induction l as [|x l IH]; intros [|y l'] H; cbn in *; try discriminate; [reflexivity|]. f_equal. apply IH. lia. Qed.
Lemma combine_map_snd {A B} (l : list A) (l' : list B) :
  length l = length l' -> map snd (combine l l') = l'.
Proof. revert l'; induction l as [|x l IH]; intros [|y l'] H; cbn in *; try discriminate; [reflexivity|]. f_equal. apply IH. lia. Qed.

Lemma Forall2_combine (s : list item) (a : list cand) :
  Forall2 (fun cs dc => In dc cs) (map snd s) a ->
  Forall (fun p : pair_t => In (snd p) (snd (fst p))) (combine s a) /\ length s = length a.
Proof.
  revert a; induction s as [|x s IH]; intros a H; cbn in H.
  - inversion H; subst. cbn. split; [constructor|reflexivity].
  - inversion H as [|? y ? a' Hin HF2]; subst. cbn.
    destruct (IH _ HF2) as [HF HL]. split; [constructor; [exact Hin|exact HF]|lia].
Qed.

Lemma Forall_pairs_Forall2 (l : list pair_t) :
  Forall (fun p : pair_t => In (snd p) (snd (fst p))) l ->
  Forall2 (fun cs dc => In dc cs) (map snd (map fst l)) (map snd l).
Proof. induction 1; cbn; constructor; assumption. Qed.

Theorem solve_is_opt (s : list item) v a :
  nonneg (map snd s) -> Forall sorted (map snd s) ->
  solve (map snd s) = Some (v, a) -> is_opt s (combine s a) /\ v = total a.
Proof.
  intros Hn Hs H. destruct (solve_optimal _ _ _ Hn Hs H) as [Hc [Hv Hmin]].
  apply completion_iff in Hc. destruct Hc as [HF [HN _]].
  destruct (Forall2_combine _ _ HF) as [HF' HL].
  split; [|exact Hv]. split; [|split].
  - rewrite combine_map_fst by exact HL. apply Permutation_refl.
  - split; [exact HF'|]. rewrite combine_map_snd by exact HL. exact HN.
  - intros l' Hl' [HF2 HN2].
    apply Permutation_sym in Hl'. apply Permutation_map_inv in Hl'.
    destruct Hl' as [l3 [Hs3 Hp3]].
    assert (Hok3 : pairs_ok l3) by (eapply pairs_ok_perm; [exact Hp3|split; assumption]).
    destruct Hok3 as [HF3 HN3].
    assert (Hc3 : completion (map snd s) [] (map snd l3)).
    { apply completion_iff. split; [|split; [exact HN3|intros k _ []]].
      rewrite Hs3. apply Forall_pairs_Forall2. exact HF3. }
    specialize (Hmin _ Hc3). unfold ptotal. rewrite combine_map_snd by exact HL.
    rewrite (total_perm _ _ (Permutation_map snd Hp3)). lia.
Qed.

(* ---- composition over groups that share no destination ---- *)
Definition gdisj (g1 g2 : group) : Prop := forall k, In k (gdests g1) -> In k (gdests g2) -> False.

Lemma reals_sub (l : list pair_t) k :
  Forall (fun p : pair_t => In (snd p) (snd (fst p))) l ->
  In k (reals (map snd l)) -> In k (gdests (map fst l)).
Proof.
  induction 1 as [|[[i cs] [d c]] l Hin _ IH]; cbn; [tauto|].
  unfold gdests. cbn. intros Hk. apply in_app_or in Hk. apply in_or_app. destruct Hk as [Hk|Hk].
  - left. cbn in Hin. destruct d as [d|]; cbn in Hk; [|contradiction].
    destruct Hk as [Hk|[]]; subst k. unfold reals. apply in_flat_map. exists (Some d, c). split; [exact Hin|cbn; auto].
  - right. apply IH. exact Hk.
Qed.

Lemma gdests_perm a b : Permutation a b -> forall k, In k (gdests a) -> In k (gdests b).
Proof. intros H k Hk. unfold gdests in *. eapply Permutation_in; [apply Permutation_flat_map; exact H|exact Hk]. Qed.

Lemma gdests_app a b : gdests (a ++ b) = gdests a ++ gdests b.
Proof. unfold gdests. apply flat_map_app. Qed.

Lemma NoDup_app_intro {A} (a b : list A) :
  NoDup a -> NoDup b -> (forall x, In x a -> In x b -> False) -> NoDup (a ++ b).
Proof.
  induction a as [|x a IH]; intros Ha Hb Hd; cbn; [exact Hb|].
  inversion Ha; subst. constructor.
  - intros Hin. apply in_app_or in Hin. destruct Hin as [Hin|Hin]; [contradiction|]. apply (Hd x); [left; reflexivity|exact Hin].
  - apply IH; [assumption|assumption|]. intros y Hy. apply Hd. right; exact Hy.
Qed.

Lemma NoDup_app_l {A} (a b : list A) : NoDup (a ++ b) -> NoDup a.
Proof. induction a as [|x a IH]; cbn; intros H; [constructor|]. inversion H; subst. constructor; [intros Hin; apply H2; apply in_or_app; left; exact Hin|apply IH; assumption]. Qed.
Lemma NoDup_app_r {A} (a b : list A) : NoDup (a ++ b) -> NoDup b.
Proof. induction a as [|x a IH]; cbn; intros H; [exact H|]. inversion H; subst. apply IH; assumption. Qed.

Theorem is_opt_app g1 g2 l1 l2 :
  gdisj g1 g2 -> is_opt g1 l1 -> is_opt g2 l2 -> is_opt (g1 ++ g2) (l1 ++ l2).
Proof.
  intros Hd [P1 [[F1 N1] M1]] [P2 [[F2 N2] M2]]. split; [|split].
  - rewrite map_app. apply Permutation_app; assumption.
  - split; [apply Forall_app; split; assumption|].
    rewrite map_app, reals_app. apply NoDup_app_intro; [exact N1|exact N2|].
    intros k H1 H2. apply (Hd k).
    + eapply gdests_perm; [exact P1|]. apply reals_sub; assumption.
    + eapply gdests_perm; [exact P2|]. apply reals_sub; assumption.
  - intros l' Hl' Hok'.
    apply Permutation_sym in Hl'. apply Permutation_map_inv in Hl'.
    destruct Hl' as [l3 [Hs3 Hp3]].
    assert (Hok3 : pairs_ok l3) by (eapply pairs_ok_perm; eassumption).
    rewrite (ptotal_perm _ _ Hp3).
    (* split l3 along g1 ++ g2 *)
    set (n := length g1).
    assert (Hl3 : l3 = firstn n l3 ++ skipn n l3) by (symmetry; apply firstn_skipn).
    assert (H1 : map fst (firstn n l3) = g1).
    { rewrite <- firstn_map, <- Hs3. unfold n. rewrite firstn_app, firstn_all, Nat.sub_diag. cbn. apply app_nil_r. }
    assert (H2 : map fst (skipn n l3) = g2).
    { rewrite <- skipn_map, <- Hs3. unfold n. rewrite skipn_app, skipn_all, Nat.sub_diag. reflexivity. }
    destruct Hok3 as [HF3 HN3]. rewrite Hl3 in HF3, HN3. apply Forall_app in HF3. destruct HF3 as [HFa HFb].
    rewrite map_app, reals_app in HN3.
    rewrite Hl3, !ptotal_app.
    assert (ptotal l1 <= ptotal (firstn n l3)).
    { apply M1; [rewrite H1; apply Permutation_refl|split; [exact HFa|eapply NoDup_app_l; exact HN3]]. }
    assert (ptotal l2 <= ptotal (skipn n l3)).
    { apply M2; [rewrite H2; apply Permutation_refl|split; [exact HFb|eapply NoDup_app_r; exact HN3]]. }
    lia.
Qed.

Lemma is_opt_nil : is_opt [] [].
Proof.
  split; [constructor|split; [split; constructor|]].
  intros l' Hl' _. apply Permutation_sym, Permutation_nil in Hl'. destruct l'; [cbn; lia|discriminate].
Qed.

(* groups pairwise sharing no destination *)
Inductive all_disj : list group -> Prop :=
| ad_nil : all_disj []
| ad_cons g gs : Forall (gdisj g) gs -> all_disj gs -> all_disj (g :: gs).

Lemma gdisj_concat g gs : Forall (gdisj g) gs -> gdisj g (concat gs).
Proof.
  induction 1 as [|g' gs Hg _ IH]; intros k H1 H2; cbn in H2; [exact H2|].
  rewrite gdests_app in H2. apply in_app_or in H2. destruct H2 as [H2|H2]; [apply (Hg k H1 H2)|apply (IH k H1 H2)].
Qed.

Theorem is_opt_concat gs ls :
  all_disj gs -> Forall2 is_opt gs ls -> is_opt (concat gs) (concat ls).
Proof.
  intros Hd H. revert Hd. induction H as [|g l gs ls Hgl _ IH]; intros Hd; cbn; [apply is_opt_nil|].
  inversion Hd; subst. apply is_opt_app; [apply gdisj_concat; assumption|exact Hgl|apply IH; assumption].
Qed.
