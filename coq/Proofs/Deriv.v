(* C15 (gradient): every analytic derivative function of refine_leastsq is the
   derivative of the function it is paired with.  The definitions come from
   Gen/fitfun.v, regenerated from the Python source on every check. *)
From Coq Require Import Reals List Lra.
From Coquelicot Require Import Coquelicot.
From TP Require Import Gen.fitfun Model.Jacobian.
Import ListNotations.
Open Scope R_scope.

Ltac dsolve := auto_derive; [ repeat split; auto | try (field; auto) ].

(* make the arguments of exp on both sides syntactically equal, then field *)
Ltac exp_field :=
  repeat match goal with
  | |- ?L = ?R =>
      match L with context [exp ?a] =>
        match R with context [exp ?b] =>
          tryif constr_eq a b then fail else
            (replace (exp a) with (exp b) by (f_equal; field; auto))
        end
      end
  end;
  repeat match goal with |- context [exp ?a] => generalize (exp a); intro end;
  field; auto.

(* ------------------------------------------------------------------ *)
(* reduced radius: dr2_* is the gradient of r2_* in the p-slice          *)
(* ------------------------------------------------------------------ *)
Lemma dr2_isotropic_2d_correct : forall y x cy cx size, size <> 0 ->
  let d := dr2_isotropic_2d y x cy cx size in
  length d = 3%nat /\
  is_derive (fun c => r2_isotropic_2d y x c cx size) cy (nth 0 d 0) /\
  is_derive (fun c => r2_isotropic_2d y x cy c size) cx (nth 1 d 0) /\
  is_derive (fun s => r2_isotropic_2d y x cy cx s) size (nth 2 d 0).
Proof.
  intros. unfold d, r2_isotropic_2d, dr2_isotropic_2d. cbn [nth length].
  repeat (split; [first [reflexivity | dsolve]|]); dsolve.
Qed.

Lemma dr2_isotropic_3d_correct : forall z y x cz cy cx size, size <> 0 ->
  let d := dr2_isotropic_3d z y x cz cy cx size in
  length d = 4%nat /\
  is_derive (fun c => r2_isotropic_3d z y x c cy cx size) cz (nth 0 d 0) /\
  is_derive (fun c => r2_isotropic_3d z y x cz c cx size) cy (nth 1 d 0) /\
  is_derive (fun c => r2_isotropic_3d z y x cz cy c size) cx (nth 2 d 0) /\
  is_derive (fun s => r2_isotropic_3d z y x cz cy cx s) size (nth 3 d 0).
Proof.
  intros. unfold d, r2_isotropic_3d, dr2_isotropic_3d. cbn [nth length].
  repeat (split; [first [reflexivity | dsolve]|]); dsolve.
Qed.

Lemma dr2_anisotropic_2d_correct : forall y x cy cx size_y size_x, size_y <> 0 -> size_x <> 0 ->
  let d := dr2_anisotropic_2d y x cy cx size_y size_x in
  length d = 4%nat /\
  is_derive (fun c => r2_anisotropic_2d y x c cx size_y size_x) cy (nth 0 d 0) /\
  is_derive (fun c => r2_anisotropic_2d y x cy c size_y size_x) cx (nth 1 d 0) /\
  is_derive (fun s => r2_anisotropic_2d y x cy cx s size_x) size_y (nth 2 d 0) /\
  is_derive (fun s => r2_anisotropic_2d y x cy cx size_y s) size_x (nth 3 d 0).
Proof.
  intros. unfold d, r2_anisotropic_2d, dr2_anisotropic_2d. cbn [nth length].
  repeat (split; [first [reflexivity | dsolve]|]); dsolve.
Qed.

Lemma dr2_anisotropic_3d_correct : forall z y x cz cy cx size_z size_y size_x,
  size_z <> 0 -> size_y <> 0 -> size_x <> 0 ->
  let d := dr2_anisotropic_3d z y x cz cy cx size_z size_y size_x in
  length d = 6%nat /\
  is_derive (fun c => r2_anisotropic_3d z y x c cy cx size_z size_y size_x) cz (nth 0 d 0) /\
  is_derive (fun c => r2_anisotropic_3d z y x cz c cx size_z size_y size_x) cy (nth 1 d 0) /\
  is_derive (fun c => r2_anisotropic_3d z y x cz cy c size_z size_y size_x) cx (nth 2 d 0) /\
  is_derive (fun s => r2_anisotropic_3d z y x cz cy cx s size_y size_x) size_z (nth 3 d 0) /\
  is_derive (fun s => r2_anisotropic_3d z y x cz cy cx size_z s size_x) size_y (nth 4 d 0) /\
  is_derive (fun s => r2_anisotropic_3d z y x cz cy cx size_z size_y s) size_x (nth 5 d 0).
Proof.
  intros. unfold d, r2_anisotropic_3d, dr2_anisotropic_3d. cbn [nth length].
  repeat (split; [first [reflexivity | dsolve]|]); dsolve.
Qed.

(* the _safe variants (used when the model is not continuous at r = 0) compute
   the same value wherever they do not NaN-out the pixel, and read the same
   slice of the parameter row as the dr2 function they are paired with;
   the slice starts at column 2 = 1 + (first derivs row written by jacobian) *)
Lemma safe_variants_agree :
  (forall y x cy cx size, r2_isotropic_2d_safe_val y x cy cx size = r2_isotropic_2d y x cy cx size) /\
  (forall z y x cz cy cx size, r2_isotropic_3d_safe_val z y x cz cy cx size = r2_isotropic_3d z y x cz cy cx size) /\
  (forall y x cy cx sy sx, r2_anisotropic_2d_safe_val y x cy cx sy sx = r2_anisotropic_2d y x cy cx sy sx) /\
  (forall z y x cz cy cx sz sy sx, r2_anisotropic_3d_safe_val z y x cz cy cx sz sy sx = r2_anisotropic_3d z y x cz cy cx sz sy sx).
Proof.
  unfold r2_isotropic_2d_safe_val, r2_isotropic_2d, r2_isotropic_3d_safe_val, r2_isotropic_3d,
    r2_anisotropic_2d_safe_val, r2_anisotropic_2d, r2_anisotropic_3d_safe_val, r2_anisotropic_3d.
  repeat split; intros; unfold Rdiv; ring.
Qed.

Lemma slices_aligned :
  r2_isotropic_2d_pslice = (2, 5)%nat /\ r2_isotropic_2d_safe_pslice = (2, 5)%nat /\ dr2_isotropic_2d_pslice = (2, 5)%nat /\
  r2_isotropic_3d_pslice = (2, 6)%nat /\ r2_isotropic_3d_safe_pslice = (2, 6)%nat /\ dr2_isotropic_3d_pslice = (2, 6)%nat /\
  r2_anisotropic_2d_pslice = (2, 6)%nat /\ r2_anisotropic_2d_safe_pslice = (2, 6)%nat /\ dr2_anisotropic_2d_pslice = (2, 6)%nat /\
  r2_anisotropic_3d_pslice = (2, 8)%nat /\ r2_anisotropic_3d_safe_pslice = (2, 8)%nat /\ dr2_anisotropic_3d_pslice = (2, 8)%nat /\
  gauss_fun_pidx = [] /\ gauss_dfun_pidx = [] /\ ring_fun_pidx = [0%nat] /\ ring_dfun_pidx = [0%nat].
Proof. repeat split; reflexivity. Qed.

(* ------------------------------------------------------------------ *)
(* model functions                                                      *)
(* ------------------------------------------------------------------ *)
Lemma gauss_dfun_correct : forall r2 ndim,
  fst (gauss_dfun r2 ndim) = gauss_fun r2 ndim /\
  length (snd (gauss_dfun r2 ndim)) = 1%nat /\
  is_derive (fun r => gauss_fun r ndim) r2 (nth 0 (snd (gauss_dfun r2 ndim)) 0).
Proof.
  intros. unfold gauss_fun, gauss_dfun. cbn [nth snd fst length].
  split; [reflexivity|]. split; [reflexivity|]. auto_derive; [exact I|]. exp_field.
Qed.

Lemma ring_dfun_correct : forall r2 t ndim, 0 < r2 -> t <> 0 ->
  fst (ring_dfun r2 t ndim) = ring_fun r2 t ndim /\
  length (snd (ring_dfun r2 t ndim)) = 2%nat /\
  is_derive (fun r => ring_fun r t ndim) r2 (nth 0 (snd (ring_dfun r2 t ndim)) 0) /\
  is_derive (fun u => ring_fun r2 u ndim) t (nth 1 (snd (ring_dfun r2 t ndim)) 0).
Proof.
  intros r2 t ndim Hr Ht. unfold ring_fun, ring_dfun. cbn [nth snd fst length].
  assert (Hs : sqrt r2 <> 0) by (apply Rgt_not_eq, sqrt_lt_R0; exact Hr).
  split; [reflexivity|]. split; [reflexivity|]. split.
  - auto_derive; [exact Hr|]. exp_field.
  - auto_derive; [exact Ht|]. exp_field.
Qed.
