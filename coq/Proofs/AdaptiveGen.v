(* Route T for the adaptive search and the remaining pure-Python linking glue: the functions GENERATED
   from the current source text (Gen/adaptive.v, by tools/py2coq_adaptive.py) are the hand-written
   models the C12 / C03 theorems are about.

     py_drop_group / py_drop_links   generated subnet_linker_drop = Model.Strategies.drop_group / drop_links
     asplit_is_g                     Model.Adaptive.asplit = asplit_g (model_splitter): the model with the
                                     splitting function abstracted
     py_adaptive_asplit              generated adaptive_link_wrap (subnet linker and split_subnet as
                                     parameters) = asplit_g, for ANY number type whose three operations
                                     agree with the model's integer comparisons on the ladder of ranges
     Q_ladder                        ... which exact rational arithmetic does
     py_split_subnet_msplit          generated split_subnet = Model.Adaptive2.msplit (pruning + dictionary
                                     of Model.SplitSubnet / Model.SubnetMerge.assign_subnet), on every heap
     asplit_g_*                      the C12 headline theorems for asplit_g under a splitter specification *)
From Coq Require Import ZArith QArith NArith List Bool Arith Lia Permutation.
From TP Require Import Model.Assign Model.Link Model.LinkCheck Model.Adaptive Model.SubnetMerge Model.SplitSubnet
     Model.Strategies Model.PyAdaptive Model.Adaptive2 Gen.adaptive
     Proofs.BnB Proofs.Opt Proofs.Cands Proofs.Comps Proofs.Step Proofs.Adaptive Proofs.Strategies.
Import ListNotations.

(* ================= subnet_linker_drop ================= *)
Section Drop.
Variable num : Type.
Variable ops : num_ops num.

Lemma links_of_nones_l n (l : list (option nat)) : links_of (nones n, l) = [].
Proof.
  unfold links_of, nones. cbn [fst snd]. revert l. induction n as [|n IH]; intros l; cbn; [reflexivity|].
  destruct l; cbn; [reflexivity|apply IH].
Qed.

Lemma links_of_opts_nones (ss : list nat) (l1 l2 : list (option nat)) :
  links_of (opts ss ++ l1, nones (length ss) ++ l2) = map (fun s => (s, None)) ss ++ links_of (l1, l2).
Proof.
  unfold links_of, opts, nones. cbn [fst snd]. induction ss as [|s ss IH]; cbn; [reflexivity|]. f_equal. exact IH.
Qed.

Lemma links_of_drop (ss ds : list nat) n m : n = length ss -> m = length ds ->
  links_of (opts ss ++ nones m, nones n ++ opts ds) = map (fun s => (s, None)) ss.
Proof.
  intros E E'. subst n m. rewrite <- (app_nil_r (opts ds)). rewrite links_of_opts_nones, links_of_nones_l, app_nil_r. reflexivity.
Qed.

Lemma perm_singleton_eq (l : list nat) j : Permutation l [j] -> l = [j].
Proof. intros H. apply Permutation_sym in H. apply Permutation_length_1_inv in H. exact H. Qed.

Definition item_wf (it : item) : Prop := real_first (snd it) /\ NoDup (reals (snd it)).

Lemma nodup_id (l : list nat) : NoDup l -> nodup Nat.eq_dec l = l.
Proof. apply nodup_fixed_point. Qed.

(* the generated subnet_linker_drop on one subnet = drop_group, as links *)
Theorem py_drop_group (h : heap) (g : group) (ds : list nat) (rho : num) (ms : nat) :
  (1 <= ms)%nat -> Permutation ds (dests_of g) -> Forall item_wf g ->
  if (ms <? length g)%nat
  then py_subnet_linker_drop num h (map fst g) ds rho ms = Fail h SubnetOversizeException
  else exists r, py_subnet_linker_drop num h (map fst g) ds rho ms = Done h r /\ wf_pairs r /\
                 links_of r = map strip_cost (drop_group g).
Proof.
  intros Hms Hp Hwf. unfold py_subnet_linker_drop. rewrite map_length.
  assert (Hlen : length ds = length (dests_of g)) by (apply Permutation_length; exact Hp).
  destruct g as [|[i cs] g'].
  - (* no source *)
    cbn [length]. assert (E : ds = []) by (apply Permutation_nil; apply Permutation_sym; exact Hp). subst ds.
    cbn. exists ([], []). repeat split; reflexivity.
  - destruct g' as [|it2 g''].
    + (* one source *)
      cbn [length map fst]. destruct (Nat.ltb_spec ms 1) as [Hlt|_]; [lia|].
      inversion Hwf as [|? ? [Hrf Hnd] _]; subst. cbn [snd] in Hrf, Hnd.
      unfold dests_of, gdests in Hp, Hlen. cbn [flat_map snd] in Hp, Hlen. rewrite app_nil_r in Hp, Hlen.
      rewrite (nodup_id _ Hnd) in Hp, Hlen.
      cbn [Nat.eqb andb]. unfold drop_group.
      destruct (reals cs) as [|j [|j2 r]] eqn:Er.
      * apply Permutation_sym, Permutation_nil in Hp. subst ds. cbn.
        exists ([Some i], [None]). repeat split; reflexivity.
      * apply perm_singleton_eq in Hp. subst ds. cbn [length Nat.eqb andb set_pop bind fn_end drop_frame0 d_heap].
        exists ([Some i], [Some j]). split; [reflexivity|split; [reflexivity|]]. unfold links_of; cbn [fst snd combine flat_map app map strip_cost].
        destruct cs as [|[[j'|] c0] cs']; cbn in Er; [discriminate| |].
        -- inversion Er; subst. reflexivity.
        -- cbn in Hrf. rewrite Hrf in Er. discriminate.
      * cbn [length] in Hlen.
        destruct ds as [|d1 [|d2 ds']]; cbn [length] in Hlen; try lia.
        cbn [length Nat.eqb andb bind fn_end drop_frame0 d_heap].
        destruct (Nat.ltb_spec ms 1) as [Hlt|_]; [lia|]. cbn [bind fn_end d_heap].
        eexists. split; [reflexivity|]. split.
        -- unfold wf_pairs, opts, nones. cbn [fst snd]. rewrite !app_length, !map_length, !repeat_length. cbn. lia.
        -- rewrite (links_of_drop [i] (d1 :: d2 :: ds')) by reflexivity. reflexivity.
    + (* two or more sources: no shortcut *)
      cbn [length]. cbn [Nat.eqb andb bind].
      destruct (ms <? S (S (length g'')))%nat eqn:El.
      * match goal with |- context [Nat.ltb ms ?n] => replace (Nat.ltb ms n) with true by (symmetry; exact El) end. reflexivity.
      * match goal with |- context [Nat.ltb ms ?n] => replace (Nat.ltb ms n) with false by (symmetry; exact El) end.
        cbn [bind fn_end d_heap drop_frame0].
        eexists. split; [reflexivity|]. split.
        -- unfold wf_pairs, opts, nones. cbn [fst snd]. rewrite !app_length, !map_length, !repeat_length. cbn [length]. lia.
        -- rewrite links_of_drop by (cbn [length map]; rewrite ?map_length; reflexivity).
           unfold drop_group. rewrite !map_map. reflexivity.
Qed.

(* every subnet of a frame handed to the generated subnet_linker_drop in turn (with its destination set);
   the first exception aborts *)
Fixpoint py_drop_all (h : heap) (rho : num) (ms : nat) (gs : list (group * list nat)) : list (nat * option nat) + exn :=
  match gs with
  | [] => inl []
  | (g, ds) :: gs' =>
    match py_subnet_linker_drop num h (map fst g) ds rho ms with
    | Fail _ e => inr e
    | Done h' r => match py_drop_all h' rho ms gs' with inr e => inr e | inl l => inl (links_of r ++ l) end
    end
  end.

Lemma drop_links_cons ms (g : group) gs :
  drop_links ms (g :: gs) =
  if (ms <? length g)%nat then Oversize
  else match drop_links ms gs with Oversize => Oversize | Ok l => Ok (drop_group g ++ l) end.
Proof.
  unfold drop_links. cbn [existsb flat_map]. destruct (ms <? length g)%nat; cbn [orb]; [reflexivity|].
  match goal with |- context [existsb ?f gs] => destruct (existsb f gs) end; reflexivity.
Qed.

Theorem py_drop_links (h : heap) (rho : num) (ms : nat) (gs : list (group * list nat)) :
  (1 <= ms)%nat -> Forall (fun gd => Permutation (snd gd) (dests_of (fst gd)) /\ Forall item_wf (fst gd)) gs ->
  py_drop_all h rho ms gs =
  match drop_links ms (map fst gs) with
  | Oversize => inr SubnetOversizeException
  | Ok l => inl (map strip_cost l)
  end.
Proof.
  intros Hms. induction gs as [|[g ds] gs IH]; intros Hall; [reflexivity|].
  inversion Hall as [|? ? [Hp Hwf] Hall']; subst. cbn [fst snd] in Hp, Hwf.
  cbn [py_drop_all map fst]. rewrite drop_links_cons.
  pose proof (py_drop_group h g ds rho ms Hms Hp Hwf) as Hg.
  destruct (ms <? length g)%nat.
  - rewrite Hg. reflexivity.
  - destruct Hg as [r [Hr [_ Hl]]]. rewrite Hr, (IH Hall').
    destruct (drop_links ms (map fst gs)); [|reflexivity].
    rewrite Hl, map_app. reflexivity.
Qed.

Theorem py_drop_only_uncontested (h : heap) (rho : num) (ms : nat) (gs : list (group * list nat)) links i j :
  (1 <= ms)%nat -> Forall (fun gd => Permutation (snd gd) (dests_of (fst gd)) /\ Forall item_wf (fst gd)) gs ->
  py_drop_all h rho ms gs = inl links -> In (i, Some j) links ->
  exists cs, In [(i, cs)] (map fst gs) /\ reals cs = [j].
Proof.
  intros Hms Hall Hr Hin. rewrite (py_drop_links h rho ms gs Hms Hall) in Hr.
  destruct (drop_links ms (map fst gs)) as [l|] eqn:E; [|discriminate]. inversion Hr; subst links.
  apply in_map_iff in Hin. destruct Hin as [[i' [d c]] [Es Hl]]. unfold strip_cost in Es. cbn in Es. inversion Es; subst.
  eapply drop_links_only_uncontested; eassumption.
Qed.
End Drop.

(* ================= the model with the splitting function abstracted ================= *)
Open Scope Z_scope.

Lemma seq_res_is_g (f : group -> result (list aleaf)) (f' : sgroup -> result (list aleaf)) ps tl :
  (forall p, f p = f' (p, [])) ->
  seq_res f ps tl = seq_res_g f' (map (fun p : group => (p, @nil nat)) ps) tl.
Proof.
  intros H. induction ps as [|p ps IH]; cbn; [reflexivity|]. rewrite <- H, IH. reflexivity.
Qed.

(* Model.Adaptive.asplit is asplit_g with the model's splitter (the destination list is not used by it) *)
Theorem asplit_is_g a R2 : forall fuel k g ds,
  asplit fuel a R2 k g = asplit_g (model_splitter a R2) fuel a k g ds.
Proof.
  induction fuel as [|fuel IH]; intros k g ds; cbn [asplit asplit_g]; [reflexivity|].
  destruct (length g <=? a_max a)%nat; [reflexivity|]. destruct (at_stop a k); [reflexivity|].
  unfold model_splitter. cbn [fst snd]. rewrite map_map.
  apply seq_res_is_g. intros p. cbn [fst snd]. apply IH.
Qed.

Lemma seq_res_g_ok {A} (f : A -> result (list aleaf)) ps tl ls :
  seq_res_g f ps tl = Ok ls ->
  (forall p, In p ps -> exists lp, f p = Ok lp /\ incl lp ls) /\ incl tl ls /\
  (forall (P : aleaf -> Prop), (forall p lp, In p ps -> f p = Ok lp -> Forall P lp) -> Forall P tl -> Forall P ls).
Proof.
  revert ls. induction ps as [|p ps IH]; intros ls H; cbn in H.
  - inversion H; subst. split; [intros p []|split; [apply incl_refl|intros P _ Ht; exact Ht]].
  - destruct (f p) as [l|] eqn:Ep; [|discriminate]. destruct (seq_res_g f ps tl) as [l'|] eqn:Er; [|discriminate].
    inversion H; subst ls. destruct (IH l' eq_refl) as [I1 [I2 I3]]. split; [|split].
    + intros q [E|Hq]; [subst q; exists l; split; [exact Ep|apply incl_appl, incl_refl]|].
      destruct (I1 q Hq) as [lq [E1 E2]]. exists lq. split; [exact E1|apply incl_appr; exact E2].
    + apply incl_appr. exact I2.
    + intros P HP Ht. apply Forall_app. split; [apply (HP p l (or_introl eq_refl) Ep)|].
      apply I3; [intros q lq Hq; apply HP; right; exact Hq|exact Ht].
Qed.

Lemma seq_res_g_oversize {A} (f : A -> result (list aleaf)) ps tl :
  seq_res_g f ps tl = Oversize -> exists p, In p ps /\ f p = Oversize.
Proof.
  induction ps as [|p ps IH]; intros H; cbn in H; [discriminate|].
  destruct (f p) as [l|] eqn:Ep; [|exists p; split; [left; reflexivity|exact Ep]].
  destruct (seq_res_g f ps tl) as [l'|] eqn:Er; [discriminate|].
  destruct (IH eq_refl) as [q [Hq Eq]]. exists q. split; [right; exact Hq|exact Eq].
Qed.

Section SplitterGeneric.
Variable a : acfg.
Variable R2 : Z.
Variable sp : splitter.

(* what every splitter considered here does to the sources: the parts are made of pruned sources *)
Definition splitter_prunes : Prop :=
  forall k g ds p it, Forall real_item g -> In p (fst (sp k g ds)) -> In it (fst p) ->
                      exists it0, In it0 g /\ it = prune a R2 k it0.

Lemma asplit_g_fits fuel k g ds : (length g <= a_max a)%nat -> asplit_g sp fuel a k g ds = Ok [Leaf k g].
Proof. intros H. apply Nat.leb_le in H. destruct fuel; cbn; rewrite H; reflexivity. Qed.

Theorem asplit_g_leaves : splitter_prunes -> forall fuel k g ds ls,
  Forall real_item g -> Forall (within a R2 k) g -> asplit_g sp fuel a k g ds = Ok ls ->
  Forall (leaf_within a R2) ls /\ Forall leaf_real ls.
Proof.
  intros Hsp. induction fuel as [|fuel IH]; intros k g ds ls Hr Hw H; cbn in H.
  - destruct (length g <=? a_max a)%nat; [inversion H; subst; split; repeat constructor; assumption|].
    destruct (at_stop a k); [discriminate|]. inversion H; subst. split; repeat constructor.
  - destruct (length g <=? a_max a)%nat; [inversion H; subst; split; repeat constructor; assumption|].
    destruct (at_stop a k); [discriminate|].
    destruct (seq_res_g_ok _ _ _ _ H) as [_ [_ HP]].
    assert (Hboth : Forall (fun lf => leaf_within a R2 lf /\ leaf_real lf) ls).
    { apply HP.
      - intros p lp Hp Ep.
        assert (Hpr : Forall real_item (fst p)).
        { rewrite Forall_forall. intros it Hit. destruct (Hsp _ _ _ _ _ Hr Hp Hit) as [it0 [H0 E]]. subst it.
          apply prune_real. rewrite Forall_forall in Hr. apply Hr. exact H0. }
        assert (Hpw : Forall (within a R2 (S k)) (fst p)).
        { rewrite Forall_forall. intros it Hit. destruct (Hsp _ _ _ _ _ Hr Hp Hit) as [it0 [_ E]]. subst it. apply prune_within. }
        destruct (IH _ _ _ _ Hpr Hpw Ep) as [A B]. rewrite Forall_forall in *. intros lf Hlf. split; auto.
      - rewrite Forall_forall. intros x Hx. apply in_map_iff in Hx. destruct Hx as [i [E _]]. subst x. split; exact I. }
    split; rewrite Forall_forall in *; intros lf Hlf; apply (Hboth lf Hlf).
Qed.

(* groups met while splitting *)
Inductive reach_g : nat -> group -> list nat -> nat -> group -> Prop :=
| reach_g_here k g ds : reach_g k g ds k g
| reach_g_part k g ds p k' g' :
    (a_max a < length g)%nat -> at_stop a k = false ->
    In p (fst (sp (S k) g ds)) -> reach_g (S k) (fst p) (snd p) k' g' -> reach_g k g ds k' g'.

Theorem asplit_g_raise_sound : forall fuel k g ds,
  asplit_g sp fuel a k g ds = Oversize ->
  exists k' g', reach_g k g ds k' g' /\ (a_max a < length g')%nat /\ at_stop a k' = true.
Proof.
  induction fuel as [|fuel IH]; intros k g ds H; cbn in H.
  - destruct (length g <=? a_max a)%nat eqn:El; [discriminate|]. apply Nat.leb_gt in El.
    destruct (at_stop a k) eqn:Es; [|discriminate]. exists k, g. split; [constructor|auto].
  - destruct (length g <=? a_max a)%nat eqn:El; [discriminate|]. apply Nat.leb_gt in El.
    destruct (at_stop a k) eqn:Es; [exists k, g; split; [constructor|auto]|].
    destruct (seq_res_g_oversize _ _ _ H) as [p [Hin Hov]]. destruct (IH _ _ _ Hov) as [k' [g' [Hr [Hl Hs]]]].
    exists k', g'. split; [eapply reach_g_part; eauto|auto].
Qed.

Theorem asplit_g_ok_complete : forall fuel k g ds ls,
  asplit_g sp fuel a k g ds = Ok ls -> ~ In OutOfFuel ls ->
  forall k' g', reach_g k g ds k' g' -> (a_max a < length g')%nat -> at_stop a k' = false.
Proof.
  induction fuel as [|fuel IH]; intros k g ds ls H Hnf k' g' Hr Hl.
  - cbn in H. destruct (length g <=? a_max a)%nat eqn:El.
    + apply Nat.leb_le in El. inversion Hr; subst; lia.
    + destruct (at_stop a k) eqn:Es; [discriminate|]. inversion H; subst. exfalso. apply Hnf. left; reflexivity.
  - cbn in H. destruct (length g <=? a_max a)%nat eqn:El.
    + apply Nat.leb_le in El. inversion Hr; subst; lia.
    + destruct (at_stop a k) eqn:Es; [discriminate|].
      inversion Hr as [|? ? ? p ? ? Hov Hst Hin Hr']; subst; [exact Es|].
      destruct (seq_res_g_ok _ _ _ _ H) as [Hall _]. destruct (Hall p Hin) as [lp [Ep Hincl]].
      eapply IH; [exact Ep|intros Hf; apply Hnf; apply Hincl; exact Hf|exact Hr'|exact Hl].
Qed.

(* no OutOfFuel leaf once the stop is reached within the fuel *)
Theorem asplit_g_no_out_of_fuel : (forall k, at_stop a k = true -> at_stop a (S k) = true) ->
  forall fuel k g ds ls, at_stop a (fuel + k) = true -> asplit_g sp fuel a k g ds = Ok ls -> ~ In OutOfFuel ls.
Proof.
  intros Hmono. induction fuel as [|fuel IH]; intros k g ds ls Hs H; cbn in H.
  - destruct (length g <=? a_max a)%nat; [inversion H; subst; intros [E|[]]; discriminate|].
    cbn in Hs. rewrite Hs in H. discriminate.
  - destruct (length g <=? a_max a)%nat; [inversion H; subst; intros [E|[]]; discriminate|].
    destruct (at_stop a k); [discriminate|].
    destruct (seq_res_g_ok _ _ _ _ H) as [_ [_ HP]].
    assert (HF : Forall (fun lf => lf <> OutOfFuel) ls).
    { apply HP.
      - intros p lp Hp' Ep. rewrite Forall_forall. intros lf Hlf E. subst lf.
        eapply (IH (S k) (fst p) (snd p) lp); [replace (fuel + S k)%nat with (S fuel + k)%nat by lia; exact Hs|exact Ep|exact Hlf].
      - rewrite Forall_forall. intros x Hx. apply in_map_iff in Hx. destruct Hx as [i [E _]]. subst x. discriminate. }
    rewrite Forall_forall in HF. intros Hin. exact (HF _ Hin eq_refl).
Qed.
End SplitterGeneric.

(* ================= adaptive_link_wrap ================= *)
Lemma combine_app_eq {A B} (a1 a2 : list A) (b1 b2 : list B) :
  length a1 = length b1 -> combine (a1 ++ a2) (b1 ++ b2) = combine a1 b1 ++ combine a2 b2.
Proof.
  revert b1. induction a1 as [|x a1 IH]; intros [|y b1] H; cbn in *; try discriminate; [reflexivity|].
  f_equal. apply IH. lia.
Qed.
Lemma links_of_app a1 a2 b1 b2 : length a1 = length b1 ->
  links_of (a1 ++ a2, b1 ++ b2) = links_of (a1, b1) ++ links_of (a2, b2).
Proof. intros H. unfold links_of. cbn [fst snd]. rewrite combine_app_eq by exact H. apply flat_map_app. Qed.

Lemma FOP_inv {A} (R : A -> A -> Prop) x l : ForallOrdPairs R (x :: l) -> Forall (R x) l /\ ForallOrdPairs R l.
Proof. intros H. inversion H; subst. split; assumption. Qed.

Definition same_fc_outside (ss : list nat) (h h' : heap) : Prop :=
  forall s, ~ In s ss -> fc_get s (h_fc h') = fc_get s (h_fc h).

Lemma grp_ext h h' ss : (forall s, In s ss -> fc_get s (h_fc h') = fc_get s (h_fc h)) -> grp h' ss = grp h ss.
Proof. intros H. unfold grp. apply map_ext_in. intros s Hs. rewrite (H s Hs). reflexivity. Qed.

Section AdaptiveGeneric.
Variable num : Type.
Variable ops : num_ops num.
Variable a : acfg.
(* the ladder of ranges: lvl k stands for search_range * adaptive_step^k *)
Variable lvl : nat -> num.
Variable stop step : num.
Hypothesis mul_lvl : forall k, n_mul ops (lvl k) step = lvl (S k).
Hypothesis le_stop : forall k, n_le ops (lvl k) stop = at_stop a k.
Variable kw : Type.
Variable kwargs : kw.
Variable SL : heap -> list nat -> list nat -> num -> kw -> fresult pairs.     (* subnet_linker *)
Variable SP : heap -> list nat -> list nat -> num -> fresult (list sets).      (* split_subnet *)
Variable spl : splitter.                                  (* the pure function SP computes *)
Variable slv : nat -> group -> list (nat * option nat).   (* the links SL answers on a group that fits *)
Variable slh : nat -> heap -> list nat -> heap.           (* the heap SL leaves when it raises *)
Variable Pre : group -> list nat -> Prop.                 (* what SP needs of a subnet *)

(* subnet_linker: raises SubnetOversizeException exactly above the size limit *)
Hypothesis SL_spec : forall h ss ds k,
  if (a_max a <? length ss)%nat then SL h ss ds (lvl k) kwargs = Fail (slh k h ss) SubnetOversizeException
  else exists r, SL h ss ds (lvl k) kwargs = Done h r /\ wf_pairs r /\ links_of r = slv k (grp h ss).
Hypothesis slh_frame : forall k h ss, same_fc_outside ss h (slh k h ss).
(* split_subnet: computes spl on the group; touches the candidates of its own sources only *)
Hypothesis SP_spec : forall h ss ds k, Pre (grp h ss) ds ->
  exists h' parts, SP (slh k h ss) ss ds (lvl (S k)) = Done h' parts /\
    map (fun p : sets => (grp h' (fst p), snd p)) parts = fst (spl (S k) (grp h ss) ds) /\
    same_fc_outside ss h h' /\
    (forall p, In p parts -> incl (fst p) ss) /\
    ForallOrdPairs (fun p q : sets => forall s, In s (fst p) -> ~ In s (fst q)) parts /\
    Forall (fun p : sets => Pre (grp h' (fst p)) (snd p)) parts.

Definition py := py_adaptive_link_wrap num ops kw SL SP.

Lemma flat_leaf_dropped (l : list nat) : flat_map (leaf_links slv) (map Dropped l) = [].
Proof. induction l; cbn; auto. Qed.

Theorem py_adaptive_asplit : forall fuel h ss ds k,
  at_stop a (fuel + k) = true -> Pre (grp h ss) ds ->
  exists h', same_fc_outside ss h h' /\
    match asplit_g spl fuel a k (grp h ss) ds with
    | Oversize => py (S fuel) h ss ds (lvl k) (Some stop) step kwargs = Fail h' SubnetOversizeException
    | Ok ls => exists r, py (S fuel) h ss ds (lvl k) (Some stop) step kwargs = Done h' r /\ wf_pairs r /\
                         links_of r = flat_map (leaf_links slv) ls
    end.
Proof.
  induction fuel as [|fuel IH]; intros h ss ds k Hstop Hpre.
  - (* the stop is reached at this level: no recursion *)
    cbn [Nat.add] in Hstop. unfold py. cbn [py_adaptive_link_wrap asplit_g wrap_frame0 w_heap].
    unfold grp at 1. rewrite map_length.
    pose proof (SL_spec h ss ds k) as Hsl.
    destruct (Nat.ltb_spec (a_max a) (length ss)) as [Hov|Hfit].
    + destruct (Nat.leb_spec (length ss) (a_max a)) as [Hc|_]; [lia|]. rewrite Hstop.
      exists (slh k h ss). split; [apply slh_frame|]. rewrite Hsl. cbn. rewrite le_stop, Hstop. reflexivity.
    + destruct (Nat.leb_spec (length ss) (a_max a)) as [_|Hc]; [|lia].
      destruct Hsl as [[r1 r2] [Hr [Hwf Hl]]]. exists h. split; [intros s _; reflexivity|].
      exists (r1, r2). rewrite Hr. cbn. split; [reflexivity|split; [exact Hwf|]]. rewrite app_nil_r. exact Hl.
  - cbn [asplit_g]. unfold grp at 1. rewrite map_length.
    unfold py. remember (S fuel) as f1 eqn:Ef1. cbn [py_adaptive_link_wrap wrap_frame0 w_heap].
    pose proof (SL_spec h ss ds k) as Hsl.
    destruct (Nat.ltb_spec (a_max a) (length ss)) as [Hov|Hfit].
    2:{ destruct (Nat.leb_spec (length ss) (a_max a)) as [_|Hc]; [|lia].
        destruct Hsl as [[r1 r2] [Hr [Hwf Hl]]]. exists h. split; [intros s _; reflexivity|].
        exists (r1, r2). rewrite Hr. cbn. split; [reflexivity|split; [exact Hwf|]]. rewrite app_nil_r. exact Hl. }
    destruct (Nat.leb_spec (length ss) (a_max a)) as [Hc|_]; [lia|].
    rewrite Hsl. cbn [try_except exn_eqb wrap_frame0 set_w_heap w_heap sn_spl sn_dpl]. rewrite le_stop, mul_lvl.
    destruct (at_stop a k) eqn:Es.
    { exists (slh k h ss). split; [apply slh_frame|]. reflexivity. }
    cbn [bind set_sn_spl set_sn_dpl set_w_heap w_heap sn_spl sn_dpl].
    destruct (SP_spec h ss ds k Hpre) as [h1 [parts [Hsp [Hmap [Hfr [Hincl [Hdis Hpp]]]]]]].
    rewrite Hsp. cbn [set_w_heap set_sn_spl set_sn_dpl w_heap sn_spl sn_dpl].
    rewrite <- Hmap.
    match goal with |- context [for_each ?b parts _] => set (body := b) end.
    set (F := fun p : sgroup => asplit_g spl fuel a (S k) (fst p) (snd p)).
    set (tl := map Dropped (snd (spl (S k) (grp h ss) ds))).
    assert (Hloop : forall ps hc accs accd,
      Forall (fun p : sets => Pre (grp h1 (fst p)) (snd p)) ps ->
      ForallOrdPairs (fun p q : sets => forall s, In s (fst p) -> ~ In s (fst q)) ps ->
      (forall p s, In p ps -> In s (fst p) -> fc_get s (h_fc hc) = fc_get s (h_fc h1)) ->
      exists he, (forall s, (forall p, In p ps -> ~ In s (fst p)) -> fc_get s (h_fc he) = fc_get s (h_fc hc)) /\
        match seq_res_g F (map (fun p : sets => (grp h1 (fst p), snd p)) ps) tl with
        | Oversize => exists xs xd, for_each body ps (mk_wrap hc accs accd) = Raise (mk_wrap he xs xd) SubnetOversizeException
        | Ok ls => exists rs rd, for_each body ps (mk_wrap hc accs accd) = Normal (mk_wrap he (accs ++ rs) (accd ++ rd)) /\
                                 length rs = length rd /\ links_of (rs, rd) = flat_map (leaf_links slv) ls
        end).
    { induction ps as [|p ps IHps]; intros hc accs accd Hp Hd Hag.
      - exists hc. split; [reflexivity|]. cbn [map seq_res_g for_each]. exists [], []. rewrite !app_nil_r.
        split; [reflexivity|split; [reflexivity|]]. unfold tl. rewrite flat_leaf_dropped. reflexivity.
      - pose proof (Forall_inv Hp) as Hp1. pose proof (Forall_inv_tail Hp) as Hp'.
        destruct (FOP_inv _ _ _ Hd) as [Hd1 Hd'].
        assert (Eg : grp hc (fst p) = grp h1 (fst p)).
        { apply grp_ext. intros s Hs. apply (Hag p s); [left; reflexivity|exact Hs]. }
        assert (Hst' : at_stop a (fuel + S k) = true) by (replace (fuel + S k)%nat with (f1 + k)%nat by lia; exact Hstop).
        cbv beta in Hp1. rewrite <- Eg in Hp1.
        destruct (IH hc (fst p) (snd p) (S k) Hst' Hp1) as [h2 [Hfr2 Hres]]. unfold py in Hres. cbv beta in Hp1.
        assert (Hb : body p (mk_wrap hc accs accd) =
          match py_adaptive_link_wrap num ops kw SL SP f1 hc (fst p) (snd p) (lvl (S k)) (Some stop) step kwargs with
          | Done h7 r9 => Normal (mk_wrap h7 (accs ++ fst r9) (accd ++ snd r9))
          | Fail h7 e8 => Raise (mk_wrap h7 accs accd) e8
          end) by reflexivity.
        cbn [map seq_res_g for_each]. rewrite Hb. unfold F at 1. cbn [fst snd]. rewrite <- Eg.
        destruct (asplit_g spl fuel a (S k) (grp hc (fst p)) (snd p)) as [l|].
        + destruct Hres as [[r1 r2] [Hr [Hwf Hl]]]. rewrite Hr. cbn [fst snd].
          destruct (IHps h2 (accs ++ r1) (accd ++ r2) Hp' Hd') as [he [Hfe Hrest]].
          { intros q s Hq Hs. rewrite Hfr2.
            - apply (Hag q s); [right; exact Hq|exact Hs].
            - rewrite Forall_forall in Hd1. intros Hin. exact (Hd1 q Hq s Hin Hs). }
          exists he. split.
          { intros s Hs. rewrite Hfe by (intros q Hq; apply Hs; right; exact Hq).
            apply Hfr2. apply Hs. left; reflexivity. }
          destruct (seq_res_g F (map (fun p0 : sets => (grp h1 (fst p0), snd p0)) ps) tl) as [l'|].
          * destruct Hrest as [rs [rd [Hfe' [Hlen Hlk]]]]. exists (r1 ++ rs), (r2 ++ rd).
            rewrite !app_assoc. split; [exact Hfe'|]. split.
            -- rewrite !app_length. unfold wf_pairs in Hwf. cbn [fst snd] in Hwf. lia.
            -- rewrite links_of_app by exact Hwf. rewrite flat_map_app, Hl, Hlk. reflexivity.
          * exact Hrest.
        + rewrite Hres.
          exists h2. split.
          { intros s Hs. apply Hfr2. apply Hs. left; reflexivity. }
          exists accs, accd. reflexivity. }
    change (set_w_heap (set_sn_dpl (set_sn_spl (set_w_heap (wrap_frame0 h) (slh k h ss)) []) []) h1) with (mk_wrap h1 [] []).
    destruct (Hloop parts h1 [] [] Hpp Hdis (fun _ _ _ _ => eq_refl)) as [he [Hfe Hres]].
    exists he. split.
    { intros s Hs. rewrite Hfe.
      - apply Hfr. exact Hs.
      - intros p Hp Hin. apply Hs. apply (Hincl p Hp). exact Hin. }
    fold F. fold tl.
    destruct (seq_res_g F (map (fun p : sets => (grp h1 (fst p), snd p)) parts) tl) as [ls|].
    + destruct Hres as [rs [rd [Hfe' [Hlen Hlk]]]]. rewrite Hfe'. cbn [bind fn_end w_heap sn_spl sn_dpl app].
      exists (rs, rd). split; [reflexivity|split; [exact Hlen|exact Hlk]].
    + destruct Hres as [xs [xd Hx]]. rewrite Hx. reflexivity.
Qed.

(* nothing oversize: the wrapper is the subnet linker itself (C12, first clause) *)
Theorem py_adaptive_plain_when_fits fuel h ss ds rho ostop st (h' : heap) r :
  SL h ss ds rho kwargs = Done h' r -> py (S fuel) h ss ds rho ostop st kwargs = Done h' r.
Proof. intros H. unfold py. cbn [py_adaptive_link_wrap wrap_frame0 w_heap]. rewrite H. destruct r. reflexivity. Qed.
(* ... and any other exception of the subnet linker passes through *)
Theorem py_adaptive_other_exception fuel h ss ds rho ostop st (h' : heap) e :
  SL h ss ds rho kwargs = Fail h' e -> e <> SubnetOversizeException -> py (S fuel) h ss ds rho ostop st kwargs = Fail h' e.
Proof. intros H He. unfold py. cbn [py_adaptive_link_wrap wrap_frame0 w_heap]. rewrite H. destruct e; try contradiction; reflexivity. Qed.
(* without adaptive_stop the exception is re-raised *)
Theorem py_adaptive_no_stop fuel h ss ds rho st (h' : heap) e :
  SL h ss ds rho kwargs = Fail h' e -> py (S fuel) h ss ds rho None st kwargs = Fail h' e.
Proof. intros H. unfold py. cbn [py_adaptive_link_wrap wrap_frame0 w_heap]. rewrite H. destruct e; reflexivity. Qed.

(* ---- the C12 headline theorems, for the generated wrapper ---- *)
Hypothesis stop_mono : forall k, at_stop a k = true -> at_stop a (S k) = true.

(* SubnetOversizeException is raised only when a still-oversize group has reached a range <= adaptive_stop *)
Theorem py_raise_sound fuel h ss ds k h' :
  at_stop a (fuel + k) = true -> Pre (grp h ss) ds ->
  py (S fuel) h ss ds (lvl k) (Some stop) step kwargs = Fail h' SubnetOversizeException ->
  exists k' g', reach_g a spl k (grp h ss) ds k' g' /\ (a_max a < length g')%nat /\ at_stop a k' = true.
Proof.
  intros Hs Hp Hf. destruct (py_adaptive_asplit fuel h ss ds k Hs Hp) as [h2 [_ Hres]].
  destruct (asplit_g spl fuel a k (grp h ss) ds) as [ls|] eqn:E.
  - destruct Hres as [r [Hr _]]. rewrite Hr in Hf. discriminate.
  - eapply asplit_g_raise_sound. exact E.
Qed.

(* a normal return: its links are those of the model's leaves, and no oversize group met on the way was at the stop *)
Theorem py_ok_complete fuel h ss ds k h' r :
  at_stop a (fuel + k) = true -> Pre (grp h ss) ds ->
  py (S fuel) h ss ds (lvl k) (Some stop) step kwargs = Done h' r ->
  exists ls, asplit_g spl fuel a k (grp h ss) ds = Ok ls /\ ~ In OutOfFuel ls /\
             wf_pairs r /\ links_of r = flat_map (leaf_links slv) ls /\
             (forall k' g', reach_g a spl k (grp h ss) ds k' g' -> (a_max a < length g')%nat -> at_stop a k' = false).
Proof.
  intros Hs Hp Hd. destruct (py_adaptive_asplit fuel h ss ds k Hs Hp) as [h2 [_ Hres]].
  destruct (asplit_g spl fuel a k (grp h ss) ds) as [ls|] eqn:E.
  - destruct Hres as [r' [Hr [Hwf Hl]]]. rewrite Hr in Hd. inversion Hd; subst.
    pose proof (asplit_g_no_out_of_fuel a spl stop_mono fuel k _ _ ls Hs E) as Hnf.
    exists ls. repeat split; try assumption.
    intros k' g' Hre Hov. eapply asplit_g_ok_complete; eassumption.
  - rewrite Hres in Hd. discriminate.
Qed.

End AdaptiveGeneric.

(* ================= split_subnet ================= *)
Section SplitSubnetGen.
Variable num : Type.
Variable ops : num_ops num.
Variable A : mst -> nat -> nat -> mresult.              (* the callee assign_subnet *)
(* ... is the model Model/SubnetMerge.assign_subnet (what Gen/linker_core.py_assign_subnet is proved equal to) *)
Hypothesis A_spec : forall m s d,
  match A m s d with MDone m' => assign_subnet m (s, d) = Some m' | MFail _ => assign_subnet m (s, d) = None end.
Variable rho : num.
Let le : cand -> bool := fun dc => n_dist_le ops (snd dc) rho.

Lemma enum_loop (body : nat * nat -> split_frame -> outcome split_frame (list sets)) (step : mst -> nat -> nat -> mst) :
  (forall i d st, body (i, d) st = Normal (set_s_heap st (set_h_sn (s_heap st) (step (h_sn (s_heap st)) i d)))) ->
  forall dest i st,
  for_each body (combine (seq i (length dest)) dest) st =
  Normal (set_s_heap st (set_h_sn (s_heap st) ((fix go i dest m := match dest with [] => m | d :: ds => go (S i) ds (step m i d) end) i dest (h_sn (s_heap st))))).
Proof.
  intros Hb. induction dest as [|d dest IH]; intros i st; cbn [length seq combine for_each].
  - destruct st as [[fc m] nf]. reflexivity.
  - rewrite Hb. rewrite IH. destruct st as [[fc m] nf]. reflexivity.
Qed.

Lemma prune_loop (b : cand -> split_frame -> outcome split_frame (list sets)) :
  (forall it st, b it st = if n_dist_le ops (snd it) rho then Normal (set_new_fcs st (list_append (new_fcs st) (fst it, snd it))) else Break st) ->
  forall cs st, for_each b cs st = Normal (set_new_fcs st (new_fcs st ++ take_le le cs)).
Proof.
  intros Hb. induction cs as [|[d c] cs IH]; intros st; cbn [for_each take_le].
  - rewrite app_nil_r. destruct st; reflexivity.
  - rewrite Hb. unfold le at 1. cbn [fst snd]. destruct (n_dist_le ops c rho).
    + rewrite IH. unfold list_append. destruct st as [hh nf]. cbn [set_new_fcs new_fcs s_heap]. rewrite <- app_assoc. reflexivity.
    + rewrite app_nil_r. destruct st; reflexivity.
Qed.

Lemma assign_loop sp (b : cand -> split_frame -> outcome split_frame (list sets)) :
  (forall it st, b it st = match fst it with
      | None => Raise st AttributeError
      | Some dp_v => match A (h_sn (s_heap st)) sp dp_v with
                     | MFail e1 => Raise st e1
                     | MDone m2 => Normal (set_s_heap st (set_h_sn (s_heap st) m2))
                     end
      end) ->
  forall cs st,
  match assign_all sp cs (h_sn (s_heap st)) with
  | Some m' => for_each b cs st = Normal (set_s_heap st (set_h_sn (s_heap st) m'))
  | None => exists st' e, for_each b cs st = Raise st' e
  end.
Proof.
  intros Hb. induction cs as [|[[d|] c] cs IH]; intros st; cbn [assign_all for_each]; rewrite ?Hb; cbn [fst].
  - destruct st as [[fc m] nf]. reflexivity.
  - pose proof (A_spec (h_sn (s_heap st)) sp d) as Ha.
    destruct (A (h_sn (s_heap st)) sp d) as [m2|e]; rewrite Ha.
    + specialize (IH (set_s_heap st (set_h_sn (s_heap st) m2))).
      cbn [set_s_heap set_h_sn s_heap h_sn] in IH.
      destruct (assign_all sp cs m2) as [m'|].
      * rewrite IH. destruct st as [[fc m] nf]. reflexivity.
      * exact IH.
    + eexists. eexists. reflexivity.
  - eexists. eexists. reflexivity.
Qed.

Theorem py_split_subnet_msplit (h : heap) (source dest : list nat) :
  match msplit le h source dest with
  | Some (h', parts) => py_split_subnet num ops A h source dest rho = Done h' parts
  | None => exists h' e, py_split_subnet num ops A h source dest rho = Fail h' e
  end.
Proof.
  unfold py_split_subnet, msplit. unfold enumerate.
  cbn [split_frame0 set_s_heap s_heap new_fcs].
  rewrite (enum_loop _ reset_dest) by (intros i d [[fc m] nf]; reflexivity).
  cbn [bind set_s_heap s_heap new_fcs set_h_sn h_sn h_fc dict_new].
  change ((fix go (i : nat) (dest0 : list nat) (m : mst) {struct dest0} : mst :=
             match dest0 with [] => m | d :: ds => go (S i) ds (reset_dest m i d) end) 0%nat dest (set_subs (h_sn h) []))
    with (reset_dests 0 dest (set_subs (h_sn h) [])).
  match goal with |- context [for_each ?b source ?s0] =>
    set (body := b); change s0 with (mk_split (mk_heap (h_fc h) (reset_dests 0 dest (set_subs (h_sn h) []))) []) end.
  assert (Hbody : forall s fc m nf,
    match assign_all s (take_le le (fc_get s fc)) (clear_src m s) with
    | Some m' => body s (mk_split (mk_heap fc m) nf) =
                 Normal (mk_split (mk_heap (fc_set s (take_le le (fc_get s fc)) fc) m') (take_le le (fc_get s fc)))
    | None => exists st' e, body s (mk_split (mk_heap fc m) nf) = Raise st' e
    end).
  { intros s fc m nf. unfold body.
    cbv beta iota delta [set_s_heap s_heap clear_subnet_src set_h_sn h_sn h_fc set_new_fcs new_fcs forward_cands].
    rewrite (prune_loop _ (fun it st => eq_refl)).
    cbv beta iota delta [bind set_new_fcs new_fcs s_heap app set_s_heap set_forward_cands set_h_fc h_fc h_sn].
    pose proof (assign_loop s _ (fun it st => eq_refl) (take_le le (fc_get s fc))
                 (mk_split (mk_heap (fc_set s (take_le le (fc_get s fc)) fc) (clear_src m s)) (take_le le (fc_get s fc)))) as Hal.
    cbv beta iota delta [s_heap h_sn set_s_heap set_h_sn h_fc new_fcs] in Hal.
    destruct (assign_all s (take_le le (fc_get s fc)) (clear_src m s)) as [m'|]; exact Hal. }
  assert (Hloop : forall src fc m nf,
    match msplit_src le src fc m with
    | Some (fc', m') => exists nf', for_each body src (mk_split (mk_heap fc m) nf) = Normal (mk_split (mk_heap fc' m') nf')
    | None => exists st' e, for_each body src (mk_split (mk_heap fc m) nf) = Raise st' e
    end).
  { induction src as [|s src IH]; intros fc m nf; cbn [msplit_src for_each].
    - exists nf. reflexivity.
    - pose proof (Hbody s fc m nf) as Hb.
      destruct (assign_all s (take_le le (fc_get s fc)) (clear_src m s)) as [m'|].
      + rewrite Hb. apply IH.
      + destruct Hb as [st' [e He]]. rewrite He. eexists. eexists. reflexivity. }
  specialize (Hloop source (h_fc h) (reset_dests 0 dest (set_subs (h_sn h) [])) []).
  destruct (msplit_src le source (h_fc h) (reset_dests 0 dest (set_subs (h_sn h) []))) as [[fc' m']|].
  - destruct Hloop as [nf' Hl]. rewrite Hl. reflexivity.
  - destruct Hloop as [st' [e Hl]]. rewrite Hl. eexists. eexists. reflexivity.
Qed.
End SplitSubnetGen.

(* ================= exact rational ranges satisfy the ladder hypotheses ================= *)
Open Scope Q_scope.
Lemma inj_pos b : (0 < b)%Z -> 0 < inject_Z b.
Proof. intros H. change 0 with (inject_Z 0). rewrite <- Zlt_Qlt. exact H. Qed.

Lemma inj_nz b : (0 < b)%Z -> ~ inject_Z b == 0.
Proof. intros H E. pose proof (inj_pos b H) as P. rewrite E in P. discriminate. Qed.

Lemma qdiv_le a b c d : (0 < b)%Z -> (0 < d)%Z ->
  (inject_Z a / inject_Z b <= inject_Z c / inject_Z d <-> (a * d <= c * b)%Z).
Proof.
  intros Hb Hd. pose proof (inj_pos b Hb) as Qb. pose proof (inj_pos d Hd) as Qd.
  rewrite Zle_Qle, !inject_Z_mult.
  assert (Hbd : 0 < inject_Z b * inject_Z d) by (apply Qmult_lt_0_compat; assumption).
  rewrite <- (Qmult_le_r _ _ _ Hbd).
  assert (E1 : inject_Z a / inject_Z b * (inject_Z b * inject_Z d) == inject_Z a * inject_Z d).
  { field. intros E. rewrite E in Qb. discriminate. }
  assert (E2 : inject_Z c / inject_Z d * (inject_Z b * inject_Z d) == inject_Z c * inject_Z b).
  { field. intros E. rewrite E in Qd. discriminate. }
  rewrite E1, E2. reflexivity.
Qed.

Section QLadder.
Variable a : acfg.
Variable R2 : Z.
(* search_range r (its square is the model's R2), adaptive_step = p/q, adaptive_stop = r * sn/sd *)
Variable r step stop : Q.
Hypothesis Hp : (0 < a_p a)%Z.
Hypothesis Hq : (0 < a_q a)%Z.
Hypothesis Hsd : (0 < a_sd a)%Z.
Hypothesis Hr : 0 < r.
Hypothesis Hr2 : r * r == inject_Z R2.
Hypothesis Hstep : step == inject_Z (a_p a) / inject_Z (a_q a).
Hypothesis Hstop : stop == r * (inject_Z (a_sn a) / inject_Z (a_sd a)).

(* the ranges the code computes: search_range, then * adaptive_step at every level *)
Fixpoint qlvl (k : nat) : Q := match k with O => r | S k' => qlvl k' * step end.

Lemma qpow_pos b k : (0 < b)%Z -> (0 < b ^ Z.of_nat k)%Z.
Proof. intros H. apply Z.pow_pos_nonneg; lia. Qed.

Lemma qlvl_eq k : qlvl k == r * (inject_Z (a_p a ^ Z.of_nat k) / inject_Z (a_q a ^ Z.of_nat k)).
Proof.
  induction k as [|k IH].
  - cbn [qlvl]. change (Z.of_nat 0) with 0%Z. rewrite !Z.pow_0_r. field.
  - cbn [qlvl]. rewrite IH, Hstep. rewrite Nat2Z.inj_succ, !Z.pow_succ_r by lia. rewrite !inject_Z_mult.
    field. split; apply inj_nz; first [exact Hq|apply qpow_pos; exact Hq].
Qed.

Theorem Q_mul_lvl k : n_mul Q_ops (qlvl k) step = qlvl (S k).
Proof. reflexivity. Qed.

Theorem Q_le_stop k : n_le Q_ops (qlvl k) stop = at_stop a k.
Proof.
  apply eq_iff_eq_true. unfold at_stop. cbn [n_le Q_ops]. rewrite Qle_bool_iff, Z.leb_le.
  rewrite qlvl_eq, Hstop. rewrite Qmult_le_l by exact Hr.
  apply qdiv_le; [apply qpow_pos; exact Hq|exact Hsd].
Qed.

Theorem Q_dist_le (d : option nat) c k : n_dist_le Q_ops c (qlvl k) = le_lvl a R2 k (d, c).
Proof.
  apply eq_iff_eq_true. unfold le_lvl, num, den. cbn [n_dist_le Q_ops snd]. rewrite Qle_bool_iff, Z.leb_le.
  rewrite !Z.pow_twice_r.
  set (P := (a_p a ^ Z.of_nat k)%Z). set (B := (a_q a ^ Z.of_nat k)%Z).
  assert (HB : (0 < B)%Z) by (apply qpow_pos; exact Hq).
  assert (E : qlvl k * qlvl k == inject_Z (R2 * (P * P)) / inject_Z (B * B)).
  { rewrite qlvl_eq. fold P B. rewrite !inject_Z_mult, <- Hr2.
    field. apply inj_nz. exact HB. }
  rewrite E.
  assert (E1 : inject_Z c == inject_Z c / inject_Z 1) by (field).
  rewrite E1. rewrite qdiv_le by nia. rewrite Z.mul_1_r. reflexivity.
Qed.
End QLadder.

Theorem Q_ladder (a : acfg) (R2 : Z) (r step stop : Q) :
  (0 < a_p a)%Z -> (0 < a_q a)%Z -> (0 < a_sd a)%Z -> 0 < r -> r * r == inject_Z R2 ->
  step == inject_Z (a_p a) / inject_Z (a_q a) -> stop == r * (inject_Z (a_sn a) / inject_Z (a_sd a)) ->
  (forall k, n_mul Q_ops (qlvl r step k) step = qlvl r step (S k)) /\
  (forall k, n_le Q_ops (qlvl r step k) stop = at_stop a k) /\
  (forall d c k, n_dist_le Q_ops c (qlvl r step k) = le_lvl a R2 k (d, c)).
Proof.
  intros Hp Hq Hsd Hr Hr2 Hstep Hstop. split; [|split].
  - intros k. apply Q_mul_lvl.
  - intros k. exact (Q_le_stop a r step stop Hp Hq Hsd Hr Hstep Hstop k).
  - intros d c k. exact (Q_dist_le a R2 r step Hp Hq Hsd Hr2 Hstep d c k).
Qed.
Close Scope Q_scope.
