(* Concrete refutations of C17 for the pinned (pre-fix) code, Model/MSDOld.v. *)
From Coq Require Import ZArith QArith Qcanon List Bool Permutation.
From TP Require Import Model.MSD Model.MSDSpec Model.MSDOld.
Import ListNotations.
Open Scope Qc_scope.

Definition vals (o : option (list mrow)) : option (list (option Q)) :=
  option_map (map (fun r => option_map this (r_msd r))) o.

(* F6: a contiguous trajectory with shuffled rows *)
Definition w_sorted : list row :=
  [(0%Z, [zq 0]); (1%Z, [zq 1]); (2%Z, [zq 3]); (3%Z, [zq 6]); (4%Z, [zq 10])].
Definition w_shuffled : list row :=
  [(2%Z, [zq 3]); (0%Z, [zq 0]); (3%Z, [zq 6]); (1%Z, [zq 1]); (4%Z, [zq 10])].

Lemma old_order_dependent :
  Permutation w_sorted w_shuffled /\ NoDup (map fst w_sorted) /\
  vals (msd_old w_sorted 1 1 100 1) <> vals (msd_old w_shuffled 1 1 100 1).
Proof.
  split; [|split].
  - unfold w_sorted, w_shuffled.
    apply Permutation_trans with
      ([(0%Z, [zq 0]); (2%Z, [zq 3]); (1%Z, [zq 1]); (3%Z, [zq 6]); (4%Z, [zq 10])]).
    + apply perm_skip. apply perm_swap.
    + eapply Permutation_trans. apply perm_swap. apply perm_skip. apply perm_skip. apply perm_swap.
  - repeat constructor; simpl; intuition discriminate.
  - intro H. vm_compute in H. discriminate.
Qed.

(* F7: frames {4, 9}: lags 1-4 have no pair, the pinned code reports 0 *)
Definition w_two : list row := [(4%Z, [zq 1; zq 2]); (9%Z, [zq 4; zq 6])].

Lemma old_zero_for_no_pair :
  pairs 1 w_two = [] /\
  exists rows r, msd_old w_two 1 1 100 2 = Some rows /\ In r rows /\ r_lag r = 1%nat /\ r_msd r = Some 0.
Proof.
  split. reflexivity.
  destruct (msd_old w_two 1 1 100 2) as [rows|] eqn:E; [|vm_compute in E; discriminate].
  destruct rows as [|r rows]; [vm_compute in E; discriminate|].
  exists (r :: rows), r. split; auto. split. left; auto.
  assert (H : option_map (fun rs => (r_lag (hd r rs), option_map this (r_msd (hd r rs)))) (msd_old w_two 1 1 100 2)
              = Some (1%nat, Some 0%Q)) by (vm_compute; reflexivity).
  rewrite E in H. simpl in H. inversion H. split; auto.
  destruct (r_msd r) as [v|]; [|discriminate]. simpl in H2. inversion H2. f_equal.
  apply Qc_is_canon. simpl. rewrite H3. reflexivity.
Qed.

(* F11: 5-frame particle plus a particle seen at frames 0, 2, 4: the pinned
   emsd(lag 1) is 4.6875, the weighted mean over the contributing particles is 7.5 *)
Definition w_ens : list prow :=
  map (fun fx => (0%Z, (fst fx, [zq (snd fx)]))) [(0, 0); (1, 1); (2, 3); (3, 6); (4, 10)]%Z ++
  map (fun fx => (1%Z, (fst fx, [zq (snd fx)]))) [(0, 0); (2, 5); (4, 7)]%Z.

Lemma old_emsd_wrong :
  option_map this (emsd_def 1 1 w_ens 1) = Some (15 # 2)%Q /\
  option_map (fun rows => option_map this (e_msd (hd (Build_erow 0 0 None 0) rows))) (emsd_old w_ens 1 1 100 1)
  = Some (Some (75 # 16)%Q).
Proof. split; vm_compute; reflexivity. Qed.
