(* The branch-and-bound subnet search is invariant under scaling all costs by a
   common positive factor; a single-source subnet keeps its nearest candidate. *)
From Coq Require Import ZArith List Bool Arith Lia Permutation.
From TP Require Import Model.Assign Model.Link Proofs.BnB.
Import ListNotations.
Open Scope Z_scope.

Definition scale_c (D : Z) (dc : cand) : cand := (fst dc, snd dc * D).
Definition scale_cs (D : Z) (cs : list cand) : list cand := map (scale_c D) cs.
Definition scale_item (D : Z) (it : item) : item := (fst it, scale_cs D (snd it)).
Definition scale_link (D : Z) (l : link_t) : link_t := (fst l, scale_c D (snd l)).
Definition scale_best (D : Z) (b : best_t) : best_t :=
  match b with None => None | Some (v, p) => Some (v * D, scale_cs D p) end.

Lemma loop_cons rest taken cur path d c cs best :
  loop rest taken cur path ((d, c) :: cs) best =
  if exceeds (cur + c) best then best
  else if taken_b d taken then loop rest taken cur path cs best
  else loop rest taken cur path cs
         (search rest (add_taken d taken) (cur + c) ((d, c) :: path) best).
Proof. reflexivity. Qed.

Lemma search_cons cs rest taken cur path best :
  search (cs :: rest) taken cur path best = loop rest taken cur path cs best.
Proof. reflexivity. Qed.

Lemma exceeds_scale D v b : 0 < D -> exceeds (v * D) (scale_best D b) = exceeds v b.
Proof.
  intros HD. destruct b as [[bv p]|]; simpl; [|reflexivity].
  destruct (Z.ltb_spec (bv * D) (v * D)); destruct (Z.ltb_spec bv v); try reflexivity; nia.
Qed.

Lemma improve_scale D v p b : 0 < D ->
  improve (v * D) (scale_cs D p) (scale_best D b) = scale_best D (improve v p b).
Proof.
  intros HD.
  destruct b as [[bv q]|]; simpl.
  - destruct (Z.ltb_spec (v * D) (bv * D)); destruct (Z.ltb_spec v bv); try nia; simpl.
    + unfold scale_cs. rewrite map_rev. reflexivity.
    + reflexivity.
  - unfold scale_cs. rewrite map_rev. reflexivity.
Qed.

Theorem search_scale (D : Z) : 0 < D -> forall srcs taken cur path best,
  search (map (scale_cs D) srcs) taken (cur * D) (scale_cs D path) (scale_best D best)
  = scale_best D (search srcs taken cur path best).
Proof.
  intros HD. induction srcs as [|cs rest IH]; intros taken cur path best.
  - simpl. apply improve_scale; assumption.
  - change (map (scale_cs D) (cs :: rest)) with (scale_cs D cs :: map (scale_cs D) rest).
    rewrite !search_cons.
    revert best. induction cs as [|[d c] cs IHcs]; intros best.
    + reflexivity.
    + change (scale_cs D ((d, c) :: cs)) with ((d, c * D) :: scale_cs D cs).
      rewrite !loop_cons.
      replace (cur * D + c * D) with ((cur + c) * D) by ring.
      rewrite exceeds_scale by assumption.
      destruct (exceeds (cur + c) best); [reflexivity|].
      destruct (taken_b d taken); [apply IHcs|].
      change ((d, c * D) :: scale_cs D path) with (scale_cs D ((d, c) :: path)).
      rewrite IH. apply IHcs.
Qed.

Theorem solve_scale (D : Z) (srcs : list (list cand)) : 0 < D ->
  solve (map (scale_cs D) srcs) = scale_best D (solve srcs).
Proof.
  intros HD. unfold solve.
  change (search (map (scale_cs D) srcs) [] (0 * D) (scale_cs D []) (scale_best D None)
          = scale_best D (search srcs [] 0 [] None)).
  apply search_scale; assumption.
Qed.

Lemma insert_i_scale D x l :
  insert_i (scale_item D x) (map (scale_item D) l) = map (scale_item D) (insert_i x l).
Proof.
  induction l as [|y l IH]; simpl; [reflexivity|].
  unfold scale_cs at 1 2. rewrite !map_length.
  destruct (length (snd y) <? length (snd x))%nat; simpl.
  - rewrite IH. reflexivity.
  - reflexivity.
Qed.

(* sort_items only looks at the NUMBER of candidates *)
Lemma sort_items_scale (D : Z) (g : group) : sort_items (map (scale_item D) g) = map (scale_item D) (sort_items g).
Proof.
  unfold sort_items. induction g as [|x g IH]; simpl; [reflexivity|].
  rewrite IH. apply insert_i_scale.
Qed.

Lemma combine_scale D (ss : list nat) (a : list cand) :
  combine ss (scale_cs D a) = map (scale_link D) (combine ss a).
Proof.
  revert a. induction ss as [|s ss IH]; intros [|x a]; simpl; try reflexivity.
  rewrite <- IH. reflexivity.
Qed.

Theorem solve_group_scale (D : Z) (n : nat) (g : group) : 0 < D ->
  solve_group n (map (scale_item D) g)
  = match solve_group n g with Ok l => Ok (map (scale_link D) l) | Oversize => Oversize end.
Proof.
  intros HD. unfold solve_group. rewrite map_length.
  destruct (n <? length g)%nat; [reflexivity|].
  cbv zeta. rewrite sort_items_scale.
  replace (map snd (map (scale_item D) (sort_items g)))
    with (map (scale_cs D) (map snd (sort_items g)))
    by (rewrite !map_map; reflexivity).
  replace (map fst (map (scale_item D) (sort_items g)))
    with (map fst (sort_items g))
    by (rewrite map_map; reflexivity).
  rewrite solve_scale by assumption.
  destruct (solve (map snd (sort_items g))) as [[v a]|]; simpl.
  - rewrite combine_scale. reflexivity.
  - reflexivity.
Qed.

Lemma loop_single_keep c p cs :
  Forall (fun x : cand => c <= snd x) cs ->
  loop [] [] 0 [] cs (Some (c, p)) = Some (c, p).
Proof.
  induction cs as [|[d' c'] cs IH]; intros HF; [reflexivity|].
  inversion HF as [|? ? Hc HF']; subst. simpl in Hc.
  rewrite loop_cons. rewrite Z.add_0_l.
  unfold exceeds at 1.
  destruct (Z.ltb_spec c c'); [reflexivity|].
  assert (c' = c) by lia. subst c'.
  replace (taken_b d' []) with false by (destruct d'; reflexivity).
  simpl search. rewrite Z.ltb_irrefl. apply IH. assumption.
Qed.

(* one source whose nearest candidate is a real destination: the search keeps that first candidate
   (a later candidate never costs strictly less; ties keep the first found) *)
Theorem solve_single_first (s : nat) (d : nat) (c : Z) (cs : list cand) (n : nat) :
  (1 <= n)%nat -> sorted ((Some d, c) :: cs) ->
  solve_group n [(s, (Some d, c) :: cs)] = Ok [(s, (Some d, c))].
Proof.
  intros Hn Hs. inversion Hs as [|? ? HF Hs']; subst. simpl in HF.
  unfold solve_group. simpl length.
  destruct (Nat.ltb_spec n 1); [lia|].
  cbv zeta. change (sort_items [(s, (Some d, c) :: cs)]) with [(s, (Some d, c) :: cs)].
  change (map snd [(s, (Some d, c) :: cs)]) with [(Some d, c) :: cs].
  change (map fst [(s, (Some d, c) :: cs)]) with [s].
  unfold solve. rewrite search_cons, loop_cons.
  rewrite Z.add_0_l.
  change (exceeds c None) with false. change (taken_b (Some d) []) with false.
  cbv iota.
  change (search [] (add_taken (Some d) []) c [(Some d, c)] None) with (Some (c, [(Some d, c)])).
  rewrite loop_single_keep by assumption. reflexivity.
Qed.

Print Assumptions search_scale.
Print Assumptions solve_group_scale.
Print Assumptions solve_single_first.
