(* C09, route T for the head of locate, second part (nothing in Proofs/LocateheadGen.v is changed):

     gen_locate_is_model_numba   the generated whole locate with engine='numba' (or 'auto' with numba) on a 2-D / 3-D
                                 integer image agrees with Model/LocatePipe2.locate_py with l_numba = true: the kernels
                                 of the generated refine_com_arr return the rows of the reference engine when no
                                 evaluated window is dark (Proofs/COMEngines.generated_refine_com_engines_agree, C07 (23)),
                                 and raise ZeroDivisionError exactly when the kernel model does ([numba_rows_fail])
     gen_locate_is_model_engines both engines in one statement
     gen_refine_com_axes / gen_head_axes / gen_head_tail_axes_partial
                                 theorems (11), (12) and, partially (generated head ; tail model), (14) of Properties/C09.v
                                 for the generated code; locate_args_permuted: the validation on permuted arguments *)
From Coq Require Import ZArith QArith Qround Qabs List Bool Arith String Lia Permutation.
From TP Require Import Model.Dilation Model.COM Model.LocateTail Model.LocatePipe Model.StaticError Model.PyTail
                       Model.PyLocatehead Model.LocatePipe2 Gen.locatehead Proofs.LocateheadGen.
From TP Require Model.PyPreproc Model.PyKernel Model.PyRefine Model.COMRefine Model.COMGen Model.PyFind
                Gen.find Gen.refine Gen.preproc Gen.tail Gen.com_kernels
                Proofs.Dilation Proofs.FindGen Proofs.COM Proofs.COMRefine Proofs.COMEngines Proofs.TailGen Proofs.LocatePipe.
Import ListNotations.
Open Scope Z_scope.

(* ------------------------------------------------------------------ the kernels' outer loop when a feature is dark *)
Lemma feats_fail : forall (run : list Z -> kres output) start cells n i r,
  (exists j, (j < n)%nat /\ run (start (i + Z.of_nat j)) = KDivZero) ->
  COMGen.feats (COMGen.feat_step run start cells) n i r = PyKernel.DivZero.
Proof.
  induction n; intros i r [j [Hj Hr]]; [lia|]. cbn [COMGen.feats]. unfold COMGen.feat_step at 1.
  destruct (run (start i)) as [out|] eqn:E; [|reflexivity].
  apply IHn. destruct j as [|j].
  - rewrite Z.add_0_r in Hr. congruence.
  - exists j. split; [lia|]. replace (i + 1 + Z.of_nat j) with (i + Z.of_nat (S j)) by lia. exact Hr.
Qed.

(* engine='numba': one dark feature and the whole call raises ZeroDivisionError *)
Lemma numba_rows_fail : forall run start cells k (starts : list (list Z)) dflt,
  (forall j, (j < List.length starts)%nat -> start (Z.of_nat j) = nth j starts dflt) ->
  (exists s, In s starts /\ run s = KDivZero) ->
  COMRefine.numba_rows run start cells (Z.of_nat (List.length starts)) k = PyRefine.Raise PyRefine.ZeroDivisionError.
Proof.
  intros run start cells k starts dflt Hs [s [Hin Hr]]. unfold COMRefine.numba_rows. rewrite Nat2Z.id.
  rewrite feats_fail; [reflexivity|].
  destruct (In_nth _ _ dflt Hin) as [j [Hj E]]. exists j. split; [exact Hj|].
  rewrite Z.add_0_l, (Hs j Hj), E. exact Hr.
Qed.

Lemma div2_ge1 : forall d, 3 <= d -> 1 <= d / 2.
Proof. intros d H. apply Z.div_le_lower_bound; lia. Qed.

Lemma radius_ge1 : forall diameter, Forall (fun d => 3 <= d) diameter -> Forall (fun r => 1 <= r) (radius_of diameter).
Proof.
  intros diameter H. unfold radius_of. apply Forall_forall. intros r Hr. apply in_map_iff in Hr.
  destruct Hr as [d [<- Hd]]. apply div2_ge1. rewrite Forall_forall in H. now apply H.
Qed.

(* refine_com_arr as generated, engine='numba', a start whose walk meets a dark window *)
Lemma gen_refine_com_arr_numba_fails :
  forall NA (raw image : PyRefine.zarr) radius coords mi engine thresh ch,
  COMRefine.mat_wf coords -> PyRefine.a_ndim raw = PyRefine.m_ncols coords -> PyRefine.a_shape raw = PyRefine.a_shape image ->
  Z.of_nat (List.length radius) = PyRefine.a_ndim image -> (PyRefine.a_ndim image = 2 \/ PyRefine.a_ndim image = 3) ->
  (engine = "numba"%string \/ (engine = "auto"%string /\ NA = true)) ->
  (0 <= thresh)%Q -> Forall (fun r => 1 <= r) radius ->
  (forall start, In start (PyRefine.m_rows (PyRefine.mat_round_int coords)) ->
     window_inside radius (PyRefine.a_shape image) start) ->
  (exists start, In start (PyRefine.m_rows (PyRefine.mat_round_int coords)) /\
     ref_nonzero (PyRefine.a_at image) radius (PyRefine.a_shape image) thresh (binary_mask radius) (pred (iters_of mi)) start = false) ->
  Gen.refine.py_refine_com_arr NA raw image (PyRefine.RTuple radius) coords mi engine thresh ch false =
  PyRefine.Raise PyRefine.ZeroDivisionError.
Proof.
  intros NA raw image radius coords mi enb thresh ch W Hc Hsh Hr Hd Henb Ht F Hw [s0 [Hin0 Hz]].
  assert (Hi : PyRefine.a_ndim image = PyRefine.a_ndim raw) by (unfold PyRefine.a_ndim; now rewrite Hsh).
  assert (Ls : List.length (PyRefine.a_shape image) = List.length radius) by (unfold PyRefine.a_ndim in Hr; lia).
  assert (L2 : (2 <= List.length radius)%nat) by (unfold PyRefine.a_ndim in *; lia).
  assert (Fl : Forall (fun c => List.length c = List.length radius) (PyRefine.m_rows (PyRefine.mat_round_int coords))).
  { apply Proofs.COMRefine.rounded_rows_length; [exact W|]. rewrite <- Hc, <- Hi, Hr. reflexivity. }
  assert (Nr : PyRefine.m_nrows coords = Z.of_nat (List.length (PyRefine.m_rows (PyRefine.mat_round_int coords))))
    by (now rewrite <- Proofs.COMRefine.round_nrows).
  destruct Hd as [H2|H3].
  - assert (Lr : List.length radius = 2%nat) by lia.
    destruct radius as [|rY [|rX [|e radius]]]; try discriminate.
    assert (Lsh : List.length (PyRefine.a_shape image) = 2%nat) by (rewrite Ls; reflexivity).
    pose proof (Proofs.COMRefine.gen_refine_com_arr_numba_2D NA raw image rY rX coords mi enb thresh ch Hc H2 Henb) as G.
    cbv zeta in G. rewrite G. clear G.
    change [PyRefine.zget (PyRefine.a_shape image) 0; PyRefine.zget (PyRefine.a_shape image) 1]
      with [ix (PyRefine.a_shape image) 0; ix (PyRefine.a_shape image) 1].
    rewrite <- (Proofs.COMEngines.two_list (PyRefine.a_shape image) Lsh), Nr.
    assert (Ai : Proofs.COMEngines.agree_inside (PyRefine.a_shape image) (COMGen.img2 (PyRefine.as_nested2 image)) (PyRefine.a_at image))
      by now apply Proofs.COMEngines.img2_nested_agrees.
    assert (Ar : Proofs.COMEngines.agree_inside (PyRefine.a_shape image) (COMGen.img2 (PyRefine.as_nested2 raw)) (PyRefine.a_at raw)).
    { rewrite <- Hsh. apply Proofs.COMEngines.img2_nested_agrees. now rewrite Hsh. }
    assert (K : exists s, In s (PyRefine.m_rows (PyRefine.mat_round_int coords)) /\
                  refine_numba (COMGen.img2 (PyRefine.as_nested2 image)) (COMGen.img2 (PyRefine.as_nested2 raw)) [rY; rX]
                               (PyRefine.a_shape image) thresh mi ch s = KDivZero).
    { exists s0. split; [exact Hin0|].
      rewrite (Proofs.COMEngines.refine_numba_ext _ (PyRefine.a_at image) _ (PyRefine.a_at raw)); try assumption; [|now apply Hw].
      rewrite Proofs.COM.engines_agree by assumption. now rewrite Hz. }
    assert (St : forall j, (j < List.length (PyRefine.m_rows (PyRefine.mat_round_int coords)))%nat ->
                 (fun feat => [PyKernel.get2 (PyRefine.m_rows (PyRefine.mat_round_int coords)) feat 0;
                               PyKernel.get2 (PyRefine.m_rows (PyRefine.mat_round_int coords)) feat 1]) (Z.of_nat j)
                 = nth j (PyRefine.m_rows (PyRefine.mat_round_int coords)) []).
    { intros j Hj. now apply Proofs.COMEngines.start2_nth. }
    destruct ch; cbn [negb]; [destruct (rY =? rX)|]; apply numba_rows_fail with (dflt := []); assumption.
  - assert (Lr : List.length radius = 3%nat) by lia.
    destruct radius as [|rZ [|rY [|rX [|e radius]]]]; try discriminate.
    assert (Lsh : List.length (PyRefine.a_shape image) = 3%nat) by (rewrite Ls; reflexivity).
    pose proof (Proofs.COMRefine.gen_refine_com_arr_numba_3D NA raw image rZ rY rX coords mi enb thresh ch Hc H3 Henb) as G.
    cbv zeta in G. rewrite G. clear G.
    change [PyRefine.zget (PyRefine.a_shape image) 0; PyRefine.zget (PyRefine.a_shape image) 1; PyRefine.zget (PyRefine.a_shape image) 2]
      with [ix (PyRefine.a_shape image) 0; ix (PyRefine.a_shape image) 1; ix (PyRefine.a_shape image) 2].
    rewrite <- (Proofs.COMEngines.three_list (PyRefine.a_shape image) Lsh), Nr.
    assert (Ai : Proofs.COMEngines.agree_inside (PyRefine.a_shape image) (COMGen.img3 (PyRefine.as_nested3 image)) (PyRefine.a_at image))
      by now apply Proofs.COMEngines.img3_nested_agrees.
    assert (Ar : Proofs.COMEngines.agree_inside (PyRefine.a_shape image) (COMGen.img3 (PyRefine.as_nested3 raw)) (PyRefine.a_at raw)).
    { rewrite <- Hsh. apply Proofs.COMEngines.img3_nested_agrees. now rewrite Hsh. }
    assert (K : exists s, In s (PyRefine.m_rows (PyRefine.mat_round_int coords)) /\
                  refine_numba (COMGen.img3 (PyRefine.as_nested3 image)) (COMGen.img3 (PyRefine.as_nested3 raw)) [rZ; rY; rX]
                               (PyRefine.a_shape image) thresh mi ch s = KDivZero).
    { exists s0. split; [exact Hin0|].
      rewrite (Proofs.COMEngines.refine_numba_ext _ (PyRefine.a_at image) _ (PyRefine.a_at raw)); try assumption; [|now apply Hw].
      rewrite Proofs.COM.engines_agree by assumption. now rewrite Hz. }
    assert (St : forall j, (j < List.length (PyRefine.m_rows (PyRefine.mat_round_int coords)))%nat ->
                 (fun feat => [PyKernel.get2 (PyRefine.m_rows (PyRefine.mat_round_int coords)) feat 0;
                               PyKernel.get2 (PyRefine.m_rows (PyRefine.mat_round_int coords)) feat 1;
                               PyKernel.get2 (PyRefine.m_rows (PyRefine.mat_round_int coords)) feat 2]) (Z.of_nat j)
                 = nth j (PyRefine.m_rows (PyRefine.mat_round_int coords)) []).
    { intros j Hj. now apply Proofs.COMEngines.start3_nth. }
    apply numba_rows_fail with (dflt := []); assumption.
Qed.

(* ------------------------------------------------------------------ refine_com, engine='numba', as locate calls it *)
Definition numba_engine (NA : bool) (engine : string) : Prop :=
  engine = "numba"%string \/ (engine = "auto"%string /\ NA = true).

(* no window the walk from [s] evaluates is dark *)
Definition walk_bright (imc : image) (radius : list Z) (maxit : Z) (s : list Z) : bool :=
  ref_nonzero (pix imc) radius (shape imc) LocatePipe.shift_thresh (binary_mask radius) (pred (iters_of maxit)) s.

Lemma np_rows_wf : forall (imc : image) coords n,
  Forall (fun p => List.length p = n) coords -> List.length (shape imc) = n ->
  COMRefine.mat_wf (np_rows_as_array imc coords).
Proof.
  intros imc coords n Hc L. unfold COMRefine.mat_wf, np_rows_as_array. cbn [PyRefine.m_rows PyRefine.m_ncols].
  apply Forall_forall. intros r Hr. apply in_map_iff in Hr. destruct Hr as [p [<- Hp]]. rewrite map_length.
  rewrite Forall_forall in Hc. rewrite (Hc p Hp), L. reflexivity.
Qed.

Lemma refine_com_frame_numba : forall NA (im imc : image) radius coords maxit engine ch,
  shape imc = shape im -> List.length radius = List.length (shape im) ->
  (List.length (shape im) = 2 \/ List.length (shape im) = 3)%nat ->
  Forall (fun r => 1 <= r) radius ->
  Forall (fun p => List.length p = List.length (shape im) /\ window_inside radius (shape imc) p) coords ->
  numba_engine NA engine ->
  of_refine (Gen.refine.py_refine_com NA (zarr_of im) (zarr_of imc) (PyRefine.RTuple radius)
               (PyRefine.CArray (np_rows_as_array imc coords)) maxit engine
               Gen.refine.py_refine_com_default_shift_thresh ch Gen.refine.py_refine_com_default_pos_columns) =
  if forallb (walk_bright imc radius maxit) coords
  then ROk (PyRefine.mkFrame
              (COMRefine.com_columns (PyRefine.default_pos_columns (Z.of_nat (List.length (shape imc))))
                                     (Z.of_nat (List.length (shape imc))) ch (isotropic radius))
              None
              (COMRefine.refine_rows (pix imc) (pix im) radius (shape imc) LocatePipe.shift_thresh maxit ch coords))
  else RRaise (EUnmodelled "ZeroDivisionError").
Proof.
  intros NA im imc radius coords maxit engine ch Hsh Lr Hd Fr Hc He.
  assert (Lc : List.length (shape imc) = List.length (shape im)) by now rewrite Hsh.
  assert (Nd : PyRefine.a_ndim (zarr_of imc) = Z.of_nat (List.length (shape imc))) by reflexivity.
  assert (Hv : PyRefine.validate_tuple (PyRefine.RTuple radius) (PyRefine.a_ndim (zarr_of imc)) = PyRefine.Ret radius).
  { cbn [PyRefine.validate_tuple]. rewrite Nd, Lr, Lc, Z.eqb_refl. reflexivity. }
  assert (Hlen : Forall (fun p => List.length p = List.length (shape im)) coords)
    by (eapply Forall_impl; [|exact Hc]; cbv beta; tauto).
  assert (W : COMRefine.mat_wf (np_rows_as_array imc coords)) by (eapply np_rows_wf; eauto).
  assert (Hnc : PyRefine.a_ndim (zarr_of im) = PyRefine.m_ncols (np_rows_as_array imc coords)).
  { unfold np_rows_as_array. cbn [PyRefine.m_ncols]. unfold PyRefine.a_ndim. cbn [zarr_of PyRefine.a_shape]. now rewrite Lc. }
  assert (Hshape : PyRefine.a_shape (zarr_of im) = PyRefine.a_shape (zarr_of imc)) by (cbn [zarr_of PyRefine.a_shape]; now rewrite Hsh).
  assert (Hd' : PyRefine.a_ndim (zarr_of imc) = 2 \/ PyRefine.a_ndim (zarr_of imc) = 3) by (rewrite Nd, Lc; lia).
  assert (Rr : PyRefine.m_rows (PyRefine.mat_round_int (np_rows_as_array imc coords)) = coords)
    by (unfold np_rows_as_array; apply round_rows).
  destruct (forallb (walk_bright imc radius maxit) coords) eqn:Enz.
  - (* every walk is bright: the frame of the python engine (C07 (23)) *)
    assert (Hst : forall start, In start (PyRefine.m_rows (PyRefine.mat_round_int (np_rows_as_array imc coords))) ->
                  window_inside radius (PyRefine.a_shape (zarr_of imc)) start /\
                  ref_nonzero (PyRefine.a_at (zarr_of imc)) radius (PyRefine.a_shape (zarr_of imc))
                              Gen.refine.py_refine_com_default_shift_thresh (binary_mask radius) (pred (iters_of maxit)) start = true).
    { rewrite Rr. intros start Hin. rewrite Forall_forall in Hc. split; [exact (proj2 (Hc start Hin))|].
      rewrite forallb_forall in Enz. exact (Enz start Hin). }
    destruct (Proofs.COMEngines.generated_refine_com_engines_agree NA NA (zarr_of im) (zarr_of imc) (PyRefine.RTuple radius) radius
                (PyRefine.CArray (np_rows_as_array imc coords)) (np_rows_as_array imc coords) maxit "python"%string engine
                Gen.refine.py_refine_com_default_shift_thresh ch Gen.refine.py_refine_com_default_pos_columns
                Hv eq_refl W Hnc Hshape Hd' (or_introl eq_refl) He Proofs.LocatePipe.shift_thresh_nonneg Fr Hst) as [frame [Hp [Hn _]]].
    pose proof (refine_com_frame NA im imc radius coords maxit "python"%string ch Lc Lr Hlen (or_introl eq_refl)) as P.
    rewrite Hp in P. cbn [of_refine] in P. rewrite Hn. cbn [of_refine]. exact P.
  - (* a dark window: ZeroDivisionError *)
    rewrite (Proofs.COMRefine.gen_refine_com_array NA (zarr_of im) (zarr_of imc) (PyRefine.RTuple radius) radius
               (np_rows_as_array imc coords) maxit engine Gen.refine.py_refine_com_default_shift_thresh ch
               Gen.refine.py_refine_com_default_pos_columns Hv).
    assert (Hex : exists s, In s coords /\ walk_bright imc radius maxit s = false).
    { clear -Enz. induction coords as [|c coords IH]; [discriminate|]. cbn [forallb] in Enz.
      destruct (walk_bright imc radius maxit c) eqn:E.
      - destruct (IH Enz) as [s [Hs Hz]]. exists s. split; [now right|exact Hz].
      - exists c. split; [now left|exact E]. }
    rewrite gen_refine_com_arr_numba_fails; try assumption.
    + unfold Proofs.COMRefine.frame_of.
      destruct (PyRefine.m_nrows (np_rows_as_array imc coords) =? 0) eqn:E0; [|reflexivity].
      apply Z.eqb_eq in E0. unfold PyRefine.m_nrows, np_rows_as_array in E0. cbn [PyRefine.m_rows] in E0.
      rewrite map_length in E0. destruct Hex as [s [Hs _]]. destruct coords; [destruct Hs|cbn [List.length] in E0; lia].
    + rewrite Nd, Lr, Lc. reflexivity.
    + apply Proofs.LocatePipe.shift_thresh_nonneg.
    + rewrite Rr. intros start Hin. rewrite Forall_forall in Hc. exact (proj2 (Hc start Hin)).
    + rewrite Rr. exact Hex.
Qed.

(* the model's side: with l_numba = true the features are those of the reference engine, or the division by zero *)
Lemma refine_one_numba : forall L imc im coords,
  l_numba L = true -> (2 <= List.length (l_radius L))%nat -> Forall (fun r => 1 <= r) (l_radius L) ->
  all_some (map (refine_one L imc im) coords) =
  if forallb (walk_bright imc (l_radius L) (l_maxit L)) coords
  then Some (map (refine_python (pix imc) (pix im) (l_radius L) (shape imc) shift_thresh (l_maxit L) (l_char L)) coords)
  else None.
Proof.
  intros L imc im coords Hn L2 F. induction coords as [|c coords IH]; [reflexivity|].
  cbn [map all_some forallb]. unfold refine_one at 1. rewrite Hn.
  rewrite Proofs.COM.engines_agree by (try assumption; apply Proofs.LocatePipe.shift_thresh_nonneg).
  unfold walk_bright at 1. destruct (ref_nonzero _ _ _ _ _ _ c); cbn [andb]; [|reflexivity].
  rewrite IH. destruct (forallb _ coords); reflexivity.
Qed.

Lemma largs_lengths : forall nd diameter maxsize separation smoothing_size noise_size V,
  locate_args nd diameter maxsize separation smoothing_size noise_size = ROk V ->
  List.length (a_diameter V) = nd /\ List.length (a_sep V) = nd /\ List.length (a_smooth V) = nd.
Proof.
  intros nd diameter maxsize separation smoothing_size noise_size V H.
  destruct (locate_args_ok _ _ _ _ _ _ _ H) as [Ld [_ [_ [S0 [M0 [M1 [S1 _]]]]]]].
  split; [exact Ld|]. split.
  - destruct separation as [s|]; [exact (S1 s eq_refl)|]. rewrite (S0 eq_refl), map_length. exact Ld.
  - destruct smoothing_size as [s|]; [exact (M1 s eq_refl)|]. rewrite (M0 eq_refl). exact Ld.
Qed.

(* ------------------------------------------------------------------ the whole generated locate, engine='numba' *)
Section WholeNumba.
  Context {A : Type}.
  Variable F : float_ops A.
  Variable npp : list Z -> Q -> Q.
  Variable nexp : Q -> Q.
  Variable NA : bool.
  Variable sqrtf : Q -> Q.

  Theorem gen_locate_is_model_numba : forall fno dt im0 diameter minmass maxsize separation noise_size smoothing_size threshold
                                             percentile topn maxit fa ch engine,
    let im := squeeze_image im0 in
    dtype_ok dt im -> (List.length (shape im) = 2 \/ List.length (shape im) = 3)%nat -> numba_engine NA engine ->
    (forall V, locate_args (List.length (shape im)) diameter maxsize separation smoothing_size noise_size = ROk V ->
               Forall (fun s => (0 <= s)%Q) (a_sep V) /\ Forall (fun d => 3 <= d) (a_diameter V)) ->
    locate_agrees
      (py_locate F npp nexp NA sqrtf fno (ImZ dt im0) diameter minmass maxsize separation noise_size smoothing_size threshold
                 false percentile topn false maxit None fa ch engine)
      (locate_py (fun l => npp l percentile) sqrtf true im0 diameter minmass maxsize separation noise_size smoothing_size
                 topn maxit ch).
  Proof.
    intros fno dt im0 diameter minmass maxsize separation noise_size smoothing_size threshold percentile topn maxit fa ch engine
           im Hdt Hdim Heng Hprem.
    assert (Hne : shape im <> []) by (intro E; rewrite E in Hdim; cbn in Hdim; lia).
    unfold py_locate, locate_py. rewrite head_int. fold im.
    destruct (locate_args (List.length (shape im)) diameter maxsize separation smoothing_size noise_size) as [V|e] eqn:EV;
      cbn [rbind locate_agrees]; [|reflexivity].
    destruct (locate_args_ok _ _ _ _ _ _ _ EV) as [Ld [Ha _]]. destruct (largs_lengths _ _ _ _ _ _ _ EV) as [_ [Lsep Lsm]].
    destruct (Hprem V eq_refl) as [Hsep Hdia].
    set (L := lparams_of V maxit ch true minmass maxsize topn).
    unfold head_result. set (imc := clipped dt im). set (radius := radius_of (a_diameter V)).
    assert (Lr : List.length radius = List.length (shape im)) by (unfold radius, radius_of; now rewrite map_length).
    assert (Hsh : shape imc = shape im) by (unfold imc; apply clipped_shape).
    assert (Lc : List.length (shape imc) = List.length (shape im)) by now rewrite Hsh.
    assert (Fr : Forall (fun r => 1 <= r) radius) by (apply radius_ge1; exact Hdia).
    assert (L2 : (2 <= List.length radius)%nat) by lia.
    rewrite Proofs.FindGen.gen_grey_dilation_eq by exact Hsep.
    change (grey_dilation (fun l => npp l percentile) false imc (a_sep V) (Some (margin_of V)) false)
      with (maxima (fun l => npp l percentile) L imc).
    set (coords := maxima (fun l => npp l percentile) L imc).
    assert (Hcw : Forall (fun p => List.length p = List.length (shape im) /\ window_inside radius (shape imc) p) coords).
    { apply Forall_forall. intros p Hp.
      destruct (Proofs.LocatePipe.maxima_start_window (fun l => npp l percentile) L imc p) as [Lp Wp]; try exact Hp.
      - change (l_radius L) with radius. now rewrite Lr, Lc.
      - change (l_sep L) with (a_sep V). now rewrite Lsep, Lc.
      - change (l_smooth L) with (map inject_Z (a_smooth V)). now rewrite map_length, Lsm, Lc.
      - change (l_radius L) with radius in Lp, Wp. split; [now rewrite Lp, Lr|exact Wp]. }
    rewrite (refine_com_frame_numba NA im imc radius coords maxit engine ch Hsh Lr Hdim Fr Hcw Heng).
    pose proof (refine_one_numba L imc im coords eq_refl L2 Fr) as Hall.
    change (l_radius L) with radius in Hall. change (l_maxit L) with maxit in Hall. change (l_char L) with ch in Hall.
    assert (Ec : imc = clip0 im) by (apply clipped_is_clip0; exact Hdt).
    destruct (forallb (walk_bright imc radius maxit) coords) eqn:Enz.
    2:{ (* a dark window: the generated locate raises, the model answers None *)
        cbn [rbind]. unfold locate. rewrite <- Ec. unfold locate_on.
        change (l_radius L) with radius. change (l_maxsize L) with maxsize. fold radius in Ha. rewrite Ha.
        fold coords. rewrite Hall. exact I. }
    cbn [rbind img_as_int]. unfold dframe_of_frame. cbn [PyRefine.of_columns PyRefine.of_rows].
    set (nd := Z.of_nat (List.length (shape imc))).
    destruct (has_labels_com nd ch (isotropic radius)) as [H1 [H2 H3]]. rewrite H1, H2, H3.
    assert (Hnd : (1 <= nd)%Z).
    { unfold nd. rewrite Lc. destruct (shape im); [congruence|cbn [List.length]; lia]. }
    set (outs := map (refine_python (pix imc) (pix im) radius (shape imc) shift_thresh maxit ch) coords).
    assert (Hrows : map (row_of_cells sqrtf (COMRefine.com_columns (PyRefine.default_pos_columns nd) nd ch (isotropic radius)))
                        (COMRefine.refine_rows (pix imc) (pix im) radius (shape imc) shift_thresh maxit ch coords)
                    = map (LocatePipe.row_of sqrtf) outs).
    { unfold COMRefine.refine_rows, outs. rewrite !map_map. apply map_ext. intros start.
      destruct (refine_python_form (pix imc) (pix im) radius (shape imc) shift_thresh maxit ch start) as [Lp Hc].
      apply row_of_cells_eq; [exact Hnd| |].
      - rewrite Lp, Lr. unfold nd. rewrite Lc. now rewrite Nat2Z.id.
      - destruct (o_char _) as [[[rg2 sg] rw]|]; [|exact Hc]. destruct Hc as [-> Hl]. split; [reflexivity|].
        rewrite Hl. destruct (isotropic radius); [reflexivity|]. rewrite Lr. unfold nd. rewrite Lc. now rewrite Nat2Z.id. }
    rewrite Hrows.
    unfold locate. rewrite <- Ec.
    pose proof (Proofs.TailGen.locate_on_gen_eq (fun l => npp l percentile) sqrtf (PyRefine.default_pos_columns nd) fno L imc im) as G.
    unfold Proofs.TailGen.locate_on_gen in G.
    change (l_radius L) with radius in G. change (l_maxsize L) with maxsize in G. fold radius in Ha. rewrite Ha in G.
    fold coords in G. rewrite Hall in G. fold outs in G.
    change (l_char L) with ch in G. change (l_sep L) with (a_sep V) in G. change (l_topn L) with topn in G.
    change (l_noise_size L) with (a_noise V) in G.
    change (l_minmass L) with (match minmass with Some m => m | None => 0%Q end) in G.
    rewrite Lr in G.
    destruct (Gen.tail.py_locate_tail sqrtf _ _ _ _ _ _ _ _ _ _ _ _ _ _) as [d|e];
      destruct (locate_on (fun l => npp l percentile) sqrtf L imc im) as [t|]; cbn in G |- *; try exact G; try exact I; try contradiction.
  Qed.

  (* which engine refine_com_arr takes: numba = false is py_engine, numba = true the kernels *)
  Definition engine_is (nd : nat) (engine : string) (numba : bool) : Prop :=
    if numba then numba_engine NA engine /\ (nd = 2 \/ nd = 3)%nat else py_engine NA nd engine.

  (* every engine the source accepts ('python', 'numba', 'auto') falls under engine_is, 'numba' on other than
     2 or 3 axes excepted (NotImplementedError in refine_com_arr) *)
  Lemma engine_is_total : forall nd engine,
    engine = "python"%string \/ engine = "auto"%string \/ (engine = "numba"%string /\ (nd = 2 \/ nd = 3)%nat) ->
    exists numba, engine_is nd engine numba.
  Proof.
    intros nd engine [->|[->|[-> H]]].
    - exists false. left. reflexivity.
    - destruct (NA && ((Z.of_nat nd =? 2) || (Z.of_nat nd =? 3))) eqn:E.
      + exists true. apply andb_true_iff in E. destruct E as [E1 E2]. split; [right; split; [reflexivity|exact E1]|].
        apply orb_true_iff in E2. destruct E2 as [E2|E2]; apply Z.eqb_eq in E2; lia.
      + exists false. right. split; [reflexivity|exact E].
    - exists true. split; [left; reflexivity|exact H].
  Qed.

  Theorem gen_locate_is_model_engines : forall fno dt im0 diameter minmass maxsize separation noise_size smoothing_size threshold
                                               percentile topn maxit fa ch engine numba,
    let im := squeeze_image im0 in
    shape im <> [] -> dtype_ok dt im -> engine_is (List.length (shape im)) engine numba ->
    (forall V, locate_args (List.length (shape im)) diameter maxsize separation smoothing_size noise_size = ROk V ->
               Forall (fun s => (0 <= s)%Q) (a_sep V) /\ (numba = true -> Forall (fun d => 3 <= d) (a_diameter V))) ->
    locate_agrees
      (py_locate F npp nexp NA sqrtf fno (ImZ dt im0) diameter minmass maxsize separation noise_size smoothing_size threshold
                 false percentile topn false maxit None fa ch engine)
      (locate_py (fun l => npp l percentile) sqrtf numba im0 diameter minmass maxsize separation noise_size smoothing_size
                 topn maxit ch).
  Proof.
    intros fno dt im0 diameter minmass maxsize separation noise_size smoothing_size threshold percentile topn maxit fa ch engine numba
           im Hne Hdt Heng Hprem. destruct numba.
    - destruct Heng as [He Hd]. apply gen_locate_is_model_numba; try assumption.
      intros V HV. destruct (Hprem V HV) as [P1 P2]. split; [exact P1|exact (P2 eq_refl)].
    - apply gen_locate_is_model; try assumption. intros V HV. exact (proj1 (Hprem V HV)).
  Qed.
End WholeNumba.

(* ==================================================================================================
   ANY AXIS ORDER for the generated refine_com, the generated head and (partially) the generated whole locate:
   theorems (11), (12) of Properties/C09.v restated for the generated code (python engine). *)
From TP Require Import Model.Equivariance.
From TP Require Import Proofs.Equivariance3.
From TP Require Proofs.Equivariance Proofs.Equivariance2.

Lemma permute_map : forall (X Y : Type) (f : X -> Y) (def : X) axes v,
  permute (f def) axes (map f v) = map f (permute def axes v).
Proof. intros. unfold permute. rewrite map_map. apply map_ext. intros a. apply map_nth. Qed.

Lemma radius_of_permute : forall axes d, radius_of (zperm axes d) = zperm axes (radius_of d).
Proof. intros. unfold radius_of. symmetry. exact (permute_map Z Z (fun x => x / 2) 0 axes d). Qed.

Lemma inject_permute : forall axes (m : list Z), map inject_Z (zperm axes m) = qperm axes (map inject_Z m).
Proof. intros. symmetry. exact (permute_map Z Q inject_Z 0 axes m). Qed.

Lemma nth_margins : forall r s m k, List.length s = List.length r -> List.length m = List.length r -> (k < List.length r)%nat ->
  nth k (margins r s m) 0 = Z.max (Z.max (nth k r 0) (Qfloor (nth k s 0%Q / 2) - 1)) (Qfloor (nth k m 0%Q / 2)).
Proof.
  induction r as [|x r IH]; intros [|y s] [|z m] k Ls Lm Hk; cbn [List.length] in *; try lia.
  destruct k as [|k]; cbn [margins nth]; [reflexivity|]. apply IH; lia.
Qed.

Lemma margins_permute : forall axes r s m,
  List.length s = List.length r -> List.length m = List.length r -> Forall (fun a => (a < List.length r)%nat) axes ->
  margins (zperm axes r) (qperm axes s) (qperm axes m) = zperm axes (margins r s m).
Proof.
  induction axes as [|a axes IH]; intros r s m Ls Lm Ha; [reflexivity|].
  inversion Ha; subst. unfold permute. cbn [map margins]. rewrite nth_margins by assumption.
  f_equal. apply IH; assumption.
Qed.

Lemma axes_in_range : forall n axes, Permutation axes (seq 0 n) -> Forall (fun a => (a < n)%nat) axes.
Proof.
  intros n axes H. apply Forall_forall. intros a Ha. apply (Permutation_in _ H) in Ha. apply in_seq in Ha. lia.
Qed.

(* the validated tuples of the second call are those of the first in the order axes *)
Definition largs_permuted (axes : list nat) (V V2 : largs) : Prop :=
  a_diameter V2 = zperm axes (a_diameter V) /\ a_sep V2 = qperm axes (a_sep V) /\ a_smooth V2 = zperm axes (a_smooth V).

Lemma lp_of_permuted : forall axes V V2 maxit ch n,
  largs_permuted axes V V2 -> Permutation axes (seq 0 n) ->
  List.length (a_diameter V) = n -> List.length (a_sep V) = n -> List.length (a_smooth V) = n ->
  lp_of V2 maxit ch = lp_perm axes (lp_of V maxit ch).
Proof.
  intros axes V V2 maxit ch n [Hd [Hs Hm]] Hp Ld Ls Lm. unfold lp_of, lp_perm, margin_of.
  cbn [lp_sep lp_margin lp_radius lp_thresh lp_maxit lp_char]. rewrite Hd, Hs, Hm, radius_of_permute, inject_permute.
  rewrite margins_permute; [reflexivity| | |].
  - unfold radius_of. rewrite map_length. lia.
  - unfold radius_of. rewrite !map_length. lia.
  - unfold radius_of. rewrite map_length, Ld. now apply axes_in_range.
Qed.

(* what a scalar / tuple argument becomes when the axes are taken in the order axes *)
Definition pyarg_perm {T} (def : T) (axes : list nat) (v : PyPreproc.pyarg T) : PyPreproc.pyarg T :=
  match v with PyPreproc.PyScalar x => PyPreproc.PyScalar x | PyPreproc.PySeq l => PyPreproc.PySeq (permute def axes l) end.

Lemma permute_length : forall (X : Type) (def : X) axes v, List.length (permute def axes v) = List.length axes.
Proof. intros. unfold permute. apply map_length. Qed.

Lemma nth_repeat_in : forall (X : Type) (def x : X) n a, (a < n)%nat -> nth a (repeat x n) def = x.
Proof. intros X def x. induction n; intros a H; [lia|]. destruct a; cbn [repeat nth]; [reflexivity|apply IHn; lia]. Qed.

Lemma permute_repeat : forall (X : Type) (def x : X) n axes, Forall (fun a => (a < n)%nat) axes ->
  permute def axes (repeat x n) = repeat x (List.length axes).
Proof.
  intros X def x n. induction axes as [|a axes IH]; intros H; [reflexivity|]. inversion H; subst.
  unfold permute. cbn [map List.length repeat]. f_equal; [|apply IH; assumption].
  apply nth_repeat_in. assumption.
Qed.

Lemma validate_perm : forall (T : Type) (def : T) axes n (v : PyPreproc.pyarg T) l,
  Permutation axes (seq 0 n) -> utils_validate_tuple v n = ROk l ->
  utils_validate_tuple (pyarg_perm def axes v) n = ROk (permute def axes l).
Proof.
  intros T def axes n [x|l0] l Hp H; cbn [utils_validate_tuple pyarg_perm] in *.
  - injection H as <-. rewrite permute_repeat by now apply axes_in_range.
    rewrite (Permutation_length Hp), seq_length. reflexivity.
  - destruct (Nat.eqb (List.length l0) n) eqn:E; [|discriminate]. injection H as <-.
    rewrite permute_length, (Permutation_length Hp), seq_length, Nat.eqb_refl. reflexivity.
Qed.

Lemma forallb_permute_in : forall (X : Type) (f : X -> bool) (def : X) axes v,
  Forall (fun a => (a < List.length v)%nat) axes -> forallb f v = true -> forallb f (permute def axes v) = true.
Proof.
  intros X f def axes v Ha H. rewrite forallb_forall in H. apply forallb_forall. intros x Hx.
  unfold permute in Hx. apply in_map_iff in Hx. destruct Hx as [a [<- Ia]]. rewrite Forall_forall in Ha.
  apply H. apply nth_In. now apply Ha.
Qed.

Lemma isotropic_permute_any : forall axes r, Permutation axes (seq 0 (List.length r)) -> isotropic (zperm axes r) = isotropic r.
Proof.
  intros axes r Hp.
  pose proof Proofs.Equivariance2.isotropic_iff as K.
  assert (Hin : forall x, In x (zperm axes r) <-> In x r).
  { intros x. unfold permute. rewrite in_map_iff. split.
    - intros [a [<- Ia]]. apply nth_In. apply (Permutation_in _ Hp) in Ia. apply in_seq in Ia. lia.
    - intros Hx. destruct (In_nth _ _ 0 Hx) as [k [Hk E]]. exists k. split; [exact E|].
      apply (Permutation_in _ (Permutation_sym Hp)). apply in_seq. lia. }
  destruct (isotropic r) eqn:E1; destruct (isotropic (zperm axes r)) eqn:E2; try reflexivity.
  - pose proof (proj1 (K r) E1) as G1.
    assert (E : isotropic (zperm axes r) = true) by (apply (proj2 (K _)); intros x y Hx Hy; apply G1; now apply Hin).
    congruence.
  - pose proof (proj1 (K _) E2) as G2.
    assert (E : isotropic r = true) by (apply (proj2 (K _)); intros x y Hx Hy; apply G2; now apply Hin). congruence.
Qed.

(* the validation of locate on arguments taken in the order axes succeeds exactly like the original one, with the
   validated tuples permuted: what the harness does when it locates np.transpose(image, axes) *)
Theorem locate_args_permuted : forall axes n diameter maxsize separation smoothing_size noise_size V,
  Permutation axes (seq 0 n) ->
  locate_args n diameter maxsize separation smoothing_size noise_size = ROk V ->
  exists V2, locate_args n (pyarg_perm 0 axes diameter) maxsize (option_map (pyarg_perm 0%Q axes) separation)
                         (option_map (pyarg_perm 0 axes) smoothing_size) (pyarg_perm 0%Q axes noise_size) = ROk V2 /\
             largs_permuted axes V V2 /\ a_noise V2 = qperm axes (a_noise V).
Proof.
  intros axes n diameter maxsize separation smoothing_size noise_size V Hp H.
  pose proof (axes_in_range n axes Hp) as Hr.
  unfold locate_args in *.
  destruct (utils_validate_tuple diameter n) as [d|e] eqn:Ed; cbn [rbind] in H; [|discriminate].
  rewrite (validate_perm Z 0 axes n diameter d Hp Ed). cbn [rbind].
  assert (Ld : List.length d = n) by (eapply validate_length; eauto).
  destruct (forallb Z.odd d) eqn:Eo; cbn [negb] in H; [|discriminate].
  rewrite (forallb_permute_in Z Z.odd 0 axes d) by (try assumption; now rewrite Ld). cbn [negb].
  rewrite radius_of_permute, isotropic_permute_any by (unfold radius_of; now rewrite map_length, Ld).
  destruct (negb (isotropic (radius_of d)) && is_some maxsize); [discriminate|].
  destruct (match separation with None => ROk (map (fun x => inject_Z (x + 1)) d) | Some s => utils_validate_tuple s n end)
    as [sep|e] eqn:Es; cbn [rbind] in H; [|discriminate].
  assert (Es2 : match option_map (pyarg_perm 0%Q axes) separation with
                | None => ROk (map (fun x => inject_Z (x + 1)) (zperm axes d))
                | Some s => utils_validate_tuple s n end = ROk (qperm axes sep)).
  { destruct separation as [s|]; cbn [option_map].
    - now apply validate_perm.
    - injection Es as <-. f_equal. unfold permute. rewrite !map_map. apply map_ext_in. intros a Ia.
      rewrite Forall_forall in Hr. specialize (Hr a Ia).
      rewrite (nth_indep (map (fun x => inject_Z (x + 1)) d) 0%Q ((fun x => inject_Z (x + 1)) 0)) by (rewrite map_length; lia).
      exact (eq_sym (map_nth (fun x => inject_Z (x + 1)) d 0 a)). }
  rewrite Es2. cbn [rbind].
  destruct (match smoothing_size with None => ROk d | Some s => utils_validate_tuple s n end) as [sm|e] eqn:Em; cbn [rbind] in H; [|discriminate].
  assert (Em2 : match option_map (pyarg_perm 0 axes) smoothing_size with
                | None => ROk (zperm axes d)
                | Some s => utils_validate_tuple s n end = ROk (zperm axes sm)).
  { destruct smoothing_size as [s|]; cbn [option_map]; [now apply validate_perm|now injection Em as <-]. }
  rewrite Em2. cbn [rbind].
  destruct (utils_validate_tuple noise_size n) as [ns|e] eqn:En; cbn [rbind] in H; [|discriminate].
  rewrite (validate_perm Q 0%Q axes n noise_size ns Hp En). cbn [rbind].
  injection H as <-. eexists. split; [reflexivity|]. repeat split.
Qed.

(* (11) for the generated refine_com, called the way locate calls it (coords an integer array, radius a tuple,
   python engine): on np.transpose(image, axes), with the radius and every start taken in the order axes, it returns
   the frame whose rows are the permuted rows, in the same order *)
Theorem gen_refine_com_axes : forall NA axes (im1 im2 : image) radius coords maxit engine ch,
  Permutation axes (seq 0 (List.length (shape im1))) -> axes_permuted axes im1 im2 ->
  List.length radius = List.length (shape im1) ->
  Forall (fun p => List.length p = List.length (shape im1)) coords ->
  py_engine NA (List.length (shape im1)) engine ->
  exists f1 f2 outs1 outs2,
    of_refine (Gen.refine.py_refine_com NA (zarr_of im1) (zarr_of im1) (PyRefine.RTuple radius)
                 (PyRefine.CArray (np_rows_as_array im1 coords)) maxit engine
                 Gen.refine.py_refine_com_default_shift_thresh ch Gen.refine.py_refine_com_default_pos_columns) = ROk f1 /\
    of_refine (Gen.refine.py_refine_com NA (zarr_of im2) (zarr_of im2) (PyRefine.RTuple (zperm axes radius))
                 (PyRefine.CArray (np_rows_as_array im2 (map (zperm axes) coords))) maxit engine
                 Gen.refine.py_refine_com_default_shift_thresh ch Gen.refine.py_refine_com_default_pos_columns) = ROk f2 /\
    PyRefine.of_rows f1 = map COMRefine.ref_row outs1 /\ PyRefine.of_rows f2 = map COMRefine.ref_row outs2 /\
    Forall2 (row_permuted axes) outs1 outs2.
Proof.
  intros NA axes im1 im2 radius coords maxit engine ch Hp Hax Lr Hc He.
  set (n := List.length (shape im1)) in *.
  assert (La : List.length axes = n) by (rewrite (Permutation_length Hp); apply seq_length).
  assert (L2 : List.length (shape im2) = n) by (destruct Hax as [E _]; rewrite E; now rewrite permute_length).
  set (P := mkLP [] [] radius LocatePipe.shift_thresh maxit ch).
  eexists. eexists. exists (map (refine_at P im1) coords), (map (refine_at (lp_perm axes P) im2) (map (zperm axes) coords)).
  split; [apply (refine_com_frame NA im1 im1 radius coords maxit engine ch eq_refl Lr Hc He)|].
  split.
  - apply (refine_com_frame NA im2 im2 (zperm axes radius) (map (zperm axes) coords) maxit engine ch eq_refl).
    + now rewrite permute_length, L2.
    + apply Forall_forall. intros q Hq. apply in_map_iff in Hq. destruct Hq as [p [<- _]]. now rewrite permute_length, L2.
    + rewrite L2. exact He.
  - cbn [PyRefine.of_rows]. unfold COMRefine.refine_rows. rewrite !map_map.
    split; [reflexivity|]. split; [reflexivity|].
    clear Hc. induction coords as [|c coords IH]; cbn [map]; constructor; [|exact IH].
    apply (refine_at_axes axes P im1 im2 c Hp Hax). exact Lr.
Qed.

(* (12) for the GENERATED head: the image with its axes in the order axes, located with every per-axis argument in
   that order (largs_permuted: the validated tuples of the second call are those of the first, permuted --
   [locate_args_permuted] shows this is what permuting tuple arguments and keeping scalar ones gives): both runs of the
   generated head succeed, and the rows of the two frames refine_com returns are the rows (COMRefine.ref_row) of
   outputs that correspond one to one (as multisets: np.where order changes), every row permuted. *)
Section AxesHead.
  Context {A : Type}.
  Variable F : float_ops A.
  Variable npp : list Z -> Q -> Q.
  Variable nexp : Q -> Q.
  Variable NA : bool.

  Theorem gen_head_axes : forall percentile,
    (forall l l', Permutation l l' -> npp l percentile = npp l' percentile) ->
    forall axes dt raw1 raw2 diameter separation noise_size smoothing_size diameter2 separation2 noise_size2 smoothing_size2
           minmass maxsize threshold topn maxit fa ch engine V V2,
    let im1 := squeeze_image raw1 in
    let im2 := squeeze_image raw2 in
    let P := lp_of V maxit ch in
    locate_args (List.length (shape im1)) diameter maxsize separation smoothing_size noise_size = ROk V ->
    locate_args (List.length (shape im2)) diameter2 maxsize separation2 smoothing_size2 noise_size2 = ROk V2 ->
    largs_permuted axes V V2 ->
    Forall (fun s => (0 <= s)%Q) (a_sep V) ->
    py_engine NA (List.length (shape im1)) engine ->
    arr_nonneg (data im1) = true -> arr_nonneg (data im2) = true ->
    Permutation axes (seq 0 (List.length (shape im1))) -> axes_permuted axes im1 im2 ->
    Forall (fun s => 1 <= s) (Proofs.Dilation.sizes_of im1 (lp_sep P)) ->
    exists r1 r2 outs1 outs2 rows,
      py_locate_head F npp nexp NA (ImZ dt raw1) diameter minmass maxsize separation noise_size smoothing_size threshold
                     false percentile topn false maxit None fa ch engine = ROk r1 /\
      py_locate_head F npp nexp NA (ImZ dt raw2) diameter2 minmass maxsize separation2 noise_size2 smoothing_size2 threshold
                     false percentile topn false maxit None fa ch engine = ROk r2 /\
      PyRefine.of_rows (head_frame r1) = map COMRefine.ref_row outs1 /\
      PyRefine.of_rows (head_frame r2) = map COMRefine.ref_row outs2 /\
      outs1 = locate_discrete (fun l => npp l percentile) P im1 /\
      outs2 = locate_discrete (fun l => npp l percentile) (lp_perm axes P) im2 /\
      Permutation outs2 rows /\ Forall2 (row_permuted axes) outs1 rows.
  Proof.
    intros percentile Hperm axes dt raw1 raw2 diameter separation noise_size smoothing_size diameter2 separation2 noise_size2
           smoothing_size2 minmass maxsize threshold topn maxit fa ch engine V V2 im1 im2 P HV HV2 HP Hsep Heng N1 N2 Hp Hax Hsz.
    set (n := List.length (shape im1)) in *.
    assert (La : List.length axes = n) by (rewrite (Permutation_length Hp); apply seq_length).
    assert (L2 : List.length (shape im2) = n) by (destruct Hax as [E _]; rewrite E; now rewrite permute_length).
    destruct (largs_lengths _ _ _ _ _ _ _ HV) as [Ld [Ls Lm]].
    assert (EP : lp_of V2 maxit ch = lp_perm axes P) by (apply (lp_of_permuted axes V V2 maxit ch n); assumption).
    assert (Lr : List.length (lp_radius P) = n) by (cbn; unfold radius_of; now rewrite map_length).
    assert (Lmg : List.length (lp_margin P) = n).
    { cbn [lp_margin P lp_of]. unfold margin_of. rewrite Proofs.LocatePipe.margins_length.
      - unfold radius_of. rewrite map_length. exact Ld.
      - unfold radius_of. rewrite map_length. lia.
      - unfold radius_of. rewrite !map_length. lia. }
    destruct (locate_discrete_axes (fun l => npp l percentile) Hperm axes im1 im2 P Hp Hax Ls Lmg Lr Hsz) as [rows [Pr Fr]].
    assert (Hsep2 : Forall (fun s => (0 <= s)%Q) (a_sep V2)).
    { destruct HP as [_ [E _]]. rewrite E. apply Forall_forall. intros s Hs. unfold permute in Hs. apply in_map_iff in Hs.
      destruct Hs as [a [<- Ia]]. rewrite Forall_forall in Hsep. apply Hsep. apply nth_In.
      apply (Permutation_in _ Hp) in Ia. apply in_seq in Ia. lia. }
    pose proof (gen_head_discrete F npp nexp NA dt raw1 diameter minmass maxsize separation noise_size smoothing_size threshold
                  percentile topn maxit fa ch engine N1 Heng) as G1.
    pose proof (gen_head_discrete F npp nexp NA dt raw2 diameter2 minmass maxsize separation2 noise_size2 smoothing_size2 threshold
                  percentile topn maxit fa ch engine N2) as G2.
    fold im1 in G1. fold im2 in G2. fold n in G1. rewrite HV in G1. rewrite HV2 in G2. cbn [rbind] in G1, G2.
    rewrite EP in G2.
    eexists. eexists. exists (locate_discrete (fun l => npp l percentile) P im1),
                             (locate_discrete (fun l => npp l percentile) (lp_perm axes P) im2), rows.
    split; [apply G1; intros V' E; injection E as <-; exact Hsep|].
    split; [apply G2; [rewrite L2; exact Heng|intros V' E; injection E as <-; exact Hsep2]|].
    repeat split; assumption.
  Qed.
End AxesHead.

(* ------------------------------------------------------------------ non-vacuity *)
(* engine='numba' on the 14x15 canvas of the examples (one blob, never dark): every premise of gen_locate_is_model_engines
   with numba = true holds, and the generated locate (kernels executed) returns the table of the python engine *)
Definition ex_run_numba : res dframe :=
  py_locate fops2 (fun _ _ => 1 # 2) (fun _ => 0%Q) false (fun q => q) None ex_raw
            (PyPreproc.PyScalar 3) None None None (PyPreproc.PyScalar 1%Q) None None false 64%Q None false 3 None None true "numba"%string.

Lemma ex_numba_premises :
  shape (squeeze_image Proofs.Equivariance.ex_im1) <> [] /\
  dtype_ok (mkDT false 8) (squeeze_image Proofs.Equivariance.ex_im1) /\
  engine_is false (List.length (shape (squeeze_image Proofs.Equivariance.ex_im1))) "numba"%string true /\
  (forall V, locate_args (List.length (shape (squeeze_image Proofs.Equivariance.ex_im1))) (PyPreproc.PyScalar 3) None None None
                         (PyPreproc.PyScalar 1%Q) = ROk V ->
             Forall (fun s => (0 <= s)%Q) (a_sep V) /\ (true = true -> Forall (fun d => 3 <= d) (a_diameter V))).
Proof.
  split; [vm_compute; discriminate|]. split; [intros _; vm_compute; reflexivity|].
  split; [split; [left; reflexivity|left; reflexivity]|].
  intros V H. vm_compute in H. injection H as <-. cbn [a_sep a_diameter].
  split; [repeat constructor; unfold Qle; cbn; lia|intros _; repeat constructor; lia].
Qed.

Lemma ex_numba_runs : ex_run_numba = ex_run /\ exists d, ex_run = ROk d /\ List.length (df_lines d) = 1%nat.
Proof. vm_compute. split; [reflexivity|]. eexists. split; reflexivity. Qed.

(* the axes (1, 0): the 14x15 canvas and np.transpose of it, diameter (3, 5) resp. (5, 3) *)
Definition ex_axes : list nat := [1; 0]%nat.
Definition ex_im1T : image := transpose_axes ex_axes Proofs.Equivariance.ex_im1.

Lemma ex_axes_head_premises :
  exists V V2,
    locate_args (List.length (shape (squeeze_image Proofs.Equivariance.ex_im1))) (PyPreproc.PySeq [3; 5]) None None None (PyPreproc.PyScalar 1%Q) = ROk V /\
    locate_args (List.length (shape (squeeze_image ex_im1T))) (PyPreproc.PySeq [5; 3]) None None None (PyPreproc.PyScalar 1%Q) = ROk V2 /\
    largs_permuted ex_axes V V2 /\ Forall (fun s => (0 <= s)%Q) (a_sep V) /\
    py_engine false (List.length (shape (squeeze_image Proofs.Equivariance.ex_im1))) "python"%string /\
    arr_nonneg (data (squeeze_image Proofs.Equivariance.ex_im1)) = true /\ arr_nonneg (data (squeeze_image ex_im1T)) = true /\
    Permutation ex_axes (seq 0 (List.length (shape (squeeze_image Proofs.Equivariance.ex_im1)))) /\
    axes_permuted ex_axes (squeeze_image Proofs.Equivariance.ex_im1) (squeeze_image ex_im1T) /\
    Forall (fun s => 1 <= s) (Proofs.Dilation.sizes_of (squeeze_image Proofs.Equivariance.ex_im1) (lp_sep (lp_of V 3 true))).
Proof.
  assert (E1 : squeeze_image Proofs.Equivariance.ex_im1 = Proofs.Equivariance.ex_im1) by (vm_compute; reflexivity).
  assert (E2 : squeeze_image ex_im1T = ex_im1T) by (vm_compute; reflexivity).
  rewrite E1, E2.
  assert (Hp : Permutation ex_axes (seq 0 (List.length (shape Proofs.Equivariance.ex_im1)))) by (cbn; apply perm_swap).
  eexists. eexists. split; [vm_compute; reflexivity|]. split; [vm_compute; reflexivity|].
  split; [repeat split|]. split; [cbn [a_sep]; repeat constructor; unfold Qle; cbn; lia|].
  split; [left; reflexivity|]. split; [vm_compute; reflexivity|]. split; [vm_compute; reflexivity|].
  split; [exact Hp|]. split.
  - apply transpose_axes_permuted; [exact Hp|]. intros p Hpx. unfold Proofs.Equivariance.ex_im1 in *.
    rewrite Proofs.Equivariance.pix_embed in Hpx. cbn [shape embed].
    destruct (Proofs.Equivariance.inb [14; 15] p) eqn:E; [apply Proofs.Equivariance.inb_iff, E|congruence].
  - vm_compute. repeat constructor; discriminate.
Qed.

(* executed: the generated head on both; one feature each, position (6, 7) resp. (7, 6), the two per-axis sizes swapped *)
Lemma ex_axes_head_runs :
  match py_locate_head fops2 (fun _ _ => 1 # 2) (fun _ => 0%Q) false (ImZ (mkDT false 8) Proofs.Equivariance.ex_im1)
                       (PyPreproc.PySeq [3; 5]) None None None (PyPreproc.PyScalar 1%Q) None None false 64%Q None false 3 None None true "python"%string,
        py_locate_head fops2 (fun _ _ => 1 # 2) (fun _ => 0%Q) false (ImZ (mkDT false 8) ex_im1T)
                       (PyPreproc.PySeq [5; 3]) None None None (PyPreproc.PyScalar 1%Q) None None false 64%Q None false 3 None None true "python"%string with
  | ROk r1, ROk r2 =>
      PyRefine.of_rows (head_frame r1) = [COMRefine.ref_row (mkOut [234 # 39; 273 # 39]%Q 39 (Some ([28 # 39; 44 # 39]%Q, 9, 39)))] /\
      PyRefine.of_rows (head_frame r2) = [COMRefine.ref_row (mkOut [273 # 39; 234 # 39]%Q 39 (Some ([44 # 39; 28 # 39]%Q, 9, 39)))]
  | _, _ => False
  end.
Proof. vm_compute. split; reflexivity. Qed.

(* ------------------------------------------------------------------ (14), partially, for the generated head *)
(* the generated head followed by the tail MODEL of (13)-(16) (Model/LocateWhole.tail_out: where_close, minmass / maxsize,
   topn on refine's rows): without ties the final tables of the two axis orders correspond.  Partial: the GENERATED tail
   (Gen/tail.py_locate_tail) is tied to Model/LocateTail.tail by gen_locate_is_model, not to tail_out. *)
From TP Require Import Model.LocateWhole.
From TP Require Proofs.LocateWhole.
Open Scope Z_scope.

Section AxesWhole.
  Context {A : Type}.
  Variable F : float_ops A.
  Variable npp : list Z -> Q -> Q.
  Variable nexp : Q -> Q.
  Variable NA : bool.

  Theorem gen_head_tail_axes_partial : forall percentile,
    (forall l l', Permutation l l' -> npp l percentile = npp l' percentile) ->
    forall axes dt raw1 raw2 diameter separation noise_size smoothing_size diameter2 separation2 noise_size2 smoothing_size2
           minmass maxsize threshold topn maxit fa ch engine V V2 T,
    let im1 := squeeze_image raw1 in
    let im2 := squeeze_image raw2 in
    let P := lp_of V maxit ch in
    locate_args (List.length (shape im1)) diameter maxsize separation smoothing_size noise_size = ROk V ->
    locate_args (List.length (shape im2)) diameter2 maxsize separation2 smoothing_size2 noise_size2 = ROk V2 ->
    largs_permuted axes V V2 ->
    Forall (fun s => (0 <= s)%Q) (a_sep V) ->
    py_engine NA (List.length (shape im1)) engine ->
    arr_nonneg (data im1) = true -> arr_nonneg (data im2) = true ->
    Permutation axes (seq 0 (List.length (shape im1))) -> axes_permuted axes im1 im2 ->
    Forall (fun s => (1 <= s)%Z) (Proofs.Dilation.sizes_of im1 (lp_sep P)) ->
    t_maxsize T = None \/ isotropic (lp_radius P) = true ->
    no_tie (lp_sep P) T (locate_discrete (fun l => npp l percentile) P im1) = true ->
    exists r1 r2 outs1 outs2 rows,
      py_locate_head F npp nexp NA (ImZ dt raw1) diameter minmass maxsize separation noise_size smoothing_size threshold
                     false percentile topn false maxit None fa ch engine = ROk r1 /\
      py_locate_head F npp nexp NA (ImZ dt raw2) diameter2 minmass maxsize separation2 noise_size2 smoothing_size2 threshold
                     false percentile topn false maxit None fa ch engine = ROk r2 /\
      PyRefine.of_rows (head_frame r1) = map COMRefine.ref_row outs1 /\
      PyRefine.of_rows (head_frame r2) = map COMRefine.ref_row outs2 /\
      Permutation (tail_out (qperm axes (lp_sep P)) T outs2) rows /\
      Forall2 (row_permuted axes) (tail_out (lp_sep P) T outs1) rows.
  Proof.
    intros percentile Hperm axes dt raw1 raw2 diameter separation noise_size smoothing_size diameter2 separation2 noise_size2
           smoothing_size2 minmass maxsize threshold topn maxit fa ch engine V V2 T im1 im2 P HV HV2 HP Hsep Heng N1 N2 Hp Hax Hsz
           Hms Hnt.
    destruct (gen_head_axes F npp nexp NA percentile Hperm axes dt raw1 raw2 diameter separation noise_size smoothing_size
                diameter2 separation2 noise_size2 smoothing_size2 minmass maxsize threshold topn maxit fa ch engine V V2
                HV HV2 HP Hsep Heng N1 N2 Hp Hax Hsz) as [r1 [r2 [o1 [o2 [rows0 [H1 [H2 [R1 [R2 [E1 [E2 _]]]]]]]]]]].
    fold im1 im2 P in E1, E2.
    destruct (largs_lengths _ _ _ _ _ _ _ HV) as [Ld [Ls Lm]].
    assert (Lr : List.length (lp_radius P) = List.length (shape im1)) by (cbn; unfold radius_of; now rewrite map_length).
    assert (Lmg : List.length (lp_margin P) = List.length (shape im1)).
    { cbn [lp_margin P lp_of]. unfold margin_of. rewrite Proofs.LocatePipe.margins_length.
      - unfold radius_of. rewrite map_length. exact Ld.
      - unfold radius_of. rewrite map_length. fold im1. lia.
      - unfold radius_of. rewrite !map_length. fold im1. lia. }
    destruct (Proofs.LocateWhole.locate_whole_axes (fun l => npp l percentile) Hperm axes im1 im2 P T Hp Hax Ls Lmg Lr Hsz Hms Hnt)
      as [rows [Pm Fm]].
    unfold locate_whole in Pm, Fm. cbn [lp_perm lp_sep] in Pm.
    exists r1, r2, o1, o2, rows. subst o1 o2. repeat split; assumption.
  Qed.
End AxesWhole.
