(* C15 (packing): vect_to_params (unpack) and vect_from_params (pack) are
   mutually inverse, for every assignment of modes and every grouping. *)
From Coq Require Import List Arith Bool Lia.
From TP Require Import Model.Pack.
Import ListNotations.

Section PackProofs.
Context {A : Type}.
Implicit Types (col c : list A) (g : list nat) (gt : list (list nat)).

(* ------------------------------------------------------------------ *)
(* Declarative side conditions                                          *)
(* ------------------------------------------------------------------ *)
(* a group is a non-empty list of row indices of the (n x n_vars) array *)
Definition group_ok (n : nat) g : Prop := g <> [] /\ Forall (fun j => j < n) g.
(* every row belongs to some group *)
Definition covers (n : nat) gt : Prop := forall j, j < n -> In j (concat gt).
(* column `col` takes one value on the rows of g *)
Definition const_on col g : Prop := exists a, Forall (fun j => nth_error col j = Some a) g.

(* "parameters consistent with their modes", one column:
   global columns are constant, cluster/custom-group columns are constant on
   every group and the groups cover all rows *)
Definition col_consistent (groups : groups_t) (n mode : nat) col : Prop :=
  match mode with
  | 0 | 1 => True
  | _ => match select groups mode with
         | TakeOne => 0 < n /\ exists a, col = repeat a n
         | Groups gt => Forall (group_ok n) gt /\ covers n gt /\ Forall (const_on col) gt
         | NoGroups => False
         end
  end.

(* p (columns cols) is consistent with the modes; p0 (columns cols0) is any
   array of the same shape that agrees with p on the constant columns
   (p0 = p is the special case "unpack(pack p) into p") *)
Fixpoint consistent (groups : groups_t) (n : nat) (modes : list nat)
         (cols cols0 : list (list A)) : Prop :=
  match modes, cols, cols0 with
  | [], [], [] => True
  | m :: ms, c :: cs, c0 :: cs0 =>
      length c = n /\ length c0 = n /\ (m = 0 -> c0 = c) /\
      col_consistent groups n m c /\ consistent groups n ms cs cs0
  | _, _, _ => False
  end.

(* side condition on modes/groups alone, for pack (unpack v) = v:
   groups of a used mode exist, are non-empty, in range and pairwise disjoint
   (they need not cover); a global parameter needs at least one row *)
Definition mode_wf (groups : groups_t) (n mode : nat) : Prop :=
  match mode with
  | 0 | 1 => True
  | _ => match select groups mode with
         | TakeOne => 0 < n
         | Groups gt => Forall (group_ok n) gt /\ NoDup (concat gt)
         | NoGroups => False
         end
  end.

(* an `operation` that returns the common value of a non-empty constant list:
   np.min, np.max, np.mean, "first" -- not np.sum *)
Definition op_const (f : list A -> option A) : Prop :=
  forall a k, f (repeat a (S k)) = Some a.

Definition ops_ok (op : option (list A -> option A)) : Prop :=
  match op with None => True | Some f => op_const f end.

(* ------------------------------------------------------------------ *)
(* basic list facts                                                     *)
(* ------------------------------------------------------------------ *)
Lemma nth_error_ext : forall (l1 l2 : list A),
  length l1 = length l2 -> (forall i, nth_error l1 i = nth_error l2 i) -> l1 = l2.
Proof.
  induction l1 as [|a l1 IH]; destruct l2 as [|b l2]; simpl; intros HL H; try discriminate; auto.
  f_equal.
  - specialize (H 0); simpl in H; congruence.
  - apply IH; [lia|]. intro i. exact (H (S i)).
Qed.

Lemma nth_error_repeat : forall (a : A) n i, i < n -> nth_error (repeat a n) i = Some a.
Proof.
  induction n; intros i Hi; [lia|]. destruct i; simpl; auto. apply IHn; lia.
Qed.

Lemma set_idx_spec : forall col j v, j < length col ->
  exists c', set_idx col j v = Some c' /\ length c' = length col /\
    nth_error c' j = Some v /\ (forall i, i <> j -> nth_error c' i = nth_error col i).
Proof.
  induction col as [|a r IH]; intros j v Hj; simpl in Hj; [lia|].
  destruct j as [|j].
  - exists (v :: r). simpl. repeat split; auto. intros i Hi. destruct i; [congruence|reflexivity].
  - destruct (IH j v) as (c' & E & L & N & O); [lia|].
    exists (a :: c'). simpl. rewrite E. simpl. repeat split; auto.
    intros i Hi. destruct i; simpl; auto.
Qed.

Lemma set_group_spec : forall g col v, Forall (fun j => j < length col) g ->
  exists c', set_group col g v = Some c' /\ length c' = length col /\
    (forall i, In i g -> nth_error c' i = Some v) /\
    (forall i, ~ In i g -> nth_error c' i = nth_error col i).
Proof.
  induction g as [|j g IH]; intros col v HF.
  - exists col. simpl. repeat split; auto. intros i [].
  - inversion HF as [|? ? Hj HF']; subst.
    destruct (set_idx_spec col j v Hj) as (c1 & E1 & L1 & N1 & O1).
    destruct (IH c1 v) as (c' & E & L & I & O).
    { rewrite L1. exact HF'. }
    exists c'. simpl. rewrite E1. repeat split; auto; try congruence.
    + intros i [Hi|Hi]; [subst i|auto].
      destruct (in_dec Nat.eq_dec j g) as [Hin|Hnin]; auto.
      rewrite (O j Hnin). exact N1.
    + intros i Hi. rewrite O by (intro; apply Hi; right; assumption).
      apply O1. intro; apply Hi; left; congruence.
Qed.

Lemma firstn_app_exact : forall (l r : list A) n, length l = n -> firstn n (l ++ r) = l.
Proof. intros l r n <-. rewrite firstn_app, Nat.sub_diag, firstn_all. simpl. apply app_nil_r. Qed.

Lemma skipn_app_exact : forall (l r : list A) n, length l = n -> skipn n (l ++ r) = r.
Proof. intros l r n <-. rewrite skipn_app, Nat.sub_diag, skipn_all. reflexivity. Qed.

Lemma NoDup_app_split : forall (l1 l2 : list nat), NoDup (l1 ++ l2) ->
  NoDup l2 /\ (forall x, In x l1 -> ~ In x l2).
Proof.
  induction l1 as [|x l1 IH]; intros l2 H; simpl in *.
  - split; auto.
  - inversion H as [|? ? Hx H']; subst. destruct (IH l2 H') as [N D]. split; auto.
    intros y [->|Hy]; [|auto]. intro Hin. apply Hx. apply in_or_app. right. exact Hin.
Qed.

(* ------------------------------------------------------------------ *)
(* the group loop of vect_to_params                                     *)
(* ------------------------------------------------------------------ *)
(* values written are those of `col` on each group: afterwards the column
   equals `col` on every row that belongs to a group *)
Lemma assign_groups_agree : forall n col gt vals c,
  Forall (group_ok n) gt -> length c = n ->
  Forall2 (fun g v => forall j, In j g -> nth_error col j = Some v) gt vals ->
  exists c', assign_groups c gt vals = Some c' /\ length c' = n /\
    (forall i, In i (concat gt) -> nth_error c' i = nth_error col i) /\
    (forall i, ~ In i (concat gt) -> nth_error c' i = nth_error c i).
Proof.
  intros n col gt. induction gt as [|g gt IH]; intros vals c HG HL H2.
  - inversion H2; subst. exists c. simpl. repeat split; auto. intros i [].
  - inversion H2 as [|? v ? vals' Hv H2']; subst. inversion HG as [|? ? [_ Hg] HG']; subst.
    destruct (set_group_spec g c v) as (c1 & E1 & L1 & I1 & O1); [exact Hg|].
    destruct (IH vals' c1 HG' L1 H2') as (c' & E & L & I & O).
    exists c'. simpl. rewrite E1. repeat split; auto.
    + intros i Hi. destruct (in_dec Nat.eq_dec i (concat gt)) as [Hin|Hnin]; auto.
      rewrite (O i Hnin). apply in_app_or in Hi. destruct Hi as [Hi|Hi]; [|contradiction].
      rewrite (I1 i Hi). symmetry. apply Hv. exact Hi.
    + intros i Hi. rewrite O by (intro; apply Hi; apply in_or_app; right; assumption).
      apply O1. intro; apply Hi; apply in_or_app; left; assumption.
Qed.

(* disjoint groups: afterwards group k holds vals[k] on all its rows *)
Lemma assign_groups_disjoint : forall n gt vals c,
  Forall (group_ok n) gt -> NoDup (concat gt) -> length c = n -> length vals = length gt ->
  exists c', assign_groups c gt vals = Some c' /\ length c' = n /\
    Forall2 (fun g v => forall j, In j g -> nth_error c' j = Some v) gt vals /\
    (forall i, ~ In i (concat gt) -> nth_error c' i = nth_error c i).
Proof.
  intros n gt. induction gt as [|g gt IH]; intros vals c HG ND HL HV.
  - destruct vals; [|discriminate]. exists c. simpl. repeat split; auto.
  - destruct vals as [|v vals]; [discriminate|]. inversion HG as [|? ? [_ Hg] HG']; subst.
    simpl in ND. destruct (NoDup_app_split g (concat gt) ND) as [ND' Hdisj].
    destruct (set_group_spec g c v) as (c1 & E1 & L1 & I1 & O1); [exact Hg|].
    destruct (IH vals c1 HG' ND' L1) as (c' & E & L & F & O); [simpl in HV; lia|].
    exists c'. simpl. rewrite E1. repeat split; auto.
    + constructor; auto. intros j Hj.
      assert (Hn : ~ In j (concat gt)) by (apply Hdisj; exact Hj).
      rewrite (O j Hn). apply I1. exact Hj.
    + intros i Hi. rewrite O by (intro; apply Hi; apply in_or_app; right; assumption).
      apply O1. intro; apply Hi; apply in_or_app; left; assumption.
Qed.

(* reading the groups back *)
Lemma first_of_groups : forall n c gt vals,
  Forall (group_ok n) gt ->
  Forall2 (fun g v => forall j, In j g -> nth_error c j = Some v) gt vals ->
  opt_map (first_of c) gt = Some vals.
Proof.
  intros n c gt vals HG H2. induction H2 as [|g v gt vals Hv H2 IH]; [reflexivity|].
  inversion HG as [|? ? [Hne _] HG']; subst. simpl. rewrite (IH HG').
  destruct g as [|j g]; [congruence|]. simpl. rewrite (Hv j (or_introl eq_refl)). reflexivity.
Qed.

Lemma gather_const : forall c g v, (forall j, In j g -> nth_error c j = Some v) ->
  gather c g = Some (repeat v (length g)).
Proof.
  intros c g v. induction g as [|j g IH]; intros H; [reflexivity|].
  unfold gather in *. simpl. rewrite (H j (or_introl eq_refl)), IH; auto.
  intros i Hi. apply H. right. exact Hi.
Qed.

Lemma op_groups : forall n f c gt vals, op_const f ->
  Forall (group_ok n) gt ->
  Forall2 (fun g v => forall j, In j g -> nth_error c j = Some v) gt vals ->
  opt_map (fun g => match gather c g with Some vs => f vs | None => None end) gt = Some vals.
Proof.
  intros n f c gt vals Hf HG H2. induction H2 as [|g v gt vals Hv H2 IH]; [reflexivity|].
  inversion HG as [|? ? [Hne _] HG']; subst. simpl. rewrite (IH HG').
  rewrite (gather_const c g v Hv). destruct g as [|j g]; [congruence|]. simpl length.
  rewrite Hf. reflexivity.
Qed.

(* pack_col reads the per-group values, whatever the admissible operation *)
Lemma pack_col_groups : forall n op groups mode c gt vals,
  ops_ok op -> 2 <= mode -> select groups mode = Groups gt ->
  Forall (group_ok n) gt ->
  Forall2 (fun g v => forall j, In j g -> nth_error c j = Some v) gt vals ->
  pack_col op groups mode c = Some vals.
Proof.
  intros n op groups mode c gt vals Hop Hm Hs HG H2.
  destruct mode as [|[|m]]; try lia. unfold pack_col. rewrite Hs.
  destruct op as [f|].
  - eapply op_groups; eauto.
  - eapply first_of_groups; eauto.
Qed.

Lemma pack_col_one : forall op groups mode a n,
  ops_ok op -> 2 <= mode -> select groups mode = TakeOne -> 0 < n ->
  pack_col op groups mode (repeat a n) = Some [a].
Proof.
  intros op groups mode a n Hop Hm Hs Hn.
  destruct mode as [|[|m]]; try lia. unfold pack_col. rewrite Hs.
  destruct n as [|n]; [lia|]. destruct op as [f|].
  - rewrite Hop. reflexivity.
  - reflexivity.
Qed.

(* values of a column that is constant on every group *)
Lemma const_vals : forall col gt, Forall (const_on col) gt ->
  exists vals, Forall2 (fun g v => forall j, In j g -> nth_error col j = Some v) gt vals.
Proof.
  intros col gt H. induction H as [|g gt [a Ha] H IH].
  - exists []. constructor.
  - destruct IH as [vals IH]. exists (a :: vals). constructor; auto.
    intros j Hj. rewrite Forall_forall in Ha. apply Ha. exact Hj.
Qed.

(* ------------------------------------------------------------------ *)
(* one column                                                           *)
(* ------------------------------------------------------------------ *)
Lemma unpack_pack_col : forall op groups n mode col col0,
  ops_ok op -> length col = n -> length col0 = n -> (mode = 0 -> col0 = col) ->
  col_consistent groups n mode col ->
  exists v, pack_col op groups mode col = Some v /\
            length v = packed_len_col groups n mode /\
            forall rest, unpack_col groups n mode (v ++ rest) col0 = Some (col, rest).
Proof.
  intros op groups n mode col col0 Hop HL HL0 H0 HC.
  destruct mode as [|[|m]].
  - exists []. simpl. rewrite (H0 eq_refl). auto.
  - exists col. simpl. repeat split; auto. intro rest.
    rewrite (firstn_app_exact col rest n HL), (skipn_app_exact col rest n HL).
    unfold set_col. rewrite HL, Nat.eqb_refl. reflexivity.
  - unfold col_consistent in HC. unfold packed_len_col, unpack_col.
    destruct (select groups (S (S m))) as [|gt|] eqn:Hs; [| |contradiction].
    + destruct HC as (Hn & a & ->). exists [a]. split; [|split; [reflexivity|]].
      * apply pack_col_one; auto; lia.
      * intro rest. reflexivity.
    + destruct HC as (HG & Hcov & Hconst).
      destruct (const_vals col gt Hconst) as [vals H2].
      assert (HLv : length vals = length gt).
      { clear - H2. induction H2; simpl; auto. }
      exists vals. split; [|split; [exact HLv|]].
      * eapply pack_col_groups; eauto; lia.
      * intro rest. rewrite (firstn_app_exact vals rest _ HLv), (skipn_app_exact vals rest _ HLv).
        destruct (assign_groups_agree n col gt vals col0 HG HL0 H2) as (c' & E & L & I & _).
        rewrite E. f_equal. f_equal. apply nth_error_ext; [congruence|].
        intro i. destruct (Nat.lt_ge_cases i n) as [Hi|Hi].
        -- apply I. apply Hcov. exact Hi.
        -- transitivity (@None A); [|symmetry]; apply nth_error_None; lia.
Qed.

Lemma pack_unpack_col : forall op groups n mode col0 v rest,
  ops_ok op -> length col0 = n -> mode_wf groups n mode ->
  length v = packed_len_col groups n mode ->
  exists c, unpack_col groups n mode (v ++ rest) col0 = Some (c, rest) /\
            length c = n /\ (mode = 0 -> c = col0) /\
            pack_col op groups mode c = Some v.
Proof.
  intros op groups n mode col0 v rest Hop HL0 HW HV.
  destruct mode as [|[|m]].
  - simpl in HV. destruct v; [|discriminate]. exists col0. simpl. auto.
  - simpl in HV. exists v. simpl.
    rewrite (firstn_app_exact v rest n HV), (skipn_app_exact v rest n HV).
    unfold set_col. rewrite HV, Nat.eqb_refl. repeat split; auto. discriminate.
  - unfold mode_wf in HW. unfold packed_len_col in HV. unfold unpack_col.
    destruct (select groups (S (S m))) as [|gt|] eqn:Hs; [| |contradiction].
    + destruct v as [|a [|? ?]]; try discriminate. exists (repeat a n).
      split; [reflexivity|]. split; [apply repeat_length|]. split; [discriminate|].
      apply pack_col_one; auto; lia.
    + destruct HW as (HG & ND).
      rewrite (firstn_app_exact v rest _ HV), (skipn_app_exact v rest _ HV).
      destruct (assign_groups_disjoint n gt v col0 HG ND HL0 HV) as (c' & E & L & F & _).
      exists c'. rewrite E. repeat split; auto; try discriminate.
      eapply pack_col_groups; eauto; lia.
Qed.

(* ------------------------------------------------------------------ *)
(* all columns                                                          *)
(* ------------------------------------------------------------------ *)
Lemma packed_len_cons : forall groups n m ms,
  packed_len groups n (m :: ms) = packed_len_col groups n m + packed_len groups n ms.
Proof. reflexivity. Qed.

(* unpack (pack p) = p *)
Theorem unpack_pack : forall op groups n modes cols cols0,
  ops_ok op -> consistent groups n modes cols cols0 ->
  exists v, pack op groups modes cols = Some v /\
            length v = packed_len groups n modes /\
            forall rest, unpack groups n modes (v ++ rest) cols0 = Some (cols, rest).
Proof.
  intros op groups n modes. induction modes as [|m ms IH]; intros cols cols0 Hop HC.
  - destruct cols, cols0; try contradiction. exists []. simpl. auto.
  - destruct cols as [|c cs], cols0 as [|c0 cs0]; try contradiction.
    destruct HC as (HL & HL0 & H0 & HCc & HC).
    destruct (unpack_pack_col op groups n m c c0 Hop HL HL0 H0 HCc) as (v1 & P1 & L1 & U1).
    destruct (IH cs cs0 Hop HC) as (v2 & P2 & L2 & U2).
    exists (v1 ++ v2). cbn [pack unpack]. rewrite P1, P2. split; [reflexivity|]. split.
    + rewrite app_length, packed_len_cons. lia.
    + intro rest. rewrite <- app_assoc, U1, U2. reflexivity.
Qed.

(* pack (unpack v) = v *)
Theorem pack_unpack : forall op groups n modes cols0 v rest,
  ops_ok op -> length modes = length cols0 ->
  Forall (fun c => length c = n) cols0 -> Forall (mode_wf groups n) modes ->
  length v = packed_len groups n modes ->
  exists P, unpack groups n modes (v ++ rest) cols0 = Some (P, rest) /\
            Forall (fun c => length c = n) P /\
            pack op groups modes P = Some v.
Proof.
  intros op groups n modes. induction modes as [|m ms IH]; intros cols0 v rest Hop HLm HS HW HV.
  - destruct cols0; [|discriminate]. simpl in HV. destruct v; [|discriminate].
    exists []. simpl. auto.
  - destruct cols0 as [|c0 cs0]; [discriminate|].
    inversion HS as [|? ? HL0 HS']; subst. inversion HW as [|? ? HWm HW']; subst.
    rewrite packed_len_cons in HV. set (k := packed_len_col groups (length c0) m) in *.
    assert (Hv : v = firstn k v ++ skipn k v) by (symmetry; apply firstn_skipn).
    assert (Hk : length (firstn k v) = k) by (rewrite firstn_length; lia).
    assert (Hk2 : length (skipn k v) = packed_len groups (length c0) ms).
    { rewrite skipn_length. lia. }
    destruct (pack_unpack_col op groups (length c0) m c0 (firstn k v) (skipn k v ++ rest) Hop eq_refl HWm Hk)
      as (c & U1 & Lc & _ & P1).
    destruct (IH cs0 (skipn k v) rest Hop ltac:(simpl in HLm; lia) HS' HW' Hk2) as (P & U2 & SP & P2).
    exists (c :: P). rewrite Hv at 1. rewrite <- app_assoc. cbn [pack unpack]. rewrite U1, U2.
    split; [reflexivity|]. split; [constructor; auto|].
    rewrite P1, P2, <- Hv. reflexivity.
Qed.

End PackProofs.
