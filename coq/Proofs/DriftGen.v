(* C18, route T: the functions of Gen/drift.v (generated from trackpy/motion.py and
   guess_pos_columns of trackpy/utils.py), read in the interpretation DriftI of
   Model/PyDrift.v, equal the hand-written model Model/Drift.v -- for every table, every
   list of position columns and every column name c, after projecting to column c. *)
From Coq Require Import ZArith QArith String List Bool Permutation Sorted Lia.
From TP Require Import Model.Drift Model.DriftSpec Model.PyDrift Gen.drift Proofs.Drift.
Import ListNotations.
Local Open Scope string_scope.

(* ---- generic list facts -------------------------------------------------------------- *)
Lemma insert_map {A} (f : A -> row) (le' : A -> A -> bool) (le : row -> row -> bool) x l :
  (forall a b, le (f a) (f b) = le' a b) ->
  map f (insert_g le' x l) = insert_by le (f x) (map f l).
Proof.
  intros H. induction l as [|y l IH]; cbn; [reflexivity|].
  rewrite H. destruct (le' x y); cbn; [reflexivity|]. now rewrite IH.
Qed.

Lemma isort_map {A} (f : A -> row) (le' : A -> A -> bool) (le : row -> row -> bool) l :
  (forall a b, le (f a) (f b) = le' a b) ->
  map f (isort_g le' l) = isort le (map f l).
Proof.
  intros H. induction l as [|x l IH]; cbn; [reflexivity|].
  unfold isort_g in *. cbn. rewrite (insert_map f le' le) by exact H. now rewrite IH.
Qed.

Lemma combine_map_self {A B C} (F : A * B -> C) (G : A -> B) l :
  map F (combine l (map G l)) = map (fun r => F (r, G r)) l.
Proof. induction l; cbn; congruence. Qed.

Lemma combine_map_map {A B C D} (F : B * C -> D) (f : A -> B) (g : A -> C) l :
  map F (combine (map f l) (map g l)) = map (fun x => F (f x, g x)) l.
Proof. induction l; cbn; congruence. Qed.

Lemma filter_combine_mask {A} (m : A -> bool) l :
  map snd (filter fst (combine (map m l) l)) = filter m l.
Proof. induction l as [|x l IH]; cbn; [reflexivity|]. destruct (m x); cbn; congruence. Qed.

Lemma filter_all {A} (p : A -> bool) l : forallb p l = true -> filter p l = l.
Proof.
  induction l as [|x l IH]; cbn; [reflexivity|]. intros H. apply andb_prop in H as [H1 H2].
  rewrite H1. now rewrite IH.
Qed.

Lemma filter_none {A} (p q : A -> bool) l :
  forallb p l = true -> (forall x, p x = true -> q x = false) -> filter q l = [].
Proof.
  induction l as [|x l IH]; cbn; [reflexivity|]. intros H Hq. apply andb_prop in H as [H1 H2].
  rewrite (Hq x H1). now apply IH.
Qed.

(* ---- the sort keys ---------------------------------------------------------------------- *)
Lemma lex_pf c a b : le_pf (proj_row c a) (proj_row c b) = lex_le ["particle"; "frame"] a b.
Proof. reflexivity. Qed.
Lemma lex_fp c a b : le_fp (proj_row c a) (proj_row c b) = lex_le ["frame"; "particle"] a b.
Proof. reflexivity. Qed.

(* ---- the difference table, observed at column c ------------------------------------------- *)
(* row r of the table f_diff (after rename and f_diff['frame'] = ..) shows what row d of
   Model/Drift.v's diff holds *)
Definition Robs (c : name) (r : ddrow) (d : drow) : Prop :=
  dd_val r c = Some (d_pos d) /\ dd_int r "particle" = Some (d_particle d) /\
  dd_int r "frame_diff" = Some (d_frame d) /\ dd_int r "frame" = Some (d_at d).

Definition fd_rows (drows : list ddrow) (S : list mrow) : list ddrow :=
  map (fun rv => set_int "frame" (fst rv) (snd rv))
      (combine (map (rename_row ["particle"; "frame"] "frame" "frame_diff") drows)
               (map (fun r => Some (key_val "frame" r)) S)).

Lemma fd_rows_obs c : forall l prev,
  Forall2 (Robs c) (fd_rows (diff_from_m prev l) l) (diff_from (proj_row c prev) (map (proj_row c) l)).
Proof.
  induction l as [|r l IH]; intros prev; cbn; [constructor|].
  constructor; [|apply IH]. repeat split.
Qed.

Definition mk (r : ddrow) : bool :=
  match dd_int r "particle" with Some z => (z =? 0)%Z | None => false end &&
  match dd_int r "frame_diff" with Some z => (z =? 1)%Z | None => false end.

Lemma mk_mask c r d : Robs c r d -> mk r = mask d.
Proof. intros (_ & Hp & Hf & _). unfold mk, mask. now rewrite Hp, Hf. Qed.

Lemma somes_some {A} (a : A) l : somes (Some a :: l) = a :: somes l.
Proof. reflexivity. Qed.

Lemma sel_frames c rows dl :
  Forall2 (Robs c) rows dl ->
  somes (map (fun r => dd_int r "frame") (filter mk rows)) = map d_at (filter mask dl).
Proof.
  induction 1 as [|r d rows dl H _ IH]; [reflexivity|]. cbn [filter].
  rewrite (mk_mask c r d H). destruct (mask d); [|exact IH]. cbn [map].
  destruct H as (_ & _ & _ & Ha). rewrite Ha, somes_some. now rewrite IH.
Qed.

Lemma sel_values c f rows dl :
  Forall2 (Robs c) rows dl ->
  somes (map (fun r => dd_val r c) (filter (has_key "frame" f) (filter mk rows))) =
  map d_pos (filter (fun d => (d_at d =? f)%Z) (filter mask dl)).
Proof.
  induction 1 as [|r d rows dl H _ IH]; [reflexivity|]. cbn [filter].
  rewrite (mk_mask c r d H). destruct (mask d); [|exact IH]. cbn [filter].
  destruct H as (Hv & _ & _ & Ha). unfold has_key at 1. rewrite Ha.
  destruct (d_at d =? f)%Z; [|exact IH]. cbn [map]. rewrite Hv, somes_some. now rewrite IH.
Qed.

Lemma cumsum_col c rows : forall acc,
  map (fun fv : Z * (name -> Q) => (fst fv, snd fv c)) (cumsum_m acc rows) =
  cumsum (acc c) (map (fun fv : Z * (name -> Q) => (fst fv, snd fv c)) rows).
Proof.
  induction rows as [|[f m] rows IH]; intros acc; cbn; [reflexivity|].
  f_equal. apply (IH (fun n => Qred (acc n + m n)%Q)).
Qed.

Section Gen.
  Variable rolling : curve -> Z -> curve.
  Let I := DriftI rolling.

  (* the per-frame means of the masked difference table, observed at column c *)
  Lemma means_col c rows dl :
    Forall2 (Robs c) rows dl ->
    map (fun fv : Z * (name -> Q) => (fst fv, snd fv c)) (gb_mean "frame" (filter mk rows)) =
    map (fun f => (f, group_mean (filter mask dl) f)) (group_keys (map d_at (filter mask dl))).
  Proof.
    intros H. unfold gb_mean. rewrite map_map. cbn [fst snd].
    rewrite (sel_frames c rows dl H). apply map_ext. intros f. unfold group_mean.
    now rewrite (sel_values c f rows dl H).
  Qed.

  (* ---- compute_drift ------------------------------------------------------------------- *)
  Theorem gen_compute_drift_eq : forall T s pcs c,
    (s <= 0)%Z ->
    curve_col c (py_compute_drift I T s (Some pcs)) = compute_drift (proj c T).
  Proof.
    intros T s pcs c Hs. unfold py_compute_drift.
    assert (E : (s >? 0)%Z = false) by (rewrite Z.gtb_ltb; apply Z.ltb_ge; exact Hs). rewrite E.
    unfold I. cbn -[isort_g lex_le value_names gb_mean].
    unfold curve_col. cbn [cv_rows]. rewrite cumsum_col. cbn [Qplus].
    unfold compute_drift, selected, proj.
    rewrite <- (isort_map (proj_row c) (lex_le ["particle"; "frame"]) le_pf) by (intros; apply lex_pf).
    set (S := isort_g (lex_le ["particle"; "frame"]) (mt_rows T)).
    change (map (fun r : mrow => Some (m_frame r)) S) with (map (fun r : mrow => Some (key_val "frame" r)) S).
    fold (fd_rows (diff_m S) S). set (FD := fd_rows (diff_m S) S).
    rewrite !(map_map (fun r : ddrow => dd_int r _)). rewrite combine_map_map. cbn [fst snd].
    change (fun x : ddrow => match dd_int x "particle" with Some z1 => (z1 =? 0)%Z | None => false end &&
                            match dd_int x "frame_diff" with Some z2 => (z2 =? 1)%Z | None => false end) with mk.
    rewrite filter_combine_mask. subst FD.
    destruct S as [|r0 S]; [reflexivity|].
    cbn [diff_m map diff]. unfold fd_rows at 1. cbn [map combine filter].
    change (mk (set_int "frame" (rename_row ["particle"; "frame"] "frame" "frame_diff" nan_row) (Some (key_val "frame" r0))))
      with false. cbv iota. fold (fd_rows (diff_from_m r0 S) S).
    pose proof (fd_rows_obs c S r0) as H.
    f_equal. exact (means_col c _ _ H).
  Qed.

  Definition pos_names_ok (pcs : list name) : bool :=
    forallb (fun n => negb (mem n ["particle"; "frame_diff"; "frame"])) pcs.

  (* the drift table has exactly the position columns, in the order given *)
  Theorem gen_compute_drift_columns : forall T s pcs,
    (s <= 0)%Z -> pos_names_ok pcs = true ->
    p_columns I (py_compute_drift I T s (Some pcs)) = pcs.
  Proof.
    intros T s pcs Hs Hok. unfold py_compute_drift.
    assert (E : (s >? 0)%Z = false) by (rewrite Z.gtb_ltb; apply Z.ltb_ge; exact Hs). rewrite E.
    unfold I. cbn -[isort_g lex_le value_names gb_mean mem].
    rewrite filter_app. cbn [filter]. change (mem "frame" ["particle"; "frame_diff"; "frame"]) with true.
    cbn [negb]. rewrite app_nil_r. apply filter_all. exact Hok.
  Qed.

  Lemma guess_cases T :
    py_guess_pos_columns I T = ["z"; "y"; "x"] \/ py_guess_pos_columns I T = ["y"; "x"].
  Proof. unfold py_guess_pos_columns. destruct (p_has_column I T "z"); auto. Qed.

  Lemma guess_ok T : pos_names_ok (py_guess_pos_columns I T) = true /\ NoDup (py_guess_pos_columns I T).
  Proof.
    destruct (guess_cases T) as [-> | ->]; (split; [reflexivity|]);
      repeat (constructor; [cbn; intuition discriminate|]); constructor.
  Qed.

  (* pos_columns=None *)
  Theorem gen_compute_drift_default : forall T s c,
    (s <= 0)%Z ->
    curve_col c (py_compute_drift I T s None) = compute_drift (proj c T) /\
    p_columns I (py_compute_drift I T s None) = py_guess_pos_columns I T.
  Proof.
    intros T s c Hs.
    change (py_compute_drift I T s None) with (py_compute_drift I T s (Some (py_guess_pos_columns I T))).
    split; [now apply gen_compute_drift_eq|].
    apply gen_compute_drift_columns; [exact Hs|apply guess_ok].
  Qed.

  (* ---- subtract_drift -------------------------------------------------------------------- *)
  Definition step (D : curve) (col : name) (X : mtable) : mtable :=
    p_setitem I X col (p_sub_fill0_level I (p_getitem I X col) (p_curve_getitem I D col) "frame").

  Definition sub_val (d : drift) (f : Z) (x : Q) : Q :=
    match lookup f d with Some v => Qred (x - v)%Q | None => x end.

  Lemma step_rows D col X :
    mt_index X = ["frame"; "particle"] ->
    mt_rows (step D col X) =
      map (fun r => set_val col r (sub_val (curve_col col D) (m_frame r) (m_val r col))) (mt_rows X) /\
    mt_index (step D col X) = ["frame"; "particle"] /\
    mt_cols (step D col X) = add_name col (mt_cols X).
  Proof.
    intros Hi. unfold step, I. cbn. split; [|split; [exact Hi|reflexivity]].
    rewrite Hi. cbn. rewrite map_map. cbn [fst snd]. rewrite combine_map_self. reflexivity.
  Qed.

  Lemma step_proj_same D c X :
    mt_index X = ["frame"; "particle"] ->
    proj c (step D c X) = map (sub_row (curve_col c D)) (proj c X).
  Proof.
    intros Hi. unfold proj. rewrite (proj1 (step_rows D c X Hi)). rewrite !map_map.
    apply map_ext. intros r. unfold proj_row, set_val, sub_row, sub_val. cbn.
    rewrite String.eqb_refl. destruct (lookup (m_frame r) (curve_col c D)); reflexivity.
  Qed.

  Lemma step_proj_other D c col X :
    mt_index X = ["frame"; "particle"] -> c <> col ->
    proj c (step D col X) = proj c X.
  Proof.
    intros Hi Hne. unfold proj. rewrite (proj1 (step_rows D col X Hi)). rewrite map_map.
    apply map_ext. intros r. unfold proj_row, set_val. cbn.
    destruct (String.eqb_spec c col); [contradiction|reflexivity].
  Qed.

  Definition steps (D : curve) (cols : list name) (X : mtable) : mtable :=
    fold_left (fun t col => step D col t) cols X.

  Lemma steps_index D cols : forall X,
    mt_index X = ["frame"; "particle"] -> mt_index (steps D cols X) = ["frame"; "particle"].
  Proof.
    induction cols as [|col cols IH]; intros X Hi; [exact Hi|]. change (steps D (col :: cols) X) with (steps D cols (step D col X)).
    apply IH. apply (step_rows D col X Hi).
  Qed.

  Lemma steps_proj_notin D c cols : forall X,
    mt_index X = ["frame"; "particle"] -> ~ In c cols -> proj c (steps D cols X) = proj c X.
  Proof.
    induction cols as [|col cols IH]; intros X Hi Hn; [reflexivity|]. change (steps D (col :: cols) X) with (steps D cols (step D col X)).
    rewrite IH; [|apply (step_rows D col X Hi)|intros H; apply Hn; now right].
    apply step_proj_other; [exact Hi|]. intros ->. apply Hn. now left.
  Qed.

  Lemma steps_proj_in D c cols : forall X,
    mt_index X = ["frame"; "particle"] -> NoDup cols -> In c cols ->
    proj c (steps D cols X) = map (sub_row (curve_col c D)) (proj c X).
  Proof.
    induction cols as [|col cols IH]; intros X Hi Hnd Hin; [destruct Hin|].
    inversion Hnd as [|? ? Hnotin Hnd']; subst. change (steps D (col :: cols) X) with (steps D cols (step D col X)).
    destruct (String.eqb_spec c col) as [->|Hne].
    - rewrite steps_proj_notin; [|apply (step_rows D col X Hi)|exact Hnotin].
      now apply step_proj_same.
    - destruct Hin as [E|Hin]; [congruence|].
      rewrite IH; [|apply (step_rows D col X Hi)|exact Hnd'|exact Hin].
      now rewrite step_proj_other.
  Qed.

  (* the table after set_index(['frame', 'particle']) and sort_index(level='frame') *)
  Definition sorted_fp (T : mtable) : mtable :=
    mkMT (mt_cols T) ["frame"; "particle"] (isort_g (lex_le ["frame"; "particle"]) (mt_rows T)).

  Lemma sorted_fp_proj c T : proj c (sorted_fp T) = isort le_fp (proj c T).
  Proof. unfold proj, sorted_fp. cbn [mt_rows]. apply isort_map. intros; apply lex_fp. Qed.

  Lemma fold_true D (f : DataFrame I * DataFrame I -> name -> DataFrame I * DataFrame I) cols :
    (forall t c col, f (t, c) col = (step D col t, step D col t)) ->
    forall X C : DataFrame I, fold_left f cols (X, C) = (steps D cols X, match cols with [] => C | _ => steps D cols X end).
  Proof.
    intros Hf. induction cols as [|col cols IH]; intros X C; [reflexivity|]. cbn [fold_left]. rewrite Hf, IH.
    change (steps D (col :: cols) X) with (steps D cols (step D col X)). now destruct cols.
  Qed.
  Lemma fold_false D (f : DataFrame I * DataFrame I -> name -> DataFrame I * DataFrame I) cols :
    (forall t c col, f (t, c) col = (step D col t, c)) ->
    forall X C : DataFrame I, fold_left f cols (X, C) = (steps D cols X, C).
  Proof.
    intros Hf. induction cols as [|col cols IH]; intros X C; [reflexivity|]. cbn [fold_left]. now rewrite Hf, IH.
  Qed.

  (* the generated subtract_drift with a drift table handed in *)
  Lemma gen_subtract_unfold T D inplace :
    py_subtract_drift I T (Some D) inplace =
    (if inplace then steps D (cv_cols D) (sorted_fp T) else T, steps D (cv_cols D) (sorted_fp T)).
  Proof.
    destruct inplace; unfold py_subtract_drift; cbv beta iota zeta delta [negb];
      change (p_copy I T) with T;
      change (p_has_column I T "particle") with true; cbv iota beta zeta;
      change (p_columns I D) with (cv_cols D);
      change (p_sort_index_level I (p_set_index_keep I T ["frame"; "particle"]) "frame") with (sorted_fp T).
    - match goal with |- context [fold_left ?f ?l ?i] =>
        assert (F : fold_left f l i = (steps D l (sorted_fp T), match l with [] => sorted_fp T | _ => steps D l (sorted_fp T) end))
          by (apply (fold_true D f l); reflexivity); rewrite F end.
      now destruct (cv_cols D).
    - match goal with |- context [fold_left ?f ?l ?i] =>
        assert (F : fold_left f l i = (steps D l (sorted_fp T), T))
          by (apply (fold_false D f l); reflexivity); rewrite F end.
      reflexivity.
  Qed.

  Theorem gen_subtract_drift_eq : forall T D,
    NoDup (cv_cols D) ->
    let out := py_subtract_drift I T (Some D) false in
    (* the caller's table is what it was *)
    fst out = T /\
    (* a column of the drift table: Model/Drift.v subtract_drift on that column *)
    (forall c, In c (cv_cols D) -> proj c (snd out) = subtract_drift (proj c T) (curve_col c D)) /\
    (* any other column: the rows in the new order, values untouched *)
    (forall c, ~ In c (cv_cols D) -> proj c (snd out) = isort le_fp (proj c T)).
  Proof.
    intros T D Hnd out. unfold out. rewrite gen_subtract_unfold. cbn [fst snd].
    split; [reflexivity|]. split; intros c Hc.
    - rewrite steps_proj_in; [|reflexivity|exact Hnd|exact Hc]. now rewrite sorted_fp_proj.
    - rewrite steps_proj_notin; [|reflexivity|exact Hc]. apply sorted_fp_proj.
  Qed.

  (* inplace=True: the caller's table IS the returned one *)
  Theorem gen_subtract_drift_inplace : forall T D,
    fst (py_subtract_drift I T (Some D) true) = snd (py_subtract_drift I T (Some D) true).
  Proof. intros. now rewrite gen_subtract_unfold. Qed.

  (* drift=None: the table's own drift, measured before anything is changed *)
  Theorem gen_subtract_own_eq : forall T,
    let out := py_subtract_drift I T None false in
    fst out = T /\
    (forall c, In c (py_guess_pos_columns I T) -> proj c (snd out) = subtract_own_drift (proj c T)) /\
    (forall c, ~ In c (py_guess_pos_columns I T) -> proj c (snd out) = isort le_fp (proj c T)).
  Proof.
    intros T out. unfold out.
    change (py_subtract_drift I T None false) with (py_subtract_drift I T (Some (py_compute_drift I T 0 None)) false).
    destruct (gen_compute_drift_default T 0%Z "x" (Z.le_refl 0)) as [_ Hc].
    change (p_columns I (py_compute_drift I T 0 None)) with (cv_cols (py_compute_drift I T 0 None)) in Hc.
    assert (Hnd : NoDup (cv_cols (py_compute_drift I T 0 None))) by (rewrite Hc; apply guess_ok).
    pose proof (gen_subtract_drift_eq T _ Hnd) as H. cbv zeta in H. destruct H as (H1 & H2 & H3).
    rewrite Hc in H2, H3. split; [exact H1|]. split; [|exact H3].
    intros c Hin. etransitivity; [exact (H2 c Hin)|]. unfold subtract_own_drift.
    now rewrite (proj1 (gen_compute_drift_default T 0%Z c (Z.le_refl 0))).
  Qed.

  (* ---- measuring again on the corrected table ------------------------------------------------ *)
  Lemma mem_add_other z c l : z <> c -> mem z (add_name c l) = mem z l.
  Proof.
    intros H. unfold add_name. destruct (mem c l); [reflexivity|].
    unfold mem. rewrite existsb_app. cbn. destruct (String.eqb_spec z c); [contradiction|].
    now rewrite !orb_false_r.
  Qed.
  Lemma mem_add_mono z c l : mem z l = true -> mem z (add_name c l) = true.
  Proof.
    intros H. unfold add_name. destruct (mem c l); [exact H|]. unfold mem in *. rewrite existsb_app. apply orb_true_iff. left. exact H.
  Qed.

  Lemma steps_cols D cols : forall X,
    mt_index X = ["frame"; "particle"] ->
    mt_cols (steps D cols X) = fold_left (fun l c => add_name c l) cols (mt_cols X).
  Proof.
    induction cols as [|col cols IH]; intros X Hi; [reflexivity|]. change (steps D (col :: cols) X) with (steps D cols (step D col X)).
    rewrite IH by apply (step_rows D col X Hi). cbn [fold_left]. f_equal; try apply (step_rows D col X Hi).
  Qed.

  Lemma guess_stable T :
    py_guess_pos_columns I (snd (py_subtract_drift I T None false)) = py_guess_pos_columns I T.
  Proof.
    change (py_subtract_drift I T None false) with (py_subtract_drift I T (Some (py_compute_drift I T 0 None)) false).
    rewrite gen_subtract_unfold. cbn [snd].
    destruct (gen_compute_drift_default T 0%Z "x" (Z.le_refl 0)) as [_ Hc].
    change (p_columns I (py_compute_drift I T 0 None)) with (cv_cols (py_compute_drift I T 0 None)) in Hc.
    rewrite Hc. unfold py_guess_pos_columns at 1 3.
    change (p_has_column I ?X "z") with (mem "z" (mt_cols X)).
    rewrite steps_cols by reflexivity. cbn [sorted_fp mt_cols].
    unfold py_guess_pos_columns. change (p_has_column I T "z") with (mem "z" (mt_cols T)).
    destruct (mem "z" (mt_cols T)) eqn:Ez; cbn [fold_left].
    - now rewrite (mem_add_mono _ _ _ (mem_add_mono _ _ _ (mem_add_mono _ _ _ Ez))).
    - rewrite !mem_add_other by discriminate. now rewrite Ez.
  Qed.

  Theorem gen_remeasure_eq : forall T c,
    In c (py_guess_pos_columns I T) ->
    curve_col c (py_compute_drift I (snd (py_subtract_drift I T None false)) 0 None) =
    compute_drift (subtract_own_drift (proj c T)).
  Proof.
    intros T c Hin.
    rewrite (proj1 (gen_compute_drift_default _ 0%Z c (Z.le_refl 0))).
    destruct (gen_subtract_own_eq T) as (_ & H & _). now rewrite (H c Hin).
  Qed.

  (* ---- the C18 theorems, for the generated functions ------------------------------------------ *)
  Theorem gen_drift_def : forall T pcs c,
    trajectory_table (proj c T) ->
    let d := curve_col c (py_compute_drift I T 0 pcs) in
    StronglySorted Z.lt (map fst d) /\
    (forall f, In f (map fst d) <-> measured (proj c T) f) /\
    is_cumsum (mean_disp (proj c T)) 0%Q d.
  Proof.
    intros T pcs c Ht d. unfold d.
    destruct pcs as [pcs|];
      [rewrite gen_compute_drift_eq by apply Z.le_refl
      |rewrite (proj1 (gen_compute_drift_default T 0%Z c (Z.le_refl 0)))]; now apply drift_def.
  Qed.

  Theorem gen_drift_order_independent : forall T T' pcs c,
    trajectory_table (proj c T) -> Permutation (mt_rows T) (mt_rows T') ->
    curve_col c (py_compute_drift I T 0 (Some pcs)) = curve_col c (py_compute_drift I T' 0 (Some pcs)).
  Proof.
    intros T T' pcs c Ht Hp. rewrite !gen_compute_drift_eq by apply Z.le_refl.
    apply drift_order_independent; [exact Ht|]. unfold proj. now apply Permutation_map.
  Qed.

  Theorem gen_subtract_exact : forall T D c,
    NoDup (cv_cols D) -> In c (cv_cols D) ->
    fst (py_subtract_drift I T (Some D) false) = T /\
    exists t0, Permutation t0 (proj c T) /\
      Forall2 (row_subtracted (curve_col c D)) t0 (proj c (snd (py_subtract_drift I T (Some D) false))).
  Proof.
    intros T D c Hnd Hin. destruct (gen_subtract_drift_eq T D Hnd) as (H1 & H2 & _).
    split; [exact H1|]. rewrite (H2 c Hin). apply subtract_exact.
  Qed.

  Theorem gen_subtract_other_columns : forall T D c,
    NoDup (cv_cols D) -> ~ In c (cv_cols D) ->
    Permutation (proj c (snd (py_subtract_drift I T (Some D) false))) (proj c T).
  Proof.
    intros T D c Hnd Hn. destruct (gen_subtract_drift_eq T D Hnd) as (_ & _ & H3).
    rewrite (H3 c Hn). apply isort_perm.
  Qed.

  Theorem gen_remeasured_zero : forall T c,
    In c (py_guess_pos_columns I T) ->
    trajectory_table (proj c T) -> gapless (proj c T) ->
    let again := curve_col c (py_compute_drift I (snd (py_subtract_drift I T None false)) 0 None) in
    map fst again = map fst (curve_col c (py_compute_drift I T 0 None)) /\
    Forall (fun fv : Z * Q => (snd fv == 0)%Q) again.
  Proof.
    intros T c Hin Ht Hg again. unfold again. rewrite (gen_remeasure_eq T c Hin).
    rewrite (proj1 (gen_compute_drift_default T 0%Z c (Z.le_refl 0))). now apply remeasured_zero.
  Qed.

  Theorem gen_rigid_removed : forall base cc T c f0,
    In c (py_guess_pos_columns I T) ->
    trajectory_table (proj c T) -> gapless (proj c T) -> rigid base cc (proj c T) ->
    (measured (proj c T) f0 /\ forall g, measured (proj c T) g -> (f0 <= g)%Z) ->
    forall r', In r' (proj c (snd (py_subtract_drift I T None false))) ->
    measured (proj c T) (frame r') \/ frame r' = (f0 - 1)%Z ->
    (pos r' == base (particle r') + cc (f0 - 1)%Z)%Q.
  Proof.
    intros base cc T c f0 Hin Ht Hg Hr Hf0 r' Hr'.
    destruct (gen_subtract_own_eq T) as (_ & H & _). rewrite (H c Hin) in Hr'.
    now apply (rigid_removed base cc (proj c T) f0).
  Qed.
End Gen.
