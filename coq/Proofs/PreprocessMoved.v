(* C09 -- translation equivariance WITH preprocessing, part 2: scale_to_gamut / convert_to_int commute
   with the move, and the image that locate(preprocess=True) hands to grey_dilation / refine_com is the moved image.

   preprocess_stage (Model/PreprocessMoved.v) = generated bandpass ; generated convert_to_int, on 2-D nested lists
   of exact rationals.  For an integer content pasted into a blank canvas with the padding of
   Model/BandpassShift.paddedb, the stage returns the canvas [embed sh (off - reach) content'] of ONE content'
   (pre_content: box grown by the filter reach) -- whatever the canvas shape and the offset.  The maximum that
   convert_to_int divides by is the same in both placements (the pixel values form the same set up to the blank
   value 0, and nothing is negative for a non-negative threshold), so is the scale factor.  With that,
   C09_embed_moved / C09_embed_content_inside / C09_embed_has_room give the premises of C09_maxima_moved and
   C09_locate_whole_moved for the PROCESSED images. *)
From Coq Require Import ZArith QArith Qround Qabs String List Bool Arith Lia Permutation Setoid Morphisms.
From TP Require Import Model.Bandpass Model.BandpassSpec Model.BandpassShift Model.BandpassGen Model.PyPreproc
                       Proofs.Bandpass Proofs.BandpassGen Proofs.BandpassShift.
From TP Require Gen.preproc.
From TP Require Import Model.Dilation Model.COM Model.Equivariance Model.PyTail Model.PyLocatehead Model.LocatePipe2
                       Gen.locatehead Model.PreprocessMoved Proofs.Dilation Proofs.Equivariance Proofs.LocateheadGen.
Import ListNotations.
Open Scope Z_scope.

(* ====================================================================== *)
(* int(): truncation toward zero depends on the value of the rational only *)
(* ====================================================================== *)
Lemma Qtrunc_nonneg q : (0 <= q)%Q -> Qtrunc q = Qfloor q.
Proof.
  intros H. destruct q as [n d]. unfold Qtrunc, Qfloor. cbn [Qnum Qden].
  unfold Qle in H. cbn in H. apply Z.quot_div_nonneg; lia.
Qed.

Lemma Qtrunc_opp q : Qtrunc (- q) = - Qtrunc q.
Proof. destruct q as [n d]. unfold Qtrunc. cbn [Qopp Qnum Qden]. apply Z.quot_opp_l. discriminate. Qed.

Lemma Qtrunc_comp x y : (x == y)%Q -> Qtrunc x = Qtrunc y.
Proof.
  intros E. destruct (Qlt_le_dec x 0) as [N|P].
  - assert (Px : (0 <= - x)%Q).
    { change 0%Q with (- 0)%Q. apply Qopp_le_compat. apply Qlt_le_weak. exact N. }
    assert (Py : (0 <= - y)%Q) by (rewrite <- E; exact Px).
    pose proof (Qtrunc_opp x) as Ox. pose proof (Qtrunc_opp y) as Oy.
    rewrite (Qtrunc_nonneg _ Px) in Ox. rewrite (Qtrunc_nonneg _ Py) in Oy.
    assert (F : Qfloor (- x) = Qfloor (- y)) by (apply Qfloor_comp; rewrite E; reflexivity).
    lia.
  - assert (Py : (0 <= y)%Q) by (rewrite <- E; exact P).
    rewrite (Qtrunc_nonneg _ P), (Qtrunc_nonneg _ Py). apply Qfloor_comp. exact E.
Qed.

Lemma Qtrunc_0 x : (x == 0)%Q -> Qtrunc x = 0.
Proof. intros E. rewrite (Qtrunc_comp x 0 E). reflexivity. Qed.

Lemma Qtrunc_ge0 x : (0 <= x)%Q -> 0 <= Qtrunc x.
Proof. intros P. rewrite (Qtrunc_nonneg _ P). change 0 with (Qfloor 0). apply Qfloor_resp_le. exact P. Qed.

Lemma clip0q_comp x y : (x == y)%Q -> (clip0q x == clip0q y)%Q.
Proof. intros E. exact (clip_compat 0%Q x y E). Qed.

Lemma clip0q_nonneg x : (0 <= clip0q x)%Q.
Proof. unfold clip0q. destruct (Qle_bool 0 x) eqn:E; [apply Qle_bool_iff, E|apply Qle_refl]. Qed.

(* ====================================================================== *)
(* nested lists as tables                                                  *)
(* ====================================================================== *)
Definition tab2 (H W : nat) (f : Z -> Z -> Q) : img2 :=
  map (fun i => map (fun j => f (Z.of_nat i) (Z.of_nat j)) (seq 0 W)) (seq 0 H).

Lemma rect2_tab2 H W f : rect2 H W (tab2 H W f).
Proof.
  split. unfold tab2. rewrite map_length, seq_length. reflexivity.
  apply Forall_forall. intros r Hr. unfold tab2 in Hr. apply in_map_iff in Hr as [i [<- _]].
  rewrite map_length, seq_length. reflexivity.
Qed.

Lemma px2_tab2 H W f i j : 0 <= i < Z.of_nat H -> 0 <= j < Z.of_nat W -> px2 (tab2 H W f) i j = f i j.
Proof.
  intros Hi Hj. unfold px2, tab2.
  rewrite (nth_map_seq (fun i => map (fun j => f (Z.of_nat i) (Z.of_nat j)) (seq 0 W)) H (Z.to_nat i) []) by lia.
  rewrite (nth_map_seq (fun j => f (Z.of_nat (Z.to_nat i)) (Z.of_nat j)) W (Z.to_nat j) 0%Q) by lia.
  rewrite !Z2Nat.id by lia. reflexivity.
Qed.

Lemma rect2_tabulate H W (a : img2) : rect2 H W a -> a = tab2 H W (px2 a).
Proof.
  intros R. pose proof R as [L _]. apply (nth_ext _ _ [] []).
  - unfold tab2. rewrite map_length, seq_length. exact L.
  - intros n Hn. rewrite L in Hn. unfold tab2.
    rewrite (nth_map_seq (fun i => map (fun j => px2 a (Z.of_nat i) (Z.of_nat j)) (seq 0 W)) H n []) by exact Hn.
    apply (nth_ext _ _ 0%Q 0%Q).
    + rewrite map_length, seq_length. apply (rect2_row H W a n R Hn).
    + intros m Hm. rewrite (rect2_row H W a n R Hn) in Hm.
      rewrite (nth_map_seq (fun j => px2 a (Z.of_nat n) (Z.of_nat j)) W m 0%Q) by exact Hm.
      unfold px2. rewrite !Nat2Z.id. reflexivity.
Qed.

Lemma img2_of_int_tab im Hz Wz : shape im = [Hz; Wz] ->
  img2_of_int im = tab2 (Z.to_nat Hz) (Z.to_nat Wz) (fun i j => inject_Z (pix im [i; j])).
Proof.
  intros S. unfold img2_of_int, tab2. rewrite S. cbn [ix nth]. unfold zrange. rewrite map_map.
  apply map_ext. intros i. rewrite map_map. reflexivity.
Qed.

(* every entry is a pixel, every pixel an entry *)
Lemma in_concat_px2 H W (a : img2) v : rect2 H W a -> In v (concat a) ->
  exists i j, 0 <= i < Z.of_nat H /\ 0 <= j < Z.of_nat W /\ v = px2 a i j.
Proof.
  intros R Hv. apply in_concat in Hv as [r [Hr Hvr]].
  destruct (In_nth _ _ [] Hr) as [n [Hn En]]. destruct (In_nth _ _ 0%Q Hvr) as [m [Hm Em]].
  pose proof R as [L _]. rewrite L in Hn.
  assert (Lr : length r = W) by (rewrite <- En; apply (rect2_row H W a n R Hn)). rewrite Lr in Hm.
  exists (Z.of_nat n), (Z.of_nat m). split; [lia|]. split; [lia|].
  unfold px2. rewrite !Nat2Z.id, En, Em. reflexivity.
Qed.

Lemma px2_in_concat H W (a : img2) i j : rect2 H W a -> 0 <= i < Z.of_nat H -> 0 <= j < Z.of_nat W ->
  In (px2 a i j) (concat a).
Proof.
  intros R Hi Hj. pose proof R as [L _]. apply in_concat. exists (nth (Z.to_nat i) a []). split.
  - apply nth_In. unfold row in *. lia.
  - unfold px2. apply nth_In. pose proof (rect2_row H W a (Z.to_nat i) R ltac:(lia)) as Lr. unfold row in *. lia.
Qed.

(* ====================================================================== *)
(* a.max()                                                                 *)
(* ====================================================================== *)
Definition qmaxf (a b : Q) : Q := if Qle_bool a b then b else a.

Lemma fold_qmax_spec l v0 :
  In (fold_left qmaxf l v0) (v0 :: l) /\ forall v, In v (v0 :: l) -> (v <= fold_left qmaxf l v0)%Q.
Proof.
  revert v0. induction l as [|x l IH]; intros v0; cbn [fold_left].
  - split; [left; reflexivity|]. intros v [<-|[]]. apply Qle_refl.
  - destruct (IH (qmaxf v0 x)) as [I M]. split.
    + destruct I as [E|I]; [|right; right; exact I].
      rewrite <- E. unfold qmaxf. destruct (Qle_bool v0 x); [right; left; reflexivity|left; reflexivity].
    + assert (A : (v0 <= qmaxf v0 x)%Q /\ (x <= qmaxf v0 x)%Q).
      { unfold qmaxf. destruct (Qle_bool v0 x) eqn:E.
        - split; [apply Qle_bool_iff, E|apply Qle_refl].
        - split; [apply Qle_refl|apply Qlt_le_weak, Qle_bool_false, E]. }
      intros v [<-|[<-|Hv]].
      * eapply Qle_trans; [apply A|]. apply M. left; reflexivity.
      * eapply Qle_trans; [apply A|]. apply M. left; reflexivity.
      * apply M. right; exact Hv.
Qed.

Lemma qmax_list_spec l m : qmax_list l = Some m -> In m l /\ forall v, In v l -> (v <= m)%Q.
Proof.
  destruct l as [|v0 l]; [discriminate|]. cbn [qmax_list]. intros E. injection E as <-.
  exact (fold_qmax_spec l v0).
Qed.

Lemma qmax_list_some l : l <> [] -> exists m, qmax_list l = Some m.
Proof. destruct l; [congruence|]. intros _. eexists. reflexivity. Qed.

(* one non-negative content shown in two canvases: the maximum of the first is at most that of the second *)
Lemma pasted_max_le H1 W1 H2 W2 oy1 ox1 oy2 ox2 h w g (out1 out2 : img2) m1 m2 :
  pasted2 H1 W1 oy1 ox1 h w g out1 -> pasted2 H2 W2 oy2 ox2 h w g out2 ->
  0 <= oy2 -> oy2 + h <= Z.of_nat H2 -> 0 <= ox2 -> ox2 + w <= Z.of_nat W2 ->
  (forall u v, (0 <= g u v)%Q) ->
  qmax_list (concat out1) = Some m1 -> qmax_list (concat out2) = Some m2 -> (m1 <= m2)%Q.
Proof.
  intros [R1 P1] [R2 P2] A1 A2 A3 A4 G E1 E2.
  destruct (qmax_list_spec _ _ E1) as [I1 _]. destruct (qmax_list_spec _ _ E2) as [I2 M2].
  destruct (in_concat_px2 H1 W1 out1 m1 R1 I1) as (i & j & Hi & Hj & ->).
  rewrite (P1 i j Hi Hj). unfold place2.
  destruct (in_iv oy1 h i && in_iv ox1 w j) eqn:B.
  - apply andb_true_iff in B as [Bi Bj]. apply in_iv_true in Bi, Bj.
    set (i2 := i - oy1 + oy2). set (j2 := j - ox1 + ox2).
    assert (Hi2 : 0 <= i2 < Z.of_nat H2) by (unfold i2; lia).
    assert (Hj2 : 0 <= j2 < Z.of_nat W2) by (unfold j2; lia).
    pose proof (M2 _ (px2_in_concat H2 W2 out2 i2 j2 R2 Hi2 Hj2)) as Le.
    rewrite (P2 i2 j2 Hi2 Hj2) in Le. unfold place2 in Le.
    assert (Bi2 : in_iv oy2 h i2 = true) by (apply in_iv_true; unfold i2; lia).
    assert (Bj2 : in_iv ox2 w j2 = true) by (apply in_iv_true; unfold j2; lia).
    rewrite Bi2, Bj2 in Le. cbn [andb] in Le.
    replace (i2 - oy2) with (i - oy1) in Le by (unfold i2; lia).
    replace (j2 - ox2) with (j - ox1) in Le by (unfold j2; lia). exact Le.
  - destruct (in_concat_px2 H2 W2 out2 m2 R2 I2) as (i2 & j2 & Hi2 & Hj2 & ->).
    rewrite (P2 i2 j2 Hi2 Hj2). unfold place2. destruct (in_iv oy2 h i2 && in_iv ox2 w j2); [apply G|apply Qle_refl].
Qed.

(* ====================================================================== *)
(* the integer canvas read as numbers; the truncated array as an image     *)
(* ====================================================================== *)
Lemma embed_pasted2 Hz Wz oy ox content h w :
  shape content = [h; w] -> (forall c, pix content c <> 0 -> in_bounds (shape content) c) ->
  pasted2 (Z.to_nat Hz) (Z.to_nat Wz) oy ox h w (content_fn content) (img2_of_int (embed [Hz; Wz] [oy; ox] content)).
Proof.
  intros S Hw. rewrite (img2_of_int_tab _ Hz Wz) by reflexivity. split; [apply rect2_tab2|].
  intros i j Hi Hj. rewrite px2_tab2 by assumption. rewrite pix_embed.
  assert (B : inb [Hz; Wz] [i; j] = true) by (apply inb_iff; repeat constructor; lia).
  rewrite B. cbn [vsub]. unfold place2, content_fn.
  destruct (in_iv oy h i && in_iv ox w j) eqn:E; [reflexivity|].
  destruct (Z.eq_dec (pix content [i - oy; j - ox]) 0) as [->|N]; [reflexivity|]. exfalso.
  apply Hw in N. rewrite S in N. apply inb_iff in N. cbn [inb] in N.
  rewrite !andb_true_iff, !Z.leb_le, !Z.ltb_lt in N.
  apply andb_false_iff in E. destruct E as [E|E]; apply in_iv_false in E; lia.
Qed.

Lemma map_rows_tab H W (a : img2) (F : Q -> arr) : rect2 H W a ->
  map (fun r => Node (map F r)) a =
  map (fun i => Node (map (fun j => F (px2 a (Z.of_nat i) (Z.of_nat j))) (seq 0 W))) (seq 0 H).
Proof.
  intros R. transitivity (map (fun r => Node (map F r)) (tab2 H W (px2 a))).
  - f_equal. apply rect2_tabulate, R.
  - unfold tab2. rewrite map_map. apply map_ext. intros i. rewrite map_map. reflexivity.
Qed.

Lemma trunc_is_embed Hz Wz (a : img2) oy ox c' :
  0 < Hz -> 0 <= Wz -> rect2 (Z.to_nat Hz) (Z.to_nat Wz) a ->
  (forall i j, 0 <= i < Hz -> 0 <= j < Wz -> Qtrunc (px2 a i j) = pix c' [i - oy; j - ox]) ->
  fo_trunc fops2 a = embed [Hz; Wz] [oy; ox] c'.
Proof.
  intros H0 W0 R P. unfold embed. cbn [fo_trunc fops2]. f_equal.
  - pose proof R as [L F]. destruct a as [|r a']; [cbn in L; lia|].
    inversion F as [|? ? Lr _]; subst. cbn [hd]. unfold row in *. rewrite L, Lr. f_equal; [lia|f_equal; lia].
  - cbn [arr_of]. f_equal. unfold zrange. rewrite !map_map.
    rewrite (map_rows_tab (Z.to_nat Hz) (Z.to_nat Wz) a (fun v => Leaf (Qtrunc v)) R).
    apply map_ext_in. intros i Hi. apply in_seq in Hi. f_equal. rewrite map_map.
    apply map_ext_in. intros j Hj. apply in_seq in Hj. f_equal. cbn [vsub]. apply P; lia.
Qed.

Lemma padded2_unpackZ Hz Wz oy ox h w gy gx by_ bx :
  paddedb [Hz; Wz] [oy; ox] [h; w] [gy; gx] [by_; bx] = true ->
  Z.max gy by_ <= oy /\ oy + h + Z.max gy by_ <= Hz /\ Z.max gx bx <= ox /\ ox + w + Z.max gx bx <= Wz.
Proof. cbn [paddedb]. rewrite !andb_true_iff, !Z.leb_le. tauto. Qed.

(* ====================================================================== *)
(* convert_to_int's scale factor                                           *)
(* ====================================================================== *)
Definition sf_of (dt : int_dtype) (vmax : Q) : Q :=
  if Qeq_bool vmax 0 then 1%Q else (inject_Z (iinfo_max dt) / vmax)%Q.

Lemma sf_of_comp dt v1 v2 : (v1 == v2)%Q -> (sf_of dt v1 == sf_of dt v2)%Q.
Proof.
  intros E. unfold sf_of. destruct (Qeq_bool v1 0) eqn:E1, (Qeq_bool v2 0) eqn:E2; try reflexivity.
  - apply Qeq_bool_iff in E1. rewrite E in E1. apply Qeq_bool_iff in E1. congruence.
  - apply Qeq_bool_iff in E2. rewrite <- E in E2. apply Qeq_bool_iff in E2. congruence.
  - rewrite E. reflexivity.
Qed.

Lemma sf_of_nonneg dt v : 0 <= iinfo_max dt -> (0 <= v)%Q -> (0 <= sf_of dt v)%Q.
Proof.
  intros Hd Hv. unfold sf_of. destruct (Qeq_bool v 0); [discriminate|].
  unfold Qdiv. apply Qmult_le_0_compat.
  - change 0%Q with (inject_Z 0). rewrite <- Zle_Qle. exact Hd.
  - apply Qinv_le_0_compat. exact Hv.
Qed.

(* ====================================================================== *)
(* the stage on a padded canvas                                            *)
(* ====================================================================== *)
Section Stage.
  Variables (np_exp : Q -> Q) (dt : int_dtype) (content : image) (h w : Z) (ny nx : Q) (sy sx : Z) (thr : Q).
  Hypothesis S : shape content = [h; w].
  Hypothesis Hwf : forall c, pix content c <> 0 -> in_bounds (shape content) c.
  Hypothesis Hh : 1 <= h.
  Hypothesis Hw : 1 <= w.
  Hypothesis Hthr : (0 <= thr)%Q.
  Hypothesis Hdt : 0 <= iinfo_max dt.
  Hypothesis Sy1 : 1 <= sy.
  Hypothesis Sx1 : 1 <= sx.
  Hypothesis Gy : (ny < inject_Z sy)%Q.
  Hypothesis Gx : (nx < inject_Z sx)%Q.
  Hypothesis Oy : Z.odd sy = true.
  Hypothesis Ox : Z.odd sx = true.

  Let T := Gen.preproc.py_bandpass_default_truncate.
  Let py := stage_par np_exp ny sy.
  Let px := stage_par np_exp nx sx.
  Let ry := stage_reach np_exp ny sy.
  Let rx := stage_reach np_exp nx sx.
  Let bpc := bp_content2 T py px thr h w (content_fn content).

  Lemma T_nonneg : (0 <= T)%Q.
  Proof. unfold T, Gen.preproc.py_bandpass_default_truncate. discriminate. Qed.

  Lemma bpc_nonneg u v : (0 <= bpc u v)%Q.
  Proof. apply bp_content2_nonneg. exact Hthr. Qed.

  Lemma stage_bandpass_ok raw :
    exists out, bandpass2 T py px thr (img2_of_int raw) = Ok out /\
                Gen.preproc.py_bandpass nd2 np_exp (img2_of_int raw) np_integer_dtype (PySeq [ny; nx]) (PySeq [sy; sx])
                                        (Some thr) T = Ret out.
  Proof.
    rewrite (gen_bandpass2_eq np_exp T (PySeq [ny; nx]) (PySeq [sy; sx]) ny nx sy sx (Some thr) np_integer_dtype
                              (img2_of_int raw) eq_refl eq_refl).
    cbn [effective_threshold]. change (axis_of np_exp T ny sy) with py. change (axis_of np_exp T nx sx) with px.
    pose proof (bandpass2_outcome T py px thr (img2_of_int raw)) as O.
    destruct (bandpass2 T py px thr (img2_of_int raw)) as [out| |].
    - exists out. split; reflexivity.
    - exfalso. destruct O as [G|G]; apply Qle_not_lt in G; apply G; assumption.
    - exfalso. destruct O as [_ [G|G]]; cbn in G; congruence.
  Qed.

  Lemma pix_pre_content sf sf' x i j oy' ox' :
    (sf' == sf)%Q -> (x == place2 oy' ox' (h + 2 * ry) (w + 2 * rx) bpc i j)%Q ->
    Qtrunc (sf' * clip0q x) = pix (pre_content np_exp sf ny nx sy sx thr content) [i - oy'; j - ox'].
  Proof.
    intros Es Ex. unfold pix, pre_content. cbn [data]. rewrite get_arr_of. unfold pre_shape. rewrite S. cbn [ix nth].
    fold ry rx. unfold place2 in Ex.
    destruct (in_iv oy' (h + 2 * ry) i && in_iv ox' (w + 2 * rx) j) eqn:B.
    - apply andb_true_iff in B as [Bi Bj]. apply in_iv_true in Bi, Bj.
      assert (C : inb [h + 2 * ry; w + 2 * rx] [i - oy'; j - ox'] = true) by (apply inb_iff; repeat constructor; lia).
      rewrite C. unfold pre_value. rewrite S. cbn [ix nth].
      apply Qtrunc_comp. rewrite Es. apply Qmult_comp; [reflexivity|]. apply clip0q_comp. exact Ex.
    - destruct (inb [h + 2 * ry; w + 2 * rx] [i - oy'; j - ox']) eqn:C.
      + exfalso. cbn [inb] in C. rewrite !andb_true_iff, !Z.leb_le, !Z.ltb_lt in C.
        apply andb_false_iff in B. destruct B as [B|B]; apply in_iv_false in B; lia.
      + apply Qtrunc_0. rewrite (clip0q_comp _ _ Ex). change (clip0q 0) with 0%Q. ring.
  Qed.

  (* one canvas *)
  Lemma stage_canvas Hz Wz oy ox :
    paddedb [Hz; Wz] [oy; ox] [h; w] [ghw_of T py; ghw_of T px] [bhw_of py; bhw_of px] = true ->
    exists out vmax,
      pasted2 (Z.to_nat Hz) (Z.to_nat Wz) (oy - ry) (ox - rx) (h + 2 * ry) (w + 2 * rx) bpc out /\
      qmax_list (List.concat out) = Some vmax /\ (0 <= vmax)%Q /\
      preprocess_stage np_exp dt (embed [Hz; Wz] [oy; ox] content) [ny; nx] [sy; sx] thr =
        ROk (sf_of dt vmax,
             ImZ dt (fo_trunc fops2 (map (map (fun v => (sf_of dt vmax * v)%Q)) (map (map clip0q) out)))) /\
      0 <= ry <= oy /\ oy + h + ry <= Hz /\ 0 <= rx <= ox /\ ox + w + rx <= Wz.
  Proof.
    intros Hpad. pose proof (padded2_unpackZ _ _ _ _ _ _ _ _ _ _ Hpad) as U.
    fold (reach_of T py) (reach_of T px) in U. change (reach_of T py) with ry in U. change (reach_of T px) with rx in U.
    destruct U as (Y1 & Y2 & X1 & X2).
    assert (Spy : (1 <= size py)%Z) by exact Sy1. assert (Spx : (1 <= size px)%Z) by exact Sx1.
    destruct (reach_of_bounds T py Spy) as (Ry0 & _ & _). destruct (reach_of_bounds T px Spx) as (Rx0 & _ & _).
    change (reach_of T py) with ry in Ry0. change (reach_of T px) with rx in Rx0.
    assert (HzE : Z.of_nat (Z.to_nat Hz) = Hz) by lia. assert (WzE : Z.of_nat (Z.to_nat Wz) = Wz) by lia.
    destruct (stage_bandpass_ok (embed [Hz; Wz] [oy; ox] content)) as (out & Eb & Ep).
    pose proof (embed_pasted2 Hz Wz oy ox content h w S Hwf) as Pin.
    assert (Hpad' : paddedb [Z.of_nat (Z.to_nat Hz); Z.of_nat (Z.to_nat Wz)] [oy; ox] [h; w]
                            [ghw_of T py; ghw_of T px] [bhw_of py; bhw_of px] = true) by (rewrite HzE, WzE; exact Hpad).
    pose proof (bandpass2_pasted _ _ T py px thr oy ox h w _ _ out T_nonneg Spy Spx Pin Hpad' Eb) as Pout.
    change (reach_of T py) with ry in Pout. change (reach_of T px) with rx in Pout.
    fold bpc in Pout.
    pose proof Pout as [Rout Pp].
    assert (Hne : List.concat out <> []).
    { intros Hnil. pose proof (px2_in_concat _ _ out 0 0 Rout ltac:(lia) ltac:(lia)) as I. rewrite Hnil in I. exact I. }
    destruct (qmax_list_some _ Hne) as [vmax Emax].
    assert (Vpos : (0 <= vmax)%Q).
    { destruct (qmax_list_spec _ _ Emax) as [I _].
      destruct (in_concat_px2 _ _ out vmax Rout I) as (i & j & Hi & Hj & ->).
      rewrite (Pp i j Hi Hj). unfold place2. destruct (_ && _); [apply bpc_nonneg|apply Qle_refl]. }
    exists out, vmax. split; [exact Pout|]. split; [exact Emax|]. split; [exact Vpos|]. split; [|lia].
    unfold preprocess_stage. fold T. rewrite Ep. cbn [of_bandpass rbind].
    rewrite (convert_to_int_float fops2 out dt vmax Emax). reflexivity.
  Qed.

  (* ... is the canvas of pre_content, for any reference scale factor equal (as a number) to its own *)
  Lemma stage_image_is_embed Hz Wz oy ox out vmax sfr :
    pasted2 (Z.to_nat Hz) (Z.to_nat Wz) (oy - ry) (ox - rx) (h + 2 * ry) (w + 2 * rx) bpc out ->
    0 < Hz -> 0 <= Wz -> (sf_of dt vmax == sfr)%Q ->
    fo_trunc fops2 (map (map (fun v => (sf_of dt vmax * v)%Q)) (map (map clip0q) out)) =
    embed [Hz; Wz] [oy - ry; ox - rx] (pre_content np_exp sfr ny nx sy sx thr content).
  Proof.
    intros [Rout Pp] H0 W0 Es. apply trunc_is_embed; try assumption.
    - apply rect2_map, rect2_map, Rout.
    - intros i j Hi Hj.
      rewrite (px2_map (Z.to_nat Hz) (Z.to_nat Wz)) by (try apply rect2_map; try exact Rout; lia).
      rewrite (px2_map (Z.to_nat Hz) (Z.to_nat Wz)) by (try exact Rout; lia).
      apply pix_pre_content; [exact Es|]. apply Pp; lia.
  Qed.

  Lemma pre_content_shape sf : shape (pre_content np_exp sf ny nx sy sx thr content) = [h + 2 * ry; w + 2 * rx].
  Proof. cbn [pre_content shape]. unfold pre_shape. rewrite S. reflexivity. Qed.

  Lemma pre_content_wf sf c : pix (pre_content np_exp sf ny nx sy sx thr content) c <> 0 ->
    in_bounds (shape (pre_content np_exp sf ny nx sy sx thr content)) c.
  Proof. exact (tab_wf _ _ c). Qed.

  Lemma pre_content_nonneg sf c : (0 <= sf)%Q -> 0 <= pix (pre_content np_exp sf ny nx sy sx thr content) c.
  Proof.
    intros Hs. apply (tab_nonneg (pre_shape np_exp ny nx sy sx content) (pre_value np_exp sf ny nx sy sx thr content)).
    intros p. unfold pre_value. apply Qtrunc_ge0. apply Qmult_le_0_compat; [exact Hs|apply clip0q_nonneg].
  Qed.

  (* ---- two placements of the same content ---- *)
  Theorem preprocess_stage_embed H1 W1 oy1 ox1 H2 W2 oy2 ox2 :
    paddedb [H1; W1] [oy1; ox1] [h; w] [ghw_of T py; ghw_of T px] [bhw_of py; bhw_of px] = true ->
    paddedb [H2; W2] [oy2; ox2] [h; w] [ghw_of T py; ghw_of T px] [bhw_of py; bhw_of px] = true ->
    exists sf1 sf2,
      let content' := pre_content np_exp sf1 ny nx sy sx thr content in
      preprocess_stage np_exp dt (embed [H1; W1] [oy1; ox1] content) [ny; nx] [sy; sx] thr =
        ROk (sf1, ImZ dt (embed [H1; W1] [oy1 - ry; ox1 - rx] content')) /\
      preprocess_stage np_exp dt (embed [H2; W2] [oy2; ox2] content) [ny; nx] [sy; sx] thr =
        ROk (sf2, ImZ dt (embed [H2; W2] [oy2 - ry; ox2 - rx] content')) /\
      (sf1 == sf2)%Q /\
      shape content' = [h + 2 * ry; w + 2 * rx] /\
      (forall c, pix content' c <> 0 -> in_bounds (shape content') c) /\
      (forall c, 0 <= pix content' c) /\
      fitsb [H1; W1] [oy1 - ry; ox1 - rx] (shape content') [0; 0] = true /\
      fitsb [H2; W2] [oy2 - ry; ox2 - rx] (shape content') [0; 0] = true.
  Proof.
    intros D1 D2.
    destruct (stage_canvas H1 W1 oy1 ox1 D1) as (out1 & v1 & P1 & M1 & V1 & E1 & B1).
    destruct (stage_canvas H2 W2 oy2 ox2 D2) as (out2 & v2 & P2 & M2 & V2 & E2 & B2).
    assert (Ev : (v1 == v2)%Q).
    { apply Qle_antisym.
      - apply (pasted_max_le _ _ _ _ _ _ _ _ _ _ _ out1 out2 v1 v2 P1 P2); try exact M1; try exact M2; try exact bpc_nonneg; lia.
      - apply (pasted_max_le _ _ _ _ _ _ _ _ _ _ _ out2 out1 v2 v1 P2 P1); try exact M1; try exact M2; try exact bpc_nonneg; lia. }
    exists (sf_of dt v1), (sf_of dt v2). cbv zeta.
    split. { rewrite E1. do 3 f_equal. apply stage_image_is_embed; [exact P1|lia|lia|reflexivity]. }
    split. { rewrite E2. do 3 f_equal. apply stage_image_is_embed; [exact P2|lia|lia|]. symmetry. apply sf_of_comp, Ev. }
    split. { apply sf_of_comp, Ev. }
    split. { apply pre_content_shape. }
    split. { intros c. apply pre_content_wf. }
    split. { intros c. apply pre_content_nonneg. apply sf_of_nonneg; assumption. }
    rewrite pre_content_shape. cbn [fitsb]. rewrite !andb_true_iff, !Z.leb_le. lia.
  Qed.
End Stage.

(* ====================================================================== *)
(* the processed images are moved; the premises of the discrete theorems   *)
(* ====================================================================== *)
Theorem preprocess_moved np_exp dt content h w ny nx sy sx thr :
  shape content = [h; w] -> (forall c, pix content c <> 0 -> in_bounds (shape content) c) ->
  1 <= h -> 1 <= w -> (0 <= thr)%Q -> 0 <= iinfo_max dt -> 1 <= sy -> 1 <= sx ->
  (ny < inject_Z sy)%Q -> (nx < inject_Z sx)%Q -> Z.odd sy = true -> Z.odd sx = true ->
  forall H1 W1 oy1 ox1 H2 W2 oy2 ox2,
  let T := Gen.preproc.py_bandpass_default_truncate in
  let py := stage_par np_exp ny sy in
  let px := stage_par np_exp nx sx in
  let ry := stage_reach np_exp ny sy in
  let rx := stage_reach np_exp nx sx in
  let csh' := [h + 2 * ry; w + 2 * rx] in
  let d := vsub [oy2; ox2] [oy1; ox1] in
  paddedb [H1; W1] [oy1; ox1] [h; w] [ghw_of T py; ghw_of T px] [bhw_of py; bhw_of px] = true ->
  paddedb [H2; W2] [oy2; ox2] [h; w] [ghw_of T py; ghw_of T px] [bhw_of py; bhw_of px] = true ->
  exists sf1 sf2 im1 im2,
    preprocess_stage np_exp dt (embed [H1; W1] [oy1; ox1] content) [ny; nx] [sy; sx] thr = ROk (sf1, ImZ dt im1) /\
    preprocess_stage np_exp dt (embed [H2; W2] [oy2; ox2] content) [ny; nx] [sy; sx] thr = ROk (sf2, ImZ dt im2) /\
    (sf1 == sf2)%Q /\ shape im1 = [H1; W1] /\ shape im2 = [H2; W2] /\
    moved d im1 im2 /\
    (forall p, 0 <= pix im1 p) /\ (forall p, 0 <= pix im2 p) /\
    (forall mg, fitsb [H1; W1] [oy1 - ry; ox1 - rx] csh' mg = true -> content_inside mg im1) /\
    (forall mg, fitsb [H2; W2] [oy2 - ry; ox2 - rx] csh' mg = true -> content_inside mg im2) /\
    (forall P, let m := map (fun r => r + Z.of_nat (pred (iters_of (lp_maxit P)))) (lp_radius P) in
               fitsb [H1; W1] [oy1 - ry; ox1 - rx] csh' m = true -> fitsb [H2; W2] [oy2 - ry; ox2 - rx] csh' m = true ->
               content_has_room P d im1 im2).
Proof.
  intros S Hwf Hh Hw Hthr Hdt Sy1 Sx1 Gy Gx Oy Ox H1 W1 oy1 ox1 H2 W2 oy2 ox2 T py px ry rx csh' d D1 D2.
  destruct (preprocess_stage_embed np_exp dt content h w ny nx sy sx thr S Hwf Hh Hw Hthr Hdt Sy1 Sx1 Gy Gx Oy Ox
              H1 W1 oy1 ox1 H2 W2 oy2 ox2 D1 D2) as (sf1 & sf2 & E1 & E2 & Es & Sc & Wc & Nc & F1 & F2).
  fold ry rx in E1, E2, Sc, F1, F2.
  set (content' := pre_content np_exp sf1 ny nx sy sx thr content) in *.
  exists sf1, sf2, (embed [H1; W1] [oy1 - ry; ox1 - rx] content'), (embed [H2; W2] [oy2 - ry; ox2 - rx] content').
  split; [exact E1|]. split; [exact E2|]. split; [exact Es|]. split; [reflexivity|]. split; [reflexivity|].
  assert (Ed : d = vsub [oy2 - ry; ox2 - rx] [oy1 - ry; ox1 - rx]).
  { unfold d. cbn [vsub]. f_equal; [lia|f_equal; lia]. }
  split.
  { rewrite Ed. apply embed_moved; try reflexivity.
    intros c _ Hc. apply Wc in Hc.
    destruct (fitsb_spec _ _ _ _ c F1 Hc) as [A _]. destruct (fitsb_spec _ _ _ _ c F2 Hc) as [B _]. split; assumption. }
  split. { apply embed_nonneg. exact Nc. }
  split. { apply embed_nonneg. exact Nc. }
  split. { intros mg Hf. apply embed_content_inside; [reflexivity|exact Wc|]. rewrite Sc. exact Hf. }
  split. { intros mg Hf. apply embed_content_inside; [reflexivity|exact Wc|]. rewrite Sc. exact Hf. }
  intros P m Hf1 Hf2. rewrite Ed. apply embed_has_room; try reflexivity; try exact Wc; rewrite Sc; assumption.
Qed.

(* ====================================================================== *)
(* the generated head with preprocess=True on an integer image runs the stage *)
(* ====================================================================== *)
Definition head_after (npp : list Z -> Q -> Q) (NA : bool) (dt : int_dtype) (rawim : image) (V : largs)
           (minmass maxsize : option Q) (topn : option nat) (percentile : Q) (maxit : Z) (ch : bool) (engine : string)
           (x : Q * np_img img2) :=
  let '(scale_factor, image) := x in
  let radius := radius_of (a_diameter V) in
  let margin := margin_of V in
  rbind (img_as_int image) (fun im =>
  let coords := Gen.find.grey_dilation npp false im (a_sep V) percentile (Some margin) false in
  rbind (img_as_int (ImZ (A := img2) dt rawim)) (fun rw =>
  rbind (of_refine (Gen.refine.py_refine_com NA (zarr_of rw) (zarr_of im) (PyRefine.RTuple radius)
                      (PyRefine.CArray (np_rows_as_array im coords)) maxit engine
                      Gen.refine.py_refine_com_default_shift_thresh ch Gen.refine.py_refine_com_default_pos_columns))
        (fun rc => ROk (rc, a_sep V, PyRefine.default_pos_columns (img_ndim fops2 image), scale_factor,
                        match minmass with Some m => m | None => 0%Q end, maxsize, topn, ch,
                        image, ImZ (A := img2) dt rawim, radius, List.length (img_shape fops2 (ImZ dt rawim)), a_noise V,
                        coords, margin)))).

Theorem gen_head_preprocess_stage npp nexp NA dt raw0 diameter minmass maxsize separation noise_size smoothing_size threshold
        percentile topn maxit fa ch engine :
  let raw := squeeze_image raw0 in
  py_locate_head fops2 npp nexp NA (ImZ dt raw0) diameter minmass maxsize separation noise_size smoothing_size threshold
                 false percentile topn true maxit None fa ch engine =
  rbind (locate_args (List.length (shape raw)) diameter maxsize separation smoothing_size noise_size) (fun V =>
  rbind (preprocess_stage nexp dt raw (a_noise V) (a_smooth V) (match threshold with Some t => t | None => 1%Q end))
        (head_after npp NA dt raw V minmass maxsize topn percentile maxit ch engine)).
Proof.
  intros raw. rewrite head_preprocess. cbn [np_squeeze img_shape]. fold raw.
  destruct (locate_args _ _ _ _ _ _) as [V|e]; cbn [rbind]; [|reflexivity].
  unfold preprocess_stage, threshold_of. cbn [img_is_integer img_as_float img_pp_dtype fo_nd fops2].
  destruct (of_bandpass _) as [image|e]; cbn [rbind]; [|reflexivity].
  unfold head_rest. cbn [img_is_integer img_dtype].
  destruct (py_convert_to_int fops2 image (DInt dt)) as [[sf image']|e]; cbn [rbind]; reflexivity.
Qed.

(* ====================================================================== *)
(* refinement with a raw image of its own, and the whole generated head    *)
(* ====================================================================== *)
Lemma refine_python_moved d im1 im2 raw1 raw2 radius thresh maxit ch start :
  moved d im1 im2 -> moved d raw1 raw2 -> List.length (shape raw1) = List.length (shape im1) ->
  List.length d = List.length (shape im1) -> List.length radius = List.length (shape im1) ->
  List.length start = List.length (shape im1) ->
  room radius (shape im1) (pred (iters_of maxit)) start -> room radius (shape im2) (pred (iters_of maxit)) (vadd start d) ->
  row_moved d (refine_python (pix im1) (pix raw1) radius (shape im1) thresh maxit ch start)
              (refine_python (pix im2) (pix raw2) radius (shape im2) thresh maxit ch (vadd start d)).
Proof.
  intros [_ Hm] [_ Hr] Lraw Hd Lr Hs R1 R2. unfold refine_python, ref_run.
  assert (Hpix : forall p, List.length p = List.length radius -> pix im2 (vadd p d) = pix im1 p) by (intros p Hp; apply Hm; lia).
  assert (Hraw : forall p, List.length p = List.length radius -> pix raw2 (vadd p d) = pix raw1 p) by (intros p Hp; apply Hr; lia).
  destruct (ref_loop_moved (pix im1) (pix im2) radius (shape im1) (shape im2) d thresh
              (binary_mask radius) ltac:(lia) Hpix (pred (iters_of maxit)) start ltac:(lia) R1 R2) as [E1 [E2 E3]].
  apply ref_output_moved; try assumption. lia.
Qed.

Section HeadAfter.
  Variable npp : list Z -> Q -> Q.
  Variable NA : bool.
  Variable percentile : Q.
  Hypothesis Hperm : forall l l', Permutation l l' -> npp l percentile = npp l' percentile.
  Hypothesis Hnn : forall l, (forall v, In v l -> 0 <= v) -> (0 <= npp l percentile)%Q.

  (* the rows refine_com reports for the processed image im and the raw image raw *)
  Definition pre_rows (P : lparams) (raw im : image) : list output :=
    map (refine_python (pix im) (pix raw) (lp_radius P) (shape im) (lp_thresh P) (lp_maxit P) (lp_char P))
        (find_maxima (fun l => npp l percentile) P im).

  Lemma head_after_runs dt raw im V minmass maxsize topn maxit ch engine sf :
    Forall (fun s => (0 <= s)%Q) (a_sep V) ->
    List.length (shape im) = List.length (shape raw) -> List.length (a_diameter V) = List.length (shape raw) ->
    List.length (a_sep V) = List.length (shape im) -> List.length (lp_margin (lp_of V maxit ch)) = List.length (shape im) ->
    Forall (fun s => 1 <= s) (sizes_of im (a_sep V)) ->
    py_engine NA (List.length (shape raw)) engine ->
    exists r, head_after npp NA dt raw V minmass maxsize topn percentile maxit ch engine (sf, ImZ dt im) = ROk r /\
              PyRefine.of_rows (head_frame r) = map COMRefine.ref_row (pre_rows (lp_of V maxit ch) raw im) /\
              head_coords r = find_maxima (fun l => npp l percentile) (lp_of V maxit ch) im.
  Proof.
    intros Hsep Lim Ld Ls Lm Hsz Heng. unfold head_after. cbn [img_as_int rbind].
    rewrite Proofs.FindGen.gen_grey_dilation_eq by exact Hsep.
    change (grey_dilation (fun l => npp l percentile) false im (a_sep V) (Some (margin_of V)) false)
      with (find_maxima (fun l => npp l percentile) (lp_of V maxit ch) im).
    assert (Lr : List.length (radius_of (a_diameter V)) = List.length (shape raw)) by (unfold radius_of; now rewrite map_length).
    rewrite (refine_com_frame NA raw im (radius_of (a_diameter V)) _ maxit engine ch Lim Lr).
    2:{ apply Forall_forall. intros p Hp. rewrite <- Lim. eapply maxima_length; try exact Hp; assumption. }
    2:{ exact Heng. }
    cbn [rbind]. eexists. split; [reflexivity|]. cbn [head_frame head_coords PyRefine.of_rows]. split; [|reflexivity].
    unfold COMRefine.refine_rows, pre_rows. rewrite map_map. reflexivity.
  Qed.

  Lemma pre_rows_moved d P raw1 raw2 im1 im2 :
    moved d im1 im2 -> moved d raw1 raw2 -> List.length (shape raw1) = List.length (shape im1) ->
    List.length d = List.length (shape im1) ->
    List.length (lp_sep P) = List.length (shape im1) -> List.length (lp_margin P) = List.length (shape im1) ->
    List.length (lp_radius P) = List.length (shape im1) ->
    Forall (fun s => 1 <= s) (sizes_of im1 (lp_sep P)) ->
    (forall p, 0 <= pix im1 p) ->
    content_inside (lp_margin P) im1 -> content_inside (lp_margin P) im2 ->
    content_has_room P d im1 im2 ->
    exists rows, Permutation (pre_rows P raw2 im2) rows /\ Forall2 (row_moved d) (pre_rows P raw1 im1) rows.
  Proof.
    intros Hm Hrm Lraw Hd Hsep Hmg Hrad Hsz Hpos Hin1 Hin2 Hroom.
    set (perc := fun l => npp l percentile).
    exists (map (refine_python (pix im2) (pix raw2) (lp_radius P) (shape im2) (lp_thresh P) (lp_maxit P) (lp_char P))
                (map (fun p => vadd p d) (find_maxima perc P im1))). split.
    - unfold pre_rows. apply Permutation_map.
      apply (maxima_moved_perm perc Hperm Hnn d im1 im2 P); assumption.
    - unfold pre_rows. fold perc. rewrite map_map. apply Forall2_map_in. intros p Hp.
      pose proof (Proofs.Equivariance.maxima_length perc im1 P Hsep Hmg Hsz p Hp) as HL.
      apply (maxima_spec1 perc im1 P Hsep Hmg Hsz) in Hp. destruct Hp as [_ [_ [Ht _]]].
      pose proof (above_threshold_nonzero perc Hnn im1 Hpos _ Ht) as Hnz.
      destruct (Hroom p Hnz) as [R1 R2].
      apply refine_python_moved; assumption.
  Qed.
End HeadAfter.

(* ---- the generated head, preprocess=True, on the same integer content at two places ---- *)
Theorem gen_head_preprocess_moved (npp : list Z -> Q -> Q) nexp NA percentile :
  (forall l l', Permutation l l' -> npp l percentile = npp l' percentile) ->
  (forall l, (forall v, In v l -> 0 <= v) -> (0 <= npp l percentile)%Q) ->
  forall dt content h w H1 W1 oy1 ox1 H2 W2 oy2 ox2 raw01 raw02 diameter minmass maxsize separation noise_size smoothing_size
         threshold topn maxit fa ch engine V ny nx sy sx,
  let thr := match threshold with Some t => t | None => 1%Q end in
  let T := Gen.preproc.py_bandpass_default_truncate in
  let py := stage_par nexp ny sy in
  let px := stage_par nexp nx sx in
  let ry := stage_reach nexp ny sy in
  let rx := stage_reach nexp nx sx in
  let csh' := [h + 2 * ry; w + 2 * rx] in
  let d := vsub [oy2; ox2] [oy1; ox1] in
  let P := lp_of V maxit ch in
  let m := map (fun r => r + Z.of_nat (pred (iters_of maxit))) (lp_radius P) in
  shape content = [h; w] -> (forall c, pix content c <> 0 -> in_bounds (shape content) c) ->
  1 <= h -> 1 <= w -> (0 <= thr)%Q -> 0 <= iinfo_max dt -> 1 <= sy -> 1 <= sx ->
  (ny < inject_Z sy)%Q -> (nx < inject_Z sx)%Q -> Z.odd sy = true -> Z.odd sx = true ->
  squeeze_image raw01 = embed [H1; W1] [oy1; ox1] content -> squeeze_image raw02 = embed [H2; W2] [oy2; ox2] content ->
  locate_args 2 diameter maxsize separation smoothing_size noise_size = ROk V ->
  a_noise V = [ny; nx] -> a_smooth V = [sy; sx] -> List.length (a_sep V) = 2%nat ->
  Forall (fun s => (0 <= s)%Q) (a_sep V) -> Forall (fun s => 1 <= s) (map (box_size 2) (a_sep V)) ->
  py_engine NA 2 engine ->
  paddedb [H1; W1] [oy1; ox1] [h; w] [ghw_of T py; ghw_of T px] [bhw_of py; bhw_of px] = true ->
  paddedb [H2; W2] [oy2; ox2] [h; w] [ghw_of T py; ghw_of T px] [bhw_of py; bhw_of px] = true ->
  fitsb [H1; W1] [oy1 - ry; ox1 - rx] csh' (lp_margin P) = true -> fitsb [H2; W2] [oy2 - ry; ox2 - rx] csh' (lp_margin P) = true ->
  fitsb [H1; W1] [oy1 - ry; ox1 - rx] csh' m = true -> fitsb [H2; W2] [oy2 - ry; ox2 - rx] csh' m = true ->
  exists r1 r2 outs1 outs2 rows,
    py_locate_head fops2 npp nexp NA (ImZ dt raw01) diameter minmass maxsize separation noise_size smoothing_size threshold
                   false percentile topn true maxit None fa ch engine = ROk r1 /\
    py_locate_head fops2 npp nexp NA (ImZ dt raw02) diameter minmass maxsize separation noise_size smoothing_size threshold
                   false percentile topn true maxit None fa ch engine = ROk r2 /\
    PyRefine.of_rows (head_frame r1) = map COMRefine.ref_row outs1 /\
    PyRefine.of_rows (head_frame r2) = map COMRefine.ref_row outs2 /\
    Permutation outs2 rows /\ Forall2 (row_moved d) outs1 rows /\
    Permutation (head_coords r2) (map (fun p => vadd p d) (head_coords r1)).
Proof.
  intros Hperm Hnn dt content h w H1 W1 oy1 ox1 H2 W2 oy2 ox2 raw01 raw02 diameter minmass maxsize separation noise_size
         smoothing_size threshold topn maxit fa ch engine V ny nx sy sx thr T py px ry rx csh' d P m
         S Hwf Hh Hw Hthr Hdt Sy1 Sx1 Gy Gx Oy Ox Q1 Q2 HV Hns Hsm Lsep Hsep Hsz Heng D1 D2 F1 F2 G1 G2.
  destruct (preprocess_moved nexp dt content h w ny nx sy sx thr S Hwf Hh Hw Hthr Hdt Sy1 Sx1 Gy Gx Oy Ox
              H1 W1 oy1 ox1 H2 W2 oy2 ox2 D1 D2)
    as (sf1 & sf2 & im1 & im2 & E1 & E2 & _ & Sh1 & Sh2 & Hm & N1 & N2 & CI1 & CI2 & HR).
  fold ry rx in CI1, CI2, HR. fold d in Hm, HR.
  pose proof (gen_head_preprocess_stage npp nexp NA dt raw01 diameter minmass maxsize separation noise_size smoothing_size
                threshold percentile topn maxit fa ch engine) as A1.
  pose proof (gen_head_preprocess_stage npp nexp NA dt raw02 diameter minmass maxsize separation noise_size smoothing_size
                threshold percentile topn maxit fa ch engine) as A2.
  cbv zeta in A1, A2. rewrite Q1 in A1. rewrite Q2 in A2. cbn [embed shape List.length] in A1, A2.
  rewrite HV in A1, A2. cbn [rbind] in A1, A2. rewrite Hns, Hsm in A1, A2. fold thr in A1, A2.
  rewrite E1 in A1. rewrite E2 in A2. cbn [rbind] in A1, A2.
  destruct (locate_args_ok _ _ _ _ _ _ _ HV) as [Ld _].
  assert (Lm : List.length (lp_margin P) = 2%nat).
  { cbn [lp_margin P lp_of]. unfold margin_of. rewrite Proofs.LocatePipe.margins_length.
    - unfold radius_of. rewrite map_length. exact Ld.
    - unfold radius_of. rewrite map_length. lia.
    - unfold radius_of. rewrite !map_length. rewrite Hsm. cbn. lia. }
  assert (Lr : List.length (lp_radius P) = 2%nat) by (cbn [lp_radius P lp_of]; unfold radius_of; rewrite map_length; exact Ld).
  assert (L1 : List.length (shape im1) = 2%nat) by (rewrite Sh1; reflexivity).
  assert (L2 : List.length (shape im2) = 2%nat) by (rewrite Sh2; reflexivity).
  assert (Hsz1 : Forall (fun s => 1 <= s) (sizes_of im1 (a_sep V))) by (unfold sizes_of; rewrite L1; exact Hsz).
  assert (Hsz2 : Forall (fun s => 1 <= s) (sizes_of im2 (a_sep V))) by (unfold sizes_of; rewrite L2; exact Hsz).
  destruct (head_after_runs npp NA percentile dt (embed [H1; W1] [oy1; ox1] content) im1 V minmass maxsize topn maxit ch engine sf1
              Hsep L1 Ld (eq_trans Lsep (eq_sym L1)) (eq_trans Lm (eq_sym L1)) Hsz1 Heng) as (r1 & R1 & Fr1 & C1).
  destruct (head_after_runs npp NA percentile dt (embed [H2; W2] [oy2; ox2] content) im2 V minmass maxsize topn maxit ch engine sf2
              Hsep L2 Ld (eq_trans Lsep (eq_sym L2)) (eq_trans Lm (eq_sym L2)) Hsz2 Heng) as (r2 & R2 & Fr2 & C2).
  assert (Hrm : moved d (embed [H1; W1] [oy1; ox1] content) (embed [H2; W2] [oy2; ox2] content)).
  { unfold d. apply embed_moved; try reflexivity. intros c _ Hc. apply Hwf in Hc. rewrite S in Hc.
    apply padded2_unpackZ in D1, D2.
    assert (B1 : fitsb [H1; W1] [oy1; ox1] [h; w] [0; 0] = true).
    { pose proof (reach_of_bounds T py Sy1). pose proof (reach_of_bounds T px Sx1). unfold reach_of in *.
      cbn [fitsb]. rewrite !andb_true_iff, !Z.leb_le. lia. }
    assert (B2 : fitsb [H2; W2] [oy2; ox2] [h; w] [0; 0] = true).
    { pose proof (reach_of_bounds T py Sy1). pose proof (reach_of_bounds T px Sx1). unfold reach_of in *.
      cbn [fitsb]. rewrite !andb_true_iff, !Z.leb_le. lia. }
    destruct (fitsb_spec _ _ _ _ c B1 Hc) as [X _]. destruct (fitsb_spec _ _ _ _ c B2 Hc) as [Y _]. split; assumption. }
  assert (Ldd : List.length d = List.length (shape im1)) by (rewrite L1; reflexivity).
  assert (Lraw : List.length (shape (embed [H1; W1] [oy1; ox1] content)) = List.length (shape im1)) by (rewrite L1; reflexivity).
  assert (Lsp : List.length (lp_sep P) = List.length (shape im1)) by (rewrite L1; exact Lsep).
  assert (Lmp : List.length (lp_margin P) = List.length (shape im1)) by (rewrite L1; exact Lm).
  assert (Lrp : List.length (lp_radius P) = List.length (shape im1)) by (rewrite L1; exact Lr).
  pose proof (CI1 _ F1) as In1. pose proof (CI2 _ F2) as In2. pose proof (HR P G1 G2) as Room.
  destruct (pre_rows_moved npp percentile Hperm Hnn d P _ _ im1 im2 Hm Hrm Lraw Ldd Lsp Lmp Lrp Hsz1 N1 In1 In2 Room)
    as (rows & Pr & Fr).
  exists r1, r2, (pre_rows npp percentile P (embed [H1; W1] [oy1; ox1] content) im1),
         (pre_rows npp percentile P (embed [H2; W2] [oy2; ox2] content) im2), rows.
  split; [rewrite A1; exact R1|]. split; [rewrite A2; exact R2|].
  split; [exact Fr1|]. split; [exact Fr2|]. split; [exact Pr|]. split; [exact Fr|].
  rewrite C1, C2. apply (maxima_moved_perm (fun l => npp l percentile) Hperm Hnn d im1 im2 P); assumption.
Qed.

(* ====================================================================== *)
(* non-vacuity: the 5 x 5 blob of the C09 examples (Proofs/Equivariance.ex_content), noise_size 1,
   smoothing_size 5, threshold 1/10, a stand-in for np.exp: truncate = 4 gives the reach 4; the canvases
   ex_im1 (14 x 15, content at (4, 5)) and ex_im2 (16 x 14, content at (7, 4)) are padded; executed, the stage
   returns the same scale factor and images whose brightest pixel (255) sits at (6, 7) resp. (9, 6) *)
Definition ex_nexp (q : Q) : Q := Qred (1 / (1 - q)).

Lemma ex_pre_premises :
  let T := Gen.preproc.py_bandpass_default_truncate in
  let p := stage_par ex_nexp 1 5 in
  shape ex_content = [5; 5] /\ (forall c, pix ex_content c <> 0 -> in_bounds (shape ex_content) c) /\
  (0 <= 1 # 10)%Q /\ 0 <= iinfo_max (mkDT false 8) /\ (1 < inject_Z 5)%Q /\ Z.odd 5 = true /\
  stage_reach ex_nexp 1 5 = 4 /\
  paddedb [14; 15] [4; 5] [5; 5] [ghw_of T p; ghw_of T p] [bhw_of p; bhw_of p] = true /\
  paddedb [16; 14] [7; 4] [5; 5] [ghw_of T p; ghw_of T p] [bhw_of p; bhw_of p] = true.
Proof.
  cbv zeta. split; [reflexivity|]. split; [intros c; apply tab_wf|]. repeat split; try discriminate.
Qed.

Lemma ex_pre_runs :
  match preprocess_stage ex_nexp (mkDT false 8) ex_im1 [1; 1]%Q [5; 5] (1 # 10),
        preprocess_stage ex_nexp (mkDT false 8) ex_im2 [1; 1]%Q [5; 5] (1 # 10) with
  | ROk (sf1, ImZ _ im1), ROk (sf2, ImZ _ im2) =>
      sf1 = (803409375 # 1596200)%Q /\ sf2 = sf1 /\ shape im1 = [14; 15] /\ shape im2 = [16; 14] /\
      pix im1 [6; 7] = 255 /\ pix im2 [9; 6] = 255 /\ pix im1 [2; 7] = 172 /\ pix im2 [5; 6] = 172 /\
      pix im1 [1; 6] = 54 /\ pix im2 [4; 5] = 54 /\ pix im1 [6; 6] = 0 /\ pix im2 [9; 5] = 0
  | _, _ => False
  end.
Proof. vm_compute. repeat split. Qed.
