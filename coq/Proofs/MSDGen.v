(* C17, route T: the functions of Gen/msd.v (generated from trackpy/motion.py by
   tools/py2coq_msd.py) equal the hand-written model Model/MSD.v, for all inputs. *)
From Coq Require Import String ZArith QArith Qcanon List Bool Lia Permutation Sorted.
From TP Require Import Model.MSD Model.MSDSpec Model.PyMsd Model.MSDGen Gen.msd Proofs.MSD.
Import ListNotations.
Open Scope Qc_scope.

(* ---- numerals ---------------------------------------------------------------- *)
Lemma zq_1 : zq 1 = 1. Proof. apply Qc_is_canon; reflexivity. Qed.
Lemma zq_2 : zq 2 = q2. Proof. apply Qc_is_canon; reflexivity. Qed.
Lemma zq_4 : zq 4 = q2 + q2. Proof. apply Qc_is_canon; reflexivity. Qed.
Lemma zq_5 : zq 5 = q2 + q2 + 1. Proof. apply Qc_is_canon; reflexivity. Qed.
Lemma zq_6 : zq 6 = q2 + q2 + q2. Proof. apply Qc_is_canon; reflexivity. Qed.
Lemma pow2 : forall x : Qc, Qcpower x 2 = x * x. Proof. intros; simpl; ring. Qed.
Lemma pow3 : forall x : Qc, Qcpower x 3 = x * x * x. Proof. intros; simpl; ring. Qed.

Lemma this_Q2Qc : forall q, (this (Q2Qc q) == q)%Q.
Proof. intros. unfold Q2Qc, this. apply Qred_correct. Qed.
Lemma this_div : forall a b : Qc, (this (a / b) == this a / this b)%Q.
Proof. intros. unfold Qcdiv, Qcmult, Qcinv. rewrite this_Q2Qc. rewrite this_Q2Qc. reflexivity. Qed.
Lemma this_zq : forall z, (this (zq z) == inject_Z z)%Q.
Proof. intros; unfold zq. apply this_Q2Qc. Qed.
Lemma zq_mult : forall a b : Z, zq (a * b) = zq a * zq b.
Proof.
  intros. apply Qc_is_canon. unfold Qcmult. rewrite this_Q2Qc, !this_zq. rewrite inject_Z_mult. reflexivity.
Qed.
Lemma half_lt : forall N t : nat, (N < 2 * t)%nat -> nq N / zq 2 < nq t.
Proof.
  intros N t H. unfold Qclt. rewrite this_div. unfold nq. rewrite !this_zq.
  apply Qlt_shift_div_r. reflexivity.
  rewrite <- inject_Z_mult. rewrite <- Zlt_Qlt. lia.
Qed.
Lemma half_ge : forall N t : nat, (2 * t <= N)%nat -> nq t <= nq N / zq 2.
Proof.
  intros N t H. unfold Qcle. rewrite this_div. unfold nq. rewrite !this_zq.
  apply Qle_shift_div_l. reflexivity.
  rewrite <- inject_Z_mult. rewrite <- Zle_Qle. lia.
Qed.

Lemma gtb_half : forall N t : nat, qc_gtb (nq t) (nq N / zq 2) = (N <? 2 * t)%nat.
Proof.
  intros N t. unfold qc_gtb. destruct (N <? 2 * t)%nat eqn:E.
  - apply Nat.ltb_lt in E. apply half_lt in E. apply Qcgt_alt in E. now rewrite E.
  - apply Nat.ltb_ge in E. apply half_ge in E. apply Qcle_alt in E.
    destruct (nq t ?= nq N / zq 2) eqn:C; try reflexivity. exfalso; apply E; exact C.
Qed.

Theorem gen_msd_N : forall (N : nat) (ts : list nat),
  py__msd_N (Z.of_nat N) (map Z.of_nat ts) = map (msd_N N) ts.
Proof.
  intros N ts. unfold py__msd_N, np_array_float. rewrite !map_map.
  apply map_ext. intros t. fold (nq t). fold (nq N).
  rewrite gtb_half. unfold msd_N.
  rewrite !zq_mult. fold (nq N). rewrite !pow2, !pow3, zq_1, ?zq_2, zq_4, zq_5, zq_6. reflexivity.
Qed.

(* ---- lists --------------------------------------------------------------------- *)
Lemma firstn_min_len : forall (A : Type) (l : list A) n, firstn (Nat.min n (length l)) l = firstn n l.
Proof.
  intros A l n. destruct (Nat.le_gt_cases n (length l)).
  - now rewrite Nat.min_l.
  - rewrite Nat.min_r by lia. rewrite !firstn_all2; auto; lia.
Qed.

Lemma skipn_min_len : forall (A : Type) (l : list A) n, skipn (Nat.min n (length l)) l = skipn n l.
Proof.
  intros A l n. destruct (Nat.le_gt_cases n (length l)).
  - now rewrite Nat.min_l.
  - rewrite Nat.min_r by lia. rewrite !skipn_all2; auto; lia.
Qed.

Lemma slice_prefix : forall (A : Type) (l : list A) (n : nat),
  py_slice None (Some (Z.of_nat n)) l = firstn n l.
Proof.
  intros A l n. unfold py_slice, norm_idx.
  destruct (Z.of_nat n <? 0)%Z eqn:E; [apply Z.ltb_lt in E; lia|].
  rewrite Z.sub_0_r. simpl skipn.
  replace (Z.to_nat (Z.min (Z.of_nat n) (Z.of_nat (length l)))) with (Nat.min n (length l)) by lia.
  apply firstn_min_len.
Qed.

Lemma slice_suffix : forall (A : Type) (l : list A) (n : nat),
  py_slice (Some (Z.of_nat n)) None l = skipn n l.
Proof.
  intros A l n. unfold py_slice, norm_idx.
  destruct (Z.of_nat n <? 0)%Z eqn:E; [apply Z.ltb_lt in E; lia|].
  replace (Z.to_nat (Z.min (Z.of_nat n) (Z.of_nat (length l)))) with (Nat.min n (length l)) by lia.
  rewrite skipn_min_len. apply firstn_all2. rewrite skipn_length. lia.
Qed.

Lemma slice_drop_last : forall (A : Type) (l : list A) (n : nat), (1 <= n)%nat ->
  py_slice None (Some (- Z.of_nat n)%Z) l = firstn (length l - n) l.
Proof.
  intros A l n Hn. unfold py_slice, norm_idx.
  destruct (- Z.of_nat n <? 0)%Z eqn:E; [|apply Z.ltb_ge in E; lia].
  simpl skipn. f_equal. lia.
Qed.

Lemma slice_rev_last : forall (A : Type) (l : list A) (n : nat),
  py_slice_neg1 (- Z.of_nat n - 1)%Z l = firstn n (rev l).
Proof.
  intros A l n. unfold py_slice_neg1.
  destruct (- Z.of_nat n - 1 <? 0)%Z eqn:E; [|apply Z.ltb_ge in E; lia].
  replace (Z.to_nat (Z.of_nat (length l) - 1 - Z.max (-1) (- Z.of_nat n - 1 + Z.of_nat (length l))))
    with (Nat.min n (length (rev l))) by (rewrite rev_length; lia).
  apply firstn_min_len.
Qed.

Lemma slice_tail_half : forall (A : Type) (l1 l2 : list A), length l1 = length l2 ->
  py_slice (Some (- py_len l1)%Z) None (l1 ++ l2) = l2.
Proof.
  intros A l1 l2 H. unfold py_slice, norm_idx, py_len. rewrite app_length.
  destruct (- Z.of_nat (length l1) <? 0)%Z eqn:E.
  - replace (Z.to_nat (Z.max 0 (- Z.of_nat (length l1) + Z.of_nat (length l1 + length l2)))) with (length l1) by lia.
    rewrite skipn_app, skipn_all, Nat.sub_diag. simpl. apply firstn_all2. lia.
  - apply Z.ltb_ge in E. destruct l1; [|simpl in E; lia]. destruct l2; [|discriminate]. reflexivity.
Qed.

Lemma arange_lags : forall a b : nat,
  np_arange 1 (Z.min (Z.of_nat a) (Z.of_nat b - 1) + 1) = map Z.of_nat (seq 1 (Nat.min a (b - 1))).
Proof.
  intros a b. unfold np_arange.
  replace (Z.to_nat (Z.min (Z.of_nat a) (Z.of_nat b - 1) + 1 - 1)) with (Nat.min a (b - 1)) by lia.
  rewrite <- seq_shift, map_map. apply map_ext. intros; lia.
Qed.

Lemma map_nth_seq : forall (A B : Type) (G : A -> B) (l : list A) d,
  map (fun k => G (nth k l d)) (seq 0 (length l)) = map G l.
Proof.
  intros A B G l d. induction l; simpl; auto.
  f_equal. rewrite <- seq_shift, map_map. exact IHl.
Qed.

Lemma map2_map_same : forall (A B C D : Type) (f : B -> C -> D) (g : A -> B) (h : A -> C) l,
  map2 f (map g l) (map h l) = map (fun x => f (g x) (h x)) l.
Proof. induction l; simpl; congruence. Qed.

Lemma option_map_id : forall (A : Type) (l : list (option A)), map (option_map (fun x => x)) l = l.
Proof. induction l as [|[x|] l]; simpl; congruence. Qed.

Lemma combine_app' : forall (A B : Type) (a1 a2 : list A) (b1 b2 : list B), length a1 = length b1 ->
  combine (a1 ++ a2) (b1 ++ b2) = combine a1 b1 ++ combine a2 b2.
Proof. induction a1; destruct b1; simpl; intros; try discriminate; auto. f_equal. apply IHa1. lia. Qed.

Lemma nth_last : forall (l : list Z) a, nth (length (a :: l) - 1) (a :: l) 0%Z = last (a :: l) a.
Proof.
  intros l. induction l; intros; auto.
  replace (length (a0 :: a :: l) - 1)%nat with (S (length (a :: l) - 1)) by (simpl; lia).
  change (nth (S (length (a :: l) - 1)) (a0 :: a :: l) 0%Z) with (nth (length (a :: l) - 1) (a :: l) 0%Z).
  rewrite IHl. change (last (a0 :: a :: l) a0) with (last (a :: l) a0). apply last_default.
Qed.

(* ---- tables ------------------------------------------------------------------- *)
Lemma setcol_fresh : forall cs l v, (forall x, In x cs -> lbl_eqb (fst x) l = false) ->
  setcol cs l v = cs ++ [(l, v)].
Proof.
  induction cs as [|[l' v'] cs]; simpl; intros; auto.
  pose proof (H (l', v') (or_introl eq_refl)) as E; simpl in E; rewrite E. f_equal. apply IHcs. intros; apply H; auto.
Qed.

Lemma getcol_skip : forall pre Y l, (forall x, In x pre -> lbl_eqb (fst x) l = false) ->
  getcol (pre ++ Y) l = getcol Y l.
Proof.
  induction pre as [|[l' v'] pre]; simpl; intros; auto.
  pose proof (H (l', v') (or_introl eq_refl)) as E; simpl in E; rewrite E. apply IHpre. intros; apply H; auto.
Qed.

Lemma getcols_sq : forall pc V pre Y, NoDup pc -> length V = length pc ->
  (forall x p, In x pre -> In p pc -> lbl_eqb (fst x) (LSq p) = false) ->
  getcols (pre ++ combine (map LSq pc) V ++ Y) (map LSq pc) = Ret V.
Proof.
  induction pc as [|p pc]; intros V pre Y ND HL Hpre; destruct V as [|v V]; try discriminate; auto.
  simpl map. simpl combine. cbn [getcols].
  rewrite getcol_skip by (intros; apply Hpre; simpl; auto).
  simpl. rewrite Nat.eqb_refl.
  change (pre ++ (LSq p, v) :: combine (map LSq pc) V ++ Y)
    with (pre ++ [(LSq p, v)] ++ combine (map LSq pc) V ++ Y).
  rewrite app_assoc. inversion ND; subst.
  rewrite IHpc; auto.
  intros x q Hx Hq. apply in_app_or in Hx. destruct Hx as [Hx|[<-|[]]].
  - apply Hpre; simpl; auto.
  - simpl. apply Nat.eqb_neq. intros ->. auto.
Qed.

Lemma in_combine_fst : forall (A B : Type) (f : A -> lbl) (pc : list A) (V : list B) x,
  In x (combine (map f pc) V) -> exists p, In p pc /\ fst x = f p.
Proof.
  intros A B f pc V [a b] H. apply in_combine_l in H. apply in_map_iff in H.
  destruct H as [p [E I]]. exists p. auto.
Qed.

Lemma nth_map_None : forall (A : Type) (f : A -> cell) l k d, (k < length l)%nat ->
  nth k (map f l) None = f (nth k l d).
Proof. intros. rewrite (nth_indep _ None (f d)) by now rewrite map_length. apply map_nth. Qed.

Lemma assoc_lookup : forall (g : vec -> Qc) f (t : list row),
  assoc f (combine (map fst t) (map (fun r : row => Some (g (snd r))) t)) = option_map g (lookup f t).
Proof.
  induction t as [|r t]; simpl; auto. unfold lookup in *. simpl.
  destruct (fst r =? f)%Z; auto.
Qed.

Lemma iter_body_eq : forall cols m, (1 <= m)%nat ->
  py__msd_iter_body cols (Z.of_nat m) = map (gaps_col (fun x => x) m) cols ++ map (gaps_col sqr m) cols.
Proof.
  intros. unfold py__msd_iter_body, np_concatenate1, np_nanmean_axis0, oarr2_pow, oarr2_sub, arr2_slice.
  rewrite map2_map_same. rewrite !map_map. f_equal; apply map_ext; intros c.
  - rewrite slice_suffix, slice_drop_last by auto. unfold gaps_col, shift_diff. now rewrite option_map_id.
  - rewrite slice_suffix, slice_drop_last by auto. unfold gaps_col, shift_diff. f_equal.
    apply map_ext. intros [x|]; auto. unfold option_map. now rewrite pow2.
Qed.

Lemma seq_add_map : forall n len s, seq (n + s) len = map (fun j => (n + j)%nat) (seq s len).
Proof.
  intros n len. induction len; simpl; intros; auto. f_equal. rewrite <- IHlen. f_equal. lia.
Qed.

(* the table assembled by _msd_gaps from the rows A m ++ B m *)
Lemma gaps_frame : forall (pc : list nat) (lg : list nat) (A B : nat -> list cell) (K : frame -> pyres frame),
  NoDup pc -> (forall m, length (A m) = length pc) -> (forall m, length (B m) = length pc) ->
  let lc := map (fun p => LDisp p) pc ++ map (fun p => LSq p) pc in
  let result := pd_DataFrame_rows (map (fun m => A m ++ B m) lg) lc (map Z.of_nat lg) in
  bind (df_getcols result (py_slice (Some (- py_len pc)%Z) None lc))
       (fun tmp => K (df_setcol result LMsd (oarr2_sum_axis1_noskip (df_len result) tmp))) =
  K (mkframe (map Z.of_nat lg) None
       (combine (map LDisp pc) (map (fun j => map (fun m => nth j (A m) None) lg) (seq 0 (length pc)))
        ++ combine (map LSq pc) (map (fun j => map (fun m => nth j (B m) None) lg) (seq 0 (length pc)))
        ++ [(LMsd, map (fun m => osum (B m)) lg)])).
Proof.
  intros pc lg A B K ND HA HB lc result.
  set (n := length pc).
  set (AC := map (fun j => map (fun m => nth j (A m) None) lg) (seq 0 n)).
  set (BC := map (fun j => map (fun m => nth j (B m) None) lg) (seq 0 n)).
  assert (Hcols : f_cols result = combine (map LDisp pc) AC ++ combine (map LSq pc) BC).
  { unfold result, pd_DataFrame_rows, lc, transpose_rows. cbn [f_cols].
    rewrite app_length, !map_length. fold n. rewrite seq_app, map_app.
    change (fun p => LDisp p) with LDisp. change (fun p => LSq p) with LSq.
    rewrite combine_app' by (now rewrite !map_length, seq_length).
    f_equal; f_equal.
    - apply map_ext_in. intros j Hj. apply in_seq in Hj. rewrite map_map. apply map_ext. intros m.
      apply app_nth1. rewrite HA. fold n. lia.
    - replace (seq (0 + n) n) with (seq (n + 0) n) by (f_equal; lia).
      assert (G : forall s, map (fun j => map (fun r => nth j r None) (map (fun m => A m ++ B m) lg)) (seq (n + s) n)
                  = map (fun j => map (fun m => nth j (B m) None) lg) (seq s n)).
      { intros s.
        rewrite seq_add_map.
        rewrite map_map. apply map_ext. intros j. rewrite map_map. apply map_ext. intros m.
        unfold n. rewrite <- (HA m). rewrite app_nth2_plus. reflexivity. }
      apply (G 0%nat). }
  unfold df_getcols. rewrite Hcols. unfold lc. change (fun p => LDisp p) with LDisp. change (fun p => LSq p) with LSq.
  replace (py_len pc) with (py_len (map LDisp pc)) by (unfold py_len; now rewrite map_length).
  rewrite slice_tail_half by now rewrite !map_length.
  rewrite <- (app_nil_r (combine (map LSq pc) BC)).
  rewrite getcols_sq; auto.
  2:{ unfold BC. now rewrite map_length, seq_length. }
  2:{ intros x p Hx _. apply in_combine_fst in Hx. destruct Hx as [q [_ ->]]. reflexivity. }
  rewrite app_nil_r. cbn [bind]. f_equal.
  unfold df_setcol. rewrite Hcols. unfold result at 1 2. cbn [f_index f_iname pd_DataFrame_rows].
  f_equal. rewrite setcol_fresh.
  2:{ intros x Hx. apply in_app_or in Hx. destruct Hx as [Hx|Hx]; apply in_combine_fst in Hx; destruct Hx as [q [_ ->]]; reflexivity. }
  rewrite <- app_assoc. do 3 f_equal.
  unfold oarr2_sum_axis1_noskip, df_len, result, pd_DataFrame_rows, py_len. cbn [f_index].
  rewrite Nat2Z.id, map_length.
  rewrite <- (map_nth_seq _ _ (fun m => osum (B m)) lg 0%nat).
  f_equal. apply map_ext_in. intros k Hk. apply in_seq in Hk. f_equal.
  unfold BC. rewrite map_map.
  transitivity (map (fun j => nth j (B (nth k lg 0%nat)) None) (seq 0 n)).
  - apply map_ext. intros j. apply (nth_map_None _ (fun m => nth j (B m) None)). lia.
  - unfold n. rewrite <- (HB (nth k lg 0%nat)). rewrite (map_nth_seq _ _ (fun x => x)). apply map_id.
Qed.

(* ---- _msd_gaps ---------------------------------------------------------------- *)
Lemma index_get_last : forall a l, py_index_get (a :: l) (-1) = Ret (last (a :: l) a).
Proof.
  intros a l. unfold py_index_get. change (-1 <? 0)%Z with true. cbv iota.
  set (n := Z.of_nat (length (a :: l))).
  assert (Hn : (1 <= n)%Z) by (unfold n; simpl length; lia).
  destruct ((0 <=? -1 + n) && (-1 + n <? n))%Z eqn:E.
  - f_equal. replace (Z.to_nat (-1 + n)) with (length (a :: l) - 1)%nat by (unfold n; lia). apply nth_last.
  - apply andb_false_iff in E. destruct E as [E|E]; [apply Z.leb_gt in E|apply Z.ltb_ge in E]; lia.
Qed.

Lemma gaps_frame' : forall (pc : list nat) (lg : list nat) (A B : nat -> list cell),
  NoDup pc -> (forall m, length (A m) = length pc) -> (forall m, length (B m) = length pc) ->
  let lc := map (fun p => LDisp p) pc ++ map (fun p => LSq p) pc in
  let result := pd_DataFrame_rows (map (fun m => A m ++ B m) lg) lc (map Z.of_nat lg) in
  exists tmp, df_getcols result (py_slice (Some (- py_len pc)%Z) None lc) = Ret tmp /\
    df_setcol result LMsd (oarr2_sum_axis1_noskip (df_len result) tmp) =
    mkframe (map Z.of_nat lg) None
       (combine (map LDisp pc) (map (fun j => map (fun m => nth j (A m) None) lg) (seq 0 (length pc)))
        ++ combine (map LSq pc) (map (fun j => map (fun m => nth j (B m) None) lg) (seq 0 (length pc)))
        ++ [(LMsd, map (fun m => osum (B m)) lg)]).
Proof.
  intros pc lg A B ND HA HB lc result.
  pose proof (gaps_frame pc lg A B Ret ND HA HB) as H. cbv zeta in H. fold lc in H. fold result in H.
  destruct (df_getcols result (py_slice (Some (- py_len pc)%Z) None lc)) as [tmp|e]; cbn [bind] in H.
  - exists tmp. split; auto. congruence.
  - discriminate.
Qed.

Ltac fresh_side :=
  let x := fresh "x" in let Hx := fresh "Hx" in
  intros x Hx; repeat (apply in_app_or in Hx; destruct Hx as [Hx|Hx]);
  first [ apply in_combine_fst in Hx; destruct x as [lx vx]; cbn [fst] in Hx |- *;
          destruct Hx as [q [_ ->]]; reflexivity
        | repeat (destruct Hx as [<-|Hx]; [reflexivity|]); destruct Hx ].

Theorem gen_msd_gaps : forall t mpp fps maxlag ndim detail,
  agrees (frame_of_mrows (seq 0 ndim) detail)
         (py__msd_gaps t mpp fps (Z.of_nat maxlag) detail (Some (seq 0 ndim)))
         (msd_gaps t mpp fps maxlag ndim).
Proof.
  intros t mpp fps maxlag ndim detail. unfold agrees, msd_gaps.
  destruct t as [|r0 t'].
  { exists EIndexError. reflexivity. }
  set (t := r0 :: t').
  unfold py__msd_gaps.
  cbv zeta. change (Z.opp 1) with (-1)%Z.
  replace (py_index_get (p_index (posdf_mul (tdf_set_index_frame_getcols t (seq 0 ndim)) mpp)) 0) with (@Ret Z (fst r0)) by reflexivity.
  cbn [bind].
  replace (py_index_get (p_index (posdf_mul (tdf_set_index_frame_getcols t (seq 0 ndim)) mpp)) (-1)) with (@Ret Z (fst (last t r0))).
  2:{ unfold posdf_mul, tdf_set_index_frame_getcols. cbn [p_index]. unfold t. simpl map. rewrite index_get_last.
      change (fst r0 :: map fst t') with (map fst (r0 :: t')). rewrite (last_map _ _ fst). reflexivity. }
  cbn [bind].
  unfold pos_reindex. cbn [p_index posdf_mul tdf_set_index_frame_getcols].
  destruct (nodupb (map fst t)) eqn:ND; cbn [negb].
  2:{ cbn [bind try_except_ValueError]. destruct (negb _); eexists; reflexivity. }
  cbn [bind try_except_ValueError p_cols].
  set (f0 := fst r0). set (f1 := fst (last t r0)).
  set (len := Z.to_nat (f1 - f0 + 1)).
  assert (Hnew : np_arange f0 (1 + f1) = map (fun i => (f0 + Z.of_nat i)%Z) (seq 0 len)).
  { unfold np_arange, len. do 2 f_equal. lia. }
  rewrite Hnew.
  set (cols := map (fun d => map (option_map (coord d mpp)) (reindex t f0 len)) (seq 0 ndim)).
  unfold posdf_mul, tdf_set_index_frame_getcols. cbn [p_cols p_index].
  match goal with |- context [{| p_index := _; p_cols := ?c |}] => set (C := c) end.
  assert (Hcols : C = cols).
  { unfold C, cols, reindex. rewrite !map_map. apply map_ext. intros d. rewrite !map_map. apply map_ext. intros i.
    cbn [option_map].
    apply (assoc_lookup (fun v => nth d v 0 * mpp)). }
  clearbody C. subst C.
  unfold pos_len, pos_values. cbn [p_index p_cols].
  assert (Hpl : py_len (map (fun i => (f0 + Z.of_nat i)%Z) (seq 0 len)) = Z.of_nat len)
    by (unfold py_len; now rewrite map_length, seq_length).
  rewrite !Hpl. rewrite !arange_lags.
  set (L := Nat.min maxlag (len - 1)).
  unfold py__msd_iter.
  assert (Hrows : map (py__msd_iter_body cols) (map Z.of_nat (seq 1 L))
                  = map (fun m => map (gaps_col (fun x => x) m) cols ++ map (gaps_col sqr m) cols) (seq 1 L)).
  { rewrite map_map. apply map_ext_in. intros m Hm. apply in_seq in Hm. apply iter_body_eq. lia. }
  rewrite !Hrows.
  destruct (gaps_frame' (seq 0 ndim) (seq 1 L) (fun m => map (gaps_col (fun x => x) m) cols) (fun m => map (gaps_col sqr m) cols)) as [tmp [H1 H2]].
  { apply seq_NoDup. }
  1,2: (intros; unfold cols; now rewrite !map_length).
  cbv zeta in H1, H2.
  match goal with |- bind ?x _ = _ => assert (E : x = Ret tmp) by exact H1; rewrite E; clear E end.
  cbn [bind].
  match goal with |- context [df_setcol ?x LMsd ?v] => assert (E : df_setcol x LMsd v = _) by exact H2; rewrite E; clear E end.
  destruct detail.
  all: f_equal.
  all: unfold df_setcol, df_set_index_name, df_index_values, frame_of_mrows, lags; cbn [f_index f_iname f_cols].
  all: fold L; rewrite !map_map; cbn [r_lag r_disp r_sq r_msd r_N r_lagt].
  all: f_equal.
  all: try rewrite (setcol_fresh _ LN) by fresh_side.
  all: rewrite (setcol_fresh _ LLagt) by fresh_side.
  all: rewrite <- !app_assoc; cbn [app].
  all: (f_equal; [f_equal; apply map_ext; intros j; rewrite map_map; reflexivity|]).
  all: (f_equal; [f_equal; apply map_ext; intros j; rewrite map_map; reflexivity|]).
  all: unfold fvec_cells, fvec_div_int, fvec_mul_int, ivec_div_float, py_float; rewrite ?gen_msd_N, !map_map.
  all: reflexivity.
Qed.

(* ---- _msd_fft ------------------------------------------------------------------ *)
Lemma map2_map_r : forall (A B C D : Type) (f : A -> C -> D) (g : B -> C) X Y,
  map2 f X (map g Y) = map2 (fun x y => f x (g y)) X Y.
Proof. induction X; destruct Y; simpl; intros; auto. f_equal. apply IHX. Qed.

Lemma map2_ext_in_r : forall (A B C : Type) (f g : A -> B -> C) X Y,
  (forall y, In y Y -> forall x, f x y = g x y) -> map2 f X Y = map2 g X Y.
Proof.
  induction X; destruct Y; simpl; intros; auto. f_equal; auto.
Qed.

Lemma firstn_seq' : forall L n s, (L <= n)%nat -> firstn L (seq s n) = seq s L.
Proof. induction L; destruct n; simpl; intros; auto; try lia. f_equal. apply IHL. lia. Qed.

Lemma slice_lags : forall (A : Type) (F : nat -> A) (L n : nat), (L + 1 <= n)%nat ->
  py_slice (Some 1%Z) (Some (Z.of_nat L + 1)%Z) (map F (seq 0 n)) = map F (seq 1 L).
Proof.
  intros A F L n H. unfold py_slice, norm_idx. rewrite map_length, seq_length.
  change (1 <? 0)%Z with false. cbv iota.
  destruct (Z.of_nat L + 1 <? 0)%Z eqn:E; [apply Z.ltb_lt in E; lia|].
  replace (Z.to_nat (Z.min 1 (Z.of_nat n))) with 1%nat by lia.
  replace (Z.to_nat (Z.min (Z.of_nat L + 1) (Z.of_nat n) - Z.min 1 (Z.of_nat n))) with L by lia.
  destruct n; [lia|]. simpl seq. simpl map. simpl skipn. rewrite firstn_map. f_equal.
  apply firstn_seq'. lia.
Qed.

Lemma dot_nth : forall x y : list Qc,
  qsum (map2 Qcmult x y) = qsum (map (fun k => nth k x 0 * nth k y 0) (seq 0 (length x))).
Proof.
  induction x as [|a x]; intros y; simpl; auto.
  destruct y as [|b y].
  - simpl. rewrite <- seq_shift, map_map.
    rewrite qsum_map_zero. ring. intros k _. destruct k; simpl; ring.
  - simpl. f_equal. rewrite <- seq_shift, map_map. apply IHx.
Qed.

Lemma circ_is_autocorr : forall (c : list Qc) (m : nat), (m <= length c)%nat ->
  circ_autocorr c (2 * length c) m = autocorr c m.
Proof.
  intros c m Hm. unfold circ_autocorr, autocorr, dot. rewrite dot_nth.
  replace (Nat.min (2 * length c) (length c)) with (length c) by lia.
  f_equal. apply map_ext_in. intros k Hk. apply in_seq in Hk.
  rewrite Nat.mod_small by lia. rewrite nth_skipn'. f_equal. f_equal. lia.
Qed.

Lemma fft_div : forall (X : list Qc) (N L : nat), (L <= N)%nat ->
  map2 (fun x m => x / zq m) X (int_sub_icol (Z.of_nat N) (map Z.of_nat (seq 1 L)))
  = map2 (fun x m => x / nq (N - m)) X (seq 1 L).
Proof.
  intros X N L H. unfold int_sub_icol. rewrite map_map, map2_map_r.
  apply map2_ext_in_r. intros m Hm x. apply in_seq in Hm. unfold nq. do 2 f_equal. lia.
Qed.

Lemma transpose_cols : forall (cols : list (list Qc)) (L : nat),
  (forall c, In c cols -> length c = L) ->
  map (fun j => map (fun k => nth j (map (fun c => Some (nth k c 0)) cols) None) (seq 0 L)) (seq 0 (length cols))
  = map (map Some) cols.
Proof.
  intros cols L H.
  rewrite <- (map_nth_seq _ _ (map Some) cols []).
  apply map_ext_in. intros j Hj. apply in_seq in Hj.
  assert (HL : length (nth j cols []) = L) by (apply H, nth_In; lia).
  rewrite <- HL at 1. rewrite <- (map_nth_seq _ _ Some (nth j cols []) 0).
  apply map_ext. intros k. apply (nth_map_None _ (fun c => Some (nth k c 0))). lia.
Qed.

Lemma fft_disp_length : forall c L, (L <= length c)%nat -> length (fft_disp c L) = L.
Proof.
  intros. unfold fft_disp, cumsum, lags. rewrite map2_length, cumsum_from_length, map2_length, seq_length.
  rewrite !firstn_length, rev_length. lia.
Qed.

Lemma fft_sq_length : forall c L, (L <= length c)%nat -> length (fft_sq c L) = L.
Proof.
  intros. unfold fft_sq, cumsum, lags.
  rewrite !map2_length, !map_length, cumsum_from_length, map2_length, seq_length.
  rewrite !firstn_length, rev_length, map_length. lia.
Qed.

Theorem gen_msd_fft : forall t mpp fps maxlag ndim detail, t <> [] -> (0 < ndim)%nat ->
  py__msd_fft t mpp fps (Z.of_nat maxlag) detail (Some (seq 0 ndim))
  = Ret (frame_of_mrows (seq 0 ndim) detail (msd_fft t mpp fps maxlag ndim)).
Proof.
  intros t mpp fps maxlag ndim detail Ht Hn. unfold py__msd_fft. cbv zeta. f_equal.
  set (N := length t). assert (HN : (1 <= N)%nat) by (unfold N; destruct t; simpl; [congruence|lia]).
  set (L := Nat.min maxlag (N - 1)).
  set (cols := map (fun d => col d mpp t) (seq 0 ndim)).
  assert (Hr : qarr2_scale (tdf_getcols_values t (seq 0 ndim)) mpp = cols).
  { unfold qarr2_scale, tdf_getcols_values, cols, col, coord. rewrite map_map. apply map_ext. intros d. now rewrite map_map. }
  rewrite !Hr.
  assert (Hlen : forall c, In c cols -> length c = N).
  { intros c Hc. unfold cols in Hc. apply in_map_iff in Hc. destruct Hc as [d [<- _]]. unfold col. now rewrite map_length. }
  assert (HNZ : arr2_len cols = Z.of_nat N).
  { unfold cols. destruct ndim; [lia|]. simpl. unfold py_len, col. now rewrite map_length. }
  rewrite !HNZ.
  replace (py_len (tdf_frame t)) with (Z.of_nat N) by (unfold py_len, tdf_frame; now rewrite map_length).
  rewrite !arange_lags. fold L.
  replace (Z.min (Z.of_nat maxlag) (Z.of_nat N - 1)) with (Z.of_nat L) by (unfold L; lia).
  assert (HL : (L <= N - 1)%nat) by (unfold L; lia).
  (* the two arrays *)
  set (disp := map (fun r => fft_disp r L) cols).
  set (sq := map (fun r => fft_sq r L) cols).
  assert (Hdisp : qarr2_div_icol (np_cumsum_axis0 (qarr2_sub (arr2_slice_neg1 (- Z.of_nat L - 1) cols) (arr2_slice None (Some (Z.of_nat L)) cols)))
                   (int_sub_icol (Z.of_nat N) (map Z.of_nat (seq 1 L))) = disp).
  { unfold qarr2_div_icol, np_cumsum_axis0, qarr2_sub, arr2_slice_neg1, arr2_slice, disp.
    rewrite map2_map_same, !map_map. apply map_ext_in. intros c Hc.
    rewrite slice_rev_last, slice_prefix, fft_div by lia. unfold fft_disp, lags. now rewrite (Hlen c Hc). }
  assert (Hsq : qarr2_div_icol
                  (qarr2_sub
                     (qarr2_rowvec_sub (fvec_scale_l (zq 2) (np_sum_axis0 (qarr2_pow cols 2)))
                        (np_cumsum_axis0 (qarr2_add (arr2_slice None (Some (Z.of_nat L)) (qarr2_pow cols 2))
                                                    (arr2_slice_neg1 (- Z.of_nat L - 1) (qarr2_pow cols 2)))))
                     (qarr2_scale_l (zq 2) (np_fft_autocorr cols (2 * Z.of_nat N) 1 (Z.of_nat L + 1))))
                  (int_sub_icol (Z.of_nat N) (map Z.of_nat (seq 1 L))) = sq).
  { unfold qarr2_div_icol, qarr2_sub, qarr2_rowvec_sub, fvec_scale_l, np_sum_axis0, np_cumsum_axis0, qarr2_add,
           arr2_slice_neg1, arr2_slice, qarr2_pow, qarr2_scale_l, np_fft_autocorr, sq.
    rewrite !map_map. rewrite map2_map_same. rewrite map_map. rewrite map2_map_same. rewrite map2_map_same.
    rewrite map_map. apply map_ext_in. intros c Hc.
    assert (HD : map (fun x => Qcpower x 2) c = map sqr c) by (apply map_ext; intros; apply pow2).
    rewrite HD, slice_rev_last, slice_prefix, fft_div by lia.
    replace (Z.to_nat (2 * Z.of_nat N)) with (2 * length c)%nat by (rewrite (Hlen c Hc); lia).
    rewrite slice_lags by (rewrite (Hlen c Hc); lia).
    unfold fft_sq, lags. rewrite (Hlen c Hc). f_equal.
    rewrite map2_map_r. rewrite zq_2.
    rewrite <- (Hlen c Hc).
    rewrite (map_ext_in (circ_autocorr c (2 * length c)) (autocorr c)).
    2:{ intros m Hm. apply in_seq in Hm. apply circ_is_autocorr. rewrite (Hlen c Hc). lia. }
    reflexivity. }
  match goal with |- context [np_concatenate_axis1 ?a ?b] => assert (Ea : a = disp) by exact Hdisp; assert (Eb : b = sq) by exact Hsq end.
  rewrite Ea, Eb. clear Ea Eb.
  clear Hdisp Hsq.
  assert (Hdl : forall c, In c disp -> length c = L).
  { intros c Hc. apply in_map_iff in Hc. destruct Hc as [r [<- Hr']]. apply fft_disp_length. rewrite (Hlen r Hr'). lia. }
  assert (Hsl : forall c, In c sq -> length c = L).
  { intros c Hc. apply in_map_iff in Hc. destruct Hc as [r [<- Hr']]. apply fft_sq_length. rewrite (Hlen r Hr'). lia. }
  assert (Hnd : length disp = ndim) by (unfold disp, cols; now rewrite !map_length, seq_length).
  assert (Hns : length sq = ndim) by (unfold sq, cols; now rewrite !map_length, seq_length).
  assert (Hal : Z.to_nat (arr2_len sq) = L).
  { unfold arr2_len. destruct sq as [|c sq'] eqn:E; [simpl in Hns; lia|]. unfold py_len. rewrite Nat2Z.id. apply Hsl. now left. }
  destruct detail.
  all: unfold df_setcol, df_set_index_name, pd_DataFrame_arr, np_concatenate_axis1, frame_of_mrows, msd_fft.
  all: cbn [f_index f_iname f_cols]; fold N; fold L; fold cols; fold disp; fold sq.
  all: rewrite !map_map; cbn [r_lag r_disp r_sq r_msd r_N r_lagt].
  all: (f_equal; [rewrite <- seq_shift, map_map; reflexivity|]).
  all: change (fun p => LDisp p) with LDisp; change (fun p => LSq p) with LSq.
  all: rewrite map_app, combine_app' by (now rewrite !map_length, seq_length).
  all: rewrite (setcol_fresh _ LMsd) by fresh_side.
  all: try rewrite (setcol_fresh _ LN) by fresh_side.
  all: rewrite (setcol_fresh _ LLagt) by fresh_side.
  all: rewrite <- !app_assoc; cbn [app]; rewrite seq_length.
  all: (f_equal; [f_equal; rewrite <- (transpose_cols disp L Hdl); rewrite Hnd;
                  apply map_ext; intros j; now rewrite map_map|]).
  all: (f_equal; [f_equal; rewrite <- (transpose_cols sq L Hsl); rewrite Hns;
                  apply map_ext; intros j; rewrite map_map; cbn [r_sq]; apply map_ext; intros k; now rewrite map_map|]).
  all: unfold fvec_cells, np_sum_axis1, ivec_div_float, py_float; rewrite Hal, ?gen_msd_N, !map_map.
  all: repeat (f_equal; try (rewrite <- seq_shift, map_map; reflexivity)).
Qed.

(* ---- msd ------------------------------------------------------------------------- *)
Lemma kinsert_map : forall (g : Z * nat -> row) p l,
  (forall q, In q (p :: l) -> fst (g q) = fst q) ->
  map g (kinsert p l) = insert (g p) (map g l).
Proof.
  intros g p l. induction l as [|h l]; intros H; simpl; auto.
  rewrite (H p), (H h) by (simpl; auto).
  destruct (fst p <=? fst h)%Z; simpl; auto.
  f_equal. apply IHl. intros q [<-|Hq]; apply H; simpl; auto.
Qed.

Lemma ksort_map : forall (g : Z * nat -> row) ps,
  (forall q, In q ps -> fst (g q) = fst q) ->
  map g (fold_right kinsert [] ps) = isort (map g ps).
Proof.
  intros g ps. induction ps as [|p ps]; intros H; simpl; auto.
  rewrite kinsert_map.
  - f_equal. apply IHps. intros; apply H; simpl; auto.
  - intros q [<-|Hq]; [apply H; simpl; auto|].
    apply H. right.
    assert (Perm : forall l, Permutation (fold_right kinsert [] l) l).
    { clear. induction l; simpl; auto.
      assert (KI : forall p l, Permutation (kinsert p l) (p :: l)).
      { clear. induction l as [|h l]; simpl; auto. destruct (fst p <=? fst h)%Z; auto.
        rewrite IHl. apply perm_swap. }
      rewrite KI. now constructor. }
    eapply Permutation_in; [apply Perm|exact Hq].
Qed.

Lemma map_snd_combine : forall (A B C : Type) (G : B -> C) (a : list A) (b : list B), length a = length b ->
  map (fun p => G (snd p)) (combine a b) = map G b.
Proof. induction a; destruct b; simpl; intros; try discriminate; auto. f_equal. apply IHa. lia. Qed.

Lemma argsort_iloc : forall t : list row,
  tdf_iloc t (np_argsort_stable (ser_values (tdf_frame t))) = isort t.
Proof.
  intros t. unfold tdf_iloc, np_argsort_stable, ser_values, tdf_frame. rewrite map_map.
  rewrite (ksort_map (fun p => nth (snd p) t (0%Z, []))).
  - f_equal. rewrite map_length.
    rewrite (map_snd_combine _ _ _ (fun k => nth k t (0%Z, []))) by (now rewrite map_length, seq_length).
    rewrite (map_nth_seq _ _ (fun x => x)). apply map_id.
  - intros q Hq. rewrite map_length in Hq.
    assert (G : forall (l : list row) s, In q (combine (map fst l) (seq s (length l))) ->
              fst (nth (snd q - s) l (0%Z, [])) = fst q /\ (s <= snd q)%nat).
    { clear. induction l as [|a l]; simpl; intros s H; [contradiction|].
      destruct H as [<-|H]; simpl.
      - rewrite Nat.sub_diag. auto.
      - apply IHl in H. destruct H as [H1 H2]. split; [|lia].
        replace (snd q - s)%nat with (S (snd q - S s)) by lia. exact H1. }
    apply G in Hq. rewrite Nat.sub_0_r in Hq. apply Hq.
Qed.

Theorem gen_msd : forall traj mpp fps maxlag ndim detail, (0 < ndim)%nat ->
  agrees (frame_of_mrows (seq 0 ndim) detail)
         (py_msd traj mpp fps (Z.of_nat maxlag) detail (Some (seq 0 ndim)))
         (msd traj mpp fps maxlag ndim).
Proof.
  intros traj mpp fps maxlag ndim detail Hn. unfold py_msd. cbv zeta. rewrite argsort_iloc. unfold msd.
  destruct (isort traj) as [|r0 t'] eqn:E.
  - exact (gen_msd_gaps [] mpp fps maxlag ndim detail).
  - set (t := r0 :: t').
    replace (onum_eqb (onum_add (onum_sub (ser_max (tdf_frame t)) (ser_min (tdf_frame t))) (Some 1%Z)) (Some (py_len t)))
      with (zmax (map fst t) - zmin (map fst t) + 1 =? Z.of_nat (length t))%Z by reflexivity.
    destruct (zmax (map fst t) - zmin (map fst t) + 1 =? Z.of_nat (length t))%Z.
    + apply gen_msd_fft; auto. discriminate.
    + apply gen_msd_gaps.
Qed.

(* ---- imsd / emsd: the loop over the particles ---------------------------------- *)
Section Loop.
Variables (tr : list prow) (mpp fps : Qc) (ml ndim : nat) (d : bool).
Variable lp : list Z * list frame -> Z * tdf -> pyres (list Z * list frame).
Hypothesis lp_eq : forall ids msds p t,
  lp (ids, msds) (p, t) = bind (py_msd t mpp fps (Z.of_nat ml) d (Some (seq 0 ndim)))
                               (fun tmp => Ret (ids ++ [p], msds ++ [tmp])).
Hypothesis Hn : (0 < ndim)%nat.

Lemma loop_ok : forall ps ids msds,
  match all_some (map (fun p => option_map (pair p) (msd (rows_of p tr) mpp fps ml ndim)) ps) with
  | Some tabs => foldM lp (map (fun p => (p, rows_of p tr)) ps) (ids, msds)
                 = Ret (ids ++ map fst tabs, msds ++ map (fun pt => frame_of_mrows (seq 0 ndim) d (snd pt)) tabs)
  | None => exists e, foldM lp (map (fun p => (p, rows_of p tr)) ps) (ids, msds) = Raise e
  end.
Proof.
  induction ps as [|p ps]; intros ids msds.
  - simpl. now rewrite !app_nil_r.
  - cbn [map all_some foldM]. rewrite lp_eq.
    pose proof (gen_msd (rows_of p tr) mpp fps ml ndim d Hn) as G. unfold agrees in G.
    destruct (msd (rows_of p tr) mpp fps ml ndim) as [rows|]; cbn [option_map].
    + rewrite G. cbn [bind]. specialize (IHps (ids ++ [p]) (msds ++ [frame_of_mrows (seq 0 ndim) d rows])).
      destruct (all_some _) as [tabs|].
      * rewrite IHps. cbn [map fst snd]. now rewrite <- !app_assoc.
      * exact IHps.
    + destruct G as [e ->]. exists e. reflexivity.
Qed.
End Loop.

Theorem gen_imsd_partial : forall tr mpp fps ml ndim, (0 < ndim)%nat ->
  match per_particle tr mpp fps ml ndim with
  | Some tabs => py_imsd tr mpp fps (Z.of_nat ml) LMsd (Some (seq 0 ndim))
                 = imsd_tail fps LMsd (tabs_ids tabs) (tabs_frames (seq 0 ndim) false tabs)
  | None => exists e, py_imsd tr mpp fps (Z.of_nat ml) LMsd (Some (seq 0 ndim)) = Raise e
  end.
Proof.
  intros tr mpp fps ml ndim Hn. unfold py_imsd, per_particle. cbv zeta.
  unfold ptdf_groupby_particle, ptdf_reset_index_drop.
  pose proof (loop_ok tr mpp fps ml ndim false (py_imsd_loop1 mpp fps (Z.of_nat ml) (Some (seq 0 ndim)))
                      (fun ids msds p t => eq_refl) Hn (pids tr) [] []) as H.
  destruct (all_some _) as [tabs|].
  - rewrite H. reflexivity.
  - destruct H as [e ->]. exists e. reflexivity.
Qed.

Theorem gen_emsd_partial : forall tr mpp fps ml ndim detail, (0 < ndim)%nat ->
  match per_particle tr mpp fps ml ndim with
  | Some tabs => py_emsd tr mpp fps (Z.of_nat ml) detail (Some (seq 0 ndim))
                 = emsd_tail fps detail (tabs_ids tabs) (tabs_frames (seq 0 ndim) true tabs)
  | None => exists e, py_emsd tr mpp fps (Z.of_nat ml) detail (Some (seq 0 ndim)) = Raise e
  end.
Proof.
  intros tr mpp fps ml ndim detail Hn. unfold py_emsd, per_particle. cbv zeta.
  unfold ptdf_groupby_particle, ptdf_reset_index_drop.
  pose proof (loop_ok tr mpp fps ml ndim true (py_emsd_loop1 mpp fps (Z.of_nat ml) (Some (seq 0 ndim)))
                      (fun ids msds p t => eq_refl) Hn (pids tr) [] []) as H.
  destruct (all_some _) as [tabs|].
  - rewrite H. reflexivity.
  - destruct H as [e ->]. exists e. reflexivity.
Qed.

(* ---- the C17 theorems carried over to the generated msd -------------------------- *)
Theorem gen_msd_eq_def : forall traj mpp fps maxlag ndim detail,
  traj <> [] -> NoDup (map fst traj) -> (0 < ndim)%nat ->
  exists rows, py_msd traj mpp fps (Z.of_nat maxlag) detail (Some (seq 0 ndim))
               = Ret (frame_of_mrows (seq 0 ndim) detail rows) /\
    map (fun r => (r_lag r, r_lagt r, r_msd r)) rows =
    map (fun n => (n, nq n / fps, msd_def mpp ndim traj n)) (seq 1 (Nat.min maxlag (span traj))).
Proof.
  intros traj mpp fps maxlag ndim detail H1 H2 H3.
  destruct (msd_eq_def traj mpp fps maxlag ndim H1 H2 H3) as [rows [E R]].
  exists rows. split; auto.
  pose proof (gen_msd traj mpp fps maxlag ndim detail H3) as G. rewrite E in G. exact G.
Qed.

Theorem gen_msd_columns : forall traj mpp fps maxlag ndim detail,
  traj <> [] -> NoDup (map fst traj) -> (0 < ndim)%nat ->
  exists rows, py_msd traj mpp fps (Z.of_nat maxlag) detail (Some (seq 0 ndim))
               = Ret (frame_of_mrows (seq 0 ndim) detail rows) /\
    map r_lag rows = seq 1 (Nat.min maxlag (span traj)) /\
    Forall (fun r =>
      r_lagt r = nq (r_lag r) / fps /\
      r_msd r = msd_def mpp ndim traj (r_lag r) /\
      r_sq r = map (fun d => axis_sq_def mpp d traj (r_lag r)) (seq 0 ndim) /\
      r_N r = N_eff traj (r_lag r)) rows.
Proof.
  intros traj mpp fps maxlag ndim detail H1 H2 H3.
  destruct (msd_ok traj mpp fps maxlag ndim H1 H2 H3) as [rows [E R]].
  exists rows. split; auto.
  pose proof (gen_msd traj mpp fps maxlag ndim detail H3) as G. rewrite E in G. exact G.
Qed.

Theorem gen_msd_nan_iff_no_pair : forall traj mpp fps maxlag ndim detail,
  traj <> [] -> NoDup (map fst traj) -> (0 < ndim)%nat ->
  exists rows, py_msd traj mpp fps (Z.of_nat maxlag) detail (Some (seq 0 ndim))
               = Ret (frame_of_mrows (seq 0 ndim) detail rows) /\
    forall r, In r rows -> (r_msd r = None <-> pairs (Z.of_nat (r_lag r)) traj = []).
Proof.
  intros traj mpp fps maxlag ndim detail H1 H2 H3.
  destruct (msd_nan_iff_no_pair traj mpp fps maxlag ndim H1 H2 H3) as [rows [E R]].
  exists rows. split; auto.
  pose proof (gen_msd traj mpp fps maxlag ndim detail H3) as G. rewrite E in G. exact G.
Qed.

Theorem gen_msd_order_independent : forall traj traj' mpp fps maxlag ndim detail,
  traj <> [] -> NoDup (map fst traj) -> (0 < ndim)%nat -> Permutation traj traj' ->
  py_msd traj mpp fps (Z.of_nat maxlag) detail (Some (seq 0 ndim))
  = py_msd traj' mpp fps (Z.of_nat maxlag) detail (Some (seq 0 ndim)).
Proof.
  intros traj traj' mpp fps maxlag ndim detail H1 H2 H3 HP.
  destruct (msd_ok traj mpp fps maxlag ndim H1 H2 H3) as [rows [E _]].
  pose proof (gen_msd traj mpp fps maxlag ndim detail H3) as G.
  pose proof (gen_msd traj' mpp fps maxlag ndim detail H3) as G'.
  rewrite <- (msd_order_independent traj traj' mpp fps maxlag ndim H2 HP) in G'.
  rewrite E in G, G'. unfold agrees in *. congruence.
Qed.

Theorem gen_paths_agree : forall r0 t' mpp fps maxlag ndim detail,
  StronglySorted (fun a b : row => (fst a <= fst b)%Z) (r0 :: t') ->
  NoDup (map fst (r0 :: t')) -> (0 < ndim)%nat ->
  (fst (last (r0 :: t') r0) - fst r0 + 1 = Z.of_nat (length (r0 :: t')))%Z ->
  exists rows_g rows_f,
    py__msd_gaps (r0 :: t') mpp fps (Z.of_nat maxlag) detail (Some (seq 0 ndim)) = Ret (frame_of_mrows (seq 0 ndim) detail rows_g) /\
    py__msd_fft (r0 :: t') mpp fps (Z.of_nat maxlag) detail (Some (seq 0 ndim)) = Ret (frame_of_mrows (seq 0 ndim) detail rows_f) /\
    map (fun r => (r_lag r, r_lagt r, r_msd r, r_sq r, r_N r)) rows_g =
    map (fun r => (r_lag r, r_lagt r, r_msd r, r_sq r, r_N r)) rows_f.
Proof.
  intros r0 t' mpp fps maxlag ndim detail H1 H2 H3 H4.
  destruct (paths_agree r0 t' mpp fps maxlag ndim H1 H2 H3 H4) as [rows [E R]].
  exists rows, (msd_fft (r0 :: t') mpp fps maxlag ndim). split; [|split; auto].
  - pose proof (gen_msd_gaps (r0 :: t') mpp fps maxlag ndim detail) as G. rewrite E in G. exact G.
  - apply gen_msd_fft; auto. discriminate.
Qed.

(* ==== imsd / emsd: the pandas pipeline after the loop = the model's table assembly ==== *)
(* ---- sorted distinct labels ------------------------------------------------------- *)
Lemma zinsert_u_sorted : forall x l, StronglySorted Z.lt l -> StronglySorted Z.lt (zinsert_u x l).
Proof.
  intros x l. induction l as [|h t]; intros H; simpl.
  - repeat constructor.
  - inversion H as [|? ? Ht Hh]; subst.
    destruct (Z.ltb_spec x h).
    + constructor; auto. constructor; auto. eapply Forall_impl; [|exact Hh]. intros; lia.
    + destruct (Z.eqb_spec x h); auto.
      constructor; auto. apply Forall_forall. intros y Hy. apply zinsert_u_in in Hy.
      destruct Hy as [->|Hy]; [lia|]. rewrite Forall_forall in Hh. auto.
Qed.

Lemma zsortu_sorted : forall l, StronglySorted Z.lt (zsortu l).
Proof. unfold zsortu. induction l; simpl. constructor. now apply zinsert_u_sorted. Qed.

Lemma zsortu_in : forall x l, In x (zsortu l) <-> In x l.
Proof. unfold zsortu. induction l; simpl. reflexivity. rewrite zinsert_u_in, IHl. intuition. Qed.

Lemma sorted_ext : forall a b, StronglySorted Z.lt a -> StronglySorted Z.lt b ->
  (forall x, In x a <-> In x b) -> a = b.
Proof.
  induction a as [|x a]; intros b Ha Hb H.
  - destruct b as [|y b]; auto. exfalso. apply (H y). now left.
  - destruct b as [|y b]; [exfalso; apply (H x); now left|].
    inversion Ha as [|? ? Ha' Hx]; inversion Hb as [|? ? Hb' Hy]; subst.
    rewrite Forall_forall in Hx, Hy.
    assert (x = y).
    { destruct (proj1 (H x) (or_introl eq_refl)) as [E|E]; auto.
      destruct (proj2 (H y) (or_introl eq_refl)) as [E'|E']; auto.
      apply Hy in E. apply Hx in E'. lia. }
    subst y. f_equal. apply IHa; auto.
    intros z. split; intros Hz.
    + destruct (proj1 (H z) (or_intror Hz)) as [E|E]; auto. subst z. apply Hx in Hz. lia.
    + destruct (proj2 (H z) (or_intror Hz)) as [E|E]; auto. subst z. apply Hy in Hz. lia.
Qed.

Lemma seqZ_sorted : forall n s, StronglySorted Z.lt (map Z.of_nat (seq s n)).
Proof.
  induction n; intros s; simpl; constructor; auto.
  apply Forall_forall. intros y Hy. apply in_map_iff in Hy. destruct Hy as [k [<- Hk]]. apply in_seq in Hk. lia.
Qed.

Lemma le_fold_max : forall (A : Type) (len : A -> nat) (l : list A) k, (1 <= k)%nat ->
  (k <= fold_right Nat.max 0%nat (map len l))%nat <-> exists x, In x l /\ (k <= len x)%nat.
Proof.
  induction l as [|a l]; simpl; intros k Hk.
  - split; [lia|intros [x [[] _]]].
  - split.
    + intros H. destruct (Nat.le_gt_cases k (len a)).
      * exists a. auto.
      * assert (k <= fold_right Nat.max 0%nat (map len l))%nat by lia.
        apply IHl in H1; auto. destruct H1 as [x [Hx Hl]]. exists x. auto.
    + intros [x [[<-|Hx] Hl]]; [lia|].
      assert (k <= fold_right Nat.max 0%nat (map len l))%nat by (apply IHl; auto; exists x; auto). lia.
Qed.

(* the distinct lags of tables whose lags are 1 .. length *)
Lemma labels_union : forall (A : Type) (len : A -> nat) (l : list A),
  zsortu (flat_map (fun x => map Z.of_nat (seq 1 (len x))) l)
  = map Z.of_nat (seq 1 (fold_right Nat.max 0%nat (map len l))).
Proof.
  intros A len l. apply sorted_ext. apply zsortu_sorted. apply seqZ_sorted.
  intros z. rewrite zsortu_in, in_flat_map, in_map_iff. split.
  - intros [x [Hx Hz]]. apply in_map_iff in Hz. destruct Hz as [k [<- Hk]]. apply in_seq in Hk.
    exists k. split; auto. apply in_seq. split; [lia|].
    assert (k <= fold_right Nat.max 0%nat (map len l))%nat by (apply le_fold_max; [lia|exists x; split; auto; lia]). lia.
  - intros [k [<- Hk]]. apply in_seq in Hk.
    assert (k <= fold_right Nat.max 0%nat (map len l))%nat by lia.
    apply le_fold_max in H; [|lia]. destruct H as [x [Hx Hl]]. exists x. split; auto.
    apply in_map. apply in_seq. lia.
Qed.

(* ---- tables ------------------------------------------------------------------------ *)
Lemma lbl_eqb_refl : forall l, lbl_eqb l l = true.
Proof. destruct l; simpl; auto using Nat.eqb_refl. Qed.
Lemma lbl_eqb_eq : forall a b, lbl_eqb a b = true -> a = b.
Proof. destruct a, b; simpl; intros H; try discriminate; auto; apply Nat.eqb_eq in H; now subst. Qed.

Lemma setcol_skip : forall pre Y l v, (forall x, In x pre -> lbl_eqb (fst x) l = false) ->
  setcol (pre ++ Y) l v = pre ++ setcol Y l v.
Proof.
  induction pre as [|[l' v'] pre]; simpl; intros; auto.
  pose proof (H (l', v') (or_introl eq_refl)) as E; simpl in E; rewrite E. f_equal. apply IHpre. intros; apply H; auto.
Qed.

Lemma getcol_setcol_same : forall cs l v, getcol (setcol cs l v) l = Some v.
Proof.
  induction cs as [|[l' v'] cs]; simpl; intros.
  - now rewrite lbl_eqb_refl.
  - destruct (lbl_eqb l' l) eqn:E; simpl. now rewrite lbl_eqb_refl. rewrite E. apply IHcs.
Qed.

Lemma getcol_setcol_other : forall cs l v l', lbl_eqb l l' = false -> getcol (setcol cs l v) l' = getcol cs l'.
Proof.
  induction cs as [|[l0 v0] cs]; simpl; intros l v l' H.
  - now rewrite H.
  - destruct (lbl_eqb l0 l) eqn:E; simpl.
    + apply lbl_eqb_eq in E. subst l0. now rewrite H.
    + destruct (lbl_eqb l0 l'); auto.
Qed.

Lemma getcol_map_labels : forall (G : lbl -> list cell) ls l, In l ls ->
  getcol (map (fun l' => (l', G l')) ls) l = Some (G l).
Proof.
  induction ls as [|a ls]; simpl; intros l H; [contradiction|].
  destruct (lbl_eqb a l) eqn:E.
  - apply lbl_eqb_eq in E. now subst.
  - destruct H as [->|H]; [rewrite lbl_eqb_refl in E; discriminate|]. auto.
Qed.

Lemma getcol_map_vals : forall (h : list cell -> list cell) cs l,
  getcol (map (fun lc => (fst lc, h (snd lc))) cs) l = option_map h (getcol cs l).
Proof. induction cs as [|[a v] cs]; simpl; intros; auto. destruct (lbl_eqb a l); simpl; auto. Qed.

Lemma combine_map_same : forall (A B C : Type) (f : A -> B) (g : A -> C) l,
  combine (map f l) (map g l) = map (fun x => (f x, g x)) l.
Proof. induction l; simpl; congruence. Qed.

Lemma map2_same_r : forall (A B C : Type) (f : A -> B -> C) (g : A -> B) l,
  map2 f l (map g l) = map (fun x => f x (g x)) l.
Proof. induction l; simpl; congruence. Qed.

Lemma flat_map_map' : forall (A B C : Type) (f : B -> list C) (g : A -> B) l,
  flat_map f (map g l) = flat_map (fun x => f (g x)) l.
Proof. induction l; simpl; congruence. Qed.

Lemma map_flat_map' : forall (A B C : Type) (f : B -> C) (g : A -> list B) l,
  map f (flat_map g l) = flat_map (fun x => map f (g x)) l.
Proof. induction l; simpl; auto. rewrite map_app. congruence. Qed.

Lemma somes_app : forall a b, somes (a ++ b) = somes a ++ somes b.
Proof. induction a as [|[x|] a]; simpl; intros; auto. now rewrite IHa. Qed.

Lemma somes_flat_map : forall (A : Type) (f : A -> list cell) l,
  somes (flat_map f l) = flat_map (fun x => somes (f x)) l.
Proof. induction l; simpl; auto. rewrite somes_app. congruence. Qed.

Lemma assoc_map_in : forall (g : Z -> cell) L m, In m L -> assoc m (map (fun k => (k, g k)) L) = g m.
Proof.
  induction L as [|a L]; simpl; intros m H; [contradiction|].
  destruct (Z.eqb_spec a m); [now subst|]. destruct H; [contradiction|auto].
Qed.

Lemma mf_getcol_map : forall (T : Type) (key : T -> Z) (fr : T -> frame) (c : T -> list cell) l (tabs : list T),
  (forall t, In t tabs -> getcol (f_cols (fr t)) l = Some (c t)) ->
  mf_getcol (map (fun t => (key t, fr t)) tabs) l = Ret (map (fun t => (key t, combine (f_index (fr t)) (c t))) tabs).
Proof.
  intros T key fr c l tabs. unfold mf_getcol.
  assert (G : forall acc, (forall t, In t tabs -> getcol (f_cols (fr t)) l = Some (c t)) ->
            foldM (fun acc kf => bind (df_getcol (snd kf) l) (fun v => Ret (acc ++ [(fst kf, combine (f_index (snd kf)) v)])))
                  (map (fun t => (key t, fr t)) tabs) acc
            = Ret (acc ++ map (fun t => (key t, combine (f_index (fr t)) (c t))) tabs)).
  { induction tabs as [|t tabs]; intros acc H; simpl. now rewrite app_nil_r.
    unfold df_getcol at 1. rewrite (H t) by (now left). cbn [bind].
    rewrite IHtabs by (intros; apply H; now right). now rewrite <- app_assoc. }
  intros H. now rewrite G.
Qed.

(* ---- the per-particle tables of emsd -------------------------------------------------- *)
Definition lagZ (r : mrow) : Z := Z.of_nat (r_lag r).
Definition Nmf (r : mrow) : cell := match r_msd r with Some _ => Some (r_N r) | None => None end.
Definition fom_pre (pc : list nat) (rows : list mrow) : list (lbl * list cell) :=
  combine (map LDisp pc) (map (fun j => map (fun r => nth j (r_disp r) None) rows) (seq 0 (length pc)))
  ++ combine (map LSq pc) (map (fun j => map (fun r => nth j (r_sq r) None) rows) (seq 0 (length pc))).
Definition fom_masked (pc : list nat) (rows : list mrow) : frame :=
  mkframe (map lagZ rows) (Some "lagt"%string)
    (fom_pre pc rows ++ [(LMsd, map r_msd rows); (LN, map Nmf rows); (LLagt, map (fun r => Some (r_lagt r)) rows)]).

Lemma in_combine_fst' : forall (A B : Type) (f : A -> lbl) (pc : list A) (V : list B) x,
  In x (combine (map f pc) V) -> exists p, In p pc /\ fst x = f p.
Proof.
  intros A B f pc V [a b] H. apply in_combine_l in H. apply in_map_iff in H.
  destruct H as [p [E I]]. exists p. auto.
Qed.

Lemma fom_pre_fresh : forall pc rows l, (l = LMsd \/ l = LN \/ l = LLagt) ->
  forall x, In x (fom_pre pc rows) -> lbl_eqb (fst x) l = false.
Proof.
  intros pc rows l Hl x Hx. unfold fom_pre in Hx. apply in_app_or in Hx.
  destruct Hx as [Hx|Hx]; apply in_combine_fst' in Hx; destruct x as [lx vx]; cbn [fst] in Hx |- *;
    destruct Hx as [q [_ ->]]; destruct Hl as [ -> | [ -> | -> ] ]; reflexivity.
Qed.

Lemma fom_cols : forall pc rows,
  f_cols (frame_of_mrows pc true rows)
  = fom_pre pc rows ++ [(LMsd, map r_msd rows); (LN, map (fun r => Some (r_N r)) rows); (LLagt, map (fun r => Some (r_lagt r)) rows)].
Proof. intros. unfold frame_of_mrows, fom_pre. cbn [f_cols]. now rewrite <- !app_assoc. Qed.


Lemma fom_getcol_msd : forall pc rows, getcol (f_cols (frame_of_mrows pc true rows)) LMsd = Some (map r_msd rows).
Proof. intros. rewrite fom_cols, getcol_skip by (apply fom_pre_fresh; auto). reflexivity. Qed.
Lemma fom_getcol_N : forall pc rows, getcol (f_cols (frame_of_mrows pc true rows)) LN = Some (map (fun r => Some (r_N r)) rows).
Proof. intros. rewrite fom_cols, getcol_skip by (apply fom_pre_fresh; auto). reflexivity. Qed.
Lemma fomm_getcol_msd : forall pc rows, getcol (f_cols (fom_masked pc rows)) LMsd = Some (map r_msd rows).
Proof. intros. unfold fom_masked. cbn [f_cols]. rewrite getcol_skip by (apply fom_pre_fresh; auto). reflexivity. Qed.
Lemma fomm_getcol_N : forall pc rows, getcol (f_cols (fom_masked pc rows)) LN = Some (map Nmf rows).
Proof. intros. unfold fom_masked. cbn [f_cols]. rewrite getcol_skip by (apply fom_pre_fresh; auto). reflexivity. Qed.

Lemma fom_mask : forall pc rows,
  df_setcol (frame_of_mrows pc true rows) LN (map Nmf rows) = fom_masked pc rows.
Proof.
  intros. unfold df_setcol. rewrite fom_cols. unfold fom_masked, frame_of_mrows. cbn [f_index f_iname].
  f_equal. rewrite setcol_skip by (apply fom_pre_fresh; auto). reflexivity.
Qed.

(* the entries of a table column at one lag, when the lags are s, s+1, .. *)
Lemma at_lag : forall (g : mrow -> cell) k rows s, map r_lag rows = seq s (length rows) ->
  map snd (filter (fun e => (fst e =? Z.of_nat k)%Z) (combine (map lagZ rows) (map g rows)))
  = match find_lag k rows with Some r => [g r] | None => [] end.
Proof.
  intros g k. induction rows as [|r rows]; intros s H; auto.
  simpl in H. injection H as Hr Hrest.
  assert (Hno : (r_lag r < S s)%nat) by lia.
  cbn [map combine filter fst]. unfold find_lag. cbn [find]. fold (find_lag k rows).
  unfold lagZ at 1.
  destruct (Nat.eqb_spec (r_lag r) k) as [E|E].
  - replace (Z.of_nat (r_lag r) =? Z.of_nat k)%Z with true by (symmetry; apply Z.eqb_eq; lia).
    cbn [map snd]. f_equal.
    rewrite (IHrows (S s) Hrest).
    rewrite (find_lag_none k rows (S s) (length rows) Hrest); auto. lia.
  - replace (Z.of_nat (r_lag r) =? Z.of_nat k)%Z with false by (symmetry; apply Z.eqb_neq; lia).
    apply (IHrows (S s) Hrest).
Qed.

Definition contrib1 (k : nat) (rows : list mrow) : list (Qc * Qc) :=
  match find_lag k rows with
  | Some r => match r_msd r with Some v => [(r_N r, v)] | None => [] end
  | None => []
  end.

Lemma map_snd_combine_same : forall (A B C : Type) (f : A -> B) (g : A -> C) l,
  map snd (combine (map f l) (map g l)) = map g l.
Proof. intros. rewrite combine_map_same, map_map. reflexivity. Qed.
Lemma map_fst_combine_same : forall (A B C : Type) (f : A -> B) (g : A -> C) l,
  map fst (combine (map f l) (map g l)) = map f l.
Proof. intros. rewrite combine_map_same, map_map. reflexivity. Qed.

Definition emsd_rows (fps : Qc) (tabs : list (Z * list mrow)) : list erow :=
  map (fun m =>
         let ent := contrib_entries m tabs in
         let num := mean (map (fun e => snd e * fst e) ent) in
         let den := mean (map fst ent) in
         {| e_lag := m; e_lagt := nq m / fps; e_msd := odiv num den; e_N := qsum (map fst ent) |})
      (lags (max_lag tabs)).

Lemma flat_map_ext_in' : forall (A B : Type) (f g : A -> list B) l,
  (forall x, In x l -> f x = g x) -> flat_map f l = flat_map g l.
Proof. induction l; simpl; intros; auto. rewrite H by auto. f_equal. auto. Qed.

Section EmsdTail.
Variables (fps : Qc) (pc : list nat) (tabs : list (Z * list mrow)).
Hypothesis Hne : tabs <> [].
Hypothesis Hlags : forall pt, In pt tabs -> map r_lag (snd pt) = seq 1 (length (snd pt)).

Let FOM (pt : Z * list mrow) := frame_of_mrows pc true (snd pt).
Let FOMm (pt : Z * list mrow) := fom_masked pc (snd pt).
Let mf0 := map (fun pt => (fst pt, FOM pt)) tabs.
Let mf1 := map (fun pt => (fst pt, FOMm pt)) tabs.
Let nser := map (fun pt => (fst pt, combine (map lagZ (snd pt)) (map Nmf (snd pt)))) tabs.
Let M := max_lag tabs.
Let idx := map Z.of_nat (seq 1 M).

Lemma e_concat : pd_concat_keys (map (fun pt => frame_of_mrows pc true (snd pt)) tabs) (map fst tabs) = Ret mf0.
Proof.
  unfold pd_concat_keys, mf0, FOM. destruct tabs; [congruence|]. cbn [map]. rewrite <- combine_map_same. reflexivity.
Qed.

Lemma e_getN0 : mf_getcol mf0 LN
  = Ret (map (fun pt => (fst pt, combine (map lagZ (snd pt)) (map (fun r => Some (r_N r)) (snd pt)))) tabs).
Proof. unfold mf0. rewrite (mf_getcol_map _ fst FOM (fun pt => map (fun r => Some (r_N r)) (snd pt))); auto. intros; apply fom_getcol_N. Qed.

Lemma e_getM0 : mf_getcol mf0 LMsd
  = Ret (map (fun pt => (fst pt, combine (map lagZ (snd pt)) (map r_msd (snd pt)))) tabs).
Proof. unfold mf0. rewrite (mf_getcol_map _ fst FOM (fun pt => map r_msd (snd pt))); auto. intros; apply fom_getcol_msd. Qed.

Lemma e_mask : mf_setcol mf0 LN
    (ms_where (map (fun pt => (fst pt, combine (map lagZ (snd pt)) (map (fun r => Some (r_N r)) (snd pt)))) tabs)
              (ms_notna (map (fun pt => (fst pt, combine (map lagZ (snd pt)) (map r_msd (snd pt)))) tabs))) = mf1.
Proof.
  unfold mf_setcol, ms_where, ms_notna, mf0, mf1. rewrite map_map. rewrite map2_map_same. rewrite map2_map_same.
  apply map_ext. intros pt. cbn [fst snd]. f_equal. unfold FOM, FOMm. rewrite <- fom_mask. f_equal.
  rewrite !combine_map_same, map_map, map2_map_same, map_map. apply map_ext. intros r. cbn [fst snd]. unfold Nmf.
  destruct (r_msd r); reflexivity.
Qed.

Lemma e_getN1 : mf_getcol mf1 LN = Ret nser.
Proof. unfold mf1, nser. rewrite (mf_getcol_map _ fst FOMm (fun pt => map Nmf (snd pt))); auto. intros; apply fomm_getcol_N. Qed.

Lemma e_union : zsortu (flat_map (fun pt : Z * list mrow => map lagZ (snd pt)) tabs) = idx.
Proof.
  unfold idx, M, max_lag.
  rewrite <- (labels_union _ (fun pt : Z * list mrow => length (snd pt)) tabs). f_equal.
  apply flat_map_ext_in'. intros pt Hpt. unfold lagZ. rewrite <- (Hlags pt Hpt), map_map. reflexivity.
Qed.

Lemma e_labels_ms : ms_labels nser = idx.
Proof.
  unfold ms_labels, nser. rewrite flat_map_map'. cbn [snd]. rewrite <- e_union. f_equal.
  apply flat_map_ext_in'. intros. apply map_fst_combine_same.
Qed.

Let mulmf := mf_mul_axis0 mf1 nser.

Lemma e_mul : mulmf = map (fun pt => (fst pt, mkframe (map lagZ (snd pt)) (Some "lagt"%string)
                 (map (fun lc => (fst lc, map2 omul (snd lc) (map Nmf (snd pt)))) (f_cols (FOMm pt))))) tabs.
Proof.
  unfold mulmf, mf_mul_axis0, mf1, nser. rewrite map2_map_same. apply map_ext. intros pt. cbn [fst snd].
  rewrite map_snd_combine_same. reflexivity.
Qed.

Lemma e_labels_mf : mf_labels mulmf = idx.
Proof. rewrite e_mul. unfold mf_labels. rewrite flat_map_map'. cbn [snd f_index]. apply e_union. Qed.

Lemma e_at_msd : forall k, somes (mf_at (Z.of_nat k) LMsd mulmf) = map (fun e => snd e * fst e) (contrib_entries k tabs).
Proof.
  intros k. rewrite e_mul. unfold mf_at, contrib_entries. rewrite flat_map_map', somes_flat_map, map_flat_map'.
  apply flat_map_ext_in'. intros pt Hpt. cbn [snd f_cols f_index].
  rewrite (getcol_map_vals (fun c => map2 omul c (map Nmf (snd pt)))). unfold FOMm. rewrite fomm_getcol_msd. cbn [option_map].
  unfold select. rewrite map2_map_same.
  rewrite (at_lag (fun r => omul (r_msd r) (Nmf r)) k (snd pt) 1 (Hlags pt Hpt)).
  destruct (find_lag k (snd pt)) as [r|]; auto. unfold Nmf. destruct (r_msd r); reflexivity.
Qed.

Lemma e_at_N : forall k, somes (ms_at (Z.of_nat k) nser) = map fst (contrib_entries k tabs).
Proof.
  intros k. unfold ms_at, nser, contrib_entries. rewrite flat_map_map', somes_flat_map, map_flat_map'.
  apply flat_map_ext_in'. intros pt Hpt. cbn [snd].
  rewrite (at_lag Nmf k (snd pt) 1 (Hlags pt Hpt)).
  destruct (find_lag k (snd pt)) as [r|]; auto. unfold Nmf. destruct (r_msd r); reflexivity.
Qed.

Lemma e_collabels : In LMsd (mf_collabels mulmf).
Proof.
  rewrite e_mul. unfold mf_collabels. destruct tabs as [|pt tl]; [congruence|]. cbn [map snd f_cols].
  rewrite map_map. cbn [fst]. unfold FOMm, fom_masked. cbn [f_cols]. rewrite map_app. apply in_or_app. right. simpl. auto.
Qed.

Theorem emsd_tail_ok :
  exists f, emsd_tail fps true (tabs_ids tabs) (tabs_frames pc true tabs) = Ret (EmsdFrame f) /\
            emsd_frame_agrees f (emsd_rows fps tabs).
Proof.
  unfold emsd_tail, tabs_ids, tabs_frames. rewrite e_concat. cbn [bind].
  rewrite e_getN0. cbn [bind]. rewrite e_getM0. cbn [bind]. rewrite e_mask.
  rewrite e_getN1. cbn [bind negb]. fold mulmf.
  eexists. split; [reflexivity|].
  unfold emsd_frame_agrees, df_setcol_aligned, df_setcol, df_div_axis0, mf_groupby_level1_mean, df_index_values.
  cbn [f_index f_iname f_cols]. rewrite e_labels_mf.
  unfold emsd_rows, lags. fold M. rewrite !map_map. cbn [e_lag e_lagt e_msd e_N].
  split; [reflexivity|]. split; [|split].
  - rewrite getcol_setcol_other by reflexivity. rewrite getcol_setcol_same.
    unfold fvec_cells, ivec_div_float, py_float, idx. rewrite !map_map. reflexivity.
  - rewrite getcol_setcol_other by reflexivity. rewrite getcol_setcol_other by reflexivity.
    cbn [fst snd].
    match goal with |- getcol (map (fun x => (x, @?G x)) _) _ = _ => rewrite (getcol_map_labels G) by apply e_collabels end.
    f_equal.
    rewrite map2_same_r. unfold idx. rewrite map_map. apply map_ext_in. intros k Hk.
    unfold ms_groupby_level1_mean. rewrite e_labels_ms.
    rewrite assoc_map_in by (unfold idx; apply in_map; exact Hk).
    unfold nanmean. rewrite e_at_msd, e_at_N. reflexivity.
  - rewrite getcol_setcol_same. f_equal. unfold idx. rewrite map_map. apply map_ext_in. intros k Hk.
    unfold ms_groupby_level1_sum. rewrite e_labels_ms.
    rewrite assoc_map_in by (unfold idx; apply in_map; exact Hk).
    unfold nansum. rewrite e_at_N. reflexivity.
Qed.
End EmsdTail.

(* ---- from the model: every table msd returns has the lags 1 .. length ---------------- *)
Lemma msd_lags : forall t mpp fps ml ndim rows, msd t mpp fps ml ndim = Some rows ->
  map r_lag rows = seq 1 (length rows).
Proof.
  intros t mpp fps ml ndim rows. unfold msd. destruct (isort t) as [|r0 t'] eqn:E; [discriminate|].
  destruct (_ =? _)%Z.
  - intros H. injection H as <-. unfold msd_fft. rewrite map_map, map_length, seq_length. cbn [r_lag].
    now rewrite seq_shift.
  - unfold msd_gaps. destruct (negb _); [discriminate|]. intros H. injection H as <-.
    rewrite map_map, map_length. cbn [r_lag]. unfold lags. now rewrite map_id, seq_length.
Qed.

Lemma all_some_in : forall (A B : Type) (f : A -> option B) l r, all_some (map f l) = Some r ->
  length r = length l /\ forall y, In y r -> exists x, In x l /\ f x = Some y.
Proof.
  induction l as [|a l]; simpl; intros r H.
  - injection H as <-. split; auto. intros y [].
  - destruct (f a) as [b|] eqn:E; [|discriminate]. destruct (all_some (map f l)) as [r'|] eqn:E'; [|discriminate].
    injection H as <-. destruct (IHl r' eq_refl) as [HL HI]. split; [simpl; lia|].
    intros y [<-|Hy]. exists a; auto. destruct (HI y Hy) as [x [Hx Hf]]. exists x; auto.
Qed.

Lemma per_particle_facts : forall tr mpp fps ml ndim tabs, per_particle tr mpp fps ml ndim = Some tabs ->
  (tr <> [] -> tabs <> []) /\ forall pt, In pt tabs -> map r_lag (snd pt) = seq 1 (length (snd pt)).
Proof.
  intros tr mpp fps ml ndim tabs H. unfold per_particle in H. apply all_some_in in H. destruct H as [HL HI]. split.
  - intros Hne Ht. subst tabs. simpl in HL. destruct tr as [|a tr]; [congruence|].
    assert (In (fst a) (pids (a :: tr))) by (apply pids_in; simpl; auto).
    destruct (pids (a :: tr)); [contradiction|discriminate].
  - intros pt Hpt. destruct (HI pt Hpt) as [p [_ Hp]].
    destruct (msd (rows_of p tr) mpp fps ml ndim) as [rows|] eqn:E; [|discriminate].
    injection Hp as <-. cbn [snd]. eapply msd_lags; eauto.
Qed.


(* ---- imsd: the pivot -------------------------------------------------------------------- *)
Lemma fom_getcol_msd' : forall pc b rows, getcol (f_cols (frame_of_mrows pc b rows)) LMsd = Some (map r_msd rows).
Proof.
  intros. unfold frame_of_mrows. cbn [f_cols]. rewrite app_assoc. fold (fom_pre pc rows).
  rewrite getcol_skip by (apply fom_pre_fresh; auto). reflexivity.
Qed.

Lemma assoc_entry : forall k rows,
  assoc (Z.of_nat k) (combine (map lagZ rows) (map r_msd rows)) = entry k rows.
Proof.
  intros k. unfold entry, find_lag. induction rows as [|r rows]; auto. cbn [map combine assoc find]. unfold lagZ at 1.
  destruct (Nat.eqb_spec (r_lag r) k) as [E|E].
  - replace (Z.of_nat (r_lag r) =? Z.of_nat k)%Z with true by (symmetry; apply Z.eqb_eq; lia). reflexivity.
  - replace (Z.of_nat (r_lag r) =? Z.of_nat k)%Z with false by (symmetry; apply Z.eqb_neq; lia). exact IHrows.
Qed.

Lemma flat_map_pick : forall (B : Type) (h : Z * list mrow -> list B) (tabs : list (Z * list mrow)) pt,
  NoDup (map fst tabs) -> In pt tabs ->
  flat_map (fun pt' => if (fst pt' =? fst pt)%Z then h pt' else []) tabs = h pt.
Proof.
  induction tabs as [|a tabs]; intros pt ND H; [contradiction|]. simpl in ND. inversion ND as [|? ? Hn ND']; subst.
  cbn [flat_map]. destruct H as [->|H].
  - rewrite Z.eqb_refl.
    assert (Z0 : flat_map (fun pt' => if (fst pt' =? fst pt)%Z then h pt' else []) tabs = []).
    { clear -Hn. induction tabs as [|b tabs]; auto. cbn [flat_map].
      destruct (Z.eqb_spec (fst b) (fst pt)) as [E|E].
      - exfalso. apply Hn. simpl. auto.
      - simpl. apply IHtabs. intros H. apply Hn. simpl. auto. }
    rewrite Z0. apply app_nil_r.
  - destruct (Z.eqb_spec (fst a) (fst pt)) as [E|E].
    + exfalso. apply Hn. rewrite E. apply in_map. exact H.
    + simpl. apply IHtabs; auto.
Qed.

Lemma sorted_filter : forall (p : Z * list mrow -> bool) l,
  StronglySorted Z.lt (map fst l) -> StronglySorted Z.lt (map fst (filter p l)).
Proof.
  induction l as [|a l]; simpl; intros H; auto. inversion H as [|? ? Hs Ha]; subst.
  destruct (p a); simpl; auto. constructor; auto.
  apply Forall_forall. intros y Hy. apply in_map_iff in Hy. destruct Hy as [x [<- Hx]]. apply filter_In in Hx.
  rewrite Forall_forall in Ha. apply Ha. apply in_map. tauto.
Qed.

Lemma sorted_nodup : forall l, StronglySorted Z.lt l -> NoDup l.
Proof.
  induction l; intros H; constructor; inversion H; subst; auto.
  intros Hi. rewrite Forall_forall in H3. apply H3 in Hi. lia.
Qed.

Definition nonempty_tab (pt : Z * list mrow) : bool := match snd pt with [] => false | _ => true end.

Lemma max_lag_filter : forall tabs, max_lag (filter nonempty_tab tabs) = max_lag tabs.
Proof.
  unfold max_lag. induction tabs as [|[p rows] tabs]; auto. cbn [filter]. unfold nonempty_tab at 1. cbn [snd].
  destruct rows; cbn [map fold_right snd length]; rewrite IHtabs; reflexivity.
Qed.

Definition imsd_rows (fps : Qc) (tabs : list (Z * list mrow)) : list Z * list irow :=
  let tabs' := filter nonempty_tab tabs in
  (map fst tabs', map (fun m => {| i_lag := m; i_lagt := nq m / fps; i_vals := map (fun pt => entry m (snd pt)) tabs' |})
                      (lags (max_lag tabs'))).

Section ImsdTail.
Variables (fps : Qc) (pc : list nat) (tabs : list (Z * list mrow)).
Hypothesis Hne : tabs <> [].
Hypothesis Hlags : forall pt, In pt tabs -> map r_lag (snd pt) = seq 1 (length (snd pt)).
Hypothesis Hsorted : StronglySorted Z.lt (map fst tabs).

Let FOMf (pt : Z * list mrow) := frame_of_mrows pc false (snd pt).
Let mf0 := map (fun pt => (fst pt, FOMf pt)) tabs.
Let mser := map (fun pt => (fst pt, combine (map lagZ (snd pt)) (map r_msd (snd pt)))) tabs.
Let M := max_lag tabs.
Let idx := map Z.of_nat (seq 1 M).
Let tabs' := filter nonempty_tab tabs.

Lemma i_concat : pd_concat_keys (map (fun pt => frame_of_mrows pc false (snd pt)) tabs) (map fst tabs) = Ret mf0.
Proof.
  unfold pd_concat_keys, mf0, FOMf. destruct tabs; [congruence|]. cbn [map]. rewrite <- combine_map_same. reflexivity.
Qed.

Lemma i_getM : mf_getcol mf0 LMsd = Ret mser.
Proof. unfold mf0, mser. rewrite (mf_getcol_map _ fst FOMf (fun pt => map r_msd (snd pt))); auto. intros; apply fom_getcol_msd'. Qed.

Lemma i_labels : ms_labels mser = idx.
Proof.
  unfold ms_labels, mser, idx, M. rewrite flat_map_map'. cbn [snd]. rewrite <- (e_union tabs Hlags). f_equal.
  apply flat_map_ext_in'. intros. apply map_fst_combine_same.
Qed.

Lemma i_keys : zsortu (flat_map (fun kv : Z * list (Z * cell) => map (fun _ => fst kv) (snd kv)) mser) = map fst tabs'.
Proof.
  apply sorted_ext. apply zsortu_sorted. apply sorted_filter, Hsorted.
  intros x. rewrite zsortu_in. unfold mser. rewrite flat_map_map'. cbn [fst snd]. rewrite in_flat_map, in_map_iff. split.
  - intros [pt [Hpt Hx]]. apply in_map_iff in Hx. destruct Hx as [e [<- He]]. exists pt. split; auto.
    apply filter_In. split; auto. unfold nonempty_tab. destruct (snd pt); [destruct He|reflexivity].
  - intros [pt [<- Hpt]]. apply filter_In in Hpt. destruct Hpt as [Hpt Hn]. exists pt. split; auto.
    unfold nonempty_tab in Hn. destruct (snd pt) as [|r rows]; [discriminate|]. simpl. auto.
Qed.

Theorem imsd_tail_ok :
  imsd_tail fps LMsd (tabs_ids tabs) (tabs_frames pc false tabs) = Ret (widef_of_irows (imsd_rows fps tabs)).
Proof.
  unfold imsd_tail, tabs_ids, tabs_frames. rewrite i_concat. cbn [bind].
  unfold mf_swaplevel_getcol_unstack. rewrite i_getM. cbn [bind]. rewrite i_labels, i_keys.
  unfold wide_set_index_values, widef_set_index_name, wide_index_values, widef_of_irows, imsd_rows.
  cbn [w_index w_columns w_vals wf_index wf_columns wf_vals wf_iname fst snd].
  rewrite max_lag_filter. fold tabs'. fold M. unfold lags. rewrite !map_map. cbn [i_lagt i_vals].
  f_equal; f_equal.
  - unfold fvec_div_float, ivec_astype_float, py_float, idx. rewrite !map_map. reflexivity.
  - rewrite map_length.
    transitivity (map (fun pt : Z * list mrow => map (fun m => entry m (snd pt)) (seq 1 M)) tabs').
    + apply map_ext_in. intros pt Hpt. unfold idx. rewrite map_map. apply map_ext. intros k.
      assert (Hin : In pt tabs) by (apply filter_In in Hpt; tauto).
      unfold mser. rewrite flat_map_map'. cbn [fst snd].
      rewrite (flat_map_pick (Z * cell)%type (fun pt' => combine (map lagZ (snd pt')) (map r_msd (snd pt'))) tabs pt); auto.
      apply assoc_entry. apply sorted_nodup, Hsorted.
    + rewrite <- (map_nth_seq _ _ (fun pt => map (fun m => entry m (snd pt)) (seq 1 M)) tabs' (0%Z, [])).
      apply map_ext_in. intros j Hj. apply in_seq in Hj. rewrite map_map. apply map_ext. intros m. cbn [i_vals].
      symmetry. apply (nth_map_None _ (fun pt => entry m (snd pt))). lia.
Qed.
End ImsdTail.

(* ---- imsd / emsd: generated = model ------------------------------------------------------ *)
Lemma all_some_keys : forall (g : Z -> option (list mrow)) ps tabs,
  all_some (map (fun p => option_map (pair p) (g p)) ps) = Some tabs -> map fst tabs = ps.
Proof.
  induction ps as [|p ps]; simpl; intros tabs H.
  - injection H as <-. reflexivity.
  - destruct (g p) as [rows|]; [|discriminate]. cbn [option_map] in H.
    destruct (all_some _) as [r|] eqn:E; [|discriminate]. injection H as <-. simpl. f_equal. now apply IHps.
Qed.

Lemma pids_sorted : forall tr, StronglySorted Z.lt (pids tr).
Proof. intros. apply (zsortu_sorted (map fst tr)). Qed.

Theorem gen_imsd : forall tr mpp fps ml ndim, (0 < ndim)%nat ->
  agrees widef_of_irows (py_imsd tr mpp fps (Z.of_nat ml) LMsd (Some (seq 0 ndim))) (imsd tr mpp fps ml ndim).
Proof.
  intros tr mpp fps ml ndim Hn. pose proof (gen_imsd_partial tr mpp fps ml ndim Hn) as P.
  unfold agrees, imsd. destruct tr as [|a tr'].
  - exists EValueError. reflexivity.
  - set (tr := a :: tr') in *.
    destruct (per_particle tr mpp fps ml ndim) as [tabs|] eqn:E; [|exact P].
    rewrite P. destruct (per_particle_facts tr mpp fps ml ndim tabs E) as [Hne Hl].
    apply (imsd_tail_ok fps (seq 0 ndim) tabs); auto.
    + apply Hne. discriminate.
    + unfold per_particle in E. rewrite (all_some_keys _ _ _ E). apply pids_sorted.
Qed.

Theorem gen_emsd : forall tr mpp fps ml ndim, (0 < ndim)%nat ->
  match emsd tr mpp fps ml ndim with
  | Some rows => exists f, py_emsd tr mpp fps (Z.of_nat ml) true (Some (seq 0 ndim)) = Ret (EmsdFrame f) /\
                           emsd_frame_agrees f rows
  | None => exists e, py_emsd tr mpp fps (Z.of_nat ml) true (Some (seq 0 ndim)) = Raise e
  end.
Proof.
  intros tr mpp fps ml ndim Hn. pose proof (gen_emsd_partial tr mpp fps ml ndim true Hn) as P.
  unfold emsd. destruct tr as [|a tr'].
  - exists EValueError. reflexivity.
  - set (tr := a :: tr') in *.
    destruct (per_particle tr mpp fps ml ndim) as [tabs|] eqn:E; [|exact P].
    rewrite P. destruct (per_particle_facts tr mpp fps ml ndim tabs E) as [Hne Hl].
    apply (emsd_tail_ok fps (seq 0 ndim) tabs); auto. apply Hne. discriminate.
Qed.

(* the headline statements about the generated imsd / emsd *)
Theorem gen_imsd_ok : forall tr mpp fps maxlag ndim,
  tr <> [] -> (forall p, In p (pids tr) -> NoDup (map fst (rows_of p tr))) -> (0 < ndim)%nat ->
  exists rows, py_imsd tr mpp fps (Z.of_nat maxlag) LMsd (Some (seq 0 ndim))
               = Ret (widef_of_irows (imsd_columns maxlag tr, rows)) /\
    map i_lag rows = seq 1 (ens_lags maxlag tr) /\
    forall r, In r rows ->
      i_lagt r = nq (i_lag r) / fps /\
      i_vals r = map (fun p => msd_def mpp ndim (rows_of p tr) (i_lag r)) (imsd_columns maxlag tr).
Proof.
  intros tr mpp fps maxlag ndim H1 H2 H3.
  destruct (imsd_ok tr mpp fps maxlag ndim H1 H2 H3) as [rows [E R]].
  exists rows. split; auto.
  pose proof (gen_imsd tr mpp fps maxlag ndim H3) as G. rewrite E in G. exact G.
Qed.

Theorem gen_emsd_ok : forall tr mpp fps maxlag ndim,
  tr <> [] -> (forall p, In p (pids tr) -> NoDup (map fst (rows_of p tr))) -> (0 < ndim)%nat ->
  exists f rows, py_emsd tr mpp fps (Z.of_nat maxlag) true (Some (seq 0 ndim)) = Ret (EmsdFrame f) /\
    emsd_frame_agrees f rows /\
    map e_lag rows = seq 1 (ens_lags maxlag tr) /\
    forall r, In r rows ->
      e_lagt r = nq (e_lag r) / fps /\
      e_msd r = emsd_def mpp ndim tr (e_lag r) /\
      e_N r = qsum (map fst (contributing mpp ndim tr (e_lag r))).
Proof.
  intros tr mpp fps maxlag ndim H1 H2 H3.
  destruct (emsd_ok tr mpp fps maxlag ndim H1 H2 H3) as [rows [E R]].
  pose proof (gen_emsd tr mpp fps maxlag ndim H3) as G. rewrite E in G. destruct G as [f [G1 G2]].
  exists f, rows. tauto.
Qed.
