(* C01, route T: the functions generated from trackpy/linking/utils.py and linking.py
   (Gen/coords.v) equal the hand-written models the C01 theorems are stated about
   (Model/CoordsFromDf.v, Model/LinkTable.v, Model/Link.v), for all inputs. *)
From Coq Require Import String ZArith List Bool Lia Permutation.
From TP Require Import Model.Assign Model.Link Model.LinkTable Model.CoordsFromDf Model.PyCoords Model.LinkTable2
     Gen.coords Proofs.Cands Proofs.Labels Proofs.LinkTable Proofs.CoordsFromDf.
Import ListNotations.
Open Scope Z_scope.

(* ---- the stable sort -------------------------------------------------------------- *)
Lemma insert_k_map {A B} (g : A -> B) (ka : A -> Z) (kb : B -> Z) :
  (forall x, kb (g x) = ka x) -> forall a l, map g (insert_k ka a l) = insert_k kb (g a) (map g l).
Proof.
  intros H a l. induction l as [|x l IH]; cbn; [reflexivity|].
  rewrite !H. destruct (ka x <? ka a); cbn; [rewrite IH|]; reflexivity.
Qed.
Lemma isort_k_map {A B} (g : A -> B) (ka : A -> Z) (kb : B -> Z) :
  (forall x, kb (g x) = ka x) -> forall l, map g (isort_k ka l) = isort_k kb (map g l).
Proof.
  intros H l. induction l as [|x l IH]; [reflexivity|].
  change (isort_k ka (x :: l)) with (insert_k ka x (isort_k ka l)).
  rewrite (insert_k_map g ka kb H), IH. reflexivity.
Qed.
Lemma insert_k_perm {A} (key : A -> Z) a l : Permutation (insert_k key a l) (a :: l).
Proof.
  induction l as [|x l IH]; cbn; [apply Permutation_refl|].
  destruct (key x <? key a); [|apply Permutation_refl].
  eapply Permutation_trans; [apply perm_skip; exact IH|apply perm_swap].
Qed.
Lemma isort_k_perm {A} (key : A -> Z) l : Permutation (isort_k key l) l.
Proof.
  induction l as [|x l IH]; [constructor|]. change (isort_k key (x :: l)) with (insert_k key x (isort_k key l)).
  eapply Permutation_trans; [apply insert_k_perm|apply perm_skip; exact IH].
Qed.
Lemma sort_rows_isort l : sort_rows l = isort_k r_frame l.
Proof.
  induction l as [|x l IH]; [reflexivity|].
  change (sort_rows (x :: l)) with (insert_r x (sort_rows l)).
  change (isort_k r_frame (x :: l)) with (insert_k r_frame x (isort_k r_frame l)).
  rewrite IH. generalize (isort_k r_frame l). intros s. induction s as [|y s IHs]; cbn; [reflexivity|].
  rewrite IHs. reflexivity.
Qed.
Lemma isort_nd_id l : nd l -> isort_k r_frame l = l.
Proof.
  induction 1 as [|r l Hr Hl IH]; [reflexivity|].
  change (isort_k r_frame (r :: l)) with (insert_k r_frame r (isort_k r_frame l)). rewrite IH.
  destruct l as [|x l']; [reflexivity|]. cbn. inversion Hr; subst.
  destruct (r_frame x <? r_frame r) eqn:E; [apply Z.ltb_lt in E; lia|reflexivity].
Qed.

(* ---- argsort + fancy indexing -------------------------------------------------------- *)
Lemma combine_seq_nth {A} (xs : list A) : forall pre,
  Forall (fun p => nth_error (pre ++ xs) (fst p) = Some (snd p)) (combine (seq (length pre) (length xs)) xs).
Proof.
  induction xs as [|x xs IH]; intros pre; cbn; [constructor|]. constructor.
  - cbn. rewrite nth_error_app2 by lia. rewrite Nat.sub_diag. reflexivity.
  - specialize (IH (pre ++ [x])). rewrite app_length in IH. cbn in IH.
    replace (length pre + 1)%nat with (S (length pre)) in IH by lia.
    rewrite <- app_assoc in IH. exact IH.
Qed.
Lemma combine_seq_map {A B} (g : A -> B) (xs : list A) : forall a,
  map (fun p => (fst p, g (snd p))) (combine (seq a (length xs)) xs) = combine (seq a (length (map g xs))) (map g xs).
Proof. induction xs as [|x xs IH]; intros a; cbn; [reflexivity|]. rewrite IH. reflexivity. Qed.
Lemma combine_seq_snd {A} (xs : list A) : forall a, map snd (combine (seq a (length xs)) xs) = xs.
Proof. induction xs as [|x xs IH]; intros a; cbn; [reflexivity|]. rewrite IH. reflexivity. Qed.
Lemma take_tagged {A B} (g : A -> B) (xs : list A) (S : list (nat * A)) :
  Forall (fun p => nth_error xs (fst p) = Some (snd p)) S ->
  np_take (map g xs) (map fst S) = ROk (map g (map snd S)).
Proof.
  unfold np_take. induction 1 as [|p S Hp _ IH]; cbn; [reflexivity|].
  rewrite (map_nth_error g _ _ Hp). cbn. rewrite IH. reflexivity.
Qed.

Theorem take_argsort {R B} (kf : R -> Z) (g : R -> B) (l : list R) :
  np_take (map g l) (np_argsort_stable (map kf l)) = ROk (map g (isort_k kf l)).
Proof.
  unfold np_argsort_stable.
  set (T := combine (seq 0 (length l)) l).
  set (S := isort_k (fun p => kf (snd p)) T).
  assert (E1 : isort_k snd (combine (seq 0 (length (map kf l))) (map kf l)) = map (fun p => (fst p, kf (snd p))) S).
  { rewrite <- (combine_seq_map kf l 0). symmetry. apply isort_k_map. reflexivity. }
  rewrite E1, map_map. cbn [fst].
  assert (E2 : map snd S = isort_k kf l).
  { unfold S. rewrite (isort_k_map snd (fun p => kf (snd p)) kf) by reflexivity. unfold T. rewrite combine_seq_snd. reflexivity. }
  rewrite <- E2. apply take_tagged.
  assert (HT : Forall (fun p => nth_error l (fst p) = Some (snd p)) T) by apply (combine_seq_nth l []).
  rewrite Forall_forall in *. intros p Hp. apply HT. eapply Permutation_in; [apply isort_k_perm|exact Hp].
Qed.

(* ---- np.unique(return_counts) on the sorted times, np.split ------------------------------ *)
Lemma rle_runs l : rle (map r_frame l) = map (fun p => (fst p, length (snd p))) (runs l).
Proof.
  induction l as [|r l IH]; [reflexivity|]. cbn [map rle runs]. rewrite IH.
  destruct (runs l) as [|[t rs] rest]; cbn; [reflexivity|].
  destruct (r_frame r =? t); reflexivity.
Qed.
Lemma unique_counts_sorted l : nd l ->
  np_unique_counts (map r_frame l) = (map fst (runs l), map (fun p => length (snd p)) (runs l)).
Proof.
  intros H. unfold np_unique_counts.
  rewrite <- (isort_k_map r_frame r_frame (fun x => x)) by reflexivity.
  rewrite (isort_nd_id l H), rle_runs, !map_map. reflexivity.
Qed.

Lemma split_concat {A} (frs : list (list A)) : forall s, frs <> [] ->
  split_from (concat frs) s (py_droplast (cumsum_from s (map (@length A) frs))) = frs.
Proof.
  unfold py_droplast. induction frs as [|fr frs IH]; intros s Hne; [congruence|].
  destruct frs as [|fr2 rest].
  - cbn. rewrite app_nil_r. reflexivity.
  - specialize (IH (s + length fr)%nat ltac:(discriminate)).
    change (concat (fr :: fr2 :: rest)) with (fr ++ concat (fr2 :: rest)).
    change (map (@length A) (fr :: fr2 :: rest)) with (length fr :: map (@length A) (fr2 :: rest)).
    cbn [cumsum_from].
    change (cumsum_from (s + length fr) (map (@length A) (fr2 :: rest)))
      with ((s + length fr + length fr2)%nat :: cumsum_from (s + length fr + length fr2) (map (@length A) rest)) in *.
    cbn [removelast] in *. cbn [split_from].
    replace (s + length fr - s)%nat with (length fr) by lia.
    rewrite firstn_app, Nat.sub_diag, firstn_all, firstn_O, app_nil_r.
    rewrite skipn_app, Nat.sub_diag, skipn_all, skipn_O. cbn [app].
    f_equal. exact IH.
Qed.

(* ---- plain Python helpers ------------------------------------------------------------------ *)
Lemma py_range_zr a b : py_range a b = zr a (Z.to_nat (b - a)).
Proof.
  unfold py_range. generalize (Z.to_nat (b - a)). intros n.
  assert (H : forall s, map (fun k => a + Z.of_nat k) (seq s n) = zr (a + Z.of_nat s) n).
  { induction n as [|n IH]; intros s; cbn; [reflexivity|]. rewrite IH. do 2 f_equal. lia. }
  rewrite H. f_equal. lia.
Qed.
Lemma py_index_mid {A B} (f : A -> B) pre x rest :
  py_index (map f (pre ++ x :: rest)) (Z.of_nat (length pre)) = ROk (f x).
Proof.
  unfold py_index. destruct (0 <=? Z.of_nat (length pre)) eqn:E; [|apply Z.leb_gt in E; lia].
  destruct (Z.of_nat (length pre) <? 0) eqn:E2; [apply Z.ltb_lt in E2; lia|].
  rewrite Nat2Z.id, map_app, nth_error_app2; rewrite map_length; [|lia]. rewrite Nat.sub_diag. reflexivity.
Qed.
Lemma nth_error_last {A} (l : list A) d : l <> [] -> nth_error l (length l - 1) = Some (last l d).
Proof.
  induction l as [|a l IH]; intros H; [congruence|]. destruct l as [|b l']; [reflexivity|].
  specialize (IH ltac:(discriminate)). cbn [length] in *.
  replace (S (S (length l')) - 1)%nat with (S (S (length l') - 1)) by lia. exact IH.
Qed.
Lemma py_index_last {A} (l : list A) d : l <> [] -> py_index l (-1) = ROk (last l d).
Proof.
  intros H. unfold py_index. cbn [Z.leb]. 
  assert (Hl : (0 < length l)%nat) by (destruct l; [congruence|cbn; lia]).
  change (0 <=? -1) with false. cbv iota.
  destruct (Z.of_nat (length l) + -1 <? 0) eqn:E; [apply Z.ltb_lt in E; lia|].
  replace (Z.to_nat (Z.of_nat (length l) + -1)) with (length l - 1)%nat by lia.
  rewrite (nth_error_last l d H). reflexivity.
Qed.

(* ---- the generator loop of coords_from_df = walk -------------------------------------------- *)
Definition pf (p : Z * list row) : coords := map r_pos (snd p).

Lemma runs_ok_last t rs d : runs_ok t rs -> rs <> [] -> t <= fst (last rs d).
Proof.
  revert t; induction rs as [|[t' fr] rest IH]; intros t H Hne; [congruence|].
  cbn in H. destruct H as [H1 [_ [_ H4]]]. destruct rest as [|x rest']; [cbn; lia|].
  change (last ((t', fr) :: x :: rest') d) with (last (x :: rest') d).
  specialize (IH _ H4 ltac:(discriminate)). lia.
Qed.

Lemma loop_walk ndim d : forall n t pre rem, runs_ok t rem ->
  (n = 0%nat \/ (rem <> [] /\ t + Z.of_nat n - 1 <= fst (last rem d))) ->
  exists idx', for_gen (py_coords_from_df_loop1 ndim (map fst (pre ++ rem)) (map pf (pre ++ rem))) (zr t n) (Z.of_nat (length pre))
               = ROk (idx', combine (zr t n) (map (map r_pos) (walk t n rem))).
Proof.
  induction n as [|n IH]; intros t pre rem Hok Hn; [eexists; reflexivity|].
  destruct Hn as [Hn|[Hne Hlast]]; [discriminate|].
  destruct rem as [|[t' fr] rest]; [congruence|].
  cbn [zr for_gen walk]. unfold py_coords_from_df_loop1 at 1.
  rewrite (py_index_mid fst pre (t', fr) rest). cbn [rbind fst].
  cbn in Hok. destruct Hok as [H1 [H2 [H3 H4]]].
  destruct (t =? t') eqn:E.
  - apply Z.eqb_eq in E. subst t'.
    rewrite (py_index_mid pf pre (t, fr) rest). cbn [rbind].
    specialize (IH (t + 1) (pre ++ [(t, fr)]) rest H4).
    rewrite <- app_assoc in IH. cbn [app] in IH. rewrite app_length in IH. cbn [length] in IH.
    replace (Z.of_nat (length pre + 1)) with (Z.of_nat (length pre) + 1) in IH by lia.
    destruct IH as [idx' IH].
    { destruct rest as [|x rest']; [left; cbn in Hlast; lia|right]. split; [discriminate|].
      change (last ((t, fr) :: x :: rest') d) with (last (x :: rest') d) in Hlast. lia. }
    cbv beta iota zeta. cbn [rbind app]. rewrite IH. cbn. eexists; reflexivity.
  - apply Z.eqb_neq in E.
    assert (Hok' : runs_ok (t + 1) ((t', fr) :: rest)) by (cbn; repeat split; [lia|assumption|assumption|assumption]).
    specialize (IH (t + 1) pre ((t', fr) :: rest) Hok').
    destruct IH as [idx' IH]; [right; split; [discriminate|lia]|].
    cbv beta iota zeta. cbn [rbind app]. rewrite IH. cbn. eexists; reflexivity.
Qed.

Lemma walk_concat d : forall n t rs, runs_ok t rs ->
  (rs = [] \/ fst (last rs d) <= t + Z.of_nat n - 1) -> concat (walk t n rs) = concat (map snd rs).
Proof.
  induction n as [|n IH]; intros t rs Hok Hn.
  - destruct Hn as [Hn|Hn]; [subst; reflexivity|].
    destruct rs as [|x rs']; [reflexivity|]. pose proof (runs_ok_last t (x :: rs') d Hok ltac:(discriminate)). lia.
  - cbn [walk]. destruct rs as [|[t' fr] rest].
    + cbn [concat app map]. apply (IH (t + 1) [] I). left; reflexivity.
    + cbn in Hok. destruct Hok as [H1 [H2 [H3 H4]]]. destruct (t =? t') eqn:E.
      * apply Z.eqb_eq in E. subst t'. cbn [concat map snd]. f_equal. apply IH; [exact H4|].
        destruct rest as [|x rest']; [left; reflexivity|right].
        destruct Hn as [Hn|Hn]; [discriminate|].
        change (last ((t, fr) :: x :: rest') d) with (last (x :: rest') d) in Hn. lia.
      * apply Z.eqb_neq in E. cbn [concat app]. apply IH.
        -- cbn; repeat split; [lia|assumption|assumption|assumption].
        -- right. destruct Hn as [Hn|Hn]; [discriminate|lia].
Qed.

(* first and last frame number of the sorted table (as in the proof of coords_from_df_spec) *)
Lemma sorted_first_last r0 rows' h L' :
  sort_rows (r0 :: rows') = h :: L' ->
  let rows := r0 :: rows' in
  let ts := map r_frame rows in
  zmin_list ts (r_frame r0) = r_frame h /\
  zmax_list ts (r_frame r0) = r_frame (last (h :: L') {| r_id := 0; r_frame := 0; r_pos := [] |}).
Proof.
  intros EL rows ts.
  assert (HP : Permutation (h :: L') rows) by (rewrite <- EL; apply sort_rows_perm).
  assert (Hnd : nd (h :: L')) by (rewrite <- EL; apply sort_rows_nd).
  split.
  - destruct (zmin_le ts (r_frame r0)) as [Hd Hall]. pose proof (zmin_attained ts (r_frame r0)) as Hat.
    assert (Hin_h : In (r_frame h) ts) by (apply in_map; eapply Permutation_in; [exact HP|left; reflexivity]).
    assert (Hmin_h : forall v, In v (r_frame r0 :: ts) -> r_frame h <= v).
    { intros v Hv. assert (Hv' : In v ts) by (destruct Hv as [Hv|Hv]; [subst v; apply in_map; left; reflexivity|exact Hv]).
      apply in_map_iff in Hv'. destruct Hv' as [x [E Hx]]. subst v. apply (nd_head_min h L' Hnd).
      eapply Permutation_in; [apply Permutation_sym; exact HP|exact Hx]. }
    pose proof (Hmin_h _ Hat). pose proof (Hall _ Hin_h). lia.
  - set (lst := last (h :: L') {| r_id := 0; r_frame := 0; r_pos := [] |}).
    destruct (zmax_ge ts (r_frame r0)) as [Hd Hall]. pose proof (zmax_attained ts (r_frame r0)) as Hat.
    assert (Hin_l : In (r_frame lst) ts).
    { apply in_map. eapply Permutation_in; [exact HP|apply last_in; discriminate]. }
    assert (Hmax_l : forall v, In v (r_frame r0 :: ts) -> v <= r_frame lst).
    { intros v Hv. assert (Hv' : In v ts) by (destruct Hv as [Hv|Hv]; [subst v; apply in_map; left; reflexivity|exact Hv]).
      apply in_map_iff in Hv'. destruct Hv' as [x [E Hx]]. subst v. apply nd_last_max; [exact Hnd|].
      eapply Permutation_in; [apply Permutation_sym; exact HP|exact Hx]. }
    pose proof (Hmax_l _ Hat). pose proof (Hall _ Hin_l). lia.
Qed.

(* the frames, sorted table and times of a non-empty table in terms of its runs *)
Lemma table_by_runs rows : rows <> [] ->
  exists t0 fr0 rest, let rs := (t0, fr0) :: rest in let tl := fst (last rs (t0, fr0)) in
    runs (sort_rows rows) = rs /\ runs_ok t0 rs /\ t0 <= tl /\
    table_frames rows = walk t0 (Z.to_nat (tl - t0 + 1)) rs /\
    table_times rows = zr t0 (Z.to_nat (tl - t0 + 1)).
Proof.
  intros Hne. destruct rows as [|r0 rows']; [congruence|].
  destruct (sort_rows (r0 :: rows')) as [|h L'] eqn:EL.
  { pose proof (sort_rows_perm (r0 :: rows')) as HP. rewrite EL in HP. apply Permutation_nil in HP. discriminate. }
  destruct (runs_head h L') as [fr0 [rest Eruns]].
  destruct (sorted_first_last r0 rows' h L' EL) as [Hlo Hhi].
  assert (Hnd : nd (h :: L')) by (rewrite <- EL; apply sort_rows_nd).
  assert (Hok : runs_ok (r_frame h) ((r_frame h, fr0) :: rest)).
  { rewrite <- Eruns. apply runs_nd; [exact Hnd|]. intros r Hr. apply (nd_head_min h L' Hnd). exact Hr. }
  assert (Hl : fst (last ((r_frame h, fr0) :: rest) (r_frame h, fr0)) = r_frame (last (h :: L') {| r_id := 0; r_frame := 0; r_pos := [] |})).
  { rewrite <- Eruns. apply runs_last_time. discriminate. }
  exists (r_frame h), fr0, rest. cbv zeta. split; [|split; [|split; [|split]]].
  - exact Eruns.
  - exact Hok.
  - apply runs_ok_last; [exact Hok|discriminate].
  - rewrite <- coords_from_df_spec. unfold coords_from_df. rewrite EL, Eruns.
    replace (fst (last rest (r_frame h, fr0))) with (fst (last ((r_frame h, fr0) :: rest) (r_frame h, fr0))) by (destruct rest; reflexivity).
    reflexivity.
  - unfold table_times. cbv zeta. rewrite Hlo, Hhi, <- Hl, py_range_zr. f_equal. f_equal. lia.
Qed.

(* ---- pandas facts ------------------------------------------------------------------------------ *)
Lemma assoc_map_cells (r : drow) cs c : mem_str c cs = true ->
  assoc c (map (fun c' => (c', cell c' r)) cs) = Some (cell c r).
Proof.
  unfold mem_str. induction cs as [|c' cs IH]; cbn; [discriminate|].
  destruct (String.eqb c c') eqn:E; [apply String.eqb_eq in E; subst; reflexivity|exact IH].
Qed.
Lemma mem_str_in c cs : In c cs -> mem_str c cs = true.
Proof. intros H. apply existsb_exists. exists c. split; [exact H|apply String.eqb_refl]. Qed.
Lemma getitems_values f pc tc : has_cols pc f = true ->
  exists g, p_getitems f pc = ROk g /\ df_values g = map r_pos (rows_of pc tc f).
Proof.
  intros H. unfold p_getitems. unfold has_cols in H. rewrite H. eexists. split; [reflexivity|].
  unfold df_values, rows_of. cbn. rewrite !map_map. apply map_ext. intros r. cbn.
  apply map_ext_in. intros c Hc. unfold cell at 1. cbn. rewrite assoc_map_cells by (apply mem_str_in; exact Hc). reflexivity.
Qed.
Lemma getitem_values f pc tc : has_col tc f = true ->
  exists s, p_getitem f tc = ROk s /\ s_values s = map r_frame (rows_of pc tc f) /\ s_int s = negb (mem_str tc (df_float f)).
Proof.
  intros H. unfold p_getitem. rewrite H. eexists. split; [reflexivity|]. cbn. split; [|reflexivity].
  unfold rows_of. rewrite map_map. reflexivity.
Qed.

Lemma last_map' {A B} (f : A -> B) l d : last (map f l) (f d) = f (last l d).
Proof. induction l as [|a l IH]; [reflexivity|]. destruct l; [reflexivity|]. exact IH. Qed.

(* ---- coords_from_df ------------------------------------------------------------------------------- *)
Theorem py_coords_from_df_eq f pc tc :
  has_col tc f = true -> has_cols pc f = true -> df_rows f <> [] ->
  let rows := rows_of pc tc f in
  py_coords_from_df f pc tc = ROk (combine (table_times rows) (map (map r_pos) (table_frames rows))).
Proof.
  intros Ht Hp Hne rows.
  assert (Hrne : rows <> []) by (unfold rows, rows_of; destruct (df_rows f); [congruence|discriminate]).
  destruct (table_by_runs rows Hrne) as [t0 [fr0 [rest [Eruns [Hok [Hle [Efr Eti]]]]]]].
  set (rs := (t0, fr0) :: rest) in *. set (tl := fst (last rs (t0, fr0))) in *.
  destruct (getitem_values f pc tc Ht) as [s [Es [Esv _]]].
  destruct (getitems_values f pc tc Hp) as [g [Eg Egv]].
  unfold py_coords_from_df. rewrite Es. cbn [rbind]. rewrite Eg. cbn [rbind]. cbv zeta.
  rewrite Esv, Egv. fold rows.
  rewrite (take_argsort r_frame r_frame rows), (take_argsort r_frame r_pos rows). cbn [rbind].
  rewrite <- sort_rows_isort.
  rewrite (unique_counts_sorted _ (sort_rows_nd rows)), Eruns.
  assert (Esplit : np_split (map r_pos (sort_rows rows)) (py_droplast (np_cumsum (map (fun p => length (snd p)) rs))) = map pf rs).
  { unfold np_split, np_cumsum. rewrite <- (runs_concat (sort_rows rows)), Eruns, concat_map.
    replace (map (fun p : Z * list row => length (snd p)) rs) with (map (@length pt) (map (map r_pos) (map snd rs))).
    - rewrite split_concat; [|discriminate]. rewrite map_map. reflexivity.
    - rewrite !map_map. apply map_ext. intros p. apply map_length. }
  rewrite Esplit.
  change (py_index (map fst rs) 0) with (ROk (A := Z) t0). cbn [rbind].
  rewrite (py_index_last (map fst rs) t0) by discriminate. cbn [rbind].
  rewrite py_range_zr.
  replace (last (map fst rs) t0) with tl by (unfold tl; symmetry; apply (last_map' fst rs (t0, fr0))).
  destruct (loop_walk (py_len pc) (t0, fr0) (Z.to_nat (tl + 1 - t0)) t0 [] rs Hok) as [idx' Hloop].
  { right. split; [discriminate|]. fold tl. lia. }
  cbn [app length] in Hloop. cbn [Z.of_nat] in Hloop. rewrite Hloop. cbn [rbind app gen_body].
  rewrite Efr, Eti. replace (tl - t0 + 1) with (tl + 1 - t0) by lia. reflexivity.
Qed.

(* ---- link_iter over the model Linker = Model/Link.v's link_iter ------------------------------------- *)
Section LinkIter.
  Variables (m : metric) (mem max_size : nat).
  Let Lm := model_linker m mem max_size.
  Definition zlabs (ls : list (list nat)) : list (list Z) := map (map Z.of_nat) ls.

  Lemma loop_run : forall (items : list (option Z * coords)) st labs0,
    match run_from m mem max_size no_pred st (map snd items) with
    | Oversize => for_gen (py_link_iter_loop1 Lm) (map item_of_pair items) (Some (st, labs0)) = RRaise EOversize
    | Ok ls => exists s', for_gen (py_link_iter_loop1 Lm) (map item_of_pair items) (Some (st, labs0))
                          = ROk (s', combine (map fst items) (zlabs ls))
    end.
  Proof.
    induction items as [|[t c] items IH]; intros st labs0; [eexists; reflexivity|].
    cbn [map snd fst run_from for_gen]. unfold py_link_iter_loop1 at 1 3. cbn [item_of_pair item_unpack fst snd rbind].
    cbn [l_next_level Lm model_linker].
    destruct (link_step m mem max_size no_pred st c) as [[st' labs]|]; [|reflexivity].
    cbn [rbind app l_particle_ids]. specialize (IH st' labs).
    destruct (run_from m mem max_size no_pred st' (map snd items)) as [ls|].
    - destruct IH as [s' IH]. rewrite IH. cbn. eexists; reflexivity.
    - rewrite IH. reflexivity.
  Qed.

  (* the iterable yields (t, coords) tuples *)
  Theorem py_link_iter_tuples (items : list (option Z * coords)) : items <> [] ->
    py_link_iter Lm (ROk (map item_of_pair items)) =
    match link_iter m mem max_size no_pred (map snd items) with
    | Oversize => RRaise EOversize
    | Ok labs => ROk (combine (map fst items) (zlabs labs))
    end.
  Proof.
    intros Hne. destruct items as [|[t0 c0] items]; [congruence|].
    unfold py_link_iter. cbn [map gen_iter gen_next item_of_pair fst snd rbind link_iter].
    cbn [l_new l_init_level Lm model_linker rbind].
    destruct (init_state c0) as [st labs] eqn:Ei. cbn [l_particle_ids app].
    pose proof (loop_run items st labs) as H.
    destruct (run_from m mem max_size no_pred st (map snd items)) as [ls|].
    - destruct H as [s' H]. rewrite H. reflexivity.
    - rewrite H. reflexivity.
  Qed.

  (* the iterable yields bare arrays: numbered 0, 1, 2, .. *)
  Lemma enumerate_arrays : forall (frames : list coords) k,
    enumerate_from k (map IArr frames) =
    ROk (map item_of_pair (combine (map (fun i => Some (k + Z.of_nat i)) (seq 0 (length frames))) frames)).
  Proof.
    induction frames as [|c frames IH]; intros k; [reflexivity|].
    cbn [map enumerate_from length seq combine]. rewrite IH. cbn [rbind]. f_equal. cbn [map]. f_equal.
    - unfold item_of_pair. cbn. do 2 f_equal. lia.
    - f_equal. f_equal. rewrite <- seq_shift, map_map. apply map_ext. intros i. f_equal. lia.
  Qed.
  Lemma combine_snd_len {A B} (a : list A) (b : list B) : length a = length b -> map snd (combine a b) = b.
  Proof. revert b; induction a as [|x a IH]; intros [|y b] H; try discriminate; [reflexivity|]. cbn. f_equal. apply IH. cbn in H. lia. Qed.
  Lemma combine_fst_len {A B} (a : list A) (b : list B) : length a = length b -> map fst (combine a b) = a.
  Proof. revert b; induction a as [|x a IH]; intros [|y b] H; try discriminate; [reflexivity|]. cbn. f_equal. apply IH. cbn in H. lia. Qed.

  Theorem py_link_iter_arrays (frames : list coords) : frames <> [] ->
    py_link_iter Lm (ROk (map IArr frames)) =
    match link_iter m mem max_size no_pred frames with
    | Oversize => RRaise EOversize
    | Ok labs => ROk (combine (enum_times (length frames)) (zlabs labs))
    end.
  Proof.
    intros Hne. destruct frames as [|c0 frames]; [congruence|].
    unfold py_link_iter. cbn [map gen_iter gen_next rbind link_iter gen_enumerate].
    rewrite enumerate_arrays. cbn [l_new l_init_level Lm model_linker rbind].
    destruct (init_state c0) as [st labs] eqn:Ei. cbn [l_particle_ids app].
    set (ts := map (fun i => Some (1 + Z.of_nat i)) (seq 0 (length frames))).
    assert (Hl : length ts = length frames) by (unfold ts; rewrite map_length, seq_length; reflexivity).
    pose proof (loop_run (combine ts frames) st labs) as H.
    rewrite (combine_snd_len _ _ Hl), (combine_fst_len _ _ Hl) in H.
    destruct (run_from m mem max_size no_pred st frames) as [ls|].
    - destruct H as [s' H]. rewrite H. cbn [rbind app gen_body]. f_equal.
      unfold enum_times, zlabs. cbn [length seq map combine l_particle_ids Lm model_linker]. f_equal. f_equal.
      unfold ts. rewrite <- seq_shift, map_map. apply map_ext. intros i. f_equal. lia.
    - rewrite H. reflexivity.
  Qed.
End LinkIter.

(* ---- coords_from_df_iter --------------------------------------------------------------------------- *)
Lemma coords_from_df_iter_loop ndim pc tc : forall dfs, forallb (has_cols (tc :: pc)) dfs = true ->
  for_gen (py_coords_from_df_iter_loop1 pc tc ndim) dfs tt = ROk (tt, map (fun d => (first_t tc d, pos_of pc d)) dfs).
Proof.
  induction dfs as [|d dfs IH]; intros H; [reflexivity|].
  cbn [forallb] in H. apply andb_true_iff in H. destruct H as [Hd H].
  cbn [has_cols forallb] in Hd. apply andb_true_iff in Hd. destruct Hd as [Ht Hp].
  assert (Hb : py_coords_from_df_iter_loop1 pc tc ndim tt d = ROk (tt, [(first_t tc d, pos_of pc d)])).
  { unfold py_coords_from_df_iter_loop1. cbv zeta.
    unfold p_len, first_t, pos_of.
    destruct (df_rows d) as [|r rows] eqn:Er.
    - cbn. reflexivity.
    - cbn [length]. destruct (Z.of_nat (S (length rows)) =? 0) eqn:E; [apply Z.eqb_eq in E; lia|].
      unfold p_getitem. rewrite Ht. cbn [rbind]. unfold s_iloc0. cbn [s_values]. rewrite Er. cbn [map rbind].
      unfold p_getitems. rewrite Hp. cbn [rbind app].
      unfold df_values. cbn [df_columns df_rows]. rewrite Er. do 4 f_equal.
      cbn [map]. f_equal.
      + apply map_ext_in. intros c Hc. unfold cell at 1. cbn. rewrite assoc_map_cells by (apply mem_str_in; exact Hc). reflexivity.
      + rewrite map_map. apply map_ext. intros r'. apply map_ext_in. intros c Hc. unfold cell at 1. cbn.
        rewrite assoc_map_cells by (apply mem_str_in; exact Hc). reflexivity. }
  cbn [for_gen map]. rewrite Hb. cbn [rbind]. rewrite (IH H). reflexivity.
Qed.
Theorem py_coords_from_df_iter_eq pc tc dfs : forallb (has_cols (tc :: pc)) dfs = true ->
  py_coords_from_df_iter (ROk dfs) pc tc = ROk (map (fun d => (first_t tc d, pos_of pc d)) dfs).
Proof.
  intros H. unfold py_coords_from_df_iter. cbn [rbind]. cbv zeta. rewrite (coords_from_df_iter_loop _ pc tc dfs H). reflexivity.
Qed.

(* ---- more pandas facts: cells, positional assignment -------------------------------------------------- *)
Lemma assoc_upd c c' v l : assoc c (upd c' v l) = if String.eqb c c' then Some v else assoc c l.
Proof.
  induction l as [|[k w] l IH]; cbn.
  - destruct (String.eqb c c'); reflexivity.
  - destruct (String.eqb c' k) eqn:E1; cbn.
    + apply String.eqb_eq in E1. subst k. destruct (String.eqb c c'); reflexivity.
    + rewrite IH. destruct (String.eqb c k) eqn:E2; [|reflexivity].
      apply String.eqb_eq in E2. subst k. destruct (String.eqb c c') eqn:E3; [|reflexivity].
      apply String.eqb_eq in E3. subst c'. rewrite String.eqb_refl in E1. discriminate.
Qed.
Lemma cell_set_cell c c' v r : cell c (set_cell c' v r) = if String.eqb c c' then v else cell c r.
Proof. unfold cell, set_cell. cbn. rewrite assoc_upd. destruct (String.eqb c c'); reflexivity. Qed.

Lemma set_cells_facts c : forall rows vs, length vs = length rows ->
  map d_id (set_cells c rows vs) = map d_id rows /\
  map (cell c) (set_cells c rows vs) = vs /\
  (forall c', c' <> c -> map (cell c') (set_cells c rows vs) = map (cell c') rows).
Proof.
  induction rows as [|r rows IH]; intros [|v vs] H; try discriminate; [repeat split; reflexivity|].
  cbn in H. destruct (IH vs ltac:(lia)) as [H1 [H2 H3]]. cbn [set_cells map]. repeat split.
  - rewrite H1. reflexivity.
  - rewrite H2, cell_set_cell, String.eqb_refl. reflexivity.
  - intros c' Hc. rewrite (H3 c' Hc), cell_set_cell. apply String.eqb_neq in Hc. rewrite Hc. reflexivity.
Qed.
Lemma set_cells_map c (h : drow -> Z) rows : set_cells c rows (map h rows) = map (fun r => set_cell c (h r) r) rows.
Proof. induction rows as [|r rows IH]; cbn; [reflexivity|]. rewrite IH. reflexivity. Qed.

Lemma row_of_ext pc tc r r' : (forall c, cell c r' = cell c r) -> d_id r' = d_id r -> row_of pc tc r' = row_of pc tc r.
Proof. intros Hc Hi. unfold row_of. rewrite Hi, Hc. f_equal. apply map_ext. intros c. apply Hc. Qed.

Lemma row_of_set_cells pc tc c : ~ In c (tc :: pc) -> forall rows vs, length vs = length rows ->
  map (row_of pc tc) (set_cells c rows vs) = map (row_of pc tc) rows.
Proof.
  intros Hc. induction rows as [|r rows IH]; intros [|v vs] H; try discriminate; [reflexivity|].
  cbn [set_cells map]. rewrite IH by (cbn in H; lia). f_equal.
  unfold row_of. cbn [d_id set_cell]. f_equal.
  - rewrite cell_set_cell. destruct (String.eqb tc c) eqn:E; [|reflexivity].
    apply String.eqb_eq in E. subst. exfalso. apply Hc. left. reflexivity.
  - apply map_ext_in. intros c' Hc'. rewrite cell_set_cell. destruct (String.eqb c' c) eqn:E; [|reflexivity].
    apply String.eqb_eq in E. subst. exfalso. apply Hc. right. exact Hc'.
Qed.

(* ---- tables and their frames --------------------------------------------------------------------------- *)
Lemma sort_rows_idem rows : sort_rows (sort_rows rows) = sort_rows rows.
Proof. rewrite (sort_rows_isort (sort_rows rows)). apply isort_nd_id. apply sort_rows_nd. Qed.
Lemma table_frames_sorted rows : table_frames (sort_rows rows) = table_frames rows.
Proof. rewrite <- !coords_from_df_spec. unfold coords_from_df. rewrite sort_rows_idem. reflexivity. Qed.
Lemma walk_length : forall n t rs, length (walk t n rs) = n.
Proof. induction n as [|n IH]; intros t rs; [reflexivity|]. cbn [walk]. destruct rs as [|[t' fr] rest]; [|destruct (t =? t')]; cbn; rewrite IH; reflexivity. Qed.
Lemma zr_length : forall n t, length (zr t n) = n.
Proof. induction n as [|n IH]; intros t; cbn; [reflexivity|]. rewrite IH. reflexivity. Qed.
Lemma table_times_length rows : length (table_times rows) = length (table_frames rows).
Proof.
  destruct rows as [|r0 rows'] eqn:E; [reflexivity|]. rewrite <- E.
  destruct (table_by_runs rows ltac:(subst; discriminate)) as [t0 [fr0 [rest [_ [_ [_ [Efr Eti]]]]]]].
  rewrite Efr, Eti, walk_length, zr_length. reflexivity.
Qed.
Lemma table_frames_nonempty rows : rows <> [] -> table_frames rows <> [].
Proof.
  intros H. destruct (table_by_runs rows H) as [t0 [fr0 [rest [_ [_ [Hle [Efr _]]]]]]]. rewrite Efr.
  destruct (Z.to_nat (fst (last ((t0, fr0) :: rest) (t0, fr0)) - t0 + 1)) eqn:E; [lia|].
  cbn [walk]. rewrite Z.eqb_refl. discriminate.
Qed.
Lemma concat_table_frames rows : concat (table_frames rows) = sort_rows rows.
Proof.
  destruct rows as [|r0 rows'] eqn:E; [reflexivity|]. rewrite <- E.
  destruct (table_by_runs rows ltac:(subst; discriminate)) as [t0 [fr0 [rest [Eruns [Hok [Hle [Efr _]]]]]]].
  rewrite Efr, (walk_concat (t0, fr0)); [rewrite <- Eruns; apply runs_concat|exact Hok|right; lia].
Qed.

(* ---- link ----------------------------------------------------------------------------------------------- *)
Lemma link_loop : forall (items : list (option Z * list Z)) ids,
  for_loop py_link_loop1 items ids = ROk (ids ++ concat (map snd items)).
Proof.
  induction items as [|[t l] items IH]; intros ids; cbn [for_loop map concat]; [rewrite app_nil_r; reflexivity|].
  unfold py_link_loop1 at 1. cbn [rbind snd]. rewrite IH, <- app_assoc. reflexivity.
Qed.
Lemma items_Z (ts : list Z) (frs : list coords) :
  map item_of_Zpair (combine ts frs) = map item_of_pair (combine (map Some ts) frs).
Proof. revert frs; induction ts as [|t ts IH]; intros [|c frs]; cbn; try reflexivity. rewrite IH. reflexivity. Qed.

Lemma Forall2_len {A B} (R : A -> B -> Prop) l l' : Forall2 R l l' -> length l = length l'.
Proof. induction 1; cbn; [reflexivity|]. rewrite IHForall2. reflexivity. Qed.
Lemma forallb_ext' {A} (p q : A -> bool) l : (forall x, p x = q x) -> forallb p l = forallb q l.
Proof. intros H. induction l as [|a l IH]; cbn; [reflexivity|]. rewrite H, IH. reflexivity. Qed.

Section Link.
  Variables (m : metric) (mem max_size : nat).
  Let Lm := model_linker m mem max_size.

  Theorem py_link_eq f pcs tc :
    metric_ok m ->
    let pc := match pcs with Some v => v | None => guess_pos_columns f end in
    has_col tc f = true -> has_cols pc f = true -> df_rows f <> [] -> ~ In "particle"%string (tc :: pc) ->
    let S := isort_k (cell tc) (df_rows f) in
    match link_table m mem max_size (rows_of pc tc f) with
    | Oversize => py_link Lm f pcs tc = RRaise EOversize
    | Ok out => exists g, py_link Lm f pcs tc = ROk g /\
        map fst out = map (row_of pc tc) S /\
        map (row_of pc tc) (df_rows g) = map fst out /\
        map d_id (df_rows g) = map d_id S /\
        (forall c, c <> "particle"%string -> map (cell c) (df_rows g) = map (cell c) S) /\
        map (cell "particle") (df_rows g) = map Z.of_nat (map snd out)
    end.
  Proof.
    intros Hm pc Ht Hp Hne Hpart S.
    set (rows := rows_of pc tc f).
    (* frame coercion *)
    assert (Hco : exists f1 gf, 
      (rbind (p_getitem (p_copy f) tc) (fun tmp1 =>
        if negb (s_int tmp1)
        then rbind (p_getitem (p_copy f) tc) (fun tmp2 => rbind (p_setitem (p_copy f) tc (s_astype_int64 tmp2)) (fun f => ROk f))
        else ROk (p_copy f))) = ROk f1 /\
      (forall r c, cell c (gf r) = cell c r) /\ (forall r, d_id (gf r) = d_id r) /\
      df_rows f1 = map gf (df_rows f) /\ df_columns f1 = df_columns f).
    { unfold p_copy, p_getitem. rewrite Ht. cbn [rbind s_int]. destruct (negb (negb (mem_str tc (df_float f)))).
      - cbn [rbind]. unfold p_setitem. cbn [s_astype_int64 s_values s_int]. rewrite map_length, Nat.eqb_refl. cbn [rbind].
        eexists. exists (fun r => set_cell tc (cell tc r) r). split; [reflexivity|]. cbn [df_rows df_columns]. repeat split.
        + intros r c. rewrite cell_set_cell. destruct (String.eqb c tc) eqn:E; [apply String.eqb_eq in E; subst; reflexivity|reflexivity].
        + apply set_cells_map.
        + rewrite Ht. reflexivity.
      - exists f, (fun r => r). repeat split. rewrite map_id. reflexivity. }
    destruct Hco as [f1 [gf [Ef1 [Hgc [Hgi [Hr1 Hc1]]]]]].
    set (f2 := {| df_columns := df_columns f1; df_float := df_float f1; df_rows := isort_k (cell tc) (df_rows f1) |}).
    assert (Hr2 : df_rows f2 = map gf S).
    { cbn. rewrite Hr1. symmetry. apply isort_k_map. intros r. apply Hgc. }
    assert (Hcol2 : forall c, has_col c f2 = has_col c f) by (intros c; unfold has_col; cbn; rewrite Hc1; reflexivity).
    assert (Erows2 : rows_of pc tc f2 = sort_rows rows).
    { unfold rows_of at 1. rewrite Hr2, map_map.
      rewrite (map_ext _ (row_of pc tc)) by (intros r; apply row_of_ext; [intros c; apply Hgc|apply Hgi]).
      unfold S. rewrite (isort_k_map (row_of pc tc) (cell tc) r_frame) by reflexivity. symmetry. apply sort_rows_isort. }
    assert (Hrne : rows <> []) by (unfold rows, rows_of; destruct (df_rows f); [congruence|discriminate]).
    assert (Hcfd : py_coords_from_df f2 pc tc =
                   ROk (combine (table_times (sort_rows rows)) (map (map r_pos) (table_frames rows)))).
    { pose proof (py_coords_from_df_eq f2 pc tc) as H. cbv zeta in H. rewrite Erows2, table_frames_sorted in H. apply H.
      - rewrite Hcol2. exact Ht.
      - unfold has_cols. rewrite (forallb_ext' _ (fun c => has_col c f)) by (intros c; apply Hcol2). exact Hp.
      - rewrite Hr2. unfold S. intros E. apply map_eq_nil in E.
        pose proof (isort_k_perm (cell tc) (df_rows f)) as HP. rewrite E in HP. apply Permutation_nil in HP. congruence. }
    set (fr := table_frames rows) in *. set (ts := table_times (sort_rows rows)) in *.
    assert (Hlts : length ts = length (map (map r_pos) fr)).
    { unfold ts. rewrite table_times_length, table_frames_sorted, map_length. reflexivity. }
    assert (Hfrne : fr <> []) by (apply table_frames_nonempty; exact Hrne).
    (* the body of py_link up to the linker *)
    assert (E0 : forall (K : list string -> res DataFrame),
      rbind (match pcs with
             | Some tmp0 => ROk tmp0
             | None => let pos_columns := guess_pos_columns f in ROk pos_columns
             end) K = K pc) by (intros K; destruct pcs; reflexivity).
    unfold py_link. rewrite E0.
    cbv zeta.
    destruct (p_getitem (p_copy f) tc) as [s|e] eqn:Es; [|discriminate]. cbn [rbind] in Ef1. cbn [rbind]. rewrite Ef1. cbn [rbind].
    unfold pandas_sort_inplace. replace (has_col tc f1) with true by (unfold has_col; rewrite Hc1; symmetry; exact Ht).
    fold f2. cbn [rbind]. rewrite Hcfd. unfold gen_items_Z, gen_map. cbn [rbind]. rewrite items_Z.
    rewrite (py_link_iter_tuples m mem max_size).
    2:{ destruct ts, fr; cbn in *; try congruence; discriminate. }
    assert (Hl0 : length (map Some ts) = length (map (map r_pos) fr)) by (rewrite map_length; exact Hlts).
    rewrite combine_snd_len by exact Hl0.
    unfold link_table. fold rows. fold fr.
    destruct (link_iter m mem max_size no_pred (map (map r_pos) fr)) as [labs|] eqn:El; [|reflexivity].
    pose proof (link_iter_valid _ _ _ _ _ _ Hm El) as Hv.
    assert (Hll : length labs = length fr) by (apply Forall2_len in Hv; rewrite map_length in Hv; lia).
    assert (Hlen : length (concat fr) = length (concat labs)).
    { clear -Hv. revert Hv. generalize fr. intros fr0. revert labs.
      induction fr0 as [|x fr0 IH]; intros labs Hv; inversion Hv as [|? lb ? labs' Hfv Hrest]; subst; cbn; [reflexivity|].
      rewrite !app_length. destruct Hfv as [HL _]. rewrite map_length in HL. rewrite (IH _ Hrest). lia. }
    cbn [rbind]. rewrite link_loop. cbn [app].
    assert (Hl3 : length (map Some ts) = length (zlabs labs)).
    { unfold zlabs. rewrite !map_length. rewrite map_length in Hlts. lia. }
    rewrite combine_fst_len by exact Hl0. rewrite combine_snd_len by exact Hl3.
    assert (Eids : concat (zlabs labs) = map Z.of_nat (concat labs)) by (unfold zlabs; symmetry; apply concat_map).
    rewrite Eids.
    assert (Ecf : concat fr = map (row_of pc tc) S).
    { unfold fr. rewrite concat_table_frames. unfold S. rewrite (isort_k_map (row_of pc tc) (cell tc) r_frame) by reflexivity. apply sort_rows_isort. }
    assert (Hl2 : length (map Z.of_nat (concat labs)) = length (df_rows f2)).
    { rewrite map_length, <- Hlen, Ecf, Hr2, !map_length. reflexivity. }
    cbn [rbind]. unfold p_setitem_list, p_setitem. cbn [s_values s_int]. rewrite Hl2, Nat.eqb_refl. cbn [rbind].
    eexists. split; [reflexivity|]. cbn [df_rows].
    destruct (set_cells_facts "particle" (isort_k (cell tc) (df_rows f1)) (map Z.of_nat (concat labs)) Hl2) as [H1 [H2 H3]].
    change (isort_k (cell tc) (df_rows f1)) with (df_rows f2) in H1, H2, H3 |- *. rewrite Hr2 in H1, H2, H3 |- *.
    split; [rewrite (combine_fst_len _ _ Hlen); exact Ecf|].
    split.
    { rewrite (combine_fst_len _ _ Hlen), Ecf, (row_of_set_cells pc tc "particle" Hpart) by (rewrite Hl2, Hr2; reflexivity).
      rewrite map_map. apply map_ext. intros r. apply row_of_ext; [intros c; apply Hgc|apply Hgi]. }
    split; [rewrite H1, map_map; apply map_ext; intros r; apply Hgi|].
    split.
    - intros c Hc. rewrite (H3 c Hc), map_map. apply map_ext. intros r. apply Hgc.
    - rewrite H2. rewrite (combine_snd_len _ _ Hlen). reflexivity.
  Qed.
End Link.

(* ---- link_df_iter ---------------------------------------------------------------------------------------- *)
Lemma run_from_length m mem max_size : forall frames st ls,
  run_from m mem max_size no_pred st frames = Ok ls -> length ls = length frames.
Proof.
  induction frames as [|c frames IH]; intros st ls H; cbn in H; [inversion H; reflexivity|].
  destruct (link_step m mem max_size no_pred st c) as [[st' lb]|]; [|discriminate].
  destruct (run_from m mem max_size no_pred st' frames) as [ls'|] eqn:E; [|discriminate].
  inversion H; subst. cbn. rewrite (IH _ _ E). reflexivity.
Qed.
Lemma link_iter_length m mem max_size frames labs :
  link_iter m mem max_size no_pred frames = Ok labs -> length labs = length frames.
Proof.
  unfold link_iter. destruct frames as [|c frames]; intros H; [inversion H; reflexivity|].
  destruct (init_state c) as [st lb]. destruct (run_from m mem max_size no_pred st frames) as [ls|] eqn:E; [|discriminate].
  inversion H; subst. cbn. rewrite (run_from_length _ _ _ _ _ _ E). reflexivity.
Qed.

Definition setp (p : DataFrame * list Z) : res DataFrame := p_setitem_list (fst p) "particle" (snd p).
Lemma df_iter_loop : forall ps, for_gen py_link_df_iter_loop1 ps tt = rbind (mapM setp ps) (fun l => ROk (tt, l)).
Proof.
  induction ps as [|[d ids] ps IH]; [reflexivity|]. cbn [for_gen mapM].
  unfold py_link_df_iter_loop1 at 1. unfold setp at 1. cbv zeta. unfold p_copy. cbn [fst snd].
  destruct (p_setitem_list d "particle" ids) as [g|e]; [|reflexivity]. cbn [rbind app]. rewrite IH.
  destruct (mapM setp ps); reflexivity.
Qed.
Lemma mapM_map {A B C} (f : B -> res C) (g : A -> B) l : mapM f (map g l) = mapM (fun x => f (g x)) l.
Proof. induction l as [|a l IH]; cbn; [reflexivity|]. rewrite IH. reflexivity. Qed.
Lemma mapM_setp_exn ps e : mapM setp ps = RRaise e -> e = EValueError.
Proof.
  revert e; induction ps as [|p ps IH]; intros e; cbn; [discriminate|].
  unfold setp at 1, p_setitem_list, p_setitem. destruct (Nat.eqb _ _); cbn; [|intros H; inversion H; reflexivity].
  destruct (mapM setp ps) as [l|e'] eqn:E; cbn; [discriminate|]. intros H. inversion H; subst. apply IH. reflexivity.
Qed.
Lemma combine_zlabs (dfs : list DataFrame) : forall labs,
  combine dfs (zlabs labs) = map (fun p => (fst p, map Z.of_nat (snd p))) (combine dfs labs).
Proof. induction dfs as [|d dfs IH]; intros [|lb labs]; cbn; try reflexivity. rewrite <- IH. reflexivity. Qed.

Lemma gen_zip_ok {A B} (a : list A) (b : list B) : a <> [] -> gen_zip (ROk a) (ROk b) = ROk (combine a b).
Proof. destruct a; [congruence|reflexivity]. Qed.

Section LinkDfIter.
  Variables (m : metric) (mem max_size : nat).
  Let Lm := model_linker m mem max_size.

  Theorem py_link_df_iter_eq dfs pcs tc : dfs <> [] ->
    let pc := match pcs with Some v => v | None => guess_pos_columns (hd {| df_columns := []; df_float := []; df_rows := [] |} dfs) end in
    forallb (has_cols (tc :: pc)) dfs = true ->
    py_link_df_iter Lm (ROk dfs) pcs tc = link_df_iter_model m mem max_size pc dfs.
  Proof.
    intros Hne pc Hc. destruct dfs as [|d0 dfs']; [congruence|]. set (dfs := d0 :: dfs') in *.
    assert (E0 : forall (K : gen DataFrame * list string -> gen DataFrame),
      rbind (match pcs with
             | Some tmp0 => ROk (ROk dfs, tmp0)
             | None => let '(f_iter, f_iter_dummy) := it_tee (ROk dfs) in
                       rbind (gen_next f_iter_dummy) (fun '(f0, f_iter_dummy) =>
                       let pos_columns := guess_pos_columns f0 in ROk (f_iter, pos_columns))
             end) K = K (ROk dfs, pc)) by (intros K; destruct pcs; reflexivity).
    unfold py_link_df_iter. cbv zeta. cbv zeta in E0. rewrite E0. cbn [rbind it_tee].
    rewrite (py_coords_from_df_iter_eq pc tc dfs Hc). unfold gen_items. cbn [gen_map rbind].
    rewrite (py_link_iter_tuples m mem max_size) by discriminate.
    rewrite !map_map. cbn [fst snd]. unfold link_df_iter_model.
    change (map (fun x => pos_of pc x) dfs) with (map (pos_of pc) dfs).
    destruct (link_iter m mem max_size no_pred (map (pos_of pc) dfs)) as [labs|] eqn:El; [|reflexivity].
    pose proof (link_iter_length _ _ _ _ _ El) as Hl. rewrite map_length in Hl.
    unfold gen_map. cbn [rbind].
    assert (E1 : map (fun '(_, _ids) => _ids) (combine (map (fun x => first_t tc x) dfs) (zlabs labs)) = zlabs labs).
    { rewrite (map_ext _ snd) by (intros [a b]; reflexivity). apply combine_snd_len. unfold zlabs. rewrite !map_length. lia. }
    rewrite E1. rewrite gen_zip_ok by (unfold dfs; discriminate). cbn [rbind]. rewrite df_iter_loop, combine_zlabs, mapM_map.
    set (R := mapM (fun x => setp (fst x, map Z.of_nat (snd x))) (combine dfs labs)).
    change (mapM (fun p => p_setitem_list (fst p) "particle" (map Z.of_nat (snd p))) (combine dfs labs)) with R.
    destruct R as [outs|e] eqn:ER; [reflexivity|]. cbn [rbind].
    assert (e = EValueError).
    { unfold R in ER. rewrite <- (mapM_map setp (fun x => (fst x, map Z.of_nat (snd x)))) in ER. apply (mapM_setp_exn _ _ ER). }
    subst e. reflexivity.
  Qed.
End LinkDfIter.

(* ==== the C01 headline statements, for the generated functions =================================== *)
Definition frame_ok (ds : list pt) (labs : list nat) : Prop := length labs = length ds /\ NoDup labs.

Theorem py_coords_from_df_empty f pc tc :
  has_col tc f = true -> has_cols pc f = true -> df_rows f = [] -> py_coords_from_df f pc tc = RRaise EIndexError.
Proof.
  intros Ht Hp He. unfold py_coords_from_df, p_getitem, p_getitems. unfold has_cols in Hp. rewrite Ht, Hp. cbn [rbind].
  unfold df_values. cbn [s_values df_rows df_columns]. rewrite He. reflexivity.
Qed.

Section Headlines.
  Variables (m : metric) (mem max_size : nat).
  Let Lm := model_linker m mem max_size.

  (* link_iter: one label per feature, no label twice in a frame; any number of frames *)
  Theorem gen_link_iter_valid frames out :
    metric_ok m -> frames <> [] -> py_link_iter Lm (ROk (map IArr frames)) = ROk out ->
    exists labs, out = combine (enum_times (length frames)) (zlabs labs) /\ Forall2 frame_ok frames labs.
  Proof.
    intros Hm Hne H. unfold Lm in H. rewrite (py_link_iter_arrays m mem max_size frames Hne) in H.
    destruct (link_iter m mem max_size no_pred frames) as [labs|] eqn:E; [|discriminate].
    inversion H; subst. exists labs. split; [reflexivity|]. exact (link_iter_valid _ _ _ _ _ _ Hm E).
  Qed.
  Theorem gen_link_iter_tuples_valid (items : list (option Z * coords)) out :
    metric_ok m -> items <> [] -> py_link_iter Lm (ROk (map item_of_pair items)) = ROk out ->
    exists labs, out = combine (map fst items) (zlabs labs) /\ Forall2 frame_ok (map snd items) labs.
  Proof.
    intros Hm Hne H. unfold Lm in H. rewrite (py_link_iter_tuples m mem max_size items Hne) in H.
    destruct (link_iter m mem max_size no_pred (map snd items)) as [labs|] eqn:E; [|discriminate].
    inversion H; subst. exists labs. split; [reflexivity|]. exact (link_iter_valid _ _ _ _ _ _ Hm E).
  Qed.

  (* link: the returned table is the caller's table stably sorted by frame plus the labels; the rows are
     the concatenation of the frames handed to the linker and the labels the concatenation of valid
     per-frame label lists *)
  Theorem gen_link_valid f pcs tc g :
    metric_ok m ->
    let pc := match pcs with Some v => v | None => guess_pos_columns f end in
    has_col tc f = true -> has_cols pc f = true -> df_rows f <> [] -> ~ In "particle"%string (tc :: pc) ->
    py_link Lm f pcs tc = ROk g ->
    let S := isort_k (cell tc) (df_rows f) in
    Permutation (map d_id (df_rows g)) (map d_id (df_rows f)) /\ length (df_rows g) = length (df_rows f) /\
    map d_id (df_rows g) = map d_id S /\
    (forall c, c <> "particle"%string -> map (cell c) (df_rows g) = map (cell c) S) /\
    exists labs, Forall2 frame_ok (map (map r_pos) (table_frames (rows_of pc tc f))) labs /\
                 map (row_of pc tc) (df_rows g) = concat (table_frames (rows_of pc tc f)) /\
                 map (cell "particle") (df_rows g) = map Z.of_nat (concat labs).
  Proof.
    intros Hm pc Ht Hp Hne Hpart H S.
    pose proof (py_link_eq m mem max_size f pcs tc Hm Ht Hp Hne Hpart) as E. cbv zeta in E. fold pc S in E. unfold Lm in H.
    unfold link_table in E.
    destruct (link_iter m mem max_size no_pred (map (map r_pos) (table_frames (rows_of pc tc f)))) as [labs|] eqn:El.
    2:{ rewrite E in H. discriminate. }
    destruct E as [g' [Eg [E1 [E1' [E2 [E3 E4]]]]]]. rewrite Eg in H. inversion H; subst g'. clear H.
    pose proof (link_iter_valid _ _ _ _ _ _ Hm El) as Hv.
    assert (Hlen : length (concat (table_frames (rows_of pc tc f))) = length (concat labs)).
    { clear -Hv. revert Hv. generalize (table_frames (rows_of pc tc f)). intros fr0. revert labs.
      induction fr0 as [|x fr0 IH]; intros labs Hv; inversion Hv as [|? lb ? labs' Hfv Hrest]; subst; cbn; [reflexivity|].
      rewrite !app_length. destruct Hfv as [HL _]. rewrite map_length in HL. rewrite (IH _ Hrest). lia. }
    assert (HP : Permutation (map d_id (df_rows g)) (map d_id (df_rows f))).
    { rewrite E2. apply Permutation_map. apply isort_k_perm. }
    split; [exact HP|]. split; [apply Permutation_length in HP; rewrite !map_length in HP; exact HP|].
    split; [exact E2|]. split; [exact E3|].
    exists labs. split; [exact Hv|]. split.
    - rewrite E1'. apply combine_fst_len. exact Hlen.
    - rewrite E4. f_equal. apply combine_snd_len. exact Hlen.
  Qed.

  (* link_df_iter: one output per DataFrame of the iterable: the same rows (identity and every cell
     other than 'particle'), labelled with one label per row, no label twice *)
  Definition df_labelled (d g : DataFrame) : Prop :=
    map d_id (df_rows g) = map d_id (df_rows d) /\
    (forall c, c <> "particle"%string -> map (cell c) (df_rows g) = map (cell c) (df_rows d)) /\
    NoDup (map (cell "particle") (df_rows g)) /\ Forall (fun v => 0 <= v) (map (cell "particle") (df_rows g)).

  Lemma setp_all pc : forall dfs labs outs, Forall2 frame_ok (map (pos_of pc) dfs) labs ->
    mapM (fun p => p_setitem_list (fst p) "particle" (map Z.of_nat (snd p))) (combine dfs labs) = ROk outs ->
    Forall2 df_labelled dfs outs.
  Proof.
    induction dfs as [|d dfs IH]; intros labs outs Hv H; inversion Hv as [|? lb ? labs' [Hl Hn] Hrest]; subst.
    - cbn in H. inversion H. constructor.
    - cbn [combine mapM fst snd] in H. unfold p_setitem_list at 1, p_setitem in H. cbn [s_values s_int] in H.
      assert (Hlen : length (map Z.of_nat lb) = length (df_rows d)) by (unfold pos_of in Hl; rewrite map_length in *; exact Hl).
      rewrite Hlen, Nat.eqb_refl in H. cbn [rbind] in H.
      destruct (mapM _ (combine dfs labs')) as [outs'|] eqn:E; [|discriminate]. cbn [rbind] in H. inversion H; subst outs. clear H.
      constructor; [|exact (IH _ _ Hrest E)].
      destruct (set_cells_facts "particle" (df_rows d) (map Z.of_nat lb) Hlen) as [H1 [H2 H3]].
      unfold df_labelled. cbn [df_rows]. rewrite H2. repeat split; [exact H1|exact H3| |].
      + apply FinFun.Injective_map_NoDup; [intros a b; apply Nat2Z.inj|exact Hn].
      + rewrite Forall_forall. intros v Hv'. apply in_map_iff in Hv'. destruct Hv' as [k [Ek _]]. lia.
  Qed.

  Theorem gen_link_df_iter_valid dfs pcs tc outs :
    metric_ok m -> dfs <> [] ->
    let pc := match pcs with Some v => v | None => guess_pos_columns (hd {| df_columns := []; df_float := []; df_rows := [] |} dfs) end in
    forallb (has_cols (tc :: pc)) dfs = true ->
    py_link_df_iter Lm (ROk dfs) pcs tc = ROk outs -> Forall2 df_labelled dfs outs.
  Proof.
    intros Hm Hne pc Hc H. unfold Lm in H. rewrite (py_link_df_iter_eq m mem max_size dfs pcs tc Hne Hc) in H. fold pc in H.
    unfold link_df_iter_model in H.
    destruct (link_iter m mem max_size no_pred (map (pos_of pc) dfs)) as [labs|] eqn:El; [|discriminate].
    exact (setp_all pc dfs labs outs (link_iter_valid _ _ _ _ _ _ Hm El) H).
  Qed.
End Headlines.
