(* C11, route T: the functions generated from trackpy/predict.py, linking/utils.py, linking/subnet.py
   and linking/linking.py (Gen/predict.v) equal the hand-written model the C11 theorems are about. *)
From Coq Require Import String ZArith List Bool Lia.
From TP Require Import Model.Assign Model.Link Model.Predict Model.PyPredict Gen.predict Model.Predict2 Proofs.Predict.
Import ListNotations.
Open Scope Z_scope.

(* ================= A. predict.py: the predictors ================= *)

(* @predictor vectorises a single-particle function particle by particle, at the same t1 *)
Theorem gen_predictor_elementwise f : elementwise (py_predictor f) f.
Proof. intros t l. reflexivity. Qed.

Theorem gen_null_predict_elementwise : elementwise py_null_predict (fun _ p => p_pos p).
Proof. intros t l. reflexivity. Qed.

(* NullPredict.predict ignores the object's state and t1 *)
Theorem gen_NullPredict_predict self : py_NullPredict_predict self = null_vpred.
Proof. reflexivity. Qed.

Theorem gen_NullPredict_observe self f : py_NullPredict_observe self f = POk self.
Proof. reflexivity. Qed.

Lemma mul_vec_repeat k : forall v, mul_vec v (repeat k (length v)) = scale k v.
Proof. induction v as [|x v IH]; cbn; [reflexivity|]. unfold scale in IH. rewrite IH. f_equal. lia. Qed.

Lemma add_vec_shift : forall a p, length a = length p -> add_vec p a = shift a p.
Proof.
  induction a as [|y a IH]; intros [|x p] H; cbn in *; try reflexivity; try discriminate.
  rewrite IH by lia. reflexivity.
Qed.

Lemma drift_rows v d (g1 : point -> pt) (g2 : point -> Z) : forall l,
  np_add (map g1 l) (np_mul_row v (np_tile_T (map g2 l) d))
  = map (fun p => add_vec (g1 p) (mul_vec v (repeat (g2 p) d))) l.
Proof. induction l as [|p l IH]; cbn; [reflexivity|]. unfold np_mul_row, np_tile_T in IH. rewrite IH. reflexivity. Qed.

(* DriftPredict.predict with self.vel = v extrapolates every particle by exactly v per frame
   (particles all of the dimension of v; the list is never empty when the hash calls it) *)
Theorem gen_DriftPredict_predict_exact self v t1 ps :
  o_vel self = Some v -> ps <> [] -> Forall (fun p => length (p_pos p) = length v) ps ->
  py_DriftPredict_predict self (Some t1) ps = POk (map (fun p => shift (scale (t1 - p_t p) v) (p_pos p)) ps).
Proof.
  intros Hv Hne Hd. unfold py_DriftPredict_predict. destruct ps as [|p0 ps]; [congruence|].
  cbn [map zip_star2 bind]. rewrite Hv. cbn [np_rsub bind np_array shape1 fst map].
  inversion Hd as [|? ? H0 Hd']; subst. rewrite H0.
  f_equal.
  change (p_pos p0 :: map fst (map (fun p => (p_pos p, p_t p)) ps)) with (map fst (map (fun p => (p_pos p, p_t p)) (p0 :: ps))).
  change ((t1 - snd (p_pos p0, p_t p0)) :: map (fun x => t1 - x) (map snd (map (fun p => (p_pos p, p_t p)) ps)))
    with (map (fun x => t1 - x) (map snd (map (fun p => (p_pos p, p_t p)) (p0 :: ps)))).
  rewrite !map_map. cbn [fst snd].
  unfold np_array. rewrite (drift_rows v (length v) (fun p => p_pos p) (fun p => t1 - p_t p)).
  change (shift (scale (t1 - p_t p0) v) (p_pos p0) :: map (fun p => shift (scale (t1 - p_t p) v) (p_pos p)) ps)
    with (map (fun p => shift (scale (t1 - p_t p) v) (p_pos p)) (p0 :: ps)).
  apply map_ext_in. intros p Hp. rewrite Forall_forall in Hd. specialize (Hd p Hp).
  rewrite mul_vec_repeat. apply add_vec_shift. unfold scale. rewrite map_length. lia.
Qed.

(* without a velocity (observe not yet called) or without t1 it raises, on an empty list too *)
Theorem gen_DriftPredict_predict_empty self t1 : py_DriftPredict_predict self t1 [] = PRaises ValueError.
Proof. reflexivity. Qed.

(* ================= B. subnet.py: HashBase / HashKDTree ================= *)

Lemma gen_points_to_arr hp l : py_points_to_arr hp l = POk (map (fun p => p_pos (deref hp p)) l).
Proof. reflexivity. Qed.

(* stored coordinates: always the points' own positions *)
Theorem gen_coords hp h : py_HashBase_coords hp h = POk (map (fun p => p_pos (deref hp p)) (h_points h)).
Proof. reflexivity. Qed.

(* coords_predict: the stored positions without predictor, else predictor(self.t, self.points) *)
Theorem gen_coords_predict_none hp h : h_predictor h = None ->
  py_HashBase_coords_predict hp h = POk (map (fun p => p_pos (deref hp p)) (h_points h)).
Proof. intros H. unfold py_HashBase_coords_predict. rewrite H. reflexivity. Qed.

Theorem gen_coords_predict_some hp h P : h_predictor h = Some P ->
  py_HashBase_coords_predict hp h = P (h_t h) (derefs hp (h_points h)).
Proof.
  intros H. unfold py_HashBase_coords_predict, py_HashBase_predict. rewrite H. cbn [bind].
  destruct (P (h_t h) (derefs hp (h_points h))); reflexivity.
Qed.

(* rebuild: the tree is built from to_eucl(coords_predict); no points -> no tree, and the
   predictor is NOT called (so it never sees an empty list) *)
Theorem gen_rebuild_empty hp h : h_points h = [] ->
  py_HashKDTree_rebuild hp h = POk (set_h_clean (set_h_kdtree (set_h_clean h false) (Some None)) true).
Proof. intros H. unfold py_HashKDTree_rebuild. cbn [h_points set_h_clean]. rewrite H. reflexivity. Qed.

Theorem gen_rebuild_points hp h c : h_points h <> [] -> py_HashBase_coords_predict hp h = POk c ->
  py_HashKDTree_rebuild hp h
  = POk (set_h_clean (set_h_kdtree (set_h_clean h false) (Some (Some (cKDTree (h_to_eucl h c) 15)))) true).
Proof.
  intros Hne Hc. unfold py_HashKDTree_rebuild. cbn [h_points set_h_clean].
  destruct (h_points h) eqn:E; [congruence|]. cbn [length Nat.eqb].
  replace (py_HashBase_coords_predict hp (set_h_clean h false)) with (py_HashBase_coords_predict hp h)
    by (unfold py_HashBase_coords_predict, py_HashBase_predict, py_HashBase_coords; reflexivity).
  rewrite Hc. reflexivity.
Qed.

(* what a not-clean hash answers to .tree / .coords_mapped *)
Definition tree_coords (hp : heap) (h : hash) (c : list pt) : list pt :=
  match h_points h with [] => [] | _ :: _ => h_to_eucl h c end.

Theorem gen_tree hp h c : h_clean h = false -> py_HashBase_coords_predict hp h = POk c ->
  exists h' tr, py_HashKDTree_tree hp h = POk (h', tr) /\ h_points h' = h_points h /\ h_clean h' = true
    /\ match tr with Some k => tree_data k | None => [] end = tree_coords hp h c.
Proof.
  intros Hc Hp. unfold py_HashKDTree_tree, tree_coords. rewrite Hc. cbn [negb].
  destruct (h_points h) eqn:E.
  - rewrite (gen_rebuild_empty hp h E). cbn. eexists _, _. split; [reflexivity|]. cbn. auto.
  - rewrite (gen_rebuild_points hp h c) by congruence. cbn. eexists _, _. split; [reflexivity|]. cbn. auto.
Qed.

Theorem gen_coords_mapped hp h c : h_clean h = false -> py_HashBase_coords_predict hp h = POk c ->
  exists h', py_HashKDTree_coords_mapped hp h = POk (h', tree_coords hp h c) /\ h_points h' = h_points h /\ h_clean h' = true.
Proof.
  intros Hc Hp. unfold py_HashKDTree_coords_mapped, tree_coords. rewrite Hc. cbn [negb].
  destruct (h_points h) eqn:E.
  - rewrite (gen_rebuild_empty hp h E). cbn. eexists. split; [reflexivity|]. cbn. auto.
  - rewrite (gen_rebuild_points hp h c) by congruence. cbn. eexists. split; [reflexivity|]. cbn. auto.
Qed.

(* ================= C. linking.py: Linker.update_hash ================= *)

Definition add_points (h : hash) (ms : list pid) : hash :=
  fold_left (fun h m => set_h_clean (set_h_points h (h_points h ++ [m])) false) ms h.
Definition clear_fcs (L : linker) (ms : list pid) : linker :=
  fold_left (fun L m => set_l_heap L (set_forward_cands (l_heap L) m [])) ms L.

Lemma loop_spec : forall ms h L,
  foldM py_Linker_update_hash_loop1 ms (Some h, L) = POk (Some (add_points h ms), clear_fcs L ms).
Proof. induction ms as [|m ms IH]; intros h L; [reflexivity|]. cbn [foldM]. cbn [py_Linker_update_hash_loop1 py_HashBase_add_point bind]. apply IH. Qed.

Lemma add_points_spec : forall ms h,
  h_points (add_points h ms) = h_points h ++ ms /\ h_predictor (add_points h ms) = h_predictor h
  /\ h_t (add_points h ms) = h_t h /\ h_to_eucl (add_points h ms) = h_to_eucl h
  /\ (ms <> [] -> h_clean (add_points h ms) = false).
Proof.
  induction ms as [|m ms IH]; intros h; cbn [add_points fold_left].
  - rewrite app_nil_r. repeat split; congruence.
  - destruct (IH (set_h_clean (set_h_points h (h_points h ++ [m])) false)) as (A & B & C & D & E).
    fold (add_points (set_h_clean (set_h_points h (h_points h ++ [m])) false) ms) in *.
    cbn [h_points h_predictor h_t h_to_eucl h_clean set_h_clean set_h_points] in *.
    rewrite A, B, C, D, <- app_assoc. repeat split; try reflexivity.
    intros _. destruct ms; [reflexivity|]. apply E. discriminate.
Qed.

Lemma set_fc_attrs fc : forall hp i j,
  p_pos (deref (set_forward_cands hp i fc) j) = p_pos (deref hp j)
  /\ p_t (deref (set_forward_cands hp i fc) j) = p_t (deref hp j)
  /\ p_track (deref (set_forward_cands hp i fc) j) = p_track (deref hp j).
Proof.
  unfold deref, set_forward_cands. induction hp as [|p hp IH]; intros i j; cbn; [destruct i; auto|].
  destruct i; destruct j; cbn; auto.
Qed.

Lemma set_fc_length fc : forall hp i, length (set_forward_cands hp i fc) = length hp.
Proof. unfold set_forward_cands. induction hp; intros [|i]; cbn; auto. Qed.

Lemma clear_fcs_spec : forall ms L,
  l_ndim (clear_fcs L ms) = l_ndim L /\ l_hash (clear_fcs L ms) = l_hash L /\ l_mem_set (clear_fcs L ms) = l_mem_set L
  /\ l_predictor (clear_fcs L ms) = l_predictor L /\ l_to_eucl (clear_fcs L ms) = l_to_eucl L
  /\ l_dist_func (clear_fcs L ms) = l_dist_func L /\ length (l_heap (clear_fcs L ms)) = length (l_heap L)
  /\ forall j, p_pos (deref (l_heap (clear_fcs L ms)) j) = p_pos (deref (l_heap L) j)
            /\ p_t (deref (l_heap (clear_fcs L ms)) j) = p_t (deref (l_heap L) j)
            /\ p_track (deref (l_heap (clear_fcs L ms)) j) = p_track (deref (l_heap L) j).
Proof.
  induction ms as [|m ms IH]; intros L; cbn [clear_fcs fold_left]; [repeat split; reflexivity|].
  destruct (IH (set_l_heap L (set_forward_cands (l_heap L) m []))) as (A & B & C & D & E & F & G & H).
  fold (clear_fcs (set_l_heap L (set_forward_cands (l_heap L) m [])) ms) in *.
  cbn [l_ndim l_hash l_mem_set l_predictor l_to_eucl l_dist_func l_heap set_l_heap] in *.
  rewrite set_fc_length in G. repeat split; try assumption.
  all: destruct (H j) as (H1 & H2 & H3); destruct (set_fc_attrs [] (l_heap L) m j) as (K1 & K2 & K3); congruence.
Qed.

(* the hash update_hash returns as the SOURCE side of the next step, and the new self.hash *)
Definition src_hash (L : linker) (h : hash) (ms : list pid) (t : Z) : hash :=
  match l_predictor L with
  | Some P => set_h_clean (set_h_predictor (set_h_t (add_points h ms) (Some t)) (Some P)) false
  | None => add_points h ms
  end.
Definition dst_hash (L : linker) (n : nat) (coords : list pt) : hash :=
  {| h_ndim := l_ndim L; h_points := seq n (length coords); h_t := None; h_predictor := None; h_clean := false;
     h_kdtree := None; h_to_eucl := eucl_of (l_to_eucl L) |}.

Theorem gen_update_hash ord L h coords t :
  l_ndim L <> None -> l_hash L = Some h -> l_dist_func L = None ->
  let ms := set_iter ord (l_mem_set L) in
  let L1 := clear_fcs L ms in
  py_Linker_update_hash ord L coords t None
  = POk (set_l_hash (set_l_heap L1 (l_heap L1 ++ map (new_point t) coords)) (Some (dst_hash L (length (l_heap L1)) coords)),
         Some (src_hash L h ms t)).
Proof.
  intros Hn Hh Hd ms L1. unfold py_Linker_update_hash.
  destruct (l_ndim L) as [d|] eqn:En; [|congruence].
  rewrite Hh. fold ms. rewrite loop_spec. cbn [bind]. fold L1.
  destruct (clear_fcs_spec ms L) as (A & B & C & D & E & F & G & H). fold L1 in A, B, C, D, E, F, G, H.
  unfold src_hash, dst_hash. rewrite D.
  destruct (l_predictor L) as [P|]; cbn [bind py_HashBase_set_predictor py_points_from_arr points_new];
    cbn [l_ndim l_to_eucl l_dist_func l_heap set_l_heap]; rewrite A, E, F, Hd, En;
    unfold py_HashKDTree_init; cbn [bind py_HashBase_init py_HashBase_set_predictor];
    destruct (l_to_eucl L); reflexivity.
Qed.

(* ================= D. the reads of Subnets.compute: a predictor only moves the search origin ========= *)

Lemma gen_tree_cached hp h c : py_HashBase_coords_predict hp h = POk c ->
  (h_clean h = true ->
   h_kdtree h = Some (match h_points h with [] => None | _ :: _ => Some (cKDTree (h_to_eucl h c) 15) end)) ->
  exists h' tr, py_HashKDTree_tree hp h = POk (h', tr) /\ h_points h' = h_points h
    /\ match tr with Some k => tree_data k | None => [] end = tree_coords hp h c.
Proof.
  intros Hp Hc. destruct (h_clean h) eqn:E.
  - unfold py_HashKDTree_tree. rewrite E. cbn [negb bind]. rewrite (Hc eq_refl). eexists _, _. split; [reflexivity|].
    split; [reflexivity|]. unfold tree_coords. destruct (h_points h); reflexivity.
  - destruct (gen_tree hp h c E Hp) as (h' & tr & A & B & _ & D). eauto.
Qed.

Lemma derefs_new hp news : derefs (hp ++ news) (seq (length hp) (length news)) = news.
Proof.
  revert hp. induction news as [|a l IH]; intros hp; [reflexivity|].
  cbn [length seq derefs map]. unfold deref at 1. rewrite nth_middle. f_equal.
  replace (hp ++ a :: l) with ((hp ++ [a]) ++ l) by (rewrite <- app_assoc; reflexivity).
  replace (S (length hp)) with (length (hp ++ [a])) by (rewrite app_length; cbn; lia).
  apply IH.
Qed.

Lemma pos_derefs hp l : map (fun p => p_pos (deref hp p)) l = map (fun p => p_pos p) (derefs hp l).
Proof. unfold derefs. rewrite map_map. reflexivity. Qed.

Lemma deref_old hp news i : (i < length hp)%nat -> deref (hp ++ news) i = deref hp i.
Proof. intros H. unfold deref. apply app_nth1. exact H. Qed.

Lemma same_obs_map tags (f : point -> pt) (pred : nat -> src -> pt) t : forall ps ss,
  Forall2 (same_obs tags) ps ss -> (forall p s, same_obs tags p s -> f p = pred t s) -> map f ps = map (pred t) ss.
Proof. induction 1 as [|p s ps ss H _ IH]; intros Hf; cbn; [reflexivity|]. rewrite (Hf p s H), IH; auto. Qed.

(* THE THEOREM about the generated Linker / HashBase code.  Let the Linker object L (with its heap of
   Points) stand for the model state st.  Then the generated update_hash followed by the reads
   Subnets.compute makes succeeds, and
     - the source tree holds to_eucl of the PREDICTED positions pred (now st) s of the live sources
       (memory included), resp. of their stored positions when there is no predictor;
     - the destination coordinates are to_eucl of the OBSERVED coordinates ds, whatever the predictor;
     - the source points themselves are untouched: same objects, same stored positions, frame
       numbers and track ids as before (labels and positions later copied from them are the observed ones);
     - the new points carry the observed coordinates ds and the frame number t;
     - the new self.hash has no predictor. *)
Theorem gen_level_spec ord tags L h st ds pred :
  represents ord tags L h st ->
  eucl_of (l_to_eucl L) [] = [] ->
  match l_predictor L with
  | None => forall s, pred (now st) s = s_pos s
  | Some P => exists f, elementwise P f /\
              forall p s, same_obs tags p s -> f (Some (tag tags (now st))) p = pred (now st) s
  end ->
  exists lv, gen_level ord L ds (tag tags (now st)) = POk lv
    /\ lv_src_coords lv = eucl_of (l_to_eucl L) (map (pred (now st)) (live st))
    /\ lv_dst_coords lv = eucl_of (l_to_eucl L) ds
    /\ h_points (lv_src_hash lv) = source_pids ord L h
    /\ Forall2 (same_obs tags) (derefs (l_heap (lv_linker lv)) (h_points (lv_src_hash lv))) (live st)
    /\ derefs (l_heap (lv_linker lv)) (h_points (lv_dst_hash lv)) = map (new_point (tag tags (now st))) ds
    /\ exists dh0, l_hash (lv_linker lv) = Some dh0 /\ h_predictor dh0 = None
         /\ h_to_eucl dh0 = eucl_of (l_to_eucl L) /\ h_points dh0 = h_points (lv_dst_hash lv).
Proof.
  intros [Rn Rh Rd Rf Re Rc Rv Ro] He Hp.
  set (t := tag tags (now st)) in *. set (e := eucl_of (l_to_eucl L)) in *.
  unfold gen_level. rewrite (gen_update_hash ord L h ds t Rn Rh Rd).
  set (ms := set_iter ord (l_mem_set L)). set (L1 := clear_fcs L ms).
  destruct (clear_fcs_spec ms L) as (A1 & A2 & A3 & A4 & A5 & A6 & A7 & A8). fold L1 in A1, A2, A3, A4, A5, A6, A7, A8.
  destruct (add_points_spec ms h) as (B1 & B2 & B3 & B4 & B5).
  set (hp2 := l_heap L1 ++ map (new_point t) ds).
  cbn [bind l_hash set_l_hash l_heap set_l_heap].
  set (dh := dst_hash L (length (l_heap L1)) ds). set (ph := src_hash L h ms t).
  unfold source_pids in Rv, Ro. fold ms in Rv, Ro.
  (* attributes of the old points survive *)
  assert (Hattr : forall i, (i < length (l_heap L))%nat ->
            p_pos (deref hp2 i) = p_pos (deref (l_heap L) i) /\ p_t (deref hp2 i) = p_t (deref (l_heap L) i)
            /\ p_track (deref hp2 i) = p_track (deref (l_heap L) i)).
  { intros i Hi. unfold hp2. rewrite deref_old by lia. apply A8. }
  assert (Hobs : Forall2 (same_obs tags) (derefs hp2 (h_points h ++ ms)) (live st)).
  { revert Rv Ro. generalize (h_points h ++ ms) (live st). induction l as [|i l IH]; intros ss Rv Ro; cbn in *.
    - inversion Ro; constructor.
    - inversion Ro as [|? s ? ss' Hs Hr]; subst. inversion Rv as [|? ? Hi Hv]; subst. constructor; [|apply IH; assumption].
      destruct (Hattr i Hi) as (K1 & K2 & K3). destruct Hs as (S1 & S2 & S3). unfold same_obs. rewrite K1, K2, K3. auto. }
  assert (Hpos : map (fun p => p_pos (deref hp2 p)) (h_points h ++ ms) = map (fun p => p_pos (deref (l_heap L) p)) (h_points h ++ ms)).
  { apply map_ext_in. intros i Hi. rewrite Forall_forall in Rv. apply (Hattr i (Rv i Hi)). }
  (* destination side *)
  assert (Hdc : py_HashBase_coords_predict hp2 dh = POk ds).
  { rewrite gen_coords_predict_none by reflexivity. cbn [h_points dh dst_hash]. f_equal.
    rewrite pos_derefs.
    replace (length ds) with (length (map (new_point t) ds)) by apply map_length.
    unfold hp2. rewrite derefs_new. rewrite map_map. cbn. apply map_id. }
  destruct (gen_coords_mapped hp2 dh ds eq_refl Hdc) as (dh1 & D1 & D2 & D3). rewrite D1. cbn [bind].
  (* source side *)
  assert (Hph_pts : h_points ph = h_points h ++ ms).
  { unfold ph, src_hash. destruct (l_predictor L); cbn; exact B1. }
  assert (Hph_e : h_to_eucl ph = e).
  { unfold ph, src_hash. destruct (l_predictor L); cbn; rewrite B4; exact Re. }
  assert (Hsc : exists c, py_HashBase_coords_predict hp2 ph = POk c /\ c = map (pred (now st)) (live st)
                /\ (h_clean ph = true -> h_kdtree ph = Some (match h_points ph with [] => None | _ :: _ => Some (cKDTree (h_to_eucl ph c) 15) end))).
  { unfold ph, src_hash. destruct (l_predictor L) as [P|] eqn:EP.
    - destruct Hp as (f & Hel & Hag). eexists. split; [|split].
      + rewrite (gen_coords_predict_some _ _ P) by reflexivity. cbn [h_t h_points set_h_clean set_h_predictor set_h_t].
        rewrite B1. rewrite Hel. reflexivity.
      + apply (same_obs_map tags (f (Some t)) pred (now st) _ _ Hobs Hag).
      + cbn. discriminate.
    - eexists. split; [|split].
      + rewrite gen_coords_predict_none by (rewrite B2; exact Rf). rewrite B1. reflexivity.
      + rewrite pos_derefs.
        apply (same_obs_map tags (fun p => p_pos p) pred (now st) _ _ Hobs).
        intros p s (S1 & _). rewrite Hp. exact S1.
      + intros Hcl. destruct ms as [|m0 ms'] eqn:Ems.
        * cbn [add_points fold_left] in *. rewrite app_nil_r in *. rewrite (Rc Hcl). rewrite Hpos. reflexivity.
        * rewrite B5 in Hcl by discriminate. discriminate. }
  destruct Hsc as (c & Hc1 & Hc2 & Hc3).
  destruct (gen_tree_cached hp2 ph c Hc1 Hc3) as (ph1 & tr & T1 & T2 & T3). rewrite T1. cbn [bind].
  eexists. split; [reflexivity|]. cbn [lv_src_coords lv_dst_coords lv_src_hash lv_dst_hash lv_linker l_heap set_l_heap set_l_hash l_hash].
  repeat split.
  - rewrite T3. unfold tree_coords. rewrite Hph_pts, Hph_e, Hc2.
    destruct (h_points h ++ ms) eqn:E; [|reflexivity].
    inversion Hobs. cbn. symmetry. exact He.
  - unfold tree_coords. cbn [h_points dh dst_hash h_to_eucl]. destruct ds; [symmetry; exact He|reflexivity].
  - rewrite T2. exact Hph_pts.
  - rewrite T2, Hph_pts. exact Hobs.
  - rewrite D2. cbn [h_points dh dst_hash].
    replace (length ds) with (length (map (new_point t) ds)) by apply map_length. unfold hp2. apply derefs_new.
  - exists dh. repeat split; try reflexivity. symmetry. exact D2.
Qed.

(* ================= E. the model's link step sees a predictor only through the source coordinates ===== *)

Lemma items_of_as_coords m pred st ds :
  items_of m pred st ds = items_of_coords m (map (pred (now st)) (live st)) ds.
Proof.
  unfold items_of, items_of_coords. generalize 0%nat. induction (live st) as [|s l IH]; intros k; cbn; [reflexivity|].
  rewrite IH. reflexivity.
Qed.

(* ... so the links of a step are a function of (predicted source coordinates, observed destination
   coordinates) alone, while labels and stored positions (apply_links) are read from the state and ds *)
Theorem step_links_from_coords m max_size pred st ds :
  step_links m max_size pred st ds
  = solve_groups max_size (components (items_of_coords m (map (pred (now st)) (live st)) ds)).
Proof. unfold step_links. rewrite items_of_as_coords. reflexivity. Qed.

Lemma items_of_ext m p1 p2 st ds : (forall s, In s (live st) -> p1 (now st) s = p2 (now st) s) ->
  items_of m p1 st ds = items_of m p2 st ds.
Proof.
  intros H. rewrite !items_of_as_coords. f_equal. apply map_ext_in. exact H.
Qed.

Lemma link_step_ext m mem max_size p1 p2 st ds : (forall s, In s (live st) -> p1 (now st) s = p2 (now st) s) ->
  link_step m mem max_size p1 st ds = link_step m mem max_size p2 st ds.
Proof. intros H. unfold link_step, step_links. rewrite (items_of_ext m p1 p2 st ds H). reflexivity. Qed.

(* sources always carry positions that occurred in the movie *)
Lemma In_mk_srcs t : forall labs ds s, In s (mk_srcs t labs ds) -> In (s_pos s) ds.
Proof.
  induction labs as [|lb labs IH]; intros [|d ds] s H; cbn in H; try contradiction.
  destruct H as [<-|H]; [left; reflexivity|right; eapply IH; eauto].
Qed.
Lemma In_remembered mem t links : forall l i s, In s (remembered mem t links i l) -> In s l.
Proof.
  induction l as [|x l IH]; intros i s H; cbn in H; [contradiction|].
  destruct (unlinked_b links i && (t - s_seen x <=? mem)%nat); [destruct H as [<-|H]; [left; reflexivity|right; eauto]|right; eauto].
Qed.

Lemma link_step_live (Q : pt -> Prop) m mem max_size pred st ds st' labs :
  Forall (fun s => Q (s_pos s)) (live st) -> Forall Q ds ->
  link_step m mem max_size pred st ds = Ok (st', labs) -> Forall (fun s => Q (s_pos s)) (live st').
Proof.
  intros Hl Hd H. unfold link_step in H. destruct (step_links m max_size pred st ds) as [links|]; [|discriminate].
  unfold apply_links in H. destruct (assign_labels st links (length ds) 0 (next_id st)) as [labs' fresh].
  inversion H; subst; clear H. cbn [live]. rewrite Forall_forall in *. intros s Hs. apply in_app_or in Hs. destruct Hs as [Hs|Hs].
  - apply Hd. eapply In_mk_srcs; eauto.
  - apply Hl. eapply In_remembered; eauto.
Qed.

Lemma run_from_ext (Q : pt -> Prop) m mem max_size p1 p2 :
  (forall t s, Q (s_pos s) -> p1 t s = p2 t s) ->
  forall frames st, Forall (fun s => Q (s_pos s)) (live st) -> Forall (Forall Q) frames ->
  run_from m mem max_size p1 st frames = run_from m mem max_size p2 st frames.
Proof.
  intros H. induction frames as [|ds rest IH]; intros st Hl Hf; [reflexivity|]. cbn [run_from].
  inversion Hf as [|? ? Hd Hr]; subst.
  rewrite (link_step_ext m mem max_size p1 p2 st ds).
  2:{ intros s Hs. apply H. rewrite Forall_forall in Hl. apply Hl. exact Hs. }
  destruct (link_step m mem max_size p2 st ds) as [[st' labs]|] eqn:E; [|reflexivity].
  rewrite (IH st'); [reflexivity| |assumption]. eapply link_step_live; eauto.
Qed.

(* two predictors that agree on every source whose position satisfies Q give the same linking of a movie
   whose points all satisfy Q *)
Theorem link_iter_ext_on (Q : pt -> Prop) m mem max_size p1 p2 frames :
  (forall t s, Q (s_pos s) -> p1 t s = p2 t s) -> Forall (Forall Q) frames ->
  link_iter m mem max_size p1 frames = link_iter m mem max_size p2 frames.
Proof.
  intros H Hf. destruct frames as [|f0 rest]; [reflexivity|]. cbn [link_iter]. unfold init_state.
  inversion Hf as [|? ? H0 Hr]; subst.
  rewrite (run_from_ext Q m mem max_size p1 p2 H rest); [reflexivity| |assumption].
  cbn [live]. rewrite Forall_forall in *. intros s Hs. apply H0. eapply In_mk_srcs; eauto.
Qed.

Theorem link_iter_ext m mem max_size p1 p2 frames :
  (forall t s, p1 t s = p2 t s) -> link_iter m mem max_size p1 frames = link_iter m mem max_size p2 frames.
Proof.
  intros H. apply (link_iter_ext_on (fun _ => True)); [intros; apply H|].
  apply Forall_forall. intros l _. apply Forall_forall. auto.
Qed.

(* ---- the Python predictors as model predictors ---- *)
Lemma pred_of_vpred_elementwise P f tags t1 s : elementwise P f ->
  pred_of_vpred P tags t1 s = pred_of_ufunc f tags t1 s.
Proof. intros H. unfold pred_of_vpred, pred_of_ufunc. rewrite H. reflexivity. Qed.

Lemma exact_drift_is_pred_drift v f tags t1 s : exact_drift v f -> pred_of_ufunc f tags t1 s = pred_drift v tags t1 s.
Proof. intros H. unfold pred_of_ufunc, pred_drift. rewrite H. reflexivity. Qed.

(* HEADLINE 1, generated code: a single-particle function that extrapolates by exactly v per frame,
   vectorised by the generated @predictor, compensates the drift v*t label for label *)
Theorem gen_drift_compensated m mem max_size v f tags frames : exact_drift v f ->
  link_iter m mem max_size (pred_of_vpred (py_predictor f) tags) (drift_frames v tags 0 frames)
  = link_iter m mem max_size no_pred frames.
Proof.
  intros H. rewrite <- (link_iter_drift m mem max_size v tags frames). apply link_iter_ext. intros t s.
  rewrite (pred_of_vpred_elementwise _ f) by apply gen_predictor_elementwise. apply exact_drift_is_pred_drift. exact H.
Qed.

(* the same for the library's own exact-drift predictor DriftPredict.predict with self.vel = v,
   on movies of the dimension of v *)
Lemma shift_length : forall a p, length (shift a p) = length p.
Proof. induction a as [|y a IH]; intros [|x p]; cbn; auto. Qed.

Lemma gen_DriftPredict_is_pred_drift self v tags t1 s : o_vel self = Some v -> length (s_pos s) = length v ->
  pred_of_vpred (py_DriftPredict_predict self) tags t1 s = pred_drift v tags t1 s.
Proof.
  intros Hv Hl. unfold pred_of_vpred.
  rewrite (gen_DriftPredict_predict_exact self v) by (try assumption; try discriminate; repeat constructor; exact Hl).
  reflexivity.
Qed.

Theorem gen_DriftPredict_compensated m mem max_size v self tags frames :
  o_vel self = Some v -> Forall (Forall (fun p => length p = length v)) frames ->
  link_iter m mem max_size (pred_of_vpred (py_DriftPredict_predict self) tags) (drift_frames v tags 0 frames)
  = link_iter m mem max_size no_pred frames.
Proof.
  intros Hv Hd. rewrite <- (link_iter_drift m mem max_size v tags frames).
  apply (link_iter_ext_on (fun p => length p = length v)).
  - intros t s Hs. apply gen_DriftPredict_is_pred_drift; assumption.
  - unfold drift_frames. generalize 0%nat. induction Hd as [|ds rest Hds _ IH]; intros k; cbn; constructor; [|apply IH].
    apply Forall_forall. intros p Hp. apply in_map_iff in Hp. destruct Hp as (q & <- & Hq).
    rewrite shift_length. rewrite Forall_forall in Hds. apply Hds. exact Hq.
Qed.

(* HEADLINE 2, generated code: null_predict and NullPredict.predict are plain linking *)
Theorem gen_null_predict_plain m mem max_size tags frames :
  link_iter m mem max_size (pred_of_vpred py_null_predict tags) frames = link_iter m mem max_size no_pred frames.
Proof. apply link_iter_ext. intros t s. reflexivity. Qed.

Theorem gen_NullPredict_plain m mem max_size self tags frames :
  link_iter m mem max_size (pred_of_vpred (py_NullPredict_predict self) tags) frames = link_iter m mem max_size no_pred frames.
Proof. apply link_iter_ext. intros t s. reflexivity. Qed.

(* ================= F. NullPredict.wrap / link_df_iter / wrap_single / link_df ================= *)

Lemma bind_assoc {A B C} (x : pres A) (f : A -> pres B) (g : B -> pres C) :
  bind (bind x f) g = bind x (fun a => bind (f a) g).
Proof. destruct x; reflexivity. Qed.

(* the loop `for frame in linking_fcn( *args, **kw): self.observe(frame); yield frame` of a NullPredict:
   the linker is handed null_vpred at every step, the object does not change, every frame is yielded *)
Lemma null_loop lf self : forall frames s acc,
  linked_loop lf (fun st : predobj * list frame => Some (c_predict NullPredict_cls (let '(self, _) := st in self)))
              (py_NullPredict_wrap_loop1 NullPredict_cls) s frames (self, acc)
  = bind (lf_run lf s (Some null_vpred) frames) (fun out => POk (self, acc ++ out)).
Proof.
  induction frames as [|f fs IH]; intros s acc; cbn [linked_loop lf_run bind]; [rewrite app_nil_r; reflexivity|].
  change (c_predict NullPredict_cls self) with null_vpred.
  destruct (lf_step lf s (Some null_vpred) f) as [[out s']|e]; cbn [bind fst snd]; [|reflexivity].
  unfold py_NullPredict_wrap_loop1 at 1. cbn [c_observe NullPredict_cls py_NullPredict_observe bind].
  rewrite IH. destruct (lf_run lf s' (Some null_vpred) fs) as [outs|e]; cbn [bind]; [|reflexivity].
  rewrite <- app_assoc. reflexivity.
Qed.

Lemma wrap_tail lf f0 fs rest kw' (self' : predobj) :
  kw_predictor kw' = Some (c_predict NullPredict_cls) ->
  bind (for_linked lf (AFrames (f0 :: fs) :: rest) kw' (fun st : predobj * list frame => let '(self0, _) := st in self0)
                   (py_NullPredict_wrap_loop1 NullPredict_cls) (self', []))
       (fun '(self0, yielded__) => POk (self0, yielded__))
  = bind (lf_init lf rest kw') (fun s =>
    bind (lf_run lf s (Some null_vpred) (f0 :: fs)) (fun out => POk (self', out))).
Proof.
  intros Hk. unfold for_linked. cbn [args_iter0 bind tl]. rewrite Hk.
  destruct (lf_init lf rest kw') as [s|e]; cbn [bind]; [|reflexivity].
  rewrite (null_loop lf self' (f0 :: fs) s []).
  destruct (lf_run lf s (Some null_vpred) (f0 :: fs)); reflexivity.
Qed.

(* NullPredict.wrap, for ALL arguments (error cases included), is wrap_spec: the frames reach the linking
   function unchanged and in order, kw['predictor'] is this object's predict = "stay where you are",
   pos_columns is resolved as documented, every linked frame is yielded unchanged *)
Theorem gen_wrap_null self lf args kw :
  py_NullPredict_wrap NullPredict_cls self lf args kw = wrap_spec self lf args kw.
Proof.
  unfold py_NullPredict_wrap, wrap_spec. f_equal.
  replace (bind (if o_already_linked self then POk tt else POk tt)) with (bind (A := unit) (B := predobj * list frame) (POk tt))
    by (destruct (o_already_linked self); reflexivity).
  cbn [bind]. unfold py_list.
  destruct args as [|a rest]; [reflexivity|]. destruct a as [fr| |]; try reflexivity.
  cbn [args_iter0 bind]. destruct fr as [|f0 fs]; [reflexivity|]. cbn [py_next bind args_set0 itertools_chain app].
  cbn [o_pos_columns set_o_already_linked].
  unfold wrap_pos_columns.
  destruct (o_pos_columns self) as [pc|] eqn:Epc.
  - destruct (kw_pos_columns kw) as [[kpc|]|] eqn:Ek; cbn [kw_pos_columns set_kw_predictor]; rewrite ?Ek.
    + destruct (any_ne_zip pc kpc); [reflexivity|]. cbn [bind]. rewrite wrap_tail by reflexivity; unfold wrap_kw, wrap_self, set_kw_pos_columns, set_kw_predictor, set_o_t_column, set_o_already_linked, set_o_pos_columns; cbn [kw_predictor kw_pos_columns kw_t_column kw_rest o_already_linked o_pos_columns o_t_column o_recent_frames o_vel]; rewrite ?Epc, ?Ek; reflexivity.
    + cbn [bind]. rewrite wrap_tail by reflexivity; unfold wrap_kw, wrap_self, set_kw_pos_columns, set_kw_predictor, set_o_t_column, set_o_already_linked, set_o_pos_columns; cbn [kw_predictor kw_pos_columns kw_t_column kw_rest o_already_linked o_pos_columns o_t_column o_recent_frames o_vel]; rewrite ?Epc, ?Ek; reflexivity.
    + cbn [bind]. rewrite wrap_tail by reflexivity; unfold wrap_kw, wrap_self, set_kw_pos_columns, set_kw_predictor, set_o_t_column, set_o_already_linked, set_o_pos_columns; cbn [kw_predictor kw_pos_columns kw_t_column kw_rest o_already_linked o_pos_columns o_t_column o_recent_frames o_vel]; rewrite ?Epc, ?Ek; reflexivity.
  - cbn [bind kw_pos_columns set_kw_predictor]. rewrite wrap_tail by reflexivity; unfold wrap_kw, wrap_self, set_kw_pos_columns, set_kw_predictor, set_o_t_column, set_o_already_linked, set_o_pos_columns; cbn [kw_predictor kw_pos_columns kw_t_column kw_rest o_already_linked o_pos_columns o_t_column o_recent_frames o_vel]; rewrite ?Epc, ?Ek; reflexivity.
Qed.

Theorem gen_link_df_iter_null lf self args kw :
  py_NullPredict_link_df_iter NullPredict_cls lf self args kw = wrap_spec self lf args kw.
Proof. unfold py_NullPredict_link_df_iter. apply gen_wrap_null. Qed.

(* wrap_single: pop the table, default t_column to 'frame', split the table by frame number, wrap, concatenate *)
Definition wrap_single_spec (self : predobj) (lf : linkfn) (args : list argv) (kw : kwargs) : pres (predobj * frame) :=
  bind (args_pop0 args) (fun '(features, rest) =>
  let tcol := match kw_get (kw_t_column kw) with None => "frame"%string | Some c => c end in
  let kw2 := {| kw_predictor := Some (c_predict NullPredict_cls); kw_pos_columns := kw_pos_columns kw;
                kw_t_column := Some (Some tcol); kw_rest := kw_rest kw |} in
  bind (argv_groupby features (Some tcol)) (fun groups =>
  bind (wrap_spec self lf (AFrames (map snd groups) :: rest) kw2) (fun '(self', outs) =>
  bind (pandas_concat outs) (fun r => POk (self', r))))).

Theorem gen_wrap_single_null self lf args kw :
  py_NullPredict_wrap_single NullPredict_cls self lf args kw = wrap_single_spec self lf args kw.
Proof.
  unfold py_NullPredict_wrap_single, wrap_single_spec, py_list.
  destruct (args_pop0 args) as [[features rest]|e]; cbn [bind]; [|reflexivity].
  destruct (kw_t_column kw) as [[c|]|] eqn:E; cbn [kw_get bind set_kw_t_column set_kw_predictor kw_t_column kw_predictor kw_pos_columns kw_rest];
    rewrite ?E.
  - destruct (argv_groupby features (Some c)) as [g|e]; cbn [bind]; [|reflexivity].
    rewrite gen_wrap_null. destruct kw as [a b c' d]; cbn in E; subst c'. reflexivity.
  - destruct (argv_groupby features (Some "frame"%string)) as [g|e]; cbn [bind]; [|reflexivity].
    rewrite gen_wrap_null. reflexivity.
  - destruct (argv_groupby features (Some "frame"%string)) as [g|e]; cbn [bind]; [|reflexivity].
    rewrite gen_wrap_null. reflexivity.
Qed.

Theorem gen_link_df_null lf self args kw :
  py_NullPredict_link_df NullPredict_cls lf self args kw = wrap_single_spec self lf args kw.
Proof. unfold py_NullPredict_link_df. apply gen_wrap_single_null. Qed.

(* ---- with the model's link step as the linking function ---- *)
Definition label_frames (fs : list frame) (labs : list (list nat)) : list frame :=
  map (fun fl => labelled (fst fl) (snd fl)) (combine fs labs).

Lemma lf_run_model m mem max_size tags : forall fs st labs,
  run_from m mem max_size no_pred st (map frame_pts fs) = Ok labs ->
  lf_run (lf_model m mem max_size tags) (Some st) (Some null_vpred) fs = POk (label_frames fs labs).
Proof.
  induction fs as [|f fs IH]; intros st labs H; cbn [map run_from] in H.
  - inversion H. reflexivity.
  - cbn [lf_run lf_model lf_step].
    rewrite (link_step_ext m mem max_size (pred_of_opt (Some null_vpred) tags) no_pred st (frame_pts f)) by reflexivity.
    destruct (link_step m mem max_size no_pred st (frame_pts f)) as [[st' l]|]; [|discriminate].
    destruct (run_from m mem max_size no_pred st' (map frame_pts fs)) as [ls|] eqn:E; [|discriminate].
    inversion H; subst. cbn [bind fst snd]. rewrite (IH st' ls E). reflexivity.
Qed.

(* HEADLINE 2 at the level of the generated NullPredict().link_df_iter: with the model's link step as
   linking.link_df_iter, the frames it yields carry exactly the labels of plain linking (no predictor) *)
Theorem gen_NullPredict_link_df_iter_plain m mem max_size tags self f0 fs rest kw pc labs :
  wrap_pos_columns self kw f0 = POk pc ->
  link_iter m mem max_size no_pred (map frame_pts (f0 :: fs)) = Ok labs ->
  py_NullPredict_link_df_iter NullPredict_cls (lf_model m mem max_size tags) self (AFrames (f0 :: fs) :: rest) kw
  = POk (wrap_self self kw pc, label_frames (f0 :: fs) labs).
Proof.
  intros Hpc H. rewrite gen_link_df_iter_null. unfold wrap_spec. rewrite Hpc. cbn [bind lf_model lf_init lf_run lf_step].
  cbn [map link_iter] in H. destruct (init_state (frame_pts f0)) as [st0 l0].
  destruct (run_from m mem max_size no_pred st0 (map frame_pts fs)) as [ls|] eqn:E; [|discriminate].
  inversion H; subst. cbn [bind fst snd].
  rewrite (lf_run_model m mem max_size tags fs st0 ls E). reflexivity.
Qed.

(* ================= G. the headline about the generated Linker code (isotropic search range) ========= *)

(* With the Linker object L standing for the model state st: the links of the model's step with
   predictor pred are exactly those computed from the coordinates the GENERATED update_hash / rebuild
   put into the source tree and hand out as destination coordinates -- the predictor enters there and
   nowhere else; the points whose labels and positions apply_links copies are unchanged. *)
Theorem gen_search_origin ord tags L h st ds pred m max_size :
  represents ord tags L h st -> l_to_eucl L = None ->
  match l_predictor L with
  | None => forall s, pred (now st) s = s_pos s
  | Some P => exists f, elementwise P f /\
              forall p s, same_obs tags p s -> f (Some (tag tags (now st))) p = pred (now st) s
  end ->
  exists lv, gen_level ord L ds (tag tags (now st)) = POk lv
    /\ step_links m max_size pred st ds
       = solve_groups max_size (components (items_of_coords m (lv_src_coords lv) (lv_dst_coords lv)))
    /\ lv_dst_coords lv = ds
    /\ Forall2 (same_obs tags) (derefs (l_heap (lv_linker lv)) (h_points (lv_src_hash lv))) (live st)
    /\ derefs (l_heap (lv_linker lv)) (h_points (lv_dst_hash lv)) = map (new_point (tag tags (now st))) ds.
Proof.
  intros R He Hp. destruct (gen_level_spec ord tags L h st ds pred R) as (lv & A & B & C & D & E & F & _); [rewrite He; reflexivity|exact Hp|].
  exists lv. rewrite He in B, C. cbn [eucl_of] in B, C. repeat split; try assumption.
  rewrite B, C. apply step_links_from_coords.
Qed.

(* paired statements, as used by Properties/C11.v *)
Theorem gen_null_predictor_both m mem max_size self tags frames :
  link_iter m mem max_size (pred_of_vpred py_null_predict tags) frames = link_iter m mem max_size no_pred frames
  /\ link_iter m mem max_size (pred_of_vpred (py_NullPredict_predict self) tags) frames = link_iter m mem max_size no_pred frames.
Proof. split; [apply gen_null_predict_plain|apply gen_NullPredict_plain]. Qed.

Theorem gen_wrap_both self lf args kw :
  py_NullPredict_wrap NullPredict_cls self lf args kw = wrap_spec self lf args kw
  /\ py_NullPredict_link_df_iter NullPredict_cls lf self args kw = wrap_spec self lf args kw.
Proof. split; [apply gen_wrap_null|apply gen_link_df_iter_null]. Qed.

Theorem gen_wrap_single_both self lf args kw :
  py_NullPredict_wrap_single NullPredict_cls self lf args kw = wrap_single_spec self lf args kw
  /\ py_NullPredict_link_df NullPredict_cls lf self args kw = wrap_single_spec self lf args kw.
Proof. split; [apply gen_wrap_single_null|apply gen_link_df_null]. Qed.
