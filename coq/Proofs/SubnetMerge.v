(* The subnet bookkeeping of Subnets.compute / assign_subnet (Model/SubnetMerge.v)
   builds exactly the connected components of the candidate graph:

     run_edges_spec      from Subnets.reset(), visiting any sequence of (source, dest)
                         pairs with dest < nd never raises and ends in a state
                         satisfying [Inv]
     same_subnet_iff_connected
                         two points carry the same subnet id  iff  they are joined
                         by a path of visited pairs
     subnets_match_components
                         hence the sources grouped by the code's dictionary are the
                         groups of Model/Link.components (the model used by every
                         linking theorem), and the destination sets agree too *)
From Coq Require Import List Arith Bool Lia Relations Permutation.
From TP Require Import Model.Assign Model.Link Model.SubnetMerge Proofs.Opt Proofs.Comps Proofs.Connected.
Import ListNotations.
Local Open Scope nat_scope.

Definition vert := (nat + nat)%type.                     (* inl source | inr dest *)
Definition edge_rel (es : list (nat * nat)) (x y : vert) : Prop :=
  exists s d, In (s, d) es /\ x = inl s /\ y = inr d.
Definition conn (es : list (nat * nat)) : vert -> vert -> Prop :=
  clos_refl_sym_trans vert (edge_rel es).

Definition verts (v : sets) (x : vert) : Prop :=
  match x with inl s => In s (fst v) | inr d => In d (snd v) end.
Definition vsub (st : mst) (x : vert) : option nat :=
  match x with inl s => alook s (ssub st) | inr d => alook d (dsub st) end.

Record Inv (nd : nat) (es : list (nat * nat)) (st : mst) : Prop := {
  i_ids  : NoDup (map fst (subs st));
  i_in   : forall x i, vsub st x = Some i -> exists v, sfind i (subs st) = Some v /\ verts v x;
  i_sub  : forall i v x, sfind i (subs st) = Some v -> verts v x -> vsub st x = Some i;
  i_conn : forall i v x y, sfind i (subs st) = Some v -> verts v x -> verts v y -> conn es x y;
  i_edge : forall s d, In (s, d) es -> exists i, alook s (ssub st) = Some i /\ alook d (dsub st) = Some i;
  i_dest : forall d, alook d (dsub st) <> None <-> d < nd;
  i_src  : forall s i, alook s (ssub st) = Some i -> exists d, In (s, d) es;
  i_nodup : forall i v, sfind i (subs st) = Some v -> NoDup (fst v) /\ NoDup (snd v);
  i_nonempty : forall i v, sfind i (subs st) = Some v -> snd v <> []
}.

(* ---------- association lists ---------- *)
Lemma alook_aset_eq k v m : alook k (aset k v m) = Some v.
Proof. unfold aset; cbn. rewrite Nat.eqb_refl. reflexivity. Qed.
Lemma alook_aset_ne k k' v m : k <> k' -> alook k (aset k' v m) = alook k m.
Proof. intros H. unfold aset; cbn. destruct (Nat.eqb_spec k k'); [contradiction|reflexivity]. Qed.
Lemma alook_aset_all_in ks : forall k v m, In k ks -> alook k (aset_all ks v m) = Some v.
Proof.
  unfold aset_all. induction ks as [|a ks IH] using rev_ind; intros k v m H; [destruct H|].
  rewrite fold_left_app. cbn. apply in_app_or in H. destruct H as [H|[H|[]]].
  - destruct (Nat.eqb_spec k a); [reflexivity|]. apply IH. exact H.
  - subst a. rewrite Nat.eqb_refl. reflexivity.
Qed.
Lemma alook_aset_all_out ks : forall k v m, ~ In k ks -> alook k (aset_all ks v m) = alook k m.
Proof.
  unfold aset_all. induction ks as [|a ks IH] using rev_ind; intros k v m H; [reflexivity|].
  rewrite fold_left_app. cbn. destruct (Nat.eqb_spec k a) as [E|E].
  - exfalso. apply H. apply in_or_app. right. left. auto.
  - apply IH. intros Hk. apply H. apply in_or_app. left. exact Hk.
Qed.

(* ---------- the dictionary ---------- *)
Lemma sfind_sput_eq i v l : sfind i l <> None -> sfind i (sput i v l) = Some v.
Proof.
  induction l as [|[j w] l IH]; cbn; intros H; [congruence|].
  destruct (Nat.eqb_spec i j) as [E|E]; cbn.
  - subst j. rewrite Nat.eqb_refl. reflexivity.
  - destruct (Nat.eqb_spec i j); [contradiction|]. apply IH. exact H.
Qed.
Lemma sfind_sput_ne i j v l : i <> j -> sfind j (sput i v l) = sfind j l.
Proof.
  intros Hij. induction l as [|[k w] l IH]; cbn; [reflexivity|].
  destruct (Nat.eqb_spec i k) as [E|E]; cbn.
  - subst k. destruct (Nat.eqb_spec j i); [congruence|reflexivity].
  - destruct (Nat.eqb_spec j k); [reflexivity|exact IH].
Qed.
Lemma map_fst_sput i v l : map fst (sput i v l) = map fst l.
Proof.
  induction l as [|[k w] l IH]; cbn; [reflexivity|].
  destruct (Nat.eqb_spec i k); cbn; [reflexivity|rewrite IH; reflexivity].
Qed.
Lemma sfind_sdel_eq i l : sfind i (sdel i l) = None.
Proof.
  induction l as [|[k w] l IH]; cbn; [reflexivity|].
  destruct (Nat.eqb_spec k i) as [E|E]; cbn; [exact IH|].
  destruct (Nat.eqb_spec i k); [congruence|exact IH].
Qed.
Lemma sfind_sdel_ne i j l : i <> j -> sfind j (sdel i l) = sfind j l.
Proof.
  intros Hij. induction l as [|[k w] l IH]; cbn; [reflexivity|].
  destruct (Nat.eqb_spec k i) as [E|E]; cbn.
  - subst k. destruct (Nat.eqb_spec j i); [congruence|exact IH].
  - destruct (Nat.eqb_spec j k); [reflexivity|exact IH].
Qed.
Lemma nodup_sdel i l : NoDup (map fst l) -> NoDup (map fst (sdel i l)).
Proof.
  induction l as [|[k w] l IH]; cbn; intros H; [constructor|].
  inversion H as [|a b Hn Hd]; subst.
  destruct (Nat.eqb_spec k i); cbn; [apply IH; exact Hd|].
  constructor; [|apply IH; exact Hd].
  intros Hin. apply Hn. unfold sdel in Hin. apply in_map_iff in Hin. destruct Hin as [e [E He]].
  apply filter_In in He. destruct He as [He _]. apply in_map_iff. exists e. auto.
Qed.

(* ---------- connectivity ---------- *)
Lemma conn_mono es es' x y : incl es es' -> conn es x y -> conn es' x y.
Proof.
  intros Hi H. induction H as [x y [s [d [Hin [Hx Hy]]]] | x | x y _ IH | x y z _ IH1 _ IH2].
  - apply rst_step. exists s, d. auto.
  - apply rst_refl.
  - apply rst_sym. exact IH.
  - eapply rst_trans; eassumption.
Qed.
Lemma conn_edge es s d : In (s, d) es -> conn es (inl s) (inr d).
Proof. intros H. apply rst_step. exists s, d. auto. Qed.
Lemma conn_sym es x y : conn es x y -> conn es y x.
Proof. apply rst_sym. Qed.
Lemma conn_trans es x y z : conn es x y -> conn es y z -> conn es x z.
Proof. apply rst_trans. Qed.

Definition verts_dec (v : sets) (x : vert) : {verts v x} + {~ verts v x}.
Proof. destruct x as [s|d]; cbn; apply in_dec; exact Nat.eq_dec. Defined.

(* ---------- Subnets.reset() ---------- *)
Lemma sfind_init i : forall j n, sfind i (init_subs j n) = if (j <=? i) && (i <? j + n) then Some ([], [i]) else None.
Proof.
  intros j n. revert j. induction n as [|n IH]; intros j; cbn [init_subs sfind].
  - destruct (Nat.leb_spec j i), (Nat.ltb_spec i (j + 0)); cbn; try reflexivity; lia.
  - destruct (Nat.eqb_spec i j) as [E|E].
    + subst j. rewrite Nat.leb_refl. destruct (Nat.ltb_spec i (i + S n)); [reflexivity|lia].
    + rewrite IH. destruct (Nat.leb_spec (S j) i), (Nat.leb_spec j i), (Nat.ltb_spec i (S j + n)), (Nat.ltb_spec i (j + S n)); cbn; try reflexivity; lia.
Qed.
Lemma alook_init d : forall j n, alook d (init_dsub j n) = if (j <=? d) && (d <? j + n) then Some d else None.
Proof.
  intros j n. revert j. induction n as [|n IH]; intros j; cbn [init_dsub alook].
  - destruct (Nat.leb_spec j d), (Nat.ltb_spec d (j + 0)); cbn; try reflexivity; lia.
  - destruct (Nat.eqb_spec d j) as [E|E].
    + subst j. rewrite Nat.leb_refl. destruct (Nat.ltb_spec d (d + S n)); [reflexivity|lia].
    + rewrite IH. destruct (Nat.leb_spec (S j) d), (Nat.leb_spec j d), (Nat.ltb_spec d (S j + n)), (Nat.ltb_spec d (j + S n)); cbn; try reflexivity; lia.
Qed.
Lemma init_ids : forall n j, NoDup (map fst (init_subs j n)) /\ forall k, In k (map fst (init_subs j n)) -> j <= k.
Proof.
  induction n as [|n IH]; intros j; cbn; [split; [constructor|intros k []]|].
  destruct (IH (S j)) as [H1 H2]. split.
  - constructor; [|exact H1]. intros H. apply H2 in H. lia.
  - intros k [E|H]; [lia|]. apply H2 in H. lia.
Qed.

Lemma inv_init nd : Inv nd [] (init nd).
Proof.
  constructor; cbn.
  - apply (init_ids nd 0).
  - intros [s|d] i H; cbn in H; [discriminate|]. rewrite alook_init in H.
    destruct ((0 <=? d) && (d <? 0 + nd)) eqn:E; [|discriminate]. inversion H; subst i.
    exists ([], [d]). rewrite sfind_init, E. split; [reflexivity|cbn; auto].
  - intros i v x H Hx. rewrite sfind_init in H.
    destruct ((0 <=? i) && (i <? 0 + nd)) eqn:E; [|discriminate]. inversion H; subst v.
    destruct x as [s|d]; cbn in Hx; [destruct Hx|]. destruct Hx as [Hx|[]]. subst d. cbn.
    rewrite alook_init, E. reflexivity.
  - intros i v x y H Hx Hy. rewrite sfind_init in H.
    destruct ((0 <=? i) && (i <? 0 + nd)); [|discriminate]. inversion H; subst v.
    destruct x as [s|d]; cbn in Hx; [destruct Hx|]. destruct Hx as [Hx|[]].
    destruct y as [s|d']; cbn in Hy; [destruct Hy|]. destruct Hy as [Hy|[]]. subst. apply rst_refl.
  - intros s d [].
  - intros d. rewrite alook_init. destruct (Nat.leb_spec 0 d), (Nat.ltb_spec d (0 + nd)); cbn; split; intros; try lia; congruence.
  - intros s i H. discriminate.
  - intros i v H. rewrite sfind_init in H. destruct ((0 <=? i) && (i <? 0 + nd)); [|discriminate].
    inversion H; subst v. cbn. split; [constructor|constructor; [intros []|constructor]].
  - intros i v H. rewrite sfind_init in H. destruct ((0 <=? i) && (i <? 0 + nd)); [|discriminate].
    inversion H; subst v. cbn. discriminate.
Qed.

(* ---------- one call of assign_subnet ---------- *)
Lemma conn_app es e x y : conn es x y -> conn (es ++ [e]) x y.
Proof. apply conn_mono. apply incl_appl. apply incl_refl. Qed.
Lemma conn_new es s d : conn (es ++ [(s, d)]) (inl s) (inr d).
Proof. apply conn_edge. apply in_or_app. right. left. reflexivity. Qed.

(* the two points already share a subnet: nothing changes *)
Lemma step_same nd es st s d i :
  Inv nd es st -> alook s (ssub st) = Some i -> alook d (dsub st) = Some i ->
  Inv nd (es ++ [(s, d)]) st.
Proof.
  intros I Hs Hd. destruct I. constructor; auto.
  - intros j v x y Hf Hx Hy. apply conn_app. eapply i_conn0; eassumption.
  - intros s0 d0 Hin. apply in_app_or in Hin. destruct Hin as [Hin|[E|[]]]; [auto|].
    inversion E; subst. exists i. auto.
  - intros s0 j H. destruct (i_src0 s0 j H) as [d0 H0]. exists d0. apply in_or_app. auto.
Qed.

(* the source had no subnet: it joins the destination's *)
Lemma step_join nd es st s d i2 s2 d2 :
  Inv nd es st -> alook s (ssub st) = None -> alook d (dsub st) = Some i2 ->
  sfind i2 (subs st) = Some (s2, d2) ->
  Inv nd (es ++ [(s, d)])
      {| subs := sput i2 (s :: s2, d2) (subs st); ssub := aset s i2 (ssub st); dsub := dsub st |}.
Proof.
  intros I Hs Hd Hf. destruct I.
  assert (Hd2 : In d d2).
  { destruct (i_in0 (inr d) i2 Hd) as [v [Hv Hx]]. rewrite Hf in Hv. inversion Hv; subst v. exact Hx. }
  assert (Hns : ~ In s s2).
  { intros H. pose proof (i_sub0 i2 (s2, d2) (inl s) Hf H) as H'. cbn in H'. congruence. }
  assert (Hfind : forall j, sfind j (sput i2 (s :: s2, d2) (subs st)) =
                            if Nat.eqb j i2 then Some (s :: s2, d2) else sfind j (subs st)).
  { intros j. destruct (Nat.eqb_spec j i2) as [E|E].
    - subst j. apply sfind_sput_eq. congruence.
    - apply sfind_sput_ne. auto. }
  assert (Hvs : forall x, vsub {| subs := sput i2 (s :: s2, d2) (subs st); ssub := aset s i2 (ssub st); dsub := dsub st |} x =
                          match x with inl s0 => if Nat.eqb s0 s then Some i2 else alook s0 (ssub st) | inr d0 => alook d0 (dsub st) end).
  { intros [s0|d0]; cbn; reflexivity. }
  assert (Hall : forall x, verts (s :: s2, d2) x -> conn (es ++ [(s, d)]) x (inr d)).
  { intros [s0|d0] Hx; cbn in Hx.
    - destruct Hx as [E|Hx]; [subst s0; apply conn_new|].
      apply conn_app. apply (i_conn0 i2 (s2, d2)); [exact Hf|exact Hx|exact Hd2].
    - apply conn_app. apply (i_conn0 i2 (s2, d2)); [exact Hf|exact Hx|exact Hd2]. }
  constructor; cbn [subs ssub dsub].
  - rewrite map_fst_sput. exact i_ids0.
  - intros x i Hx. rewrite Hvs in Hx. rewrite Hfind.
    destruct x as [s0|d0].
    + destruct (Nat.eqb_spec s0 s) as [E|E].
      * inversion Hx; subst. rewrite Nat.eqb_refl. exists (s :: s2, d2). split; [reflexivity|cbn; auto].
      * destruct (i_in0 (inl s0) i Hx) as [v [Hv Hin]].
        destruct (Nat.eqb_spec i i2) as [E2|E2].
        -- subst i. rewrite Hf in Hv. inversion Hv; subst v. exists (s :: s2, d2). split; [reflexivity|cbn; right; exact Hin].
        -- exists v. auto.
    + destruct (i_in0 (inr d0) i Hx) as [v [Hv Hin]].
      destruct (Nat.eqb_spec i i2) as [E2|E2].
      * subst i. rewrite Hf in Hv. inversion Hv; subst v. exists (s :: s2, d2). split; [reflexivity|exact Hin].
      * exists v. auto.
  - intros i v x Hv Hx. rewrite Hfind in Hv. rewrite Hvs.
    destruct (Nat.eqb_spec i i2) as [E2|E2].
    + subst i. inversion Hv; subst v. destruct x as [s0|d0]; cbn in Hx.
      * destruct (Nat.eqb_spec s0 s) as [E|E]; [reflexivity|].
        destruct Hx as [Hx|Hx]; [congruence|]. apply (i_sub0 i2 (s2, d2) (inl s0) Hf Hx).
      * apply (i_sub0 i2 (s2, d2) (inr d0) Hf Hx).
    + pose proof (i_sub0 i v x Hv Hx) as H. destruct x as [s0|d0]; cbn in H; [|exact H].
      destruct (Nat.eqb_spec s0 s) as [E|E]; [subst s0; congruence|exact H].
  - intros i v x y Hv Hx Hy. rewrite Hfind in Hv.
    destruct (Nat.eqb_spec i i2) as [E2|E2].
    + inversion Hv; subst v. eapply conn_trans; [apply Hall; exact Hx|apply conn_sym; apply Hall; exact Hy].
    + apply conn_app. eapply i_conn0; eassumption.
  - intros s0 d0 Hin. apply in_app_or in Hin. destruct Hin as [Hin|[E|[]]].
    + destruct (i_edge0 s0 d0 Hin) as [i [H1 H2]]. exists i. split; [|exact H2].
      rewrite alook_aset_ne; [exact H1|]. intros E; subst s0; congruence.
    + inversion E; subst. exists i2. split; [apply alook_aset_eq|exact Hd].
  - exact i_dest0.
  - intros s0 i H. destruct (Nat.eq_dec s0 s) as [E|E].
    + subst s0. exists d. apply in_or_app. right. left. reflexivity.
    + rewrite alook_aset_ne in H by exact E. destruct (i_src0 s0 i H) as [d0 H0]. exists d0. apply in_or_app. auto.
  - intros i v Hv. rewrite Hfind in Hv. destruct (Nat.eqb_spec i i2) as [E2|E2]; [|eapply i_nodup0; eassumption].
    inversion Hv; subst v. destruct (i_nodup0 i2 (s2, d2) Hf) as [N1 N2]. cbn in *. split; [constructor; assumption|exact N2].
  - intros i v Hv. rewrite Hfind in Hv. destruct (Nat.eqb_spec i i2) as [E2|E2]; [|eapply i_nonempty0; eassumption].
    inversion Hv; subst v. apply (i_nonempty0 i2 (s2, d2) Hf).
Qed.

(* both points have different subnets: i1 is merged into i2 and deleted *)
Lemma step_merge nd es st s d i1 i2 s1 d1 s2 d2 :
  Inv nd es st -> alook s (ssub st) = Some i1 -> alook d (dsub st) = Some i2 -> i1 <> i2 ->
  sfind i1 (subs st) = Some (s1, d1) -> sfind i2 (subs st) = Some (s2, d2) ->
  Inv nd (es ++ [(s, d)])
      {| subs := sdel i1 (sput i2 (s2 ++ s1, d2 ++ d1) (subs st));
         ssub := aset_all s1 i2 (ssub st); dsub := aset_all d1 i2 (dsub st) |}.
Proof.
  intros I Hs Hd Hne Hf1 Hf2. destruct I.
  set (st' := {| subs := sdel i1 (sput i2 (s2 ++ s1, d2 ++ d1) (subs st));
                 ssub := aset_all s1 i2 (ssub st); dsub := aset_all d1 i2 (dsub st) |}).
  assert (Hs1 : In s s1).
  { destruct (i_in0 (inl s) i1 Hs) as [v [Hv Hx]]. rewrite Hf1 in Hv. inversion Hv; subst v. exact Hx. }
  assert (Hd2 : In d d2).
  { destruct (i_in0 (inr d) i2 Hd) as [v [Hv Hx]]. rewrite Hf2 in Hv. inversion Hv; subst v. exact Hx. }
  assert (Hfind : forall j, sfind j (subs st') =
            if Nat.eqb j i1 then None else if Nat.eqb j i2 then Some (s2 ++ s1, d2 ++ d1) else sfind j (subs st)).
  { intros j. cbn [st' subs]. destruct (Nat.eqb_spec j i1) as [E|E].
    - subst j. apply sfind_sdel_eq.
    - rewrite sfind_sdel_ne by auto. destruct (Nat.eqb_spec j i2) as [E2|E2].
      + subst j. apply sfind_sput_eq. congruence.
      + apply sfind_sput_ne. auto. }
  assert (Hvs : forall x, vsub st' x = if verts_dec (s1, d1) x then Some i2 else vsub st x).
  { intros [s0|d0]; cbn [st' vsub ssub dsub]; destruct (verts_dec (s1, d1) _) as [H|H]; cbn in H.
    - apply alook_aset_all_in. exact H.
    - apply alook_aset_all_out. exact H.
    - apply alook_aset_all_in. exact H.
    - apply alook_aset_all_out. exact H. }
  assert (Hmerged : forall x, verts (s2 ++ s1, d2 ++ d1) x <-> verts (s2, d2) x \/ verts (s1, d1) x).
  { intros [s0|d0]; cbn; rewrite in_app_iff; tauto. }
  assert (Hall : forall x, verts (s2 ++ s1, d2 ++ d1) x -> conn (es ++ [(s, d)]) x (inr d)).
  { intros x Hx. apply Hmerged in Hx. destruct Hx as [Hx|Hx].
    - apply conn_app. apply (i_conn0 i2 (s2, d2)); [exact Hf2|exact Hx|exact Hd2].
    - eapply conn_trans; [|apply conn_new]. apply conn_app.
      apply (i_conn0 i1 (s1, d1)); [exact Hf1|exact Hx|exact Hs1]. }
  constructor.
  - cbn [st' subs]. apply nodup_sdel. rewrite map_fst_sput. exact i_ids0.
  - intros x i Hx. rewrite Hvs in Hx. rewrite Hfind.
    destruct (verts_dec (s1, d1) x) as [H1|H1].
    + inversion Hx; subst i. destruct (Nat.eqb_spec i2 i1); [congruence|]. rewrite Nat.eqb_refl.
      exists (s2 ++ s1, d2 ++ d1). split; [reflexivity|]. apply Hmerged. right. exact H1.
    + destruct (i_in0 x i Hx) as [v [Hv Hin]].
      destruct (Nat.eqb_spec i i1) as [E1|E1].
      * exfalso. subst i. rewrite Hf1 in Hv. inversion Hv; subst v. exact (H1 Hin).
      * destruct (Nat.eqb_spec i i2) as [E2|E2].
        -- subst i. rewrite Hf2 in Hv. inversion Hv; subst v. exists (s2 ++ s1, d2 ++ d1).
           split; [reflexivity|]. apply Hmerged. left. exact Hin.
        -- exists v. auto.
  - intros i v x Hv Hx. rewrite Hfind in Hv. rewrite Hvs.
    destruct (Nat.eqb_spec i i1) as [E1|E1]; [discriminate|].
    destruct (verts_dec (s1, d1) x) as [H1|H1].
    + destruct (Nat.eqb_spec i i2) as [E2|E2]; [subst i; reflexivity|].
      exfalso. pose proof (i_sub0 i v x Hv Hx) as Ha. pose proof (i_sub0 i1 (s1, d1) x Hf1 H1) as Hb. congruence.
    + destruct (Nat.eqb_spec i i2) as [E2|E2].
      * subst i. inversion Hv; subst v. apply Hmerged in Hx. destruct Hx as [Hx|Hx]; [|contradiction].
        apply (i_sub0 i2 (s2, d2) x Hf2 Hx).
      * apply (i_sub0 i v x Hv Hx).
  - intros i v x y Hv Hx Hy. rewrite Hfind in Hv.
    destruct (Nat.eqb_spec i i1) as [E1|E1]; [discriminate|].
    destruct (Nat.eqb_spec i i2) as [E2|E2].
    + inversion Hv; subst v. eapply conn_trans; [apply Hall; exact Hx|apply conn_sym; apply Hall; exact Hy].
    + apply conn_app. eapply i_conn0; eassumption.
  - assert (Hold : forall s0 d0 i, alook s0 (ssub st) = Some i -> alook d0 (dsub st) = Some i ->
                   exists i', alook s0 (ssub st') = Some i' /\ alook d0 (dsub st') = Some i').
    { intros s0 d0 i H1 H2.
      pose proof (Hvs (inl s0)) as Va. pose proof (Hvs (inr d0)) as Vb. cbn [vsub] in Va, Vb.
      destruct (Nat.eq_dec i i1) as [E|E].
      - subst i. exists i2.
        destruct (i_in0 (inl s0) i1 H1) as [v [Hv Hin]]. rewrite Hf1 in Hv. inversion Hv; subst v.
        destruct (i_in0 (inr d0) i1 H2) as [v [Hv' Hin']]. rewrite Hf1 in Hv'. inversion Hv'; subst v.
        destruct (verts_dec (s1, d1) (inl s0)); [|contradiction].
        destruct (verts_dec (s1, d1) (inr d0)); [|contradiction]. auto.
      - exists i.
        destruct (verts_dec (s1, d1) (inl s0)) as [Ha|Ha].
        { exfalso. pose proof (i_sub0 i1 (s1, d1) (inl s0) Hf1 Ha) as Hc. cbn in Hc. congruence. }
        destruct (verts_dec (s1, d1) (inr d0)) as [Hb|Hb].
        { exfalso. pose proof (i_sub0 i1 (s1, d1) (inr d0) Hf1 Hb) as Hc. cbn in Hc. congruence. }
        split; congruence. }
    intros s0 d0 Hin. apply in_app_or in Hin. destruct Hin as [Hin|[E|[]]].
    + destruct (i_edge0 s0 d0 Hin) as [i [H1 H2]]. eapply Hold; eassumption.
    + inversion E; subst s0 d0. exists i2.
      pose proof (Hvs (inl s)) as Va. pose proof (Hvs (inr d)) as Vb. cbn [vsub] in Va, Vb.
      destruct (verts_dec (s1, d1) (inl s)); [|contradiction].
      split; [exact Va|]. destruct (verts_dec (s1, d1) (inr d)); [exact Vb|congruence].
  - intros d0. pose proof (Hvs (inr d0)) as Vb. cbn [vsub] in Vb. rewrite Vb.
    destruct (verts_dec (s1, d1) (inr d0)) as [Hb|Hb]; [|apply i_dest0].
    pose proof (i_sub0 i1 (s1, d1) (inr d0) Hf1 Hb) as Hc. cbn in Hc.
    split; intros _; [apply i_dest0; congruence|discriminate].
  - intros s0 i H. pose proof (Hvs (inl s0)) as Va. cbn [vsub] in Va. rewrite Va in H.
    assert (Hex : exists j, alook s0 (ssub st) = Some j).
    { destruct (verts_dec (s1, d1) (inl s0)) as [Ha|Ha]; [|eauto].
      exists i1. apply (i_sub0 i1 (s1, d1) (inl s0) Hf1 Ha). }
    destruct Hex as [j Hj]. destruct (i_src0 s0 j Hj) as [d0 H0]. exists d0. apply in_or_app. auto.
  - intros i v Hv. rewrite Hfind in Hv.
    destruct (Nat.eqb_spec i i1) as [E1|E1]; [discriminate|].
    destruct (Nat.eqb_spec i i2) as [E2|E2]; [|eapply i_nodup0; eassumption].
    inversion Hv; subst v. cbn [fst snd].
    destruct (i_nodup0 i1 (s1, d1) Hf1) as [A1 A2]. destruct (i_nodup0 i2 (s2, d2) Hf2) as [B1 B2]. cbn [fst snd] in *.
    assert (Hdis : forall x, verts (s2, d2) x -> verts (s1, d1) x -> False).
    { intros x Ha Hb. pose proof (i_sub0 i2 _ x Hf2 Ha). pose proof (i_sub0 i1 _ x Hf1 Hb). congruence. }
    split; apply NoDup_app_intro; auto.
    + intros a Ha Hb. exact (Hdis (inl a) Ha Hb).
    + intros a Ha Hb. exact (Hdis (inr a) Ha Hb).
  - intros i v Hv. rewrite Hfind in Hv.
    destruct (Nat.eqb_spec i i1) as [E1|E1]; [discriminate|].
    destruct (Nat.eqb_spec i i2) as [E2|E2]; [|eapply i_nonempty0; eassumption].
    inversion Hv; subst v. cbn [snd]. pose proof (i_nonempty0 i2 (s2, d2) Hf2) as Hn. cbn in Hn.
    destruct d2; [congruence|discriminate].
Qed.

(* ---------- assign_subnet never raises from a reachable state ---------- *)
Lemma assign_step nd es st s d :
  Inv nd es st -> d < nd ->
  exists st', assign_subnet st (s, d) = Some st' /\ Inv nd (es ++ [(s, d)]) st'.
Proof.
  intros I Hd. pose proof I as I0. destruct I0.
  destruct (alook d (dsub st)) as [i2|] eqn:E2; [|exfalso; apply (i_dest0 d) in Hd; contradiction].
  destruct (i_in0 (inr d) i2 E2) as [[s2 d2] [Hf2 _]].
  unfold assign_subnet. rewrite E2.
  destruct (alook s (ssub st)) as [i1|] eqn:E1.
  - destruct (Nat.eqb_spec i1 i2) as [E|E].
    + subst i2. exists st. split; [reflexivity|]. eapply step_same; eassumption.
    + destruct (i_in0 (inl s) i1 E1) as [[s1 d1] [Hf1 _]]. rewrite Hf1, Hf2.
      eexists. split; [reflexivity|]. eapply step_merge; eassumption.
  - rewrite Hf2. eexists. split; [reflexivity|]. eapply step_join; eassumption.
Qed.

Lemma run_from_spec nd : forall es pre st,
  Inv nd pre st -> (forall s d, In (s, d) es -> d < nd) ->
  exists st', fold_left step_o es (Some st) = Some st' /\ Inv nd (pre ++ es) st'.
Proof.
  induction es as [|[s d] es IH]; intros pre st I Hb; cbn [fold_left].
  - exists st. rewrite app_nil_r. auto.
  - destruct (assign_step nd pre st s d I) as [st1 [H1 I1]]; [apply (Hb s d); left; reflexivity|].
    cbn [step_o]. rewrite H1.
    destruct (IH (pre ++ [(s, d)]) st1 I1) as [st' [H' I']]; [intros s0 d0 H0; apply (Hb s0 d0); right; exact H0|].
    exists st'. split; [exact H'|]. rewrite <- app_assoc in I'. exact I'.
Qed.

Theorem run_edges_spec nd es :
  (forall s d, In (s, d) es -> d < nd) ->
  exists st, run_edges nd es = Some st /\ Inv nd es st.
Proof.
  intros Hb. destruct (run_from_spec nd es [] (init nd) (inv_init nd) Hb) as [st [H I]].
  exists st. split; [exact H|exact I].
Qed.

(* ---------- subnet ids = connected components ---------- *)
Lemma conn_same_id nd es st x y : Inv nd es st -> conn es x y -> vsub st x = vsub st y.
Proof.
  intros I H. induction H as [x y [s [d [Hin [Hx Hy]]]] | x | x y _ IH | x y z _ IH1 _ IH2].
  - subst. destruct (i_edge _ _ _ I s d Hin) as [i [H1 H2]]. cbn. congruence.
  - reflexivity.
  - auto.
  - congruence.
Qed.

Theorem same_subnet_iff_connected nd es st x y i :
  Inv nd es st -> vsub st x = Some i -> (vsub st y = Some i <-> conn es x y).
Proof.
  intros I Hx. split.
  - intros Hy. destruct (i_in _ _ _ I x i Hx) as [v [Hv Hvx]].
    destruct (i_in _ _ _ I y i Hy) as [v' [Hv' Hvy]]. rewrite Hv in Hv'. inversion Hv'; subst v'.
    eapply (i_conn _ _ _ I); eassumption.
  - intros Hc. rewrite <- (conn_same_id nd es st x y I Hc). exact Hx.
Qed.

(* which points are in the dictionary at all *)
Theorem subnet_members nd es st :
  Inv nd es st ->
  (forall d, (exists i, vsub st (inr d) = Some i) <-> d < nd) /\
  (forall s, (exists i, vsub st (inl s) = Some i) <-> exists d, In (s, d) es).
Proof.
  intros I. split.
  - intros d. rewrite <- (i_dest _ _ _ I d). cbn. split.
    + intros [i H]. congruence.
    + intros H. destruct (alook d (dsub st)) as [i|]; [eauto|contradiction].
  - intros s. split.
    + intros [i H]. eapply (i_src _ _ _ I); exact H.
    + intros [d H]. destruct (i_edge _ _ _ I s d H) as [i [H1 _]]. exists i. exact H1.
Qed.

(* every entry of the dictionary is the full class of its id: (sources, dests) with
   that id, without repetition -- so the dictionary is a partition *)
Theorem subnet_entries nd es st i v :
  Inv nd es st -> sfind i (subs st) = Some v ->
  (forall x, verts v x <-> vsub st x = Some i) /\ NoDup (fst v) /\ NoDup (snd v) /\ snd v <> [].
Proof.
  intros I Hv. split; [|split; [apply (i_nodup _ _ _ I i v Hv)|split; [apply (i_nodup _ _ _ I i v Hv)|apply (i_nonempty _ _ _ I i v Hv)]]].
  intros x. split.
  - apply (i_sub _ _ _ I); exact Hv.
  - intros Hx. destruct (i_in _ _ _ I x i Hx) as [v' [Hv' Hin]]. rewrite Hv in Hv'. inversion Hv'; subst v'. exact Hin.
Qed.

(* ---------- the code's subnets are the groups of Link.components ---------- *)
(* [es] lists exactly the (source, destination-within-range) pairs of the items *)
Definition edges_of (items : list item) (es : list (nat * nat)) : Prop :=
  forall s d, In (s, d) es <-> exists c, In (s, c) items /\ In d (reals c).

Definition vin (g : group) (x : vert) : Prop :=
  match x with inl s => exists c, In (s, c) g | inr d => In d (gdests g) end.

Lemma comps_incl items g x : In g (components items) -> In x g -> In x items.
Proof.
  intros Hg Hx. destruct (components_spec items) as [_ Hp].
  eapply Permutation_in; [exact Hp|]. apply in_concat. exists g. auto.
Qed.
Lemma comps_cover items x : In x items -> exists g, In g (components items) /\ In x g.
Proof.
  intros Hx. destruct (components_spec items) as [_ Hp].
  apply (Permutation_in _ (Permutation_sym Hp)) in Hx. apply in_concat in Hx. exact Hx.
Qed.
Lemma nodup_fst_eq (items : list item) s c c' :
  NoDup (map fst items) -> In (s, c) items -> In (s, c') items -> c = c'.
Proof.
  induction items as [|[s0 c0] items IH]; cbn; intros Hn H1 H2; [destruct H1|].
  inversion Hn as [|a b Hni Hn']; subst.
  destruct H1 as [H1|H1], H2 as [H2|H2].
  - congruence.
  - inversion H1; subst. exfalso. apply Hni. apply in_map_iff. exists (s, c'). auto.
  - inversion H2; subst. exfalso. apply Hni. apply in_map_iff. exists (s, c). auto.
  - apply IH; assumption.
Qed.
Lemma in_gdests g (y : item) k : In y g -> In k (reals (snd y)) -> In k (gdests g).
Proof. intros Hy Hk. unfold gdests. apply in_flat_map. exists y. auto. Qed.

Lemma vin_edge items es g x y :
  NoDup (map fst items) -> edges_of items es -> In g (components items) ->
  edge_rel es x y -> (vin g x <-> vin g y).
Proof.
  intros Hn He Hg [s [d [Hin [Hx Hy]]]]. subst x y. cbn.
  apply He in Hin. destruct Hin as [c [Hc Hd]].
  split.
  - intros [c' Hc']. assert (c' = c) by (eapply nodup_fst_eq; [exact Hn|eapply comps_incl; eassumption|exact Hc]).
    subst c'. apply (in_gdests g (s, c) d Hc' Hd).
  - intros Hgd. destruct (comps_cover items (s, c) Hc) as [g' [Hg' Hsc]].
    destruct (components_spec items) as [Hpw _].
    destruct (pw_disj_In _ g g' Hpw Hg Hg') as [E|Hdis].
    + subst g'. exists c. exact Hsc.
    + exfalso. apply (Hdis d Hgd). apply (in_gdests g' (s, c) d Hsc Hd).
Qed.
Lemma vin_conn items es g x y :
  NoDup (map fst items) -> edges_of items es -> In g (components items) ->
  conn es x y -> (vin g x <-> vin g y).
Proof.
  intros Hn He Hg H. induction H as [x y Hr | x | x y _ IH | x y z _ IH1 _ IH2].
  - eapply vin_edge; eassumption.
  - tauto.
  - tauto.
  - tauto.
Qed.

Lemma chain_conn items es g x y :
  edges_of items es -> In g (components items) -> chain g x y -> conn es (inl (fst x)) (inl (fst y)).
Proof.
  intros He Hg H. induction H as [x Hx | x y z Hx Hy [k [Hk1 Hk2]] _ IH].
  - apply rst_refl.
  - eapply conn_trans; [|exact IH].
    assert (E1 : In (fst x, k) es).
    { apply He. exists (snd x). split; [|exact Hk1]. rewrite <- surjective_pairing. eapply comps_incl; eassumption. }
    assert (E2 : In (fst y, k) es).
    { apply He. exists (snd y). split; [|exact Hk2]. rewrite <- surjective_pairing. eapply comps_incl; eassumption. }
    eapply conn_trans; [apply conn_edge; exact E1|apply conn_sym; apply conn_edge; exact E2].
Qed.

Lemma has_edge_id nd items es st (x : item) :
  edges_of items es -> Inv nd es st -> In x items -> reals (snd x) <> [] ->
  exists i, vsub st (inl (fst x)) = Some i.
Proof.
  intros He I Hx Hr. destruct (reals (snd x)) as [|k r] eqn:E; [congruence|].
  assert (Hin : In (fst x, k) es).
  { apply He. exists (snd x). split; [rewrite <- surjective_pairing; exact Hx|rewrite E; left; reflexivity]. }
  destruct (i_edge _ _ _ I _ _ Hin) as [i [H1 _]]. exists i. exact H1.
Qed.

Theorem subnets_match_components nd items es st :
  NoDup (map fst items) -> edges_of items es -> Inv nd es st ->
  (* sources with at least one candidate: same group  <->  same subnet id *)
  (forall x y, In x items -> In y items -> reals (snd x) <> [] -> reals (snd y) <> [] ->
     ((exists g, In g (components items) /\ In x g /\ In y g) <->
      vsub st (inl (fst x)) = vsub st (inl (fst y)))) /\
  (* and the destinations of that group are the destinations carrying that id *)
  (forall g x, In g (components items) -> In x g -> reals (snd x) <> [] ->
     forall d, In d (gdests g) <-> vsub st (inr d) = vsub st (inl (fst x))).
Proof.
  intros Hn He I.
  assert (Hsrc : forall x y, In x items -> In y items -> reals (snd x) <> [] -> reals (snd y) <> [] ->
     ((exists g, In g (components items) /\ In x g /\ In y g) <->
      vsub st (inl (fst x)) = vsub st (inl (fst y)))).
  { intros x y Hx Hy Hrx Hry. split.
    - intros [g [Hg [Hxg Hyg]]].
      pose proof (components_connected items) as Hc. rewrite Forall_forall in Hc.
      eapply conn_same_id; [exact I|]. eapply chain_conn; [exact He|exact Hg|]. apply (Hc g Hg x y Hxg Hyg).
    - intros Heq. destruct (has_edge_id nd items es st x He I Hx Hrx) as [i Hi].
      assert (Hc : conn es (inl (fst x)) (inl (fst y))).
      { apply (same_subnet_iff_connected nd es st _ _ i I Hi). congruence. }
      destruct (comps_cover items x Hx) as [g [Hg Hxg]]. exists g. split; [exact Hg|split; [exact Hxg|]].
      assert (Hv : vin g (inl (fst y))).
      { apply (vin_conn items es g _ _ Hn He Hg Hc). cbn. exists (snd x). rewrite <- surjective_pairing. exact Hxg. }
      cbn in Hv. destruct Hv as [c Hc'].
      assert (c = snd y).
      { eapply nodup_fst_eq; [exact Hn|eapply comps_incl; eassumption|rewrite <- surjective_pairing; exact Hy]. }
      subst c. rewrite <- surjective_pairing in Hc'. exact Hc'. }
  split; [exact Hsrc|].
  intros g x Hg Hxg Hrx d.
  assert (Hx : In x items) by (eapply comps_incl; eassumption).
  destruct (has_edge_id nd items es st x He I Hx Hrx) as [i Hi].
  split.
  - intros Hd. apply gdests_in in Hd. destruct Hd as [y [Hyg Hk]].
    assert (Hy : In y items) by (eapply comps_incl; eassumption).
    assert (Hry : reals (snd y) <> []) by (intros E; rewrite E in Hk; destruct Hk).
    assert (Hin : In (fst y, d) es).
    { apply He. exists (snd y). split; [rewrite <- surjective_pairing; exact Hy|exact Hk]. }
    destruct (i_edge _ _ _ I _ _ Hin) as [j [H1 H2]].
    cbn [vsub]. rewrite H2, <- H1.
    symmetry. apply (proj1 (Hsrc x y Hx Hy Hrx Hry)). exists g. auto.
  - intros Heq.
    assert (Hc : conn es (inl (fst x)) (inr d)).
    { apply (same_subnet_iff_connected nd es st _ _ i I Hi). congruence. }
    apply (vin_conn items es g _ _ Hn He Hg Hc). cbn. exists (snd x). rewrite <- surjective_pairing. exact Hxg.
Qed.
