(* Proofs about Model/RefineDriver2.v (the recentring loop of refine_leastsq with
   per-unit, per-iteration oracles):
   - it refines to Model/RefineDriver.v when the oracles ignore their indices;
   - the loop is characterised exactly by its trace (which iterations ran, break
     or exhaustion), so the functional model is the Python control flow;
   - table level, for an ARBITRARY per-unit function: failure isolation and
     totality (the call returns unless some unit's try block lets a
     non-RefineException escape);
   - per unit, for arbitrary oracles: no exception escapes when the box is
     non-empty and max_iter > 0; a fitted unit has cost <= max_rms_dev, after a
     break as well as after exhaustion of max_iter; under the contract "a
     successful SLSQP result lies in the box" it lies within all bounds;
   - driver_full: all of it in one statement about the returned table. *)
From Coq Require Import QArith List Bool Arith Lia.
From TP Require Import Model.RefineBounds Model.RefineDriver Model.RefineDriver2
                       Proofs.RefineBounds Proofs.RefineDriver.
Import ListNotations.
Open Scope Q_scope.

(* ---- 1. refinement to the index-free model ---------------------------------------- *)
Section Refines.
  Variable ii : list (list Q) -> bool.
  Variable op : list ext -> list ext -> list Q -> list (list Q) -> list (list Q) -> ores.
  Variable ps : list pkind.
  Variable modes : list nat.
  Variable ndim : nat.
  Variable bd : bdict.
  Variable radius : list Q.
  Variable max_iter : nat.
  Variable max_shift max_rms_dev : Q.

  Definition lres_of (r : lres2) : loopres :=
    match r with
    | L2Exc _ => LFail
    | L2Err _ => LRaise
    | L2End s _ _ => LDone (l_params s) (l_rms s)
    end.

  Lemma for_loop_refines : forall fuel u n g lo hi vect s,
    lres_of (for_loop (fun _ _ => ii) (fun _ _ => op) modes ndim max_shift u n fuel g lo hi vect s) =
    loop ii op modes ndim max_shift fuel g lo hi vect (l_params s) (l_coords s) (l_rms s).
  Proof.
    induction fuel; intros u n g lo hi vect s; cbn [for_loop loop]; [reflexivity|].
    unfold body. destruct (negb (ii (l_coords s))); [reflexivity|].
    destruct (box_empty lo hi); [reflexivity|].
    destruct (op lo hi vect (l_params s) (l_coords s)) as [|x r]; [reflexivity|].
    destruct (all_small _ _ _); [reflexivity|]. rewrite IHfuel. reflexivity.
  Qed.

  Theorem fit2_refines : forall u g pe,
    fit2 (fun _ _ => ii) (fun _ _ => op) ps modes ndim bd radius max_iter max_shift max_rms_dev u g pe =
    fit ii op ps modes ndim bd radius max_iter max_shift max_rms_dev g pe.
  Proof.
    intros u g pe. unfold fit2, fit, run_loop. destruct (all_fin2 pe) as [p|]; [|reflexivity].
    rewrite <- (for_loop_refines max_iter u 0%nat g _ _ _ (start_state ndim p)).
    destruct (for_loop _ _ _ _ _ _ _ _ _ _ _ _ _) as [m|m|s b m]; cbn [lres_of]; reflexivity.
  Qed.

  Theorem run2_refines : forall us t,
    run2 (fun _ _ => ii) (fun _ _ => op) ps modes ndim bd radius max_iter max_shift max_rms_dev t us =
    run ii op ps modes ndim bd radius max_iter max_shift max_rms_dev t us.
  Proof.
    unfold run2. generalize 0%nat. intros k us. revert k.
    induction us as [|u us IH]; intros k t; cbn [rung run]; [reflexivity|].
    unfold stepg, step, rows_of. rewrite fit2_refines.
    destruct (fit _ _ _ _ _ _ _ _ _ _ _ _) as [|p r|]; try reflexivity; apply IH.
  Qed.
End Refines.

(* ---- 2. the loop over units, for an arbitrary per-unit function ---------------------- *)
Section TableProofs.
  Variable fitk : nat -> grouping -> list (list ext) -> outcome.

  Lemma stepg_frame : forall k t u t', stepg fitk k t u = Some t' ->
    length (pcols t') = length (pcols t) /\ length (cost t') = length (cost t) /\
    (forall i, ~ In i (fst u) -> same_row t t' i) /\
    (forall j, length (nth j (pcols t') []) = length (nth j (pcols t) [])).
  Proof.
    intros k t u t' H. unfold stepg in H.
    destruct (fitk k (snd u) (rows_of t u)) as [|p r|]; inversion H; subst; clear H; cbn [pcols cost].
    - split; auto. split; [apply scatter_length|]. split; auto. intros i N. split; cbn [pcols cost]; auto.
      intros d. apply scatter_other; auto.
    - split; [apply write_cols_length|]. split; [apply scatter_length|]. split.
      + intros i N. split; cbn [pcols cost].
        * intros j d. apply write_cols_other; auto.
        * intros d. apply scatter_other; auto.
      + intro j. apply write_cols_col_length.
  Qed.

  Lemma rung_frame : forall us k t t', rung fitk k t us = Some t' ->
    length (pcols t') = length (pcols t) /\ length (cost t') = length (cost t) /\
    forall i, (forall u, In u us -> ~ In i (fst u)) -> same_row t t' i.
  Proof.
    induction us as [|u us IH]; intros k t t' H; cbn [rung] in H.
    - inversion H; subst. repeat split; auto.
    - destruct (stepg fitk k t u) as [t1|] eqn:S; [|discriminate].
      apply stepg_frame in S. destruct S as (L1 & C1 & F1 & _).
      apply IH in H. destruct H as (L2 & C2 & F2).
      split; [congruence|]. split; [congruence|].
      intros i N. destruct (F1 i) as (A1 & B1); [apply N; simpl; auto|].
      destruct (F2 i) as (A2 & B2); [intros v Hv; apply N; simpl; auto|].
      split; intros; [rewrite A2, A1 | rewrite B2, B1]; reflexivity.
  Qed.

  Lemma stepg_result : forall k t u t', stepg fitk k t u = Some t' ->
    unit_result t t' u (fitk k (snd u) (rows_of t u)).
  Proof.
    intros k t u t' H. unfold stepg in H.
    destruct (fitk k (snd u) (rows_of t u)) as [|p r|]; inversion H; subst; clear H; cbn [unit_result pcols cost].
    - intros i Hi. split; auto. intros Hr. apply scatter_repeat_hit; auto.
    - split.
      + intros i Hi Hr. apply scatter_repeat_hit; auto.
      + intros k0 j ND Hk Hj Hc Hl Hr. rewrite write_cols_nth by auto.
        rewrite scatter_hit; auto.
        * rewrite nth_indep with (d' := Fin 0) by (rewrite map_length; auto).
          apply (map_nth Fin).
        * rewrite map_length. auto.
  Qed.

  (* the rows a later, disjoint unit reads are not changed by a step *)
  Lemma rows_of_stepg : forall k t u t' v, stepg fitk k t u = Some t' ->
    (forall i, In i (fst u) -> ~ In i (fst v)) -> rows_of t' v = rows_of t v.
  Proof.
    intros k t u t' v S D. apply stepg_frame in S. destruct S as (L & _ & F & _).
    unfold rows_of. apply select_frame; [exact L|].
    intros i Hi j d. destruct (F i) as (A & _); [intro Hu; exact (D i Hu Hi)|]. apply A.
  Qed.

  Theorem rung_isolated : forall us k t0 t,
    disjoint_units us -> rung fitk k t0 us = Some t ->
    forall i u, nth_error us i = Some u ->
      unit_result t0 t u (fitk (k + i)%nat (snd u) (rows_of t0 u)).
  Proof.
    induction us as [|u us IH]; intros k t0 t D H i v Hv; [destruct i; discriminate|].
    cbn [rung] in H. destruct (stepg fitk k t0 u) as [t1|] eqn:St; [|discriminate].
    inversion D as [|? ? Du Dus]; subst. rewrite Forall_forall in Du.
    pose proof (stepg_frame _ _ _ _ St) as (L1 & C1 & F1 & CL1).
    pose proof (rung_frame _ _ _ _ H) as (L2 & C2 & F2).
    destruct i as [|i]; cbn [nth_error] in Hv.
    - inversion Hv; subst v. rewrite Nat.add_0_r.
      apply unit_result_frame with (t1 := t1); [apply stepg_result; auto | auto |].
      intros j Hj. apply F2. intros w Hw Hjw. exact (Du w Hw j Hj Hjw).
    - assert (Hin : In v us) by (eapply nth_error_In; eauto).
      specialize (IH (S k) t1 t Dus H i v Hv).
      rewrite (rows_of_stepg _ _ _ _ v St) in IH by (intros j Hj; exact (Du v Hin j Hj)).
      replace (k + S i)%nat with (S k + i)%nat by lia.
      assert (Same : forall j, In j (fst v) -> same_row t0 t1 j).
      { intros j Hj. apply F1. intro Hu. exact (Du v Hin j Hu Hj). }
      destruct (fitk (S k + i)%nat (snd v) (rows_of t0 v)) as [|p r|]; cbn [unit_result] in *; auto.
      + intros j Hj. destruct (IH j Hj) as (A & B). destruct (Same j Hj) as (A' & _).
        split; intros; [rewrite A; apply A' | apply B; lia].
      + destruct IH as (H1 & H2). split.
        * intros j Hj Hr. apply H1; auto. lia.
        * intros k0 j ND Hk Hj Hc Hl Hr. apply H2; auto; try lia.
          rewrite CL1. auto.
  Qed.

  (* the call returns unless the try block of some unit, evaluated on that unit's
     rows of the INPUT table, lets an exception through *)
  Theorem rung_total : forall us k t0,
    disjoint_units us ->
    (forall i u, nth_error us i = Some u -> fitk (k + i)%nat (snd u) (rows_of t0 u) <> Raised) ->
    exists t, rung fitk k t0 us = Some t.
  Proof.
    induction us as [|u us IH]; intros k t0 D NR; cbn [rung]; [eauto|].
    inversion D as [|? ? Du Dus]; subst. rewrite Forall_forall in Du.
    destruct (stepg fitk k t0 u) as [t1|] eqn:St.
    - apply IH; auto. intros i v Hv.
      assert (Hin : In v us) by (eapply nth_error_In; eauto).
      rewrite (rows_of_stepg _ _ _ _ v St) by (intros j Hj; exact (Du v Hin j Hj)).
      replace (S k + i)%nat with (k + S i)%nat by lia. apply NR. exact Hv.
    - exfalso. specialize (NR 0%nat u eq_refl). rewrite Nat.add_0_r in NR.
      unfold stepg in St. destruct (fitk k (snd u) (rows_of t0 u)); try discriminate. apply NR; reflexivity.
  Qed.
End TableProofs.

(* ---- 3. one unit, arbitrary oracles --------------------------------------------------- *)
Lemma Qlt_b_false : forall x y, Qlt_b x y = false -> y <= x.
Proof. intros x y H. unfold Qlt_b in H. apply negb_false_iff in H. apply Qle_bool_iff. exact H. Qed.

Section Unit.
  Variable in_image : nat -> nat -> list (list Q) -> bool.
  Variable opt : nat -> nat -> list ext -> list ext -> list Q -> list (list Q) -> list (list Q) -> ores.
  Variable ps : list pkind.
  Variable modes : list nat.
  Variable ndim : nat.
  Variable bd : bdict.
  Variable radius : list Q.
  Variable max_iter : nat.
  Variable max_shift max_rms_dev : Q.

  Local Notation body := (body in_image opt modes ndim max_shift).
  Local Notation for_loop := (for_loop in_image opt modes ndim max_shift).
  Local Notation fit2 := (fit2 in_image opt ps modes ndim bd radius max_iter max_shift max_rms_dev).
  Local Notation bs := (validate_bounds bd radius ps).

  (* what a pass through the body that did not raise has done *)
  Definition passed (u n : nat) (g : grouping) (lo hi : list ext) (vect : list Q) (s s' : lstate) (brk : bool) : Prop :=
    in_image u n (l_coords s) = true /\ box_empty lo hi = false /\
    exists x r, opt u n lo hi vect (l_params s) (l_coords s) = OSucc x r /\
      let p := unpack modes g x (l_params s) in
      all_small (coords_of ndim p) (l_coords s) max_shift = brk /\
      s' = {| l_params := p; l_coords := if brk then l_coords s else coords_of ndim p; l_rms := Some r |}.

  Lemma body_break : forall u n g lo hi vect s s',
    body u n g lo hi vect s = BBreak s' <-> passed u n g lo hi vect s s' true.
  Proof.
    intros u n g lo hi vect s s'. unfold RefineDriver2.body, passed.
    destruct (in_image u n (l_coords s)); cbn [negb].
    2:{ split; [discriminate | intros (H & _); discriminate]. }
    destruct (box_empty lo hi).
    { split; [discriminate | intros (_ & H & _); discriminate]. }
    destruct (opt u n lo hi vect (l_params s) (l_coords s)) as [|x r].
    { split; [discriminate | intros (_ & _ & x & r & H & _); discriminate]. }
    cbv zeta. destruct (all_small _ _ _) eqn:A; split.
    - intro H. inversion H; subst. repeat split; auto. exists x, r. repeat split; auto.
    - intros (_ & _ & x' & r' & E & _ & ->). inversion E; subst. reflexivity.
    - discriminate.
    - intros (_ & _ & x' & r' & E & B & _). inversion E; subst. congruence.
  Qed.

  Lemma body_next : forall u n g lo hi vect s s',
    body u n g lo hi vect s = BNext s' <-> passed u n g lo hi vect s s' false.
  Proof.
    intros u n g lo hi vect s s'. unfold RefineDriver2.body, passed.
    destruct (in_image u n (l_coords s)); cbn [negb].
    2:{ split; [discriminate | intros (H & _); discriminate]. }
    destruct (box_empty lo hi).
    { split; [discriminate | intros (_ & H & _); discriminate]. }
    destruct (opt u n lo hi vect (l_params s) (l_coords s)) as [|x r].
    { split; [discriminate | intros (_ & _ & x & r & H & _); discriminate]. }
    cbv zeta. destruct (all_small _ _ _) eqn:A; split.
    - discriminate.
    - intros (_ & _ & x' & r' & E & B & _). inversion E; subst. congruence.
    - intro H. inversion H; subst. repeat split; auto. exists x, r. repeat split; auto.
    - intros (_ & _ & x' & r' & E & _ & ->). inversion E; subst. reflexivity.
  Qed.

  (* iterations n, ..., m-1 all went through `coords = new_coords` *)
  Inductive steps (u : nat) (g : grouping) (lo hi : list ext) (vect : list Q) : nat -> lstate -> nat -> lstate -> Prop :=
  | steps_nil : forall n s, steps u g lo hi vect n s n s
  | steps_cons : forall n s s1 m s2,
      passed u n g lo hi vect s s1 false -> steps u g lo hi vect (S n) s1 m s2 -> steps u g lo hi vect n s m s2.

  Lemma steps_le : forall u g lo hi vect n s m s', steps u g lo hi vect n s m s' -> (n <= m)%nat.
  Proof. induction 1; lia. Qed.

  (* the for statement ends by `break` in iteration m exactly when iterations
     n..m-1 went through, m is within range(max_iter), and iteration m reached
     the break *)
  Theorem for_loop_break_iff : forall fuel u n g lo hi vect s s' m,
    for_loop u n fuel g lo hi vect s = L2End s' true (S m) <->
    (m < n + fuel)%nat /\ exists s1, steps u g lo hi vect n s m s1 /\ passed u m g lo hi vect s1 s' true.
  Proof.
    induction fuel; intros u n g lo hi vect s s' m; cbn [RefineDriver2.for_loop].
    - split; [discriminate|]. intros (L & s1 & St & _). apply steps_le in St. lia.
    - destruct (body u n g lo hi vect s) as [| |sb|sn] eqn:B.
      + split; [discriminate|]. intros (L & s1 & St & P).
        inversion St; subst.
        * apply body_break in P. congruence.
        * apply body_next in H. congruence.
      + split; [discriminate|]. intros (L & s1 & St & P).
        inversion St; subst.
        * apply body_break in P. congruence.
        * apply body_next in H. congruence.
      + split.
        * intro H. inversion H; subst. split; [lia|]. exists s. split; [constructor|]. apply body_break. exact B.
        * intros (L & s1 & St & P). inversion St; subst.
          -- apply body_break in P. congruence.
          -- apply body_next in H. congruence.
      + rewrite IHfuel. split.
        * intros (L & s1 & St & P). split; [lia|]. exists s1. split; auto.
          econstructor; eauto. apply body_next. exact B.
        * intros (L & s1 & St & P). inversion St; subst.
          -- apply body_break in P. congruence.
          -- apply body_next in H. rewrite H in B. inversion B; subst. split; [lia|]. exists s1. auto.
  Qed.

  (* ... and ends by exhaustion of range(max_iter), WITHOUT a break, exactly when
     all iterations went through; the state is that of the last iteration *)
  Theorem for_loop_exhaust_iff : forall fuel u n g lo hi vect s s' m,
    for_loop u n fuel g lo hi vect s = L2End s' false m <->
    m = (n + fuel)%nat /\ steps u g lo hi vect n s m s'.
  Proof.
    induction fuel; intros u n g lo hi vect s s' m; cbn [RefineDriver2.for_loop].
    - split.
      + intro H. inversion H; subst. split; [lia|constructor].
      + intros (E & St). rewrite Nat.add_0_r in E. subst m. inversion St; subst; [reflexivity|].
        apply steps_le in H0. lia.
    - destruct (body u n g lo hi vect s) as [| |sb|sn] eqn:B.
      + split; [discriminate|]. intros (-> & St). inversion St; subst; [lia|]. apply body_next in H. congruence.
      + split; [discriminate|]. intros (-> & St). inversion St; subst; [lia|]. apply body_next in H. congruence.
      + split; [discriminate|]. intros (-> & St). inversion St; subst; [lia|]. apply body_next in H. congruence.
      + rewrite IHfuel. split.
        * intros (-> & St). split; [lia|]. econstructor; eauto. apply body_next. exact B.
        * intros (-> & St). inversion St; subst; [lia|]. apply body_next in H. rewrite H in B. inversion B; subst.
          split; [lia|auto].
  Qed.

  (* no ValueError with a non-empty box *)
  Lemma for_loop_no_err : forall fuel u n g lo hi vect s m,
    box_empty lo hi = false -> for_loop u n fuel g lo hi vect s <> L2Err m.
  Proof.
    induction fuel; intros u n g lo hi vect s m E; cbn [RefineDriver2.for_loop]; [discriminate|].
    unfold RefineDriver2.body. destruct (negb _); [discriminate|]. rewrite E.
    destruct (opt _ _ _ _ _ _ _); [discriminate|]. cbv zeta.
    destruct (all_small _ _ _); [discriminate|]. apply IHfuel; auto.
  Qed.

  (* rms_dev is bound after the loop as soon as one iteration ran *)
  Lemma for_loop_rms : forall fuel u n g lo hi vect s s' b m,
    (0 < fuel)%nat \/ l_rms s <> None ->
    for_loop u n fuel g lo hi vect s = L2End s' b m -> l_rms s' <> None.
  Proof.
    induction fuel; intros u n g lo hi vect s s' b m H L; cbn [RefineDriver2.for_loop] in L.
    - inversion L; subst. destruct H; [lia|auto].
    - destruct (body u n g lo hi vect s) as [| |sb|sn] eqn:B; try discriminate.
      + inversion L; subst. apply body_break in B. destruct B as (_ & _ & x & r & _ & _ & ->). discriminate.
      + apply body_next in B. destruct B as (_ & _ & x & r & _ & _ & ->).
        eapply IHfuel; [|exact L]. right. discriminate.
  Qed.

  Lemma for_loop_count : forall fuel u n g lo hi vect s s' b m,
    for_loop u n fuel g lo hi vect s = L2End s' b m ->
    (if b then (n < m)%nat else m = (n + fuel)%nat) /\ (m <= n + fuel)%nat.
  Proof.
    induction fuel; intros u n g lo hi vect s s' b m L; cbn [RefineDriver2.for_loop] in L.
    - inversion L; subst. split; lia.
    - destruct (body u n g lo hi vect s); try discriminate.
      + inversion L; subst. split; lia.
      + apply IHfuel in L. destruct L as (A & B). split; [destruct b; lia | lia].
  Qed.

  (* --- never raises because of a failed fit --- *)
  Theorem fit2_no_raise : forall u g params_e,
    (0 < max_iter)%nat ->
    (forall params0, all_fin2 params_e = Some params0 ->
       box_empty (box_low bs modes g params0) (box_high bs modes g params0) = false) ->
    fit2 u g params_e <> Raised.
  Proof.
    intros u g pe Hm Hb. unfold RefineDriver2.fit2, run_loop.
    destruct (all_fin2 pe) as [p0|] eqn:F; [|discriminate]. specialize (Hb p0 eq_refl).
    destruct (RefineDriver2.for_loop _ _ _ _ _ _ _ _ _ _ _ _ _) as [m|m|s b m] eqn:L; [discriminate| |].
    - exfalso. eapply for_loop_no_err; eauto.
    - apply for_loop_rms in L; [|left; exact Hm]. unfold after_loop.
      destruct (l_rms s); [|congruence]. destruct (Qlt_b max_rms_dev q); discriminate.
  Qed.

  (* --- a unit reported as success has cost <= max_rms_dev: the test sits after
         the loop, so it also covers the exhaustion of max_iter --- *)
  Theorem fit2_cost : forall u g params_e p r, fit2 u g params_e = Fitted p r -> r <= max_rms_dev.
  Proof.
    intros u g pe p r H. unfold RefineDriver2.fit2 in H.
    destruct (all_fin2 pe); [|discriminate]. destruct (run_loop _ _ _ _ _ _ _ _ _ _ _ _) as [m|m|s b m]; try discriminate.
    unfold after_loop in H. destruct (l_rms s) as [r'|]; [|discriminate].
    destruct (Qlt_b max_rms_dev r') eqn:E; [discriminate|]. inversion H; subst. apply Qlt_b_false. exact E.
  Qed.

  (* every way in which the fit of a unit fails inside the model is the Failed
     outcome; listed to make "failed fit" concrete.  A fitted unit went through
     at least one iteration and ended by break or by exhaustion. *)
  Theorem fit2_fitted_inv : forall u g params_e p r,
    fit2 u g params_e = Fitted p r ->
    exists params0 s b m,
      all_fin2 params_e = Some params0 /\
      run_loop in_image opt ps modes ndim bd radius max_iter max_shift u g params0 = L2End s b m /\
      (1 <= m <= max_iter)%nat /\ (b = false -> m = max_iter) /\
      l_params s = p /\ l_rms s = Some r /\ r <= max_rms_dev.
  Proof.
    intros u g pe p r H. pose proof (fit2_cost _ _ _ _ _ H) as C. unfold RefineDriver2.fit2 in H.
    destruct (all_fin2 pe) as [p0|]; [|discriminate].
    destruct (run_loop _ _ _ _ _ _ _ _ _ _ _ _) as [m|m|s b m] eqn:L; try discriminate.
    unfold after_loop in H. destruct (l_rms s) as [r'|] eqn:R; [|discriminate].
    destruct (Qlt_b max_rms_dev r'); [discriminate|]. inversion H; subst.
    unfold run_loop in L. pose proof (for_loop_count _ _ _ _ _ _ _ _ _ _ _ L) as (Cn & Le).
    exists p0, s, b, m. split; [reflexivity|]. split; [exact L|].
    assert (M1 : (1 <= m)%nat).
    { destruct b; [lia|]. destruct max_iter; [|lia]. cbn in L. inversion L; subst. discriminate. }
    split; [lia|]. split; [intros ->; lia|]. auto.
  Qed.

  (* --- success within all bounds, under the only assumption on SLSQP --- *)
  Definition opt_in_box2 : Prop := forall u n lo hi v pc co x r,
    opt u n lo hi v pc co = OSucc x r -> Forall2 sat_low lo x /\ Forall2 sat_high hi x.

  Section Success.
    Hypothesis contract : opt_in_box2.
    Variable g : grouping.
    Variable params0 : list (list Q).
    Hypothesis Lmodes : length modes = length params0.
    Hypothesis Lps : length ps = length params0.
    Local Notation Good := (Good ps modes bd radius g params0).
    Local Notation Pre := (Pre modes params0).

    Lemma for_loop_good : forall fuel u n s s' b m,
      Pre (l_params s) -> (l_rms s = None \/ Good (l_params s)) ->
      for_loop u n fuel g (box_low bs modes g params0) (box_high bs modes g params0)
               (pack 0 qmean modes g params0) s = L2End s' b m ->
      l_rms s' <> None -> Good (l_params s').
    Proof.
      induction fuel; intros u n s s' b m HP HG L R; cbn [RefineDriver2.for_loop] in L.
      - inversion L; subst. destruct HG; [congruence|auto].
      - destruct (body u n g _ _ _ s) as [| |sb|sn] eqn:B; try discriminate.
        + inversion L; subst. apply body_break in B. destruct B as (_ & _ & x & r & O & _ & ->).
          apply contract in O. destruct O as (Hlo & Hhi).
          destruct (unpack_step ps modes bd radius g params0 Lmodes Lps _ x HP Hlo Hhi) as (G' & _). exact G'.
        + apply body_next in B. destruct B as (_ & _ & x & r & O & _ & ->).
          apply contract in O. destruct O as (Hlo & Hhi).
          destruct (unpack_step ps modes bd radius g params0 Lmodes Lps _ x HP Hlo Hhi) as (G' & P').
          eapply IHfuel; [| |exact L|exact R]; cbn [l_params l_rms]; auto.
    Qed.

    Theorem fit2_success_good : forall u params_e p r,
      all_fin2 params_e = Some params0 -> fit2 u g params_e = Fitted p r -> Good p.
    Proof.
      intros u pe p r F H. unfold RefineDriver2.fit2 in H. rewrite F in H.
      destruct (run_loop _ _ _ _ _ _ _ _ _ _ _ _) as [m|m|s b m] eqn:L; try discriminate.
      unfold after_loop in H. destruct (l_rms s) as [r'|] eqn:R; [|discriminate].
      destruct (Qlt_b max_rms_dev r'); [discriminate|]. inversion H; subst.
      unfold run_loop in L. eapply for_loop_good; [| |exact L|congruence].
      - cbn [start_state l_params]. split; auto.
      - left. reflexivity.
    Qed.

    (* the per-entry reading of Good (as in Proofs/RefineDriver.fit_success_in_bounds) *)
    Definition entries_within (p : list (list Q)) : Prop :=
      shape p = shape params0 /\
      forall j i, (j < length params0)%nat -> (i < length (nth j params0 []))%nat ->
        let b := nth j bs (validate_one bd radius PSignal) in
        let start := nth i (nth j params0 []) 0 in
        let v := nth i (nth j p []) 0 in
        match nth j modes 0%nat with
        | 0%nat => v = start
        | 1%nat => within_all b start v
        | _ => groups_ok g (length (nth j params0 [])) -> within_abs b v
        end.

    Lemma good_entries_within : forall p, Good p -> entries_within p.
    Proof.
      intros p (Sh & E). split; auto.
      intros j i Hj Hi b start v. destruct (E j i Hj Hi) as (El & Eh).
      assert (Whole : (exists i', (i' < length (nth j (lows bs params0) []))%nat /\
                          sat_low (nth i' (nth j (lows bs params0) []) NaN) v) ->
                      (exists i', (i' < length (nth j (highs bs params0) []))%nat /\
                          sat_high (nth i' (nth j (highs bs params0) []) NaN) v) -> within_abs b v).
      { intros (i1 & L1 & S1) (i2 & L2 & S2). rewrite (length_lows_col ps bd radius params0 Lps) in L1 by auto.
        rewrite (length_highs_col ps bd radius params0 Lps) in L2 by auto.
        rewrite (nth_lows ps bd radius params0 Lps) in S1 by auto.
        rewrite (nth_highs ps bd radius params0 Lps) in S2 by auto.
        apply bound_low_spec in S1. apply bound_high_spec in S2. unfold within_abs, b. tauto. }
      destruct (nth j modes 0%nat) as [|[|[|m]]] eqn:M; simpl in El, Eh.
      - exact El.
      - fold v in El, Eh. rewrite (nth_lows ps bd radius params0 Lps) in El by auto.
        rewrite (nth_highs ps bd radius params0 Lps) in Eh by auto.
        apply bound_low_spec in El. apply bound_high_spec in Eh. unfold within_all, b, start. tauto.
      - intros _. apply Whole; auto.
      - intros GO. unfold groups_ok in GO. destruct g as [gs|].
        + destruct GO as (Cov & Rng).
          destruct (El (Cov i Hi)) as (grp1 & i1 & G1 & _ & I1 & S1).
          destruct (Eh (Cov i Hi)) as (grp2 & i2 & G2 & _ & I2 & S2).
          apply Whole.
          * exists i1. split; [rewrite (length_lows_col ps bd radius params0 Lps) by auto; exact (Rng grp1 i1 G1 I1) | exact S1].
          * exists i2. split; [rewrite (length_highs_col ps bd radius params0 Lps) by auto; exact (Rng grp2 i2 G2 I2) | exact S2].
        + apply Whole; auto.
    Qed.

    Theorem fit2_success_in_bounds : forall u params_e p r,
      all_fin2 params_e = Some params0 -> fit2 u g params_e = Fitted p r ->
      r <= max_rms_dev /\ entries_within p.
    Proof.
      intros u pe p r F H. split; [eapply fit2_cost; eauto|].
      apply good_entries_within. eapply fit2_success_good; eauto.
    Qed.
  End Success.
End Unit.

(* ---- 4. everything, about the returned table ------------------------------------------ *)
Section Full.
  Variable in_image : nat -> nat -> list (list Q) -> bool.
  Variable opt : nat -> nat -> list ext -> list ext -> list Q -> list (list Q) -> list (list Q) -> ores.
  Variable ps : list pkind.
  Variable modes : list nat.
  Variable ndim : nat.
  Variable bd : bdict.
  Variable radius : list Q.
  Variable max_iter : nat.
  Variable max_shift max_rms_dev : Q.
  Local Notation run2 := (run2 in_image opt ps modes ndim bd radius max_iter max_shift max_rms_dev).
  Local Notation bs := (validate_bounds bd radius ps).

  (* the bounds dictionary is feasible for the start values of unit u *)
  Definition feasible (t0 : tbl) (u : unit_t) : Prop :=
    forall params0, all_fin2 (rows_of t0 u) = Some params0 ->
      box_empty (box_low bs modes (snd u) params0) (box_high bs modes (snd u) params0) = false.

  (* the rows of u in the returned table t hold exactly what was in t0, cost NaN *)
  Definition kept_with_nan_cost (t0 t : tbl) (u : unit_t) : Prop := unit_result t0 t u Failed.
  (* the rows of u in t hold the parameter array p, cost r *)
  Definition holds_fit (t0 t : tbl) (u : unit_t) (p : list (list Q)) (r : Q) : Prop := unit_result t0 t u (Fitted p r).

  Theorem driver_full : forall us t0,
    disjoint_units us -> (0 < max_iter)%nat -> (forall u, In u us -> feasible t0 u) ->
    exists t, run2 t0 us = Some t /\
      (forall i, (forall u, In u us -> ~ In i (fst u)) -> same_row t0 t i) /\
      forall u, In u us ->
        kept_with_nan_cost t0 t u \/
        exists p r, holds_fit t0 t u p r /\ r <= max_rms_dev /\
          (opt_in_box2 opt -> forall params0,
             all_fin2 (rows_of t0 u) = Some params0 ->
             length modes = length params0 -> length ps = length params0 ->
             entries_within ps modes bd radius (snd u) params0 p).
  Proof.
    intros us t0 D Hm Feas. unfold RefineDriver2.run2.
    set (fitk := fit2 in_image opt ps modes ndim bd radius max_iter max_shift max_rms_dev).
    destruct (rung_total fitk us 0%nat t0 D) as (t & R).
    { intros i u Hu. apply fit2_no_raise; auto. apply Feas. eapply nth_error_In; eauto. }
    exists t. split; [exact R|]. split; [apply (rung_frame fitk us 0%nat t0 t R)|].
    intros u Hu. apply In_nth_error in Hu. destruct Hu as (i & Hi).
    pose proof (rung_isolated fitk us 0%nat t0 t D R i u Hi) as UR. cbn [Nat.add] in UR.
    destruct (fitk i (snd u) (rows_of t0 u)) as [|p r|] eqn:O.
    - left. exact UR.
    - right. exists p, r. split; [exact UR|]. split; [eapply fit2_cost; exact O|].
      intros C params0 F Lm Lp.
      exact (proj2 (fit2_success_in_bounds in_image opt ps modes ndim bd radius max_iter max_shift max_rms_dev
                      C (snd u) params0 Lm Lp i _ p r F O)).
    - destruct UR.
  Qed.
End Full.

(* the contract is met by an actual indexed optimiser *)
Lemma clip_opt2_in_box : opt_in_box2 (fun _ _ => clip_opt).
Proof. intros u n lo hi v pc co x r H. eapply clip_opt_in_box; eauto. Qed.
