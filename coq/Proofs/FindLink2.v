(* C14 -- COMPLETENESS of the model of FindLinker on movies of well-separated
   blobs: whatever detections are withheld after the first frame, every blob is
   relocated and linked to its own trajectory.
   Part A: the subnet solver on subnets in which every source has one candidate.
   Part B: one step of FindLinker (any grouping of the sources into subnets).
   Part C: induction over the frames; detect-then-link.
   Part D: the executable hypotheses; oracles that satisfy the oracle hypothesis. *)
From Coq Require Import ZArith NArith QArith List Bool Arith Lia Permutation.
From TP Require Import Model.Assign Model.Link Model.LinkCheck Model.Dilation Model.DilationCheck
     Model.FindLink Model.FindLinkCheck Model.FindLink2
     Proofs.BnB Proofs.Opt Proofs.Cands Proofs.Comps Proofs.Step Proofs.Labels Proofs.Dilation Proofs.FindLink.
Import ListNotations.
Open Scope Z_scope.
Local Notation total := TP.Model.Assign.total.

(* ===================================================== Part A: the solver *)
(* a source with exactly one real candidate (not dearer than the null link) *)
Definition simple (R : Z) (cs : list cand) : Prop :=
  exists j c, cs = [(Some j, c); (None, R)] /\ c <= R.
Definition firsts (srcs : list (list cand)) : list cand := map (hd (None, 0)) srcs.

Lemma firsts_cons cs rest : firsts (cs :: rest) = hd (None, 0) cs :: firsts rest.
Proof. reflexivity. Qed.

Lemma exceeds_some t v (p : list cand) : exceeds t (Some (v, p)) = (v <? t).
Proof. reflexivity. Qed.

(* nothing found later is strictly cheaper than taking every real candidate *)
Lemma search_keep R srcs : Forall (simple R) srcs -> forall taken cur path v p,
  v <= cur + total (firsts srcs) -> search srcs taken cur path (Some (v, p)) = Some (v, p).
Proof.
  induction 1 as [|cs rest [j [c [-> Hc]]] _ IH]; intros taken cur path v p Hv.
  - cbn in *. destruct (cur <? v) eqn:E; [apply Z.ltb_lt in E; lia|reflexivity].
  - rewrite search_cons. rewrite firsts_cons in Hv. cbn [hd] in Hv. rewrite total_cons in Hv.
    unfold loop. cbn -[search Z.add Z.ltb].
    destruct (v <? cur + c); [reflexivity|].
    destruct (existsb (Nat.eqb j) taken).
    + destruct (v <? cur + R); [reflexivity|]. rewrite IH by lia. reflexivity.
    + rewrite IH by lia. rewrite exceeds_some. destruct (v <? cur + R); [reflexivity|]. rewrite IH by lia. reflexivity.
Qed.

Lemma search_simple R srcs : Forall (simple R) srcs -> forall taken cur path,
  NoDup (reals (firsts srcs)) -> (forall k, In k (reals (firsts srcs)) -> ~ In k taken) ->
  search srcs taken cur path None = Some (cur + total (firsts srcs), rev path ++ firsts srcs).
Proof.
  induction 1 as [|cs rest [j [c [-> Hc]]] Hrest IH]; intros taken cur path Hnd Hfree.
  - cbn. rewrite Z.add_0_r, app_nil_r. reflexivity.
  - rewrite search_cons. rewrite firsts_cons in *. cbn [hd] in *. rewrite total_cons. rewrite reals_cons in Hnd, Hfree.
    cbn [app] in Hnd, Hfree. inversion Hnd as [|? ? Hj Hnd']; subst.
    unfold loop. cbn -[search Z.add Z.ltb].
    assert (Et : existsb (Nat.eqb j) taken = false).
    { destruct (existsb (Nat.eqb j) taken) eqn:E; [|reflexivity]. apply existsb_exists in E.
      destruct E as [x [Hx Ex]]. apply Nat.eqb_eq in Ex. subst x. exfalso. apply (Hfree j); [left; reflexivity|exact Hx]. }
    rewrite Et. rewrite IH.
    + rewrite exceeds_some. destruct (_ <? _); [|rewrite (search_keep R rest Hrest) by lia];
        (f_equal; f_equal; [ring|cbn [rev]; rewrite <- app_assoc; reflexivity]).
    + exact Hnd'.
    + intros k Hk [Hin|Hin]; [subst k; exact (Hj Hk)|]. apply (Hfree k); [right; exact Hk|exact Hin].
Qed.

Definition first_link (it : item) : link_t := (fst it, hd (None, 0) (snd it)).

(* a subnet in which every source has exactly one real candidate, all different:
   every source is linked to its candidate *)
Lemma solve_group_simple R max_size g :
  Forall (fun it : item => simple R (snd it)) g -> NoDup (reals (firsts (map snd g))) ->
  (length g <= max_size)%nat ->
  exists s, Permutation s g /\ solve_group max_size g = Ok (map first_link s).
Proof.
  intros Hs Hnd Hlen. exists (sort_items g). split; [apply sort_items_perm|].
  unfold solve_group. destruct (max_size <? length g)%nat eqn:E; [apply Nat.ltb_lt in E; lia|].
  pose proof (sort_items_perm g) as Hp.
  assert (Hs' : Forall (simple R) (map snd (sort_items g))).
  { rewrite Forall_forall in *. intros cs Hin. apply in_map_iff in Hin. destruct Hin as [it [<- Hit]].
    apply Hs. eapply Permutation_in; [exact Hp|exact Hit]. }
  assert (Hnd' : NoDup (reals (firsts (map snd (sort_items g))))).
  { eapply Permutation_NoDup; [|exact Hnd]. apply reals_perm. unfold firsts. apply Permutation_map, Permutation_map.
    apply Permutation_sym. exact Hp. }
  unfold solve. rewrite (search_simple R _ Hs' [] 0 [] Hnd') by (intros k _ []).
  f_equal. cbn [rev app]. generalize (sort_items g). intros s. induction s as [|it s IH]; cbn; [reflexivity|].
  f_equal. exact IH.
Qed.

(* ===================================================== small list lemmas *)
Lemma dedup_nodup l : NoDup l -> dedup l = l.
Proof.
  induction 1 as [|x l Hx _ IH]; cbn; [reflexivity|].
  destruct (existsb (Nat.eqb x) l) eqn:E.
  - apply existsb_exists in E. destruct E as [y [Hy E]]. apply Nat.eqb_eq in E. subst y. contradiction.
  - rewrite IH. reflexivity.
Qed.

Lemma NoDup_app_disj {A} (a b : list A) x : NoDup (a ++ b) -> In x a -> In x b -> False.
Proof.
  induction a as [|y a IH]; cbn; intros Hn Ha Hb; [exact Ha|]. inversion Hn as [|? ? Hy Hn']; subst.
  destruct Ha as [Ha|Ha]; [subst y; apply Hy; apply in_or_app; right; exact Hb|exact (IH Hn' Ha Hb)].
Qed.

Lemma nth_some_lt {A} (l : list A) k x : nth_error l k = Some x -> (k < length l)%nat.
Proof. intros H. apply nth_error_Some. rewrite H. discriminate. Qed.

Lemma sort_c_one x : sort_c [x] = [x].
Proof. reflexivity. Qed.

Lemma remembered_none mem t links : forall l i,
  (forall k, unlinked_b links k = false) -> remembered mem t links i l = [].
Proof. induction l as [|s l IH]; intros i H; cbn; [reflexivity|]. rewrite H. cbn. apply IH. exact H. Qed.

Lemma mk_srcs_length t labs ds : length labs = length ds -> length (mk_srcs t labs ds) = length ds.
Proof. revert ds; induction labs as [|lb labs IH]; intros [|d ds] H; cbn in *; try discriminate; [reflexivity|]. f_equal. apply IH. lia. Qed.

Lemma mk_srcs_nth t : forall labs ds j lb d,
  nth_error labs j = Some lb -> nth_error ds j = Some d ->
  nth_error (mk_srcs t labs ds) j = Some {| s_lab := lb; s_pos := d; s_seen := t |}.
Proof.
  induction labs as [|l0 labs IH]; intros [|d0 ds] j lb d H1 H2; destruct j; cbn in *; try discriminate.
  - inversion H1; inversion H2; subst. reflexivity.
  - apply IH; assumption.
Qed.

Lemma mk_srcs_inv t : forall labs ds s, In s (mk_srcs t labs ds) ->
  exists j, nth_error labs j = Some (s_lab s) /\ nth_error ds j = Some (s_pos s).
Proof.
  induction labs as [|l0 labs IH]; intros [|d0 ds] s H; cbn in H; try destruct H.
  - subst s. exists 0%nat. split; reflexivity.
  - destruct (IH _ _ H) as [j [H1 H2]]. exists (S j). split; assumption.
Qed.

(* ============================================ Part B: one step of FindLinker *)
Section Step2.
  Variables (m : metric) (mem max_size : nat) (rel : reloc_fn) (st : lstate) (ds B : list pt).
  Local Notation N := (length (live st)).
  Local Notation Pn := (src_pos no_pred st).
  (* the blob source number a has to be linked to *)
  Variable Tn : nat -> pt.
  Hypothesis HB : NoDup B.
  Hypothesis R1 : forall a, (a < N)%nat -> In (Tn a) B /\ d2w (mw m) (Pn a) (Tn a) <= mR2 m.
  Hypothesis R2 : forall a q, (a < N)%nat -> In q B -> d2w (mw m) (Pn a) q <= mR2 m -> q = Tn a.
  Hypothesis R3 : forall a a', (a < N)%nat -> (a' < N)%nat -> Tn a = Tn a' -> a = a'.
  Hypothesis Hds : NoDup ds /\ incl ds B.
  (* the oracle: asked for as many points as there are unknown blobs within
     search_range of the searched positions, it returns these blobs (what it
     returns out of range is dropped by add_dest_points) *)
  Hypothesis Hrel : forall pos known,
    (forall p, In p pos -> exists a, (a < N)%nat /\ p = Pn a) -> NoDup pos ->
    incl known B -> NoDup known ->
    unknown_in_range m B pos known <> [] ->
    Permutation (filter (in_range_any m pos) (rel pos known (length (unknown_in_range m B pos known))))
                (unknown_in_range m B pos known).

  Lemma Pn_inj a a' : (a < N)%nat -> (a' < N)%nat -> Pn a = Pn a' -> a = a'.
  Proof.
    intros Ha Ha' E. apply R3; try assumption. symmetry. apply R2; [exact Ha|apply R1; exact Ha'|].
    rewrite E. apply R1. exact Ha'.
  Qed.

  (* ---- candidates ---- *)
  Lemma rc_absent a : (a < N)%nat -> forall l j, incl l B -> ~ In (Tn a) l -> real_cands m (Pn a) l j = [].
  Proof.
    intros Ha. induction l as [|d l IH]; intros j Hi Hn; cbn [real_cands]; [reflexivity|].
    destruct (Z.leb_spec (d2w (mw m) (Pn a) d) (mR2 m)) as [E|E].
    - exfalso. apply Hn. left. apply R2; [exact Ha|apply Hi; left; reflexivity|exact E].
    - apply IH; [intros x Hx; apply Hi; right; exact Hx|intros Hx; apply Hn; right; exact Hx].
  Qed.

  Lemma rc_present a : (a < N)%nat -> forall l j k, incl l B -> NoDup l -> nth_error l k = Some (Tn a) ->
    real_cands m (Pn a) l j = [(Some (j + k)%nat, d2w (mw m) (Pn a) (Tn a))].
  Proof.
    intros Ha. induction l as [|d l IH]; intros j k Hi Hn Hk; [destruct k; discriminate|].
    inversion Hn as [|? ? Hd Hn']; subst. cbn [real_cands]. destruct k as [|k]; cbn in Hk.
    - inversion Hk; subst d. destruct (Z.leb_spec (d2w (mw m) (Pn a) (Tn a)) (mR2 m)) as [E|E].
      + rewrite rc_absent; [rewrite Nat.add_0_r; reflexivity|exact Ha|intros x Hx; apply Hi; right; exact Hx|exact Hd].
      + destruct (R1 a Ha) as [_ H]. lia.
    - destruct (Z.leb_spec (d2w (mw m) (Pn a) d) (mR2 m)) as [E|E].
      + exfalso. apply Hd. assert (d = Tn a) by (apply R2; [exact Ha|apply Hi; left; reflexivity|exact E]).
        subst d. eapply nth_error_In. exact Hk.
      + rewrite (IH (S j) k); [f_equal; f_equal; f_equal; lia|intros x Hx; apply Hi; right; exact Hx|exact Hn'|exact Hk].
  Qed.

  (* ---- the subnets handed to assign_links ---- *)
  Definition item_of (a : nat) : item := (a, cands_of m (mR2 m) (Pn a) ds).
  Definition gvalid (g : group) : Prop :=
    (forall it, In it g -> exists a, (a < N)%nat /\ it = item_of a) /\ NoDup (map fst g).

  Lemma items_char it : In it (items_of m no_pred st ds) -> exists a, (a < N)%nat /\ it = item_of a.
  Proof.
    unfold items_of. intros H. apply mapi_from_in in H. destruct H as [i [s [Hn E]]]. cbn in E. exists i.
    split; [apply nth_error_Some; congruence|]. subst it. unfold item_of, src_pos. rewrite Hn. reflexivity.
  Qed.

  Lemma item_reals a : (a < N)%nat ->
    (forall k, nth_error ds k = Some (Tn a) -> reals (snd (item_of a)) = [k]) /\
    (~ In (Tn a) ds -> reals (snd (item_of a)) = []).
  Proof.
    intros Ha. destruct Hds as [Hnd Hin]. unfold item_of, cands_of. cbn [snd]. split.
    - intros k Hk. rewrite (rc_present a Ha ds 0 k Hin Hnd Hk). reflexivity.
    - intros Hn. rewrite (rc_absent a Ha ds 0 Hin Hn). reflexivity.
  Qed.

  (* the blobs the subnet has lost *)
  Definition lost_targets (g : group) : list pt :=
    flat_map (fun it : item => if mem_pt (Tn (fst it)) ds then [] else [Tn (fst it)]) g.

  Lemma lost_targets_in g x : In x (lost_targets g) <-> exists it, In it g /\ x = Tn (fst it) /\ ~ In x ds.
  Proof.
    unfold lost_targets. rewrite in_flat_map. split.
    - intros [it [Hit Hx]]. destruct (mem_pt (Tn (fst it)) ds) eqn:E; [destruct Hx|].
      destruct Hx as [Hx|[]]. subst x. exists it. split; [exact Hit|split; [reflexivity|]].
      intros Hin. apply mem_pt_iff in Hin. congruence.
    - intros [it [Hit [Hx Hn]]]. exists it. split; [exact Hit|]. subst x.
      destruct (mem_pt (Tn (fst it)) ds) eqn:E; [apply mem_pt_iff in E; contradiction|left; reflexivity].
  Qed.

  Lemma gdests_in g : gvalid g -> forall k, In k (gdests g) -> exists it, In it g /\ nth_error ds k = Some (Tn (fst it)).
  Proof.
    intros [Hv _] k Hk. unfold gdests in Hk. apply in_flat_map in Hk. destruct Hk as [it [Hit Hk]].
    exists it. split; [exact Hit|]. destruct (Hv it Hit) as [a [Ha ->]]. cbn [fst].
    destruct (item_reals a Ha) as [H1 H2].
    destruct (in_dec (list_eq_dec Z.eq_dec) (Tn a) ds) as [Hin|Hn].
    - apply In_nth_error in Hin. destruct Hin as [k' Hk']. rewrite (H1 k' Hk') in Hk. destruct Hk as [<-|[]]. exact Hk'.
    - rewrite (H2 Hn) in Hk. destruct Hk.
  Qed.

  Lemma gvalid_tail it g : gvalid (it :: g) -> gvalid g.
  Proof.
    intros [Hv Hn]. split; [intros x Hx; apply Hv; right; exact Hx|]. cbn in Hn. inversion Hn; assumption.
  Qed.

  Lemma gvalid_fst_inj g it it' : gvalid g -> In it g -> In it' g -> Tn (fst it) = Tn (fst it') -> it = it'.
  Proof.
    intros [Hv Hn] H1 H2 E. destruct (Hv it H1) as [a [Ha ->]]. destruct (Hv it' H2) as [a' [Ha' ->]].
    cbn [fst] in E. rewrite (R3 a a' Ha Ha' E). reflexivity.
  Qed.

  Lemma gdests_count g : gvalid g ->
    NoDup (gdests g) /\ (length (gdests g) + length (lost_targets g) = length g)%nat.
  Proof.
    induction g as [|it g IH]; intros Hg; [split; [constructor|reflexivity]|].
    destruct (IH (gvalid_tail _ _ Hg)) as [IH1 IH2].
    destruct Hg as [Hv Hn]. destruct (Hv it (or_introl eq_refl)) as [a [Ha Eit]].
    change (gdests (it :: g)) with (reals (snd it) ++ gdests g).
    change (lost_targets (it :: g)) with ((if mem_pt (Tn (fst it)) ds then [] else [Tn (fst it)]) ++ lost_targets g).
    destruct (item_reals a Ha) as [H1 H2]. subst it. change (fst (item_of a)) with a.
    destruct (mem_pt (Tn a) ds) eqn:E.
    - apply mem_pt_iff in E. apply In_nth_error in E. destruct E as [k Hk]. rewrite (H1 k Hk). split; [|cbn [app length] in *; lia]. cbn [app].
      constructor; [|exact IH1]. intros Hin.
      destruct (gdests_in g (gvalid_tail _ _ (conj Hv Hn)) k Hin) as [it' [Hit' Hk']].
      pose proof (eq_trans (eq_sym Hk) Hk') as E0. inversion E0 as [E].
      assert (item_of a = it').
      { apply (gvalid_fst_inj (item_of a :: g)); [split; assumption|left; reflexivity|right; exact Hit'|exact E]. }
      subst it'. cbn in Hn. inversion Hn as [|? ? Hx _]. apply Hx. change a with (fst (item_of a)). apply in_map. exact Hit'.
    - assert (Hnin : ~ In (Tn a) ds) by (intros Hin; apply mem_pt_iff in Hin; congruence).
      rewrite (H2 Hnin). split; [exact IH1|cbn [app length] in *; lia].
  Qed.

  Lemma shortage_lost g : gvalid g -> shortage g = length (lost_targets g).
  Proof.
    intros Hg. destruct (gdests_count g Hg) as [Hn Hc]. unfold shortage. rewrite (dedup_nodup _ Hn). lia.
  Qed.

  Lemma lost_targets_nodup g : gvalid g -> NoDup (lost_targets g).
  Proof.
    induction g as [|it g IH]; intros Hg; [constructor|].
    change (lost_targets (it :: g)) with ((if mem_pt (Tn (fst it)) ds then [] else [Tn (fst it)]) ++ lost_targets g).
    destruct (mem_pt (Tn (fst it)) ds); cbn [app]; [apply IH; eapply gvalid_tail; exact Hg|].
    constructor; [|apply IH; eapply gvalid_tail; exact Hg].
    intros Hin. apply lost_targets_in in Hin. destruct Hin as [it' [Hit' [E _]]].
    assert (it = it') by (apply (gvalid_fst_inj (it :: g)); [exact Hg|left; reflexivity|right; exact Hit'|exact E]).
    subst it'. destruct Hg as [_ Hn]. cbn in Hn. inversion Hn as [|? ? Hx _]. apply Hx. apply in_map. exact Hit'.
  Qed.

  Lemma pos_of_char g : gvalid g ->
    (forall p, In p (pos_of no_pred st g) -> exists a, (a < N)%nat /\ p = Pn a) /\ NoDup (pos_of no_pred st g).
  Proof.
    intros [Hv Hn]. split.
    - intros p Hp. unfold pos_of in Hp. apply in_map_iff in Hp. destruct Hp as [it [<- Hit]].
      destruct (Hv it Hit) as [a [Ha ->]]. exists a. split; [exact Ha|reflexivity].
    - unfold pos_of. clear - Hv Hn R1 R2 R3. induction g as [|it g IH]; cbn; [constructor|].
      cbn in Hn. inversion Hn as [|? ? Hx Hn']; subst.
      constructor; [|apply IH; [intros x Hx'; apply Hv; right; exact Hx'|exact Hn']].
      intros Hin. apply in_map_iff in Hin. destruct Hin as [it' [E Hit']].
      destruct (Hv it (or_introl eq_refl)) as [a [Ha ->]]. destruct (Hv it' (or_intror Hit')) as [a' [Ha' ->]].
      cbn [fst] in *. apply Hx. rewrite (Pn_inj a a' Ha Ha' (eq_sym E)). change a' with (fst (item_of a')). apply in_map. exact Hit'.
  Qed.

  (* what the relocation of a subnet must return: its lost blobs *)
  Lemma unknown_is_lost g added : gvalid g ->
    (forall x it, In x added -> In it g -> x <> Tn (fst it)) ->
    Permutation (unknown_in_range m B (pos_of no_pred st g) (ds ++ added)) (lost_targets g).
  Proof.
    intros Hg Hadd. apply NoDup_Permutation; [apply NoDup_filter; exact HB|apply lost_targets_nodup; exact Hg|].
    intros x. unfold unknown_in_range. rewrite filter_In, lost_targets_in. destruct Hg as [Hv Hn]. split.
    - intros [HxB Hc]. apply andb_true_iff in Hc. destruct Hc as [Hr Hk].
      unfold in_range_any in Hr. apply existsb_exists in Hr. destruct Hr as [p [Hp Hle]]. apply Z.leb_le in Hle.
      unfold pos_of in Hp. apply in_map_iff in Hp. destruct Hp as [it [<- Hit]].
      destruct (Hv it Hit) as [a [Ha Eit]]. exists it. split; [exact Hit|].
      rewrite Eit in *. cbn [fst] in *. split; [apply R2; assumption|].
      intros Hin. apply negb_true_iff in Hk.
      assert (mem_pt x (ds ++ added) = true) by (apply mem_pt_iff; apply in_or_app; left; exact Hin). congruence.
    - intros [it [Hit [Ex Hnd]]]. destruct (Hv it Hit) as [a [Ha Eit]]. rewrite Eit in Ex. cbn [fst] in Ex.
      destruct (R1 a Ha) as [HTB HTr]. split; [rewrite Ex; exact HTB|]. apply andb_true_iff. split.
      + unfold in_range_any. apply existsb_exists. exists (Pn a). split.
        * unfold pos_of. apply in_map_iff. exists it. rewrite Eit. split; [reflexivity|rewrite <- Eit; exact Hit].
        * apply Z.leb_le. rewrite Ex. exact HTr.
      + apply negb_true_iff. destruct (mem_pt x (ds ++ added)) eqn:E; [|reflexivity].
        apply mem_pt_iff in E. apply in_app_or in E. destruct E as [E|E]; [contradiction|].
        exfalso. apply (Hadd x it E Hit). rewrite Eit. exact Ex.
  Qed.

  (* ---- one subnet ---- *)
  Hypothesis R4 : forall q, In q B -> exists a, (a < N)%nat /\ Tn a = q.

  (* links made so far point at the blob of their source; what was added are blobs of linked sources *)
  Definition acc_inv (a : acc) : Prop :=
    (forall i c, In (i, c) (a_links a) ->
       exists j cc, c = (Some j, cc) /\ nth_error (ds ++ a_added a) j = Some (Tn i)) /\
    (forall x, In x (a_added a) -> exists i, In i (map fst (a_links a)) /\ (i < N)%nat /\ x = Tn i) /\
    NoDup (ds ++ a_added a) /\ incl (a_added a) B.

  Lemma targets_nodup g : gvalid g -> NoDup (map (fun it : item => Some (Tn (fst it))) g).
  Proof.
    induction g as [|it g IH]; intros Hg; cbn; [constructor|].
    constructor; [|apply IH; eapply gvalid_tail; exact Hg].
    intros Hin. apply in_map_iff in Hin. destruct Hin as [it' [E Hit']]. inversion E as [E'].
    assert (it' = it) by (apply (gvalid_fst_inj (it :: g)); [exact Hg|right; exact Hit'|left; reflexivity|exact E']).
    subst it'. destruct Hg as [_ Hn]. cbn in Hn. inversion Hn as [|? ? Hx _]. apply Hx. apply in_map. exact Hit'.
  Qed.

  Lemma firsts_keys (D' : list pt) (ext : item -> item) R g :
    (forall it, In it g -> exists j c, ext it = (fst it, [(Some j, c); (None, R)]) /\ nth_error D' j = Some (Tn (fst it))) ->
    map (nth_error D') (reals (firsts (map snd (map ext g)))) = map (fun it : item => Some (Tn (fst it))) g.
  Proof.
    induction g as [|it g IH]; intros H; [reflexivity|].
    destruct (H it (or_introl eq_refl)) as [j [c [E Hj]]].
    cbn [map]. rewrite E. cbn [snd]. rewrite firsts_cons. cbn [hd]. rewrite reals_cons. cbn [app map].
    rewrite Hj. f_equal. apply IH. intros x Hx. apply H. right. exact Hx.
  Qed.

  Lemma group_step_complete a g :
    acc_inv a -> gvalid g -> (forall it, In it g -> ~ In (fst it) (map fst (a_links a))) ->
    (length g <= max_size)%nat ->
    exists a', group_step m max_size no_pred rel st ds a g = Ok a' /\ acc_inv a' /\
               Permutation (map fst (a_links a')) (map fst (a_links a) ++ map fst g).
  Proof.
    intros [I1 [I2 [I3 I4]]] Hg Hfresh Hlen. destruct Hds as [Hdsn Hdsi].
    assert (Hadd : forall x it, In x (a_added a) -> In it g -> x <> Tn (fst it)).
    { intros x it Hx Hit E. destruct (I2 x Hx) as [i [Hi [HiN Ex]]]. destruct Hg as [Hv _].
      destruct (Hv it Hit) as [a0 [Ha0 Eit]]. apply (Hfresh it Hit). subst it. change (fst (item_of a0)) with a0 in *.
      rewrite <- (R3 i a0 HiN Ha0); [exact Hi|rewrite <- Ex; exact E]. }
    pose proof (unknown_is_lost g (a_added a) Hg Hadd) as Hperm.
    assert (HkB : incl (ds ++ a_added a) B) by (intros x Hx; apply in_app_or in Hx; destruct Hx; auto).
    set (new := if (0 <? shortage g)%nat
                then filter (in_range_any m (pos_of no_pred st g)) (rel (pos_of no_pred st g) (ds ++ a_added a) (shortage g))
                else []).
    assert (Hnew : Permutation new (lost_targets g)).
    { unfold new. rewrite (shortage_lost g Hg). destruct (0 <? length (lost_targets g))%nat eqn:E.
      - apply Nat.ltb_lt in E. rewrite <- (Permutation_length Hperm). eapply Permutation_trans; [|exact Hperm].
        destruct (pos_of_char g Hg) as [Hp1 Hp2]. apply Hrel; try assumption.
        intros E0. rewrite E0 in Hperm. apply Permutation_length in Hperm. cbn in Hperm. lia.
      - apply Nat.ltb_ge in E. destruct (lost_targets g); [constructor|cbn in E; lia]. }
    assert (Hnew_nd : NoDup new) by (eapply Permutation_NoDup; [apply Permutation_sym; exact Hnew|apply lost_targets_nodup; exact Hg]).
    assert (Hnew_in : forall x, In x new <-> exists it, In it g /\ x = Tn (fst it) /\ ~ In x ds).
    { intros x. rewrite <- lost_targets_in. split; apply Permutation_in; [exact Hnew|apply Permutation_sym; exact Hnew]. }
    assert (Hnew_B : incl new B).
    { intros x Hx. apply Hnew_in in Hx. destruct Hx as [it [Hit [-> _]]]. destruct Hg as [Hv _].
      destruct (Hv it Hit) as [a0 [Ha0 ->]]. apply R1. exact Ha0. }
    assert (ND' : NoDup ((ds ++ a_added a) ++ new)).
    { apply NoDup_app_intro; [exact I3|exact Hnew_nd|]. intros x Hx Hx'. apply Hnew_in in Hx'.
      destruct Hx' as [it [Hit [Ex Hnd]]]. apply in_app_or in Hx. destruct Hx as [Hx|Hx]; [contradiction|].
      exact (Hadd x it Hx Hit Ex). }
    set (base := (length ds + length (a_added a))%nat).
    assert (Hitem : forall it, In it g -> exists j c,
              ext_item m no_pred st ds new base it = (fst it, [(Some j, c); (None, mR2 m)]) /\ c <= mR2 m /\
              nth_error ((ds ++ a_added a) ++ new) j = Some (Tn (fst it))).
    { intros it Hit. pose proof Hg as [Hv _]. destruct (Hv it Hit) as [a0 [Ha0 Eit]]. subst it.
      unfold ext_item. change (fst (item_of a0)) with a0. destruct (R1 a0 Ha0) as [_ Hc].
      destruct (in_dec (list_eq_dec Z.eq_dec) (Tn a0) ds) as [Hin|Hn].
      - destruct (In_nth_error _ _ Hin) as [k Hk].
        rewrite (rc_present a0 Ha0 ds 0 k Hdsi Hdsn Hk).
        rewrite (rc_absent a0 Ha0 new base Hnew_B).
        + cbn [app]. rewrite sort_c_one. exists (0 + k)%nat, (d2w (mw m) (Pn a0) (Tn a0)). split; [reflexivity|split; [exact Hc|]].
          pose proof (nth_some_lt _ _ _ Hk) as Hkl. cbn [Nat.add].
          rewrite nth_error_app1 by (rewrite app_length; apply Nat.lt_lt_add_r; exact Hkl).
          rewrite nth_error_app1 by exact Hkl. exact Hk.
        + intros Hx. apply Hnew_in in Hx. destruct Hx as [_ [_ [_ Hnd]]]. contradiction.
      - assert (Hl : In (Tn a0) new).
        { apply Hnew_in. exists (item_of a0). split; [exact Hit|split; [reflexivity|exact Hn]]. }
        destruct (In_nth_error _ _ Hl) as [k Hk].
        rewrite (rc_absent a0 Ha0 ds 0 Hdsi Hn). rewrite (rc_present a0 Ha0 new base k Hnew_B Hnew_nd Hk).
        cbn [app]. rewrite sort_c_one. exists (base + k)%nat, (d2w (mw m) (Pn a0) (Tn a0)). split; [reflexivity|split; [exact Hc|]].
        rewrite nth_error_app2 by (rewrite app_length; unfold base; lia).
        rewrite app_length. unfold base. replace (length ds + length (a_added a) + k - (length ds + length (a_added a)))%nat with k by lia.
        exact Hk. }
    set (g' := map (ext_item m no_pred st ds new base) g).
    assert (Hs : Forall (fun it : item => simple (mR2 m) (snd it)) g').
    { unfold g'. rewrite Forall_forall. intros it' Hin. apply in_map_iff in Hin. destruct Hin as [it [<- Hit]].
      destruct (Hitem it Hit) as [j [c [E [Hc _]]]]. rewrite E. exists j, c. split; [reflexivity|exact Hc]. }
    assert (Hnd : NoDup (reals (firsts (map snd g')))).
    { apply (NoDup_map_inv (nth_error ((ds ++ a_added a) ++ new))). unfold g'.
      rewrite (firsts_keys _ _ (mR2 m) g).
      - apply targets_nodup. exact Hg.
      - intros it Hit. destruct (Hitem it Hit) as [j [c [E [_ Hj]]]]. exists j, c. split; assumption. }
    assert (Hlen' : (length g' <= max_size)%nat) by (unfold g'; rewrite map_length; exact Hlen).
    destruct (solve_group_simple (mR2 m) max_size g' Hs Hnd Hlen') as [s [Hsp Hsol]].
    unfold group_step. change (map (fun it : item => src_pos no_pred st (fst it)) g) with (pos_of no_pred st g).
    fold new. fold base. fold g'. rewrite Hsol.
    eexists. split; [reflexivity|]. cbn [a_added a_links].
    assert (Hfs : map fst (map first_link s) = map fst s) by (rewrite map_map; apply map_ext; intros; reflexivity).
    assert (Hfg : map fst g' = map fst g) by (unfold g'; rewrite map_map; apply map_ext; intros; reflexivity).
    assert (Hps : Permutation (map fst (map first_link s)) (map fst g)).
    { rewrite Hfs, <- Hfg. apply Permutation_map. exact Hsp. }
    split; [|rewrite map_app; apply Permutation_app_head; exact Hps].
    unfold acc_inv. cbn [a_added a_links]. rewrite (app_assoc ds (a_added a) new). split; [|split; [|split]].
    - intros i c Hin. apply in_app_or in Hin. destruct Hin as [Hin|Hin].
      + destruct (I1 i c Hin) as [j [cc [Ec Hj]]]. exists j, cc. split; [exact Ec|].
        rewrite nth_error_app1 by (eapply nth_some_lt; exact Hj). exact Hj.
      + apply in_map_iff in Hin. destruct Hin as [it' [E Hit']].
        assert (Hin' : In it' g') by (eapply Permutation_in; [exact Hsp|exact Hit']).
        unfold g' in Hin'. apply in_map_iff in Hin'. destruct Hin' as [it [E' Hit]].
        destruct (Hitem it Hit) as [j [c0 [Ee [_ Hj]]]]. rewrite Ee in E'. subst it'.
        unfold first_link in E. cbn in E. inversion E; subst. exists j, c0. split; [reflexivity|exact Hj].
    - intros x Hx. apply in_app_or in Hx. destruct Hx as [Hx|Hx].
      + destruct (I2 x Hx) as [i [Hi [HiN Ex]]]. exists i. split; [rewrite map_app; apply in_or_app; left; exact Hi|split; assumption].
      + apply Hnew_in in Hx. destruct Hx as [it [Hit [Ex _]]]. pose proof Hg as [Hv _]. destruct (Hv it Hit) as [a0 [Ha0 Eit]].
        exists a0. split; [|split; [exact Ha0|rewrite Ex, Eit; reflexivity]].
        rewrite map_app. apply in_or_app. right. eapply Permutation_in; [apply Permutation_sym; exact Hps|].
        change a0 with (fst (item_of a0)). rewrite <- Eit. apply in_map. exact Hit.
    - exact ND'.
    - intros x Hx. apply in_app_or in Hx. destruct Hx; auto.
  Qed.

  Lemma groups_run_complete : forall gs a,
    acc_inv a -> (forall it, In it (concat gs) -> exists a0, (a0 < N)%nat /\ it = item_of a0) ->
    NoDup (map fst (a_links a) ++ map fst (concat gs)) -> (forall g, In g gs -> (length g <= max_size)%nat) ->
    exists a', groups_run m max_size no_pred rel st ds a gs = Ok a' /\ acc_inv a' /\
               Permutation (map fst (a_links a')) (map fst (a_links a) ++ map fst (concat gs)).
  Proof.
    induction gs as [|g gs IH]; intros a Ha Hit Hnd Hlen.
    - exists a. cbn. rewrite app_nil_r. split; [reflexivity|split; [exact Ha|apply Permutation_refl]].
    - cbn [concat] in *. rewrite map_app in Hnd.
      assert (Hg : gvalid g).
      { split; [intros it Hin; apply Hit; apply in_or_app; left; exact Hin|].
        eapply NoDup_app_l. eapply NoDup_app_r. exact Hnd. }
      assert (Hfresh : forall it, In it g -> ~ In (fst it) (map fst (a_links a))).
      { intros it Hin Hx. eapply (NoDup_app_disj _ _ (fst it) Hnd); [exact Hx|]. apply in_or_app. left. apply in_map. exact Hin. }
      destruct (group_step_complete a g Ha Hg Hfresh (Hlen g (or_introl eq_refl))) as [a1 [E1 [Ha1 Hp1]]].
      assert (Hnd1 : NoDup (map fst (a_links a1) ++ map fst (concat gs))).
      { eapply Permutation_NoDup; [|rewrite app_assoc in Hnd; exact Hnd]. apply Permutation_app_tail. apply Permutation_sym. exact Hp1. }
      destruct (IH a1 Ha1 (fun it Hin => Hit it (in_or_app _ _ _ (or_intror Hin))) Hnd1 (fun g0 Hin => Hlen g0 (or_intror Hin)))
        as [a2 [E2 [Ha2 Hp2]]].
      exists a2. cbn [groups_run]. rewrite E1. split; [exact E2|split; [exact Ha2|]].
      eapply Permutation_trans; [exact Hp2|]. rewrite map_app, app_assoc. apply Permutation_app_tail. exact Hp1.
  Qed.

  (* ---- the whole step ---- *)
  Theorem find_step_complete :
    (N <= max_size)%nat ->
    exists st' labs added,
      find_step m mem max_size no_pred rel st ds = Ok (st', labs, ds ++ added) /\
      Permutation (ds ++ added) B /\ length labs = length (ds ++ added) /\
      (forall j lb, nth_error labs j = Some lb ->
         exists a s, nth_error (live st) a = Some s /\ lb = s_lab s /\ nth_error (ds ++ added) j = Some (Tn a)) /\
      live st' = mk_srcs (now st) labs (ds ++ added) /\ now st' = S (now st).
  Proof.
    intros Hmax. pose proof (find_groups_perm m no_pred st ds) as Hp.
    set (gs := find_groups m no_pred st ds) in *.
    assert (Hfst : map fst (items_of m no_pred st ds) = seq 0 N) by (unfold items_of; apply mapi_from_fst).
    assert (Hseq : Permutation (map fst (concat gs)) (seq 0 N)) by (rewrite <- Hfst; apply Permutation_map; exact Hp).
    assert (Hlen_items : length (items_of m no_pred st ds) = N).
    { transitivity (length (map fst (items_of m no_pred st ds))); [symmetry; apply map_length|rewrite Hfst; apply seq_length]. }
    destruct Hds as [Hdsn Hdsi].
    destruct (groups_run_complete gs {| a_added := []; a_links := [] |}) as [a [Erun [[I1 [I2 [I3 I4]]] Hpl]]].
    - split; [intros i c []|split; [intros x []|split; [cbn; rewrite app_nil_r; exact Hdsn|intros x []]]].
    - intros it Hin. apply items_char. eapply Permutation_in; [exact Hp|exact Hin].
    - cbn [a_links map app]. eapply Permutation_NoDup; [apply Permutation_sym; exact Hseq|apply seq_NoDup].
    - intros g Hg. apply Nat.le_trans with (2 := Hmax). rewrite <- Hlen_items, <- (Permutation_length Hp).
      clear - Hg. induction gs as [|g0 gs0 IH]; [destruct Hg|]. cbn [concat]. rewrite app_length.
      destruct Hg as [->|Hg]; [lia|specialize (IH Hg); lia].
    - cbn [a_links map app] in Hpl.
      assert (Hall : Permutation (map fst (a_links a)) (seq 0 N)) by (eapply Permutation_trans; [exact Hpl|exact Hseq]).
      assert (HlN : forall i, In i (map fst (a_links a)) <-> (i < N)%nat).
      { intros i. split; intros H.
        - apply (Permutation_in _ Hall) in H. apply in_seq in H. lia.
        - apply (Permutation_in _ (Permutation_sym Hall)). apply in_seq. lia. }
      set (D := ds ++ a_added a) in *.
      assert (HDB : incl D B) by (intros x Hx; apply in_app_or in Hx; destruct Hx; auto).
      assert (Hlink : forall i, (i < N)%nat -> exists j cc, In (i, (Some j, cc)) (a_links a) /\ nth_error D j = Some (Tn i)).
      { intros i Hi. apply HlN in Hi. apply in_map_iff in Hi. destruct Hi as [[i' c] [E Hin]]. cbn in E. subst i'.
        destruct (I1 i c Hin) as [j [cc [-> Hj]]]. exists j, cc. split; assumption. }
      assert (HBD : incl B D).
      { intros q Hq. destruct (R4 q Hq) as [i [Hi <-]]. destruct (Hlink i Hi) as [j [cc [_ Hj]]]. eapply nth_error_In. exact Hj. }
      exists (fst (apply_links mem st D (a_links a))), (snd (apply_links mem st D (a_links a))), (a_added a).
      split; [|split].
      + unfold find_step. fold gs. rewrite Erun. cbv zeta. fold D. destruct (apply_links mem st D (a_links a)). reflexivity.
      + apply NoDup_Permutation; [exact I3|exact HB|]. intros x. split; [apply HDB|apply HBD].
      + unfold apply_links. destruct (assign_labels st (a_links a) (length D) 0 (next_id st)) as [ls f] eqn:Ea.
        cbn [fst snd live now].
        destruct (assign_labels_spec _ _ _ _ _ _ _ Ea) as [HL [_ Hn]].
        assert (Hun : forall k, unlinked_b (a_links a) k = false).
        { intros k. destruct (unlinked_b (a_links a) k) eqn:E; [|reflexivity]. apply unlinked_in in E. destruct E as [c Hin].
          destruct (I1 _ _ Hin) as [j [cc [E _]]]. discriminate. }
        rewrite (remembered_none mem (now st) (a_links a) (live st) 0 Hun), app_nil_r.
        split; [exact HL|split; [|split; reflexivity]].
        intros j lb Hj. pose proof (nth_some_lt _ _ _ Hj) as Hjl. rewrite HL in Hjl.
        destruct (nth_error D j) as [q|] eqn:Eq; [|apply nth_error_None in Eq; lia].
        destruct (R4 q (HDB q (nth_error_In _ _ Eq))) as [i [Hi Eti]].
        destruct (Hlink i Hi) as [j' [cc [Hin Hj']]].
        assert (j' = j).
        { rewrite NoDup_nth_error in I3. apply I3; [eapply nth_some_lt; exact Hj'|]. rewrite Hj', Eti. symmetry. exact Eq. }
        subst j'. destruct (Hn j lb Hj) as [[_ Hs]|[i' [Hs Hy]]]; cbn [Nat.add] in Hs.
        * exfalso. exact (source_of_none _ _ _ _ Hs Hin).
        * destruct (source_of_in _ _ _ Hs) as [c' Hin']. destruct (I1 _ _ Hin') as [j2 [cc2 [E2 Hj2]]]. inversion E2; subst j2 cc2.
          assert (Hi' : (i' < N)%nat) by (apply HlN; change i' with (fst (i', (Some j, c'))); apply in_map; exact Hin').
          destruct (nth_error (live st) i') as [s|] eqn:Es; [|apply nth_error_None in Es; lia].
          exists i', s. split; [exact Es|split; [rewrite Hy; apply lab_of_nth; exact Es|exact Hj2]].
  Qed.
  (* nothing withheld: no subnet is short of destinations *)
  Lemma complete_no_shortage : incl B ds ->
    forall g, In g (components (items_of m no_pred st ds)) -> shortage g = 0%nat.
  Proof.
    intros Hall g Hg. destruct (components_spec (items_of m no_pred st ds)) as [_ Hp].
    assert (Hv : gvalid g).
    { split.
      - intros it Hit. apply items_char. eapply Permutation_in; [exact Hp|]. apply in_concat. exists g. split; assumption.
      - assert (Hn : NoDup (map fst (concat (components (items_of m no_pred st ds))))).
        { eapply Permutation_NoDup; [apply Permutation_map, Permutation_sym; exact Hp|].
          unfold items_of. rewrite mapi_from_fst. apply seq_NoDup. }
        revert Hn Hg. generalize (components (items_of m no_pred st ds)). intros gs. induction gs as [|g0 gs IH]; intros Hn [].
        + subst g0. cbn [concat] in Hn. rewrite map_app in Hn. eapply NoDup_app_l. exact Hn.
        + apply IH; [|assumption]. cbn [concat] in Hn. rewrite map_app in Hn. eapply NoDup_app_r. exact Hn. }
    rewrite (shortage_lost g Hv). destruct (lost_targets g) as [|x l] eqn:E; [reflexivity|exfalso].
    assert (Hx : In x (lost_targets g)) by (rewrite E; left; reflexivity).
    apply lost_targets_in in Hx. destruct Hx as [it [Hit [Ex Hnd]]]. destruct Hv as [Hv _]. destruct (Hv it Hit) as [a [Ha Eit]].
    apply Hnd. apply Hall. rewrite Ex, Eit. apply R1. exact Ha.
  Qed.
End Step2.

(* ============================================ Part C: induction over frames *)
(* ---- the hypotheses on two consecutive frames of blobs (blob i = entry i) ---- *)
(* the same blobs; each moves at most search_range *)
Definition moves (m : metric) (Bp B : list pt) : Prop :=
  length B = length Bp /\
  forall i p q, nth_error Bp i = Some p -> nth_error B i = Some q -> d2w (mw m) p q <= mR2 m.
(* no blob comes within search_range of the previous position of another blob *)
Definition cross (m : metric) (Bp B : list pt) : Prop :=
  forall i j p q, nth_error Bp i = Some p -> nth_error B j = Some q -> i <> j -> mR2 m < d2w (mw m) p q.
(* the detections handed to the linker: any duplicate-free selection of the blobs *)
Definition given (B ds : list pt) : Prop := NoDup ds /\ incl ds B.
(* the relocation oracle of the frame: searched around previous blob positions
   [pos], knowing the blobs [known], asked for as many points as there are
   unknown blobs within search_range of [pos], it returns exactly these (what it
   returns beyond search_range does not count: add_dest_points drops it) *)
Definition finds (m : metric) (Bp B : list pt) (rel : reloc_fn) : Prop :=
  forall pos known, incl pos Bp -> NoDup pos -> incl known B -> NoDup known ->
    unknown_in_range m B pos known <> [] ->
    Permutation (filter (in_range_any m pos) (rel pos known (length (unknown_in_range m B pos known))))
                (unknown_in_range m B pos known).

(* the live sources are exactly the blobs of the previous frame, source of blob i labelled i *)
Definition tracks_inv (Bp : list pt) (st : lstate) : Prop :=
  length (live st) = length Bp /\ NoDup (map s_lab (live st)) /\
  forall s, In s (live st) -> nth_error Bp (s_lab s) = Some (s_pos s).

(* an output frame: the feature with label i is blob i, for every blob *)
Definition frame_complete (B : list pt) (labs : list nat) (D : list pt) : Prop :=
  Permutation (combine labs D) (combine (seq 0 (length B)) B).

Lemma in_combine_nth {A C} (l1 : list A) : forall (l2 : list C) x y,
  In (x, y) (combine l1 l2) <-> exists j, nth_error l1 j = Some x /\ nth_error l2 j = Some y.
Proof.
  induction l1 as [|a l1 IH]; intros [|b l2] x y; cbn; try (split; [tauto|intros [[|j] [H1 H2]]; discriminate]).
  rewrite IH. split.
  - intros [H|[j Hj]]; [inversion H; subst; exists 0%nat; auto|exists (S j); exact Hj].
  - intros [[|j] [H1 H2]]; cbn in *; [left; congruence|right; exists j; auto].
Qed.

Lemma nth_error_seq s n : forall i x, nth_error (seq s n) i = Some x <-> (x = s + i /\ i < n)%nat.
Proof.
  revert s. induction n as [|n IH]; intros s i x; cbn.
  - split; [destruct i; discriminate|lia].
  - destruct i as [|i]; cbn.
    + split; [intros H; inversion H; lia|intros [-> _]; f_equal; lia].
    + rewrite IH. lia.
Qed.

Lemma nodup_pair_l {A C} (l1 : list A) (l2 : list C) : NoDup l1 -> NoDup (combine l1 l2).
Proof.
  intros H. revert l2. induction H as [|a l1 Ha _ IH]; intros [|b l2]; cbn; try constructor; [|apply IH].
  intros Hin. apply in_combine_l in Hin. contradiction.
Qed.
Lemma nodup_pair_r {A C} (l1 : list A) (l2 : list C) : NoDup l2 -> NoDup (combine l1 l2).
Proof.
  intros H. revert l1. induction H as [|b l2 Hb _ IH]; intros [|a l1]; cbn; try constructor; [|apply IH].
  intros Hin. apply in_combine_r in Hin. contradiction.
Qed.

(* pointwise form of frame_complete *)
Lemma frame_complete_intro B labs D :
  NoDup B -> length labs = length D -> Permutation D B ->
  (forall j lb, nth_error labs j = Some lb -> nth_error D j = nth_error B lb) ->
  frame_complete B labs D.
Proof.
  intros HB HL HP Hpt. assert (HD : NoDup D) by (eapply Permutation_NoDup; [apply Permutation_sym; exact HP|exact HB]).
  unfold frame_complete. apply NoDup_Permutation; [apply nodup_pair_r; exact HD|apply nodup_pair_l; apply seq_NoDup|].
  intros [lb q]. rewrite !in_combine_nth. split.
  - intros [j [H1 H2]]. exists lb. rewrite <- (Hpt j lb H1). split; [|exact H2].
    apply nth_error_seq. split; [reflexivity|]. apply nth_error_Some. rewrite <- (Hpt j lb H1), H2. discriminate.
  - intros [i [H1 H2]]. apply nth_error_seq in H1. destruct H1 as [-> _]. cbn [Nat.add] in *.
    assert (Hq : In q D) by (eapply Permutation_in; [apply Permutation_sym; exact HP|eapply nth_error_In; exact H2]).
    destruct (In_nth_error _ _ Hq) as [j Hj]. pose proof (nth_some_lt _ _ _ Hj) as Hjl. rewrite <- HL in Hjl.
    destruct (nth_error labs j) as [lb|] eqn:El; [|apply nth_error_None in El; lia].
    exists j. split; [|exact Hj]. rewrite El. f_equal.
    rewrite NoDup_nth_error in HB. apply HB.
    + apply nth_error_Some. rewrite <- (Hpt j lb El), Hj. discriminate.
    + rewrite <- (Hpt j lb El), Hj, H2. reflexivity.
Qed.

Section Frame.
  Variables (m : metric) (mem max_size : nat).

  Lemma blobs_nodup Bp B : moves m Bp B -> cross m Bp B -> NoDup B.
  Proof.
    intros [HL Hmv] Hc. apply NoDup_nth_intro. intros k1 k2 y Hne H1 H2.
    pose proof (nth_some_lt _ _ _ H1) as Hk. rewrite HL in Hk.
    destruct (nth_error Bp k1) as [p|] eqn:Ep; [|apply nth_error_None in Ep; lia].
    pose proof (Hmv k1 p y Ep H1). pose proof (Hc k1 k2 p y Ep H2 Hne). lia.
  Qed.

  Theorem find_step_tracks rel st Bp B ds :
    tracks_inv Bp st -> moves m Bp B -> cross m Bp B -> given B ds -> finds m Bp B rel ->
    (length Bp <= max_size)%nat ->
    exists st' labs added,
      find_step m mem max_size no_pred rel st ds = Ok (st', labs, ds ++ added) /\
      length labs = length (ds ++ added) /\
      frame_complete B labs (ds ++ added) /\ tracks_inv B st'.
  Proof.
    intros [HN [Hlab Hsrc]] Hmv Hc Hg Hf Hmax. pose proof (blobs_nodup Bp B Hmv Hc) as HB. destruct Hmv as [HL Hmv].
    set (Tn := fun a => match nth_error (live st) a with Some s => nth (s_lab s) B [] | None => [] end).
    assert (Hfacts : forall a, (a < length (live st))%nat -> exists s q,
               nth_error (live st) a = Some s /\ nth_error Bp (s_lab s) = Some (s_pos s) /\
               nth_error B (s_lab s) = Some q /\ Tn a = q /\ src_pos no_pred st a = s_pos s).
    { intros a Ha. destruct (nth_error (live st) a) as [s|] eqn:Es; [|apply nth_error_None in Es; lia].
      pose proof (Hsrc s (nth_error_In _ _ Es)) as Hp. pose proof (nth_some_lt _ _ _ Hp) as Hl. rewrite <- HL in Hl.
      destruct (nth_error B (s_lab s)) as [q|] eqn:Eq; [|apply nth_error_None in Eq; lia].
      exists s, q. split; [reflexivity|split; [exact Hp|split; [exact Eq|split]]].
      - unfold Tn. rewrite Es. apply nth_error_nth. exact Eq.
      - unfold src_pos. rewrite Es. reflexivity. }
    assert (R1 : forall a, (a < length (live st))%nat -> In (Tn a) B /\ d2w (mw m) (src_pos no_pred st a) (Tn a) <= mR2 m).
    { intros a Ha. destruct (Hfacts a Ha) as [s [q [Es [Hp [Hq [-> ->]]]]]]. split; [eapply nth_error_In; exact Hq|].
      eapply Hmv; eassumption. }
    assert (R2 : forall a q, (a < length (live st))%nat -> In q B -> d2w (mw m) (src_pos no_pred st a) q <= mR2 m -> q = Tn a).
    { intros a q' Ha Hq' Hle. destruct (Hfacts a Ha) as [s [q [Es [Hp [Hq [-> Epos]]]]]]. rewrite Epos in Hle.
      destruct (In_nth_error _ _ Hq') as [j Hj]. destruct (Nat.eq_dec (s_lab s) j) as [E|E].
      - subst j. congruence.
      - pose proof (Hc _ _ _ _ Hp Hj E). lia. }
    assert (R3 : forall a a', (a < length (live st))%nat -> (a' < length (live st))%nat -> Tn a = Tn a' -> a = a').
    { intros a a' Ha Ha' E. destruct (Hfacts a Ha) as [s [q [Es [Hp [Hq [Et Epos]]]]]].
      destruct (Hfacts a' Ha') as [s' [q' [Es' [Hp' [Hq' [Et' Epos']]]]]].
      assert (Eqq : q = q') by congruence. rewrite <- Eqq in Hq'.
      destruct (Nat.eq_dec (s_lab s) (s_lab s')) as [El|El].
      - eapply (NoDup_map_nth s_lab); [exact Hlab|exact Es|exact Es'|exact El].
      - pose proof (Hc _ _ _ _ Hp Hq' El). pose proof (Hmv _ _ _ Hp Hq). lia. }
    assert (R4 : forall q, In q B -> exists a, (a < length (live st))%nat /\ Tn a = q).
    { intros q Hq. destruct (In_nth_error _ _ Hq) as [i Hi]. pose proof (nth_some_lt _ _ _ Hi) as Hil.
      assert (Hin : In i (map s_lab (live st))).
      { apply (NoDup_length_incl Hlab (l' := seq 0 (length Bp))).
        - rewrite map_length, seq_length. lia.
        - intros lb Hlb. apply in_map_iff in Hlb. destruct Hlb as [s [<- Hs]]. apply in_seq.
          pose proof (nth_some_lt _ _ _ (Hsrc s Hs)). lia.
        - apply in_seq. lia. }
      apply in_map_iff in Hin. destruct Hin as [s [El Hs]]. destruct (In_nth_error _ _ Hs) as [a Ha].
      exists a. split; [eapply nth_some_lt; exact Ha|]. unfold Tn. rewrite Ha, El. apply nth_error_nth. exact Hi. }
    assert (Hrel : forall pos known,
      (forall p, In p pos -> exists a, (a < length (live st))%nat /\ p = src_pos no_pred st a) -> NoDup pos ->
      incl known B -> NoDup known -> unknown_in_range m B pos known <> [] ->
      Permutation (filter (in_range_any m pos) (rel pos known (length (unknown_in_range m B pos known))))
                  (unknown_in_range m B pos known)).
    { intros pos known Hpos. apply Hf. intros p Hp. destruct (Hpos p Hp) as [a [Ha ->]].
      destruct (Hfacts a Ha) as [s [q [Es [Hp' [_ [_ ->]]]]]]. eapply nth_error_In. exact Hp'. }
    destruct (find_step_complete m mem max_size rel st ds B Tn HB R1 R2 R3 Hg Hrel R4) as
        [st' [labs [added [E [HP [HLl [Hpt [Hlive Hnow]]]]]]]]; [lia|].
 exists st', labs, added. split; [exact E|]. split; [exact HLl|].
    assert (Hpt' : forall j lb, nth_error labs j = Some lb -> nth_error (ds ++ added) j = nth_error B lb).
    { intros j lb Hj. destruct (Hpt j lb Hj) as [a [s [Es [-> Hd]]]].
      destruct (Hfacts a (nth_some_lt _ _ _ Es)) as [s' [q [Es' [_ [Hq [Et _]]]]]].
      assert (s' = s) by congruence. subst s'. rewrite Hd, Et, Hq. reflexivity. }
    assert (HD : NoDup (ds ++ added)) by (eapply Permutation_NoDup; [apply Permutation_sym; exact HP|exact HB]).
    split; [apply frame_complete_intro; assumption|].
    unfold tracks_inv. rewrite Hlive. split; [|split].
    - rewrite mk_srcs_length by exact HLl. apply Permutation_length. exact HP.
    - rewrite mk_srcs_labs by exact HLl. apply NoDup_nth_intro. intros k1 k2 y Hne H1 H2.
      rewrite NoDup_nth_error in HD. apply Hne. apply HD.
      + rewrite <- HLl. eapply nth_some_lt. exact H1.
      + rewrite (Hpt' k1 y H1), (Hpt' k2 y H2). reflexivity.
    - intros s Hs. destruct (mk_srcs_inv _ _ _ _ Hs) as [j [H1 H2]]. rewrite <- (Hpt' j _ H1). exact H2.
  Qed.
End Frame.

(* ---- whole movies ---- *)
(* one frame after the first: true blobs, detections handed to the linker, relocation oracle *)
Definition bframe := (list pt * list pt * reloc_fn)%type.
Definition linker_input (f : bframe) : list pt * reloc_fn := (snd (fst f), snd f).

Fixpoint movie_ok (m : metric) (Bp : list pt) (frames : list bframe) : Prop :=
  match frames with
  | [] => True
  | (B, ds, rel) :: rest =>
    moves m Bp B /\ cross m Bp B /\ given B ds /\ finds m Bp B rel /\ movie_ok m B rest
  end.

Fixpoint oracles_find (m : metric) (Bp : list pt) (frames : list bframe) : Prop :=
  match frames with
  | [] => True
  | (B, _, rel) :: rest => finds m Bp B rel /\ oracles_find m B rest
  end.

(* every output frame consists of the detections given plus added features, and
   holds every blob under its own number *)
Fixpoint out_complete (frames : list bframe) (out : list (list nat * list pt)) : Prop :=
  match frames, out with
  | [], [] => True
  | (B, ds, _) :: frames', (labs, D) :: out' =>
    (exists added, D = ds ++ added) /\ frame_complete B labs D /\ out_complete frames' out'
  | _, _ => False
  end.

Section Movie.
  Variables (m : metric) (mem max_size : nat).

  Theorem find_run_complete : forall frames Bp st,
    tracks_inv Bp st -> movie_ok m Bp frames -> (length Bp <= max_size)%nat ->
    exists out, find_run m mem max_size no_pred st (map linker_input frames) = Ok out /\ out_complete frames out.
  Proof.
    induction frames as [|[[B ds] rel] frames IH]; intros Bp st Hinv Hok Hmax.
    - exists []. split; [reflexivity|exact I].
    - destruct Hok as [Hmv [Hc [Hg [Hf Hok]]]].
      destruct (find_step_tracks m mem max_size rel st Bp B ds Hinv Hmv Hc Hg Hf Hmax) as [st' [labs [added [E [_ [Hfc Hinv']]]]]].
      destruct (IH B st' Hinv' Hok) as [out [Er Hout]]; [destruct Hmv as [HL _]; rewrite HL; exact Hmax|].
      exists ((labs, ds ++ added) :: out). cbn [map linker_input fst snd find_run]. rewrite E, Er.
      split; [reflexivity|]. cbn [out_complete]. split; [exists added; reflexivity|split; assumption].
  Qed.

  Lemma init_tracks B0 : tracks_inv B0 (fst (init_state B0)).
  Proof.
    unfold init_state. cbn [fst]. unfold tracks_inv. cbn [live].
    assert (HL : length (seq 0 (length B0)) = length B0) by apply seq_length.
    split; [apply mk_srcs_length; exact HL|split].
    - rewrite mk_srcs_labs by exact HL. apply seq_NoDup.
    - intros s Hs. destruct (mk_srcs_inv _ _ _ _ Hs) as [j [H1 H2]]. apply nth_error_seq in H1. destruct H1 as [-> _]. exact H2.
  Qed.

  Theorem find_link_complete_prop B0 frames :
    movie_ok m B0 frames -> (length B0 <= max_size)%nat ->
    exists out, find_link_model m mem max_size no_pred B0 (map linker_input frames)
                = Ok ((seq 0 (length B0), B0) :: out) /\ out_complete frames out.
  Proof.
    intros Hok Hmax. pose proof (init_tracks B0) as Hinv. unfold find_link_model. unfold init_state in *. cbn [fst] in Hinv.
    destruct (find_run_complete frames B0 _ Hinv Hok Hmax) as [out [E Hout]]. exists out. rewrite E. split; [reflexivity|exact Hout].
  Qed.
End Movie.

(* =================================== Part D: the executable hypotheses *)
Lemma near_b_iff m p q : near_b m p q = true <-> d2w (mw m) p q <= mR2 m.
Proof. unfold near_b. apply Z.leb_le. Qed.

Lemma moves_b_sound m : forall Bp B, moves_b m Bp B = true -> moves m Bp B.
Proof.
  induction Bp as [|p Bp IH]; intros [|q B] H; cbn in H; try discriminate.
  - split; [reflexivity|]. intros [|i] p q H1; discriminate.
  - apply andb_true_iff in H. destruct H as [H1 H2]. destruct (IH B H2) as [HL Hmv]. split; [cbn; f_equal; exact HL|].
    intros [|i] p' q' Hp Hq; cbn in Hp, Hq.
    + inversion Hp; inversion Hq; subst. apply near_b_iff. exact H1.
    + eapply Hmv; eassumption.
Qed.

Lemma in_idx {A} (l : list A) i x : In (i, x) (idx l) <-> nth_error l i = Some x.
Proof.
  unfold idx. rewrite in_combine_nth. split.
  - intros [j [H1 H2]]. apply nth_error_seq in H1. destruct H1 as [-> _]. exact H2.
  - intros H. exists i. split; [|exact H]. apply nth_error_seq. split; [reflexivity|eapply nth_some_lt; exact H].
Qed.

Lemma cross_b_sound m Bp B : cross_b m Bp B = true -> cross m Bp B.
Proof.
  unfold cross_b. intros H i j p q Hp Hq Hne. rewrite forallb_forall in H.
  specialize (H (i, p) (proj2 (in_idx Bp i p) Hp)). rewrite forallb_forall in H.
  specialize (H (j, q) (proj2 (in_idx B j q) Hq)). cbn [fst snd] in H.
  apply orb_true_iff in H. destruct H as [H|H]; [apply Nat.eqb_eq in H; contradiction|].
  apply negb_true_iff in H. unfold near_b in H. apply Z.leb_gt in H. exact H.
Qed.

Lemma given_b_sound B ds : given_b B ds = true -> given B ds.
Proof.
  unfold given_b. intros H. apply andb_true_iff in H. destruct H as [H1 H2]. split; [apply nodup_pts_sound; exact H1|].
  rewrite forallb_forall in H2. intros x Hx. apply mem_pt_iff. apply H2. exact Hx.
Qed.

Lemma movie_hyp_sound m : forall (frames : list bframe) Bp,
  movie_hyp_b m Bp (map fst frames) = true -> oracles_find m Bp frames -> movie_ok m Bp frames.
Proof.
  induction frames as [|[[B ds] rel] frames IH]; intros Bp H Ho; [exact I|].
  cbn in H. destruct Ho as [Hf Ho]. apply andb_true_iff in H. destruct H as [H1 H2].
  unfold frame_hyp_b in H1. apply andb_true_iff in H1. destruct H1 as [H1 H3]. apply andb_true_iff in H1. destruct H1 as [H0 H1].
  cbn [movie_ok]. split; [apply moves_b_sound; exact H0|split; [apply cross_b_sound; exact H1|split; [apply given_b_sound; exact H3|split; [exact Hf|]]]].
  apply IH; assumption.
Qed.

(* ---- oracles that satisfy the oracle hypothesis ---- *)
Lemma filter_and_idem {A} (f g : A -> bool) l :
  filter f (filter (fun b => f b && g b) l) = filter (fun b => f b && g b) l.
Proof.
  induction l as [|x l IH]; cbn; [reflexivity|]. destruct (f x) eqn:Ef; cbn; [|exact IH].
  destruct (g x); cbn; [rewrite Ef, IH; reflexivity|exact IH].
Qed.

(* the ideal oracle (returns the unknown blobs within range) satisfies it, for every movie *)
Lemma blob_oracle_finds m Bp B : finds m Bp B (blob_oracle m B).
Proof.
  intros pos known _ _ _ _ _. unfold blob_oracle. rewrite firstn_all. unfold unknown_in_range.
  rewrite filter_and_idem. apply Permutation_refl.
Qed.

(* ... and for a concrete oracle the hypothesis can be checked by enumeration *)
Lemma arrs_complete : forall k l L, NoDup l -> incl l L -> (length l <= k)%nat -> In l (arrs k L).
Proof.
  induction k as [|k IH]; intros l L Hn Hi Hl.
  - destruct l; [left; reflexivity|cbn in Hl; lia].
  - destruct l as [|x l]; [left; reflexivity|]. right. inversion Hn as [|? ? Hx Hn']; subst.
    apply in_flat_map. exists x. split; [apply Hi; left; reflexivity|]. apply in_map. apply IH; [exact Hn'| |cbn in Hl; lia].
    intros y Hy. unfold remove_pt. apply filter_In. split; [apply Hi; right; exact Hy|].
    apply negb_true_iff. destruct (eqb_pt x y) eqn:E; [|reflexivity]. apply eqb_pt_iff in E. subst y. contradiction.
Qed.

Lemma same_set_b_sound a b : same_set_b a b = true -> Permutation a b.
Proof.
  unfold same_set_b. intros H. apply andb_true_iff in H. destruct H as [H H3]. apply andb_true_iff in H. destruct H as [H1 H2].
  apply NoDup_Permutation_bis; [apply nodup_pts_sound; exact H2|apply Nat.leb_le; exact H1|].
  rewrite forallb_forall in H3. intros x Hx. apply mem_pt_iff. apply H3. exact Hx.
Qed.

Theorem finds_b_sound m Bp B rel : finds_b m Bp B rel = true -> finds m Bp B rel.
Proof.
  unfold finds_b. intros H pos known Hpi Hpn Hki Hkn Hne.
  rewrite forallb_forall in H. specialize (H pos (arrs_complete _ pos Bp Hpn Hpi (NoDup_incl_length Hpn Hpi))).
  rewrite forallb_forall in H. specialize (H known (arrs_complete _ known B Hkn Hki (NoDup_incl_length Hkn Hki))).
  cbv zeta in H. destruct (unknown_in_range m B pos known) as [|c C] eqn:E; [contradiction|].
  apply same_set_b_sound. exact H.
Qed.

(* the completeness theorem, hypotheses as evaluated by the harness *)
Theorem find_link_complete m mem max_size B0 (frames : list bframe) :
  movie_hyp_b m B0 (map fst frames) = true -> oracles_find m B0 frames ->
  (length B0 <= max_size)%nat ->
  exists out, find_link_model m mem max_size no_pred B0 (map linker_input frames)
              = Ok ((seq 0 (length B0), B0) :: out) /\ out_complete frames out.
Proof.
  intros Hb Ho Hmax. apply find_link_complete_prop; [|exact Hmax]. apply movie_hyp_sound; assumption.
Qed.

(* ============================================ Part E: detect-then-link *)
(* when no subnet is short of destinations FindLinker's step IS the Linker's step *)
Lemma flat_map_nil {A C} (f : A -> list C) l : (forall x, In x l -> f x = []) -> flat_map f l = [].
Proof. induction l as [|x l IH]; intros H; cbn; [reflexivity|]. rewrite (H x (or_introl eq_refl)), IH; [reflexivity|]. intros y Hy. apply H. right. exact Hy. Qed.

Lemma ext_item_id m pred st ds base it :
  In it (items_of m pred st ds) -> ext_item m pred st ds [] base it = it.
Proof.
  unfold items_of. intros H. apply mapi_from_in in H. destruct H as [i [s [Hn ->]]]. cbn [Nat.add].
  unfold ext_item. cbn [fst real_cands]. rewrite app_nil_r. unfold src_pos. rewrite Hn. reflexivity.
Qed.

Lemma groups_run_no_shortage m max_size pred rel st ds : forall gs a,
  a_added a = [] ->
  (forall g, In g gs -> shortage g = 0%nat /\ forall it, In it g -> In it (items_of m pred st ds)) ->
  groups_run m max_size pred rel st ds a gs =
  match solve_groups max_size gs with
  | Ok l => Ok {| a_added := []; a_links := a_links a ++ l |}
  | Oversize => Oversize
  end.
Proof.
  induction gs as [|g gs IH]; intros a Ha Hgs; cbn [groups_run solve_groups].
  - destruct a as [ad lk]. cbn in *. subst ad. rewrite app_nil_r. reflexivity.
  - destruct (Hgs g (or_introl eq_refl)) as [Hs Hit]. unfold group_step. rewrite Hs. cbn [Nat.ltb Nat.leb].
    assert (Eg : map (ext_item m pred st ds [] (length ds + length (a_added a))) g = g).
    { rewrite <- (map_id g) at 2. apply map_ext_in. intros it Hin. apply ext_item_id. apply Hit. exact Hin. }
    rewrite Eg. destruct (solve_group max_size g) as [l|]; [|reflexivity].
    rewrite IH; [|cbn; rewrite Ha; reflexivity|intros g0 Hg0; apply Hgs; right; exact Hg0].
    cbn [a_links]. destruct (solve_groups max_size gs) as [l'|]; [|reflexivity]. rewrite app_assoc. reflexivity.
Qed.

Lemma find_step_no_shortage m mem max_size pred rel st ds :
  (forall g, In g (components (items_of m pred st ds)) -> shortage g = 0%nat) ->
  find_step m mem max_size pred rel st ds =
  match link_step m mem max_size pred st ds with
  | Ok (st', labs) => Ok (st', labs, ds)
  | Oversize => Oversize
  end.
Proof.
  intros Hs. unfold find_step, find_groups, merge_lost.
  rewrite (flat_map_nil _ (components (items_of m pred st ds))).
  2:{ intros g Hg. rewrite (Hs g Hg). reflexivity. }
  cbn [fold_left]. rewrite groups_run_no_shortage; [|reflexivity|].
  2:{ intros g Hg. split; [apply Hs; exact Hg|]. intros it Hit.
      destruct (components_spec (items_of m pred st ds)) as [_ Hp]. eapply Permutation_in; [exact Hp|].
      apply in_concat. exists g. split; assumption. }
  unfold link_step, step_links. destruct (solve_groups max_size (components (items_of m pred st ds))) as [l|]; [|reflexivity].
  cbn [a_added a_links app]. rewrite app_nil_r. destruct (apply_links mem st ds l). reflexivity.
Qed.

Lemma nth_error_ext_eq {A} : forall (l l' : list A), (forall n, nth_error l n = nth_error l' n) -> l = l'.
Proof.
  induction l as [|x l IH]; intros [|y l'] H; [reflexivity|specialize (H 0%nat); discriminate|specialize (H 0%nat); discriminate|].
  pose proof (H 0%nat) as H0. cbn in H0. inversion H0; subst. f_equal. apply IH. intros n. exact (H (S n)).
Qed.

Lemma frame_complete_same B labs : NoDup B -> frame_complete B labs B -> length labs = length B -> labs = seq 0 (length B).
Proof.
  intros HB Hfc HL. apply nth_error_ext_eq. intros j.
  destruct (nth_error labs j) as [lb|] eqn:El.
  - pose proof (nth_some_lt _ _ _ El) as Hj. rewrite HL in Hj.
    destruct (nth_error B j) as [q|] eqn:Eq; [|apply nth_error_None in Eq; lia].
    assert (Hin : In (lb, q) (combine labs B)) by (apply in_combine_nth; exists j; split; assumption).
    apply (Permutation_in _ Hfc) in Hin. apply in_combine_nth in Hin. destruct Hin as [i [H1 H2]].
    apply nth_error_seq in H1. destruct H1 as [-> Hi]. cbn [Nat.add] in *.
    assert (i = j).
    { rewrite NoDup_nth_error in HB. apply HB; [exact Hi|]. rewrite H2, Eq. reflexivity. }
    subst i. symmetry. apply nth_error_seq. split; [reflexivity|exact Hj].
  - apply nth_error_None in El. symmetry. apply nth_error_None. rewrite seq_length, <- HL. exact El.
Qed.

(* the geometric hypotheses alone, on completely detected frames *)
Fixpoint blobs_ok (m : metric) (Bp : list pt) (Bs : list (list pt)) : Prop :=
  match Bs with
  | [] => True
  | B :: Bs' => moves m Bp B /\ cross m Bp B /\ blobs_ok m B Bs'
  end.

(* find_link's output and detect-then-link's output (labels [dl] of the completely
   detected frames [Bs]) hold the same features under the same labels, frame by frame *)
Fixpoint same_tracks (out : list (list nat * list pt)) (dl : list (list nat)) (Bs : list (list pt)) : Prop :=
  match out, dl, Bs with
  | [], [], [] => True
  | (labs, D) :: out', l :: dl', B :: Bs' => Permutation (combine labs D) (combine l B) /\ same_tracks out' dl' Bs'
  | _, _, _ => False
  end.

Section DetectThenLink.
  Variables (m : metric) (mem max_size : nat).

  (* one step of the plain Linker on a completely detected frame *)
  Theorem link_step_tracks st Bp B :
    tracks_inv Bp st -> moves m Bp B -> cross m Bp B -> (length Bp <= max_size)%nat ->
    exists st', link_step m mem max_size no_pred st B = Ok (st', seq 0 (length B)) /\ tracks_inv B st'.
  Proof.
    intros Hinv Hmv Hc Hmax. pose proof (blobs_nodup m Bp B Hmv Hc) as HB.
    assert (Hg : given B B) by (split; [exact HB|apply incl_refl]).
    destruct (find_step_tracks m mem max_size (blob_oracle m B) st Bp B B Hinv Hmv Hc Hg (blob_oracle_finds m Bp B) Hmax)
      as [st' [labs [added [E [HLl [Hfc Hinv']]]]]].
    assert (Hns : forall g, In g (components (items_of m no_pred st B)) -> shortage g = 0%nat).
    { (* the facts R1-R3 of the step, re-derived to apply complete_no_shortage *)
      destruct Hinv as [HN [Hlab Hsrc]]. destruct Hmv as [HL Hmv].
      set (Tn := fun a => match nth_error (live st) a with Some s => nth (s_lab s) B [] | None => [] end).
      assert (Hfacts : forall a, (a < length (live st))%nat -> exists s q,
                 nth_error (live st) a = Some s /\ nth_error Bp (s_lab s) = Some (s_pos s) /\
                 nth_error B (s_lab s) = Some q /\ Tn a = q /\ src_pos no_pred st a = s_pos s).
      { intros a Ha. destruct (nth_error (live st) a) as [s|] eqn:Es; [|apply nth_error_None in Es; lia].
        pose proof (Hsrc s (nth_error_In _ _ Es)) as Hp. pose proof (nth_some_lt _ _ _ Hp) as Hl. rewrite <- HL in Hl.
        destruct (nth_error B (s_lab s)) as [q|] eqn:Eq; [|apply nth_error_None in Eq; lia].
        exists s, q. split; [reflexivity|split; [exact Hp|split; [exact Eq|split]]].
        - unfold Tn. rewrite Es. apply nth_error_nth. exact Eq.
        - unfold src_pos. rewrite Es. reflexivity. }
      apply (complete_no_shortage m st B B Tn).
      - intros a Ha. destruct (Hfacts a Ha) as [s [q [Es [Hp [Hq [-> ->]]]]]]. split; [eapply nth_error_In; exact Hq|].
        eapply Hmv; eassumption.
      - intros a q' Ha Hq' Hle. destruct (Hfacts a Ha) as [s [q [Es [Hp [Hq [-> Epos]]]]]]. rewrite Epos in Hle.
        destruct (In_nth_error _ _ Hq') as [j Hj]. destruct (Nat.eq_dec (s_lab s) j) as [E0|E0].
        + subst j. congruence.
        + pose proof (Hc _ _ _ _ Hp Hj E0). lia.
      - intros a a' Ha Ha' E0. destruct (Hfacts a Ha) as [s [q [Es [Hp [Hq [Et Epos]]]]]].
        destruct (Hfacts a' Ha') as [s' [q' [Es' [Hp' [Hq' [Et' Epos']]]]]].
        assert (Eqq : q = q') by congruence. rewrite <- Eqq in Hq'.
        destruct (Nat.eq_dec (s_lab s) (s_lab s')) as [El|El].
        + eapply (NoDup_map_nth s_lab); [exact Hlab|exact Es|exact Es'|exact El].
        + pose proof (Hc _ _ _ _ Hp Hq' El). pose proof (Hmv _ _ _ Hp Hq). lia.
      - exact Hg.
      - apply incl_refl. }
    rewrite (find_step_no_shortage m mem max_size no_pred (blob_oracle m B) st B Hns) in E.
    destruct (link_step m mem max_size no_pred st B) as [[st1 labs1]|]; [|discriminate].
    inversion E as [[E1 E2 E3]]. subst st1 labs1.
    assert (added = []) by (destruct added; [reflexivity|apply (f_equal (@length pt)) in E3; rewrite app_length in E3; cbn in E3; lia]).
    subst added. rewrite app_nil_r in *.
    exists st'. split; [|exact Hinv']. f_equal. f_equal. apply frame_complete_same; [exact HB|exact Hfc|exact HLl].
  Qed.

  Theorem run_from_tracks : forall Bs Bp st,
    tracks_inv Bp st -> (length Bp <= max_size)%nat ->
    blobs_ok m Bp Bs ->
    run_from m mem max_size no_pred st Bs = Ok (map (fun B => seq 0 (length B)) Bs).
  Proof.
    induction Bs as [|B Bs IH]; intros Bp st Hinv Hmax Hok; [reflexivity|].
    destruct Hok as [Hmv [Hc Hok]].
    destruct (link_step_tracks st Bp B Hinv Hmv Hc Hmax) as [st' [E Hinv']].
    cbn [run_from map]. rewrite E. rewrite (IH B st' Hinv'); [reflexivity| |exact Hok].
    destruct Hmv as [HL _]. rewrite HL. exact Hmax.
  Qed.
End DetectThenLink.

Lemma movie_blobs_ok m : forall (frames : list bframe) Bp,
  movie_ok m Bp frames -> blobs_ok m Bp (map (fun f : bframe => fst (fst f)) frames).
Proof.
  induction frames as [|[[B ds] rel] frames IH]; intros Bp H; [exact I|].
  destruct H as [H1 [H2 [_ [_ H5]]]]. cbn. split; [exact H1|split; [exact H2|apply IH; exact H5]].
Qed.

(* detect-then-link on the completely detected movie: blob i gets label i in every frame *)
Theorem link_iter_tracks m mem max_size B0 Bs :
  blobs_ok m B0 Bs -> (length B0 <= max_size)%nat ->
  link_iter m mem max_size no_pred (B0 :: Bs) = Ok (map (fun B => seq 0 (length B)) (B0 :: Bs)).
Proof.
  intros Hok Hmax. unfold link_iter. pose proof (init_tracks B0) as Hinv. unfold init_state in *. cbn [fst] in Hinv.
  rewrite (run_from_tracks m mem max_size Bs B0 _ Hinv Hmax Hok). reflexivity.
Qed.

Lemma out_complete_same : forall (frames : list bframe) out,
  out_complete frames out ->
  same_tracks out (map (fun B => seq 0 (length B)) (map (fun f : bframe => fst (fst f)) frames))
              (map (fun f : bframe => fst (fst f)) frames).
Proof.
  induction frames as [|[[B ds] rel] frames IH]; intros [|[labs D] out] H; cbn in H; try contradiction; [exact I|].
  destruct H as [_ [Hfc H]]. cbn. split; [exact Hfc|apply IH; exact H].
Qed.

(* whatever is withheld after the first frame, find_link = detect-then-link *)
Theorem find_link_equals_detect_then_link m mem max_size B0 (frames : list bframe) :
  movie_hyp_b m B0 (map fst frames) = true -> oracles_find m B0 frames ->
  (length B0 <= max_size)%nat ->
  exists out dl,
    find_link_model m mem max_size no_pred B0 (map linker_input frames) = Ok out /\
    link_iter m mem max_size no_pred (B0 :: map (fun f : bframe => fst (fst f)) frames) = Ok dl /\
    same_tracks out dl (B0 :: map (fun f : bframe => fst (fst f)) frames).
Proof.
  intros Hb Ho Hmax. pose proof (movie_hyp_sound m frames B0 Hb Ho) as Hok.
  destruct (find_link_complete_prop m mem max_size B0 frames Hok Hmax) as [out [E Hout]].
  eexists. eexists. split; [exact E|]. split; [apply link_iter_tracks; [apply movie_blobs_ok; exact Hok|exact Hmax]|].
  cbn [map same_tracks]. split; [apply Permutation_refl|apply out_complete_same; exact Hout].
Qed.

(* ---- (H-cross) from a per-frame separation: blobs of the previous frame farther
   apart than 2*search_range, each moving at most search_range (isotropic metric:
   weight k*k on each of n axes, search_range*k = R) ---- *)
Lemma sqd_scale k a : forall b, sqd (map (Z.mul k) a) (map (Z.mul k) b) = k * k * sqd a b.
Proof. induction a as [|x a IH]; intros [|y b]; cbn [map sqd]; try ring. rewrite IH. ring. Qed.

Lemma d2w_repeat w n : forall a b, length a = n -> length b = n -> d2w (repeat w n) a b = w * sqd a b.
Proof.
  induction n as [|n IH]; intros [|x a] [|y b] Ha Hb; cbn in *; try discriminate; [ring|].
  rewrite IH by lia. ring.
Qed.

Theorem cross_of_twice k n R Bp B :
  0 <= R ->
  let m := {| mw := repeat (k * k) n; mR2 := R * R |} in
  Forall (fun p => length p = n) Bp -> Forall (fun p => length p = n) B ->
  moves m Bp B ->
  (forall i j p p', nth_error Bp i = Some p -> nth_error Bp j = Some p' -> i <> j -> 4 * (R * R) < d2w (mw m) p p') ->
  cross m Bp B.
Proof.
  intros HR m HBp HB [HL Hmv] Htw i j p q Hp Hq Hne. subst m. cbn [mw mR2] in *.
  pose proof (nth_some_lt _ _ _ Hq) as Hj. rewrite HL in Hj.
  destruct (nth_error Bp j) as [p'|] eqn:Ep'; [|exfalso; apply nth_error_None in Ep'; apply (Nat.lt_irrefl j); eapply Nat.lt_le_trans; [exact Hj|exact Ep']].
  pose proof (Hmv j p' q Ep' Hq) as H1. pose proof (Htw i j p p' Hp Ep' Hne) as H2.
  rewrite Forall_forall in HBp, HB.
  pose proof (HBp p (nth_error_In _ _ Hp)) as Lp. pose proof (HBp p' (nth_error_In _ _ Ep')) as Lp'.
  pose proof (HB q (nth_error_In _ _ Hq)) as Lq.
  rewrite d2w_repeat in H1, H2 by assumption. rewrite d2w_repeat by assumption.
  destruct (Z_lt_le_dec (R * R) (k * k * sqd p q)) as [H|H]; [exact H|exfalso].
  pose proof (triangle 1 R R (map (Z.mul k) q) (map (Z.mul k) p') (map (Z.mul k) p)) as T.
  rewrite !map_length, !sqd_scale in T.
  assert (T' : 1 * 1 * (k * k * sqd p' p) <= (R * 1 + R) * (R * 1 + R)).
  { apply T; try lia. rewrite (sqd_sym q p). lia. rewrite (sqd_sym q p'). lia. }
  rewrite (sqd_sym p' p) in T'. lia.
Qed.

(* ------------------------------------------------------------ non-vacuity *)
(* (a) the ideal oracle: three blobs, three later frames, different detections
   withheld in each (all / one / none): the hypotheses hold and the model
   returns every blob under its own number *)
Definition ex_m : metric := {| mw := [1; 1]; mR2 := 25 |}.
Definition ex_B0 : list pt := [[10; 10]; [10; 30]; [30; 20]].
Definition ex_B1 : list pt := [[13; 12]; [10; 26]; [30; 24]].
Definition ex_B2 : list pt := [[16; 14]; [12; 23]; [27; 27]].
Definition ex_B3 : list pt := [[16; 18]; [12; 23]; [25; 30]].
Definition ex_frames : list bframe :=
  [(ex_B1, [], blob_oracle ex_m ex_B1);
   (ex_B2, [[27; 27]; [16; 14]], blob_oracle ex_m ex_B2);
   (ex_B3, ex_B3, blob_oracle ex_m ex_B3)].

Example complete_example_hyps :
  movie_hyp_b ex_m ex_B0 (map fst ex_frames) = true /\ oracles_find ex_m ex_B0 ex_frames /\ (length ex_B0 <= 30)%nat.
Proof.
  split; [vm_compute; reflexivity|]. split; [|cbn; lia].
  cbn [oracles_find ex_frames]. repeat split; apply blob_oracle_finds.
Qed.

Example complete_example_run :
  find_link_model ex_m 0 30 no_pred ex_B0 (map linker_input ex_frames)
  = Ok [([0; 1; 2]%nat, ex_B0);
        ([2; 1; 0]%nat, [[30; 24]; [10; 26]; [13; 12]]);             (* all three relocated *)
        ([2; 0; 1]%nat, [[27; 27]; [16; 14]; [12; 23]]);             (* blob 1 relocated *)
        ([0; 1; 2]%nat, ex_B3)].
Proof. vm_compute. reflexivity. Qed.

(* (b) FindLinker's own image search as the oracle (default parameters:
   search_range 5, separation 9, radius 4): two bright pixels per frame; the
   oracle hypothesis is CHECKED by enumeration (finds_b), all detections of the
   second frame and one of the third are withheld *)
Definition ex_P : fparams := mk_params 2 1 5 9 4 0 false true.
Definition ex_im1 : image := spots 40 40 [(33, 20, 100); (26, 28, 100)].
Definition ex_im2 : image := spots 40 40 [(34, 21, 100); (27, 28, 100)].
Definition ex_C0 : list pt := [[32; 20]; [26; 27]].
Definition ex_C1 : list pt := [[33; 20]; [26; 28]].
Definition ex_C2 : list pt := [[34; 21]; [27; 28]].
Definition ex_iframes : list bframe :=
  [(ex_C1, [], image_reloc ex_P ex_im1 (Some (Qmake 50 1)));
   (ex_C2, [[27; 28]], image_reloc ex_P ex_im2 (Some (Qmake 50 1)))].

Example complete_image_example_hyps :
  movie_hyp_b (fmet ex_P) ex_C0 (map fst ex_iframes) = true /\ oracles_find (fmet ex_P) ex_C0 ex_iframes /\
  (length ex_C0 <= 30)%nat.
Proof.
  split; [vm_compute; reflexivity|]. split; [|cbn; lia].
  cbn [oracles_find ex_iframes]. repeat split; apply finds_b_sound; vm_compute; reflexivity.
Qed.

Example complete_image_example_run :
  find_link_model (fmet ex_P) 0 30 no_pred ex_C0 (map linker_input ex_iframes)
  = Ok [([0; 1]%nat, ex_C0); ([0; 1]%nat, [[33; 20]; [26; 28]]); ([1; 0]%nat, [[27; 28]; [34; 21]])].
Proof. vm_compute. reflexivity. Qed.
