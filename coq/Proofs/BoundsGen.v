(* Route T for C16: the functions generated from the CURRENT source of
   FitFunctions.validate_bounds / compute_bounds and of the wiring in
   refine_leastsq (Gen/bounds.v, tools/py2coq_bounds.py) are equal, for all
   inputs, to the hand model of Model/RefineBounds.v.  Every theorem about
   validate_one / bound_low / bound_high / box_low / box_high therefore holds of
   the translated code; Properties/C16.v restates the bounds theorems for the
   generated functions through these equalities. *)
From Coq Require Import ZArith QArith List Bool String Lia.
From TP Require Import Model.RefineBounds Model.PyBounds Gen.bounds Proofs.RefineBounds.
Import ListNotations.
Open Scope Q_scope.

Module G := Gen.bounds.

Lemma dict_get_eq : forall d k, dict_get d k = get d k.
Proof. intros d k. unfold dict_get, get. destruct (lookup d k) as [[[| | |q]|a b]|]; reflexivity. Qed.

(* ---- validate_bounds ---------------------------------------------------------- *)
(* radius: the code holds Python ints (x // 2), the hand model their values as rationals *)
Definition radiusQ (radius : list Z) : list Q := map inject_Z radius.

Lemma nth_radiusQ : forall radius k, nth k (radiusQ radius) 0 = inject_Z (nth k radius 0%Z).
Proof. intros radius k. unfold radiusQ. change 0 with (inject_Z 0). apply map_nth. Qed.

Lemma col_of_some : forall v, col_of (Some v) = to_pair v.
Proof. destruct v; reflexivity. Qed.

Lemma in_names_eq : forall p, in_names p ["background"%string; "signal"%string] =
  match p with PBackground | PSignal => true | _ => false end.
Proof. destruct p; reflexivity. Qed.

Theorem gen_validate_loop_eq : forall d radius p,
  G.validate_bounds_loop d radius p =
  (b_abs (validate_one d (radiusQ radius) p), b_diff (validate_one d (radiusQ radius) p),
   b_rel (validate_one d (radiusQ radius) p)).
Proof.
  intros d radius p. unfold G.validate_bounds_loop, validate_one, get_form. cbn [b_abs b_diff b_rel].
  rewrite !dict_get_eq.
  change (key_param p "") with (KParam p FAbs). change (key_param p "_abs") with (KParam p FDiff).
  change (key_param p "_rel") with (KParam p FRel).
  change (key_lit "pos") with (KPos FAbs). change (key_lit "pos_abs") with (KPos FDiff).
  change (key_lit "pos_rel") with (KPos FRel). change (key_lit "size") with (KSize FAbs).
  change (key_lit "size_abs") with (KSize FDiff). change (key_lit "size_rel") with (KSize FRel).
  rewrite in_names_eq.
  destruct p as [| |k|k|k]; cbn [in_pos_columns in_size_columns pos_index default_abs default_diff];
    rewrite ?andb_false_r, ?andb_true_r; cbn [orb andb];
    try rewrite nth_radiusQ;
    repeat match goal with
           | |- context [get d ?k] => destruct (get d k) as [[?|? ?]|]; cbn [is_np_nan col_of to_pair]
           end; reflexivity.
Qed.

Theorem gen_validate_eq : forall ps d radius,
  G.validate_bounds ps (Some d) radius =
  (map b_abs (RefineBounds.validate_bounds d (radiusQ radius) ps),
   map b_diff (RefineBounds.validate_bounds d (radiusQ radius) ps),
   map b_rel (RefineBounds.validate_bounds d (radiusQ radius) ps)).
Proof.
  intros ps d radius. unfold G.validate_bounds, RefineBounds.validate_bounds. rewrite !map_map.
  f_equal; [f_equal|]; apply map_ext; intro p; rewrite gen_validate_loop_eq; reflexivity.
Qed.

(* bounds=None is bounds={} *)
Theorem gen_validate_none : forall ps radius,
  G.validate_bounds ps None radius = G.validate_bounds ps (Some []) radius.
Proof. reflexivity. Qed.

(* ---- compute_bounds ----------------------------------------------------------- *)
Theorem gen_bound_low_eq : forall a d r p,
  G.compute_bounds_bound_low a d r p = bound_low p (fst a) (fst d) (fst r).
Proof.
  intros a d r p. unfold G.compute_bounds_bound_low, bound_low, np_nanmax2, np_fmax, fsub, fdiv, nan_to_ninf.
  destruct (emax (emax (esub p (fst d)) (ediv p (fst r))) (fst a)); reflexivity.
Qed.

Theorem gen_bound_high_eq : forall a d r p,
  G.compute_bounds_bound_high a d r p = bound_high p (snd a) (snd d) (snd r).
Proof.
  intros a d r p. unfold G.compute_bounds_bound_high, bound_high, np_nanmin2, np_fmin, fadd, fmul, nan_to_pinf.
  destruct (emin (emin (eadd p (snd d)) (emul p (snd r))) (snd a)); reflexivity.
Qed.

Lemma bcast_low_eq : forall bs cols,
  bcast G.compute_bounds_bound_low (map b_abs bs) (map b_diff bs) (map b_rel bs) cols = lows bs cols.
Proof.
  induction bs as [|b bs IH]; intros cols; destruct cols as [|c cols]; try reflexivity.
  cbn [map bcast]. unfold lows in *. cbn [map2]. rewrite IH. f_equal.
  unfold low_col. apply map_ext. intro p. apply gen_bound_low_eq.
Qed.

Lemma bcast_high_eq : forall bs cols,
  bcast G.compute_bounds_bound_high (map b_abs bs) (map b_diff bs) (map b_rel bs) cols = highs bs cols.
Proof.
  induction bs as [|b bs IH]; intros cols; destruct cols as [|c cols]; try reflexivity.
  cbn [map bcast]. unfold highs in *. cbn [map2]. rewrite IH. f_equal.
  unfold high_col. apply map_ext. intro p. apply gen_bound_high_eq.
Qed.

Theorem gen_compute_eq : forall modes bs params g,
  G.compute_bounds modes (map b_abs bs, map b_diff bs, map b_rel bs) params g =
  (box_low bs modes g params, box_high bs modes g params).
Proof.
  intros modes bs params g. unfold G.compute_bounds. rewrite bcast_low_eq, bcast_high_eq. reflexivity.
Qed.

(* ---- the wiring in refine_leastsq ---------------------------------------------- *)
(* what scipy's minimize receives as `bounds=` for a unit with start values
   `params`, for every bounds dictionary, diameter, parameter list and mode
   vector: the hand model's box, with radius = diameter // 2 *)
Theorem gen_f_bounds_eq : forall ps modes d diameter params g,
  G.refine_leastsq_f_bounds ps modes (Some d) diameter params g =
  (box_low (RefineBounds.validate_bounds d (radiusQ (G.refine_leastsq_radius diameter)) ps) modes g params,
   box_high (RefineBounds.validate_bounds d (radiusQ (G.refine_leastsq_radius diameter)) ps) modes g params).
Proof.
  intros. unfold G.refine_leastsq_f_bounds. rewrite gen_validate_eq. apply gen_compute_eq.
Qed.

Theorem gen_f_bounds_none : forall ps modes diameter params g,
  G.refine_leastsq_f_bounds ps modes None diameter params g =
  G.refine_leastsq_f_bounds ps modes (Some []) diameter params g.
Proof. reflexivity. Qed.

(* ---- the bounds theorems, restated for the generated functions ------------------ *)
Theorem gen_bounds_algebra : forall start a d r v,
  (sat_low (G.compute_bounds_bound_low a d r start) v <->
     sat_low (esub start (fst d)) v /\ sat_low (ediv start (fst r)) v /\ sat_low (fst a) v) /\
  (sat_high (G.compute_bounds_bound_high a d r start) v <->
     sat_high (eadd start (snd d)) v /\ sat_high (emul start (snd r)) v /\ sat_high (snd a) v) /\
  G.compute_bounds_bound_low (NaN, NaN) (NaN, NaN) (NaN, NaN) start = NInf /\
  G.compute_bounds_bound_high (NaN, NaN) (NaN, NaN) (NaN, NaN) start = PInf.
Proof.
  intros. rewrite gen_bound_low_eq, gen_bound_high_eq. split; [apply bound_low_spec|].
  split; [apply bound_high_spec|]. split; reflexivity.
Qed.

Theorem gen_default_position_within_radius : forall d radius k start v,
  dict_get d (key_param (PPos k) "_abs") = None -> dict_get d (key_lit "pos_abs") = None ->
  let '(a, df, r) := G.validate_bounds_loop d radius (PPos k) in
  sat_low (G.compute_bounds_bound_low a df r start) v ->
  sat_high (G.compute_bounds_bound_high a df r start) v ->
  start - inject_Z (nth k radius 0%Z) <= v /\ v <= start + inject_Z (nth k radius 0%Z).
Proof.
  intros d radius k start v H1 H2. rewrite gen_validate_loop_eq.
  rewrite gen_bound_low_eq, gen_bound_high_eq. rewrite dict_get_eq in H1, H2.
  intros L H. rewrite <- nth_radiusQ.
  exact (default_pos_within_radius d (radiusQ radius) k start v H1 H2 L H).
Qed.

Theorem gen_default_positive : forall d radius pk start v,
  positive_kind pk ->
  dict_get d (key_param pk "") = None ->
  (in_size_columns pk = true -> dict_get d (key_lit "size") = None) ->
  let '(a, df, r) := G.validate_bounds_loop d radius pk in
  sat_low (G.compute_bounds_bound_low a df r start) v ->
  eps <= v /\ 0 < v.
Proof.
  intros d radius pk start v K H1 H2. rewrite gen_validate_loop_eq. rewrite gen_bound_low_eq.
  rewrite dict_get_eq in H1. intro L.
  apply (default_positive d (radiusQ radius) pk start v K); auto.
  unfold get_form. change (key_param pk "") with (KParam pk FAbs) in H1. rewrite H1.
  destruct pk; simpl in K; try tauto; try reflexivity.
  rewrite <- dict_get_eq. apply H2. reflexivity.
Qed.
