(* C18 -- proofs about Model/Drift.v against the vocabulary of Model/DriftSpec.v *)
From Coq Require Import ZArith QArith Qabs List Bool Lia Permutation Sorted Setoid Morphisms.
From TP Require Import Model.Drift Model.DriftSpec.
Import ListNotations.
Open Scope Z_scope.

(* ------------------------------------------------------------------------- *)
(* A. the stable insertion sort                                               *)
(* ------------------------------------------------------------------------- *)
Lemma insert_perm le x l : Permutation (insert_by le x l) (x :: l).
Proof.
  induction l as [|y l IH]; cbn; [reflexivity|].
  destruct (le x y); [reflexivity|].
  rewrite IH. apply perm_swap.
Qed.

Lemma isort_perm le l : Permutation (isort le l) l.
Proof.
  induction l as [|x l IH]; cbn; [reflexivity|].
  rewrite insert_perm. now constructor.
Qed.

Section SortGeneric.
  Variable le : row -> row -> bool.
  Hypothesis le_total : forall a b, le a b = false -> le b a = true.
  Hypothesis le_trans : forall a b c, le a b = true -> le b c = true -> le a c = true.

  Let R a b := le a b = true.

  Lemma insert_sorted x l : StronglySorted R l -> StronglySorted R (insert_by le x l).
  Proof.
    induction 1 as [|y l Hs IH Hy]; cbn.
    - constructor; constructor.
    - destruct (le x y) eqn:E.
      + constructor; [constructor; assumption|].
        constructor; [exact E|].
        rewrite Forall_forall in *. intros z Hz. eapply le_trans; [exact E|]. now apply Hy.
      + constructor; [exact IH|].
        rewrite Forall_forall in *. intros z Hz.
        apply (Permutation_in _ (insert_perm le x l)) in Hz. destruct Hz as [<-|Hz].
        * now apply le_total.
        * now apply Hy.
  Qed.

  Lemma isort_sorted l : StronglySorted R (isort le l).
  Proof. induction l; cbn; [constructor|now apply insert_sorted]. Qed.
End SortGeneric.

(* strict lexicographic order on (particle, frame) *)
Definition klt (a b : row) : Prop :=
  particle a < particle b \/ (particle a = particle b /\ frame a < frame b).

Lemma le_pf_total a b : le_pf a b = false -> le_pf b a = true.
Proof.
  unfold le_pf. intros H.
  destruct (particle a <? particle b) eqn:E1; cbn in H; [discriminate|].
  apply Z.ltb_ge in E1.
  destruct (particle a =? particle b) eqn:E2; cbn in H.
  - apply Z.eqb_eq in E2. apply Z.leb_gt in H.
    replace (particle b <? particle a) with false by (symmetry; apply Z.ltb_ge; lia).
    replace (particle b =? particle a) with true by (symmetry; apply Z.eqb_eq; lia).
    cbn. apply Z.leb_le. lia.
  - apply Z.eqb_neq in E2.
    replace (particle b <? particle a) with true by (symmetry; apply Z.ltb_lt; lia).
    reflexivity.
Qed.

Lemma le_pf_spec a b :
  le_pf a b = true <-> particle a < particle b \/ (particle a = particle b /\ frame a <= frame b).
Proof.
  unfold le_pf. rewrite orb_true_iff, andb_true_iff, Z.ltb_lt, Z.eqb_eq, Z.leb_le. tauto.
Qed.

Lemma le_pf_trans a b c : le_pf a b = true -> le_pf b c = true -> le_pf a c = true.
Proof. rewrite !le_pf_spec. lia. Qed.

Lemma sorted_strict l :
  StronglySorted (fun a b => le_pf a b = true) l -> NoDup (map key l) -> StronglySorted klt l.
Proof.
  induction 1 as [|a l Hs IH Ha]; intros Hnd; [constructor|].
  cbn in Hnd. inversion Hnd as [|? ? Hnotin Hnd']; subst.
  constructor; [now apply IH|].
  rewrite Forall_forall in *. intros b Hb.
  specialize (Ha b Hb). apply le_pf_spec in Ha.
  assert (key a <> key b) as Hk.
  { intros E. apply Hnotin. rewrite E. now apply in_map. }
  unfold klt. unfold key in Hk.
  destruct Ha as [Ha|[Ha1 Ha2]]; [now left|].
  right. split; [exact Ha1|].
  assert (frame a <> frame b) by (intros E; apply Hk; now rewrite Ha1, E).
  lia.
Qed.

Lemma sort_pf_sorted t : trajectory_table t -> StronglySorted klt (isort le_pf t).
Proof.
  intros Hnd. apply sorted_strict.
  - apply isort_sorted; [exact le_pf_total|exact le_pf_trans].
  - unfold trajectory_table in Hnd.
    eapply Permutation_NoDup; [|exact Hnd].
    apply Permutation_map. symmetry. apply isort_perm.
Qed.

Lemma SS_app_inv {A} (R : A -> A -> Prop) l1 l2 :
  StronglySorted R (l1 ++ l2) ->
  StronglySorted R l1 /\ StronglySorted R l2 /\ (forall a b, In a l1 -> In b l2 -> R a b).
Proof.
  induction l1 as [|x l1 IH]; cbn; intros H.
  - repeat split; [constructor|exact H|intros ? ? []].
  - inversion H as [|? ? Hs Hx]; subst.
    destruct (IH Hs) as (H1 & H2 & H3).
    rewrite Forall_forall in Hx.
    repeat split.
    + constructor; [exact H1|]. rewrite Forall_forall. intros z Hz. apply Hx. apply in_or_app. now left.
    + exact H2.
    + intros a b [<-|Ha] Hb; [apply Hx; apply in_or_app; now right|now apply H3].
Qed.

(* ------------------------------------------------------------------------- *)
(* B. on a strictly sorted table, diff + mask selects exactly all pairs       *)
(* ------------------------------------------------------------------------- *)
Definition contrib (f : Z) (a b : row) : list Q :=
  if is_step f a b then [(pos b - pos a)%Q] else [].

Lemma disps_unfold t f :
  disps t f = flat_map (fun b => flat_map (fun a => contrib f a b) t) t.
Proof. reflexivity. Qed.

Definition sel_from (f : Z) (prev : row) (l : list row) : list Q :=
  map d_pos (filter (fun d => d_at d =? f) (filter mask (diff_from prev l))).

Lemma flat_map_nil {A B} (g : A -> list B) l :
  (forall x, In x l -> g x = []) -> flat_map g l = [].
Proof.
  induction l as [|x l IH]; cbn; intros H; [reflexivity|].
  rewrite (H x) by now left. cbn. apply IH. intros; apply H; now right.
Qed.

Lemma is_step_true f a b :
  is_step f a b = true <-> particle a = particle b /\ frame a + 1 = f /\ frame b = f.
Proof. unfold is_step. rewrite !andb_true_iff, !Z.eqb_eq. tauto. Qed.

Lemma contrib_nil f a b : ~ (particle a = particle b /\ frame a + 1 = frame b) -> contrib f a b = [].
Proof.
  intros H. unfold contrib. destruct (is_step f a b) eqn:E; [|reflexivity].
  apply is_step_true in E. exfalso. apply H. lia.
Qed.

Lemma sel_from_pairs f : forall l pre p,
  StronglySorted klt (pre ++ p :: l) ->
  sel_from f p l = flat_map (fun b => flat_map (fun a => contrib f a b) (pre ++ p :: l)) l.
Proof.
  induction l as [|r l IH]; intros pre p Hs; [reflexivity|].
  cbn [flat_map].
  assert (Hs' : StronglySorted klt ((pre ++ [p]) ++ r :: l)) by (rewrite <- app_assoc; exact Hs).
  specialize (IH (pre ++ [p]) r Hs').
  rewrite <- app_assoc in IH. cbn [app] in IH.
  rewrite <- IH. clear IH Hs'.
  destruct (SS_app_inv _ _ _ Hs) as (_ & Hs2 & Hcross).
  inversion Hs2 as [|? ? Hs3 Hp]; subst.
  inversion Hs3 as [|? ? _ Hr]; subst.
  rewrite Forall_forall in Hp, Hr.
  assert (Hpr : klt p r) by (apply Hp; now left).
  (* the inner sum over all rows reduces to the predecessor's contribution *)
  rewrite flat_map_app. cbn [flat_map].
  rewrite (flat_map_nil (fun a => contrib f a r) pre).
  2:{ intros a Ha. apply contrib_nil. intros [E1 E2].
      assert (klt a p) as Hap by (apply Hcross; [exact Ha|now left]).
      unfold klt in *. lia. }
  rewrite (contrib_nil f r r) by lia.
  rewrite (flat_map_nil (fun a => contrib f a r) l).
  2:{ intros a Ha. apply contrib_nil. intros [E1 E2].
      assert (klt r a) as Hra by now apply Hr.
      unfold klt in *. lia. }
  cbn [app]. rewrite app_nil_r.
  unfold sel_from. cbn [diff_from filter].
  unfold mask at 1. cbn [d_particle d_frame].
  unfold contrib, is_step.
  destruct (particle p =? particle r) eqn:E1;
    [apply Z.eqb_eq in E1; replace (particle r - particle p =? 0) with true by (symmetry; apply Z.eqb_eq; lia)
    |apply Z.eqb_neq in E1; replace (particle r - particle p =? 0) with false by (symmetry; apply Z.eqb_neq; lia)];
    cbn [andb]; [|reflexivity].
  destruct (frame r - frame p =? 1) eqn:E2.
  - apply Z.eqb_eq in E2. cbn [filter d_at].
    destruct (frame r =? f) eqn:E3.
    + apply Z.eqb_eq in E3. replace (frame p + 1 =? f) with true by (symmetry; apply Z.eqb_eq; lia).
      reflexivity.
    + rewrite andb_false_r. reflexivity.
  - apply Z.eqb_neq in E2.
    destruct (frame p + 1 =? f) eqn:E4; cbn [andb]; [|reflexivity].
    apply Z.eqb_eq in E4.
    replace (frame r =? f) with false by (symmetry; apply Z.eqb_neq; lia). reflexivity.
Qed.

Lemma selected_pairs s f :
  StronglySorted klt s ->
  map d_pos (filter (fun d => d_at d =? f) (filter mask (diff s))) = disps s f.
Proof.
  intros Hs. destruct s as [|p l]; [reflexivity|].
  rewrite disps_unfold. cbn [diff flat_map].
  inversion Hs as [|? ? _ Hp]; subst. rewrite Forall_forall in Hp.
  rewrite (contrib_nil f p p) by lia.
  rewrite (flat_map_nil (fun a => contrib f a p) l).
  2:{ intros a Ha. apply contrib_nil. intros [E1 E2]. specialize (Hp a Ha). unfold klt in Hp. lia. }
  cbn [app].
  exact (sel_from_pairs f l [] p Hs).
Qed.

(* ------------------------------------------------------------------------- *)
(* C. permutation invariance of the declarative side                          *)
(* ------------------------------------------------------------------------- *)
Lemma flat_map_perm_outer {A B} (g : A -> list B) l l' :
  Permutation l l' -> Permutation (flat_map g l) (flat_map g l').
Proof.
  induction 1; cbn.
  - reflexivity.
  - now apply Permutation_app_head.
  - rewrite !app_assoc. apply Permutation_app_tail. apply Permutation_app_comm.
  - etransitivity; eassumption.
Qed.

Lemma flat_map_perm_inner {A B} (g h : A -> list B) l :
  (forall x, Permutation (g x) (h x)) -> Permutation (flat_map g l) (flat_map h l).
Proof. intros H. induction l; cbn; [reflexivity|]. now apply Permutation_app. Qed.

Lemma disps_perm t t' f : Permutation t t' -> Permutation (disps t f) (disps t' f).
Proof.
  intros H. rewrite !disps_unfold.
  etransitivity.
  - apply flat_map_perm_inner. intros b. apply flat_map_perm_outer. exact H.
  - apply flat_map_perm_outer. exact H.
Qed.

Lemma qsum_cons x l : qsum (x :: l) = (x + qsum l)%Q.
Proof. reflexivity. Qed.
Lemma qsum_nil : qsum [] = 0%Q.
Proof. reflexivity. Qed.

Lemma qsum_app a b : (qsum (a ++ b) == qsum a + qsum b)%Q.
Proof.
  induction a as [|x a IH]; cbn [app]; [rewrite qsum_nil; ring|].
  rewrite !qsum_cons, IH. ring.
Qed.

Lemma qsum_perm l l' : Permutation l l' -> (qsum l == qsum l')%Q.
Proof.
  induction 1.
  - reflexivity.
  - rewrite !qsum_cons. now rewrite IHPermutation.
  - rewrite !qsum_cons. ring.
  - etransitivity; eassumption.
Qed.

Lemma qmean_perm l l' : Permutation l l' -> (qmean l == qmean l')%Q.
Proof.
  intros H. unfold qmean. rewrite (qsum_perm _ _ H), (Permutation_length H). reflexivity.
Qed.

Lemma in_disps t f q :
  In q (disps t f) <->
  exists a b, In a t /\ In b t /\ is_step f a b = true /\ q = (pos b - pos a)%Q.
Proof.
  rewrite disps_unfold, in_flat_map. split.
  - intros (b & Hb & Hq). apply in_flat_map in Hq. destruct Hq as (a & Ha & Hq).
    unfold contrib in Hq. destruct (is_step f a b) eqn:E; [|destruct Hq].
    destruct Hq as [<-|[]]. now exists a, b.
  - intros (a & b & Ha & Hb & E & ->). exists b. split; [exact Hb|].
    apply in_flat_map. exists a. split; [exact Ha|]. unfold contrib. rewrite E. now left.
Qed.

Lemma measured_disps t f : measured t f <-> exists q, In q (disps t f).
Proof.
  split.
  - intros (a & b & Ha & Hb & E1 & E2 & E3). exists (pos b - pos a)%Q.
    apply in_disps. exists a, b. repeat split; try assumption. now apply is_step_true.
  - intros (q & Hq). apply in_disps in Hq. destruct Hq as (a & b & Ha & Hb & E & _).
    apply is_step_true in E. now exists a, b.
Qed.

Lemma measured_perm t t' f : Permutation t t' -> measured t f -> measured t' f.
Proof.
  intros H (a & b & Ha & Hb & E). exists a, b.
  split; [eapply Permutation_in; eassumption|]. split; [eapply Permutation_in; eassumption|exact E].
Qed.

Lemma measured_dec t f : measured t f \/ ~ measured t f.
Proof.
  rewrite measured_disps. destruct (disps t f) as [|q l].
  - right. intros (q & []).
  - left. exists q. now left.
Qed.

(* ------------------------------------------------------------------------- *)
(* D. groupby keys                                                            *)
(* ------------------------------------------------------------------------- *)
Lemma insert_uniq_in x y l : In y (insert_uniq x l) <-> y = x \/ In y l.
Proof.
  induction l as [|z l IH]; cbn.
  - intuition.
  - destruct (x <? z) eqn:E1; cbn; [intuition|].
    destruct (x =? z) eqn:E2; cbn.
    + apply Z.eqb_eq in E2. subst. intuition.
    + rewrite IH. intuition.
Qed.

Lemma insert_uniq_sorted x l : StronglySorted Z.lt l -> StronglySorted Z.lt (insert_uniq x l).
Proof.
  induction 1 as [|z l Hs IH Hz]; cbn.
  - constructor; constructor.
  - destruct (x <? z) eqn:E1.
    + apply Z.ltb_lt in E1. constructor; [constructor; assumption|].
      constructor; [exact E1|]. rewrite Forall_forall in *. intros w Hw. specialize (Hz w Hw). lia.
    + apply Z.ltb_ge in E1. destruct (x =? z) eqn:E2; [constructor; assumption|].
      apply Z.eqb_neq in E2. constructor; [exact IH|].
      rewrite Forall_forall in *. intros w Hw. apply insert_uniq_in in Hw.
      destruct Hw as [->|Hw]; [lia|now apply Hz].
Qed.

Lemma group_keys_in y l : In y (group_keys l) <-> In y l.
Proof.
  induction l as [|x l IH]; cbn; [tauto|]. rewrite insert_uniq_in, IH. intuition.
Qed.

Lemma group_keys_sorted l : StronglySorted Z.lt (group_keys l).
Proof. induction l; cbn; [constructor|now apply insert_uniq_sorted]. Qed.

Lemma sorted_ext l1 : forall l2,
  StronglySorted Z.lt l1 -> StronglySorted Z.lt l2 -> (forall x, In x l1 <-> In x l2) -> l1 = l2.
Proof.
  induction l1 as [|a l1 IH]; intros [|b l2] H1 H2 Hin.
  - reflexivity.
  - exfalso. apply (proj2 (Hin b)). now left.
  - exfalso. apply (proj1 (Hin a)). now left.
  - inversion H1 as [|? ? H1s H1a]; subst. inversion H2 as [|? ? H2s H2b]; subst.
    rewrite Forall_forall in H1a, H2b.
    assert (a = b) as ->.
    { destruct (proj1 (Hin a) (or_introl eq_refl)) as [E|Ha]; [now symmetry|].
      destruct (proj2 (Hin b) (or_introl eq_refl)) as [E|Hb]; [exact E|].
      specialize (H1a _ Hb). specialize (H2b _ Ha). lia. }
    f_equal. apply IH; try assumption.
    intros x. split; intros Hx.
    + destruct (proj1 (Hin x) (or_intror Hx)) as [E|Hx']; [|exact Hx'].
      specialize (H1a _ Hx). lia.
    + destruct (proj2 (Hin x) (or_intror Hx)) as [E|Hx']; [|exact Hx'].
      specialize (H2b _ Hx). lia.
Qed.

(* ------------------------------------------------------------------------- *)
(* E. cumsum                                                                  *)
(* ------------------------------------------------------------------------- *)
Lemma cumsum_frames g l : forall acc, map fst (cumsum acc (map (fun f => (f, g f)) l)) = l.
Proof. induction l as [|f l IH]; intros acc; cbn; [reflexivity|]. now rewrite IH. Qed.

Lemma cumsum_spec (g m : Z -> Q) l : forall acc,
  (forall f, In f l -> (g f == m f)%Q) ->
  is_cumsum m acc (cumsum acc (map (fun f => (f, g f)) l)).
Proof.
  induction l as [|f l IH]; intros acc H; cbn [map cumsum is_cumsum]; [exact I|].
  split.
  - rewrite Qred_correct. rewrite (H f) by now left. reflexivity.
  - apply IH. intros; apply H; now right.
Qed.

(* ------------------------------------------------------------------------- *)
(* F. compute_drift is the cumulative mean displacement                       *)
(* ------------------------------------------------------------------------- *)
Lemma group_mean_spec t f :
  trajectory_table t -> (group_mean (selected t) f == mean_disp t f)%Q.
Proof.
  intros Ht. unfold group_mean, selected. rewrite Qred_correct.
  rewrite selected_pairs by now apply sort_pf_sorted.
  unfold mean_disp. apply qmean_perm. apply disps_perm. apply isort_perm.
Qed.

Lemma selected_frames t f :
  trajectory_table t -> (In f (map d_at (selected t)) <-> measured t f).
Proof.
  intros Ht.
  assert (In f (map d_at (selected t)) <-> exists q, In q (disps (isort le_pf t) f)) as ->.
  { rewrite <- selected_pairs by now apply sort_pf_sorted. fold (selected t).
    rewrite in_map_iff. split.
    - intros (d & E & Hd). exists (d_pos d). apply in_map. apply filter_In. split; [exact Hd|].
      now apply Z.eqb_eq.
    - intros (q & Hq). apply in_map_iff in Hq. destruct Hq as (d & _ & Hd).
      apply filter_In in Hd. destruct Hd as [Hd E]. apply Z.eqb_eq in E. now exists d. }
  rewrite <- measured_disps. split; apply measured_perm; [|symmetry]; apply isort_perm.
Qed.

Theorem drift_def t :
  trajectory_table t ->
  StronglySorted Z.lt (map fst (compute_drift t)) /\
  (forall f, In f (map fst (compute_drift t)) <-> measured t f) /\
  is_cumsum (mean_disp t) 0%Q (compute_drift t).
Proof.
  intros Ht. unfold compute_drift. cbv zeta. rewrite cumsum_frames.
  split; [apply group_keys_sorted|]. split.
  - intros f. rewrite group_keys_in. now apply selected_frames.
  - apply cumsum_spec. intros f _. now apply group_mean_spec.
Qed.

(* ------------------------------------------------------------------------- *)
(* G. independence of row order                                               *)
(* ------------------------------------------------------------------------- *)
Lemma trajectory_table_perm t t' : Permutation t t' -> trajectory_table t -> trajectory_table t'.
Proof.
  unfold trajectory_table. intros H Hn. eapply Permutation_NoDup; [|exact Hn]. now apply Permutation_map.
Qed.

Lemma group_mean_perm t t' f :
  trajectory_table t -> Permutation t t' ->
  group_mean (selected t) f = group_mean (selected t') f.
Proof.
  intros Ht Hp. assert (Ht' := trajectory_table_perm _ _ Hp Ht).
  unfold group_mean, selected. apply Qred_complete.
  rewrite !selected_pairs by now apply sort_pf_sorted.
  apply qmean_perm. apply disps_perm.
  rewrite !isort_perm. exact Hp.
Qed.

Theorem drift_order_independent t t' :
  trajectory_table t -> Permutation t t' -> compute_drift t = compute_drift t'.
Proof.
  intros Ht Hp. assert (Ht' := trajectory_table_perm _ _ Hp Ht).
  unfold compute_drift. cbv zeta.
  assert (group_keys (map d_at (selected t)) = group_keys (map d_at (selected t'))) as <-.
  { apply sorted_ext; try apply group_keys_sorted.
    intros f. rewrite !group_keys_in, !selected_frames by assumption.
    split; apply measured_perm; [|symmetry]; exact Hp. }
  f_equal. apply map_ext. intros f. f_equal. now apply group_mean_perm.
Qed.

(* ------------------------------------------------------------------------- *)
(* H. subtract_drift subtracts exactly the curve, row by row                  *)
(* ------------------------------------------------------------------------- *)
Lemma sub_row_spec d r : row_subtracted d r (sub_row d r).
Proof.
  unfold row_subtracted, sub_row, drift_at.
  destruct (lookup (frame r) d) as [v|]; cbn [particle frame pos other]; repeat split; try reflexivity.
  apply Qred_correct.
Qed.

Lemma Forall2_map_r {A B} (P : A -> B -> Prop) (g : A -> B) l :
  (forall x, P x (g x)) -> Forall2 P l (map g l).
Proof. intros H. induction l; cbn; constructor; auto. Qed.

Theorem subtract_exact t d :
  exists t0, Permutation t0 t /\ Forall2 (row_subtracted d) t0 (subtract_drift t d).
Proof.
  exists (isort le_fp t). split; [apply isort_perm|].
  unfold subtract_drift. apply Forall2_map_r. apply sub_row_spec.
Qed.

Lemma subtract_perm t d : Permutation (subtract_drift t d) (map (sub_row d) t).
Proof. unfold subtract_drift. apply Permutation_map. apply isort_perm. Qed.

Lemma sub_row_particle d r : particle (sub_row d r) = particle r.
Proof. unfold sub_row. now destruct (lookup (frame r) d). Qed.
Lemma sub_row_frame d r : frame (sub_row d r) = frame r.
Proof. unfold sub_row. now destruct (lookup (frame r) d). Qed.
Lemma sub_row_other d r : other (sub_row d r) = other r.
Proof. unfold sub_row. now destruct (lookup (frame r) d). Qed.

Lemma subtract_trajectory_table t d : trajectory_table t -> trajectory_table (subtract_drift t d).
Proof.
  intros Ht. eapply trajectory_table_perm; [symmetry; apply subtract_perm|].
  unfold trajectory_table. rewrite map_map.
  erewrite map_ext; [exact Ht|].
  intros r. unfold key. now rewrite sub_row_particle, sub_row_frame.
Qed.

Lemma measured_subtract t d f : measured (subtract_drift t d) f <-> measured t f.
Proof.
  split.
  - intros H. apply (measured_perm _ _ _ (subtract_perm t d)) in H.
    destruct H as (a & b & Ha & Hb & E).
    apply in_map_iff in Ha. destruct Ha as (a0 & <- & Ha).
    apply in_map_iff in Hb. destruct Hb as (b0 & <- & Hb).
    rewrite !sub_row_particle, !sub_row_frame in E. now exists a0, b0.
  - intros (a & b & Ha & Hb & E).
    apply (measured_perm _ _ _ (Permutation_sym (subtract_perm t d))).
    exists (sub_row d a), (sub_row d b).
    rewrite !sub_row_particle, !sub_row_frame.
    split; [now apply in_map|]. split; [now apply in_map|exact E].
Qed.

(* ------------------------------------------------------------------------- *)
(* I. the drift curve along consecutive frames                                *)
(* ------------------------------------------------------------------------- *)
Definition amt (d : drift) (f : Z) : Q := match lookup f d with Some v => v | None => 0%Q end.

Lemma lookup_notin f d : ~ In f (map fst d) -> lookup f d = None.
Proof.
  induction d as [|[g v] d IH]; cbn; intros H; [reflexivity|].
  destruct (g =? f) eqn:E; [apply Z.eqb_eq in E; exfalso; apply H; now left|].
  apply IH. intros Hin. apply H. now right.
Qed.

Lemma lookup_in f d : In f (map fst d) -> exists v, lookup f d = Some v.
Proof.
  induction d as [|[g v] d IH]; cbn; intros H; [destruct H|].
  destruct (g =? f) eqn:E; [now exists v|].
  apply Z.eqb_neq in E. destruct H as [H|H]; [contradiction|now apply IH].
Qed.

Lemma lookup_some_in f d v : lookup f d = Some v -> In f (map fst d).
Proof.
  induction d as [|[g w] d IH]; cbn; [discriminate|].
  destruct (g =? f) eqn:E; [apply Z.eqb_eq in E; now left|]. intros H. right. now apply IH.
Qed.

(* two consecutive frames that both carry a value differ by m *)
Lemma cumsum_adjacent m d : forall prev f v u,
  StronglySorted Z.lt (map fst d) -> is_cumsum m prev d ->
  lookup f d = Some v -> lookup (f - 1) d = Some u -> (v == u + m f)%Q.
Proof.
  induction d as [|[g w] d IH]; intros prev f v u Hs Hc Hv Hu; [discriminate|].
  cbn [map fst] in Hs. inversion Hs as [|? ? Hs' Hg]; subst. rewrite Forall_forall in Hg.
  cbn [is_cumsum] in Hc. destruct Hc as [Hw Hc].
  cbn [lookup] in Hv, Hu.
  destruct (g =? f) eqn:E1.
  - apply Z.eqb_eq in E1. subst g.
    replace (f =? f - 1) with false in Hu by (symmetry; apply Z.eqb_neq; lia).
    apply lookup_some_in in Hu. specialize (Hg _ Hu). lia.
  - apply Z.eqb_neq in E1.
    destruct (g =? f - 1) eqn:E2.
    + apply Z.eqb_eq in E2. injection Hu as <-.
      destruct d as [|[h x] d']; [discriminate|].
      cbn [is_cumsum] in Hc. destruct Hc as [Hx _].
      cbn [lookup] in Hv. destruct (h =? f) eqn:E3.
      * apply Z.eqb_eq in E3. subst h. injection Hv as <-. exact Hx.
      * apply Z.eqb_neq in E3. apply lookup_some_in in Hv.
        cbn [map fst] in Hs'. inversion Hs' as [|? ? _ Hh]; subst. rewrite Forall_forall in Hh.
        specialize (Hh _ Hv). specialize (Hg h (or_introl eq_refl)). lia.
    + eapply IH; eassumption.
Qed.

Lemma sorted_min_head f d :
  StronglySorted Z.lt (map fst d) -> In f (map fst d) -> (forall g, In g (map (@fst Z Q) d) -> f <= g) ->
  exists v d', d = (f, v) :: d'.
Proof.
  destruct d as [|[g v] d]; cbn; intros Hs Hin Hmin; [destruct Hin|].
  inversion Hs as [|? ? _ Hg]; subst. rewrite Forall_forall in Hg.
  destruct Hin as [->|Hin]; [now exists v, d|].
  specialize (Hg _ Hin). specialize (Hmin g (or_introl eq_refl)). lia.
Qed.

(* the drift of a gapless table grows by the mean displacement at every measured frame *)
Lemma drift_step t f :
  trajectory_table t -> gapless t -> measured t f ->
  (amt (compute_drift t) f == amt (compute_drift t) (f - 1) + mean_disp t f)%Q.
Proof.
  intros Ht Hgap Hf.
  destruct (drift_def t Ht) as (Hs & Hfr & Hc).
  set (d := compute_drift t) in *.
  destruct (lookup_in f d (proj2 (Hfr f) Hf)) as [v Hv].
  unfold amt. rewrite Hv.
  destruct (Hgap f Hf) as [Hprev|Hmin].
  - destruct (lookup_in (f - 1) d (proj2 (Hfr _) Hprev)) as [u Hu]. rewrite Hu.
    eapply cumsum_adjacent; eassumption.
  - destruct (sorted_min_head f d Hs (proj2 (Hfr f) Hf)) as (v' & d' & E).
    { intros g Hg. apply Hmin. now apply Hfr. }
    rewrite lookup_notin.
    2:{ intros Hin. apply Hfr in Hin. specialize (Hmin _ Hin). lia. }
    rewrite E in Hc, Hv. cbn [is_cumsum] in Hc. cbn [lookup] in Hv.
    rewrite Z.eqb_refl in Hv. injection Hv as <-. exact (proj1 Hc).
Qed.

Lemma amt_unmeasured t f : trajectory_table t -> ~ measured t f -> amt (compute_drift t) f = 0%Q.
Proof.
  intros Ht Hf. unfold amt. rewrite lookup_notin; [reflexivity|].
  intros Hin. apply Hf. now apply (drift_def t Ht).
Qed.

(* ------------------------------------------------------------------------- *)
(* J. displacements after subtraction                                         *)
(* ------------------------------------------------------------------------- *)
Lemma flat_map_map {A B C} (g : A -> B) (h : B -> list C) l :
  flat_map h (map g l) = flat_map (fun x => h (g x)) l.
Proof. induction l; cbn; [reflexivity|]. now rewrite IHl. Qed.

(* l' is l with c subtracted from every element, as far as sum and length can tell *)
Definition shifted (c : Q) (l l' : list Q) : Prop :=
  length l' = length l /\ (qsum l' == qsum l - inject_Z (Z.of_nat (length l)) * c)%Q.

Lemma shifted_nil c : shifted c [] [].
Proof. split; [reflexivity|]. rewrite qsum_nil. cbn. ring. Qed.

Lemma inject_Z_S n : (inject_Z (Z.of_nat (S n)) == inject_Z (Z.of_nat n) + 1)%Q.
Proof. rewrite Nat2Z.inj_succ. unfold Z.succ. rewrite inject_Z_plus. reflexivity. Qed.

Lemma inject_Z_add_nat a b :
  (inject_Z (Z.of_nat (a + b)) == inject_Z (Z.of_nat a) + inject_Z (Z.of_nat b))%Q.
Proof. rewrite Nat2Z.inj_add, inject_Z_plus. reflexivity. Qed.

Lemma shifted_app c a a' b b' : shifted c a a' -> shifted c b b' -> shifted c (a ++ b) (a' ++ b').
Proof.
  intros [L1 S1] [L2 S2]. split.
  - rewrite !app_length. congruence.
  - rewrite !qsum_app, S1, S2, app_length, inject_Z_add_nat. ring.
Qed.

Lemma shifted_flat_map {A} c (g g' : A -> list Q) l :
  (forall x, In x l -> shifted c (g x) (g' x)) -> shifted c (flat_map g l) (flat_map g' l).
Proof.
  induction l as [|x l IH]; cbn [flat_map]; intros H; [apply shifted_nil|].
  apply shifted_app; [apply H; now left|apply IH; intros; apply H; now right].
Qed.

Lemma qmean_shifted c l l' : l <> [] -> shifted c l l' -> (qmean l' == qmean l - c)%Q.
Proof.
  intros Hne [L S]. unfold qmean. rewrite L, S.
  assert (~ inject_Z (Z.of_nat (length l)) == 0)%Q as Hn.
  { destruct l; [contradiction|]. cbn [length].
    intros E. change 0%Q with (inject_Z 0) in E. apply (proj1 (inject_Z_injective _ _)) in E. lia. }
  field. exact Hn.
Qed.

Lemma sub_row_pos d r : (pos (sub_row d r) == pos r - amt d (frame r))%Q.
Proof.
  unfold sub_row, amt. destruct (lookup (frame r) d) as [v|]; cbn [pos].
  - apply Qred_correct.
  - ring.
Qed.

Lemma disps_subtract_shifted t d f :
  shifted (amt d f - amt d (f - 1)) (disps t f) (disps (map (sub_row d) t) f).
Proof.
  rewrite !disps_unfold. rewrite flat_map_map.
  apply shifted_flat_map. intros b _. rewrite flat_map_map.
  apply shifted_flat_map. intros a _.
  unfold contrib, is_step. rewrite !sub_row_particle, !sub_row_frame.
  fold (is_step f a b). destruct (is_step f a b) eqn:E; [|apply shifted_nil].
  apply is_step_true in E. destruct E as (_ & Ea & Eb).
  split; [reflexivity|].
  rewrite !qsum_cons, !qsum_nil, !sub_row_pos. cbn [length].
  replace (frame a) with (f - 1) by lia. rewrite Eb.
  change (inject_Z (Z.of_nat 1)) with 1%Q. ring.
Qed.

Lemma mean_disp_subtract t d f :
  measured t f ->
  (mean_disp (subtract_drift t d) f == mean_disp t f - (amt d f - amt d (f - 1)))%Q.
Proof.
  intros Hf. unfold mean_disp.
  rewrite (qmean_perm _ _ (disps_perm _ _ f (subtract_perm t d))).
  apply qmean_shifted; [|apply disps_subtract_shifted].
  apply measured_disps in Hf. destruct Hf as [q Hq]. intros E. rewrite E in Hq. destruct Hq.
Qed.

Lemma cumsum_zero m d : forall prev,
  (prev == 0)%Q -> is_cumsum m prev d -> (forall f, In f (map fst d) -> (m f == 0)%Q) ->
  Forall (fun fv : Z * Q => (snd fv == 0)%Q) d.
Proof.
  induction d as [|[f v] d IH]; intros prev Hp Hc Hm; [constructor|].
  cbn [is_cumsum] in Hc. destruct Hc as [Hv Hc].
  assert (v == 0)%Q as Hv0.
  { rewrite Hv, Hp, (Hm f) by now left. ring. }
  constructor; [exact Hv0|].
  apply (IH v); [exact Hv0|exact Hc|]. intros g Hg. apply Hm. now right.
Qed.

(* ------------------------------------------------------------------------- *)
(* K. the re-measured drift vanishes                                          *)
(* ------------------------------------------------------------------------- *)
Theorem remeasured_zero t :
  trajectory_table t -> gapless t ->
  map fst (compute_drift (subtract_own_drift t)) = map fst (compute_drift t) /\
  Forall (fun fv : Z * Q => (snd fv == 0)%Q) (compute_drift (subtract_own_drift t)).
Proof.
  intros Ht Hgap. unfold subtract_own_drift.
  assert (Ht' := subtract_trajectory_table t (compute_drift t) Ht).
  destruct (drift_def t Ht) as (Hs & Hfr & _).
  destruct (drift_def _ Ht') as (Hs' & Hfr' & Hc').
  split.
  - apply sorted_ext; try assumption.
    intros f. rewrite Hfr', Hfr. apply measured_subtract.
  - apply (cumsum_zero _ _ 0%Q (Qeq_refl 0) Hc').
    intros f Hf. apply Hfr' in Hf. apply (proj1 (measured_subtract _ _ _)) in Hf.
    rewrite (mean_disp_subtract t (compute_drift t) f Hf).
    rewrite (drift_step t f Ht Hgap Hf). ring.
Qed.

(* the property's literal premise implies gaplessness *)
Lemma later_frames_measured_gapless t : every_later_frame_measured t -> gapless t.
Proof.
  intros H f Hf.
  destruct (measured_dec t (f - 1)) as [Hp|Hp]; [now left|right].
  intros g Hg. destruct (Z_le_gt_dec f g) as [Hle|Hgt]; [exact Hle|exfalso].
  destruct Hf as (a & b & Ha & Hb & E1 & E2 & E3).
  apply Hp. destruct (Z.eq_dec g (f - 1)) as [->|Hne]; [exact Hg|].
  replace (f - 1) with (frame a) by lia.
  apply (H g a Hg Ha). lia.
Qed.

(* ------------------------------------------------------------------------- *)
(* L. a rigid common motion is removed                                        *)
(* ------------------------------------------------------------------------- *)
Lemma qmean_const l k : l <> [] -> (forall q, In q l -> (q == k)%Q) -> (qmean l == k)%Q.
Proof.
  intros Hne H.
  assert (qsum l == inject_Z (Z.of_nat (length l)) * k)%Q as S.
  { clear Hne. induction l as [|x l IH]; [rewrite qsum_nil; cbn; ring|].
    rewrite qsum_cons. cbn [length]. rewrite inject_Z_S, IH, (H x) by (try (now left); intros; apply H; now right).
    ring. }
  unfold qmean. rewrite S.
  assert (~ inject_Z (Z.of_nat (length l)) == 0)%Q as Hn.
  { destruct l; [contradiction|]. cbn [length].
    intros E. change 0%Q with (inject_Z 0) in E. apply (proj1 (inject_Z_injective _ _)) in E. lia. }
  field. exact Hn.
Qed.

Lemma rigid_mean base c t f :
  rigid base c t -> measured t f -> (mean_disp t f == c f - c (f - 1)%Z)%Q.
Proof.
  intros Hr Hf. unfold mean_disp. apply qmean_const.
  - apply measured_disps in Hf. destruct Hf as [q Hq]. intros E. rewrite E in Hq. destruct Hq.
  - intros q Hq. apply in_disps in Hq. destruct Hq as (a & b & Ha & Hb & E & ->).
    apply is_step_true in E. destruct E as (Ep & Ea & Eb).
    rewrite (Hr a Ha), (Hr b Hb), Ep, Eb. replace (frame a) with (f - 1) by lia. ring.
Qed.

Definition first_measured (t : table) (f0 : Z) : Prop :=
  measured t f0 /\ forall g, measured t g -> f0 <= g.

Lemma rigid_amt base c t f0 :
  trajectory_table t -> gapless t -> rigid base c t -> first_measured t f0 ->
  forall f, f0 <= f -> measured t f -> (amt (compute_drift t) f == c f - c (f0 - 1)%Z)%Q.
Proof.
  intros Ht Hgap Hr [Hf0 Hmin].
  apply (Zlt_lower_bound_ind (fun f => measured t f -> (amt (compute_drift t) f == c f - c (f0 - 1)%Z)%Q)).
  intros f IH Hle Hf.
  rewrite (drift_step t f Ht Hgap Hf), (rigid_mean base c t f Hr Hf).
  destruct (Hgap f Hf) as [Hp|Hm].
  - rewrite IH; [ring| |exact Hp]. specialize (Hmin _ Hp). lia.
  - assert (f = f0) as -> by (specialize (Hm _ Hf0); lia).
    rewrite (amt_unmeasured t (f0 - 1) Ht).
    + ring.
    + intros Hp. specialize (Hmin _ Hp). lia.
Qed.

Theorem rigid_removed base c t f0 :
  trajectory_table t -> gapless t -> rigid base c t -> first_measured t f0 ->
  forall r', In r' (subtract_own_drift t) ->
  measured t (frame r') \/ frame r' = f0 - 1 ->
  (pos r' == base (particle r') + c (f0 - 1)%Z)%Q.
Proof.
  intros Ht Hgap Hr Hfirst r' Hin Hfr.
  unfold subtract_own_drift in Hin.
  apply (Permutation_in _ (subtract_perm t _)) in Hin.
  apply in_map_iff in Hin. destruct Hin as (r & <- & Hin).
  rewrite sub_row_particle, sub_row_frame in *.
  rewrite sub_row_pos, (Hr r Hin).
  destruct Hfr as [Hm|E].
  - rewrite (rigid_amt base c t f0 Ht Hgap Hr Hfirst (frame r)); [ring| |exact Hm].
    now apply (proj2 Hfirst).
  - rewrite (amt_unmeasured t (frame r) Ht).
    + rewrite E. ring.
    + rewrite E. intros Hp. apply (proj2 Hfirst) in Hp. lia.
Qed.

(* ------------------------------------------------------------------------- *)
(* M. the executable deciders used by the harness are sound                   *)
(* ------------------------------------------------------------------------- *)
Lemma close0 a b : close 0 a b = true -> (a == b)%Q.
Proof.
  unfold close. intros H. apply Qle_bool_iff in H. apply Qabs_Qle_condition in H.
  destruct H as [H1 H2]. apply Qle_antisym.
  - apply Qplus_le_l with (z := (- b)%Q). setoid_replace (b + - b)%Q with 0%Q by ring. exact H2.
  - apply Qplus_le_l with (z := (- b)%Q). setoid_replace (b + - b)%Q with (- 0)%Q by ring. exact H1.
Qed.

Lemma ascending_sound l : ascending l = true -> StronglySorted Z.lt l.
Proof.
  induction l as [|a l IH]; intros H; [constructor|].
  destruct l as [|b l']; [constructor; constructor|].
  cbn [ascending] in H. apply andb_true_iff in H. destruct H as [Hab H].
  apply Z.ltb_lt in Hab. specialize (IH H).
  constructor; [exact IH|].
  inversion IH as [|? ? _ Hb]; subst.
  constructor; [exact Hab|]. eapply Forall_impl; [|exact Hb]. intros; cbn in *; lia.
Qed.

Lemma measured_b_spec t f : measured_b t f = true <-> measured t f.
Proof.
  rewrite measured_disps. unfold measured_b. destruct (disps t f) as [|q l].
  - split; [discriminate|intros (q & [])].
  - split; [intros _; exists q; now left|reflexivity].
Qed.

Lemma existsb_eqb_in f l : existsb (Z.eqb f) l = true <-> In f l.
Proof.
  rewrite existsb_exists. split.
  - intros (x & Hx & E). apply Z.eqb_eq in E. now subst.
  - intros H. exists f. split; [exact H|apply Z.eqb_refl].
Qed.

Lemma cumsum_close0 t d : forall prev, cumsum_close 0 t prev d = true -> is_cumsum (mean_disp t) prev d.
Proof.
  induction d as [|[f v] d IH]; intros prev H; cbn [cumsum_close is_cumsum] in *; [exact I|].
  apply andb_true_iff in H. destruct H as [H1 H2]. split; [now apply close0|now apply IH].
Qed.

(* a drift table accepted by the monitor (at tolerance 0) satisfies the declarative statement *)
Theorem monitor_sound t obs :
  check_drift_spec 0 t obs = 0%N ->
  StronglySorted Z.lt (map fst obs) /\
  (forall f, In f (map fst obs) <-> measured t f) /\
  is_cumsum (mean_disp t) 0%Q obs.
Proof.
  unfold check_drift_spec. cbv zeta.
  destruct (ascending (map fst obs)) eqn:E1; cbn [negb]; [|discriminate].
  match goal with |- context [forallb ?p ?l] => destruct (forallb p l) eqn:E2 end; cbn [negb]; [|discriminate].
  destruct (cumsum_close 0 t 0 obs) eqn:E3; cbn [negb]; [|discriminate].
  intros _. split; [now apply ascending_sound|]. split; [|now apply cumsum_close0].
  rewrite forallb_forall in E2.
  intros f. split; intros Hf.
  - assert (Hin : In f (group_keys (map frame t ++ map fst obs)))
      by (apply group_keys_in; apply in_or_app; now right).
    specialize (E2 f Hin). apply eqb_prop in E2.
    apply measured_b_spec. rewrite <- E2. now apply existsb_eqb_in.
  - assert (Hin : In f (group_keys (map frame t ++ map fst obs))).
    { destruct Hf as (a & b & _ & Hb & _ & _ & <-). apply group_keys_in. apply in_or_app. left. now apply in_map. }
    specialize (E2 f Hin). apply eqb_prop in E2.
    apply existsb_eqb_in. rewrite E2. now apply measured_b_spec.
Qed.

(* deciding the premises *)
Fixpoint keys_nodup_b (l : list (Z * Z)) : bool :=
  match l with
  | [] => true
  | (p, f) :: l' => negb (existsb (fun k => (fst k =? p) && (snd k =? f)) l') && keys_nodup_b l'
  end.

Lemma keys_nodup_sound l : keys_nodup_b l = true -> NoDup l.
Proof.
  induction l as [|[p f] l IH]; cbn [keys_nodup_b]; intros H; [constructor|].
  apply andb_true_iff in H. destruct H as [H1 H2]. constructor; [|now apply IH].
  intros Hin. apply negb_true_iff in H1.
  assert (existsb (fun k : Z * Z => (fst k =? p) && (snd k =? f)) l = true) as E.
  { apply existsb_exists. exists (p, f). split; [exact Hin|]. cbn. now rewrite !Z.eqb_refl. }
  congruence.
Qed.

Lemma trajectory_table_dec t : keys_nodup_b (map key t) = true -> trajectory_table t.
Proof. apply keys_nodup_sound. Qed.

Lemma consecutive_in l : forall a,
  consecutive (a :: l) = true -> forall f, In f (a :: l) -> f = a \/ In (f - 1) (a :: l).
Proof.
  induction l as [|b l IH]; intros a H f Hf.
  - destruct Hf as [<-|[]]. now left.
  - cbn [consecutive] in H. apply andb_true_iff in H. destruct H as [Hb H]. apply Z.eqb_eq in Hb.
    destruct Hf as [<-|Hf]; [now left|]. right.
    destruct (IH b H f Hf) as [->|Hin].
    + left. lia.
    + right. exact Hin.
Qed.

Lemma gapless_b_sound t : trajectory_table t -> gapless_b t = true -> gapless t.
Proof.
  intros Ht H f Hf. destruct (drift_def t Ht) as (Hs & Hfr & _).
  unfold gapless_b in H.
  apply Hfr in Hf.
  destruct (map fst (compute_drift t)) as [|a l] eqn:E; [destruct Hf|].
  destruct (consecutive_in l a H f Hf) as [->|Hin].
  - right. intros g Hg. apply Hfr in Hg.
    inversion Hs as [|? ? _ Ha]; subst. rewrite Forall_forall in Ha.
    destruct Hg as [<-|Hg]; [lia|]. specialize (Ha _ Hg). lia.
  - left. now apply Hfr.
Qed.
