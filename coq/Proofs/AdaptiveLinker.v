(* C12 / route T: the subnet solver the model applies to a leaf (Model/Adaptive.solve_leaf) IS the generated
   SubnetLinker.__init__ / do_recur (Gen/linker_core.v, from trackpy/linking/subnetlinker.py) run on the leaf's
   sources with the null candidate appended (costs on the leaf's common denominator: Model/Adaptive.leaf_items):
   it raises SubnetOversizeException exactly above the size limit and otherwise its best_pairs are solve_leaf's
   links.  So the optimality clause of C12_generated_is_model speaks about the generated recursive search.
   (subnet_linker_recursive's own glue around the constructor -- the one-to-one shortcuts, zip( *best_pairs), the
   unclaimed destinations -- is not translated; see the final report of this round.) *)
From Coq Require Import ZArith List Bool Arith Lia Permutation.
From TP Require Import Model.Assign Model.Link Model.LinkCheck Model.Adaptive Model.SubnetMerge Model.PyLinker Gen.linker_core
     Proofs.BnB Proofs.Opt Proofs.Cands Proofs.Comps Proofs.Step Proofs.Adaptive Proofs.LinkerGen.
Import ListNotations.

(* list.sort(key=len(forward_cands)) of the generated constructor = the model's sort_items *)
Lemma insert_key_items x l : insert_key klen x l = insert_i x l.
Proof.
  induction l as [|y l IH]; cbn [insert_key insert_i]; [reflexivity|].
  unfold klen at 1 2. unfold forward_cands. rewrite Nat.ltb_antisym.
  destruct (length (snd x) <=? length (snd y))%nat; cbn [negb]; [reflexivity|]. rewrite IH. reflexivity.
Qed.
Lemma sort_key_items l : sort_key klen l = sort_items l.
Proof.
  induction l as [|x l IH]; [reflexivity|].
  change (sort_key klen (x :: l)) with (insert_key klen x (sort_key klen l)).
  change (sort_items (x :: l)) with (insert_i x (sort_items l)). rewrite IH. apply insert_key_items.
Qed.

Lemma combine_links (S : list item) : forall al : list cand,
  map (fun sp : spair => (fst (fst sp), snd sp)) (combine S (map fst al))
  = map (fun l : link_t => (fst l, fst (snd l))) (combine (map fst S) al).
Proof.
  induction S as [|x S IH]; intros [|c al]; cbn; try reflexivity. f_equal. apply IH.
Qed.

Theorem gen_linker_solves_leaf a R2 k (g : group) :
  acfg_ok a -> (0 <= R2)%Z -> Forall real_item g -> Forall (within a R2 k) g -> g <> [] ->
  if (a_max a <? length g)%nat
  then py_SubnetLinker_init (leaf_items a R2 k g) (a_max a) = Fail SubnetOversizeException
  else exists o bp, py_SubnetLinker_init (leaf_items a R2 k g) (a_max a) = Done o /\ best_pairs o = Some bp /\
         map (fun sp : spair => (fst (fst sp), snd sp)) bp
         = map (fun l : link_t => (fst l, fst (snd l))) (solve_leaf a R2 (Leaf k g)).
Proof.
  intros Ha HR Hr Hw Hne.
  assert (Hlen : @length spoint (leaf_items a R2 k g) = length g) by (unfold leaf_items; apply map_length).
  assert (Hnil : leaf_items a R2 k g <> []) by (destruct g; [congruence|discriminate]).
  assert (Hok : Forall item_ok (leaf_items a R2 k g)).
  { unfold leaf_items. rewrite Forall_forall. intros x Hx. apply in_map_iff in Hx. destruct Hx as [it [E Hit]]. subst x.
    rewrite Forall_forall in Hr, Hw. apply leaf_item_ok; auto. }
  unfold solve_leaf, solve_group.
  remember (leaf_items a R2 k g) as L eqn:EL.
  rewrite py_init_solve, Hlen. destruct (a_max a <? length g)%nat; [reflexivity|].
  destruct L as [|it0 its]; [congruence|]. set (L := it0 :: its) in *.
  set (S := sort_key klen L).
  assert (ES : S = sort_items L) by apply sort_key_items.
  assert (HokS : Forall item_ok S).
  { rewrite ES. eapply Forall_perm; [apply Permutation_sym, sort_items_perm|exact Hok]. }
  destruct (items_ok_solver _ HokS) as [Hn [Hsrt Hnull]].
  destruct (solve_some _ Hn Hsrt Hnull) as [v [al Hsol]].
  eexists. exists (combine S (map fst al)). split; [reflexivity|]. cbn [best_pairs]. rewrite Hsol. split; [reflexivity|].
  change (@length item L) with (@length spoint L). rewrite Hlen, Nat.ltb_irrefl, <- ES, Hsol. apply combine_links.
Qed.
