(* C14, route T: generated FindLinker.assign_links / next_level (Gen/findstep.v) = the model of the
   code Model/FindLink3.v (groups_run_c / find_step_gs), for all inputs (no predictor). *)
From Coq Require Import ZArith QArith List Bool Arith Lia Permutation.
From TP Require Import Model.Assign Model.Link Model.Dilation Model.FindLink Model.FindLink3 Model.PyFind Model.PyFindlink
     Model.PyFindstep Gen.findstep Proofs.Cands Proofs.Labels Proofs.Comps Proofs.FindLink Proofs.FindstepGen.
Import ListNotations.
Open Scope Z_scope.

Definition zc (l : link_t) : link_t := (fst l, (fst (snd l), 0)).

Lemma keep_snd (f : nat -> bool) : forall ids (pts : list pt), length ids = length pts ->
  map snd (filter (fun p : new_pt => f (fst p)) (combine ids pts)) = keep (map f ids) pts.
Proof.
  induction ids as [|i ids IH]; intros [|q pts] H; cbn in *; try reflexivity; try discriminate.
  destruct (f i); cbn; [f_equal|]; apply IH; lia.
Qed.

Lemma keep_fst (f : nat -> bool) : forall ids (pts : list pt), length ids = length pts ->
  map fst (filter (fun p : new_pt => f (fst p)) (combine ids pts)) = keep (map f ids) ids.
Proof.
  induction ids as [|i ids IH]; intros [|q pts] H; cbn in *; try reflexivity; try discriminate.
  destruct (f i); cbn; [f_equal|]; apply IH; lia.
Qed.

Lemma claimed_in l j : optnat_in (Some j) (map (fun x : link_t => fst (snd x)) l) = claimed_b l j.
Proof.
  unfold optnat_in, claimed_b. induction l as [|x l IH]; cbn; [reflexivity|]. rewrite IH. f_equal.
  destruct (fst (snd x)) as [j'|]; cbn; [apply Nat.eqb_sym|reflexivity].
Qed.

Lemma fold_add_new l : forall s,
  fold_left (fun self p => hash_add_new self p) l s
  = mk_flk (k_init s) (k_max s) (k_pred s) (k_st s) (k_labs s) (k_image s) (k_curr_t s) (k_ds s)
           (k_added s ++ map snd l) (k_ids s ++ map fst l) (k_next s) (k_subnets s).
Proof.
  induction l as [|p l IH]; intros s; cbn [fold_left map].
  - rewrite !app_nil_r. destruct s; reflexivity.
  - rewrite IH. unfold hash_add_new. cbn. rewrite <- !app_assoc. reflexivity.
Qed.

Lemma combine_app {A B} (a1 : list A) (b1 : list B) a2 b2 : length a1 = length b1 ->
  combine (a1 ++ a2) (b1 ++ b2) = combine a1 b1 ++ combine a2 b2.
Proof. revert b1. induction a1 as [|x a1 IH]; intros [|y b1] H; cbn in *; try discriminate; [reflexivity|]. f_equal. apply IH. lia. Qed.

Lemma links_of_app s1 d1 s2 d2 : length s1 = length d1 -> links_of (s1 ++ s2) (d1 ++ d2) = links_of s1 d1 ++ links_of s2 d2.
Proof. intros H. unfold links_of. rewrite combine_app by exact H. apply flat_map_app. Qed.

Lemma links_of_nones n : forall d, links_of (nones n) d = [].
Proof. induction n as [|n IH]; intros [|x d]; cbn; try reflexivity. apply IH. Qed.

Lemma links_of_solved l : links_of (map (fun x : link_t => Some (fst x)) l) (map (fun x : link_t => fst (snd x)) l) = map zc l.
Proof. induction l as [|x l IH]; cbn; [reflexivity|]. f_equal. exact IH. Qed.

Lemma number_length b (l : list pt) : length (number_from b l) = length l.
Proof. unfold number_from. revert b. induction l as [|x l IH]; intros b; cbn; [reflexivity|]. f_equal. apply IH. Qed.

Section Loop.
  Variables (relocate_m : relocate_method) (ord : sdict -> list group).
  Variables (init0 : flinit) (max : nat) (st : lstate) (labs0 : list nat) (im : image) (t : Z) (ds : list pt).
  Let m := fmet (params_of init0).
  Let rel : reloc_fn := relocate_m (params_of init0) im t (i_threshold init0) (i_percentile init0).

  Definition raw_it (it : item) : Prop := snd it = real_cands m (src_pos no_pred st (fst it)) ds 0.

  Definition mkself (sn : subnets_t) (a : cacc) : flk :=
    mk_flk init0 max None st labs0 im t ds (c_added a) (c_ids a) (c_next a) sn.

  Lemma ext_raw new base it : raw_it it ->
    to_item m (fc_sort (extend_raw m (src_pos no_pred st) new base it)) = ext_item m no_pred st ds new base it.
  Proof. intros H. unfold to_item, fc_sort, extend_raw, ext_item. cbn [fst snd]. rewrite H. reflexivity. Qed.

  Lemma ext_raw0 base it : raw_it it -> to_item m (fc_sort it) = ext_item m no_pred st ds [] base it.
  Proof. intros H. unfold to_item, fc_sort, ext_item. rewrite H. cbn [real_cands]. rewrite app_nil_r. reflexivity. Qed.

  Definition loop_rel (sn : subnets_t) (r : result (flk * list (option nat) * list (option nat))) (r' : result cacc) : Prop :=
    match r, r' with
    | Oversize, Oversize => True
    | Ok (self', spl, dpl), Ok a => self' = mkself sn a /\ length spl = length dpl /\ links_of spl dpl = map zc (c_links a)
    | _, _ => False
    end.

  Theorem py_assign_links_eq sn :
    sn_pos sn = src_pos no_pred st ->
    let sn2 := py_merge_lost_subnets (py_include_lost sn) m in
    Forall (Forall raw_it) (ord (sn_subnets sn2)) ->
    loop_rel sn2 (py_assign_links relocate_m ord (mkself sn (cacc0 ds)))
             (groups_run_c m max no_pred rel st ds (cacc0 ds) (ord (sn_subnets sn2))).
  Proof.
    intros Hpos sn2 Hraw. unfold py_assign_links.
    change (k_subnets (mkself sn (cacc0 ds))) with sn.
    change (fk_search_range (set_k_subnets (mkself sn (cacc0 ds)) (py_include_lost sn))) with m.
    change (k_subnets (set_k_subnets (mkself sn (cacc0 ds)) (py_include_lost sn))) with (py_include_lost sn).
    fold sn2. cbv zeta.
    change (set_k_subnets (set_k_subnets (mkself sn (cacc0 ds)) (py_include_lost sn)) sn2) with (mkself sn2 (cacc0 ds)).
    change (k_subnets (mkself sn2 (cacc0 ds))) with sn2.
    assert (Hpos2 : sn_pos sn2 = src_pos no_pred st).
    { unfold sn2. rewrite py_include_lost_eq. rewrite py_merge_lost_subnets_eq by reflexivity. exact Hpos. }
    unfold subnets_iter.
    generalize dependent (ord (sn_subnets sn2)). intros gs Hraw.
    assert (H0 : length (@nil (option nat)) = length (@nil (option nat)) /\ links_of [] [] = map zc (c_links (cacc0 ds))) by (split; reflexivity).
    revert H0. generalize (cacc0 ds) as a. generalize (@nil (option nat)) at 1 3 5 as spl. generalize (@nil (option nat)) as dpl.
    induction gs as [|g gs IH]; intros dpl spl a [Hlen Hlk].
    - cbn. auto.
    - inversion Hraw as [|? ? Hg Hgs]; subst. cbn [map fold_result groups_run_c].
      (* one subnet *)
      rewrite shortage_pos, shortage_nat.
      unfold group_step_c.
      set (pos := map (fun it : item => src_pos no_pred st (fst it)) g).
      set (new := if (0 <? shortage g)%nat then filter (in_range_any m pos) (rel pos (ds ++ c_added a) (shortage g)) else []).
      match goal with |- context [if (0 <? shortage g)%nat then ?A else ?B] =>
        set (IFT := if (0 <? shortage g)%nat then A else B) end.
      assert (HI : exists self1 ss1 dset1 nc1, IFT = (self1, ss1, dset1, nc1) /\
                 self1 = set_k_next (mkself sn2 a) (c_next a + length new)%nat /\
                 map (to_item m) (map (fun sp => fc_sort sp) ss1) = map (ext_item m no_pred st ds new (c_next a)) g /\
                 nc1 = number_from (c_next a) new).
      { unfold IFT, new. destruct (0 <? shortage g)%nat.
        - cbn [k_pred mkself]. rewrite py_add_dest_points_eq.
          change (k_subnets (mkself sn2 a)) with sn2. change (k_next (mkself sn2 a)) with (c_next a).
          change (fk_search_range (mkself sn2 a)) with m.
          assert (Hnew : filter (in_range_of sn2 m g)
                           (flk_relocate relocate_m (mkself sn2 a) (map (fun s => point_pos (mkself sn2 a) s) g) (shortage g))
                         = filter (in_range_any m pos) (rel pos (ds ++ c_added a) (shortage g))).
          { unfold in_range_of, sn_point_pos. rewrite Hpos2. reflexivity. }
          rewrite Hnew. cbv zeta. do 4 eexists. split; [reflexivity|]. rewrite number_length. split; [reflexivity|]. split; [|reflexivity].
          rewrite Hpos2, !map_map. apply map_ext_in. intros it Hit. apply ext_raw.
          rewrite Forall_forall in Hg. exact (Hg it Hit).
        - do 4 eexists. split; [reflexivity|]. cbn [length]. split; [rewrite Nat.add_0_r; destruct a; reflexivity|]. split; [|reflexivity].
          rewrite map_map. apply map_ext_in. intros it Hit. apply ext_raw0. rewrite Forall_forall in Hg. exact (Hg it Hit). }
      destruct HI as (self1 & ss1 & dset1 & nc1 & EI & Hs1 & Hss1 & Hnc1). rewrite EI. clear EI IFT. cbv beta iota zeta.
      unfold subnet_linker. change (k_max self1) with (k_max self1).
      assert (Hk : k_max self1 = max /\ k_met self1 = m) by (rewrite Hs1; split; reflexivity).
      destruct Hk as [Hk1 Hk2]. rewrite Hk1, Hk2, Hss1.
      destruct (solve_group max (map (ext_item m no_pred st ds new (c_next a)) g)) as [l|]; [|exact I].
      cbv zeta.
      match goal with |- loop_rel _ (fold_result ?B ?L (?S, ?SP, ?DP)) _ =>
        assert (HS : S = mkself sn2 {| c_added := c_added a ++ keep (map (claimed_b l) (seq (c_next a) (length new))) new;
                                       c_ids := c_ids a ++ keep (map (claimed_b l) (seq (c_next a) (length new))) (seq (c_next a) (length new));
                                       c_next := (c_next a + length new)%nat; c_links := c_links a ++ l |}) end.
      { rewrite fold_add_new. rewrite Hs1, Hnc1. unfold new_inter, number_from.
        rewrite (filter_ext _ (fun p : new_pt => claimed_b l (fst p))) by (intros p; apply claimed_in).
        rewrite keep_snd, keep_fst by apply seq_length. reflexivity. }
      rewrite HS. apply IH; [exact Hgs|]. cbn [c_links]. split.
      + rewrite !app_length, !map_length. unfold nones, somes. rewrite repeat_length, map_length. lia.
      + rewrite !links_of_app; [|rewrite !map_length; reflexivity|exact Hlen].
        rewrite links_of_nones, app_nil_r, links_of_solved, Hlk, map_app. reflexivity.
  Qed.
End Loop.

(* ------------------------------------------------------------ apply_links does not read the cost *)
Lemma source_of_zc L j : source_of (map zc L) j = source_of L j.
Proof.
  induction L as [|[i [[k|] c]] L IH]; cbn; [reflexivity| |exact IH]. rewrite IH. reflexivity.
Qed.

Lemma unlinked_zc L i : unlinked_b (map zc L) i = unlinked_b L i.
Proof. unfold unlinked_b. induction L as [|x L IH]; cbn; [reflexivity|]. rewrite IH. reflexivity. Qed.

Lemma assign_labels_zc st L : forall nd j f, assign_labels st (map zc L) nd j f = assign_labels st L nd j f.
Proof.
  induction nd as [|nd IH]; intros j f; cbn; [reflexivity|]. rewrite source_of_zc.
  destruct (source_of L j); rewrite IH; reflexivity.
Qed.

Lemma remembered_zc mem t L : forall l i, remembered mem t (map zc L) i l = remembered mem t L i l.
Proof. induction l as [|s l IH]; intros i; cbn; [reflexivity|]. rewrite unlinked_zc, IH. reflexivity. Qed.

Lemma apply_links_zc mem st D L : apply_links mem st D (map zc L) = apply_links mem st D L.
Proof. unfold apply_links. rewrite assign_labels_zc, remembered_zc. reflexivity. Qed.

Lemma final_zc n ids L : map (final_link n ids) (map zc L) = map zc (map (final_link n ids) L).
Proof. rewrite !map_map. apply map_ext. intros l. reflexivity. Qed.

(* ------------------------------------------------------------ next_level *)
Definition flk_view (s : flk) : lstate * list nat * list pt := (k_st s, k_labs s, hash_points s).
Definition map_result {A B} (f : A -> B) (r : result A) : result B :=
  match r with Ok a => Ok (f a) | Oversize => Oversize end.

Theorem py_next_level_eq relocate_m ord (self : flk) coords t im :
  k_pred self = None ->
  let m := k_met self in
  let rel := relocate_m (params_of (k_init self)) im t (i_threshold (k_init self)) (i_percentile (k_init self)) in
  let items := raw_items m no_pred (k_st self) coords in
  let d := merge_lost_c m (src_pos no_pred (k_st self)) (length (live (k_st self))) (include_lost_c (subnets_compute items) items) in
  Forall (Forall (raw_it (k_init self) (k_st self) coords)) (ord d) ->
  map_result flk_view (py_next_level relocate_m ord self coords t im)
  = find_step_gs m (k_mem self) (k_max self) no_pred rel (ord d) (k_st self) coords.
Proof.
  intros Hp m rel items d Hraw. destruct self as [init0 max pr st labs0 im0 t0 ds0 ad0 ids0 nx0 sn0]. cbn in Hp. subst pr.
  unfold py_next_level. unfold k_mem, k_met in *. cbn [k_st k_init k_max] in *.
  set (self1 := flk_update_hash _ coords).
  assert (E1 : set_k_subnets self1 (subnets_new self1) = mkself init0 max st labs0 im t coords (subnets_new self1) (cacc0 coords)) by reflexivity.
  rewrite E1.
  assert (Hd : sn_subnets (py_merge_lost_subnets (py_include_lost (subnets_new self1)) (fmet (params_of init0))) = d).
  { rewrite py_include_lost_eq. rewrite py_merge_lost_subnets_eq by reflexivity. reflexivity. }
  pose proof (py_assign_links_eq relocate_m ord init0 max st labs0 im t coords (subnets_new self1) eq_refl) as H.
  cbv zeta in H. rewrite Hd in H. specialize (H Hraw).
  unfold find_step_gs. fold m in H. fold rel in H.
  destruct (groups_run_c m max no_pred rel st coords (cacc0 coords) (ord d)) as [a|];
    destruct (py_assign_links _ _ _) as [[[self' spl] dpl]|]; cbn in H; try contradiction; [|reflexivity].
  destruct H as [-> [_ Hl]]. cbn [map_result]. unfold flk_apply_links, flk_view, mkself, hash_points, k_mem. cbn [k_st k_ds k_added k_ids k_init].
  rewrite Hl, final_zc, apply_links_zc.
  destruct (apply_links _ _ _ _) as [st' labs']. reflexivity.
Qed.
