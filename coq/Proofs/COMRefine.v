(* C07, route T for the pure-python engine and the glue of trackpy/refine/center_of_mass.py:
   the functions GENERATED from the source (Gen/refine.v, tools/py2coq_refine.py) equal the
   hand-written model the C07 theorems are stated about (Model/COM.v ref_run / refine_python,
   Model/COMGen.v for the numba side). *)
From Coq Require Import String.
From Coq Require Import ZArith QArith Qabs List Bool Lia.
From TP Require Import Model.COM Model.PyKernel Model.PyRefine Gen.com_kernels Gen.refine
                       Model.COMGen Model.COMRefine Proofs.COM Proofs.COMGen.
Import ListNotations.
Open Scope Z_scope.

(* ---------- lists ---------- *)
Lemma vmap2_seq : forall (A B C : Type) (f : A -> B -> C) (a : list A) (b : list B) da db,
  length a = length b ->
  vmap2 f a b = map (fun d => f (nth d a da) (nth d b db)) (seq 0 (length a)).
Proof.
  induction a as [|x a IH]; intros [|y b] da db L; try discriminate; [reflexivity|].
  cbn [vmap2 length seq map nth]. f_equal. rewrite <- seq_shift, map_map. cbn [nth].
  apply IH. cbn in L. lia.
Qed.

Lemma vmap3_seq : forall (A B C D : Type) (f : A -> B -> C -> D) (a : list A) (b : list B) (c : list C) da db dc,
  length a = length b -> length a = length c ->
  vmap3 f a b c = map (fun d => f (nth d a da) (nth d b db) (nth d c dc)) (seq 0 (length a)).
Proof.
  induction a as [|x a IH]; intros [|y b] [|z c] da db dc L1 L2; try discriminate; [reflexivity|].
  cbn [vmap3 length seq map nth]. f_equal. rewrite <- seq_shift, map_map. cbn [nth].
  apply IH; cbn in L1, L2; lia.
Qed.

Lemma vmap2_length : forall (A B C : Type) (f : A -> B -> C) a b, length a = length b -> length (vmap2 f a b) = length a.
Proof. induction a; intros [|y b] L; try discriminate; cbn; [reflexivity|]. f_equal. apply IHa. cbn in L; lia. Qed.

Lemma map_nth_seq : forall (A B : Type) (F : A -> B) (l : list A) d,
  map (fun k => F (nth k l d)) (seq 0 (length l)) = map F l.
Proof.
  induction l as [|x l IH]; intros d; [reflexivity|]. cbn [length seq map nth]. f_equal.
  rewrite <- seq_shift, map_map. cbn [nth]. apply IH.
Qed.

Lemma zrange_of_nat : forall n, zrange (Z.of_nat n) = map Z.of_nat (seq 0 n).
Proof. intros n. unfold zrange. rewrite Nat2Z.id. reflexivity. Qed.

(* ---------- exact rational sums of integers ---------- *)
Lemma inject_Z_plus' : forall a b, (inject_Z a + inject_Z b)%Q = inject_Z (a + b).
Proof. intros a b. unfold Qplus, inject_Z. cbn. rewrite !Z.mul_1_r. reflexivity. Qed.
Lemma inject_Z_mult' : forall a b, (inject_Z a * inject_Z b)%Q = inject_Z (a * b).
Proof. intros a b. unfold Qmult, inject_Z. cbn. reflexivity. Qed.

Lemma qsum_inject : forall (A : Type) (f : A -> Z) (g : A -> Z) l,
  qsum (map (fun p => (inject_Z (f p) * inject_Z (g p))%Q) l) = inject_Z (zsum (map (fun p => f p * g p) l)).
Proof.
  induction l as [|x l IH]; [reflexivity|]. cbn [map qsum zsum fold_right].
  fold (qsum (map (fun p => (inject_Z (f p) * inject_Z (g p))%Q) l)). rewrite IH.
  fold (zsum (map (fun p => f p * g p) l)). rewrite inject_Z_mult', inject_Z_plus'. reflexivity.
Qed.

(* ---------- shapes ---------- *)
Lemma bdim_same : forall a, bdim a a = a.
Proof. intros a. unfold bdim. destruct (a =? 1); reflexivity. Qed.
Lemma bdim_one : forall a, bdim a 1 = a.
Proof. intros a. unfold bdim. destruct (a =? 1) eqn:E; [apply Z.eqb_eq in E; lia|reflexivity]. Qed.

Lemma vmap2_bdim_same : forall s, vmap2 bdim s s = s.
Proof. induction s; cbn; [reflexivity|]. rewrite bdim_same, IHs. reflexivity. Qed.

Definition rect_of (radius c : list Z) : list slice :=
  vmap2 (fun c r => mkSlice (c - r) (c + r + 1)) c radius.

Lemma rect_shape : forall radius c, length c = length radius ->
  map (fun s => s_stop s - s_start s) (rect_of radius c) = box_shape radius.
Proof.
  intros radius c. revert radius. induction c as [|x c IH]; intros [|r radius] L; try discriminate; [reflexivity|].
  unfold rect_of, box_shape in *. cbn [vmap2 map s_stop s_start]. f_equal; [lia|]. apply IH. cbn in L; lia.
Qed.

Lemma rect_index : forall radius c p, length c = length radius -> length p = length radius ->
  vmap2 (fun s i => s_start s + i) (rect_of radius c) p = at_win radius c p.
Proof.
  intros radius c p. unfold rect_of, at_win, dims, ndim. revert radius p.
  induction c as [|x c IH]; intros [|r radius] [|i p] Lc Lp; try discriminate; [reflexivity|].
  cbn [vmap2 length seq map s_start]. f_equal. rewrite <- seq_shift, map_map.
  rewrite IH by (cbn in Lc, Lp; lia). apply map_ext. intros d. reflexivity.
Qed.

(* the neighbourhood array of the generated code at window centre c *)
Definition mask8 (radius : list Z) (nd : Z) : zarr := barr_to_uint8 (masks_binary_mask radius nd).
Definition nbhd_of (img : zarr) (radius : list Z) (nd : Z) (c : list Z) : zarr :=
  arr_map2 (fun a b => a * b) (mask8 radius nd) (zarr_getslice img (rect_of radius c)).

Lemma nbhd_shape : forall img radius nd c, length c = length radius -> a_shape (nbhd_of img radius nd c) = box_shape radius.
Proof.
  intros. unfold nbhd_of, arr_map2. cbn [a_shape mask8 barr_to_uint8 masks_binary_mask zarr_getslice].
  rewrite rect_shape by assumption. apply vmap2_bdim_same.
Qed.

Lemma nbhd_at : forall img radius nd c p, length c = length radius -> length p = length radius ->
  a_at (nbhd_of img radius nd c) p = nbh (a_at img) radius (binary_mask radius) c p.
Proof.
  intros. unfold nbhd_of, arr_map2, nbh. cbn [a_at mask8 barr_to_uint8 masks_binary_mask zarr_getslice].
  rewrite rect_index by assumption. destruct (binary_mask radius p); lia.
Qed.

Lemma box_grid : forall radius, box radius = grid (box_shape radius).
Proof. reflexivity. Qed.

Lemma in_box_len : forall radius p, In p (grid (box_shape radius)) -> length p = length radius.
Proof. intros radius p H. rewrite <- box_grid in H. apply in_box in H. tauto. Qed.

Lemma nbhd_sum : forall img radius nd c, length c = length radius ->
  zarr_sum (nbhd_of img radius nd c) = nb_sum (a_at img) radius (binary_mask radius) c.
Proof.
  intros. unfold zarr_sum, nb_sum. rewrite nbhd_shape by assumption. rewrite box_grid. f_equal.
  apply map_ext_in. intros p Hp. apply nbhd_at; [assumption|]. eapply in_box_len; eassumption.
Qed.

(* ---------- np.ogrid and _safe_center_of_mass ---------- *)
Definition ogrid_of (radius : list Z) : list qarr :=
  map (fun g => arr_to_float g) (np_ogrid (map (fun i => mkSlice 0 i) (box_shape radius))).

Lemma ogrid_nth : forall radius d, (d < length radius)%nat ->
  exists sh, nth_arr 0%Q (ogrid_of radius) (Z.of_nat d) = mkArr sh (fun p => inject_Z (ix p d)) /\
             vmap2 bdim (box_shape radius) sh = box_shape radius.
Proof.
  intros radius d Hd. unfold nth_arr. replace (Z.of_nat d <? 0) with false by (symmetry; apply Z.ltb_ge; lia).
  rewrite Nat2Z.id. unfold ogrid_of, np_ogrid. rewrite map_map.
  set (sl := map (fun i => mkSlice 0 i) (box_shape radius)).
  assert (Lb : length (box_shape radius) = length radius) by (unfold box_shape; apply map_length).
  assert (Ln : length sl = length radius) by (unfold sl; rewrite map_length; exact Lb).
  rewrite Ln. rewrite nth_map_seq by lia. cbn [plus].
  assert (Es : nth d sl (mkSlice 0 0) = mkSlice 0 (nth d (box_shape radius) 0)).
  { unfold sl. exact (map_nth (fun i => mkSlice 0 i) (box_shape radius) 0 d). }
  rewrite Es. unfold arr_to_float. cbn [a_shape a_at s_start s_stop].
  exists (map (fun k => if Nat.eqb k d then nth d (box_shape radius) 0 - 0 else 1) (seq 0 (length radius))).
  split; [reflexivity|].
  rewrite (vmap2_seq _ _ _ _ _ _ 0 0) by (rewrite map_length, seq_length; lia).
  rewrite Lb. transitivity (map (fun k => nth k (box_shape radius) 0) (seq 0 (length radius))).
  2: { rewrite <- Lb. rewrite (map_nth_seq _ _ (fun x => x)). apply map_id. }
  apply map_ext_in. intros k Hk. apply in_seq in Hk.
  rewrite nth_map_seq by lia. cbn [plus].
  destruct (Nat.eqb k d) eqn:E.
  - apply Nat.eqb_eq in E. subst k. rewrite Z.sub_0_r. apply bdim_same.
  - apply bdim_one.
Qed.

Lemma gen_safe_com : forall img radius nd c, length c = length radius ->
  py_safe_center_of_mass (nbhd_of img radius nd c) radius (ogrid_of radius) =
  safe_com (a_at img) radius (binary_mask radius) c.
Proof.
  intros img radius nd c L. unfold py_safe_center_of_mass, safe_com.
  rewrite nbhd_sum by assumption.
  destruct (nb_sum (a_at img) radius (binary_mask radius) c =? 0); [reflexivity|].
  unfold a_ndim. rewrite nbhd_shape by assumption.
  replace (length (box_shape radius)) with (length radius) by (unfold box_shape; rewrite map_length; reflexivity).
  rewrite zrange_of_nat, map_map. unfold dims, ndim. apply map_ext_in. intros d Hd. apply in_seq in Hd.
  destruct (ogrid_nth radius d) as [sh [E S]]; [lia|]. rewrite E.
  unfold qdiv. f_equal. unfold qarr_sum, arr_map2. cbn [a_shape a_at].
  rewrite nbhd_shape by assumption. rewrite S.
  rewrite qsum_inject. f_equal. unfold nb_moment. rewrite box_grid. f_equal.
  apply map_ext_in. intros p Hp. rewrite nbhd_at; [reflexivity|assumption|]. eapply in_box_len; eassumption.
Qed.

(* ---------- one iteration of the loop of _refine ---------- *)
Lemma nth_seq_map : forall (A : Type) (F : nat -> A) n d def, (d < n)%nat -> nth d (map F (seq 0 n)) def = F d.
Proof. intros. rewrite nth_map_seq by assumption. reflexivity. Qed.

Lemma forallb_map_id : forall (A : Type) (f : A -> bool) l, np_all (map f l) = forallb f l.
Proof. induction l; cbn; [reflexivity|]. unfold np_all in IHl. rewrite IHl. reflexivity. Qed.

Section Step.
  Variables (image : zarr) (radius : list Z) (thresh : Q) (nd : Z).
  Definition m_cmn (c : list Z) : list Q := safe_com (a_at image) radius (binary_mask radius) c.
  Definition m_off (c : list Z) : list Q := map (fun d => (qx (m_cmn c) d - inject_Z (ix radius d))%Q) (dims radius).
  Definition m_cmi (c : list Z) : list Q := map (fun d => (qx (m_off c) d + inject_Z (ix c d))%Q) (dims radius).
  Definition m_next (c : list Z) : list Z :=
    map (fun d => r_clip1 (r_shift1 thresh (ix c d) (qx (m_off c) d)) (ix radius d) (upper radius (a_shape image) d)) (dims radius).

  Lemma m_cmn_length : forall c, length (m_cmn c) = length radius.
  Proof.
    intros c. unfold m_cmn, safe_com. destruct (_ =? 0); rewrite map_length; [reflexivity|].
    unfold dims, ndim. apply seq_length.
  Qed.
  Lemma m_off_length : forall c, length (m_off c) = length radius.
  Proof. intros. unfold m_off, dims, ndim. rewrite map_length. apply seq_length. Qed.
  Lemma m_next_length : forall c, length (m_next c) = length radius.
  Proof. intros. unfold m_next, dims, ndim. rewrite map_length. apply seq_length. Qed.

  Lemma gen_off : forall c, vmap2 (fun a b => (a - inject_Z b)%Q) (m_cmn c) radius = m_off c.
  Proof.
    intros c. rewrite (vmap2_seq _ _ _ _ _ _ 0%Q 0) by apply m_cmn_length. rewrite m_cmn_length. reflexivity.
  Qed.

  Lemma gen_cmi : forall c, length c = length radius ->
    vmap2 (fun a b => (a + inject_Z b)%Q) (m_off c) c = m_cmi c.
  Proof.
    intros c L. rewrite (vmap2_seq _ _ _ _ _ _ 0%Q 0) by (rewrite m_off_length; lia). rewrite m_off_length. reflexivity.
  Qed.

  Lemma gen_next : forall c, length c = length radius -> length (a_shape image) = length radius ->
    vmap3 (fun c l h => Z.min (Z.max c l) h)
          (vmap2 (fun c (b : bool) => if b then c + (-1) else c)
                 (vmap2 (fun c (b : bool) => if b then c + 1 else c) c (map (fun o => qltb thresh o) (m_off c)))
                 (map (fun o => qltb o (- thresh)%Q) (m_off c)))
          radius
          (vmap2 (fun a b => a - b) (map (fun a => a - 1) (a_shape image)) radius) = m_next c.
  Proof.
    intros c L Ls. set (n := length radius) in *.
    assert (Lo : length (m_off c) = n) by apply m_off_length.
    rewrite (vmap2_seq _ _ _ _ c _ 0 ((fun o => qltb thresh o) 0%Q)) by (rewrite map_length; lia).
    rewrite (vmap2_seq _ _ _ _ (map (fun a => a - 1) (a_shape image)) radius ((fun a => a - 1) 0) 0) by (rewrite map_length; lia).
    rewrite map_length, L, Ls.
    rewrite (vmap2_seq _ _ _ _ _ _ 0 ((fun o => qltb o (- thresh)%Q) 0%Q)) by (rewrite !map_length, seq_length; lia).
    rewrite map_length, seq_length.
    rewrite (vmap3_seq _ _ _ _ _ _ _ _ 0 0 0) by (rewrite !map_length, seq_length; try reflexivity; lia).
    rewrite map_length, seq_length.
    unfold m_next, dims, ndim. fold n. apply map_ext_in. intros d Hd. apply in_seq in Hd.
    rewrite !nth_seq_map by lia.
    change (qltb thresh 0) with ((fun o => qltb thresh o) 0%Q).
    change (qltb 0 (- thresh)) with ((fun o => qltb o (- thresh)%Q) 0%Q).
    change (0 - 1) with ((fun a => a - 1) 0).
    rewrite !map_nth.
    replace (nth d (map (fun a => a - 1) (a_shape image)) (0 - 1)) with (nth d (a_shape image) 0 - 1)
      by (symmetry; exact (map_nth (fun a => a - 1) (a_shape image) 0 d)).
    unfold r_clip1, r_shift1, upper, ix, qx, Qltb, qltb.
    destruct (negb (Qle_bool (nth d (m_off c) 0%Q) thresh)), (negb (Qle_bool (- thresh) (nth d (m_off c) 0%Q))); f_equal; lia.
  Qed.

  Lemma gen_step : forall i c r0 n0 a0 b0 o0 u0,
    length c = length radius -> length (a_shape image) = length radius ->
    py_refine_loop2 image radius thresh (mask8 radius nd) (ogrid_of radius) i (r0, n0, a0, b0, o0, c, u0) =
    if all_lt thresh (m_off c)
    then (true, (rect_of radius c, nbhd_of image radius nd c, m_cmn c, m_cmi c, m_off c, c, u0))
    else (false, (rect_of radius c, nbhd_of image radius nd c, m_cmn c, m_cmi c, m_off c, m_next c,
                  vmap2 (fun a b => a - b) (map (fun a => a - 1) (a_shape image)) radius)).
  Proof.
    intros i c r0 n0 a0 b0 o0 u0 L Ls. unfold py_refine_loop2. cbv beta iota zeta.
    fold (rect_of radius c). fold (nbhd_of image radius nd c).
    rewrite gen_safe_com by assumption. fold (m_cmn c). rewrite gen_off, gen_cmi by assumption.
    rewrite map_map, forallb_map_id. unfold all_lt.
    change (forallb (fun x => qltb (Qabs x) thresh) (m_off c)) with (forallb (fun o => Qltb (Qabs o) thresh) (m_off c)).
    destruct (forallb (fun o => Qltb (Qabs o) thresh) (m_off c)); [reflexivity|].
    rewrite gen_next by assumption. reflexivity.
  Qed.

  Lemma ref_loop_unfold : forall n c,
    ref_loop (a_at image) radius (a_shape image) thresh (binary_mask radius) n c =
    if all_lt thresh (m_off c) then mkR c (m_cmi c)
    else match n with O => mkR c (m_cmi c) | S n' => ref_loop (a_at image) radius (a_shape image) thresh (binary_mask radius) n' (m_next c) end.
  Proof. intros n c. destruct n; reflexivity. Qed.

  Lemma gen_inner_loop : forall n i c r0 n0 a0 b0 o0 u0,
    length c = length radius -> length (a_shape image) = length radius ->
    let rs := ref_loop (a_at image) radius (a_shape image) thresh (binary_mask radius) n c in
    length (r_rect rs) = length radius /\
    exists a b c' u,
      for_range_break_from (S n) i (py_refine_loop2 image radius thresh (mask8 radius nd) (ogrid_of radius)) (r0, n0, a0, b0, o0, c, u0) =
      (rect_of radius (r_rect rs), nbhd_of image radius nd (r_rect rs), a, r_cmi rs, b, c', u).
  Proof.
    induction n as [|n IH]; intros i c r0 n0 a0 b0 o0 u0 L Ls; cbv zeta; rewrite ref_loop_unfold;
      cbn [for_range_break_from]; rewrite gen_step by assumption.
    - destruct (all_lt thresh (m_off c)); cbn [r_rect r_cmi]; (split; [assumption|]); do 4 eexists; reflexivity.
    - destruct (all_lt thresh (m_off c)).
      + cbn [r_rect r_cmi]. split; [assumption|]. do 4 eexists; reflexivity.
      + apply (IH (i + 1)); [apply m_next_length|assumption].
  Qed.
End Step.

(* ---------- the characterisation of one feature ---------- *)
Lemma get_set_scalar : forall a i q, get_scalar (set_row a i [CQ q]) i = q.
Proof. intros. unfold get_scalar, set_row. cbn [f_row]. rewrite Z.eqb_refl. reflexivity. Qed.

Lemma isotropic_gen : forall radius, zlist_eqb (py_from1 radius) (py_butlast radius) = isotropic radius.
Proof.
  unfold py_from1, py_butlast, isotropic. intros [|x l]; [reflexivity|].
  cbn [tl hd forallb]. rewrite Z.eqb_refl. cbn [andb].
  revert x. induction l as [|y l IH]; intros x; [reflexivity|].
  change (removelast (x :: y :: l)) with (x :: removelast (y :: l)).
  cbn [zlist_eqb forallb]. rewrite IH.
  destruct (y =? x) eqn:E; [|reflexivity]. apply Z.eqb_eq in E. subst y. reflexivity.
Qed.

Section Feature.
  Variables (raw_image image : zarr) (radius : list Z) (thresh : Q).
  Let nd := a_ndim image.
  Let pix := a_at image.
  Let rawpix := a_at raw_image.
  Let mask := binary_mask radius.

  Definition w_mass (w : list Z) : Z := nb_sum pix radius mask w.
  Definition w_rg2 (w : list Z) : list Q :=
    if isotropic radius
    then [qdiv (zsum (map (fun p => (if mask p then zsum (map (fun c => c * c) (offs radius p)) else 0) * nbh pix radius mask w p)
                          (box radius))) (w_mass w)]
    else map (fun d => qdiv (Z.of_nat (ndim radius) *
                             zsum (map (fun p => (if mask p then (ix p d - ix radius d) * (ix p d - ix radius d) else 0) * nbh pix radius mask w p)
                                       (box radius))) (w_mass w)) (dims radius).
  Definition w_signal (w : list Z) : Z := list_max (map (nbh pix radius mask w) (box radius)).
  Definition w_raw (w : list Z) : Z := zsum (map (fun p => if mask p then rawpix (at_win radius w p) else 0) (box radius)).

  Lemma ref_output_eq : forall ch st,
    ref_output pix rawpix radius mask ch st =
    if negb ch then mkOut (r_cmi st) (w_mass (r_rect st)) None
    else mkOut (r_cmi st) (w_mass (r_rect st)) (Some (w_rg2 (r_rect st), w_signal (r_rect st), w_raw (r_rect st))).
  Proof. reflexivity. Qed.

  Hypothesis Hshape : length (a_shape image) = length radius.

  Lemma nd_eq : nd = Z.of_nat (length radius).
  Proof. unfold nd, a_ndim. rewrite Hshape. reflexivity. Qed.

  Lemma mul_shape : forall (m : list Z -> Z) w, length w = length radius ->
    a_shape (arr_map2 (fun a b => a * b) (mkArr (box_shape radius) m) (nbhd_of image radius nd w)) = box_shape radius.
  Proof. intros. unfold arr_map2. cbn [a_shape]. rewrite nbhd_shape by assumption. apply vmap2_bdim_same. Qed.

  Lemma weighted_sum : forall (m : list Z -> Z) w, length w = length radius ->
    zarr_sum (arr_map2 (fun a b => a * b) (mkArr (box_shape radius) m) (nbhd_of image radius nd w)) =
    zsum (map (fun p => m p * nbh pix radius mask w p) (box radius)).
  Proof.
    intros m w L. unfold zarr_sum. rewrite mul_shape by assumption. rewrite box_grid. f_equal.
    apply map_ext_in. intros p Hp. unfold arr_map2. cbn [a_at]. rewrite nbhd_at; [reflexivity|assumption|].
    eapply in_box_len; eassumption.
  Qed.

  Lemma gen_rg2 : forall w ms feat, length w = length radius ->
    (if isotropic radius
     then [CSqrt (inject_Z (zarr_sum (arr_map2 (fun a b => a * b) (masks_r_squared_mask radius nd) (nbhd_of image radius nd w))) /
                  get_scalar (set_row ms feat [CQ (inject_Z (w_mass w))]) feat)]
     else map CSqrt (map (fun a => (inject_Z a / get_scalar (set_row ms feat [CQ (inject_Z (w_mass w))]) feat)%Q)
                         (map (fun b => nd * b)
                              (map zarr_sum (map (fun m => arr_map2 (fun a b => a * b) m (nbhd_of image radius nd w))
                                                 (masks_x_squared_masks radius nd))))))
    = map CSqrt (w_rg2 w).
  Proof.
    intros w ms feat L. unfold w_rg2. rewrite get_set_scalar. destruct (isotropic radius).
    - unfold masks_r_squared_mask. rewrite weighted_sum by assumption. reflexivity.
    - unfold masks_x_squared_masks. rewrite !map_map. unfold dims, ndim. apply map_ext. intros d.
      rewrite weighted_sum by assumption. rewrite nd_eq. reflexivity.
  Qed.

  Lemma gen_signal : forall w, length w = length radius -> zarr_max (nbhd_of image radius nd w) = w_signal w.
  Proof.
    intros w L. unfold zarr_max, w_signal. rewrite nbhd_shape by assumption. rewrite box_grid. f_equal.
    apply map_ext_in. intros p Hp. apply nbhd_at; [assumption|]. eapply in_box_len; eassumption.
  Qed.

  Lemma gen_raw : forall w, length w = length radius ->
    zarr_sum (arr_map2 (fun a b => a * b) (mask8 radius nd) (zarr_getslice raw_image (rect_of radius w))) = w_raw w.
  Proof.
    intros w L. fold (nbhd_of raw_image radius nd w). rewrite nbhd_sum by assumption. reflexivity.
  Qed.

  (* one pass of `for feat, coord in enumerate(coords)` *)
  Definition row_pos (ch : bool) (n : nat) (c : list Z) : output :=
    ref_output pix rawpix radius mask ch (ref_loop pix radius (a_shape image) thresh mask n c).

  Lemma gen_body : forall maxit ch wt feat c r0 n0 a0 b0 o0 u0 fc ms rg sg rn0 rm,
    1 <= maxit -> length c = length radius ->
    let rs := ref_loop pix radius (a_shape image) thresh mask (pred (Z.to_nat maxit)) c in
    exists r n a b u rn,
      py_refine_loop1 raw_image image radius maxit thresh ch wt nd (isotropic radius) (mask8 radius nd) (ogrid_of radius)
                      feat c (r0, n0, a0, b0, o0, u0, fc, ms, rg, sg, rn0, rm) =
      (r, n, a, r_cmi rs, b, u,
       set_row fc feat (map CQ (r_cmi rs)),
       set_row ms feat [CQ (inject_Z (w_mass (r_rect rs)))],
       (if ch then set_row rg feat (map CSqrt (w_rg2 (r_rect rs))) else rg),
       (if ch then set_row sg feat [CQ (inject_Z (w_signal (r_rect rs)))] else sg),
       rn,
       (if ch then set_row rm feat [CQ (inject_Z (w_raw (r_rect rs)))] else rm)).
  Proof.
    intros maxit ch wt feat c r0 n0 a0 b0 o0 u0 fc ms rg sg rn0 rm Hm L. cbv zeta.
    unfold py_refine_loop1. cbv beta iota zeta. unfold for_range_break.
    destruct (Z.to_nat maxit) as [|n] eqn:En; [lia|]. cbn [pred].
    destruct (gen_inner_loop image radius thresh nd n 0 c r0 n0 a0 b0 o0 u0 L Hshape) as [Lw [a [b [c' [u E]]]]].
    fold pix mask in E, Lw. rewrite E. cbv beta iota zeta.
    set (w := r_rect (ref_loop pix radius (a_shape image) thresh mask n c)) in *.
    rewrite nbhd_sum by assumption. fold pix mask. fold (w_mass w).
    destruct ch; cbn [negb].
    - match goal with |- context [if isotropic radius then set_row ?g ?f ?A else set_row ?g ?f ?B] =>
        replace (if isotropic radius then set_row g f A else set_row g f B)
          with (set_row g f (if isotropic radius then A else B)) by (destruct (isotropic radius); reflexivity)
      end.
      rewrite gen_rg2, gen_signal, gen_raw by assumption. do 6 eexists. reflexivity.
    - do 6 eexists. reflexivity.
  Qed.
End Feature.

(* ---------- the loop over the features and np.column_stack ---------- *)
Lemma enumerate_rows : forall (S : Type) (g : S -> farr) (h : list Z -> list cell) (P : list Z -> Prop)
    (body : Z -> list Z -> S -> S),
  (forall i x st, P x -> g (body i x st) = set_row (g st) i (h x)) ->
  forall l i0 st, Forall P l ->
  f_len (g (for_enumerate_from l i0 body st)) = f_len (g st) /\
  (forall j, j < i0 -> f_row (g (for_enumerate_from l i0 body st)) j = f_row (g st) j) /\
  (forall k, (k < length l)%nat -> f_row (g (for_enumerate_from l i0 body st)) (i0 + Z.of_nat k) = h (nth k l [])).
Proof.
  intros S g h P body Hb. induction l as [|x l IH]; intros i0 st HP.
  - cbn. repeat split; intros; try reflexivity. lia.
  - inversion HP as [|? ? Hx Hl]; subst. cbn [for_enumerate_from].
    destruct (IH (i0 + 1) (body i0 x st) Hl) as [I1 [I2 I3]].
    assert (I2' : forall j, j < i0 + 1 -> f_row (g (for_enumerate_from l (i0 + 1) body (body i0 x st))) j = f_row (set_row (g st) i0 (h x)) j)
      by (intros j Hj; rewrite I2 by lia; rewrite (Hb _ _ _ Hx); reflexivity).
    clear I2. rename I2' into I2. rewrite (Hb _ _ _ Hx) in I1.
    repeat split.
    + rewrite I1. reflexivity.
    + intros j Hj. rewrite I2 by lia. unfold set_row. cbn [f_row].
      destruct (j =? i0) eqn:E; [apply Z.eqb_eq in E; lia|reflexivity].
    + intros [|k] Hk.
      * rewrite Z.add_0_r. rewrite I2 by lia. unfold set_row. cbn [f_row]. rewrite Z.eqb_refl. reflexivity.
      * cbn [nth]. rewrite <- (I3 k) by (cbn in Hk; lia). f_equal. lia.
Qed.

Lemma stack_rows : forall (A : Type) (l : list A) (F : Z -> list cell) (G : A -> list cell) d,
  (forall k, (k < length l)%nat -> F (0 + Z.of_nat k) = G (nth k l d)) ->
  map F (zrange (Z.of_nat (length l))) = map G l.
Proof.
  intros A l F G d H. rewrite zrange_of_nat, map_map. rewrite <- (map_nth_seq _ _ G l d).
  apply map_ext_in. intros k Hk. apply in_seq in Hk. rewrite <- H by lia. reflexivity.
Qed.

Theorem gen_refine_is_model : forall raw_image image radius coords max_iterations thresh characterize walkthrough,
  1 <= max_iterations -> length (a_shape image) = length radius ->
  Forall (fun c => length c = length radius) (m_rows coords) ->
  py_refine raw_image image radius coords max_iterations thresh characterize walkthrough =
  map (fun start => ref_row (ref_run (a_at image) (a_at raw_image) radius (a_shape image) thresh (binary_mask radius)
                                     (Z.to_nat max_iterations) characterize start)) (m_rows coords).
Proof.
  intros raw image radius coords maxit thresh ch wt Hm Hs Hc.
  unfold py_refine. cbv zeta. rewrite isotropic_gen.
  fold (mask8 radius (a_ndim image)).
  change (map (fun g => arr_to_float g) (np_ogrid (map (fun i => mkSlice 0 i) (a_shape (mask8 radius (a_ndim image))))))
    with (ogrid_of radius).
  unfold for_enumerate, m_nrows.
  set (body := py_refine_loop1 raw image radius maxit thresh ch wt (a_ndim image) (isotropic radius)
                               (mask8 radius (a_ndim image)) (ogrid_of radius)).
  set (n := pred (Z.to_nat maxit)).
  set (rs := fun c => ref_loop (a_at image) radius (a_shape image) thresh (binary_mask radius) n c).
  assert (B : forall i x (st : list slice * zarr * list Q * list Q * list Q * list Z * farr * farr * farr * farr * zarr * farr),
             length x = length radius ->
             let '(r0, n0, a0, b0, o0, u0, fc, ms, rg, sg, rn0, rm) := st in
             exists r nn a b u rn,
               body i x st =
               (r, nn, a, r_cmi (rs x), b, u, set_row fc i (map CQ (r_cmi (rs x))),
                set_row ms i [CQ (inject_Z (w_mass image radius (r_rect (rs x))))],
                (if ch then set_row rg i (map CSqrt (w_rg2 image radius (r_rect (rs x)))) else rg),
                (if ch then set_row sg i [CQ (inject_Z (w_signal image radius (r_rect (rs x))))] else sg),
                rn,
                (if ch then set_row rm i [CQ (inject_Z (w_raw raw radius (r_rect (rs x))))] else rm))).
  { intros i x st Lx. destruct st as [[[[[[[[[[[r0 n0] a0] b0] o0] u0] fc] ms] rg] sg] rn0] rm].
    apply (gen_body raw image radius thresh Hs maxit ch wt i x); assumption. }
  set (P := fun c : list Z => length c = length radius).
  assert (Efc := enumerate_rows _ (fun st => let '(_, _, _, _, _, _, fc, _, _, _, _, _) := st in fc)
                                (fun x => map CQ (r_cmi (rs x))) P body).
  assert (Ems := enumerate_rows _ (fun st => let '(_, _, _, _, _, _, _, ms, _, _, _, _) := st in ms)
                                (fun x => [CQ (inject_Z (w_mass image radius (r_rect (rs x))))]) P body).
  unfold ref_run. fold n.
  destruct ch.
  - assert (Erg := enumerate_rows _ (fun st => let '(_, _, _, _, _, _, _, _, rg, _, _, _) := st in rg)
                                  (fun x => map CSqrt (w_rg2 image radius (r_rect (rs x)))) P body).
    assert (Esg := enumerate_rows _ (fun st => let '(_, _, _, _, _, _, _, _, _, sg, _, _) := st in sg)
                                  (fun x => [CQ (inject_Z (w_signal image radius (r_rect (rs x))))]) P body).
    assert (Erm := enumerate_rows _ (fun st => let '(_, _, _, _, _, _, _, _, _, _, _, rm) := st in rm)
                                  (fun x => [CQ (inject_Z (w_raw raw radius (r_rect (rs x))))]) P body).
    cbv beta iota zeta.
    match goal with |- context [for_enumerate_from _ 0 body ?s0] => set (st0 := s0) in * end.
    specialize (Efc ltac:(intros i x st Lx; specialize (B i x st Lx);
                          destruct st as [[[[[[[[[[[r0 n0] a0] b0] o0] u0] fc] ms] rg] sg] rn0] rm];
                          destruct B as (? & ? & ? & ? & ? & ? & ->); reflexivity) (m_rows coords) 0 st0 Hc).
    specialize (Ems ltac:(intros i x st Lx; specialize (B i x st Lx);
                          destruct st as [[[[[[[[[[[r0 n0] a0] b0] o0] u0] fc] ms] rg] sg] rn0] rm];
                          destruct B as (? & ? & ? & ? & ? & ? & ->); reflexivity) (m_rows coords) 0 st0 Hc).
    specialize (Erg ltac:(intros i x st Lx; specialize (B i x st Lx);
                          destruct st as [[[[[[[[[[[r0 n0] a0] b0] o0] u0] fc] ms] rg] sg] rn0] rm];
                          destruct B as (? & ? & ? & ? & ? & ? & ->); reflexivity) (m_rows coords) 0 st0 Hc).
    specialize (Esg ltac:(intros i x st Lx; specialize (B i x st Lx);
                          destruct st as [[[[[[[[[[[r0 n0] a0] b0] o0] u0] fc] ms] rg] sg] rn0] rm];
                          destruct B as (? & ? & ? & ? & ? & ? & ->); reflexivity) (m_rows coords) 0 st0 Hc).
    specialize (Erm ltac:(intros i x st Lx; specialize (B i x st Lx);
                          destruct st as [[[[[[[[[[[r0 n0] a0] b0] o0] u0] fc] ms] rg] sg] rn0] rm];
                          destruct B as (? & ? & ? & ? & ? & ? & ->); reflexivity) (m_rows coords) 0 st0 Hc).
    destruct (for_enumerate_from (m_rows coords) 0 body st0) as [[[[[[[[[[[r1 n1] a1] b1] o1] u1] fc1] ms1] rg1] sg1] rn1] rm1].
    destruct Efc as [Lf [_ Rf]], Ems as [_ [_ Rm]], Erg as [_ [_ Rr]], Esg as [_ [_ Rs]], Erm as [_ [_ Rw]].
    unfold column_stack. rewrite Lf. unfold st0. cbn [f_len np_empty2].
    apply stack_rows with (d := []). intros k Hk. cbn [flat_map].
    rewrite Rf, Rm, Rr, Rs, Rw by assumption. rewrite app_nil_r.
    unfold rs. rewrite ref_output_eq. cbn [negb]. unfold ref_row. cbn [o_pos o_mass o_char np_empty1 f_row].
    reflexivity.
  - cbv beta iota zeta.
    match goal with |- context [for_enumerate_from _ 0 body ?s0] => set (st0 := s0) in * end.
    specialize (Efc ltac:(intros i x st Lx; specialize (B i x st Lx);
                          destruct st as [[[[[[[[[[[r0 n0] a0] b0] o0] u0] fc] ms] rg] sg] rn0] rm];
                          destruct B as (? & ? & ? & ? & ? & ? & ->); reflexivity) (m_rows coords) 0 st0 Hc).
    specialize (Ems ltac:(intros i x st Lx; specialize (B i x st Lx);
                          destruct st as [[[[[[[[[[[r0 n0] a0] b0] o0] u0] fc] ms] rg] sg] rn0] rm];
                          destruct B as (? & ? & ? & ? & ? & ? & ->); reflexivity) (m_rows coords) 0 st0 Hc).
    destruct (for_enumerate_from (m_rows coords) 0 body st0) as [[[[[[[[[[[r1 n1] a1] b1] o1] u1] fc1] ms1] rg1] sg1] rn1] rm1].
    destruct Efc as [Lf [_ Rf]], Ems as [_ [_ Rm]].
    unfold column_stack. rewrite Lf. unfold st0. cbn [f_len np_empty2].
    apply stack_rows with (d := []). intros k Hk. cbn [flat_map].
    rewrite Rf, Rm by assumption. rewrite app_nil_r.
    unfold rs. rewrite ref_output_eq. cbn [negb]. unfold ref_row. cbn [o_pos o_mass o_char]. rewrite app_nil_r. reflexivity.
Qed.

(* ---------- refine_com_arr ---------- *)
Lemma maxit_fix : forall m, (if m <=? 0 then 1 else m) = Z.max 1 m.
Proof. intros m. destruct (m <=? 0) eqn:E; [apply Z.leb_le in E|apply Z.leb_gt in E]; lia. Qed.

Lemma rounded_rows_length : forall (coords : qmat) n, mat_wf coords -> m_ncols coords = Z.of_nat n ->
  Forall (fun c => length c = n) (m_rows (mat_round_int coords)).
Proof.
  intros coords n W E. unfold mat_round_int. cbn [m_rows]. apply Forall_forall. intros r Hr.
  apply in_map_iff in Hr. destruct Hr as [q [<- Hq]]. rewrite map_length.
  unfold mat_wf in W. rewrite Forall_forall in W. specialize (W q Hq). lia.
Qed.


(* engine='python' (or 'auto' where numba is not taken): the rows of the reference model *)
Theorem gen_refine_com_arr_python : forall NUMBA_AVAILABLE raw_image image radius coords max_iterations engine thresh characterize walkthrough,
  mat_wf coords -> a_ndim raw_image = m_ncols coords -> a_ndim image = a_ndim raw_image ->
  Z.of_nat (length radius) = a_ndim image ->
  (engine = "python"%string \/
   (engine = "auto"%string /\ NUMBA_AVAILABLE && ((a_ndim image =? 2) || (a_ndim image =? 3)) = false)) ->
  py_refine_com_arr NUMBA_AVAILABLE raw_image image (RTuple radius) coords max_iterations engine thresh characterize walkthrough =
  Ret (refine_rows (a_at image) (a_at raw_image) radius (a_shape image) thresh max_iterations characterize
                   (m_rows (mat_round_int coords))).
Proof.
  intros NA raw image radius coords maxit engine thresh ch wt W Hc Hi Hr He.
  unfold py_refine_com_arr. cbv zeta. rewrite Hc, Z.eqb_refl. cbn [negb].
  unfold validate_tuple. rewrite Hr, Z.eqb_refl. cbn [rbind]. rewrite maxit_fix.
  assert (Ls : length (a_shape image) = length radius) by (unfold a_ndim in Hr; lia).
  assert (E : (if String.eqb (if String.eqb engine "auto"%string then if NA && ((a_ndim image =? 2) || (a_ndim image =? 3)) then "numba"%string else "python"%string else engine) "python"%string then true else false) = true).
  { destruct He as [-> | [-> ->]]; reflexivity. }
  destruct (String.eqb (if String.eqb engine "auto"%string then if NA && ((a_ndim image =? 2) || (a_ndim image =? 3)) then "numba"%string else "python"%string else engine) "python"%string);
    [|discriminate].
  rewrite gen_refine_is_model; [reflexivity|lia|exact Ls|].
  apply rounded_rows_length; [exact W|]. rewrite <- Hc, <- Hi, Hr. reflexivity.
Qed.

Lemma rbind_ret : forall (A : Type) (r : result A), rbind r (fun x => Ret x) = r.
Proof. intros A [a|e]; reflexivity. Qed.
Lemma round_nrows : forall coords, m_nrows (mat_round_int coords) = m_nrows coords.
Proof. intros. unfold m_nrows, mat_round_int. cbn [m_rows]. rewrite map_length. reflexivity. Qed.

Lemma nonzero_row2 : forall rY rX nd d, (d < 2)%nat ->
  row_of (barr_nonzero (masks_binary_mask [rY; rX] nd)) d = col d (mask_points [rY; rX]).
Proof. intros rY rX nd [|[|d]] H; [reflexivity|reflexivity|lia]. Qed.
Lemma nonzero_row3 : forall rZ rY rX nd d, (d < 3)%nat ->
  row_of (barr_nonzero (masks_binary_mask [rZ; rY; rX] nd)) d = col d (mask_points [rZ; rY; rX]).
Proof. intros rZ rY rX nd [|[|[|d]]] H; [reflexivity|reflexivity|reflexivity|lia]. Qed.
Lemma col_length : forall d m, Z.of_nat (length (col d m)) = Z.of_nat (length m).
Proof. intros. unfold col. rewrite map_length. reflexivity. Qed.

(* engine='numba' (or 'auto' with numba on a 2-D / 3-D image), 2-D: each branch of the dispatch hands its
   kernel exactly the arguments for which Proofs/COMGen.v proves the kernel equal to the kernel model *)
Theorem gen_refine_com_arr_numba_2D : forall NUMBA_AVAILABLE raw_image image rY rX coords max_iterations engine thresh characterize,
  a_ndim raw_image = m_ncols coords -> a_ndim image = 2 ->
  (engine = "numba"%string \/ (engine = "auto"%string /\ NUMBA_AVAILABLE = true)) ->
  let radius := [rY; rX] in
  let rows := m_rows (mat_round_int coords) in
  let run := refine_numba (img2 (as_nested2 image)) (img2 (as_nested2 raw_image)) radius
                          [zget (a_shape image) 0; zget (a_shape image) 1] thresh max_iterations characterize in
  let start := fun feat => [get2 rows feat 0; get2 rows feat 1] in
  py_refine_com_arr NUMBA_AVAILABLE raw_image image (RTuple radius) coords max_iterations engine thresh characterize false =
  if negb characterize then numba_rows run start cells_2D (m_nrows coords) 3
  else if rY =? rX then numba_rows run start cells_2D_c (m_nrows coords) 7
  else numba_rows run start cells_2D_c_a (m_nrows coords) 8.
Proof.
  intros NA raw image rY rX coords maxit engine thresh ch Hc Hi He radius rows run start. subst radius.
  unfold py_refine_com_arr. cbv zeta. rewrite Hc, Z.eqb_refl. cbn [negb].
  unfold validate_tuple. rewrite Hi. cbn [length Z.of_nat Pos.of_succ_nat Pos.succ Z.eqb Pos.eqb rbind orb].
  rewrite maxit_fix.
  assert (E : (if String.eqb engine "auto"%string then if NA && true then "numba"%string else "python"%string else engine) = "numba"%string)
    by (destruct He as [-> | [-> ->]]; reflexivity).
  rewrite E.
  change (String.eqb "numba"%string "python"%string) with false. change (String.eqb "numba"%string "numba"%string) with true.
  cbv iota. cbn [negb]. cbv iota.
  rewrite !nonzero_row2 by lia. rewrite !col_length.
  change (zget [rY; rX] 0) with rY. change (zget [rY; rX] 1) with rX.
  rewrite !rbind_ret, !round_nrows. unfold numba_rows. subst run start rows.
  destruct ch; cbn [negb].
  - destruct (rY =? rX) eqn:Er.
    + apply Z.eqb_eq in Er.
      change (zarr_select (masks_r_squared_mask [rY; rX] 2) (masks_binary_mask [rY; rX] 2)) with (r2m [rY; rX]).
      rewrite (gen_2D_c_is_model _ _ _ _ _ _ _ _ _ _ _ _ _ Er). reflexivity.
    + apply Z.eqb_neq in Er.
      change (map (fun b => 2 * b) (zarr_select (nth_arr 0 (masks_x_squared_masks [rY; rX] 2) 0) (masks_binary_mask [rY; rX] 2)))
        with (map (fun b => 2 * b) (map (x_squared_mask [rY; rX] 0) (mask_points [rY; rX]))).
      change (map (fun b => 2 * b) (zarr_select (nth_arr 0 (masks_x_squared_masks [rY; rX] 2) 1) (masks_binary_mask [rY; rX] 2)))
        with (map (fun b => 2 * b) (map (x_squared_mask [rY; rX] 1) (mask_points [rY; rX]))).
      rewrite !map_map.
      change (map (fun x => 2 * x_squared_mask [rY; rX] 0 x) (mask_points [rY; rX])) with (x2m [rY; rX] 0).
      change (map (fun x => 2 * x_squared_mask [rY; rX] 1 x) (mask_points [rY; rX])) with (x2m [rY; rX] 1).
      rewrite (gen_2D_c_a_is_model _ _ _ _ _ _ _ _ _ _ _ _ _ Er). reflexivity.
  - rewrite (gen_2D_is_model _ (img2 (as_nested2 raw))). reflexivity.
Qed.

Theorem gen_refine_com_arr_numba_3D : forall NUMBA_AVAILABLE raw_image image rZ rY rX coords max_iterations engine thresh characterize,
  a_ndim raw_image = m_ncols coords -> a_ndim image = 3 ->
  (engine = "numba"%string \/ (engine = "auto"%string /\ NUMBA_AVAILABLE = true)) ->
  let radius := [rZ; rY; rX] in
  let rows := m_rows (mat_round_int coords) in
  let run := refine_numba (img3 (as_nested3 image)) (img3 (as_nested3 raw_image)) radius
                          [zget (a_shape image) 0; zget (a_shape image) 1; zget (a_shape image) 2] thresh max_iterations characterize in
  let start := fun feat => [get2 rows feat 0; get2 rows feat 1; get2 rows feat 2] in
  py_refine_com_arr NUMBA_AVAILABLE raw_image image (RTuple radius) coords max_iterations engine thresh characterize false =
  numba_rows run start (cells_3D characterize (isotropic radius)) (m_nrows coords)
             (if characterize then if isotropic radius then 8 else 10 else 4).
Proof.
  intros NA raw image rZ rY rX coords maxit engine thresh ch Hc Hi He radius rows run start. subst radius.
  unfold py_refine_com_arr. cbv zeta. rewrite Hc, Z.eqb_refl. cbn [negb].
  unfold validate_tuple. rewrite Hi. cbn [length Z.of_nat Pos.of_succ_nat Pos.succ Z.eqb Pos.eqb rbind orb].
  rewrite maxit_fix.
  assert (E : (if String.eqb engine "auto"%string then if NA && true then "numba"%string else "python"%string else engine) = "numba"%string)
    by (destruct He as [-> | [-> ->]]; reflexivity).
  rewrite E.
  change (String.eqb "numba"%string "python"%string) with false. change (String.eqb "numba"%string "numba"%string) with true.
  cbv iota. cbn [negb]. cbv iota.
  rewrite !nonzero_row3 by lia. rewrite !col_length.
  change (zget [rZ; rY; rX] 0) with rZ. change (zget [rZ; rY; rX] 1) with rY. change (zget [rZ; rY; rX] 2) with rX.
  rewrite !rbind_ret, !round_nrows, isotropic_gen. unfold numba_rows. subst run start rows.
  change (zarr_select (masks_r_squared_mask [rZ; rY; rX] 3) (masks_binary_mask [rZ; rY; rX] 3)) with (r2m [rZ; rY; rX]).
  change (map (fun b => 3 * b) (zarr_select (nth_arr 0 (masks_x_squared_masks [rZ; rY; rX] 3) 0) (masks_binary_mask [rZ; rY; rX] 3)))
    with (map (fun b => 3 * b) (map (x_squared_mask [rZ; rY; rX] 0) (mask_points [rZ; rY; rX]))).
  change (map (fun b => 3 * b) (zarr_select (nth_arr 0 (masks_x_squared_masks [rZ; rY; rX] 3) 1) (masks_binary_mask [rZ; rY; rX] 3)))
    with (map (fun b => 3 * b) (map (x_squared_mask [rZ; rY; rX] 1) (mask_points [rZ; rY; rX]))).
  change (map (fun b => 3 * b) (zarr_select (nth_arr 0 (masks_x_squared_masks [rZ; rY; rX] 3) 2) (masks_binary_mask [rZ; rY; rX] 3)))
    with (map (fun b => 3 * b) (map (x_squared_mask [rZ; rY; rX] 2) (mask_points [rZ; rY; rX]))).
  rewrite !map_map.
  change (map (fun x => 3 * x_squared_mask [rZ; rY; rX] 0 x) (mask_points [rZ; rY; rX])) with (x2m [rZ; rY; rX] 0).
  change (map (fun x => 3 * x_squared_mask [rZ; rY; rX] 1 x) (mask_points [rZ; rY; rX])) with (x2m [rZ; rY; rX] 1).
  change (map (fun x => 3 * x_squared_mask [rZ; rY; rX] 2 x) (mask_points [rZ; rY; rX])) with (x2m [rZ; rY; rX] 2).
  rewrite gen_3D_is_model. reflexivity.
Qed.

(* the refusals of refine_com_arr *)
Theorem gen_refine_com_arr_refuses : forall NUMBA_AVAILABLE raw_image image radius coords max_iterations engine thresh characterize walkthrough,
  (a_ndim raw_image <> m_ncols coords ->
   py_refine_com_arr NUMBA_AVAILABLE raw_image image radius coords max_iterations engine thresh characterize walkthrough =
   Raise (ValueError "The image has a different number of dimensions than the coordinate array.")) /\
  (a_ndim raw_image = m_ncols coords -> forall l, radius = RTuple l -> Z.of_nat (length l) <> a_ndim image ->
   py_refine_com_arr NUMBA_AVAILABLE raw_image image radius coords max_iterations engine thresh characterize walkthrough =
   Raise (ValueError "List length should have same length as image dimensions.")) /\
  (a_ndim raw_image = m_ncols coords -> forall l, radius = RTuple l -> Z.of_nat (length l) = a_ndim image ->
   engine <> "auto"%string -> engine <> "python"%string -> engine <> "numba"%string ->
   py_refine_com_arr NUMBA_AVAILABLE raw_image image radius coords max_iterations engine thresh characterize walkthrough =
   Raise (ValueError "Available engines are 'python' and 'numba'")).
Proof.
  intros NA raw image radius coords maxit engine thresh ch wt. repeat split.
  - intros H. unfold py_refine_com_arr. cbv zeta. apply Z.eqb_neq in H. rewrite H. reflexivity.
  - intros H l -> Hl. unfold py_refine_com_arr. cbv zeta. rewrite H, Z.eqb_refl. cbn [negb].
    unfold validate_tuple. apply Z.eqb_neq in Hl. rewrite Hl. reflexivity.
  - intros H l -> Hl Ha Hp Hn. unfold py_refine_com_arr. cbv zeta. rewrite H, Z.eqb_refl. cbn [negb].
    unfold validate_tuple. rewrite Hl, Z.eqb_refl. cbn [rbind].
    apply String.eqb_neq in Ha, Hp, Hn. rewrite Ha, Hp, Hn. reflexivity.
Qed.

(* the defaults of the keyword parameters (0.6 is the float64 nearest to 3/5) *)
Lemma gen_defaults :
  py_refine_com_arr_default_max_iterations = 10 /\ py_refine_com_arr_default_engine = "auto"%string /\
  py_refine_com_arr_default_shift_thresh = (5404319552844595 # 9007199254740992)%Q /\
  py_refine_com_arr_default_characterize = true /\ py_refine_com_arr_default_walkthrough = false /\
  py_refine_com_default_max_iterations = 10 /\ py_refine_com_default_engine = "auto"%string /\
  py_refine_com_default_shift_thresh = py_refine_com_arr_default_shift_thresh /\
  py_refine_com_default_characterize = true /\ py_refine_com_default_pos_columns = None.
Proof. repeat split; reflexivity. Qed.

(* ---------- refine_com: the DataFrame wrapper ---------- *)
Definition frame_of (cols : list string) (index : option (list Z)) (nrows : Z) (refined : result (list (list cell))) : result out_frame :=
  if nrows =? 0 then Ret (mkFrame cols None [])
  else rbind refined (fun rows => Ret (mkFrame cols index rows)).

Theorem gen_refine_com_dataframe : forall NUMBA_AVAILABLE raw_image image radius r f m max_iterations engine thresh characterize pos_columns,
  validate_tuple radius (a_ndim image) = Ret r ->
  let pos := match pos_columns with None => guess_pos_columns f | Some p => p end in
  df_getitem_values f pos = Ret m ->
  py_refine_com NUMBA_AVAILABLE raw_image image radius (CDataFrame f) max_iterations engine thresh characterize pos_columns =
  frame_of (com_columns pos (a_ndim image) characterize (isotropic r)) (Some (df_index f)) (m_nrows m)
           (py_refine_com_arr NUMBA_AVAILABLE raw_image image (RTuple r) m max_iterations engine thresh characterize false).
Proof.
  intros NA raw image radius r f m maxit engine thresh ch pc Hv pos Hm.
  unfold py_refine_com. cbn [is_dataframe as_df]. fold pos. rewrite Hm. cbn [rbind]. rewrite Hv. cbn [rbind].
  unfold frame_of, com_columns, default_size_columns, py_refine_com_arr_default_walkthrough.
  destruct ch; cbv beta iota zeta.
  - rewrite isotropic_gen. rewrite <- app_assoc. reflexivity.
  - rewrite app_nil_r. reflexivity.
Qed.

Theorem gen_refine_com_array : forall NUMBA_AVAILABLE raw_image image radius r m max_iterations engine thresh characterize pos_columns,
  validate_tuple radius (a_ndim image) = Ret r ->
  let pos := match pos_columns with None => default_pos_columns (a_ndim image) | Some p => p end in
  py_refine_com NUMBA_AVAILABLE raw_image image radius (CArray m) max_iterations engine thresh characterize pos_columns =
  frame_of (com_columns pos (a_ndim image) characterize (isotropic r)) None (m_nrows m)
           (py_refine_com_arr NUMBA_AVAILABLE raw_image image (RTuple r) m max_iterations engine thresh characterize false).
Proof.
  intros NA raw image radius r m maxit engine thresh ch pc Hv pos.
  unfold py_refine_com. cbn [is_dataframe as_array]. rewrite Hv. cbn [rbind]. fold pos.
  unfold frame_of, com_columns, default_size_columns, py_refine_com_arr_default_walkthrough.
  destruct ch; cbv beta iota zeta.
  - rewrite isotropic_gen. rewrite <- app_assoc. reflexivity.
  - rewrite app_nil_r. reflexivity.
Qed.

(* a radius that does not fit the image, or a missing position column, ends refine_com before anything is computed *)
Theorem gen_refine_com_refuses : forall NUMBA_AVAILABLE raw_image image radius f m e max_iterations engine thresh characterize pos_columns,
  (validate_tuple radius (a_ndim image) = Raise e ->
   py_refine_com NUMBA_AVAILABLE raw_image image radius (CArray m) max_iterations engine thresh characterize pos_columns = Raise e) /\
  (df_getitem_values f (match pos_columns with None => guess_pos_columns f | Some p => p end) = Raise e ->
   py_refine_com NUMBA_AVAILABLE raw_image image radius (CDataFrame f) max_iterations engine thresh characterize pos_columns = Raise e).
Proof.
  intros. split; intros H; unfold py_refine_com; cbn [is_dataframe as_df as_array]; rewrite H; reflexivity.
Qed.

(* ---------- the headline clause of C07 for the generated python engine ---------- *)
Theorem generated_python_self_consistent : forall NUMBA_AVAILABLE raw_image image radius coords max_iterations engine thresh characterize walkthrough k start,
  mat_wf coords -> a_ndim raw_image = m_ncols coords -> a_ndim image = a_ndim raw_image ->
  Z.of_nat (length radius) = a_ndim image ->
  (engine = "python"%string \/
   (engine = "auto"%string /\ NUMBA_AVAILABLE && ((a_ndim image =? 2) || (a_ndim image =? 3)) = false)) ->
  (2 <= length radius)%nat -> Forall (fun r => 1 <= r) radius ->
  nth_error (m_rows (mat_round_int coords)) k = Some start ->
  window_inside radius (a_shape image) start ->
  ref_nonzero (a_at image) radius (a_shape image) thresh (binary_mask radius) (pred (iters_of max_iterations)) start = true ->
  exists rows out,
    py_refine_com_arr NUMBA_AVAILABLE raw_image image (RTuple radius) coords max_iterations engine thresh characterize walkthrough = Ret rows /\
    nth_error rows k = Some (ref_row out) /\
    out = refine_python (a_at image) (a_at raw_image) radius (a_shape image) thresh max_iterations characterize start /\
    row_is_consistent (a_at image) (a_at raw_image) radius (a_shape image) characterize out.
Proof.
  intros NA raw image radius coords maxit engine thresh ch wt k start W Hc Hi Hr He L2 F Hk Hw Hn.
  rewrite gen_refine_com_arr_python by assumption.
  eexists. eexists. split; [reflexivity|]. split; [|split; [reflexivity|]].
  - unfold refine_rows.
    exact (map_nth_error (fun s => ref_row (refine_python (a_at image) (a_at raw) radius (a_shape image) thresh maxit ch s)) k _ Hk).
  - apply python_self_consistent; try assumption.
    + assert (Fl := rounded_rows_length coords (length radius) W ltac:(rewrite <- Hc, <- Hi, Hr; reflexivity)).
      rewrite Forall_forall in Fl. apply Fl. eapply nth_error_In; eassumption.
    + unfold a_ndim in Hr. lia.
Qed.
