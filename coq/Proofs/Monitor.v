(* Soundness of the executable monitor: when [check_step] answers 0 for a labelling
   (e.g. the one the implementation produced), that labelling's links are a
   Crocker-Grier optimum of the step. *)
From Coq Require Import ZArith NArith List Bool Lia Permutation.
From TP Require Import Model.Assign Model.Link Model.LinkCheck
     Proofs.BnB Proofs.Opt Proofs.Cands Proofs.Comps Proofs.Step Proofs.Labels.
Import ListNotations.
Open Scope Z_scope.

Definition choice (m : metric) (pred : nat -> src -> pt) (st : lstate) (ds : list pt) (labs : list nat) (s : src) : cand :=
  match find_lab labs (s_lab s) 0 with
  | Some j => (Some j, d2w (mw m) (pred (now st) s) (nth j ds []))
  | None => (None, mR2 m)
  end.

Lemma links_of_labels_eq m pred st ds labs :
  links_of_labels m pred st ds labs = mapi_from (fun i s => (i, choice m pred st ds labs s)) 0 (live st).
Proof.
  unfold links_of_labels.
  assert (H : forall l k, mapi_from (fun i s =>
     match find_lab labs (s_lab s) 0 with
     | Some j => (i, (Some j, d2w (mw m) (pred (now st) s) (nth j ds [])))
     | None => (i, (None, mR2 m))
     end) k l = mapi_from (fun i s => (i, choice m pred st ds labs s)) k l).
  { induction l as [|s l IH]; intros k; cbn; [reflexivity|].
    rewrite IH. f_equal. unfold choice. destruct (find_lab labs (s_lab s) 0); reflexivity. }
  apply H.
Qed.

Lemma find_lab_spec labs L : forall j0 j, find_lab labs L j0 = Some j ->
  (j0 <= j)%nat /\ nth_error labs (j - j0) = Some L.
Proof.
  induction labs as [|x labs IH]; intros j0 j H; cbn in H; [discriminate|].
  destruct (Nat.eqb x L) eqn:E.
  - inversion H; subst j. apply Nat.eqb_eq in E. subst x. rewrite Nat.sub_diag. split; [lia|reflexivity].
  - destruct (IH _ _ H) as [Hle Hn]. split; [lia|]. replace (j - j0)%nat with (S (j - S j0))%nat by lia. exact Hn.
Qed.

Definition mk_pairs (m : metric) (pred : nat -> src -> pt) (st : lstate) (ds : list pt) (labs : list nat)
           (k : nat) (l : list src) : list pair_t :=
  mapi_from (fun i s => ((i, cands_of m (mR2 m) (pred (now st) s) ds), choice m pred st ds labs s)) k l.

Lemma mk_pairs_fst m pred st ds labs l : forall k,
  map fst (mk_pairs m pred st ds labs k l) = mapi_from (fun i s => (i, cands_of m (mR2 m) (pred (now st) s) ds)) k l.
Proof. induction l as [|s l IH]; intros k; cbn; [reflexivity|]. f_equal. apply IH. Qed.
Lemma mk_pairs_strip m pred st ds labs l : forall k,
  map strip (mk_pairs m pred st ds labs k l) = mapi_from (fun i s => (i, choice m pred st ds labs s)) k l.
Proof. induction l as [|s l IH]; intros k; cbn; [reflexivity|]. f_equal. apply IH. Qed.
Lemma mk_pairs_snd m pred st ds labs l : forall k,
  map snd (mk_pairs m pred st ds labs k l) = map (choice m pred st ds labs) l.
Proof. induction l as [|s l IH]; intros k; cbn; [reflexivity|]. f_equal. apply IH. Qed.

Lemma total_links l : forall k (f : src -> cand),
  links_total (mapi_from (fun i s => (i, f s)) k l) = total (map f l).
Proof. unfold links_total. induction l as [|s l IH]; intros k f; cbn; [reflexivity|]. rewrite IH. reflexivity. Qed.

Lemma choices_nodup m pred st ds labs l :
  NoDup (map s_lab l) ->
  NoDup (reals (map (choice m pred st ds labs) l)) /\
  forall j, In j (reals (map (choice m pred st ds labs) l)) -> exists s, In s l /\ nth_error labs j = Some (s_lab s).
Proof.
  induction l as [|x l IH]; intros Hn; cbn.
  - split; [constructor|intros j []].
  - cbn in Hn. inversion Hn as [|? ? Hx Hn']; subst. destruct (IH Hn') as [IH1 IH2].
    unfold choice at 1 3. destruct (find_lab labs (s_lab x) 0) as [j|] eqn:E; cbn.
    + destruct (find_lab_spec _ _ _ _ E) as [_ Hj]. rewrite Nat.sub_0_r in Hj. split.
      * constructor; [|exact IH1]. intros Hin. destruct (IH2 j Hin) as [s [Hs Hjs]].
        apply Hx. replace (s_lab x) with (s_lab s) by congruence. apply in_map. exact Hs.
      * intros j' [Hj'|Hj']; [subst j'; exists x; auto|]. destruct (IH2 j' Hj') as [s [Hs Hjs]]. exists s; auto.
    + split; [exact IH1|]. intros j' Hj'. destruct (IH2 j' Hj') as [s [Hs Hjs]]. exists s; auto.
Qed.

Lemma links_in_range_spec m l : links_in_range m l = true ->
  forall i j c, In (i, (Some j, c)) l -> c <= mR2 m.
Proof.
  unfold links_in_range. intros H i j c Hin. rewrite forallb_forall in H. specialize (H _ Hin). cbn in H. apply Z.leb_le. exact H.
Qed.

Theorem check_step_sound m mem max_size pred st ds labs st' :
  metric_ok m -> NoDup (map s_lab (live st)) ->
  check_step m mem max_size pred st ds labs = (0%N, st') ->
  exists pairs, map strip pairs = links_of_labels m pred st ds labs /\
                is_opt (items_of m pred st ds) pairs.
Proof.
  intros Hm Hnd H. unfold check_step in H.
  destruct (Nat.eqb (length labs) (length ds)) eqn:EL; cbn in H; [|inversion H].
  apply Nat.eqb_eq in EL.
  destruct (nodup_b labs) eqn:ENd; cbn in H; [|inversion H].
  destruct (born_fresh st labs) eqn:EB; cbn in H; [|inversion H].
  destruct (links_in_range m (links_of_labels m pred st ds labs)) eqn:ER; cbn in H; [|inversion H].
  destruct (step_links m max_size pred st ds) as [opt|] eqn:ES; [|inversion H].
  destruct (links_total opt <? links_total (links_of_labels m pred st ds labs)) eqn:E1; [inversion H|].
  destruct (links_total (links_of_labels m pred st ds labs) <? links_total opt) eqn:E2; [inversion H|].
  apply Z.ltb_ge in E1, E2.
  destruct (step_links_spec m max_size pred st ds Hm) as [_ Hspec].
  destruct (Hspec opt ES) as [pairs0 [Hp0 [HP0 [Hok0 Hmin0]]]].
  set (pairs := mk_pairs m pred st ds labs 0 (live st)).
  exists pairs. split; [unfold pairs; rewrite mk_pairs_strip, links_of_labels_eq; reflexivity|].
  assert (Hfst : map fst pairs = items_of m pred st ds) by (unfold pairs, items_of; apply mk_pairs_fst).
  split; [rewrite Hfst; apply Permutation_refl|split].
  - split.
    + (* every choice is one of the source's candidates *)
      rewrite Forall_forall. intros p Hp. unfold pairs, mk_pairs in Hp. apply mapi_from_in in Hp.
      destruct Hp as [i [s [Hns Hp]]]. subst p. cbn. unfold choice.
      destruct (find_lab labs (s_lab s) 0) as [j|] eqn:E; [|apply cands_of_null].
      destruct (find_lab_spec _ _ _ _ E) as [_ Hj]. rewrite Nat.sub_0_r in Hj.
      assert (Hjlt : (j < length ds)%nat) by (rewrite <- EL; apply nth_error_Some; congruence).
      apply cands_of_spec. right. exists j, (nth j ds []). split; [reflexivity|split; [apply nth_error_nth'; exact Hjlt|split; [reflexivity|]]].
      eapply (links_in_range_spec _ _ ER i j). rewrite links_of_labels_eq.
      pose proof (mapi_from_nth (fun i s => (i, choice m pred st ds labs s)) (live st) 0 i s Hns) as Hn.
      apply nth_error_In in Hn. cbn in Hn. unfold choice in Hn at 1. rewrite E in Hn. exact Hn.
    + unfold pairs. rewrite mk_pairs_snd. apply choices_nodup. exact Hnd.
  - intros l' Hl' Hok'. specialize (Hmin0 l' Hl' Hok').
    assert (ptotal pairs = links_total (links_of_labels m pred st ds labs)).
    { unfold ptotal, pairs. rewrite mk_pairs_snd, links_of_labels_eq, total_links. reflexivity. }
    assert (ptotal pairs0 = links_total opt).
    { unfold ptotal, links_total. rewrite Hp0. f_equal. clear. induction pairs0 as [|p l IH]; cbn; [reflexivity|]. f_equal. exact IH. }
    lia.
Qed.
