(* C01: the label bookkeeping of a linking step keeps labels unique per frame,
   hands out fresh ids, links only live sources to destinations within range,
   and never keeps a source longer than memory+1 steps. *)
From Coq Require Import ZArith List Bool Lia Permutation.
From TP Require Import Model.Assign Model.Link Proofs.BnB Proofs.Opt Proofs.Cands Proofs.Comps Proofs.Step.
Import ListNotations.
Open Scope Z_scope.

Definition state_ok (mem : nat) (st : lstate) : Prop :=
  NoDup (map s_lab (live st)) /\
  Forall (fun s => (s_lab s < next_id st)%nat /\ (s_seen s < now st)%nat /\
                   (now st - s_seen s <= mem + 1)%nat) (live st).

(* ---- facts about a link list ---- *)
Record links_wf (st : lstate) (links : list link_t) : Prop := {
  lw_nodup : NoDup (map fst links);
  lw_dom : forall i c, In (i, c) links -> (i < length (live st))%nat;
}.

Lemma NoDup_map_inj {A B} (f : A -> B) l x y :
  NoDup (map f l) -> In x l -> In y l -> f x = f y -> x = y.
Proof.
  induction l as [|a l IH]; intros Hn Hx Hy Hf; [destruct Hx|].
  cbn in Hn. inversion Hn as [|? ? Hna Hn']; subst.
  destruct Hx as [Hx|Hx], Hy as [Hy|Hy]; subst.
  - reflexivity.
  - exfalso. apply Hna. rewrite Hf. apply in_map. exact Hy.
  - exfalso. apply Hna. rewrite <- Hf. apply in_map. exact Hx.
  - apply IH; assumption.
Qed.

Lemma source_of_in links j i :
  source_of links j = Some i -> exists c, In (i, (Some j, c)) links.
Proof.
  induction links as [|[i' [[k|] c]] links IH]; cbn; intros H; [discriminate| |].
  - destruct (Nat.eqb k j) eqn:E.
    + apply Nat.eqb_eq in E. subst k. inversion H; subst i'. exists c. left; reflexivity.
    + destruct (IH H) as [c' Hc']. exists c'. right; exact Hc'.
  - destruct (IH H) as [c' Hc']. exists c'. right; exact Hc'.
Qed.

Lemma source_of_none links j i c :
  source_of links j = None -> ~ In (i, (Some j, c)) links.
Proof.
  induction links as [|[i' [[k|] c']] links IH]; cbn; intros H Hin; [exact Hin| |].
  - destruct (Nat.eqb k j) eqn:E; [discriminate|]. apply Nat.eqb_neq in E.
    destruct Hin as [Hin|Hin]; [inversion Hin; subst; congruence|exact (IH H Hin)].
  - destruct Hin as [Hin|Hin]; [inversion Hin|exact (IH H Hin)].
Qed.

Lemma unlinked_in links i :
  unlinked_b links i = true -> exists c, In (i, (None, c)) links.
Proof.
  unfold unlinked_b. intros H. apply existsb_exists in H. destruct H as [[i' [[k|] c]] [Hin Hb]]; cbn in Hb.
  - rewrite andb_false_r in Hb. discriminate.
  - rewrite andb_true_r in Hb. apply Nat.eqb_eq in Hb. subst i'. exists c. exact Hin.
Qed.

(* ---- assign_labels ---- *)
Lemma assign_labels_spec st links nd : forall j fresh ls f,
  assign_labels st links nd j fresh = (ls, f) ->
  length ls = nd /\ (fresh <= f)%nat /\
  forall k y, nth_error ls k = Some y ->
    ((fresh <= y < f)%nat /\ source_of links (j + k) = None) \/
    (exists i, source_of links (j + k) = Some i /\ y = lab_of st i).
Proof.
  induction nd as [|nd IH]; intros j fresh ls f H; cbn in H.
  - inversion H; subst. repeat split; [lia|]. intros k y Hk. destruct k; discriminate.
  - destruct (source_of links j) as [i|] eqn:Es.
    + destruct (assign_labels st links nd (S j) fresh) as [ls' f'] eqn:Er. inversion H; subst ls f.
      destruct (IH _ _ _ _ Er) as [HL [Hf Hn]]. repeat split; [cbn; lia|exact Hf|].
      intros k y Hk. destruct k as [|k]; cbn in Hk.
      * inversion Hk; subst y. right. exists i. rewrite Nat.add_0_r. auto.
      * replace (j + S k)%nat with (S j + k)%nat by lia. apply Hn. exact Hk.
    + destruct (assign_labels st links nd (S j) (S fresh)) as [ls' f'] eqn:Er. inversion H; subst ls f.
      destruct (IH _ _ _ _ Er) as [HL [Hf Hn]]. repeat split; [cbn; lia|lia|].
      intros k y Hk. destruct k as [|k]; cbn in Hk.
      * inversion Hk; subst y. left. rewrite Nat.add_0_r. split; [lia|exact Es].
      * replace (j + S k)%nat with (S j + k)%nat by lia.
        destruct (Hn k y Hk) as [[Hr Hs]|Hex]; [left; split; [lia|exact Hs]|right; exact Hex].
Qed.

Lemma assign_labels_fresh_distinct st links nd : forall j fresh ls f,
  assign_labels st links nd j fresh = (ls, f) ->
  forall k1 k2 y, k1 <> k2 -> nth_error ls k1 = Some y -> nth_error ls k2 = Some y ->
    source_of links (j + k1) = None -> source_of links (j + k2) = None -> False.
Proof.
  induction nd as [|nd IH]; intros j fresh ls f H k1 k2 y Hne H1 H2 S1 S2; cbn in H.
  - inversion H; subst. destruct k1; discriminate.
  - destruct (source_of links j) as [i|] eqn:Es.
    + destruct (assign_labels st links nd (S j) fresh) as [ls' f'] eqn:Er. inversion H; subst ls f.
      destruct k1 as [|k1]; [rewrite Nat.add_0_r in S1; congruence|].
      destruct k2 as [|k2]; [rewrite Nat.add_0_r in S2; congruence|].
      cbn in H1, H2. apply (IH _ _ _ _ Er k1 k2 y); try assumption; try lia.
      * replace (S j + k1)%nat with (j + S k1)%nat by lia. exact S1.
      * replace (S j + k2)%nat with (j + S k2)%nat by lia. exact S2.
    + destruct (assign_labels st links nd (S j) (S fresh)) as [ls' f'] eqn:Er. inversion H; subst ls f.
      destruct (assign_labels_spec _ _ _ _ _ _ _ Er) as [_ [_ Hn]].
      destruct k1 as [|k1], k2 as [|k2]; cbn in H1, H2; try lia.
      * inversion H1; subst y. destruct (Hn k2 fresh H2) as [[Hr _]|[i [Hs _]]]; [lia|].
        replace (S j + k2)%nat with (j + S k2)%nat in Hs by lia. congruence.
      * inversion H2; subst y. destruct (Hn k1 fresh H1) as [[Hr _]|[i [Hs _]]]; [lia|].
        replace (S j + k1)%nat with (j + S k1)%nat in Hs by lia. congruence.
      * apply (IH _ _ _ _ Er k1 k2 y); try assumption; try lia.
        -- replace (S j + k1)%nat with (j + S k1)%nat by lia. exact S1.
        -- replace (S j + k2)%nat with (j + S k2)%nat by lia. exact S2.
Qed.

Lemma lab_of_nth st i s : nth_error (live st) i = Some s -> lab_of st i = s_lab s.
Proof. unfold lab_of. intros H; rewrite H; reflexivity. Qed.

Lemma NoDup_map_nth {A B} (f : A -> B) l i1 i2 x1 x2 :
  NoDup (map f l) -> nth_error l i1 = Some x1 -> nth_error l i2 = Some x2 -> f x1 = f x2 -> i1 = i2.
Proof.
  intros Hn H1 H2 Hf. rewrite NoDup_nth_error in Hn. apply Hn.
  - rewrite map_length. apply nth_error_Some. congruence.
  - rewrite !nth_error_map, H1, H2. cbn. congruence.
Qed.

Lemma NoDup_nth_intro {A} (l : list A) :
  (forall k1 k2 y, k1 <> k2 -> nth_error l k1 = Some y -> nth_error l k2 = Some y -> False) -> NoDup l.
Proof.
  intros H. apply NoDup_nth_error. intros i j Hi Hij.
  destruct (Nat.eq_dec i j) as [E|E]; [exact E|exfalso].
  destruct (nth_error l i) as [y|] eqn:Ei; [|apply nth_error_Some in Hi; congruence].
  exact (H i j y E Ei (eq_sym Hij)).
Qed.

(* labels of the new frame are pairwise distinct *)
Lemma assign_labels_nodup mem st links nd ls f :
  state_ok mem st -> links_wf st links ->
  assign_labels st links nd 0 (next_id st) = (ls, f) -> NoDup ls.
Proof.
  intros [Hnd Hall] Hwf H. destruct (assign_labels_spec _ _ _ _ _ _ _ H) as [_ [_ Hn]].
  apply NoDup_nth_intro. intros k1 k2 y Hne H1 H2.
  destruct (Hn k1 y H1) as [[Hr1 Hs1]|[i1 [Hs1 Hy1]]], (Hn k2 y H2) as [[Hr2 Hs2]|[i2 [Hs2 Hy2]]]; cbn in *.
  - exact (assign_labels_fresh_distinct _ _ _ _ _ _ _ H k1 k2 y Hne H1 H2 Hs1 Hs2).
  - destruct (source_of_in _ _ _ Hs2) as [c2 Hc2]. pose proof (lw_dom _ _ Hwf _ _ Hc2) as Hlt.
    apply nth_error_Some in Hlt. destruct (nth_error (live st) i2) as [s2|] eqn:E2; [|congruence].
    rewrite (lab_of_nth _ _ _ E2) in Hy2. rewrite Forall_forall in Hall.
    destruct (Hall s2 (nth_error_In _ _ E2)) as [Hlab _]. lia.
  - destruct (source_of_in _ _ _ Hs1) as [c1 Hc1]. pose proof (lw_dom _ _ Hwf _ _ Hc1) as Hlt.
    apply nth_error_Some in Hlt. destruct (nth_error (live st) i1) as [s1|] eqn:E1; [|congruence].
    rewrite (lab_of_nth _ _ _ E1) in Hy1. rewrite Forall_forall in Hall.
    destruct (Hall s1 (nth_error_In _ _ E1)) as [Hlab _]. lia.
  - destruct (source_of_in _ _ _ Hs1) as [c1 Hc1], (source_of_in _ _ _ Hs2) as [c2 Hc2].
    pose proof (lw_dom _ _ Hwf _ _ Hc1) as Hlt1. pose proof (lw_dom _ _ Hwf _ _ Hc2) as Hlt2.
    apply nth_error_Some in Hlt1, Hlt2.
    destruct (nth_error (live st) i1) as [s1|] eqn:E1; [|congruence].
    destruct (nth_error (live st) i2) as [s2|] eqn:E2; [|congruence].
    rewrite (lab_of_nth _ _ _ E1) in Hy1. rewrite (lab_of_nth _ _ _ E2) in Hy2.
    assert (i1 = i2) by (eapply (NoDup_map_nth s_lab); [exact Hnd|exact E1|exact E2|congruence]). subst i2.
    assert (Heq : (i1, (Some k1, c1)) = (i1, (Some k2, c2))).
    { eapply (NoDup_map_inj fst); [exact (lw_nodup _ _ Hwf)|exact Hc1|exact Hc2|reflexivity]. }
    inversion Heq. lia.
Qed.

(* ---- links produced by the model step are well-formed ---- *)
Lemma mapi_from_fst {A B} (g : nat -> A -> B) l : forall k,
  map fst (mapi_from (fun i s => (i, g i s)) k l) = seq k (length l).
Proof. induction l as [|x l IH]; intros k; cbn; [reflexivity|]. f_equal. apply IH. Qed.

Lemma mapi_from_nth {A B} (f : nat -> A -> B) l : forall k i x,
  nth_error l i = Some x -> nth_error (mapi_from f k l) i = Some (f (k + i)%nat x).
Proof.
  induction l as [|y l IH]; intros k i x H; [destruct i; discriminate|].
  destruct i as [|i]; cbn in *.
  - inversion H; subst. rewrite Nat.add_0_r. reflexivity.
  - rewrite (IH (S k) i x H). f_equal. f_equal. lia.
Qed.

Lemma mapi_from_in {A B} (f : nat -> A -> B) l : forall k y,
  In y (mapi_from f k l) -> exists i x, nth_error l i = Some x /\ y = f (k + i)%nat x.
Proof.
  induction l as [|x l IH]; intros k y H; cbn in H; [destruct H|].
  destruct H as [H|H].
  - exists 0%nat, x. rewrite Nat.add_0_r. auto.
  - destruct (IH _ _ H) as [i [x' [Hn Hy]]]. exists (S i), x'. split; [exact Hn|]. rewrite Hy. f_equal. lia.
Qed.

Lemma strip_fst (pairs : list pair_t) : map fst (map strip pairs) = map fst (map fst pairs).
Proof. induction pairs as [|p pairs IH]; cbn; [reflexivity|]. f_equal. exact IH. Qed.

Lemma opt_links_wf m pred st ds pairs :
  is_opt (items_of m pred st ds) pairs -> links_wf st (map strip pairs).
Proof.
  intros [HP _].
  assert (Hseq : Permutation (map fst (map strip pairs)) (seq 0 (length (live st)))).
  { rewrite strip_fst. unfold items_of in HP. rewrite <- (mapi_from_fst (fun i s => cands_of m (mR2 m) (pred (now st) s) ds) (live st) 0).
    apply Permutation_map. exact HP. }
  constructor.
  - eapply Permutation_NoDup; [apply Permutation_sym; exact Hseq|apply seq_NoDup].
  - intros i c Hin. assert (In i (seq 0 (length (live st)))).
    { eapply Permutation_in; [exact Hseq|]. change i with (fst (i, c)). apply in_map. exact Hin. }
    apply in_seq in H. lia.
Qed.

(* a real link of the optimum joins a live source to a destination within range *)
Lemma opt_link_in_range m pred st ds pairs i j c :
  is_opt (items_of m pred st ds) pairs -> In (i, (Some j, c)) (map strip pairs) ->
  exists s q, nth_error (live st) i = Some s /\ nth_error ds j = Some q /\
              c = d2w (mw m) (pred (now st) s) q /\ c <= mR2 m.
Proof.
  intros [HP [[HF _] _]] Hin. apply in_map_iff in Hin. destruct Hin as [[[i' cs] dc] [Hs Hp]].
  unfold strip in Hs. cbn in Hs. inversion Hs; subst i' dc.
  rewrite Forall_forall in HF. pose proof (HF _ Hp) as Hc. cbn in Hc.
  assert (Hit : In (i, cs) (items_of m pred st ds)).
  { eapply Permutation_in; [exact HP|]. change (i, cs) with (fst ((i, cs), (Some j, c))). apply in_map. exact Hp. }
  unfold items_of in Hit. apply mapi_from_in in Hit. destruct Hit as [i0 [s [Hn Heq]]]. cbn in Heq. inversion Heq; subst i cs.
  apply cands_of_spec in Hc. destruct Hc as [[Hd _]|[k [q [Hd [Hq [Hc Hr]]]]]]; [discriminate|].
  inversion Hd; subst k. exists s, q. auto.
Qed.

(* ---- remembered sources ---- *)
Lemma remembered_spec mem t links : forall l i s,
  In s (remembered mem t links i l) ->
  exists k, nth_error l k = Some s /\ unlinked_b links (i + k) = true /\ (t - s_seen s <= mem)%nat.
Proof.
  induction l as [|x l IH]; intros i s H; cbn in H; [destruct H|].
  destruct (unlinked_b links i && (t - s_seen x <=? mem)%nat) eqn:E.
  - destruct H as [H|H].
    + subst x. apply andb_true_iff in E. destruct E as [E1 E2]. apply Nat.leb_le in E2.
      exists 0%nat. rewrite Nat.add_0_r. auto.
    + destruct (IH _ _ H) as [k [Hk [Hu Ht]]]. exists (S k). rewrite <- Nat.add_succ_comm. auto.
  - destruct (IH _ _ H) as [k [Hk [Hu Ht]]]. exists (S k). rewrite <- Nat.add_succ_comm. auto.
Qed.

Lemma remembered_nodup mem t links : forall l i,
  NoDup (map s_lab l) -> NoDup (map s_lab (remembered mem t links i l)).
Proof.
  induction l as [|x l IH]; intros i Hn; cbn; [constructor|].
  cbn in Hn. inversion Hn as [|? ? Hx Hn']; subst.
  destruct (unlinked_b links i && (t - s_seen x <=? mem)%nat); [|apply IH; exact Hn'].
  cbn. constructor; [|apply IH; exact Hn'].
  intros Hin. apply Hx. apply in_map_iff in Hin. destruct Hin as [s [Hs Hin]].
  destruct (remembered_spec _ _ _ _ _ _ Hin) as [k [Hk _]]. rewrite <- Hs. apply in_map. eapply nth_error_In; exact Hk.
Qed.

Lemma mk_srcs_labs t labs ds : length labs = length ds -> map s_lab (mk_srcs t labs ds) = labs.
Proof. revert ds; induction labs as [|lb labs IH]; intros [|d ds] H; cbn in *; try discriminate; [reflexivity|]. f_equal. apply IH. lia. Qed.

Lemma mk_srcs_in t labs ds s : In s (mk_srcs t labs ds) -> In (s_lab s) labs /\ s_seen s = t.
Proof.
  revert ds; induction labs as [|lb labs IH]; intros [|d ds] H; cbn in H; try destruct H.
  - subst s. cbn. auto.
  - destruct (IH _ H) as [H1 H2]. cbn. auto.
Qed.

(* ---- the step theorem ---- *)
Theorem link_step_valid m mem max_size pred st ds st' labs :
  metric_ok m -> state_ok mem st ->
  link_step m mem max_size pred st ds = Ok (st', labs) ->
  state_ok mem st' /\ length labs = length ds /\ NoDup labs /\
  (next_id st <= next_id st')%nat /\ Forall (fun lb => (lb < next_id st')%nat) labs /\
  now st' = S (now st) /\
  (forall j lb, nth_error labs j = Some lb ->
     (next_id st <= lb)%nat \/
     exists s q, In s (live st) /\ s_lab s = lb /\ nth_error ds j = Some q /\
                 d2w (mw m) (pred (now st) s) q <= mR2 m).
Proof.
  intros Hm Hst H. unfold link_step in H.
  destruct (step_links m max_size pred st ds) as [links|] eqn:El; [|discriminate].
  destruct (step_links_spec m max_size pred st ds Hm) as [_ Hspec]. destruct (Hspec links El) as [pairs [Hlp Hopt]].
  assert (Hwf : links_wf st links) by (rewrite Hlp; eapply opt_links_wf; exact Hopt).
  unfold apply_links in H.
  destruct (assign_labels st links (length ds) 0 (next_id st)) as [ls f] eqn:Ea.
  inversion H; subst st' labs. clear H.
  destruct (assign_labels_spec _ _ _ _ _ _ _ Ea) as [HL [Hf Hn]].
  pose proof (assign_labels_nodup _ _ _ _ _ _ Hst Hwf Ea) as Hnd.
  destruct Hst as [Hlnd Hall]. rewrite Forall_forall in Hall.
  (* characterisation of every label *)
  assert (Hchar : forall j lb, nth_error ls j = Some lb ->
     ((next_id st <= lb < f)%nat) \/
     exists i s q c, nth_error (live st) i = Some s /\ s_lab s = lb /\ nth_error ds j = Some q /\
        In (i, (Some j, c)) links /\ d2w (mw m) (pred (now st) s) q <= mR2 m).
  { intros j lb Hj. destruct (Hn j lb Hj) as [[Hr _]|[i [Hs Hy]]]; [left; exact Hr|right].
    cbn in Hs. destruct (source_of_in _ _ _ Hs) as [c Hc].
    pose proof Hc as Hc'. rewrite Hlp in Hc'.
    destruct (opt_link_in_range _ _ _ _ _ _ _ _ Hopt Hc') as [s [q [Hns [Hnq [Hcq Hr]]]]].
    exists i, s, q, c. rewrite (lab_of_nth _ _ _ Hns) in Hy. subst c. auto. }
  assert (Hlt : forall lb, In lb ls -> (lb < f)%nat).
  { intros lb Hin. apply In_nth_error in Hin. destruct Hin as [j Hj].
    destruct (Hchar j lb Hj) as [Hr|[i [s [q [c [Hns [Hlab _]]]]]]]; [lia|].
    destruct (Hall s (nth_error_In _ _ Hns)) as [Hb _]. lia. }
  split; [|split; [exact HL|split; [exact Hnd|split; [exact Hf|split; [|split; [reflexivity|]]]]]].
  - (* state_ok of the new state *)
    unfold state_ok. cbn [live now next_id]. split.
    + rewrite map_app, mk_srcs_labs by exact HL.
      apply NoDup_app_intro; [exact Hnd|apply remembered_nodup; exact Hlnd|].
      intros lb Hin1 Hin2. apply in_map_iff in Hin2. destruct Hin2 as [s [Hs Hin2]].
      destruct (remembered_spec _ _ _ _ _ _ Hin2) as [k [Hk [Hu _]]]. cbn in Hu.
      destruct (unlinked_in _ _ Hu) as [c0 Hc0].
      apply In_nth_error in Hin1. destruct Hin1 as [j Hj].
      destruct (Hchar j lb Hj) as [Hr|[i [s' [q [c [Hns [Hlab [_ [Hlk _]]]]]]]]].
      * destruct (Hall s (nth_error_In _ _ Hk)) as [Hb _]. lia.
      * assert (i = k) by (eapply (NoDup_map_nth s_lab); [exact Hlnd|exact Hns|exact Hk|congruence]). subst i.
        assert (Heq : (k, (Some j, c)) = (k, (None, c0))).
        { eapply (NoDup_map_inj fst); [exact (lw_nodup _ _ Hwf)|exact Hlk|exact Hc0|reflexivity]. }
        inversion Heq.
    + apply Forall_app. split; rewrite Forall_forall; intros s Hs.
      * destruct (mk_srcs_in _ _ _ _ Hs) as [Hin Hseen]. specialize (Hlt _ Hin). rewrite Hseen. lia.
      * destruct (remembered_spec _ _ _ _ _ _ Hs) as [k [Hk [_ Ht]]].
        destruct (Hall s (nth_error_In _ _ Hk)) as [Hb [Hs1 Hs2]]. lia.
  - rewrite Forall_forall. exact Hlt.
  - intros j lb Hj. destruct (Hchar j lb Hj) as [Hr|[i [s [q [c [Hns [Hlab [Hq [_ Hr]]]]]]]]]; [left; lia|right].
    exists s, q. split; [eapply nth_error_In; exact Hns|auto].
Qed.

(* ---- whole runs: every reachable state is ok, every frame validly labelled ---- *)
Lemma init_state_ok mem ds : state_ok mem (fst (init_state ds)) /\ snd (init_state ds) = seq 0 (length ds).
Proof.
  unfold init_state. cbn. split; [|reflexivity]. unfold state_ok. cbn. split.
  - rewrite mk_srcs_labs by (rewrite seq_length; reflexivity). apply seq_NoDup.
  - rewrite Forall_forall. intros s Hs. destruct (mk_srcs_in _ _ _ _ Hs) as [Hin Hseen].
    apply in_seq in Hin. rewrite Hseen. lia.
Qed.

Definition frame_valid (ds : list pt) (labs : list nat) : Prop := length labs = length ds /\ NoDup labs.

Theorem run_from_valid m mem max_size pred : forall frames st out,
  metric_ok m -> state_ok mem st ->
  run_from m mem max_size pred st frames = Ok out -> Forall2 frame_valid frames out.
Proof.
  induction frames as [|ds rest IH]; intros st out Hm Hst H; cbn in H.
  - inversion H; subst. constructor.
  - destruct (link_step m mem max_size pred st ds) as [[st' labs]|] eqn:E; [|discriminate].
    destruct (run_from m mem max_size pred st' rest) as [ls|] eqn:Er; [|discriminate].
    inversion H; subst out.
    destruct (link_step_valid _ _ _ _ _ _ _ _ Hm Hst E) as [Hst' [HL [Hnd _]]].
    constructor; [split; assumption|]. eapply IH; eassumption.
Qed.

Theorem link_iter_valid m mem max_size pred frames out :
  metric_ok m -> link_iter m mem max_size pred frames = Ok out -> Forall2 frame_valid frames out.
Proof.
  intros Hm H. destruct frames as [|f0 rest]; cbn in H; [inversion H; constructor|].
  destruct (init_state_ok mem f0) as [Hok Hlabs].
  unfold init_state in *. cbn in *.
  destruct (run_from m mem max_size pred _ rest) as [ls|] eqn:Er; [|discriminate].
  inversion H; subst out. constructor.
  - split; [apply seq_length|apply seq_NoDup].
  - eapply run_from_valid; [exact Hm|exact Hok|exact Er].
Qed.
