(* Proofs about Model/RefineBounds.v: the box handed to SLSQP is the
   intersection of the requested and default intervals; packing bounds with
   min/max and unpacking the optimiser's vector keeps every written-back entry
   inside (the hull of) its interval(s). *)
From Coq Require Import QArith Qminmax List Bool Arith Lia.
From TP Require Import Model.RefineBounds.
Import ListNotations.
Open Scope Q_scope.

(* ---- a bound read as a constraint on a finite number ----------------------
   NaN = "no bound" (the code's convention: absent entries are NaN). *)
Definition sat_low (c : ext) (v : Q) : Prop :=
  match c with NaN | NInf => True | PInf => False | Fin q => q <= v end.
Definition sat_high (c : ext) (v : Q) : Prop :=
  match c with NaN | PInf => True | NInf => False | Fin q => v <= q end.

Lemma sat_lowb_iff : forall c v, sat_lowb c v = true <-> sat_low c v.
Proof. destruct c; simpl; intros; try tauto; try (split; [discriminate | tauto]). apply Qle_bool_iff. Qed.
Lemma sat_highb_iff : forall c v, sat_highb c v = true <-> sat_high c v.
Proof. destruct c; simpl; intros; try tauto; try (split; [discriminate | tauto]). apply Qle_bool_iff. Qed.

Lemma Qle_bool_false : forall x y, Qle_bool x y = false -> y < x.
Proof.
  intros x y H. apply Qnot_le_lt. intro L. apply Qle_bool_iff in L. congruence.
Qed.

Lemma emax_sat_low : forall a b v, sat_low (emax a b) v <-> sat_low a v /\ sat_low b v.
Proof.
  intros a b v. destruct a as [| | |x], b as [| | |y]; simpl; try tauto.
  destruct (Qle_bool x y) eqn:E; simpl.
  - apply Qle_bool_iff in E. split; [intro H; split; [eapply Qle_trans; eauto | auto] | tauto].
  - apply Qle_bool_false in E. split; [intro H; split; [auto | eapply Qle_trans; [apply Qlt_le_weak; eauto | auto]] | tauto].
Qed.

Lemma emin_sat_high : forall a b v, sat_high (emin a b) v <-> sat_high a v /\ sat_high b v.
Proof.
  intros a b v. destruct a as [| | |x], b as [| | |y]; simpl; try tauto.
  destruct (Qle_bool x y) eqn:E; simpl.
  - apply Qle_bool_iff in E. split; [intro H; split; [auto | eapply Qle_trans; eauto] | tauto].
  - apply Qle_bool_false in E. split; [intro H; split; [eapply Qle_trans; [eauto | apply Qlt_le_weak; auto] | auto] | tauto].
Qed.

Lemma nan_to_ninf_sat : forall x v, sat_low (nan_to_ninf x) v <-> sat_low x v.
Proof. destruct x; simpl; tauto. Qed.
Lemma nan_to_pinf_sat : forall x v, sat_high (nan_to_pinf x) v <-> sat_high x v.
Proof. destruct x; simpl; tauto. Qed.

(* the entry of bound_low is the conjunction of the three lower constraints *)
Theorem bound_low_spec : forall p a d r v,
  sat_low (bound_low p a d r) v <->
  sat_low (esub p d) v /\ sat_low (ediv p r) v /\ sat_low a v.
Proof.
  intros. unfold bound_low. rewrite nan_to_ninf_sat, emax_sat_low, emax_sat_low. tauto.
Qed.
Theorem bound_high_spec : forall p a d r v,
  sat_high (bound_high p a d r) v <->
  sat_high (eadd p d) v /\ sat_high (emul p r) v /\ sat_high a v.
Proof.
  intros. unfold bound_high. rewrite nan_to_pinf_sat, emin_sat_high, emin_sat_high. tauto.
Qed.

(* bound_low / bound_high are never NaN: an absent bound is infinite *)
Lemma emax_nan : forall a b, emax a b = NaN -> a = NaN /\ b = NaN.
Proof. destruct a as [| | |x], b as [| | |y]; simpl; try (split; congruence); try discriminate.
       destruct (Qle_bool x y); discriminate. Qed.
Lemma emin_nan : forall a b, emin a b = NaN -> a = NaN /\ b = NaN.
Proof. destruct a as [| | |x], b as [| | |y]; simpl; try (split; congruence); try discriminate.
       destruct (Qle_bool x y); discriminate. Qed.
Lemma bound_low_not_nan : forall p a d r, bound_low p a d r <> NaN.
Proof. intros. unfold bound_low. destruct (emax _ _); simpl; discriminate. Qed.
Lemma bound_high_not_nan : forall p a d r, bound_high p a d r <> NaN.
Proof. intros. unfold bound_high. destruct (emin _ _); simpl; discriminate. Qed.
Lemma bound_low_absent : forall p, bound_low p NaN NaN NaN = NInf.
Proof. reflexivity. Qed.
Lemma bound_high_absent : forall p, bound_high p NaN NaN NaN = PInf.
Proof. reflexivity. Qed.

(* ---- defaults -------------------------------------------------------------- *)
Lemma eps_pos : 0 < eps.
Proof. reflexivity. Qed.

(* unless the caller supplies '<pos>_abs' or 'pos_abs', a position stays within
   the mask radius of its start value, whatever else the dictionary contains *)
Theorem default_pos_within_radius : forall d radius k p v,
  get d (KParam (PPos k) FDiff) = None -> get d (KPos FDiff) = None ->
  let b := validate_one d radius (PPos k) in
  sat_low (bound_low p (fst (b_abs b)) (fst (b_diff b)) (fst (b_rel b))) v ->
  sat_high (bound_high p (snd (b_abs b)) (snd (b_diff b)) (snd (b_rel b))) v ->
  p - nth k radius 0 <= v /\ v <= p + nth k radius 0.
Proof.
  intros d radius k p v H1 H2 b L Hh.
  apply bound_low_spec in L. apply bound_high_spec in Hh.
  unfold b, validate_one, get_form in *. simpl in *. rewrite H1, H2 in *. simpl in *. tauto.
Qed.

(* unless the caller supplies an absolute bound for it, background / signal /
   size stay >= 1e-7 > 0 *)
Definition positive_kind (p : pkind) : Prop :=
  match p with PBackground | PSignal | PSize _ => True | _ => False end.
Theorem default_positive : forall d radius pk p v,
  positive_kind pk -> get_form d pk FAbs = None ->
  let b := validate_one d radius pk in
  sat_low (bound_low p (fst (b_abs b)) (fst (b_diff b)) (fst (b_rel b))) v ->
  eps <= v /\ 0 < v.
Proof.
  intros d radius pk p v K G b L. apply bound_low_spec in L.
  assert (E : fst (b_abs b) = Fin eps).
  { unfold b, validate_one. simpl. rewrite G. destruct pk; simpl in *; tauto. }
  rewrite E in L. simpl in L. destruct L as (_ & _ & L).
  split; [exact L | eapply Qlt_le_trans; [apply eps_pos | exact L]].
Qed.

(* a requested bound is used as given: own key before the broadcast key before the default *)
Theorem requested_abs_used : forall d radius pk v,
  get_form d pk FAbs = Some v -> b_abs (validate_one d radius pk) = to_pair v.
Proof. intros. unfold validate_one. simpl. rewrite H. reflexivity. Qed.
Theorem requested_diff_used : forall d radius pk v,
  get_form d pk FDiff = Some v -> b_diff (validate_one d radius pk) = to_pair v.
Proof. intros. unfold validate_one. simpl. rewrite H. reflexivity. Qed.
Theorem requested_rel_used : forall d radius pk v,
  get_form d pk FRel = Some v -> b_rel (validate_one d radius pk) = to_pair v.
Proof. intros. unfold validate_one. simpl. rewrite H. reflexivity. Qed.

(* ---- min / max over a slice ------------------------------------------------ *)
Lemma emin_sat_low_or : forall a b v, sat_low (emin a b) v -> sat_low a v \/ sat_low b v.
Proof.
  intros a b v. destruct a as [| | |x], b as [| | |y]; simpl; try tauto.
  destruct (Qle_bool x y); simpl; tauto.
Qed.
Lemma emax_sat_high_or : forall a b v, sat_high (emax a b) v -> sat_high a v \/ sat_high b v.
Proof.
  intros a b v. destruct a as [| | |x], b as [| | |y]; simpl; try tauto.
  destruct (Qle_bool x y); simpl; tauto.
Qed.

Lemma fold_emin_low : forall t x v, sat_low (fold_left emin t x) v ->
  sat_low x v \/ exists e, In e t /\ sat_low e v.
Proof.
  induction t as [|y t IH]; simpl; intros x v H; [tauto|].
  apply IH in H. destruct H as [H | (e & He & Hv)].
  - apply emin_sat_low_or in H. destruct H; [tauto | right; exists y; tauto].
  - right; exists e; tauto.
Qed.
Lemma fold_emax_high : forall t x v, sat_high (fold_left emax t x) v ->
  sat_high x v \/ exists e, In e t /\ sat_high e v.
Proof.
  induction t as [|y t IH]; simpl; intros x v H; [tauto|].
  apply IH in H. destruct H as [H | (e & He & Hv)].
  - apply emax_sat_high_or in H. destruct H; [tauto | right; exists y; tauto].
  - right; exists e; tauto.
Qed.

(* v above the minimum of the lower bounds  ->  v above one of them *)
Lemma emin_list_low : forall l v, l <> [] -> sat_low (emin_list l) v -> exists e, In e l /\ sat_low e v.
Proof.
  intros [|x t] v Hn H; [congruence|]. simpl in H. apply fold_emin_low in H.
  destruct H as [H | (e & He & Hv)]; [exists x | exists e]; simpl; tauto.
Qed.
Lemma emax_list_high : forall l v, l <> [] -> sat_high (emax_list l) v -> exists e, In e l /\ sat_high e v.
Proof.
  intros [|x t] v Hn H; [congruence|]. simpl in H. apply fold_emax_high in H.
  destruct H as [H | (e & He & Hv)]; [exists x | exists e]; simpl; tauto.
Qed.

(* and conversely the packed bound is implied by every member: a common absolute
   bound survives packing (used for: background, mode 'cluster', stays >= 1e-7) *)
Lemma emin_sat_low_all : forall a b v, sat_low a v -> sat_low b v -> sat_low (emin a b) v.
Proof.
  intros a b v. destruct a as [| | |x], b as [| | |y]; simpl; try tauto.
  destruct (Qle_bool x y); simpl; tauto.
Qed.

(* ---- list helpers ----------------------------------------------------------- *)
Lemma nth_repeat_lt : forall {A} (v d : A) n i, (i < n)%nat -> nth i (repeat v n) d = v.
Proof. induction n; intros i H; [lia|]. destruct i; simpl; auto. apply IHn; lia. Qed.

Lemma Forall2_nth : forall {A B} (R : A -> B -> Prop) l1 l2 da db i,
  Forall2 R l1 l2 -> (i < length l1)%nat -> R (nth i l1 da) (nth i l2 db).
Proof.
  intros A B R l1 l2 da db i H. revert i. induction H; intros i Hi; simpl in *; [lia|].
  destruct i; auto. apply IHForall2. lia.
Qed.

Lemma Forall2_length' : forall {A B} (R : A -> B -> Prop) l1 l2, Forall2 R l1 l2 -> length l1 = length l2.
Proof. induction 1; simpl; auto. Qed.

Lemma Forall2_app_split : forall {A B} (R : A -> B -> Prop) l1 l1' l2,
  Forall2 R (l1 ++ l1') l2 ->
  Forall2 R l1 (firstn (length l1) l2) /\ Forall2 R l1' (skipn (length l1) l2).
Proof.
  induction l1; simpl; intros l1' l2 H.
  - split; [constructor | exact H].
  - inversion H; subst. apply IHl1 in H4. simpl. split; [constructor; tauto | tauto].
Qed.

Lemma memb_In : forall i grp, memb i grp = true <-> In i grp.
Proof.
  intros. unfold memb. rewrite existsb_exists. split.
  - intros (x & Hx & E). apply Nat.eqb_eq in E. subst. auto.
  - intro H. exists i. split; auto. apply Nat.eqb_refl.
Qed.

Lemma set_from_length : forall col k grp v, length (set_from k grp v col) = length col.
Proof. induction col; simpl; intros; auto. Qed.

Lemma set_from_nth : forall col k grp v i d, (i < length col)%nat ->
  nth i (set_from k grp v col) d = if memb (k + i) grp then v else nth i col d.
Proof.
  induction col; simpl; intros k grp v i d H; [lia|].
  destruct i; simpl.
  - rewrite Nat.add_0_r. reflexivity.
  - rewrite IHcol by lia. replace (S k + i)%nat with (k + S i)%nat by lia. reflexivity.
Qed.

(* ---- packing bounds / unpacking the optimiser's vector --------------------- *)
Section PackRel.
  (* R = sat_low with op = emin_list, or R = sat_high with op = emax_list *)
  Variable R : ext -> Q -> Prop.
  Variable op : list ext -> ext.
  Hypothesis op_spec : forall l v, l <> [] -> R (op l) v -> exists e, In e l /\ R e v.

  (* what is known about entry i of a written-back column, given the column b of
     per-feature bounds: const -> copied; var -> own bound; global / cluster ->
     the bound of some feature of the same group *)
  Definition entry_ok (m : nat) (g : grouping) (b : list ext) (old new : list Q) (i : nat) : Prop :=
    match m with
    | 0%nat => nth i new 0 = nth i old 0
    | 1%nat => R (nth i b NaN) (nth i new 0)
    | 2%nat => exists i', (i' < length b)%nat /\ R (nth i' b NaN) (nth i new 0)
    | _ => match g with
           | None => exists i', (i' < length b)%nat /\ R (nth i' b NaN) (nth i new 0)
           | Some gs => (exists grp, In grp gs /\ In i grp) ->
                        exists grp i', In grp gs /\ In i grp /\ In i' grp /\ R (nth i' b NaN) (nth i new 0)
           end
    end.

  Lemma op_whole : forall b v, b <> [] -> R (op b) v -> exists i', (i' < length b)%nat /\ R (nth i' b NaN) v.
  Proof.
    intros b v Hn H. apply op_spec in H; auto. destruct H as (e & He & Hv).
    apply In_nth with (d := NaN) in He. destruct He as (i' & Hi & E). exists i'. subst. auto.
  Qed.

  Lemma op_group : forall grp b v, grp <> [] -> R (op (select NaN grp b)) v ->
    exists i', In i' grp /\ R (nth i' b NaN) v.
  Proof.
    intros grp b v Hn H. apply op_spec in H.
    - destruct H as (e & He & Hv). unfold select in He. apply in_map_iff in He.
      destruct He as (i' & E & Hi). exists i'. subst. auto.
    - unfold select. destruct grp; simpl; congruence.
  Qed.

  Lemma assign_groups_spec : forall b gs vs col,
    Forall2 (fun grp v => R (op (select NaN grp b)) v) gs vs ->
    length (assign_groups gs vs col) = length col /\
    forall i, (i < length col)%nat ->
      (exists grp i', In grp gs /\ In i grp /\ In i' grp /\ R (nth i' b NaN) (nth i (assign_groups gs vs col) 0)) \/
      ((forall grp, In grp gs -> ~ In i grp) /\ nth i (assign_groups gs vs col) 0 = nth i col 0).
  Proof.
    intros b gs vs col H. revert col. induction H as [|grp v gs vs Hgv H IH]; intros col; simpl.
    - split; [reflexivity|]. intros i Hi. right. split; auto.
    - specialize (IH (set_from 0 grp v col)). destruct IH as (L & IH).
      rewrite set_from_length in L. split; auto.
      intros i Hi. specialize (IH i). rewrite set_from_length in IH. specialize (IH Hi).
      destruct IH as [(grp' & i' & G1 & G2 & G3 & G4) | (N & E)].
      + left. exists grp', i'. tauto.
      + rewrite set_from_nth in E by auto. simpl in E.
        destruct (memb i grp) eqn:M.
        * apply memb_In in M. left.
          destruct (op_group grp b v) as (i' & Hi' & Hr); auto.
          { intro; subst; contradiction. }
          exists grp, i'. rewrite E. tauto.
        * right. split; auto. intros grp' [->|G] Hin.
          -- apply memb_In in Hin. congruence.
          -- eapply N; eauto.
  Qed.

  Lemma col_ok : forall m g b col x rest,
    length b = length col ->
    Forall2 R (pack_col NaN op m g b ++ rest) x ->
    length (fst (unpack_col m g x col)) = length col /\
    Forall2 R rest (snd (unpack_col m g x col)) /\
    forall i, (i < length col)%nat -> entry_ok m g b col (fst (unpack_col m g x col)) i.
  Proof.
    intros m g b col x rest Hl H.
    assert (Whole : forall v x', x = v :: x' -> Forall2 R ([op b] ++ rest) x ->
              length (repeat v (length col)) = length col /\ Forall2 R rest x' /\
              forall i, (i < length col)%nat ->
                exists i', (i' < length b)%nat /\ R (nth i' b NaN) (nth i (repeat v (length col)) 0)).
    { intros v x' -> H'. simpl in H'. inversion H'; subst. split; [apply repeat_length|]. split; auto.
      intros i Hi. rewrite nth_repeat_lt by auto. apply op_whole; auto.
      intro; subst; simpl in Hl; lia. }
    destruct m as [|[|[|m]]]; simpl in *.
    - repeat split; auto.
    - apply Forall2_app_split in H. destruct H as (H1 & H2). rewrite Hl in *.
      split; [rewrite <- (Forall2_length' _ _ _ H1); auto|]. split; auto.
      intros i Hi. apply Forall2_nth; auto. lia.
    - inversion H; subst. simpl. apply (Whole y l'); auto.
    - destruct g as [gs|]; simpl.
      + apply Forall2_app_split in H. rewrite map_length in H. destruct H as (H1 & H2).
        assert (H1' : Forall2 (fun grp v => R (op (select NaN grp b)) v) gs (firstn (length gs) x)).
        { clear - H1. remember (firstn (length gs) x) as y. clear Heqy. revert y H1.
          induction gs; intros y H1; inversion H1; subst; constructor; auto. }
        destruct (assign_groups_spec b gs _ col H1') as (L & S).
        split; auto. split; auto.
        intros i Hi (grp & G1 & G2). destruct (S i Hi) as [Ok | (N & _)]; auto.
        exfalso. eapply N; eauto.
      + inversion H; subst. simpl. apply (Whole y l'); auto.
  Qed.

  Lemma unpack_ok : forall modes g bnds cols x,
    length modes = length cols -> length bnds = length cols ->
    Forall2 (fun b c => length b = length c) bnds cols ->
    Forall2 R (pack NaN op modes g bnds) x ->
    Forall2 (fun c c' => length c' = length c) cols (unpack modes g x cols) /\
    forall j i, (j < length cols)%nat -> (i < length (nth j cols []))%nat ->
      entry_ok (nth j modes 0%nat) g (nth j bnds []) (nth j cols []) (nth j (unpack modes g x cols) []) i.
  Proof.
    induction modes as [|m ms IH]; intros g bnds cols x Lm Lb Hs H.
    - destruct cols; simpl in *; [|lia]. split; [constructor | intros; lia].
    - destruct cols as [|c cs]; simpl in Lm; [lia|].
      destruct bnds as [|b bs]; simpl in Lb; [lia|].
      inversion Hs; subst. simpl in H.
      destruct (col_ok m g b c x (pack NaN op ms g bs) H3 H) as (L & Hr & He).
      simpl. destruct (unpack_col m g x c) as [c' x'] eqn:U. simpl in *.
      destruct (IH g bs cs x') as (S1 & S2); auto.
      split; [constructor; auto|].
      intros j i Hj Hi. destruct j; simpl in *.
      + apply He; auto.
      + apply S2; auto. lia.
  Qed.
End PackRel.

(* shapes *)
Definition shape {A} (cols : list (list A)) : list nat := map (@length A) cols.
Lemma shape_Forall2 : forall (cols new : list (list Q)),
  Forall2 (fun c c' => length c' = length c) cols new -> shape new = shape cols.
Proof. induction 1; simpl; congruence. Qed.

Lemma map2_length : forall {A B C} (f : A -> B -> C) l1 l2, length l1 = length l2 -> length (map2 f l1 l2) = length l2.
Proof. induction l1; destruct l2; simpl; intros; auto; try lia. Qed.

Lemma lows_shape : forall bs cols, length bs = length cols ->
  Forall2 (fun b c => length b = length c) (lows bs cols) cols.
Proof.
  induction bs; destruct cols; simpl; intros; try lia; constructor.
  - unfold low_col. apply map_length.
  - apply IHbs. lia.
Qed.
Lemma highs_shape : forall bs cols, length bs = length cols ->
  Forall2 (fun b c => length b = length c) (highs bs cols) cols.
Proof.
  induction bs; destruct cols; simpl; intros; try lia; constructor.
  - unfold high_col. apply map_length.
  - apply IHbs. lia.
Qed.

Lemma nth_map2 : forall {A B C} (f : A -> B -> C) l1 l2 j da db dc,
  (j < length l1)%nat -> (j < length l2)%nat -> nth j (map2 f l1 l2) dc = f (nth j l1 da) (nth j l2 db).
Proof.
  induction l1; destruct l2; simpl; intros; try lia. destruct j; auto. apply IHl1; lia.
Qed.
