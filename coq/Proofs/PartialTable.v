(* C13: link_partial as a whole -- clamping, sort, the mask assignment of the
   in-range ids, then reconnect_traj_patch (Proofs/Partial.v). *)
From Coq Require Import ZArith List Bool Lia Relations Permutation Sorted.
From TP Require Import Model.Partial Model.PartialSpec Model.PartialCheck Proofs.Partial.
Import ListNotations.
Open Scope Z_scope.

(* r' is r with, possibly, another 'particle' value -- allowed only in frames satisfying P *)
Definition upd (P : Z -> Prop) (r r' : row) : Prop :=
  rid r' = rid r /\ frame r' = frame r /\ oldp r' = oldp r /\ (~ P (frame r) -> part r' = part r).

Lemma upd_refl P r : upd P r r.
Proof. unfold upd; auto. Qed.
Lemma upd_trans P Q r1 r2 r3 : upd P r1 r2 -> upd Q r2 r3 -> upd (fun x => P x \/ Q x) r1 r3.
Proof.
  unfold upd. intros (A1 & A2 & A3 & A4) (B1 & B2 & B3 & B4). repeat split; try congruence.
  intros H. rewrite B4, A4; auto. rewrite A2. tauto.
Qed.
Lemma upd_weaken (P Q : Z -> Prop) r r' : (forall x, P x -> Q x) -> upd P r r' -> upd Q r r'.
Proof. unfold upd. intros H (A & B & C & D). repeat split; auto. Qed.

Lemma Forall2_refl {A} (R : A -> A -> Prop) l : (forall x, R x x) -> Forall2 R l l.
Proof. induction l; constructor; auto. Qed.
Lemma Forall2_trans' {A} (R1 R2 R3 : A -> A -> Prop) l1 : forall l2 l3,
  (forall x y z, R1 x y -> R2 y z -> R3 x z) -> Forall2 R1 l1 l2 -> Forall2 R2 l2 l3 -> Forall2 R3 l1 l3.
Proof.
  induction l1; intros l2 l3 H HA HB; inversion HA; subst; inversion HB; subst; constructor; eauto.
Qed.
Lemma Forall2_weaken {A} (R1 R2 : A -> A -> Prop) l l' :
  (forall x y, R1 x y -> R2 x y) -> Forall2 R1 l l' -> Forall2 R2 l l'.
Proof. induction 2; constructor; auto. Qed.
Lemma Forall2_In_r {A} (R : A -> A -> Prop) l l' y : Forall2 R l l' -> In y l' -> exists x, In x l /\ R x y.
Proof.
  induction 1; cbn; [tauto|]. intros [<-|Hi]; [eauto|]. destruct (IHForall2 Hi) as (x0 & ? & ?). eauto.
Qed.
Lemma Forall2_In_l {A} (R : A -> A -> Prop) l l' x : Forall2 R l l' -> In x l -> exists y, In y l' /\ R x y.
Proof.
  induction 1; cbn; [tauto|]. intros [<-|Hi]; [eauto|]. destruct (IHForall2 Hi) as (y0 & ? & ?). eauto.
Qed.

Lemma upd_filter_len P i t t' : Forall2 (upd P) t t' ->
  length (filter (fun r => frame r =? i) t') = length (filter (fun r => frame r =? i) t).
Proof.
  induction 1 as [|r r' t t' (A & B & C & D) H IH]; cbn; auto. rewrite B.
  destruct (frame r =? i); cbn; auto.
Qed.
Lemma upd_filter_part P i t t' : Forall2 (upd P) t t' -> ~ P i ->
  map part (filter (fun r => frame r =? i) t') = map part (filter (fun r => frame r =? i) t).
Proof.
  induction 1 as [|r r' t t' (A & B & C & D) H IH]; cbn; auto. intros Hn. rewrite B.
  destruct (frame r =? i) eqn:E; cbn; auto. apply Z.eqb_eq in E. rewrite IH, D; auto. congruence.
Qed.
Lemma upd_keys P t t' : Forall2 (upd P) t t' -> map key_out t' = map key_out t.
Proof.
  induction 1 as [|r r' t t' (A & B & C & D) H IH]; cbn; auto. unfold key_out at 1 3. congruence.
Qed.

(* ---- the boolean-mask assignment ---- *)
Lemma assign_mask_spec i t : forall ids t', assign_mask i ids t = Some t' ->
  Forall2 (upd (fun x => x = i)) t t' /\ map part (filter (fun r => frame r =? i) t') = ids.
Proof.
  induction t as [|r t IH]; intros ids t'; cbn.
  - destruct ids; [|discriminate]. intros E; inversion E; subst. split; [constructor | reflexivity].
  - destruct (frame r =? i) eqn:E.
    + destruct ids as [|id ids]; [discriminate|].
      destruct (assign_mask i ids t) as [t1|] eqn:A; [|discriminate]. cbn. intros X; inversion X; subst.
      destruct (IH ids t1 A) as [F M]. split.
      * constructor; auto. unfold upd. cbn. repeat split; auto. apply Z.eqb_eq in E. tauto.
      * cbn. rewrite E. cbn. f_equal. exact M.
    + destruct (assign_mask i ids t) as [t1|] eqn:A; [|discriminate]. cbn. intros X; inversion X; subst.
      destruct (IH ids t1 A) as [F M]. split.
      * constructor; auto. apply upd_refl.
      * cbn. rewrite E. exact M.
Qed.
Lemma assign_mask_total i t : forall ids, length ids = length (filter (fun r => frame r =? i) t) ->
  exists t', assign_mask i ids t = Some t'.
Proof.
  induction t as [|r t IH]; intros ids; cbn.
  - destruct ids; [eauto | discriminate].
  - destruct (frame r =? i); cbn.
    + destruct ids as [|id ids]; [discriminate|]. intros H. injection H as H.
      destruct (IH ids H) as (t' & ->). cbn. eauto.
    + intros H. destruct (IH ids H) as (t' & ->). cbn. eauto.
Qed.

Lemma relink_spec fs linker : forall t, NoDup fs ->
  (forall i, In i fs -> length (linker i) = length (filter (fun r => frame r =? i) t)) ->
  exists t', relink fs linker t = Some t' /\ Forall2 (upd (fun x => In x fs)) t t' /\
             forall i, In i fs -> map part (filter (fun r => frame r =? i) t') = linker i.
Proof.
  induction fs as [|i fs IH]; intros t Hnd Hlen.
  - exists t. split; [reflexivity|]. split; [apply Forall2_refl, upd_refl | intros i []].
  - inversion Hnd as [|? ? Hni Hnd']; subst. cbn [relink].
    destruct (linker i) as [|id0 ids0] eqn:EL.
    + destruct (IH t Hnd') as (t' & R & F & M); [intros; apply Hlen; cbn; auto|].
      exists t'. split; auto. split.
      * eapply Forall2_weaken; [|exact F]. intros x y. apply upd_weaken. cbn; auto.
      * intros j [<-|Hj]; [|auto]. rewrite EL.
        pose proof (upd_filter_len _ i _ _ F) as L. rewrite <- (Hlen i), EL in L by (cbn; auto).
        cbn in L. destruct (filter (fun r => frame r =? i) t'); [reflexivity | discriminate].
    + rewrite <- EL.
      destruct (assign_mask_total i t (linker i)) as (t1 & A); [apply Hlen; cbn; auto|]. rewrite A.
      destruct (assign_mask_spec i t _ _ A) as [F1 M1].
      destruct (IH t1 Hnd') as (t' & R & F & M).
      { intros j Hj. rewrite (upd_filter_len _ j _ _ F1). apply Hlen. cbn; auto. }
      exists t'. split; auto. split.
      * eapply Forall2_trans'; [|exact F1|exact F]. intros x y z U1 U2.
        eapply upd_weaken; [|eapply upd_trans; eauto]. cbn. intros w [->|H]; auto.
      * intros j [<-|Hj]; [|auto]. rewrite (upd_filter_part _ i _ _ F); auto.
Qed.

(* ---- sort ---- *)
Lemma insert_row_perm r l : Permutation (insert_row r l) (r :: l).
Proof.
  induction l as [|x l IH]; cbn; auto. destruct (frame r <=? frame x); auto.
  rewrite IH. apply perm_swap.
Qed.
Lemma sort_rows_perm l : Permutation (sort_rows l) l.
Proof. induction l as [|x l IH]; cbn; auto. rewrite insert_row_perm. auto. Qed.

Definition frames_sorted (l : list row) : Prop := StronglySorted (fun r1 r2 => frame r1 <= frame r2) l.
Lemma insert_row_sorted r l : frames_sorted l -> frames_sorted (insert_row r l).
Proof.
  unfold frames_sorted. induction 1 as [|x l S IH F]; cbn.
  - constructor; constructor.
  - destruct (frame r <=? frame x) eqn:E.
    + apply Z.leb_le in E. constructor; [constructor; auto|]. constructor; auto.
      eapply Forall_impl; [|exact F]. cbn. intros; lia.
    + apply Z.leb_gt in E. constructor; auto.
      eapply Permutation_Forall; [symmetry; apply insert_row_perm|]. constructor; auto. lia.
Qed.
Lemma sort_rows_sorted l : frames_sorted (sort_rows l).
Proof. induction l; cbn; [constructor | apply insert_row_sorted; auto]. Qed.

Lemma filter_len_perm {A} (p : A -> bool) l l' : Permutation l l' -> length (filter p l) = length (filter p l').
Proof.
  induction 1; cbn; auto.
  - destruct (p x); cbn; auto.
  - destruct (p x), (p y); cbn; auto.
  - congruence.
Qed.

(* ---- frame span ---- *)
Lemma fold_min_le xs : forall x, fold_left Z.min xs x <= x /\ forall y, In y xs -> fold_left Z.min xs x <= y.
Proof.
  induction xs as [|a xs IH]; intros x; cbn; [split; [lia | tauto]|].
  destruct (IH (Z.min x a)) as [H1 H2]. split; [lia|]. intros y [<-|Hy]; [lia | auto].
Qed.
Lemma fold_max_ge xs : forall x, x <= fold_left Z.max xs x /\ forall y, In y xs -> y <= fold_left Z.max xs x.
Proof.
  induction xs as [|a xs IH]; intros x; cbn; [split; [lia | tauto]|].
  destruct (IH (Z.max x a)) as [H1 H2]. split; [lia|]. intros y [<-|Hy]; [lia | auto].
Qed.
Lemma frame_span_bounds f lo hi : frame_span f = Some (lo, hi) ->
  lo < hi /\ forall r, In r f -> lo <= frame r < hi.
Proof.
  unfold frame_span. destruct (map frame f) as [|x xs] eqn:E; [discriminate|]. intros H; inversion H; subst.
  destruct (fold_min_le xs x) as [A1 A2]. destruct (fold_max_ge xs x) as [B1 B2].
  split; [lia|]. intros r Hr. assert (Hi : In (frame r) (x :: xs)) by (rewrite <- E; apply in_map; auto).
  destruct Hi as [<-|Hi]; [lia|]. specialize (A2 _ Hi). specialize (B2 _ Hi). lia.
Qed.

(* ---- when the range covers the whole table the in-range ids are the result ---- *)
Lemma all_inside_spec T s e :
  (forall r, In r T -> inside s e r) -> valid_new T s e ->
  labels_unique_per_frame T (map part T) /\ share_label_iff_joined T s e (map part T) /\
  outside_grouping_kept T s e (map part T).
Proof.
  intros Hall Hnew. unfold labelled. split; [|split].
  - intros r1 r2 l A B Ef. unfold labelled in *. apply combine_map_In in A as [A ->], B as [B E]. apply Hnew; auto.
  - intros r1 l1 r2 l2 A B. unfold labelled in *. apply combine_map_In in A as [A ->], B as [B ->]. split.
    + intros E. apply rst_step, J_inside; auto.
    + intros J. clear A B.
      assert (Hl : forall x y, link1 T s e x y -> part x = part y).
      { intros x y L.
        destruct L as [r1' r2' H1 H2 Z1 Z2 E|r1' r2' H1 H2 Z1 Z2 E|r1' r2' H1 H2 Z1 Z2 E
                       |r1' r2' H1 H2 Z1 Z2 E|r1' r2' H1 H2 Z1 Z2 E]; auto;
          exfalso; try (apply Hall in H1; unfold before, after, inside in *; lia);
          apply Hall in H2; unfold before, after, inside in *; lia. }
      induction J; auto; congruence.
  - intros r1 l1 r2 l2 A B Hz. unfold labelled in *. apply combine_map_In in A as [A ->], B as [B ->].
    exfalso. apply Hall in A. unfold before, after, inside in *. lia.
Qed.

(* ---- transfer of the hypotheses to the relinked table ---- *)
Lemma sorted_map l : frames_sorted l -> StronglySorted Z.le (map frame l).
Proof.
  unfold frames_sorted. induction 1 as [|x l S IH F]; cbn; constructor; auto.
  apply Forall_map. exact F.
Qed.

Lemma upd_map {B} (g : row -> B) P t t' :
  (forall r r', upd P r r' -> g r' = g r) -> Forall2 (upd P) t t' -> map g t' = map g t.
Proof. intros Hg. induction 1; cbn; auto. f_equal; auto. Qed.

Lemma valid_old_perm f t : (forall r, In r t -> In r f) -> (forall r, In r f -> In r t) -> valid_old f -> valid_old t.
Proof.
  intros H1 H2 (A & B & C). split; [|split].
  - intros r Hr. auto.
  - intros r1 r2 X Y. auto.
  - intros r1 r2 x X Y E Hx. destruct (C r1 r2 x) as (r & Hr & ?); auto. eauto.
Qed.

Lemma valid_old_transfer P t T :
  Forall2 (upd P) t T -> NoDup (map rid T) -> valid_old t -> valid_old T.
Proof.
  intros F Hnd (A & B & C). split; [|split].
  - intros r' Hr'. destruct (Forall2_In_r _ _ _ _ F Hr') as (r & Hr & (U1 & U2 & U3 & _)). rewrite U3. auto.
  - intros r1' r2' H1 H2 Ef Eo.
    destruct (Forall2_In_r _ _ _ _ F H1) as (r1 & Hr1 & (U1 & U2 & U3 & _)).
    destruct (Forall2_In_r _ _ _ _ F H2) as (r2 & Hr2 & (V1 & V2 & V3 & _)).
    assert (r1 = r2) by (apply B; auto; congruence). subst r2.
    eapply NoDup_map_In_eq; eauto. congruence.
  - intros r1' r2' x H1 H2 Eo Hx.
    destruct (Forall2_In_r _ _ _ _ F H1) as (r1 & Hr1 & (U1 & U2 & U3 & _)).
    destruct (Forall2_In_r _ _ _ _ F H2) as (r2 & Hr2 & (V1 & V2 & V3 & _)).
    destruct (C r1 r2 x) as (r & Hr & Hf & Ho); auto; try congruence; try lia.
    destruct (Forall2_In_l _ _ _ _ F Hr) as (r' & Hr' & (W1 & W2 & W3 & _)).
    exists r'. repeat split; auto; congruence.
Qed.

Lemma Zrange_NoDup s e : NoDup (Zrange s e).
Proof. unfold Zrange. apply NoDup_map_inj; [apply seq_NoDup | intros; lia]. Qed.

Theorem link_partial_correct f a b linker lo hi :
  frame_span f = Some (lo, hi) -> a < b -> a < hi -> lo < b ->
  NoDup (map rid f) -> (forall r, In r f -> oldp r = part r) -> valid_old f ->
  valid_linker f (Z.max a lo) (Z.min b hi) linker ->
  exists T out,
    relinked lo hi (sort_rows f) (a, b) linker = Some T /\
    link_partial f (a, b) linker = POk out /\
    (* T: the caller's rows ordered by frame, old labels kept aside, in-range frames carrying link_iter's ids *)
    Permutation (map key_out T) (map key_out f) /\
    StronglySorted Z.le (map frame T) /\
    (forall i, Z.max a lo <= i < Z.min b hi -> map part (filter (fun r => frame r =? i) T) = linker i) /\
    untouched_outside T (Z.max a lo) (Z.min b hi) /\
    (* out: same rows in the same places, labels satisfying the specification *)
    map key_out out = map key_out T /\
    (forall r l, In (r, l) (labelled T (map part out)) -> before (Z.max a lo) r -> l = oldp r) /\
    labels_unique_per_frame T (map part out) /\
    share_label_iff_joined T (Z.max a lo) (Z.min b hi) (map part out) /\
    outside_grouping_kept T (Z.max a lo) (Z.min b hi) (map part out).
Proof.
  intros Hspan Hab Hahi Hlob Hrid Hwf Hold Hlink.
  set (s := Z.max a lo) in *. set (e := Z.min b hi) in *.
  destruct (frame_span_bounds f lo hi Hspan) as [Hlohi Hbnd].
  assert (Hse : s < e) by (unfold s, e; lia).
  set (t := sort_rows f).
  assert (Hperm : Permutation t f) by apply sort_rows_perm.
  assert (Hin1 : forall r, In r t -> In r f) by (intros r; apply Permutation_in; auto).
  assert (Hin2 : forall r, In r f -> In r t) by (intros r; apply Permutation_in; symmetry; auto).
  assert (Ht1 : map (fun r => set_old r (part r)) t = t).
  { rewrite <- (map_id t) at 2. apply map_ext_in. intros r Hr. destruct r as [i fr p o]. unfold set_old. cbn.
    f_equal. specialize (Hwf _ (Hin1 _ Hr)). cbn in Hwf. auto. }
  assert (Hclamp : clamp lo hi (a, b) = (s, e)).
  { unfold clamp, s, e. f_equal.
    - destruct (a <? lo) eqn:E; [apply Z.ltb_lt in E | apply Z.ltb_ge in E]; lia.
    - destruct (hi <? b) eqn:E; [apply Z.ltb_lt in E | apply Z.ltb_ge in E]; lia. }
  destruct (relink_spec (Zrange s e) linker t (Zrange_NoDup s e)) as (T & HR & HF & HM).
  { intros i Hi. apply In_Zrange in Hi. destruct (Hlink i Hi) as [_ L]. rewrite L.
    apply filter_len_perm. symmetry; auto. }
  assert (HridT : map rid T = map rid t).
  { apply (upd_map rid _ _ _) with (2 := HF). intros r r' (U & _). auto. }
  assert (HndT : NoDup (map rid T)).
  { rewrite HridT. eapply Permutation_NoDup; [|exact Hrid]. apply Permutation_map. symmetry; auto. }
  assert (HndT' : NoDup T) by (eapply NoDup_map_inv; eauto).
  assert (HoldT : valid_old T).
  { eapply valid_old_transfer; eauto. eapply valid_old_perm; eauto. }
  assert (HM' : forall i, s <= i < e -> map part (filter (fun r => frame r =? i) T) = linker i).
  { intros i Hi. apply HM, In_Zrange; auto. }
  assert (HnewT : valid_new T s e).
  { intros r1 r2 H1 H2 I1 I2 Ef Ep.
    assert (Hnd : NoDup (map part (filter (fun r => frame r =? frame r1) T))).
    { rewrite HM' by exact I1. apply Hlink; auto. }
    eapply NoDup_map_In_eq; eauto; apply filter_In; split; auto; apply Z.eqb_eq; auto. }
  assert (HoutT : untouched_outside T s e).
  { intros r' Hr' Hni. destruct (Forall2_In_r _ _ _ _ HF Hr') as (r & Hr & (U1 & U2 & U3 & U4)).
    rewrite U4, U3; [symmetry; auto|]. rewrite In_Zrange, <- U2. exact Hni. }
  exists T.
  assert (Hrel : relinked lo hi t (a, b) linker = Some T).
  { unfold relinked. rewrite Hclamp, Ht1. exact HR. }
  assert (Hkeys : Permutation (map key_out T) (map key_out f)).
  { rewrite (upd_keys _ _ _ HF). apply Permutation_map; auto. }
  assert (Hsorted : StronglySorted Z.le (map frame T)).
  { rewrite (upd_map frame _ _ _) with (2 := HF); [|intros r r' (_ & U & _); auto].
    apply sorted_map, sort_rows_sorted. }
  unfold link_partial. rewrite Hspan. fold t. unfold patch. cbn [fst snd].
  assert (Eab : (a <? b) = true) by (apply Z.ltb_lt; auto). rewrite Eab. cbn [negb].
  rewrite Hclamp, Ht1.
  assert (Ese : (s <? e) = true) by (apply Z.ltb_lt; auto). rewrite Ese. cbn [negb].
  rewrite HR.
  destruct ((lo <? s) || (e <? hi))%bool eqn:Epart.
  - destruct (reconnect_correct T s e HndT Hse HoldT HnewT HoutT)
      as (out & Hrec & O1 & O2 & O3 & O4 & O5 & O6 & O7).
    exists out. repeat (split; [assumption|]). split; [|auto].
    unfold key_out. clear - O1 O2 O3.
    revert out O1 O2 O3. induction T as [|x T IH]; intros [|y out]; cbn; intros; try discriminate; auto.
    inversion O1; inversion O2; inversion O3. f_equal; auto; congruence.
  - apply orb_false_iff in Epart as [E1 E2]. apply Z.ltb_ge in E1, E2.
    assert (Hall : forall r, In r T -> inside s e r).
    { intros r' Hr'. destruct (Forall2_In_r _ _ _ _ HF Hr') as (r & Hr & (_ & U2 & _)).
      unfold inside. rewrite U2. specialize (Hbnd r (Hin1 r Hr)). unfold s, e in *. lia. }
    destruct (all_inside_spec T s e Hall HnewT) as (S1 & S2 & S3).
    exists T. split; [assumption|]. split; [reflexivity|]. repeat (split; [assumption|]). split; [reflexivity|]. split; [|auto].
    intros r l H Hb. unfold labelled in H. apply combine_map_In in H as [H _]. apply Hall in H.
    unfold before, inside in *. lia.
Qed.

(* ---- a concrete instance of the hypotheses (DESIGN 4, F4, rows shuffled) ---- *)
Definition F4_input : list row :=
  [mkrow 0 4 7 7; mkrow 1 0 5 5; mkrow 2 3 5 5; mkrow 3 1 5 5; mkrow 4 5 7 7; mkrow 5 2 5 5;
   mkrow 6 3 7 7; mkrow 7 5 5 5; mkrow 8 4 5 5].
Definition F4_linker (i : Z) : list Z := if i =? 3 then [1; 0] else if i =? 4 then [0; 1] else [0].

Lemma link_partial_instance :
  frame_span F4_input = Some (0, 6) /\ hyps_ok F4_input 0 1 = true /\
  (forall r, In r F4_input -> oldp r = part r) /\
  valid_linker F4_input (Z.max 1 0) (Z.min 5 6) F4_linker /\
  option_map (map (fun r => (rid r, frame r, part r)))
     (match link_partial F4_input (1, 5) F4_linker with POk o => Some o | PRaises _ => None end)
  = Some [(1%nat, 0, 5); (3%nat, 1, 5); (5%nat, 2, 5); (2%nat, 3, 0); (6%nat, 3, 5);
          (0%nat, 4, 5); (8%nat, 4, 0); (4%nat, 5, 5); (7%nat, 5, 0)].
Proof.
  split; [reflexivity|]. split; [vm_compute; reflexivity|]. split.
  - intros r H. cbn in H. repeat (destruct H as [<-|H]; [reflexivity|]). destruct H.
  - split; [|vm_compute; reflexivity].
    intros i Hi. change (Z.max 1 0) with 1 in Hi. change (Z.min 5 6) with 5 in Hi.
    assert (E : i = 1 \/ i = 2 \/ i = 3 \/ i = 4) by lia.
    destruct E as [-> | [-> | [-> | ->]]]; (split; [|reflexivity]); cbn;
      repeat constructor; cbn; intuition discriminate.
Qed.
