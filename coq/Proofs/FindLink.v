(* C14 — safety of FindLinker (find_link's relocation of lost features).
   Part 1: every candidate of get_relocate_candidates is admissible.
   Part 2: the extended linking step (labels, added features in range,
           separation, margin/mass).
   Part 3: soundness of the admissibility monitor.
   Part 4: refutations for the two earlier variants of the code (F12, F16). *)
From Coq Require Import ZArith NArith QArith Qround List Bool Arith Lia Lqa Permutation.
From TP Require Import Model.Assign Model.Link Model.LinkCheck Model.Dilation Model.DilationCheck
     Model.FindLink Model.FindLinkCheck
     Proofs.BnB Proofs.Opt Proofs.Cands Proofs.Comps Proofs.Step Proofs.Labels Proofs.Dilation.
Import ListNotations.
Open Scope Z_scope.

(* ===================================================== vocabulary (spec) *)
(* a and b are at least S/k apart *)
Definition far (k S : Z) (a b : pt) : Prop := S * S <= k * k * sqd a b.
(* q is within the search range of p *)
Definition in_range (m : metric) (p q : pt) : Prop := d2w (mw m) p q <= mR2 m.
(* a keeps the distance r from both ends of every axis of an image of shape sh *)
Definition off_margin (sh : list Z) (r : Z) (a : pt) : Prop :=
  Forall2 (fun n x => r <= x <= n - r - 1) sh a.
(* the points of a frame are pairwise distinct and at least S/k apart *)
Definition separated (k S : Z) (l : list pt) : Prop :=
  NoDup l /\ forall a b, In a l -> In b l -> a <> b -> far k S a b.

(* the derived radii are consistent: the background query reaches every point
   that can be within separation of a pixel of the search mask *)
Definition bg_covers (P : fparams) : Prop :=
  0 < fk P /\ 0 < sepk P /\ 0 <= slr P /\ slr P * fk P + sepk P <= bgk P.

(* ============================================================== geometry *)
Fixpoint dot (x y : list Z) : Z :=
  match x, y with a :: x', b :: y' => a * b + dot x' y' | _, _ => 0 end.
Definition nrm (x : list Z) := dot x x.

Lemma nrm_nonneg x : 0 <= nrm x.
Proof. unfold nrm. induction x as [|a x IH]; cbn; [lia|]. nia. Qed.

Lemma sq_le_abs u v : 0 <= v -> u * u <= v * v -> u <= v.
Proof. intros. nia. Qed.

Lemma cauchy x : forall y, dot x y * dot x y <= nrm x * nrm y.
Proof.
  induction x as [|a x IH]; intros [|b y]; unfold nrm; cbn; try lia.
  pose proof (nrm_nonneg x) as HX. pose proof (nrm_nonneg y) as HY. specialize (IH y).
  unfold nrm in *. set (d := dot x y) in *. set (X := dot x x) in *. set (Y := dot y y) in *.
  assert (H1 : 2 * (a * b * d) <= a * a * Y + b * b * X).
  { apply sq_le_abs; [nia|].
    pose proof (Z.square_nonneg (a*a*Y - b*b*X)) as Hsq.
    assert (4 * (a*a*b*b) * (d*d) <= 4 * (a*a*b*b) * (X*Y)) by (apply Z.mul_le_mono_nonneg_l; nia).
    nia. }
  nia.
Qed.

Lemma sqd_expand a : forall b p, length b = length a -> length p = length a ->
  sqd b p = nrm (vsub a p) + nrm (vsub a b) - 2 * dot (vsub a p) (vsub a b)
  /\ sqd a p = nrm (vsub a p) /\ sqd a b = nrm (vsub a b).
Proof.
  unfold nrm. induction a as [|a0 a IH]; intros [|b0 b] [|p0 p] Hb Hp; cbn [length] in *; try discriminate;
    cbn [sqd vsub dot].
  - lia.
  - destruct (IH b p) as [H1 [H2 H3]]; lia.
Qed.

(* triangle inequality, squared and scaled: |a-p| <= A, |a-b| <= S/k  ==>  |b-p| <= A + S/k *)
Lemma triangle k A S a b p :
  length b = length a -> length p = length a ->
  0 < k -> 0 <= A -> 0 <= S ->
  sqd a p <= A * A -> k * k * sqd a b <= S * S ->
  k * k * sqd b p <= (A * k + S) * (A * k + S).
Proof.
  intros Hb Hp Hk HA HS H1 H2.
  destruct (sqd_expand a b p Hb Hp) as [E [E1 E2]]. rewrite E. rewrite E1 in H1. rewrite E2 in H2.
  pose proof (cauchy (vsub a p) (vsub a b)) as C.
  pose proof (nrm_nonneg (vsub a p)) as NX. pose proof (nrm_nonneg (vsub a b)) as NY.
  set (X := nrm (vsub a p)) in *. set (Y := nrm (vsub a b)) in *. set (d := dot (vsub a p) (vsub a b)) in *.
  assert (Hd : - (k * k * d) <= A * k * S).
  { apply sq_le_abs; [nia|].
    assert (k*k*d * (k*k*d) <= (k*k*X) * (k*k*Y)).
    { replace (k*k*d*(k*k*d)) with ((k*k*k*k) * (d*d)) by ring.
      replace (k*k*X*(k*k*Y)) with ((k*k*k*k) * (X*Y)) by ring. apply Z.mul_le_mono_nonneg_l; nia. }
    assert ((k*k*X) * (k*k*Y) <= (A*A*(k*k)) * (S*S)).
    { apply Z.mul_le_mono_nonneg; nia. }
    nia. }
  nia.
Qed.

Lemma sqd_sym a : forall b, sqd a b = sqd b a.
Proof. induction a as [|x a IH]; intros [|y b]; cbn; try reflexivity. rewrite IH. ring. Qed.

Lemma sqd_self a : sqd a a = 0.
Proof. induction a as [|x a IH]; cbn [sqd]; [reflexivity|rewrite IH; ring]. Qed.

Lemma sqd_nonneg a : forall b, 0 <= sqd a b.
Proof.
  induction a as [|x a IH]; intros [|y b]; cbn [sqd]; try lia.
  specialize (IH b). pose proof (Z.square_nonneg (x - y)). lia.
Qed.

(* ================================================================ slices *)
Lemma cols_length n : forall ps, length (cols n ps) = n.
Proof. induction n as [|n IH]; intros ps; cbn; [reflexivity|]. rewrite IH. reflexivity. Qed.

Lemma slice_box_length sh R pos bx : slice_box sh R pos = Some bx -> length bx = length sh.
Proof.
  unfold slice_box. destruct (filter (in_reach sh R) pos) as [|p0 ps]; [discriminate|].
  intros H. inversion H. rewrite map_length, combine_length, cols_length. lia.
Qed.

Lemma in_rng_length bx : forall a, in_rng bx a = true -> length a = length bx.
Proof.
  induction bx as [|r bx IH]; intros [|x a] H; cbn in H; try discriminate; [reflexivity|].
  apply andb_true_iff in H. destruct H as [_ H]. cbn. f_equal. apply IH. exact H.
Qed.

Lemma existsb_in {A} (f : A -> bool) l : existsb f l = true -> exists x, In x l /\ f x = true.
Proof. apply existsb_exists. Qed.

(* a pixel of the masked slice that is not black is inside the search mask of
   some position and not within separation of any background point *)
Lemma mslice_nonzero P im bx pos bg a :
  mslice P im bx pos bg a <> 0 ->
  in_rng bx a = true /\
  (exists p, In p pos /\ sqd a p <= slr P * slr P) /\
  (forall b, In b bg -> sepk P * sepk P <= fk P * fk P * sqd a b).
Proof.
  unfold mslice. destruct (in_rng bx a) eqn:E1; [|congruence].
  destruct (near_any 1 (slr P) pos a) eqn:E2; [|congruence].
  destruct (close_any (fk P) (sepk P) bg a) eqn:E3; [congruence|].
  intros _. split; [reflexivity|]. split.
  - unfold near_any in E2. apply existsb_exists in E2. destruct E2 as [p [Hp Hw]].
    exists p. split; [exact Hp|]. unfold within_b in Hw. apply Z.leb_le in Hw. lia.
  - intros b Hb. unfold close_any in E3.
    destruct (inside_b (fk P) (sepk P) a b) eqn:E4.
    + assert (existsb (inside_b (fk P) (sepk P) a) bg = true) by (apply existsb_exists; exists b; auto). congruence.
    + unfold inside_b in E4. apply Z.ltb_ge in E4. exact E4.
Qed.

(* the masking argument: with a background query that covers (bg_covers), a
   non-black pixel of the masked slice is at least separation away from EVERY
   known point of the frame, not only from those the query returned *)
Lemma masked_far_from_known P im bx pos known a :
  bg_covers P ->
  Forall (fun p => length p = length bx) pos -> Forall (fun b => length b = length bx) known ->
  mslice P im bx pos (background P pos known) a <> 0 ->
  forall b, In b known -> far (fk P) (sepk P) a b.
Proof.
  intros [Hk [Hs [Hsl Hbg]]] Hpos Hknown Hnz b Hb.
  destruct (mslice_nonzero _ _ _ _ _ _ Hnz) as [Hin [[p [Hp Hap]] Hfar]].
  unfold far. destruct (Z_le_gt_dec (sepk P * sepk P) (fk P * fk P * sqd a b)) as [H|H]; [exact H|].
  (* b is closer than separation: then the query must have returned it *)
  exfalso. assert (Hbin : In b (background P pos known)).
  { unfold background. apply filter_In. split; [exact Hb|].
    unfold near_any. apply existsb_exists. exists p. split; [exact Hp|].
    unfold within_b. apply Z.leb_le.
    pose proof (in_rng_length _ _ Hin) as La.
    rewrite Forall_forall in Hpos, Hknown.
    assert (T := triangle (fk P) (slr P) (sepk P) a b p).
    rewrite (Hknown b Hb), (Hpos p Hp), La in T.
    specialize (T eq_refl eq_refl Hk Hsl (Z.lt_le_incl _ _ Hs) Hap (Z.lt_le_incl _ _ (Z.gt_lt _ _ H))).
    assert (0 <= slr P * fk P + sepk P) by nia.
    assert ((slr P * fk P + sepk P) * (slr P * fk P + sepk P) <= bgk P * bgk P) by nia.
    lia. }
  specialize (Hfar b Hbin). lia.
Qed.

(* FindLinker.__init__ (as it is now) yields consistent radii ... *)
Lemma mk_params_covers ndim k srk sepk_ rad_ mm fx :
  0 < k -> 0 <= srk -> 0 < sepk_ -> 0 <= rad_ ->
  bg_covers (mk_params ndim k srk sepk_ rad_ mm false fx).
Proof.
  intros Hk Hsr Hsep Hr. unfold bg_covers, mk_params. cbn.
  assert (0 <= (srk + (rad_ + 1) * k) / k) by (apply Z.div_pos; nia).
  repeat split; try lia.
Qed.

(* ===================================================== small list lemmas *)
Lemma insert_m_perm x l : Permutation (insert_m x l) (x :: l).
Proof.
  induction l as [|y l IH]; cbn; [apply Permutation_refl|].
  destruct (mass_ge (snd y) (snd x)); [|apply Permutation_refl].
  eapply Permutation_trans; [apply perm_skip; exact IH|apply perm_swap].
Qed.
Lemma sort_m_perm l : Permutation (sort_m l) l.
Proof.
  induction l as [|x l IH]; cbn; [constructor|].
  eapply Permutation_trans; [apply insert_m_perm|apply perm_skip; exact IH].
Qed.

Lemma firstn_incl {A} n (l : list A) x : In x (firstn n l) -> In x l.
Proof. revert l; induction n as [|n IH]; intros [|y l] H; cbn in H; try contradiction. destruct H; [left|right]; auto. Qed.

Lemma nodup_map_filter {A B} (g : A -> B) (p : A -> bool) l : NoDup (map g l) -> NoDup (map g (filter p l)).
Proof.
  induction l as [|x l IH]; cbn; intros H; [constructor|]. inversion H; subst.
  destruct (p x); [|apply IH; assumption]. cbn. constructor; [|apply IH; assumption].
  intros Hin. apply H2. apply in_map_iff in Hin. destruct Hin as [y [E Hy]]. apply filter_In in Hy.
  rewrite <- E. apply in_map. tauto.
Qed.

Lemma nodup_map_firstn {A B} (g : A -> B) n : forall l, NoDup (map g l) -> NoDup (map g (firstn n l)).
Proof.
  induction n as [|n IH]; intros [|x l] H; cbn; try constructor.
  - inversion H; subst. intros Hin. apply H2. apply in_map_iff in Hin. destruct Hin as [y [E Hy]].
    rewrite <- E. apply in_map. eapply firstn_incl; exact Hy.
  - inversion H; subst. apply IH. assumption.
Qed.

Lemma np_delete_sub {A} (g : nat * A -> bool) (l : list A) : forall s y,
  In y (map snd (filter g (combine (seq s (length l)) l))) -> In y l.
Proof.
  induction l as [|x l IH]; intros s y H; cbn in H; [contradiction|].
  destruct (g (s, x)); cbn in H.
  - destruct H as [H|H]; [left; exact H|right; eapply IH; exact H].
  - right; eapply IH; exact H.
Qed.

Lemma np_delete_nodup {A} (l : list A) idx : NoDup l -> NoDup (np_delete l idx).
Proof.
  unfold np_delete. generalize 0%nat. induction l as [|x l IH]; intros s H; cbn; [constructor|].
  inversion H; subst.
  destruct (negb (existsb (Nat.eqb s) idx)); cbn; [|apply IH; assumption].
  constructor; [|apply IH; assumption].
  intros Hin. apply H2. eapply np_delete_sub. exact Hin.
Qed.

Lemma map_const_repeat {A B} (c : B) (l : list A) : map (fun _ => c) l = repeat c (length l).
Proof. induction l as [|x l IH]; cbn; [reflexivity|]. f_equal. exact IH. Qed.

(* ---- bridge between drop_close's rational "closer than separation" and the integer test *)
Lemma sqdist_inject a : forall b, (sqdist (map inject_Z a) (map inject_Z b) == inject_Z (sqd a b))%Q.
Proof.
  induction a as [|x a IH]; intros [|y b]; cbn [map sqdist sqd]; try reflexivity.
  rewrite IH. unfold Qeq, Qplus, Qmult, Qminus, Qopp, inject_Z. cbn. ring.
Qed.

Lemma closer_iff P (sh : list Z) a b :
  0 < fk P -> 0 < sepk P -> length a = length sh -> length b = length sh ->
  (closer_than_sep (map (fun _ => sepQ P) sh) (map inject_Z a) (map inject_Z b) <->
   fk P * fk P * sqd a b < sepk P * sepk P).
Proof.
  intros Hk Hs La Lb. rewrite map_const_repeat.
  assert (Hq : (0 < sepQ P)%Q) by (unfold sepQ, Qlt; cbn; lia).
  rewrite (closer_than_sep_iso (sepQ P) (length sh)) by (try exact Hq; rewrite map_length; assumption).
  rewrite sqdist_inject. unfold sepQ, Qlt, Qmult, inject_Z. cbn.
  rewrite Pos2Z.inj_mul, Z2Pos.id by exact Hk. split; intros H; nia.
Qed.

(* ============================== Part 1: get_relocate_candidates is admissible *)
Section Candidates.
  Variables (P : fparams) (im : image) (t : option Q) (pos known : list pt).
  Local Notation sh := (shape im).
  Local Notation cands := (relocate_cands P im t pos known).

  (* the survivors of drop_close, of which the result is a selection *)
  Definition ranged_of (bx : list (Z * Z)) (t0 : Q) : list pt :=
    let f := mslice P im bx pos (background P pos known) in
    filter (fun a => existsb (fun p => d2w (mw (fmet P)) p a <=? mR2 (fmet P)) pos)
      (filter (fun a => negb (near_edge sh (map (fun _ => rad P) sh) (if fixed P then a else vsub a (map fst bx))))
         (filter (is_peak f (map (fun _ => dil P) sh) t0) (box_pixels bx))).
  Definition kept_of (bx : list (Z * Z)) (t0 : Q) : list pt :=
    let f := mslice P im bx pos (background P pos known) in
    drop_close (map inject_Z) (ranged_of bx t0) (map (fun _ => sepQ P) sh) (Some (map f (ranged_of bx t0))).

  Lemma cands_struct : forall x, In x cands ->
    exists bx t0, slice_box sh (slr P) pos = Some bx /\ t = Some t0 /\
      In (fst x) (kept_of bx t0) /\
      snd x = char_mass (mslice P im bx pos (background P pos known)) bx (rad P) (fst x) /\
      (fixed P = true -> mass_ok (minmass P) (snd x) = true).
  Proof.
    intros x. unfold relocate_cands.
    destruct (slice_box sh (slr P) pos) as [bx|] eqn:Eb; [|intros []].
    destruct (sumZ (map (pix im) (box_pixels bx)) =? 0); [intros []|].
    destruct (sumZ (map (mslice P im bx pos []) (box_pixels bx)) =? 0); [intros []|].
    destruct t as [t0|]; [|intros []].
    intros H. exists bx, t0. split; [reflexivity|]. split; [reflexivity|].
    unfold kept_of, ranged_of. revert H.
    set (f := mslice P im bx pos (background P pos known)).
    destruct (fixed P) eqn:Ef; intros H.
    - apply filter_In in H. destruct H as [H1 H2]. apply (Permutation_in _ (sort_m_perm _)) in H1.
      apply in_map_iff in H1. destruct H1 as [a [E Ha]]. subst x. cbn. auto.
    - apply firstn_incl in H. apply (Permutation_in _ (sort_m_perm _)) in H.
      apply in_map_iff in H. destruct H as [a [E Ha]]. subst x. cbn. split; [exact Ha|]. split; [reflexivity|discriminate].
  Qed.

  Lemma cands_nodup : NoDup (map fst cands).
  Proof.
    unfold relocate_cands.
    destruct (slice_box sh (slr P) pos) as [bx|] eqn:Eb; [|constructor].
    destruct (sumZ (map (pix im) (box_pixels bx)) =? 0); [constructor|].
    destruct (sumZ (map (mslice P im bx pos []) (box_pixels bx)) =? 0); [constructor|].
    destruct t as [t0|]; [|constructor].
    set (f := mslice P im bx pos (background P pos known)).
    fold (ranged_of bx t0). fold f.
    assert (Hn : NoDup (map fst (sort_m (map (fun a => (a, char_mass f bx (rad P) a)) (kept_of bx t0))))).
    { eapply Permutation_NoDup; [apply Permutation_map, Permutation_sym, sort_m_perm|].
      rewrite map_map. cbn. rewrite map_id. unfold kept_of, drop_close. apply np_delete_nodup.
      unfold ranged_of. apply NoDup_filter, NoDup_filter, NoDup_filter. unfold box_pixels. apply nodup_prod_ranges. }
    unfold kept_of, ranged_of in Hn. fold f in Hn. unfold ranged_of. revert Hn.
    destruct (fixed P); intros Hn; [apply nodup_map_filter|apply nodup_map_firstn]; exact Hn.
  Qed.

  Hypothesis thr_nonneg : forall t0, t = Some t0 -> (0 <= t0)%Q.
  Hypothesis pos_dim : Forall (fun p => length p = length sh) pos.
  Hypothesis known_dim : Forall (fun b => length b = length sh) known.

  Lemma kept_props bx t0 a :
    slice_box sh (slr P) pos = Some bx -> t = Some t0 -> In a (kept_of bx t0) ->
    mslice P im bx pos (background P pos known) a <> 0 /\ length a = length sh /\
    near_edge sh (map (fun _ => rad P) sh) (if fixed P then a else vsub a (map fst bx)) = false /\
    exists p, In p pos /\ in_range (fmet P) p a.
  Proof.
    intros Eb Et Ha. unfold kept_of in Ha. apply survivors_subset in Ha. unfold ranged_of in Ha.
    apply filter_In in Ha. destruct Ha as [Ha Hr]. apply filter_In in Ha. destruct Ha as [Ha He].
    apply filter_In in Ha. destruct Ha as [Ha Hp].
    unfold is_peak in Hp. destruct (gt_thr t0 _) eqn:Eg; [|discriminate].
    apply gt_thr_iff in Eg. pose proof (thr_nonneg t0 Et) as Ht.
    assert (Hnz : mslice P im bx pos (background P pos known) a <> 0).
    { intros E0. rewrite E0 in Eg. apply (Qlt_irrefl 0%Q). eapply Qle_lt_trans; [exact Ht|exact Eg]. }
    split; [exact Hnz|]. destruct (mslice_nonzero _ _ _ _ _ _ Hnz) as [Hin _].
    split; [rewrite (in_rng_length _ _ Hin); eapply slice_box_length; exact Eb|].
    split; [apply negb_true_iff in He; exact He|].
    apply existsb_exists in Hr. destruct Hr as [p [Hp1 Hp2]]. exists p. split; [exact Hp1|].
    unfold in_range. apply Z.leb_le. exact Hp2.
  Qed.

  (* (1a) every candidate is within search_range of one of the given positions *)
  Theorem cand_in_range : forall x, In x cands -> exists p, In p pos /\ in_range (fmet P) p (fst x).
  Proof.
    intros x Hx. destruct (cands_struct x Hx) as [bx [t0 [Eb [Et [Hk _]]]]].
    destruct (kept_props bx t0 (fst x) Eb Et Hk) as [_ [_ [_ H]]]. exact H.
  Qed.

  (* (1b) the masking argument: no candidate is closer than separation to ANY
     known point of the frame, provided the background query covers *)
  Theorem cand_far_from_known : bg_covers P ->
    forall x b, In x cands -> In b known -> far (fk P) (sepk P) (fst x) b.
  Proof.
    intros Hc x b Hx Hb. destruct (cands_struct x Hx) as [bx [t0 [Eb [Et [Hk _]]]]].
    destruct (kept_props bx t0 (fst x) Eb Et Hk) as [Hnz _].
    pose proof (slice_box_length _ _ _ _ Eb) as Lb.
    eapply masked_far_from_known; try eassumption; rewrite Lb; assumption.
  Qed.

  (* (1c) candidates are pairwise at least separation apart *)
  Theorem cands_pairwise_far : 0 < fk P -> 0 < sepk P ->
    forall x y, In x cands -> In y cands -> fst x <> fst y -> far (fk P) (sepk P) (fst x) (fst y).
  Proof.
    intros Hk Hs x y Hx Hy Hne.
    destruct (cands_struct x Hx) as [bx [t0 [Eb [Et [Hkx _]]]]].
    destruct (cands_struct y Hy) as [bx' [t0' [Eb' [Et' [Hky _]]]]].
    rewrite Eb in Eb'. inversion Eb'; subst bx'. rewrite Et in Et'. inversion Et'; subst t0'.
    destruct (kept_props bx t0 (fst x) Eb Et Hkx) as [_ [Lx _]].
    destruct (kept_props bx t0 (fst y) Eb Et Hky) as [_ [Ly _]].
    unfold far. destruct (Z_le_gt_dec (sepk P * sepk P) (fk P * fk P * sqd (fst x) (fst y))) as [H|H]; [exact H|].
    exfalso. unfold kept_of in Hkx, Hky.
    eapply (survivors_separated (map inject_Z)); [|exact Hkx|exact Hky|exact Hne|].
    - rewrite Forall_forall. intros s Hin. apply in_map_iff in Hin. destruct Hin as [_ [<- _]].
      unfold sepQ, Qeq. cbn. lia.
    - apply closer_iff; try assumption. lia.
  Qed.

  (* (1d) code as it is now: every candidate lies outside the margin and has a
     finite mass of at least minmass *)
  Theorem cand_margin_mass : fixed P = true ->
    forall x, In x cands -> off_margin sh (rad P) (fst x) /\
      exists v, snd x = Some v /\ (minmass P <= inject_Z v)%Q.
  Proof.
    intros Hf x Hx. destruct (cands_struct x Hx) as [bx [t0 [Eb [Et [Hk [_ Hm]]]]]].
    destruct (kept_props bx t0 (fst x) Eb Et Hk) as [_ [Lx [He _]]]. rewrite Hf in He.
    split.
    - apply near_edge_false in He; [|symmetry; exact Lx|rewrite map_length; symmetry; exact Lx].
      unfold outside_margin in He. unfold off_margin. clear - He.
      remember (map (fun _ : Z => rad P) sh) as mg eqn:Em.
      assert (Hall : Forall (fun m => m = rad P) mg).
      { subst mg. rewrite Forall_forall. intros m Hin. apply in_map_iff in Hin. destruct Hin as [_ [<- _]]. reflexivity. }
      clear Em. induction He; [constructor|]. inversion Hall; subst. constructor; [lia|apply IHHe; assumption].
    - specialize (Hm Hf). unfold mass_ok in Hm. destruct (snd x) as [v|]; [|discriminate].
      exists v. split; [reflexivity|]. apply Qle_bool_iff. exact Hm.
  Qed.

  Theorem cand_dim : forall x, In x cands -> length (fst x) = length sh.
  Proof.
    intros x Hx. destruct (cands_struct x Hx) as [bx [t0 [Eb [Et [Hk _]]]]].
    destruct (kept_props bx t0 (fst x) Eb Et Hk) as [_ [L _]]. exact L.
  Qed.
End Candidates.

(* ======================================= Part 2: the extended linking step *)
(* ---- merging subnets keeps them a partition of the sources ---- *)
Lemma filter_filter_and {A} (p q : A -> bool) l :
  filter q (filter p l) = filter (fun x => p x && q x) l.
Proof. induction l as [|x l IH]; cbn; [reflexivity|]. destruct (p x); cbn; [destruct (q x); cbn; congruence|exact IH]. Qed.

Lemma merge_pair_perm gs i j : Permutation (concat (merge_pair gs i j)) (concat gs).
Proof.
  unfold merge_pair.
  destruct (filter (fun g => negb (has_src i g) && has_src j g) gs) as [|g0 gj'] eqn:E; [apply Permutation_refl|].
  rewrite <- E. clear E. cbn [concat]. rewrite <- app_assoc.
  eapply Permutation_trans; [|apply (concat_filter_perm (has_src i) gs)].
  apply Permutation_app_head.
  rewrite <- !filter_filter_and.
  apply (concat_filter_perm (has_src j) (filter (fun g => negb (has_src i g)) gs)).
Qed.

Lemma fold_left_perm {A B} (f : list (list A) -> B -> list (list A)) (l : list B) :
  (forall gs x, Permutation (concat (f gs x)) (concat gs)) ->
  forall gs, Permutation (concat (fold_left f l gs)) (concat gs).
Proof.
  intros Hf. induction l as [|x l IH]; intros gs; cbn; [apply Permutation_refl|].
  eapply Permutation_trans; [apply IH|apply Hf].
Qed.

Lemma merge_lost_perm m pred st gs : Permutation (concat (merge_lost m pred st gs)) (concat gs).
Proof.
  unfold merge_lost. apply fold_left_perm. intros gs' i. apply fold_left_perm. intros gs'' j.
  destruct (_ <=? _); [apply merge_pair_perm|apply Permutation_refl].
Qed.

Lemma find_groups_perm m pred st ds :
  Permutation (concat (find_groups m pred st ds)) (items_of m pred st ds).
Proof.
  unfold find_groups. eapply Permutation_trans; [apply merge_lost_perm|].
  destruct (components_spec (items_of m pred st ds)) as [_ H]. exact H.
Qed.

(* ---- labels of a step from well-formed links (as Proofs/Labels.link_step_valid,
        for any destination list and any links that use each source once) ---- *)
Lemma apply_links_valid mem st D links st' labs :
  state_ok mem st -> links_wf st links ->
  apply_links mem st D links = (st', labs) ->
  state_ok mem st' /\ length labs = length D /\ NoDup labs /\ now st' = S (now st) /\
  (forall j lb, nth_error labs j = Some lb ->
     (next_id st <= lb)%nat \/
     exists i s c, nth_error (live st) i = Some s /\ s_lab s = lb /\ In (i, (Some j, c)) links).
Proof.
  intros Hst Hwf H. unfold apply_links in H.
  destruct (assign_labels st links (length D) 0 (next_id st)) as [ls f] eqn:Ea.
  inversion H; subst st' labs. clear H.
  destruct (assign_labels_spec _ _ _ _ _ _ _ Ea) as [HL [Hf Hn]].
  pose proof (assign_labels_nodup _ _ _ _ _ _ Hst Hwf Ea) as Hnd.
  destruct Hst as [Hlnd Hall]. rewrite Forall_forall in Hall.
  assert (Hchar : forall j lb, nth_error ls j = Some lb ->
     ((next_id st <= lb < f)%nat) \/
     exists i s c, nth_error (live st) i = Some s /\ s_lab s = lb /\ In (i, (Some j, c)) links).
  { intros j lb Hj. destruct (Hn j lb Hj) as [[Hr _]|[i [Hs Hy]]]; [left; exact Hr|right].
    cbn in Hs. destruct (source_of_in _ _ _ Hs) as [c Hc].
    pose proof (lw_dom _ _ Hwf _ _ Hc) as Hlt. apply nth_error_Some in Hlt.
    destruct (nth_error (live st) i) as [s|] eqn:Es; [|congruence].
    exists i, s, c. rewrite (lab_of_nth _ _ _ Es) in Hy. auto. }
  assert (Hlt : forall lb, In lb ls -> (lb < f)%nat).
  { intros lb Hin. apply In_nth_error in Hin. destruct Hin as [j Hj].
    destruct (Hchar j lb Hj) as [Hr|[i [s [c [Hns [Hlab _]]]]]]; [lia|].
    destruct (Hall s (nth_error_In _ _ Hns)) as [Hb _]. lia. }
  split; [|split; [exact HL|split; [exact Hnd|split; [reflexivity|]]]].
  - unfold state_ok. cbn [live now next_id]. split.
    + rewrite map_app, mk_srcs_labs by exact HL.
      apply NoDup_app_intro; [exact Hnd|apply remembered_nodup; exact Hlnd|].
      intros lb Hin1 Hin2. apply in_map_iff in Hin2. destruct Hin2 as [s [Hs Hin2]].
      destruct (remembered_spec _ _ _ _ _ _ Hin2) as [k [Hk [Hu _]]]. cbn in Hu.
      destruct (unlinked_in _ _ Hu) as [c0 Hc0].
      apply In_nth_error in Hin1. destruct Hin1 as [j Hj].
      destruct (Hchar j lb Hj) as [Hr|[i [s' [c [Hns [Hlab Hlk]]]]]].
      * destruct (Hall s (nth_error_In _ _ Hk)) as [Hb _]. lia.
      * assert (i = k) by (eapply (NoDup_map_nth s_lab); [exact Hlnd|exact Hns|exact Hk|congruence]). subst i.
        assert (Heq : (k, (Some j, c)) = (k, (None, c0))).
        { eapply (NoDup_map_inj fst); [exact (lw_nodup _ _ Hwf)|exact Hlk|exact Hc0|reflexivity]. }
        inversion Heq.
    + apply Forall_app. split; rewrite Forall_forall; intros s Hs.
      * destruct (mk_srcs_in _ _ _ _ Hs) as [Hin Hseen]. specialize (Hlt _ Hin). rewrite Hseen. lia.
      * destruct (remembered_spec _ _ _ _ _ _ Hs) as [k [Hk [_ Ht]]].
        destruct (Hall s (nth_error_In _ _ Hk)) as [Hb [Hs1 Hs2]]. lia.
  - intros j lb Hj. destruct (Hchar j lb Hj) as [Hr|Hr]; [left; lia|right; exact Hr].
Qed.

Section Step.
  Variables (m : metric) (max_size : nat) (pred : nat -> src -> pt) (rel : reloc_fn)
            (st : lstate) (ds : list pt).
  Hypothesis Hm : metric_ok m.

  Definition pos_of (g : group) : list pt := map (fun it : item => src_pos pred st (fst it)) g.
  (* the points a subnet adds to the frame, given what was added before it *)
  Definition new_of (g : group) (added : list pt) : list pt :=
    if (0 <? shortage g)%nat
    then filter (in_range_any m (pos_of g)) (rel (pos_of g) (ds ++ added) (shortage g))
    else [].

  Lemma ext_item_ok new base it : item_ok (ext_item m pred st ds new base it).
  Proof.
    unfold item_ok, ext_item. cbn [snd].
    set (sp := src_pos pred st (fst it)). set (rc := real_cands m sp ds 0 ++ real_cands m sp new base).
    assert (Hrc : forall d c, In (d, c) rc -> 0 <= c <= mR2 m).
    { intros d c Hin. destruct Hm as [Hw _]. unfold rc in Hin. apply in_app_or in Hin.
      destruct Hin as [Hin|Hin]; apply real_cands_spec in Hin; destruct Hin as [k [q [_ [_ [Hc Hr]]]]];
        (split; [subst c; apply d2w_nonneg; exact Hw|exact Hr]). }
    split; [|split].
    - apply sorted_app_last; [apply sort_c_sorted|]. rewrite Forall_forall. intros [d c] H.
      apply (Permutation_in _ (sort_c_perm _)) in H. cbn. apply (Hrc d c H).
    - rewrite Forall_forall. intros [d c] H. cbn. apply in_app_or in H. destruct H as [H|[H|[]]].
      + apply (Permutation_in _ (sort_c_perm _)) in H. apply (Hrc d c H).
      + inversion H; subst. destruct Hm as [_ HR]. exact HR.
    - exists (mR2 m). apply in_or_app. right. left. reflexivity.
  Qed.

  Lemma ext_fst new base g : map fst (map (ext_item m pred st ds new base) g) = map fst g.
  Proof. rewrite map_map. apply map_ext. intros it. reflexivity. Qed.

  Lemma group_step_spec a g a' :
    group_step m max_size pred rel st ds a g = Ok a' ->
    exists l, a_added a' = a_added a ++ new_of g (a_added a) /\ a_links a' = a_links a ++ l /\
              Permutation (map fst l) (map fst g).
  Proof.
    unfold group_step. fold (pos_of g). fold (new_of g (a_added a)).
    set (g' := map (ext_item m pred st ds (new_of g (a_added a)) (length ds + length (a_added a))) g).
    assert (Hok : Forall item_ok g').
    { unfold g'. rewrite Forall_forall. intros it Hin. apply in_map_iff in Hin. destruct Hin as [it0 [<- _]]. apply ext_item_ok. }
    destruct (solve_group_spec max_size g' Hok) as [_ Hk].
    destruct (solve_group max_size g') as [l|] eqn:E; [|discriminate].
    intros H. inversion H; subst a'. cbn. exists l. split; [reflexivity|]. split; [reflexivity|].
    destruct (Hk l eq_refl) as [pairs [Hl [Hp _]]]. subst l.
    rewrite strip_fst. unfold g' in Hp. rewrite <- (ext_fst (new_of g (a_added a)) (length ds + length (a_added a)) g).
    apply Permutation_map. exact Hp.
  Qed.

  Lemma groups_run_links : forall gs a a',
    groups_run m max_size pred rel st ds a gs = Ok a' ->
    exists l, a_links a' = a_links a ++ l /\ Permutation (map fst l) (map fst (concat gs)).
  Proof.
    induction gs as [|g gs IH]; intros a a' H; cbn in H.
    - inversion H; subst. exists []. rewrite app_nil_r. split; [reflexivity|constructor].
    - destruct (group_step m max_size pred rel st ds a g) as [a1|] eqn:E; [|discriminate].
      destruct (group_step_spec _ _ _ E) as [l1 [_ [Hl1 Hp1]]].
      destruct (IH _ _ H) as [l2 [Hl2 Hp2]]. exists (l1 ++ l2). split.
      + rewrite Hl2, Hl1, app_assoc. reflexivity.
      + cbn [concat]. rewrite !map_app. apply Permutation_app; assumption.
  Qed.

  (* invariants of the points added so far are carried through the subnets *)
  Lemma groups_run_inv (I : list pt -> Prop) : forall gs,
    (forall g added, In g gs -> I added -> I (added ++ new_of g added)) ->
    forall a a', I (a_added a) -> groups_run m max_size pred rel st ds a gs = Ok a' -> I (a_added a').
  Proof.
    induction gs as [|g gs IH]; intros Hstep a a' Ha H; cbn in H.
    - inversion H; subst. exact Ha.
    - destruct (group_step m max_size pred rel st ds a g) as [a1|] eqn:E; [|discriminate].
      destruct (group_step_spec _ _ _ E) as [l1 [Hadd _]].
      eapply IH; [|rewrite Hadd; apply Hstep; [left; reflexivity|exact Ha]|exact H].
      intros g0 added Hin. apply Hstep. right. exact Hin.
  Qed.

  Lemma items_valid it : In it (items_of m pred st ds) -> exists s, nth_error (live st) (fst it) = Some s.
  Proof.
    unfold items_of. intros H. apply mapi_from_in in H. destruct H as [i [s [Hn E]]]. subst it. cbn. exists s. exact Hn.
  Qed.

  Lemma new_of_source gs g added q :
    Permutation (concat gs) (items_of m pred st ds) -> In g gs -> In q (new_of g added) ->
    exists s, In s (live st) /\ in_range m (pred (now st) s) q.
  Proof.
    intros Hp Hg Hq. unfold new_of in Hq. destruct (0 <? shortage g)%nat; [|destruct Hq].
    apply filter_In in Hq. destruct Hq as [_ Hr]. unfold in_range_any in Hr.
    apply existsb_exists in Hr. destruct Hr as [p [Hpin Hle]]. unfold pos_of in Hpin.
    apply in_map_iff in Hpin. destruct Hpin as [it [Ep Hit]].
    assert (Hin : In it (items_of m pred st ds)).
    { eapply Permutation_in; [exact Hp|]. apply in_concat. exists g. split; assumption. }
    destruct (items_valid it Hin) as [s Hs]. exists s. split; [eapply nth_error_In; exact Hs|].
    unfold in_range. apply Z.leb_le. unfold src_pos in Ep. rewrite Hs in Ep. rewrite Ep. exact Hle.
  Qed.

  (* what the relocation oracle must deliver for separation to be preserved
     (Part 1 shows FindLinker's image search does): new points have the right
     dimension, satisfy [Good], are pairwise at least separation apart and at
     least separation away from every point known when it was called *)
  Definition rel_ok (n : nat) (k S : Z) (Good : pt -> Prop) : Prop :=
    forall pos known cnt,
      Forall (fun p => length p = n) pos -> Forall (fun b => length b = n) known ->
      let r := rel pos known cnt in
      NoDup r /\
      (forall q, In q r -> length q = n /\ Good q /\ forall b, In b known -> far k S q b) /\
      (forall q q', In q r -> In q' r -> q <> q' -> far k S q q').

  Lemma far_sym k S a b : far k S a b -> far k S b a.
  Proof. unfold far. rewrite (sqd_sym a b). auto. Qed.

  Lemma far_neq k S a b : 0 < S -> far k S a b -> a <> b.
  Proof.
    intros HS H E. subst b. unfold far in H.
    rewrite sqd_self in H. nia.
  Qed.

  Lemma separated_app k S l r : 0 < S ->
    separated k S l -> NoDup r ->
    (forall q q', In q r -> In q' r -> q <> q' -> far k S q q') ->
    (forall q b, In q r -> In b l -> far k S q b) ->
    separated k S (l ++ r).
  Proof.
    intros HS [Hn Hl] Hr Hrr Hrl. split.
    - apply NoDup_app_intro; [exact Hn|exact Hr|]. intros x H1 H2. exact (far_neq k S x x HS (Hrl x x H2 H1) eq_refl).
    - intros a b Ha Hb Hab. apply in_app_or in Ha, Hb. destruct Ha as [Ha|Ha], Hb as [Hb|Hb].
      + apply Hl; assumption.
      + apply far_sym. apply Hrl; assumption.
      + apply Hrl; assumption.
      + apply Hrr; assumption.
  Qed.

  Lemma NoDup_filter' {A} (p : A -> bool) l : NoDup l -> NoDup (filter p l).
  Proof. apply NoDup_filter. Qed.

  Section WithOracle.
    Variables (n : nat) (k S : Z) (Good : pt -> Prop).
    Hypothesis HS : 0 < S.
    Hypothesis Hrel : rel_ok n k S Good.
    Hypothesis Hds : Forall (fun p => length p = n) ds.
    Hypothesis Hsrc : forall s, In s (live st) -> length (pred (now st) s) = n.

    Lemma pos_of_dim gs g : Permutation (concat gs) (items_of m pred st ds) -> In g gs ->
      Forall (fun p => length p = n) (pos_of g).
    Proof.
      intros Hp Hg. rewrite Forall_forall. intros p Hin. unfold pos_of in Hin.
      apply in_map_iff in Hin. destruct Hin as [it [Ep Hit]].
      assert (Hin : In it (items_of m pred st ds)).
      { eapply Permutation_in; [exact Hp|]. apply in_concat. exists g. split; assumption. }
      destruct (items_valid it Hin) as [s Hs]. unfold src_pos in Ep. rewrite Hs in Ep. subst p.
      apply Hsrc. eapply nth_error_In; exact Hs.
    Qed.

    Definition frame_inv (added : list pt) : Prop :=
      separated k S (ds ++ added) /\ Forall (fun p => length p = n) added /\ Forall Good added.

    Lemma frame_inv_step gs g added :
      Permutation (concat gs) (items_of m pred st ds) -> In g gs ->
      frame_inv added -> frame_inv (added ++ new_of g added).
    Proof.
      intros Hp Hg [Hsep [Hdim Hgood]]. unfold new_of.
      destruct (0 <? shortage g)%nat; [|rewrite app_nil_r; split; [exact Hsep|split; assumption]].
      assert (Hk : Forall (fun b => length b = n) (ds ++ added)) by (apply Forall_app; split; assumption).
      destruct (Hrel (pos_of g) (ds ++ added) (shortage g) (pos_of_dim gs g Hp Hg) Hk) as [Hnd [Hq Hqq]].
      set (r := rel (pos_of g) (ds ++ added) (shortage g)) in *.
      split; [|split].
      - rewrite app_assoc. apply separated_app; [exact HS|exact Hsep|apply NoDup_filter; exact Hnd| |].
        + intros q q' H1 H2. apply filter_In in H1, H2. apply Hqq; tauto.
        + intros q b H1 H2. apply filter_In in H1. destruct (Hq q (proj1 H1)) as [_ [_ Hf]]. apply Hf. exact H2.
      - apply Forall_app. split; [exact Hdim|]. rewrite Forall_forall. intros q H1. apply filter_In in H1.
        destruct (Hq q (proj1 H1)) as [Hl _]. exact Hl.
      - apply Forall_app. split; [exact Hgood|]. rewrite Forall_forall. intros q H1. apply filter_In in H1.
        destruct (Hq q (proj1 H1)) as [_ [Hg' _]]. exact Hg'.
    Qed.
  End WithOracle.
End Step.

(* ---- FindLinker's image search is an admissible relocation oracle ---- *)
Lemma image_reloc_ok P im t :
  bg_covers P -> fixed P = true -> (forall t0, t = Some t0 -> (0 <= t0)%Q) ->
  rel_ok (image_reloc P im t) (length (shape im)) (fk P) (sepk P) (off_margin (shape im) (rad P)).
Proof.
  intros Hc Hf Ht pos known cnt Hpos Hknown r. unfold r, image_reloc, relocate.
  pose proof Hc as [Hk [Hs _]].
  assert (Hin : forall q, In q (map fst (firstn cnt (relocate_cands P im t pos known))) ->
                          exists x, In x (relocate_cands P im t pos known) /\ fst x = q).
  { intros q Hq. apply in_map_iff in Hq. destruct Hq as [x [E Hx]]. exists x. split; [eapply firstn_incl; exact Hx|exact E]. }
  split; [apply nodup_map_firstn, cands_nodup|]. split.
  - intros q Hq. destruct (Hin q Hq) as [x [Hx <-]]. split; [|split].
    + exact (cand_dim P im t pos known Ht x Hx).
    + exact (proj1 (cand_margin_mass P im t pos known Ht Hf x Hx)).
    + intros b Hb. exact (cand_far_from_known P im t pos known Ht Hpos Hknown Hc x b Hx Hb).
  - intros q q' Hq Hq' Hne. destruct (Hin q Hq) as [x [Hx <-]]. destruct (Hin q' Hq') as [x' [Hx' <-]].
    exact (cands_pairwise_far P im t pos known Ht Hk Hs x x' Hx Hx' Hne).
Qed.

(* ---- one step ---- *)
Section StepTheorems.
  Variables (m : metric) (mem max_size : nat) (pred : nat -> src -> pt).
  Hypothesis Hm : metric_ok m.

  (* labels: for EVERY relocation oracle *)
  Theorem find_step_labels rel st ds st' labs D :
    state_ok mem st ->
    find_step m mem max_size pred rel st ds = Ok (st', labs, D) ->
    state_ok mem st' /\ now st' = S (now st) /\ length labs = length D /\ NoDup labs /\
    exists added, D = ds ++ added /\
      forall q, In q added -> exists s, In s (live st) /\ in_range m (pred (now st) s) q.
  Proof.
    intros Hst H. unfold find_step in H.
    destruct (groups_run m max_size pred rel st ds {| a_added := []; a_links := [] |} (find_groups m pred st ds)) as [a|] eqn:E; [|discriminate].
    cbv zeta in H. destruct (apply_links mem st (ds ++ a_added a) (a_links a)) as [st1 labs1] eqn:Ea. inversion H; subst st1 labs1 D. clear H.
    pose proof (find_groups_perm m pred st ds) as Hp.
    destruct (groups_run_links m max_size pred rel st ds Hm _ _ _ E) as [l [Hl Hpl]]. cbn in Hl. subst l.
    assert (Hwf : links_wf st (a_links a)).
    { assert (Hseq : Permutation (map fst (a_links a)) (seq 0 (length (live st)))).
      { eapply Permutation_trans; [exact Hpl|]. eapply Permutation_trans; [apply Permutation_map; exact Hp|].
        unfold items_of. rewrite mapi_from_fst. apply Permutation_refl. }
      constructor.
      - eapply Permutation_NoDup; [apply Permutation_sym; exact Hseq|apply seq_NoDup].
      - intros i c Hin. assert (In i (seq 0 (length (live st)))).
        { eapply Permutation_in; [exact Hseq|]. change i with (fst (i, c)). apply in_map. exact Hin. }
        apply in_seq in H. lia. }
    destruct (apply_links_valid _ _ _ _ _ _ Hst Hwf Ea) as [H1 [H2 [H3 [H4 _]]]].
    split; [exact H1|split; [exact H4|split; [exact H2|split; [exact H3|]]]].
    exists (a_added a). split; [reflexivity|].
    apply (groups_run_inv m max_size pred rel st ds Hm
             (fun added => forall q, In q added -> exists s, In s (live st) /\ in_range m (pred (now st) s) q)
             (find_groups m pred st ds)) with (a := {| a_added := []; a_links := [] |}); [|intros q []|exact E].
    intros g added Hg IH q Hq. apply in_app_or in Hq. destruct Hq as [Hq|Hq]; [apply IH; exact Hq|].
    eapply new_of_source; eassumption.
  Qed.

  (* geometry: for an admissible oracle *)
  Theorem find_step_geometry rel st (ds : list pt) st' labs D n k S Good :
    0 < S -> rel_ok rel n k S Good ->
    Forall (fun p => length p = n) ds -> (forall s, In s (live st) -> length (pred (now st) s) = n) ->
    separated k S ds ->
    find_step m mem max_size pred rel st ds = Ok (st', labs, D) ->
    exists added, D = ds ++ added /\ separated k S D /\
                  Forall (fun p => length p = n) added /\ Forall Good added.
  Proof.
    intros HS Hrel Hds Hsrc Hsep H. unfold find_step in H.
    destruct (groups_run m max_size pred rel st ds {| a_added := []; a_links := [] |} (find_groups m pred st ds)) as [a|] eqn:E; [|discriminate].
    cbv zeta in H. destruct (apply_links mem st (ds ++ a_added a) (a_links a)) as [st1 labs1] eqn:Ea. inversion H; subst. clear H.
    pose proof (find_groups_perm m pred st ds) as Hp.
    exists (a_added a). split; [reflexivity|].
    assert (Hinv : frame_inv ds n k S Good (a_added a)).
    { apply (groups_run_inv m max_size pred rel st ds Hm (frame_inv ds n k S Good) (find_groups m pred st ds))
        with (a := {| a_added := []; a_links := [] |}); [| |exact E].
      - intros g added Hg IH. eapply frame_inv_step; eassumption.
      - unfold frame_inv. cbn. rewrite app_nil_r. split; [exact Hsep|split; constructor]. }
    destruct Hinv as [H1 [H2 H3]]. auto.
  Qed.
End StepTheorems.

(* ---- whole movies (no predictor) ---- *)
Lemma mk_srcs_pos t labs ds s : In s (mk_srcs t labs ds) -> In (s_pos s) ds.
Proof.
  revert ds; induction labs as [|lb labs IH]; intros [|d ds] H; cbn in H; try destruct H.
  - subst s. left. reflexivity.
  - right. apply IH. exact H.
Qed.

Lemma find_step_live m mem max_size pred rel st ds st' labs D :
  find_step m mem max_size pred rel st ds = Ok (st', labs, D) ->
  forall s, In s (live st') -> In (s_pos s) D \/ In s (live st).
Proof.
  intros H. unfold find_step in H.
  destruct (groups_run _ _ _ _ _ _ _ _) as [a|]; [|discriminate]. cbv zeta in H. unfold apply_links in H.
  destruct (assign_labels _ _ _ _ _) as [ls f]. inversion H; subst. clear H. cbn [live].
  intros s Hs. apply in_app_or in Hs. destruct Hs as [Hs|Hs].
  - left. eapply mk_srcs_pos. exact Hs.
  - right. destruct (remembered_spec _ _ _ _ _ _ Hs) as [i [Hi _]]. eapply nth_error_In. exact Hi.
Qed.

Section Run.
  Variables (m : metric) (mem max_size : nat) (n : nat) (k S : Z) (Good : pt -> Prop).
  Hypothesis Hm : metric_ok m.
  Hypothesis HS : 0 < S.

  (* one output frame (labels [labs], points [D]) of find_link, given the frames
     output before it [hist] and the points [ds] that were handed to the linker *)
  Definition frame_ok (hist : list (list pt)) (ds : list pt) (labs : list nat) (D : list pt) : Prop :=
    length labs = length D /\ NoDup labs /\            (* one label per feature, no label twice *)
    separated k S D /\                                  (* features at least separation apart *)
    exists added, D = ds ++ added /\                    (* the features the linker added *)
      Forall Good added /\                              (* are admissible (outside the margin) *)
      forall q, In q added ->                           (* and within search_range of a feature of a preceding frame *)
        exists D0 p, In D0 hist /\ In p D0 /\ in_range m p q.

  Fixpoint run_ok (hist : list (list pt)) (frames : list (list pt * reloc_fn))
           (out : list (list nat * list pt)) : Prop :=
    match frames, out with
    | [], [] => True
    | f :: frames', o :: out' => frame_ok hist (fst f) (fst o) (snd o) /\ run_ok (snd o :: hist) frames' out'
    | _, _ => False
    end.

  (* what is assumed of every input frame: the detected points have n coordinates and
     are separated (C06: grey_dilation precise=True; withholding keeps that), and the
     frame's relocation oracle is admissible (image_reloc_ok: FindLinker's is) *)
  Definition input_ok (f : list pt * reloc_fn) : Prop :=
    rel_ok (snd f) n k S Good /\ separated k S (fst f) /\ Forall (fun p => length p = n) (fst f).

  Definition st_inv (hist : list (list pt)) (st : lstate) : Prop :=
    state_ok mem st /\
    forall s, In s (live st) -> length (s_pos s) = n /\ exists D0, In D0 hist /\ In (s_pos s) D0.

  Theorem find_run_safe : forall frames hist st out,
    st_inv hist st -> Forall input_ok frames ->
    find_run m mem max_size no_pred st frames = Ok out -> run_ok hist frames out.
  Proof.
    induction frames as [|[ds rel] frames IH]; intros hist st out [Hst Hsrc] Hin H; cbn in H.
    - inversion H; subst. exact I.
    - destruct (find_step m mem max_size no_pred rel st ds) as [[[st' labs] D]|] eqn:E; [|discriminate].
      destruct (find_run m mem max_size no_pred st' frames) as [out'|] eqn:Er; [|discriminate].
      inversion H; subst out. clear H. inversion Hin as [|? ? [Hrel [Hsep Hdim]] Hin']; subst. cbn in Hrel, Hsep, Hdim.
      destruct (find_step_labels m mem max_size no_pred Hm rel st ds st' labs D Hst E) as [Hst' [_ [HL [Hnd [added [HD Hrange]]]]]].
      destruct (find_step_geometry m mem max_size no_pred Hm rel st ds st' labs D n k S Good HS Hrel Hdim
                  (fun s Hs => proj1 (Hsrc s Hs)) Hsep E) as [added' [HD' [HsepD [Hdim' Hgood]]]].
      assert (added' = added) by (rewrite HD in HD'; apply app_inv_head in HD'; congruence). subst added'.
      cbn [run_ok fst snd]. split.
      + unfold frame_ok. split; [exact HL|split; [exact Hnd|split; [exact HsepD|]]].
        exists added. split; [exact HD|split; [exact Hgood|]].
        intros q Hq. destruct (Hrange q Hq) as [s [Hs Hr]]. destruct (Hsrc s Hs) as [_ [D0 [HD0 Hp]]].
        exists D0, (s_pos s). auto.
      + apply (IH (D :: hist) st' out'); [|exact Hin'|exact Er]. split; [exact Hst'|].
        intros s Hs. destruct (find_step_live _ _ _ _ _ _ _ _ _ _ E s Hs) as [HsD|Hold].
        * split; [|exists D; split; [left; reflexivity|exact HsD]].
          rewrite HD in HsD. apply in_app_or in HsD. rewrite Forall_forall in Hdim, Hdim'.
          destruct HsD; [apply Hdim|apply Hdim']; assumption.
        * destruct (Hsrc s Hold) as [Hl [D0 [HD0 Hp]]]. split; [exact Hl|]. exists D0. split; [right; exact HD0|exact Hp].
  Qed.

  (* find_link on a movie: first frame [f0] (every feature starts a track), then the rest *)
  Theorem find_link_safe f0 rest out :
    Forall (fun p => length p = n) f0 -> Forall input_ok rest ->
    find_link_model m mem max_size no_pred f0 rest = Ok out ->
    exists labs0 out', out = (labs0, f0) :: out' /\ length labs0 = length f0 /\ NoDup labs0 /\
                       run_ok [f0] rest out'.
  Proof.
    intros Hdim Hin H. unfold find_link_model in H.
    destruct (init_state_ok mem f0) as [Hok Hlabs]. unfold init_state in *. cbn [fst snd] in *.
    destruct (find_run _ _ _ _ _ rest) as [out'|] eqn:Er; [|discriminate].
    inversion H; subst out. exists (seq 0 (length f0)), out'.
    split; [reflexivity|split; [apply seq_length|split; [apply seq_NoDup|]]].
    eapply find_run_safe; [|exact Hin|exact Er]. split; [exact Hok|].
    cbn [live]. intros s Hs. pose proof (mk_srcs_pos _ _ _ _ Hs) as Hp. split.
    - rewrite Forall_forall in Hdim. apply Hdim. exact Hp.
    - exists f0. split; [left; reflexivity|exact Hp].
  Qed.
End Run.

(* ================================= Part 3: the admissibility monitor is sound *)
Lemma nodup_b_sound l : nodup_b l = true -> NoDup l.
Proof.
  induction l as [|x l IH]; cbn; intros H; [constructor|].
  apply andb_true_iff in H. destruct H as [H1 H2]. constructor; [|apply IH; exact H2].
  intros Hin. apply negb_true_iff in H1.
  assert (existsb (Nat.eqb x) l = true) by (apply existsb_exists; exists x; split; [exact Hin|apply Nat.eqb_refl]).
  congruence.
Qed.

Lemma all_pairs_b_sound {A} (f : A -> A -> bool) l : all_pairs_b f l = true -> ForallOrdPairs (fun a b => f a b = true) l.
Proof.
  induction l as [|x l IH]; cbn; intros H; [constructor|].
  apply andb_true_iff in H. destruct H as [H1 H2]. constructor; [|apply IH; exact H2].
  rewrite forallb_forall in H1. rewrite Forall_forall. exact H1.
Qed.

Lemma fop_impl {A} (R1 R2 : A -> A -> Prop) l :
  (forall a b, R1 a b -> R2 a b) -> ForallOrdPairs R1 l -> ForallOrdPairs R2 l.
Proof.
  intros Hi H. induction H as [|a l Ha _ IH]; constructor; [|exact IH].
  rewrite Forall_forall in *. intros b Hb. apply Hi. apply Ha. exact Hb.
Qed.

Lemma outside_b_sound sh r : forall a, outside_b sh r a = true -> off_margin sh r a.
Proof.
  unfold off_margin. induction sh as [|n sh IH]; intros [|x a] H; cbn in H; try discriminate; [constructor|].
  apply andb_true_iff in H. destruct H as [H1 H2]. apply andb_true_iff in H1. destruct H1 as [H0 H1].
  constructor; [lia|apply IH; exact H2].
Qed.

Lemma existsb_false {A} (f : A -> bool) l : existsb f l = false -> forall x, In x l -> f x = false.
Proof.
  intros H x Hx. destruct (f x) eqn:E; [|reflexivity].
  assert (existsb f l = true) by (apply existsb_exists; exists x; auto). congruence.
Qed.

(* what the monitor establishes for one output frame of find_link, given the
   preceding output frames (most recent first) *)
Definition frame_admissible (mp : mparams) (prev_rev : list (list feat)) (fr : list feat) : Prop :=
  (* labels unique *)
  NoDup (map f_lab fr) /\
  (* every two features at least separation apart *)
  ForallOrdPairs (fun a b => far (m_k mp) (m_sepk mp) (f_pos a) (f_pos b)) fr /\
  (* every added feature is within search_range of a feature of one of the memory+1 preceding frames *)
  (forall a, In a fr -> f_added a = true ->
     exists fr0 b, In fr0 (firstn (S (m_mem mp)) prev_rev) /\ In b fr0 /\ in_range (m_met mp) (f_pos b) (f_pos a)) /\
  (* every feature lies outside the margin and has a finite mass >= minmass *)
  (forall a, In a fr -> off_margin (m_shape mp) (m_rad mp) (f_pos a) /\
                        exists v, f_mass a = Some v /\ (m_minmass mp <= v)%Q).

Fixpoint movie_admissible (mp : mparams) (prev_rev : list (list feat)) (frames : list (list feat)) : Prop :=
  match frames with
  | [] => True
  | fr :: rest => frame_admissible mp prev_rev fr /\ movie_admissible mp (fr :: prev_rev) rest
  end.

Theorem check_frame_sound mp prev_rev fr : check_frame mp prev_rev fr = 0%N -> frame_admissible mp prev_rev fr.
Proof.
  unfold check_frame, frame_admissible.
  destruct (nodup_b (map f_lab fr)) eqn:E1; cbn [negb]; [|discriminate].
  destruct (all_pairs_b _ fr) eqn:E2; cbn [negb]; [|discriminate].
  destruct (existsb (fun a => f_added a && negb (has_source mp (firstn (S (m_mem mp)) prev_rev) a)) fr) eqn:E3; [discriminate|].
  destruct (existsb (fun a => negb (outside_b (m_shape mp) (m_rad mp) (f_pos a))) fr) eqn:E4; [discriminate|].
  destruct (existsb (fun a => negb (feat_mass_ok (m_minmass mp) a)) fr) eqn:E5; [discriminate|].
  intros _. split; [apply nodup_b_sound; exact E1|]. split; [|split].
  - apply all_pairs_b_sound in E2. eapply fop_impl; [|exact E2].
    intros a b H. unfold far_b in H. apply Z.leb_le in H. exact H.
  - intros a Ha Hadd. pose proof (existsb_false _ _ E3 a Ha) as H. cbn in H. rewrite Hadd in H. cbn in H.
    apply negb_false_iff in H. unfold has_source in H. apply existsb_exists in H. destruct H as [fr0 [H0 H]].
    apply existsb_exists in H. destruct H as [b [Hb H]]. exists fr0, b. split; [exact H0|split; [exact Hb|]].
    unfold in_range. apply Z.leb_le. exact H.
  - intros a Ha. split.
    + pose proof (existsb_false _ _ E4 a Ha) as H. cbn in H. apply negb_false_iff in H. apply outside_b_sound. exact H.
    + pose proof (existsb_false _ _ E5 a Ha) as H. cbn in H. apply negb_false_iff in H.
      unfold feat_mass_ok in H. destruct (f_mass a) as [v|]; [|discriminate]. exists v. split; [reflexivity|].
      apply Qle_bool_iff. exact H.
Qed.

Theorem check_frames_sound mp : forall frames prev_rev,
  check_frames mp prev_rev frames = 0%N -> movie_admissible mp prev_rev frames.
Proof.
  induction frames as [|fr rest IH]; intros prev_rev H; cbn in *; [exact I|].
  destruct (check_frame mp prev_rev fr) eqn:E; [|discriminate].
  split; [apply check_frame_sound; exact E|apply IH; exact H].
Qed.

Theorem check_movie_sound mp frames : check_movie mp frames = 0%N -> movie_admissible mp [] frames.
Proof. apply check_frames_sound. Qed.

(* ============================ Part 4: the earlier variants are refuted *)
(* an image that is black except for a few pixels (row, column, value) *)
Definition spots (h w : Z) (sp : list (Z * Z * Z)) : image :=
  {| shape := [h; w];
     data := Node (map (fun i => Node (map (fun j =>
               Leaf (fold_right (fun s acc => if (fst (fst s) =? i) && (snd (fst s) =? j) then snd s else acc) 0 sp))
               (zint 0 (w - 1)))) (zint 0 (h - 1))) |}.

(* F12 (pinned code: bg_radius = slice_radius + radius + 1).  separation 9,
   diameter 5, search_range 3.5: a lost feature at (10,10), a bright pixel at
   (10,13), a known feature at (10,20) -- 10 px from the lost one, outside the old
   query radius 9 -- 7 px from the pixel.  The old radii accept the pixel; the
   present ones mask it. *)
Theorem separation_refuted_old_bg_radius :
  let P := mk_params 2 2 7 18 2 0 true true in
  let im := spots 24 24 [(10, 13, 100)] in
  In ([10; 13], Some 100) (relocate_cands P im (Some (Qmake 50 1)) [[10; 10]] [[10; 20]]) /\
  ~ far (fk P) (sepk P) [10; 13] [10; 20] /\
  ~ bg_covers P /\
  relocate_cands (mk_params 2 2 7 18 2 0 false true) im (Some (Qmake 50 1)) [[10; 10]] [[10; 20]] = [].
Proof.
  cbv zeta. split; [vm_compute; left; reflexivity|]. split; [unfold far; vm_compute; intros H; apply H; reflexivity|].
  split; [|vm_compute; reflexivity].
  unfold bg_covers. vm_compute. intros [_ [_ [_ H]]]. apply H. reflexivity.
Qed.

(* F16 (code before the last fix: edge rejection on slice-relative coordinates,
   argsort(mass)[::-1][:count]).  40x40 image, separation 9 (margin 4),
   search_range 5; lost features at (32,20) and (26,27); bright pixels at (36,20)
   -- inside the margin, 36 > 40-4-1 -- and (26,28).  The old code returns the
   margin pixel with NaN mass and drops the good one; the present code returns
   the good one. *)
Theorem margin_mass_refuted_old_edge_test :
  let im := spots 40 40 [(36, 20, 100); (26, 28, 100)] in
  relocate_cands (mk_params 2 1 5 9 4 0 false false) im (Some (Qmake 50 1)) [[32; 20]; [26; 27]] [] = [([36; 20], None)] /\
  ~ off_margin (shape im) 4 [36; 20] /\
  relocate_cands (mk_params 2 1 5 9 4 0 false true) im (Some (Qmake 50 1)) [[32; 20]; [26; 27]] [] = [([26; 28], Some 100)].
Proof.
  cbv zeta. split; [vm_compute; reflexivity|]. split; [|vm_compute; reflexivity].
  unfold off_margin. intros H. inversion H; subst. cbn in *. lia.
Qed.

(* ------------------------------------------------------------ non-vacuity *)
(* two features, both withheld in the second frame, both re-found by the model
   at their new positions and linked to their old labels *)
Example find_link_refinds :
  let P := mk_params 2 1 5 9 4 0 false true in
  let im := spots 40 40 [(33, 20, 100); (26, 28, 100)] in
  find_link_model (fmet P) 0 30 no_pred [[32; 20]; [26; 27]] [([], image_reloc P im (Some (Qmake 50 1)))]
  = Ok [([0; 1]%nat, [[32; 20]; [26; 27]]); ([0; 1]%nat, [[33; 20]; [26; 28]])].
Proof. vm_compute. reflexivity. Qed.
