(* C10, route T: the functions generated from the current trackpy/preprocessing.py and
   trackpy/masks.py (Gen/preproc.v) ARE the hand model the C10 theorems are about
   (Model/Bandpass.v), for every input, in 2-D and 3-D; and the headline theorems of
   Properties/C10.v restated for the generated py_bandpass. *)
From Coq Require Import ZArith QArith List Bool String Lia.
From TP Require Import Model.Bandpass Model.BandpassSpec Model.BandpassSpec3 Model.PyPreproc Model.BandpassGen
                       Gen.preproc Proofs.Bandpass Proofs.Bandpass3.
Import ListNotations.
Open Scope Q_scope.

(* ---------- masks.gaussian_kernel ------------------------------------------- *)
Lemma In_arange x lo n : In x (arange lo n) -> (lo <= x < lo + Z.of_nat n)%Z.
Proof.
  revert lo; induction n as [|n IH]; intros lo; cbn [arange In]; [tauto|].
  intros [->|Hin]; [lia|]. apply IH in Hin. lia.
Qed.

Lemma exp_table_nth np_exp s t x :
  (Z.abs x <= half_width s t)%Z ->
  nth (Z.abs_nat x) (exp_table np_exp s t) 0 = np_exp (exp_arg s x).
Proof.
  intros Hx. unfold exp_table.
  rewrite nth_map_seq by lia.
  unfold exp_arg. rewrite Zabs2Nat.id_abs.
  replace (Z.abs x ^ 2)%Z with (x ^ 2)%Z; [reflexivity|].
  rewrite !Z.pow_2_r. symmetry. apply Z.abs_square.
Qed.

Theorem gen_kernel_eq np_exp s t l :
  py_gaussian_kernel np_exp s t = kern t (axis_of np_exp t s l).
Proof.
  unfold py_gaussian_kernel, kern, Model.Bandpass.gaussian_kernel, axis_of. cbn [sigma expo].
  unfold py_int. fold (half_width s t). set (lw := half_width s t).
  assert (Ha : np_arange (Z.opp lw) (Z.add lw 1) = arange (- lw) (Z.to_nat (2 * lw + 1))).
  { unfold np_arange. f_equal. f_equal. lia. }
  rewrite Ha.
  assert (Hr : map (fun x_i => np_exp (py_div (inject_Z (x_i ^ 2)) (- (2) * s ^ 2))) (arange (- lw) (Z.to_nat (2 * lw + 1)))
             = map (fun xi => nth (Z.abs_nat xi) (exp_table np_exp s t) 0) (arange (- lw) (Z.to_nat (2 * lw + 1)))).
  { apply map_ext_in. intros x Hin. apply In_arange in Hin.
    rewrite exp_table_nth by (fold lw; lia). reflexivity. }
  rewrite Hr. reflexivity.
Qed.

Lemma kern_axis_of np_exp t p :
  expo p = exp_table np_exp (sigma p) t -> kern t p = py_gaussian_kernel np_exp (sigma p) t.
Proof.
  intros He. rewrite (gen_kernel_eq np_exp (sigma p) t (size p)).
  unfold kern, axis_of. cbn [sigma expo]. rewrite He. reflexivity.
Qed.

(* ---------- the two per-axis loops --------------------------------------------- *)
Definition tabled (np_exp : Q -> Q) (t : Q) (pars : list axis_par) : Prop :=
  forall p, In p pars -> expo p = exp_table np_exp (sigma p) t.

Lemma lowpass_fold {A} (nd : ndarray A) np_exp t pars k im :
  tabled np_exp t pars ->
  fold_left (py_lowpass_loop1 nd np_exp t) (enumerate_from k (map sigma pars)) im =
  fold_left (fun result ap => if Qlt_b 0 (sigma (snd ap))
                              then nd_along nd (gauss_filter (kern t (snd ap))) (fst ap) result else result)
            (enumerate_from k pars) im.
Proof.
  revert k im; induction pars as [|p pars IH]; intros k im Ht; [reflexivity|].
  cbn [map enumerate_from fold_left fst snd].
  rewrite IH by (intros q Hq; apply Ht; right; exact Hq).
  f_equal. unfold py_lowpass_loop1, py_gt, Qlt_b, scipy_correlate1d_constant0.
  rewrite (kern_axis_of np_exp t p) by (apply Ht; left; reflexivity).
  reflexivity.
Qed.

Lemma boxcar_fold {A} (nd : ndarray A) pars k im :
  fold_left (py_boxcar_loop1 nd) (enumerate_from k (map size pars)) im =
  fold_left (fun result ap => if (1 <? size (snd ap))%Z
                              then nd_along nd (box_filter (size (snd ap))) (fst ap) result else result)
            (enumerate_from k pars) im.
Proof.
  revert k im; induction pars as [|p pars IH]; intros k im; [reflexivity|].
  cbn [map enumerate_from fold_left fst snd]. rewrite IH. reflexivity.
Qed.

Lemma land1_odd x : negb (Z.eqb (Z.land x 1) 0) = Z.odd x.
Proof.
  change 1%Z with (Z.ones 1) at 1. rewrite Z.land_ones by lia. change (2 ^ 1)%Z with 2%Z.
  rewrite Zmod_odd. destruct (Z.odd x); reflexivity.
Qed.

Lemma all_odd pars :
  np_all_int (map (fun x => Z.land x 1) (map size pars)) = forallb (fun p => Z.odd (size p)) pars.
Proof.
  unfold np_all_int. induction pars as [|p pars IH]; [reflexivity|].
  cbn [map forallb]. rewrite IH, land1_odd. reflexivity.
Qed.

Lemma any_guard pars :
  np_any_bool (map (fun '(x, y) => py_ge x (inject_Z y)) (py_zip (map sigma pars) (map size pars))) = guard pars.
Proof.
  unfold np_any_bool, py_zip, guard. induction pars as [|p pars IH]; [reflexivity|].
  cbn [map combine existsb]. rewrite IH. reflexivity.
Qed.

(* ---------- validate_tuple ---------------------------------------------------------- *)
Lemma validate_length {T} (v : pyarg T) n l : validate_tuple v n = Ret l -> List.length l = n.
Proof.
  destruct v as [x|l']; cbn [validate_tuple].
  - intros E; inversion E. apply repeat_length.
  - destruct (Nat.eqb (List.length l') n) eqn:E; [|discriminate]. intros E'; inversion E'; subst.
    apply Nat.eqb_eq; exact E.
Qed.

Lemma validate_seq {T} (l : list T) n : List.length l = n -> validate_tuple (PySeq l) n = Ret l.
Proof. intros <-. cbn [validate_tuple]. rewrite Nat.eqb_refl. reflexivity. Qed.

(* ---------- lowpass, boxcar, bandpass over any array interface ----------------------- *)
Theorem gen_lowpass_seq {A} (nd : ndarray A) np_exp t pars im :
  List.length pars = nd_ndim nd -> tabled np_exp t pars ->
  py_lowpass nd np_exp im (PySeq (map sigma pars)) t = Ret (lowpass_g (nd_along nd) t pars im).
Proof.
  intros Hl Ht. unfold py_lowpass.
  rewrite validate_seq by (rewrite map_length; exact Hl). cbn [bind].
  unfold py_enumerate, np_array_float, lowpass_g. rewrite lowpass_fold by exact Ht. reflexivity.
Qed.

Theorem gen_boxcar_seq {A} (nd : ndarray A) pars im :
  List.length pars = nd_ndim nd ->
  py_boxcar nd im (PySeq (map size pars)) = res_of_option (boxcar_g (nd_along nd) pars im).
Proof.
  intros Hl. unfold py_boxcar.
  rewrite validate_seq by (rewrite map_length; exact Hl). cbn [bind].
  rewrite all_odd. unfold boxcar_g.
  destruct (negb (forallb (fun p => Z.odd (size p)) pars)); [reflexivity|].
  unfold py_enumerate, np_copy. rewrite boxcar_fold. reflexivity.
Qed.

Theorem gen_bandpass_seq {A} (nd : ndarray A) np_exp t pars thr dt im :
  List.length pars = nd_ndim nd -> tabled np_exp t pars ->
  py_bandpass nd np_exp im dt (PySeq (map sigma pars)) (PySeq (map size pars)) (Some thr) t =
  res_of_outcome (bandpass_g nd t pars thr im).
Proof.
  intros Hl Ht. unfold py_bandpass.
  rewrite !validate_seq by (rewrite map_length; exact Hl). cbn [bind].
  rewrite any_guard. unfold bandpass_g.
  destruct (guard pars); [reflexivity|].
  rewrite gen_boxcar_seq by exact Hl.
  destruct (boxcar_g (nd_along nd) pars im) as [bg|]; cbn [res_of_option bind]; [|reflexivity].
  rewrite gen_lowpass_seq by assumption. cbn [bind]. reflexivity.
Qed.

(* scalar or sequence arguments: what validate_tuple returns is what counts *)
Lemma py_bandpass_validated {A} (nd : ndarray A) np_exp im dt lshort llong ls ll thr t :
  validate_tuple lshort (nd_ndim nd) = Ret ls -> validate_tuple llong (nd_ndim nd) = Ret ll ->
  py_bandpass nd np_exp im dt lshort llong thr t = py_bandpass nd np_exp im dt (PySeq ls) (PySeq ll) thr t.
Proof.
  intros H1 H2. unfold py_bandpass. rewrite H1, H2.
  rewrite (validate_seq ls) by (eapply validate_length; exact H1).
  rewrite (validate_seq ll) by (eapply validate_length; exact H2). reflexivity.
Qed.

Lemma py_lowpass_validated {A} (nd : ndarray A) np_exp im sg ls t :
  validate_tuple sg (nd_ndim nd) = Ret ls ->
  py_lowpass nd np_exp im sg t = py_lowpass nd np_exp im (PySeq ls) t.
Proof.
  intros H1. unfold py_lowpass. rewrite H1.
  rewrite (validate_seq ls) by (eapply validate_length; exact H1). reflexivity.
Qed.

Lemma py_boxcar_validated {A} (nd : ndarray A) im sz ll :
  validate_tuple sz (nd_ndim nd) = Ret ll ->
  py_boxcar nd im sz = py_boxcar nd im (PySeq ll).
Proof.
  intros H1. unfold py_boxcar. rewrite H1.
  rewrite (validate_seq ll) by (eapply validate_length; exact H1). reflexivity.
Qed.

(* a sequence of the wrong length is rejected before anything else *)
Theorem gen_bandpass_bad_lshort {A} (nd : ndarray A) np_exp im dt lshort llong thr t m :
  validate_tuple lshort (nd_ndim nd) = RaiseValueError m ->
  py_bandpass nd np_exp im dt lshort llong thr t = RaiseValueError m.
Proof. intros H1. unfold py_bandpass. rewrite H1. reflexivity. Qed.

Theorem gen_bandpass_bad_llong {A} (nd : ndarray A) np_exp im dt lshort llong ls thr t m :
  validate_tuple lshort (nd_ndim nd) = Ret ls -> validate_tuple llong (nd_ndim nd) = RaiseValueError m ->
  py_bandpass nd np_exp im dt lshort llong thr t = RaiseValueError m.
Proof. intros H1 H2. unfold py_bandpass. rewrite H1, H2. reflexivity. Qed.

(* threshold=None: 1 for integer images, 1/255 for float images; an explicit threshold
   (0 included) is used as it is *)
Theorem gen_bandpass_threshold {A} (nd : ndarray A) np_exp im dt lshort llong thr t :
  py_bandpass nd np_exp im dt lshort llong thr t =
  py_bandpass nd np_exp im dt lshort llong (Some (effective_threshold dt thr)) t.
Proof. destruct thr as [x|]; [reflexivity|]. destruct dt; reflexivity. Qed.

Theorem gen_defaults :
  py_gaussian_kernel_default_truncate = 4 /\ py_lowpass_default_sigma = PyScalar 1 /\ py_lowpass_default_truncate = 4 /\
  py_bandpass_default_threshold = None /\ py_bandpass_default_truncate = 4.
Proof. repeat split. Qed.

(* ---------- 2-D and 3-D: the hand model's functions --------------------------------- *)
Lemma bandpass2_is_g t py px thr im : bandpass2 t py px thr im = bandpass_g nd2 t [py; px] thr im.
Proof.
  unfold bandpass2, bandpass2_pre, bandpass_g, boxcar2, lowpass2. cbn [nd_along nd_map nd_map2 nd2].
  destruct (guard [py; px]); [reflexivity|].
  destruct (boxcar_g along2 [py; px] im); reflexivity.
Qed.

Lemma bandpass3_is_g t pz py px thr im : bandpass3 t pz py px thr im = bandpass_g nd3 t [pz; py; px] thr im.
Proof.
  unfold bandpass3, bandpass3_pre, bandpass_g, boxcar3, lowpass3. cbn [nd_along nd_map nd_map2 nd3].
  destruct (guard [pz; py; px]); [reflexivity|].
  destruct (boxcar_g along3 [pz; py; px] im); reflexivity.
Qed.

Lemma tabled2 np_exp t sy sx ly lx : tabled np_exp t [axis_of np_exp t sy ly; axis_of np_exp t sx lx].
Proof. intros p [<-|[<-|[]]]; reflexivity. Qed.
Lemma tabled3 np_exp t sz sy sx lz ly lx :
  tabled np_exp t [axis_of np_exp t sz lz; axis_of np_exp t sy ly; axis_of np_exp t sx lx].
Proof. intros p [<-|[<-|[<-|[]]]]; reflexivity. Qed.

(* THE TIE, 2-D: the generated bandpass is the hand model's bandpass2 *)
Theorem gen_bandpass2_eq np_exp t lshort llong sy sx ly lx thr dt im :
  validate_tuple lshort 2 = Ret [sy; sx] -> validate_tuple llong 2 = Ret [ly; lx] ->
  py_bandpass nd2 np_exp im dt lshort llong thr t =
  res_of_outcome (bandpass2 t (axis_of np_exp t sy ly) (axis_of np_exp t sx lx) (effective_threshold dt thr) im).
Proof.
  intros H1 H2. rewrite gen_bandpass_threshold.
  rewrite (py_bandpass_validated nd2 np_exp im dt lshort llong [sy; sx] [ly; lx]) by assumption.
  rewrite bandpass2_is_g.
  exact (gen_bandpass_seq nd2 np_exp t [axis_of np_exp t sy ly; axis_of np_exp t sx lx] _ dt im eq_refl (tabled2 _ _ _ _ _ _)).
Qed.

Theorem gen_bandpass3_eq np_exp t lshort llong sz sy sx lz ly lx thr dt im :
  validate_tuple lshort 3 = Ret [sz; sy; sx] -> validate_tuple llong 3 = Ret [lz; ly; lx] ->
  py_bandpass nd3 np_exp im dt lshort llong thr t =
  res_of_outcome (bandpass3 t (axis_of np_exp t sz lz) (axis_of np_exp t sy ly) (axis_of np_exp t sx lx)
                            (effective_threshold dt thr) im).
Proof.
  intros H1 H2. rewrite gen_bandpass_threshold.
  rewrite (py_bandpass_validated nd3 np_exp im dt lshort llong [sz; sy; sx] [lz; ly; lx]) by assumption.
  rewrite bandpass3_is_g.
  exact (gen_bandpass_seq nd3 np_exp t [axis_of np_exp t sz lz; axis_of np_exp t sy ly; axis_of np_exp t sx lx] _ dt im
                          eq_refl (tabled3 _ _ _ _ _ _ _ _)).
Qed.

Theorem gen_lowpass2_eq np_exp t sg sy sx ly lx im :
  validate_tuple sg 2 = Ret [sy; sx] ->
  py_lowpass nd2 np_exp im sg t = Ret (lowpass2 t (axis_of np_exp t sy ly) (axis_of np_exp t sx lx) im).
Proof.
  intros H1. rewrite (py_lowpass_validated nd2 np_exp im sg [sy; sx]) by assumption.
  exact (gen_lowpass_seq nd2 np_exp t [axis_of np_exp t sy ly; axis_of np_exp t sx lx] im eq_refl (tabled2 _ _ _ _ _ _)).
Qed.

Theorem gen_lowpass3_eq np_exp t sg sz sy sx lz ly lx im :
  validate_tuple sg 3 = Ret [sz; sy; sx] ->
  py_lowpass nd3 np_exp im sg t =
  Ret (lowpass3 t (axis_of np_exp t sz lz) (axis_of np_exp t sy ly) (axis_of np_exp t sx lx) im).
Proof.
  intros H1. rewrite (py_lowpass_validated nd3 np_exp im sg [sz; sy; sx]) by assumption.
  exact (gen_lowpass_seq nd3 np_exp t [axis_of np_exp t sz lz; axis_of np_exp t sy ly; axis_of np_exp t sx lx] im
                         eq_refl (tabled3 _ _ _ _ _ _ _ _)).
Qed.

Theorem gen_boxcar2_eq sz py px im :
  validate_tuple sz 2 = Ret [size py; size px] ->
  py_boxcar nd2 im sz = res_of_option (boxcar2 py px im).
Proof.
  intros H1. rewrite (py_boxcar_validated nd2 im sz [size py; size px]) by assumption.
  exact (gen_boxcar_seq nd2 [py; px] im eq_refl).
Qed.

Theorem gen_boxcar3_eq sz pz py px im :
  validate_tuple sz 3 = Ret [size pz; size py; size px] ->
  py_boxcar nd3 im sz = res_of_option (boxcar3 pz py px im).
Proof.
  intros H1. rewrite (py_boxcar_validated nd3 im sz [size pz; size py; size px]) by assumption.
  exact (gen_boxcar_seq nd3 [pz; py; px] im eq_refl).
Qed.

(* ---------- the headline theorems of C10, for the generated functions ----------------- *)
Lemma res_Ret {A} (r : outcome A) a : res_of_outcome r = Ret a -> r = Ok a.
Proof. destruct r; cbn [res_of_outcome]; intros E; inversion E; reflexivity. Qed.

Lemma res_scale {A} (r : outcome A) : res_of_outcome r = RaiseValueError MSG_SCALE <-> r = ErrScale.
Proof. destruct r; cbn [res_of_outcome]; split; intros E; try discriminate E; reflexivity. Qed.

(* the table the hand model reads IS np.exp at x**2/(-2*sigma**2) *)
Theorem gen_exp_table np_exp s t x :
  (Z.abs x <= half_width s t)%Z -> gtab (exp_table np_exp s t) x = np_exp (exp_arg s x).
Proof. exact (exp_table_nth np_exp s t x). Qed.

Theorem gen_kernel_is_gaussian np_exp (t s : Q) :
  0 <= t -> Qle_bool s 0 = false ->
  List.length (py_gaussian_kernel np_exp s t) = Z.to_nat (2 * gauss_hw t s + 1) /\
  forall x, (- gauss_hw t s <= x <= gauss_hw t s)%Z ->
    kf (py_gaussian_kernel np_exp s t) x == gauss_w t s (exp_table np_exp s t) x.
Proof.
  intros Ht Hs. rewrite (gen_kernel_eq np_exp s t 1).
  exact (kern_is_gaussian t (axis_of np_exp t s 1) Ht Hs).
Qed.

Section TwoD.
  Variable np_exp : Q -> Q.
  Variables (lshort : pyarg Q) (llong : pyarg Z) (sy sx : Q) (ly lx : Z).
  Hypothesis Hls : validate_tuple lshort 2 = Ret [sy; sx].
  Hypothesis Hll : validate_tuple llong 2 = Ret [ly; lx].

  Theorem gen_bandpass2_pointwise (H W : nat) (t : Q) :
    0 <= t -> (1 <= ly)%Z -> (1 <= lx)%Z ->
    forall (thr : option Q) (dt : np_dtype) (im out : img2),
    rect2 H W im -> py_bandpass nd2 np_exp im dt lshort llong thr t = Ret out ->
    rect2 H W out /\
    forall i j, (0 <= i < Z.of_nat H)%Z -> (0 <= j < Z.of_nat W)%Z ->
      px2 out i j == documented2 H W t sy sx (exp_table np_exp sy t) (exp_table np_exp sx t) ly lx (effective_threshold dt thr) im i j.
  Proof.
    intros Ht Hy Hx thr dt im out Hr Ho.
    rewrite (gen_bandpass2_eq np_exp t lshort llong sy sx ly lx thr dt im Hls Hll) in Ho. apply res_Ret in Ho.
    exact (bandpass2_pointwise H W t (axis_of np_exp t sy ly) (axis_of np_exp t sx lx) Ht Hy Hx _ im out Hr Ho).
  Qed.

  Theorem gen_bandpass2_sign (H W : nat) (t : Q) :
    0 <= t -> (1 <= ly)%Z -> (1 <= lx)%Z ->
    forall thr dt im out i j,
    rect2 H W im -> py_bandpass nd2 np_exp im dt lshort llong thr t = Ret out ->
    (0 <= i < Z.of_nat H)%Z -> (0 <= j < Z.of_nat W)%Z ->
    (px2 out i j == 0 \/ effective_threshold dt thr <= px2 out i j) /\
    (0 <= effective_threshold dt thr -> 0 <= px2 out i j) /\
    (px2 out i j < 0 <->
       effective_threshold dt thr <= difference2 H W t sy sx (exp_table np_exp sy t) (exp_table np_exp sx t) ly lx im i j /\
       difference2 H W t sy sx (exp_table np_exp sy t) (exp_table np_exp sx t) ly lx im i j < 0).
  Proof.
    intros Ht Hy Hx thr dt im out i j Hr Ho Hi Hj.
    rewrite (gen_bandpass2_eq np_exp t lshort llong sy sx ly lx thr dt im Hls Hll) in Ho. apply res_Ret in Ho.
    exact (bandpass2_sign H W t (axis_of np_exp t sy ly) (axis_of np_exp t sx lx) Ht Hy Hx _ im out i j Hr Ho Hi Hj).
  Qed.

  Theorem gen_bandpass2_homogeneous H W t c thr dt im out :
    0 <= t -> (1 <= ly)%Z -> (1 <= lx)%Z -> 0 < c ->
    rect2 H W im -> py_bandpass nd2 np_exp im dt lshort llong (Some thr) t = Ret out ->
    exists out', py_bandpass nd2 np_exp (scale2 c im) dt lshort llong (Some (c * thr)) t = Ret out' /\ rect2 H W out' /\
      forall i j, (0 <= i < Z.of_nat H)%Z -> (0 <= j < Z.of_nat W)%Z -> px2 out' i j == c * px2 out i j.
  Proof.
    intros Ht Hy Hx Hc Hr Ho.
    rewrite (gen_bandpass2_eq np_exp t lshort llong sy sx ly lx (Some thr) dt im Hls Hll) in Ho. apply res_Ret in Ho.
    destruct (bandpass2_homogeneous H W t (axis_of np_exp t sy ly) (axis_of np_exp t sx lx) c _ im out Ht Hy Hx Hc Hr Ho)
      as [out' [E R]].
    exists out'. split; [|exact R].
    rewrite (gen_bandpass2_eq np_exp t lshort llong sy sx ly lx (Some (c * thr)) dt (scale2 c im) Hls Hll).
    cbn [effective_threshold] in *. rewrite E. reflexivity.
  Qed.

  Theorem gen_bandpass2_guard t thr dt im :
    py_bandpass nd2 np_exp im dt lshort llong thr t = RaiseValueError MSG_SCALE <->
    (inject_Z ly <= sy \/ inject_Z lx <= sx).
  Proof.
    rewrite (gen_bandpass2_eq np_exp t lshort llong sy sx ly lx thr dt im Hls Hll), res_scale.
    exact (bandpass2_guard t (axis_of np_exp t sy ly) (axis_of np_exp t sx lx) _ im).
  Qed.

  Theorem gen_bandpass2_outcome t thr dt im :
    match py_bandpass nd2 np_exp im dt lshort llong thr t with
    | RaiseValueError m =>
        (m = MSG_SCALE /\ (inject_Z ly <= sy \/ inject_Z lx <= sx)) \/
        (m = MSG_ODD /\ (sy < inject_Z ly /\ sx < inject_Z lx) /\ (Z.odd ly = false \/ Z.odd lx = false))
    | Ret _ => (sy < inject_Z ly /\ sx < inject_Z lx) /\ Z.odd ly = true /\ Z.odd lx = true
    end.
  Proof.
    rewrite (gen_bandpass2_eq np_exp t lshort llong sy sx ly lx thr dt im Hls Hll).
    pose proof (bandpass2_outcome t (axis_of np_exp t sy ly) (axis_of np_exp t sx lx) (effective_threshold dt thr) im) as P.
    destruct (bandpass2 t (axis_of np_exp t sy ly) (axis_of np_exp t sx lx) (effective_threshold dt thr) im);
      cbn [res_of_outcome]; cbn [sigma size axis_of] in P; [exact P | left | right]; (split; [reflexivity | exact P]).
  Qed.
End TwoD.

(* transposing the image and exchanging the per-axis arguments transposes the result *)
Theorem gen_bandpass2_transpose np_exp H W t lshort llong lshortT llongT sy sx ly lx thr dt A B outA outB :
  validate_tuple lshort 2 = Ret [sy; sx] -> validate_tuple llong 2 = Ret [ly; lx] ->
  validate_tuple lshortT 2 = Ret [sx; sy] -> validate_tuple llongT 2 = Ret [lx; ly] ->
  0 <= t -> (1 <= ly)%Z -> (1 <= lx)%Z ->
  transposed2 H W A B ->
  py_bandpass nd2 np_exp A dt lshort llong thr t = Ret outA ->
  py_bandpass nd2 np_exp B dt lshortT llongT thr t = Ret outB ->
  rect2 H W outA /\ rect2 W H outB /\
  forall i j, (0 <= i < Z.of_nat H)%Z -> (0 <= j < Z.of_nat W)%Z -> px2 outB j i == px2 outA i j.
Proof.
  intros H1 H2 H3 H4 Ht Hy Hx HT HA HB.
  rewrite (gen_bandpass2_eq np_exp t lshort llong sy sx ly lx thr dt A H1 H2) in HA. apply res_Ret in HA.
  rewrite (gen_bandpass2_eq np_exp t lshortT llongT sx sy lx ly thr dt B H3 H4) in HB. apply res_Ret in HB.
  exact (bandpass2_transpose H W t (axis_of np_exp t sy ly) (axis_of np_exp t sx lx) _ A B outA outB Ht Hy Hx HT HA HB).
Qed.

(* ---------- the same for 3-D images ----------------------------------------------------- *)
Section ThreeD.
  Variable np_exp : Q -> Q.
  Variables (lshort : pyarg Q) (llong : pyarg Z) (sz sy sx : Q) (lz ly lx : Z).
  Hypothesis Hls : validate_tuple lshort 3 = Ret [sz; sy; sx].
  Hypothesis Hll : validate_tuple llong 3 = Ret [lz; ly; lx].

  Theorem gen_bandpass3_pointwise (D H W : nat) (t : Q) :
    0 <= t -> (1 <= lz)%Z -> (1 <= ly)%Z -> (1 <= lx)%Z ->
    forall (thr : option Q) (dt : np_dtype) (im out : img3),
    rect3 D H W im -> py_bandpass nd3 np_exp im dt lshort llong thr t = Ret out ->
    rect3 D H W out /\
    forall i j k, (0 <= i < Z.of_nat D)%Z -> (0 <= j < Z.of_nat H)%Z -> (0 <= k < Z.of_nat W)%Z ->
      px3 out i j k == documented3 D H W t sz sy sx (exp_table np_exp sz t) (exp_table np_exp sy t) (exp_table np_exp sx t)
                                   lz ly lx (effective_threshold dt thr) im i j k.
  Proof.
    intros Ht Hz Hy Hx thr dt im out Hr Ho.
    rewrite (gen_bandpass3_eq np_exp t lshort llong sz sy sx lz ly lx thr dt im Hls Hll) in Ho. apply res_Ret in Ho.
    exact (bandpass3_pointwise D H W t (axis_of np_exp t sz lz) (axis_of np_exp t sy ly) (axis_of np_exp t sx lx)
                               Ht Hz Hy Hx _ im out Hr Ho).
  Qed.

  Theorem gen_bandpass3_sign (D H W : nat) (t : Q) :
    0 <= t -> (1 <= lz)%Z -> (1 <= ly)%Z -> (1 <= lx)%Z ->
    forall thr dt im out i j k,
    rect3 D H W im -> py_bandpass nd3 np_exp im dt lshort llong thr t = Ret out ->
    (0 <= i < Z.of_nat D)%Z -> (0 <= j < Z.of_nat H)%Z -> (0 <= k < Z.of_nat W)%Z ->
    (px3 out i j k == 0 \/ effective_threshold dt thr <= px3 out i j k) /\
    (0 <= effective_threshold dt thr -> 0 <= px3 out i j k) /\
    (px3 out i j k < 0 <->
       effective_threshold dt thr <=
         difference3 D H W t sz sy sx (exp_table np_exp sz t) (exp_table np_exp sy t) (exp_table np_exp sx t) lz ly lx im i j k /\
       difference3 D H W t sz sy sx (exp_table np_exp sz t) (exp_table np_exp sy t) (exp_table np_exp sx t) lz ly lx im i j k < 0).
  Proof.
    intros Ht Hz Hy Hx thr dt im out i j k Hr Ho Hi Hj Hk.
    rewrite (gen_bandpass3_eq np_exp t lshort llong sz sy sx lz ly lx thr dt im Hls Hll) in Ho. apply res_Ret in Ho.
    exact (bandpass3_sign D H W t (axis_of np_exp t sz lz) (axis_of np_exp t sy ly) (axis_of np_exp t sx lx)
                          Ht Hz Hy Hx _ im out i j k Hr Ho Hi Hj Hk).
  Qed.

  Theorem gen_bandpass3_homogeneous D H W t c thr dt im out :
    0 <= t -> (1 <= lz)%Z -> (1 <= ly)%Z -> (1 <= lx)%Z -> 0 < c ->
    rect3 D H W im -> py_bandpass nd3 np_exp im dt lshort llong (Some thr) t = Ret out ->
    exists out', py_bandpass nd3 np_exp (scale3 c im) dt lshort llong (Some (c * thr)) t = Ret out' /\ rect3 D H W out' /\
      forall i j k, (0 <= i < Z.of_nat D)%Z -> (0 <= j < Z.of_nat H)%Z -> (0 <= k < Z.of_nat W)%Z ->
        px3 out' i j k == c * px3 out i j k.
  Proof.
    intros Ht Hz Hy Hx Hc Hr Ho.
    rewrite (gen_bandpass3_eq np_exp t lshort llong sz sy sx lz ly lx (Some thr) dt im Hls Hll) in Ho. apply res_Ret in Ho.
    destruct (bandpass3_homogeneous D H W t (axis_of np_exp t sz lz) (axis_of np_exp t sy ly) (axis_of np_exp t sx lx)
                                    c _ im out Ht Hz Hy Hx Hc Hr Ho) as [out' [E R]].
    exists out'. split; [|exact R].
    rewrite (gen_bandpass3_eq np_exp t lshort llong sz sy sx lz ly lx (Some (c * thr)) dt (scale3 c im) Hls Hll).
    cbn [effective_threshold] in *. rewrite E. reflexivity.
  Qed.

  Theorem gen_bandpass3_guard t thr dt im :
    py_bandpass nd3 np_exp im dt lshort llong thr t = RaiseValueError MSG_SCALE <->
    (inject_Z lz <= sz \/ inject_Z ly <= sy \/ inject_Z lx <= sx).
  Proof.
    rewrite (gen_bandpass3_eq np_exp t lshort llong sz sy sx lz ly lx thr dt im Hls Hll), res_scale.
    exact (bandpass3_guard t (axis_of np_exp t sz lz) (axis_of np_exp t sy ly) (axis_of np_exp t sx lx) _ im).
  Qed.

  Theorem gen_bandpass3_outcome t thr dt im :
    match py_bandpass nd3 np_exp im dt lshort llong thr t with
    | RaiseValueError m =>
        (m = MSG_SCALE /\ (inject_Z lz <= sz \/ inject_Z ly <= sy \/ inject_Z lx <= sx)) \/
        (m = MSG_ODD /\ (sz < inject_Z lz /\ sy < inject_Z ly /\ sx < inject_Z lx) /\
                        (Z.odd lz = false \/ Z.odd ly = false \/ Z.odd lx = false))
    | Ret _ => (sz < inject_Z lz /\ sy < inject_Z ly /\ sx < inject_Z lx) /\
               Z.odd lz = true /\ Z.odd ly = true /\ Z.odd lx = true
    end.
  Proof.
    rewrite (gen_bandpass3_eq np_exp t lshort llong sz sy sx lz ly lx thr dt im Hls Hll).
    pose proof (bandpass3_outcome t (axis_of np_exp t sz lz) (axis_of np_exp t sy ly) (axis_of np_exp t sx lx)
                                  (effective_threshold dt thr) im) as P.
    destruct (bandpass3 t (axis_of np_exp t sz lz) (axis_of np_exp t sy ly) (axis_of np_exp t sx lx) (effective_threshold dt thr) im);
      cbn [res_of_outcome]; cbn [sigma size axis_of] in P; [exact P | left | right]; (split; [reflexivity | exact P]).
  Qed.
End ThreeD.

(* numpy's .T on a 3-D array reverses the axis order *)
Theorem gen_bandpass3_transpose np_exp D H W t lshort llong lshortT llongT sz sy sx lz ly lx thr dt A B outA outB :
  validate_tuple lshort 3 = Ret [sz; sy; sx] -> validate_tuple llong 3 = Ret [lz; ly; lx] ->
  validate_tuple lshortT 3 = Ret [sx; sy; sz] -> validate_tuple llongT 3 = Ret [lx; ly; lz] ->
  0 <= t -> (1 <= lz)%Z -> (1 <= ly)%Z -> (1 <= lx)%Z ->
  transposed3 D H W A B ->
  py_bandpass nd3 np_exp A dt lshort llong thr t = Ret outA ->
  py_bandpass nd3 np_exp B dt lshortT llongT thr t = Ret outB ->
  rect3 D H W outA /\ rect3 W H D outB /\
  forall i j k, (0 <= i < Z.of_nat D)%Z -> (0 <= j < Z.of_nat H)%Z -> (0 <= k < Z.of_nat W)%Z ->
    px3 outB k j i == px3 outA i j k.
Proof.
  intros H1 H2 H3 H4 Ht Hz Hy Hx HT HA HB.
  rewrite (gen_bandpass3_eq np_exp t lshort llong sz sy sx lz ly lx thr dt A H1 H2) in HA. apply res_Ret in HA.
  rewrite (gen_bandpass3_eq np_exp t lshortT llongT sx sy sz lx ly lz thr dt B H3 H4) in HB. apply res_Ret in HB.
  exact (bandpass3_transpose D H W t (axis_of np_exp t sz lz) (axis_of np_exp t sy ly) (axis_of np_exp t sx lx) _ A B outA outB
                             Ht Hz Hy Hx HT HA HB).
Qed.
