(* Every subnet computed by [components] is connected: any two of its sources are
   joined by a chain of sources that pairwise compete for a destination.  Together
   with Comps.components_spec (no destination shared ACROSS subnets) the subnets are
   exactly the connected components of the candidate graph; so SubnetOversize is
   raised only for a group of mutually competing particles. *)
From Coq Require Import ZArith List Bool Lia Permutation.
From TP Require Import Model.Assign Model.Link Proofs.Opt Proofs.Comps.
Import ListNotations.

Definition touches (x y : item) : Prop := exists k, In k (reals (snd x)) /\ In k (reals (snd y)).

Inductive chain (g : group) : item -> item -> Prop :=
| ch_refl x : In x g -> chain g x x
| ch_step x y z : In x g -> In y g -> touches x y -> chain g y z -> chain g x z.

Definition connected (g : group) : Prop := forall x y, In x g -> In y g -> chain g x y.

Lemma touches_sym x y : touches x y -> touches y x.
Proof. intros [k [H1 H2]]. exists k; auto. Qed.

Lemma chain_trans g x y z : chain g x y -> chain g y z -> chain g x z.
Proof. induction 1 as [x Hx|x y' z' Hx Hy Ht _ IH]; intros H; [exact H|]. eapply ch_step; eauto. Qed.

Lemma chain_in_l g x y : chain g x y -> In x g.
Proof. destruct 1; assumption. Qed.
Lemma chain_in_r g x y : chain g x y -> In y g.
Proof. induction 1; assumption. Qed.

Lemma chain_sym g x y : chain g x y -> chain g y x.
Proof.
  induction 1 as [x Hx|x y' z' Hx Hy Ht Hc IH]; [constructor; exact Hx|].
  eapply chain_trans; [exact IH|]. eapply ch_step; [exact Hy|exact Hx|apply touches_sym; exact Ht|constructor; exact Hx].
Qed.

Lemma chain_mono g g' x y : incl g g' -> chain g x y -> chain g' x y.
Proof. intros Hi. induction 1 as [x Hx|x y' z' Hx Hy Ht _ IH]; [constructor; auto|eapply ch_step; eauto]. Qed.

Lemma shares_true a b : shares a b = true -> exists k, In k a /\ In k b.
Proof.
  unfold shares. intros H. apply existsb_exists in H. destruct H as [k [Ha Hb]].
  apply existsb_exists in Hb. destruct Hb as [k' [Hb E]]. apply Nat.eqb_eq in E. subst k'. exists k; auto.
Qed.

Lemma gdests_in k g : In k (gdests g) -> exists y, In y g /\ In k (reals (snd y)).
Proof. unfold gdests. intros H. apply in_flat_map in H. exact H. Qed.

Lemma add_item_connected gs x :
  Forall connected gs -> Forall connected (add_item gs x).
Proof.
  intros Hc. unfold add_item. set (p := fun g => shares (reals (snd x)) (gdests g)).
  constructor.
  - (* the new group: x together with every group it touches *)
    set (new := x :: concat (filter p gs)).
    assert (Hx : In x new) by (left; reflexivity).
    (* every member is chained to x *)
    assert (Hto : forall a, In a new -> chain new a x).
    { intros a [Ha|Ha]; [subst a; constructor; exact Hx|].
      apply in_concat in Ha. destruct Ha as [t [Ht Hat]]. apply filter_In in Ht. destruct Ht as [Htgs Hpt].
      destruct (shares_true _ _ Hpt) as [k [Hkx Hkt]]. destruct (gdests_in _ _ Hkt) as [y [Hyt Hky]].
      rewrite Forall_forall in Hc. pose proof (Hc t Htgs a y Hat Hyt) as Hay.
      assert (Hincl : incl t new).
      { intros z Hz. right. apply in_concat. exists t. split; [apply filter_In; split; assumption|exact Hz]. }
      eapply chain_trans; [eapply chain_mono; [exact Hincl|exact Hay]|].
      eapply ch_step; [apply Hincl; exact Hyt|exact Hx| |constructor; exact Hx].
      exists k; auto. }
    intros a b Ha Hb. eapply chain_trans; [apply Hto; exact Ha|apply chain_sym; apply Hto; exact Hb].
  - rewrite Forall_forall in *. intros g Hg. apply filter_In in Hg. destruct Hg as [Hg _]. apply Hc. exact Hg.
Qed.

Theorem components_connected items : Forall connected (components items).
Proof.
  unfold components.
  assert (Hgen : forall gs, Forall connected gs -> Forall connected (fold_left add_item items gs)).
  { induction items as [|x items IH]; intros gs H; cbn; [exact H|]. apply IH. apply add_item_connected. exact H. }
  apply Hgen. constructor.
Qed.
