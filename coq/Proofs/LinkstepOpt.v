(* Route T for the per-step bookkeeping of the Linker, part 4: WHOLE-STEP optimality of the
   GENERATED step (Gen/linkstep.v: Subnets(...) followed by Linker.assign_links, then apply_links).

     shortcut_one_one_opt   the one-source / one-destination shortcut of subnet_linker_recursive
                            (`return [source_set.pop()], [dest_set.pop()]`, no search) is optimal
                            PROVIDED every accepted candidate costs at most the null link
                            (dist**2 <= search_range**2, [bounded]).  The KD-tree accepts candidates up
                            to search_range + 1e-7: [shortcut_not_opt_without_bound] is the concrete
                            world in which a candidate in that slack is linked by the shortcut
                            although leaving the source unlinked is cheaper.
     entry_spec             one dictionary entry, ANY shape (the two reachable shortcuts and the
                            general path of Proofs/LinkstepGen2.gen_entry_solve): raises
                            SubnetOversizeException iff the entry has more than MAX_SUB_NET_SIZE
                            sources, raises nothing else, otherwise returns an [is_opt] block
     entries_spec           the loop over the dictionary, for any dictionary order
     Section InvFacts       the partition facts of the dictionary invariant Inv (Proofs/SubnetMerge.v)
                            in the form the loop needs: source sets / destination sets of the entries
                            disjoint and covering, a source-less entry is one destination, the
                            candidates of a source point into its own entry
     assign_links_opt       Subnets(...) ; assign_links on ANY query result whose costs lie in
                            [0, search_range**2]: optimal over the items read off the query
                            (per-entry optima composed with Opt.is_opt_concat)
     query_exact / query_ok / gen_real_cands / qitems_items_of
                            the explicit hypothesis on the KD-tree primitive (for every destination:
                            exactly the sources within range, each once, at their squared distance;
                            query_ok adds "nearest first") and what it gives: forward_cands =
                            Model.Link.real_cands, the items read off q = Model.Link.items_of
     oversize_components    an entry with more than ms >= 1 sources <-> a group of Model.Link.components
                            with more than ms sources
     gen_step_optimal       the headline (C02_generated_step_optimal)
     gen_next_level_optimal the same through apply_links: labels and memory of the whole next_level *)
From Coq Require Import ZArith List Bool Arith Lia Permutation.
From TP Require Import Model.Assign Model.Link Model.MemQueue Model.SubnetMerge Model.PyLinker Gen.linker_core
     Model.PyLinkstep Gen.linkstep Proofs.BnB Proofs.Opt Proofs.Cands Proofs.Comps Proofs.Step Proofs.SubnetMerge
     Proofs.LinkerGen Proofs.LinkstepGen Proofs.LinkstepGen2 Proofs.LinkstepApply.
Import ListNotations.
Local Open Scope Z_scope.

(* ================= the generated candidate sort is the model's ================= *)
Lemma insert_cost_c x l : insert_cost x l = insert_c x l.
Proof.
  induction l as [|y l IH]; cbn [insert_cost insert_c]; [reflexivity|]. rewrite IH.
  destruct (Z.leb_spec (snd x) (snd y)), (Z.ltb_spec (snd y) (snd x)); try reflexivity; lia.
Qed.
Lemma sort_cands_c l : sort_cands l = sort_c l.
Proof. unfold sort_cands, sort_c. induction l as [|x l IH]; cbn [fold_right]; [reflexivity|]. rewrite IH. apply insert_cost_c. Qed.

Lemma sort_cands_perm l : Permutation (sort_cands l) l.
Proof. rewrite sort_cands_c. apply sort_c_perm. Qed.

(* candidates with cost in [0, R2]: "every accepted candidate costs at most the null link" *)
Definition bounded (R2 : Z) (l : list cand) : Prop := Forall (fun dc : cand => 0 <= snd dc <= R2) l.

Lemma raw_sorted R2 l : bounded R2 l -> sorted (sort_cands l ++ [(None, R2)]).
Proof.
  intros H. rewrite sort_cands_c. apply sorted_app_last; [apply sort_c_sorted|].
  unfold bounded in H. rewrite Forall_forall in *. intros dc Hdc. cbn.
  apply (Permutation_in _ (sort_c_perm l)) in Hdc. apply H in Hdc. lia.
Qed.

Lemma raw_item_ok s R2 l : 0 <= R2 -> bounded R2 l -> item_ok (s, sort_cands l ++ [(None, R2)]).
Proof.
  intros HR H. unfold item_ok. cbn [snd]. split; [apply raw_sorted; exact H|]. split.
  - apply Forall_app. split.
    + unfold bounded in H. rewrite Forall_forall in *. intros dc Hdc.
      apply (Permutation_in _ (sort_cands_perm l)) in Hdc. apply H in Hdc. lia.
    + constructor; [exact HR|constructor].
  - exists R2. apply in_or_app. right. left. reflexivity.
Qed.

(* ================= (a) the shortcut returns ================= *)
(* one source, one candidate chosen: optimal when the chosen candidate is the cheapest of the source *)
Lemma is_opt_single (it : item) (c0 : cand) :
  In c0 (snd it) -> (forall c, In c (snd it) -> snd c0 <= snd c) -> is_opt [it] [(it, c0)].
Proof.
  intros Hin Hmin. split; [apply Permutation_refl|]. split.
  - split; [constructor; [exact Hin|constructor]|].
    cbn. destruct c0 as [[k|] c]; cbn; [constructor; [intros []|constructor]|constructor].
  - intros l' Hp [HF _]. apply Permutation_sym, Permutation_length_1_inv in Hp.
    destruct l' as [|p [|p' l']]; cbn in Hp; try discriminate. inversion Hp; subst it.
    inversion HF; subst. unfold ptotal. cbn. specialize (Hmin _ H1). lia.
Qed.

(* the head of a sorted list is its cheapest element *)
Lemma sorted_head_min c0 r : sorted (c0 :: r) -> forall c, In c (c0 :: r) -> snd c0 <= snd c.
Proof.
  intros H c [<-|Hc]; [lia|]. apply sorted_inv in H. destruct H as [H _]. rewrite Forall_forall in H. apply H. exact Hc.
Qed.

(* THE ONE-ONE SHORTCUT.  A source whose candidates (non-empty) all point at the one destination d and
   all cost at most the null link: linking it to d at its cheapest candidate is optimal. *)
Theorem shortcut_one_one_opt (s d : nat) (R2 : Z) (l : list cand) :
  l <> [] -> bounded R2 l -> (forall dc, In dc l -> fst dc = Some d) ->
  exists c, In (Some d, c) l /\
    is_opt [(s, sort_cands l ++ [(None, R2)])] [((s, sort_cands l ++ [(None, R2)]), (Some d, c))].
Proof.
  intros Hne Hb Hd.
  pose proof (raw_sorted R2 l Hb) as Hs. pose proof (sort_cands_perm l) as Hp.
  destruct (sort_cands l) as [|c0 r] eqn:E.
  - apply Permutation_nil in Hp. congruence.
  - assert (H0 : In c0 l) by (apply (Permutation_in _ Hp); left; reflexivity).
    pose proof (Hd c0 H0) as Hf. destruct c0 as [d0 c]. cbn in Hf. subst d0.
    exists c. split; [exact H0|]. apply is_opt_single.
    + cbn. left. reflexivity.
    + cbn [snd app]. apply sorted_head_min. exact Hs.
Qed.

(* a destination without source starts a trajectory: no pair, trivially optimal (Opt.is_opt_nil) *)

(* WITHOUT the bound the shortcut link is not optimal: search_range**2 = 25, the query accepts source 0
   for destination 0 at squared distance 26 (inside the KD-tree's slack).  The generated assign_links
   links them through the shortcut; leaving the source unlinked costs 25 < 26. *)
Definition slack_world : lk :=
  mk_lk [{| s_lab := 0; s_pos := [0]; s_seen := 0 |}] [[0]] 1 [] {| subs := []; ssub := []; dsub := [] |} false
        [] [] [[]] 1 1 30 25.
Definition slack_query : kdq := [[(0%nat, 26)]].
Definition slack_item : item := (0%nat, [(Some 0%nat, 26); (None, 25)]).

Example shortcut_not_opt_without_bound :
  (exists w1 w2, py_Subnets_init slack_query slack_world = FDone w1 tt /\
                 get_forward_cands w1 0 = [(Some 0%nat, 26)] /\
                 py_Linker_assign_links (fun l => l) w1 = FDone w2 ([Some 0%nat], [Some 0%nat]))
  /\ ~ is_opt [slack_item] [(slack_item, (Some 0%nat, 26))].
Proof.
  split.
  - eexists. eexists. split; [vm_compute; reflexivity|]. split; vm_compute; reflexivity.
  - intros (_ & _ & Hmin).
    specialize (Hmin [(slack_item, (None, 25))] (Permutation_refl _)).
    assert (Hok : pairs_ok [(slack_item, (None, 25))]).
    { split; [constructor; [cbn; right; left; reflexivity|constructor]|cbn; constructor]. }
    specialize (Hmin Hok). vm_compute in Hmin. apply Hmin. reflexivity.
Qed.

(* ================= one dictionary entry, any shape ================= *)
(* what an entry (source_set, dest_set) must satisfy in world w; all of it follows from the dictionary
   invariant (inv_entries below) and the cost bound on the query result *)
Definition entry_ok (w : lk) (e : sets) : Prop :=
  NoDup (fst e) /\ snd e <> [] /\ (fst e = [] -> length (snd e) = 1%nat) /\
  (forall s, In s (fst e) -> get_forward_cands w s <> [] /\ bounded (k_R2 w) (get_forward_cands w s) /\
      forall dc, In dc (get_forward_cands w s) -> exists d, fst dc = Some d /\ In d (snd e)).

(* the (sources, destinations) a subnet contributes: its links, then its unclaimed destinations *)
Definition blk_s (b : list pair_t * list nat) : LOL := links_src (map strip (fst b)) ++ map (fun _ => None) (snd b).
Definition blk_d (b : list pair_t * list nat) : LOL := links_dst (map strip (fst b)) ++ map Some (snd b).
Definition blk_ok (w : lk) (e : sets) (b : list pair_t * list nat) : Prop :=
  is_opt (map (raw_item w) (fst e)) (fst b) /\
  Permutation (snd b) (nset_diff (snd e) (somes (links_dst (map strip (fst b))))).

Lemma sort_loop_frame ord w S : (forall l, Permutation (ord l) l) -> NoDup S ->
  same_frame w (sort_loop ord w S) /\ k_mst (sort_loop ord w S) = k_mst w /\
  forall s, ~ In s S -> get_forward_cands (sort_loop ord w S) s = get_forward_cands w s.
Proof.
  intros Hord Hn. pose proof (nodup_ord ord Hord S Hn) as Hno.
  destruct (fc_upd_fold sort_cands (ord S) w Hno) as (F & M & C). cbn zeta in *. fold (sort_loop ord w S) in F, M, C.
  split; [exact F|]. split; [exact M|]. intros s Hs. rewrite C, (existsb_ord ord Hord).
  destruct (existsb (Nat.eqb s) S) eqn:E; [|reflexivity].
  exfalso. apply Hs. apply existsb_exists in E. destruct E as [x [Hx Hsx]]. apply Nat.eqb_eq in Hsx. subst. exact Hx.
Qed.

Lemma ord_single (ord : list nat -> list nat) x : (forall l, Permutation (ord l) l) -> ord [x] = [x].
Proof. intros H. apply Permutation_length_1_inv. apply Permutation_sym, H. Qed.
Lemma ord_nil (ord : list nat -> list nat) : (forall l, Permutation (ord l) l) -> ord [] = [].
Proof. intros H. apply Permutation_nil. apply Permutation_sym, H. Qed.

Lemma length1 {A} (l : list A) : Nat.eqb (length l) 1 = true -> exists x, l = [x].
Proof. destruct l as [|x [|y l]]; cbn; try discriminate. intros _. exists x. reflexivity. Qed.

Section EntrySpec.
Variable ord : list nat -> list nat.
Hypothesis ord_perm : forall l, Permutation (ord l) l.

Theorem entry_spec (w : lk) (S Dd : list nat) :
  0 <= k_R2 w -> (1 <= k_max_size w)%nat -> entry_ok w (S, Dd) ->
  let r := py_subnet_linker_recursive ord (sort_loop ord w S) S Dd (k_R2 w) (k_max_size w) in
  ((k_max_size w < length S)%nat -> r = FFail XSubnetOversizeException) /\
  (~ (k_max_size w < length S)%nat ->
     exists w2 b, r = FDone w2 (blk_s b, blk_d b) /\ blk_ok w (S, Dd) b
       /\ same_frame w w2 /\ k_mst w2 = k_mst w
       /\ forall s, ~ In s S -> get_forward_cands w2 s = get_forward_cands w s).
Proof.
  intros HR Hms (Hnd & Hdne & Hs0 & Hfc) r. cbn [fst snd] in *.
  destruct (sort_loop_frame ord w S ord_perm Hnd) as (F1 & M1 & C1).
  destruct S as [|s S'].
  - (* no source: the destination starts a trajectory *)
    destruct (length1 Dd) as [d ->]; [rewrite (Hs0 eq_refl); reflexivity|].
    split; [cbn; lia|]. intros _.
    exists (sort_loop ord w []), ([], [d]). split.
    + subst r. unfold py_subnet_linker_recursive. cbn [length Nat.eqb andb].
      unfold set_pop, set_iter. rewrite (ord_single ord d ord_perm). reflexivity.
    + split; [split; [apply is_opt_nil|cbn; apply Permutation_refl]|].
      split; [exact F1|]. split; [exact M1|exact C1].
  - destruct (Nat.eqb (length (s :: S')) 1 && Nat.eqb (length Dd) 1) eqn:Hc2.
    + (* one source, one destination: the shortcut *)
      apply andb_true_iff in Hc2. destruct Hc2 as [H1 H2].
      destruct (length1 _ H1) as [s' E1]. inversion E1; subst s' S'. destruct (length1 _ H2) as [d ->].
      split; [cbn; lia|]. intros _.
      destruct (Hfc s (or_introl eq_refl)) as (Hne & Hb & Hd).
      destruct (shortcut_one_one_opt s d (k_R2 w) (get_forward_cands w s) Hne Hb) as (c & Hc & Hopt).
      { intros dc Hdc. destruct (Hd dc Hdc) as [d' [E [<-|[]]]]. exact E. }
      exists (sort_loop ord w [s]), ([(raw_item w s, (Some d, c))], []). split.
      * subst r. unfold py_subnet_linker_recursive. cbn [length Nat.eqb andb].
        unfold set_pop, set_iter. rewrite (ord_single ord d ord_perm), (ord_single ord s ord_perm). reflexivity.
      * split; [split; [exact Hopt|]|].
        -- cbn. rewrite Nat.eqb_refl. cbn. apply Permutation_refl.
        -- split; [exact F1|]. split; [exact M1|exact C1].
    + (* the general path *)
      assert (Hc3 : Nat.eqb (length (s :: S')) 1 && Nat.eqb (length Dd) 0 = false).
      { destruct Dd; [congruence|]. cbn. apply andb_false_r. }
      assert (Hok : Forall item_ok (map (raw_item w) (ord (s :: S')))).
      { rewrite Forall_forall. intros it Hit. apply in_map_iff in Hit. destruct Hit as [x [<- Hx]].
        apply (Permutation_in _ (ord_perm _)) in Hx. destruct (Hfc x Hx) as (_ & Hb & _).
        unfold raw_item. apply raw_item_ok; assumption. }
      assert (Hne : s :: S' <> []) by discriminate.
      destruct (gen_entry_solve ord ord_perm w (s :: S') Dd Hnd Hne Hc2 Hc3 Hok) as (w2 & E & F2 & M2 & C2).
      fold r in E.
      destruct (solve_group_spec (k_max_size w) (map (raw_item w) (ord (s :: S'))) Hok) as [Ho Hk].
      assert (Hl : length (map (raw_item w) (ord (s :: S'))) = length (s :: S')).
      { rewrite map_length. apply Permutation_length, ord_perm. }
      rewrite Hl in Ho.
      destruct (solve_group (k_max_size w) (map (raw_item w) (ord (s :: S')))) as [l|] eqn:Es.
      * split; [intros Hlt; apply Ho in Hlt; discriminate|]. intros _.
        destruct (Hk l eq_refl) as [pairs [-> Hopt]]. cbv zeta in E.
        exists w2, (pairs, set_iter ord (nset_diff Dd (somes (links_dst (map strip pairs))))).
        split; [exact E|]. split.
        -- split; [|apply ord_perm]. cbn [fst].
           eapply is_opt_perm; [|exact Hopt]. apply Permutation_map. apply ord_perm.
        -- split; [exact F2|]. split; [exact M2|]. intros x Hx. rewrite C2.
           destruct (existsb (Nat.eqb x) (s :: S')) eqn:Ex; [|reflexivity].
           exfalso. apply Hx. apply existsb_exists in Ex. destruct Ex as [y [Hy Hxy]]. apply Nat.eqb_eq in Hxy. subst. exact Hy.
      * split; [intros _; exact E|]. intros Hn. exfalso. apply Hn. apply Ho. reflexivity.
Qed.
End EntrySpec.

(* ================= the loop over the dictionary ================= *)
Section EntriesSpec.
Variable ord : list nat -> list nat.
Hypothesis ord_perm : forall l, Permutation (ord l) l.

Lemma entry_ok_transfer w0 w e :
  k_R2 w = k_R2 w0 -> (forall s, In s (fst e) -> get_forward_cands w s = get_forward_cands w0 s) ->
  entry_ok w0 e -> entry_ok w e.
Proof.
  intros HR Hfc (H1 & H2 & H3 & H4). split; [exact H1|]. split; [exact H2|]. split; [exact H3|].
  intros s Hs. rewrite HR, (Hfc s Hs). apply H4. exact Hs.
Qed.

Lemma raw_item_transfer w0 w l :
  k_R2 w = k_R2 w0 -> (forall s, In s l -> get_forward_cands w s = get_forward_cands w0 s) ->
  map (raw_item w) l = map (raw_item w0) l.
Proof. intros HR Hfc. apply map_ext_in. intros s Hs. unfold raw_item. rewrite HR, (Hfc s Hs). reflexivity. Qed.

Definition oversize_in (ms : nat) (es : list sets) : Prop := exists e, In e es /\ (ms < length (fst e))%nat.

Theorem entries_spec (w0 : lk) : 0 <= k_R2 w0 -> (1 <= k_max_size w0)%nat ->
  forall (es : list sets) (w : lk) (spl dpl : LOL),
  NoDup (concat (map fst es)) -> Forall (entry_ok w0) es ->
  same_frame w0 w -> k_mst w = k_mst w0 ->
  (forall s, In s (concat (map fst es)) -> get_forward_cands w s = get_forward_cands w0 s) ->
  (oversize_in (k_max_size w0) es -> entries_run ord es w spl dpl = FFail XSubnetOversizeException) /\
  (~ oversize_in (k_max_size w0) es ->
     exists w' bs, entries_run ord es w spl dpl = FDone w' (spl ++ flat_map blk_s bs, dpl ++ flat_map blk_d bs)
       /\ Forall2 (blk_ok w0) es bs
       /\ same_frame w0 w' /\ k_mst w' = k_mst w0
       /\ forall s, ~ In s (concat (map fst es)) -> get_forward_cands w' s = get_forward_cands w s).
Proof.
  intros HR Hms. induction es as [|[S Dd] es IH]; intros w spl dpl Hnd Hok F M C.
  - split; [intros [e [[] _]]|]. intros _. exists w, []. cbn. rewrite !app_nil_r.
    split; [reflexivity|]. split; [constructor|]. split; [exact F|]. split; [exact M|]. reflexivity.
  - cbn [map concat fst] in Hnd, C. inversion Hok as [|? ? Hok1 Hok2]; subst.
    assert (HRw : k_R2 w = k_R2 w0) by (destruct F as (_&_&_&_&_&_&_&_&_&_&E); exact E).
    assert (HMw : k_max_size w = k_max_size w0) by (destruct F as (_&_&_&_&_&_&_&_&_&E&_); exact E).
    assert (Hok1' : entry_ok w (S, Dd)).
    { apply (entry_ok_transfer w0 w); [exact HRw| |exact Hok1]. intros s Hs. apply C. apply in_or_app. left. exact Hs. }
    assert (HndS : NoDup S) by (apply NoDup_app_l in Hnd; exact Hnd).
    destruct (sort_loop_frame ord w S ord_perm HndS) as (F1 & M1 & C1).
    assert (HR1 : k_R2 (sort_loop ord w S) = k_R2 w) by (destruct F1 as (_&_&_&_&_&_&_&_&_&_&E); exact E).
    assert (HM1 : k_max_size (sort_loop ord w S) = k_max_size w) by (destruct F1 as (_&_&_&_&_&_&_&_&_&E&_); exact E).
    destruct (entry_spec ord ord_perm w S Dd) as [Hov Hfine]; [rewrite HRw; exact HR|rewrite HMw; exact Hms|exact Hok1'|].
    cbn zeta in Hov, Hfine. cbn [entries_run fst snd]. rewrite HR1, HM1.
    destruct (Nat.lt_ge_cases (k_max_size w) (length S)) as [Hlt|Hge].
    + rewrite (Hov Hlt). split; [reflexivity|]. intros Hn. exfalso. apply Hn. exists (S, Dd). split; [left; reflexivity|].
      cbn. rewrite <- HMw. exact Hlt.
    + destruct Hfine as (w2 & b & E & Hb & F2 & M2 & C2); [lia|]. rewrite E. cbn [fst snd].
      assert (Hdis : forall s, In s (concat (map fst es)) -> ~ In s S).
      { intros s Hs HsS. clear - Hnd Hs HsS. induction S as [|a S IHS]; [destruct HsS|].
        cbn in Hnd. inversion Hnd; subst. destruct HsS as [->|HsS]; [apply H1; apply in_or_app; right; exact Hs|apply IHS; assumption]. }
      destruct (IH w2 (spl ++ blk_s b) (dpl ++ blk_d b)) as [IHo IHk].
      * apply NoDup_app_r in Hnd. exact Hnd.
      * exact Hok2.
      * eapply same_frame_trans; [exact F|exact F2].
      * congruence.
      * intros s Hs. rewrite (C2 s (Hdis s Hs)). apply C. apply in_or_app. right. exact Hs.
      * split.
        -- intros [e [[<-|He] Hlt]]; [cbn in Hlt; lia|]. apply IHo. exists e. split; assumption.
        -- intros Hn. destruct IHk as (w' & bs & E' & HF2 & F' & M' & C').
           { intros [e [He Hlt]]. apply Hn. exists e. split; [right; exact He|exact Hlt]. }
           exists w', (b :: bs). cbn [flat_map]. rewrite !app_assoc. split; [exact E'|].
           split; [constructor; [|exact HF2]|].
           { destruct Hb as [Hb1 Hb2]. split; [|exact Hb2]. cbn [fst] in *.
             rewrite <- (raw_item_transfer w0 w S HRw); [exact Hb1|]. intros s Hs. apply C. apply in_or_app. left. exact Hs. }
           split; [exact F'|]. split; [exact M'|].
           intros s Hs. rewrite C'; [apply C2|]; intros Hin; apply Hs; apply in_or_app; [left|right]; exact Hin.
Qed.
End EntriesSpec.

(* ================= (b) the partition facts of the dictionary invariant ================= *)
Local Open Scope nat_scope.

Lemma sfind_of_in i v : forall (l : list sn), NoDup (map fst l) -> In (i, v) l -> sfind i l = Some v.
Proof.
  induction l as [|[k u] l IH]; cbn; intros Hn Hin; [destruct Hin|].
  inversion Hn as [|? ? Hk Hn']; subst. destruct Hin as [E|Hin].
  - inversion E; subst. rewrite Nat.eqb_refl. reflexivity.
  - destruct (Nat.eqb_spec i k) as [->|_]; [|apply IH; assumption].
    exfalso. apply Hk. apply in_map_iff. exists (k, v). split; [reflexivity|exact Hin].
Qed.
Lemma sfind_in i v : forall (l : list sn), sfind i l = Some v -> In (i, v) l.
Proof.
  induction l as [|[k u] l IH]; cbn; intros H; [discriminate|].
  destruct (Nat.eqb_spec i k) as [->|_]; [inversion H; left; reflexivity|right; apply IH; exact H].
Qed.

(* a vertex connected to a different vertex lies on a visited pair *)
Definition touch (es : list (nat * nat)) (x : vert) : Prop :=
  exists s d, In (s, d) es /\ (x = inl s \/ x = inr d).
Lemma conn_touch es x y : conn es x y -> x = y \/ (touch es x /\ touch es y).
Proof.
  induction 1 as [x y (s & d & Hin & -> & ->)|x|x y _ IH|x y z _ IH1 _ IH2].
  - right. split; exists s, d; auto.
  - left. reflexivity.
  - destruct IH as [->|[H1 H2]]; auto.
  - destruct IH1 as [->|[H1 H2]]; [exact IH2|]. destruct IH2 as [<-|[H3 H4]]; auto.
Qed.

Lemma concat_nodup (proj : sets -> list nat) (f : nat -> option nat) : forall (l : list sn),
  NoDup (map fst l) -> (forall i v, In (i, v) l -> NoDup (proj v)) ->
  (forall i v x, In (i, v) l -> In x (proj v) -> f x = Some i) ->
  NoDup (concat (map proj (map snd l))).
Proof.
  induction l as [|[k u] l IH]; cbn [map concat]; intros Hn Hp Hf; [constructor|].
  inversion Hn as [|? ? Hk Hn']; subst. apply NoDup_app_intro.
  - apply (Hp k u). left. reflexivity.
  - apply IH; [exact Hn'|intros; eapply Hp; right; eassumption|intros; eapply Hf; [right; eassumption|assumption]].
  - intros x H1 H2. apply in_concat in H2. destruct H2 as [t [Ht Hx]].
    apply in_map_iff in Ht. destruct Ht as [v [<- Hv]]. apply in_map_iff in Hv. destruct Hv as [[i v'] [<- Hiv]].
    cbn [snd] in Hx. pose proof (Hf k u x (or_introl eq_refl) H1) as F1.
    pose proof (Hf i v' x (or_intror Hiv) Hx) as F2. rewrite F1 in F2. inversion F2; subst i.
    apply Hk. apply in_map_iff. exists (k, v'). split; [reflexivity|exact Hiv].
Qed.

Lemma in_fcs_of s E dc : In dc (fcs_of s E) <-> exists d c, dc = (Some d, c) /\ In (s, d, c) E.
Proof.
  unfold fcs_of. rewrite in_flat_map. split.
  - intros [[[s' d] c] [Hin H]]. cbn [fst snd] in H. destruct (Nat.eqb_spec s' s) as [->|_]; [|destruct H].
    destruct H as [<-|[]]. exists d, c. auto.
  - intros (d & c & -> & Hin). exists (s, d, c). split; [exact Hin|]. cbn [fst snd]. rewrite Nat.eqb_refl. left. reflexivity.
Qed.

Section InvFacts.
Variables (nd : nat) (E : list (nat * nat * Z)) (m2 : mst).
Let es := map edge_of E.
Hypothesis HI : Inv nd es m2.

Lemma edge_in s d c : In (s, d, c) E -> In (s, d) es.
Proof. intros H. unfold es. apply in_map_iff. exists (s, d, c). split; [reflexivity|exact H]. Qed.
Lemma in_edge s d : In (s, d) es -> exists c, In (s, d, c) E.
Proof.
  unfold es. intros H. apply in_map_iff in H. destruct H as [[[s' d'] c] [Heq Hin]].
  unfold edge_of in Heq. cbn in Heq. inversion Heq; subst. exists c. exact Hin.
Qed.

Lemma inv_entry_in i v : In (i, v) (subs m2) -> sfind i (subs m2) = Some v.
Proof. apply sfind_of_in. apply (i_ids _ _ _ HI). Qed.

(* a subnet without source is a single destination *)
Lemma inv_lonely_dest i Dd : sfind i (subs m2) = Some ([], Dd) -> length Dd = 1.
Proof.
  intros Hv. destruct (i_nodup _ _ _ HI i _ Hv) as [_ Hn]. pose proof (i_nonempty _ _ _ HI i _ Hv) as Hne.
  cbn [fst snd] in *. destruct Dd as [|d1 [|d2 Dd]]; [congruence|reflexivity|]. exfalso.
  assert (Hc : conn es (inr d1) (inr d2)).
  { apply (i_conn _ _ _ HI i _ _ _ Hv); cbn; auto. }
  destruct (conn_touch _ _ _ Hc) as [Heq|[(s & d & Hin & [Hx|Hx]) _]].
  - inversion Heq; subst. inversion Hn; subst. apply H1. left. reflexivity.
  - discriminate.
  - inversion Hx; subst d. destruct (i_edge _ _ _ HI s d1 Hin) as [j [Hs Hd]].
    assert (Hd1 : vsub m2 (inr d1) = Some i) by (apply (i_sub _ _ _ HI i _ _ Hv); cbn; auto).
    cbn in Hd1. rewrite Hd in Hd1. inversion Hd1; subst j.
    destruct (i_in _ _ _ HI (inl s) i Hs) as [v' [Hv' Hin']]. rewrite Hv in Hv'. inversion Hv'; subst v'. destruct Hin'.
Qed.

(* the candidates of a source of entry i: at least one, all pointing into the entry's destinations *)
Lemma inv_src_cands i v s : sfind i (subs m2) = Some v -> In s (fst v) ->
  fcs_of s E <> [] /\ (forall dc, In dc (fcs_of s E) -> exists d, fst dc = Some d /\ In d (snd v))
  /\ exists d c, In (s, d, c) E.
Proof.
  intros Hv Hs.
  assert (Hid : alook s (ssub m2) = Some i) by (apply (i_sub _ _ _ HI i v (inl s) Hv); exact Hs).
  destruct (i_src _ _ _ HI s i Hid) as [d Hd]. destruct (in_edge s d Hd) as [c Hc].
  split; [|split; [|exists d, c; exact Hc]].
  - intros Hnil. assert (Hin : In (Some d, c) (fcs_of s E)) by (apply in_fcs_of; exists d, c; auto).
    rewrite Hnil in Hin. destruct Hin.
  - intros dc Hdc. apply in_fcs_of in Hdc. destruct Hdc as (d' & c' & -> & Hin). exists d'. split; [reflexivity|].
    destruct (i_edge _ _ _ HI s d' (edge_in _ _ _ Hin)) as [j [Hsj Hdj]]. rewrite Hid in Hsj. inversion Hsj; subst j.
    destruct (i_in _ _ _ HI (inr d') i Hdj) as [v' [Hv' Hin']]. rewrite Hv in Hv'. inversion Hv'; subst v'. exact Hin'.
Qed.

Lemma inv_nodup_srcs : NoDup (concat (map fst (map snd (subs m2)))).
Proof.
  apply (concat_nodup fst (fun s => alook s (ssub m2))); [apply (i_ids _ _ _ HI)| |].
  - intros i v Hin. apply (i_nodup _ _ _ HI i v). apply inv_entry_in. exact Hin.
  - intros i v x Hin Hx. apply (i_sub _ _ _ HI i v (inl x)); [apply inv_entry_in; exact Hin|exact Hx].
Qed.
Lemma inv_nodup_dsts : NoDup (concat (map snd (map snd (subs m2)))).
Proof.
  apply (concat_nodup snd (fun d => alook d (dsub m2))); [apply (i_ids _ _ _ HI)| |].
  - intros i v Hin. apply (i_nodup _ _ _ HI i v). apply inv_entry_in. exact Hin.
  - intros i v x Hin Hx. apply (i_sub _ _ _ HI i v (inr x)); [apply inv_entry_in; exact Hin|exact Hx].
Qed.

Lemma in_concat_srcs s : In s (concat (map fst (map snd (subs m2)))) <-> alook s (ssub m2) <> None.
Proof.
  split.
  - intros H. apply in_concat in H. destruct H as [t [Ht Hs]]. apply in_map_iff in Ht. destruct Ht as [v [<- Hv]].
    apply in_map_iff in Hv. destruct Hv as [[i v'] [<- Hiv]]. cbn [snd] in Hs.
    pose proof (i_sub _ _ _ HI i v' (inl s) (inv_entry_in _ _ Hiv) Hs) as Hx. cbn in Hx. rewrite Hx. discriminate.
  - intros H. destruct (alook s (ssub m2)) as [i|] eqn:Ei; [|congruence].
    destruct (i_in _ _ _ HI (inl s) i Ei) as [v [Hv Hin]]. apply in_concat. exists (fst v). split; [|exact Hin].
    apply in_map. apply in_map_iff. exists (i, v). split; [reflexivity|apply sfind_in; exact Hv].
Qed.
Lemma in_concat_dsts d : In d (concat (map snd (map snd (subs m2)))) <-> d < nd.
Proof.
  rewrite <- (i_dest _ _ _ HI d). split.
  - intros H. apply in_concat in H. destruct H as [t [Ht Hs]]. apply in_map_iff in Ht. destruct Ht as [v [<- Hv]].
    apply in_map_iff in Hv. destruct Hv as [[i v'] [<- Hiv]]. cbn [snd] in Hs.
    pose proof (i_sub _ _ _ HI i v' (inr d) (inv_entry_in _ _ Hiv) Hs) as Hx. cbn in Hx. rewrite Hx. discriminate.
  - intros H. destruct (alook d (dsub m2)) as [i|] eqn:Ei; [|congruence].
    destruct (i_in _ _ _ HI (inr d) i Ei) as [v [Hv Hin]]. apply in_concat. exists (snd v). split; [|exact Hin].
    apply in_map. apply in_map_iff. exists (i, v). split; [reflexivity|apply sfind_in; exact Hv].
Qed.

(* the destination sets partition the destinations of the frame *)
Lemma inv_dsts_perm : Permutation (concat (map snd (map snd (subs m2)))) (seq 0 nd).
Proof.
  apply NoDup_Permutation; [apply inv_nodup_dsts|apply seq_NoDup|].
  intros d. rewrite in_concat_dsts, in_seq. lia.
Qed.
End InvFacts.

(* ================= lists of (source, destination) the step returns ================= *)
Definition forget (l : link_t) : link_t := (fst l, (fst (snd l), 0%Z)).
Definition good_pair (sd : option nat * option nat) : Prop := sd <> (None, None).

Lemma combine_app {A B} (a b : list A) (c d : list B) :
  length a = length c -> combine (a ++ b) (c ++ d) = combine a c ++ combine b d.
Proof. revert c; induction a as [|x a IH]; intros [|y c] H; cbn in *; try discriminate; [reflexivity|]. f_equal. apply IH. lia. Qed.

Lemma links_of_app a b c d : length a = length c -> links_of (a ++ b) (c ++ d) = links_of a c ++ links_of b d.
Proof. intros H. unfold links_of. rewrite (combine_app a b c d H). apply flat_map_app. Qed.

Lemma somes_app {A} (a b : list (option A)) : somes (a ++ b) = somes a ++ somes b.
Proof. induction a as [|[x|] a IH]; cbn; [reflexivity| |]; rewrite IH; reflexivity. Qed.
Lemma somes_map_some {A} (l : list A) : somes (map Some l) = l.
Proof. induction l as [|x l IH]; cbn; [reflexivity|]. rewrite IH. reflexivity. Qed.
Lemma somes_map_none {A B} (l : list B) : somes (map (fun _ => @None A) l) = [].
Proof. induction l as [|x l IH]; cbn; [reflexivity|exact IH]. Qed.
Lemma somes_repeat_none {A} n : somes (repeat (@None A) n) = [].
Proof. induction n as [|n IH]; cbn; [reflexivity|exact IH]. Qed.
Lemma somes_reals (l : list cand) : somes (map fst l) = reals l.
Proof. induction l as [|[[k|] c] l IH]; cbn; [reflexivity| |]; rewrite IH; reflexivity. Qed.

Lemma links_dst_strip (p : list pair_t) : links_dst (map strip p) = map fst (map snd p).
Proof. unfold links_dst. rewrite !map_map. reflexivity. Qed.
Lemma links_src_strip (p : list pair_t) : links_src (map strip p) = map Some (map fst (map fst p)).
Proof. unfold links_src. rewrite !map_map. reflexivity. Qed.

Lemma blk_len b : length (blk_s b) = length (blk_d b).
Proof. unfold blk_s, blk_d, links_src, links_dst. rewrite !app_length, !map_length. reflexivity. Qed.
Lemma blks_len bs : length (flat_map blk_s bs) = length (flat_map blk_d bs).
Proof. induction bs as [|b bs IH]; cbn; [reflexivity|]. rewrite !app_length, IH, blk_len. reflexivity. Qed.

Lemma links_of_links (l : list link_t) : links_of (links_src l) (links_dst l) = map forget l.
Proof. induction l as [|[s [d c]] l IH]; [reflexivity|]. unfold links_of in *. cbn. f_equal. exact IH. Qed.
Lemma links_of_births (U : list nat) : links_of (map (fun _ => None) U) (map Some U) = [].
Proof. induction U as [|u U IH]; [reflexivity|]. unfold links_of in *. cbn. exact IH. Qed.
Lemma links_of_blk b : links_of (blk_s b) (blk_d b) = map forget (map strip (fst b)).
Proof.
  unfold blk_s, blk_d. rewrite links_of_app by (unfold links_src, links_dst; rewrite !map_length; reflexivity).
  rewrite links_of_links, links_of_births. apply app_nil_r.
Qed.
Lemma links_of_blks bs : links_of (flat_map blk_s bs) (flat_map blk_d bs) = map forget (map strip (concat (map fst bs))).
Proof.
  induction bs as [|b bs IH]; [reflexivity|]. cbn [flat_map map concat].
  rewrite links_of_app by apply blk_len. rewrite links_of_blk, IH, !map_app. reflexivity.
Qed.
Lemma links_of_lost (f : nat -> pair_t) (lost : list nat) :
  (forall s, fst (fst (f s)) = s /\ fst (snd (f s)) = None) ->
  links_of (map Some lost) (repeat None (length lost)) = map forget (map strip (map f lost)).
Proof.
  intros Hf. induction lost as [|s lost IH]; [reflexivity|]. unfold links_of in *. cbn. rewrite IH.
  destruct (Hf s) as [H1 H2]. unfold forget, strip at 1. cbn. rewrite H1, H2. reflexivity.
Qed.

Lemma good_blk b : Forall good_pair (combine (blk_s b) (blk_d b)).
Proof.
  unfold blk_s, blk_d. rewrite combine_app by (unfold links_src, links_dst; rewrite !map_length; reflexivity).
  apply Forall_app. split.
  - generalize (map strip (fst b)). intros l. induction l as [|x l IH]; cbn; constructor; [discriminate|exact IH].
  - generalize (snd b). intros U. induction U as [|u U IH]; cbn; constructor; [discriminate|exact IH].
Qed.
Lemma good_blks bs : Forall good_pair (combine (flat_map blk_s bs) (flat_map blk_d bs)).
Proof.
  induction bs as [|b bs IH]; cbn; [constructor|]. rewrite combine_app by apply blk_len.
  apply Forall_app. split; [apply good_blk|exact IH].
Qed.
Lemma good_lost (lost : list nat) : Forall good_pair (combine (map Some lost) (repeat None (length lost))).
Proof. induction lost as [|s l IH]; cbn; constructor; [discriminate|exact IH]. Qed.

Lemma somes_blk_s b : somes (blk_s b) = map fst (map fst (fst b)).
Proof. unfold blk_s. rewrite somes_app, links_src_strip, somes_map_some, somes_map_none. apply app_nil_r. Qed.
Lemma somes_blks_s bs : somes (flat_map blk_s bs) = map fst (map fst (concat (map fst bs))).
Proof.
  induction bs as [|b bs IH]; [reflexivity|]. cbn [flat_map map concat]. rewrite somes_app, somes_blk_s, IH, !map_app. reflexivity.
Qed.
Lemma somes_blk_d b : somes (blk_d b) = reals (map snd (fst b)) ++ snd b.
Proof. unfold blk_d. rewrite somes_app, links_dst_strip, somes_reals, somes_map_some. reflexivity. Qed.

Lemma in_reals k (l : list cand) : In k (reals l) <-> exists c, In (Some k, c) l.
Proof.
  unfold reals. rewrite in_flat_map. split.
  - intros [[[k'|] c] [Hin H]]; cbn in H; [|destruct H]. destruct H as [<-|[]]. exists c. exact Hin.
  - intros [c Hin]. exists (Some k, c). split; [exact Hin|cbn; auto].
Qed.

Lemma nset_in_spec x l : nset_in x l = true <-> In x l.
Proof.
  unfold nset_in. rewrite existsb_exists. split.
  - intros [y [Hy E]]. apply Nat.eqb_eq in E. subst. exact Hy.
  - intros H. exists x. split; [exact H|apply Nat.eqb_refl].
Qed.

(* the links of a block and its unclaimed destinations are, together, the destination set *)
Lemma claimed_unclaimed (A Dd U : list nat) :
  NoDup A -> incl A Dd -> NoDup Dd -> Permutation U (nset_diff Dd A) -> Permutation (A ++ U) Dd.
Proof.
  intros HA Hi HD HU.
  assert (HnU : NoDup (nset_diff Dd A)) by (unfold nset_diff; apply NoDup_filter; exact HD).
  apply NoDup_Permutation; [|exact HD|].
  - apply NoDup_app_intro; [exact HA|eapply Permutation_NoDup; [apply Permutation_sym; exact HU|exact HnU]|].
    intros x H1 H2. apply (Permutation_in _ HU) in H2. unfold nset_diff in H2. apply filter_In in H2. destruct H2 as [_ H2].
    apply negb_true_iff in H2. apply nset_in_spec in H1. congruence.
  - intros x. rewrite in_app_iff. split.
    + intros [H|H]; [apply Hi; exact H|]. apply (Permutation_in _ HU) in H. unfold nset_diff in H. apply filter_In in H. tauto.
    + intros H. destruct (nset_in x A) eqn:Ex; [left; apply nset_in_spec; exact Ex|].
      right. apply (Permutation_in _ (Permutation_sym HU)). unfold nset_diff. apply filter_In. split; [exact H|rewrite Ex; reflexivity].
Qed.

(* groups whose destinations lie in pairwise disjoint sets share no destination *)
Lemma all_disj_bound : forall (gs : list group) (Ds : list (list nat)),
  Forall2 (fun g D => incl (gdests g) D) gs Ds -> NoDup (concat Ds) -> all_disj gs.
Proof.
  induction 1 as [|g D gs Ds Hg HF IH]; intros Hn; [constructor|]. cbn in Hn. constructor.
  - rewrite Forall_forall. intros g' Hg' k H1 H2.
    assert (Hk : In k (concat Ds)).
    { clear - HF Hg' H2. induction HF as [|g0 D0 gs Ds H0 _ IH]; [destruct Hg'|]. cbn. apply in_or_app.
      destruct Hg' as [<-|Hg']; [left; apply H0; exact H2|right; apply IH; exact Hg']. }
    clear - Hn Hg H1 Hk. apply Hg in H1. clear Hg. induction D as [|a D IHD]; [destruct H1|].
    cbn in Hn. inversion Hn; subst. destruct H1 as [->|H1]; [apply H2; apply in_or_app; right; exact Hk|apply IHD; assumption].
  - apply IH. apply NoDup_app_r in Hn. exact Hn.
Qed.

(* ================= Subnets(...) ; assign_links : optimal over the items read off the query ================= *)
(* the item of source s as the query result q defines it: its candidates (destination, dist**2) in
   destination order, sorted by cost, then the null link at search_range**2 *)
Definition qitem (R2 : Z) (E : list (nat * nat * Z)) (s : nat) : item := (s, sort_cands (fcs_of s E) ++ [(None, R2)]).
Definition qitems (R2 : Z) (E : list (nat * nat * Z)) (ns : nat) : list item := map (qitem R2 E) (seq 0 ns).

Lemma Forall2_maps {A B C} (R : B -> C -> Prop) (f : A -> B) (g : A -> C) (l : list A) :
  (forall x, In x l -> R (f x) (g x)) -> Forall2 R (map f l) (map g l).
Proof. induction l as [|x l IH]; intros H; cbn; constructor; [apply H; left; reflexivity|apply IH; intros; apply H; right; assumption]. Qed.
Lemma Forall2_map2 {A B C D} (R : A -> B -> Prop) (R' : C -> D -> Prop) (f : A -> C) (g : B -> D) l1 l2 :
  (forall a b, In a l1 -> R a b -> R' (f a) (g b)) -> Forall2 R l1 l2 -> Forall2 R' (map f l1) (map g l2).
Proof.
  intros H HF. induction HF as [|a b l1 l2 Hab _ IH]; cbn; constructor; [apply H; [left; reflexivity|exact Hab]|].
  apply IH. intros; eapply H; [right; eassumption|assumption].
Qed.
Lemma concat_singletons {A B} (f : A -> B) l : concat (map (fun s => [f s]) l) = map f l.
Proof. induction l as [|x l IH]; cbn; [reflexivity|]. rewrite IH. reflexivity. Qed.
Lemma concat_nils {A B} (l : list A) : concat (map (fun _ => @nil B) l) = [].
Proof. induction l as [|x l IH]; cbn; [reflexivity|exact IH]. Qed.
Lemma concat_map_fst {B} (f : nat -> B) (es : list sets) :
  concat (map (fun e : sets => map f (fst e)) es) = map f (concat (map fst es)).
Proof. induction es as [|e es IH]; cbn; [reflexivity|]. rewrite IH, map_app. reflexivity. Qed.

Lemma entry_gdests w e : entry_ok w e -> incl (gdests (map (raw_item w) (fst e))) (snd e).
Proof.
  intros (_ & _ & _ & H) k Hk. apply Connected.gdests_in in Hk. destruct Hk as [y [Hy Hk]].
  apply in_map_iff in Hy. destruct Hy as [s [<- Hs]]. apply in_reals in Hk. destruct Hk as [c Hc].
  unfold raw_item in Hc. cbn [snd] in Hc. apply in_app_or in Hc. destruct Hc as [Hc|[Hc|[]]]; [|discriminate].
  apply (Permutation_in _ (sort_cands_perm _)) in Hc. destruct (H s Hs) as (_ & _ & Hd).
  destruct (Hd _ Hc) as [d [E Hin]]. cbn in E. inversion E; subst. exact Hin.
Qed.

Lemma blk_dests w e b : entry_ok w e -> NoDup (snd e) -> blk_ok w e b -> Permutation (somes (blk_d b)) (snd e).
Proof.
  intros Hok Hn [(Hp & [HF HN] & _) HU]. rewrite somes_blk_d.
  rewrite links_dst_strip, somes_reals in HU.
  apply claimed_unclaimed; [exact HN| |exact Hn|exact HU].
  intros k Hk. apply (entry_gdests w e Hok). eapply gdests_perm; [exact Hp|]. apply reals_sub; assumption.
Qed.

Lemma blks_dests w : forall es bs, Forall (entry_ok w) es -> Forall (fun e : sets => NoDup (snd e)) es ->
  Forall2 (blk_ok w) es bs -> Permutation (somes (flat_map blk_d bs)) (concat (map snd es)).
Proof.
  intros es bs H1 H2 HF. induction HF as [|e b es bs Heb _ IH]; cbn; [constructor|].
  inversion H1; subst. inversion H2; subst. rewrite somes_app. apply Permutation_app; [eapply blk_dests; eassumption|apply IH; assumption].
Qed.

Section AssignLinksOpt.
Variable ord : list nat -> list nat.
Hypothesis ord_perm : forall l, Permutation (ord l) l.

Theorem assign_links_opt (w1 : lk) (E : list (nat * nat * Z)) (m2 : mst) :
  let ns := length (k_srcs w1) in let nd := length (k_dests w1) in
  Inv nd (map edge_of E) m2 -> mst_sim ns nd (k_mst w1) m2 ->
  (forall s, s < ns -> get_forward_cands w1 s = fcs_of s E) ->
  (forall e, In e E -> fst (fst e) < ns) ->
  (forall e, In e E -> (0 <= snd e <= k_R2 w1)%Z) -> (0 <= k_R2 w1)%Z -> 1 <= k_max_size w1 ->
  k_includes_lost w1 = false ->
  let r := py_Linker_assign_links ord w1 in
  (oversize_in (k_max_size w1) (dict_values w1) -> r = FFail XSubnetOversizeException) /\
  (~ oversize_in (k_max_size w1) (dict_values w1) ->
     exists w2 spl dpl pairs, r = FDone w2 (spl, dpl) /\ is_opt (qitems (k_R2 w1) E ns) pairs /\
       links_of spl dpl = map forget (map strip pairs) /\
       Permutation (somes spl) (seq 0 ns) /\ Permutation (somes dpl) (seq 0 nd) /\
       length spl = length dpl /\ Forall good_pair (combine spl dpl) /\
       same_frame w1 w2 /\ k_mst w2 = k_mst w1).
Proof.
  intros ns nd HI Hsim Hfc Hsrc Hcost HR Hms Hlost r.
  destruct Hsim as (Hsubs & Hss & Hds).
  set (es := dict_values w1).
  assert (Hes : es = map snd (subs m2)) by (unfold es, dict_values; rewrite Hsubs; reflexivity).
  assert (Hsrc_lt : forall i v s, sfind i (subs m2) = Some v -> In s (fst v) -> s < ns).
  { intros i v s Hv Hs. destruct (inv_src_cands nd E m2 HI i v s Hv Hs) as (_ & _ & d & c & Hin). apply (Hsrc _ Hin). }
  assert (Hok : Forall (entry_ok w1) es).
  { rewrite Hes, Forall_forall. intros v Hv. apply in_map_iff in Hv. destruct Hv as [[i v'] [<- Hiv]]. cbn [snd].
    pose proof (inv_entry_in nd E m2 HI i v' Hiv) as Hf.
    destruct (i_nodup _ _ _ HI i v' Hf) as [Hn1 _].
    split; [exact Hn1|]. split; [apply (i_nonempty _ _ _ HI i v' Hf)|]. split.
    - intros H0. destruct v' as [S Dd]. cbn in H0. subst S. apply (inv_lonely_dest nd E m2 HI i Dd Hf).
    - intros s Hs. rewrite (Hfc s (Hsrc_lt i v' s Hf Hs)).
      destruct (inv_src_cands nd E m2 HI i v' s Hf Hs) as (Hne & Hd & _).
      split; [exact Hne|]. split; [|exact Hd].
      unfold bounded. rewrite Forall_forall. intros dc Hdc. apply in_fcs_of in Hdc. destruct Hdc as (d & c & -> & Hin).
      apply (Hcost _ Hin). }
  assert (HokD : Forall (fun e : sets => NoDup (snd e)) es).
  { rewrite Hes, Forall_forall. intros v Hv. apply in_map_iff in Hv. destruct Hv as [[i v'] [<- Hiv]]. cbn [snd].
    apply (i_nodup _ _ _ HI i v'). apply (inv_entry_in nd E m2 HI). exact Hiv. }
  assert (Hnd : NoDup (concat (map fst es))) by (rewrite Hes; apply (inv_nodup_srcs nd E m2 HI)).
  assert (HL1 : forall s, In s (concat (map fst es)) -> s < ns).
  { intros s Hs. rewrite Hes in Hs. apply in_concat in Hs. destruct Hs as [t [Ht Hs]]. apply in_map_iff in Ht. destruct Ht as [v [<- Hv]].
    apply in_map_iff in Hv. destruct Hv as [[i v'] [<- Hiv]]. cbn [snd] in Hs.
    apply (Hsrc_lt i v' s); [apply (inv_entry_in nd E m2 HI); exact Hiv|exact Hs]. }
  destruct (entries_spec ord ord_perm w1 HR Hms es w1 [] [] Hnd Hok (same_frame_refl w1) eq_refl (fun _ _ => eq_refl)) as [Hov Hfine].
  subst r. rewrite (gen_assign_links_eq ord w1). fold es.
  split.
  - intros Ho. rewrite (Hov Ho). reflexivity.
  - intros Hno. destruct (Hfine Hno) as (w' & bs & Er & HF2 & F' & M' & C'). rewrite Er. cbn [fst snd app].
    assert (Hl' : k_includes_lost w' = false) by (destruct F' as (_&_&_&E4&_); rewrite E4; exact Hlost).
    rewrite Hl'. cbv zeta.
    assert (Hsp : source_points w' = seq 0 ns) by (unfold source_points; destruct F' as (E1&_); rewrite E1; reflexivity).
    set (lost := filter (subnet_is_none w') (source_points w')).
    assert (Hlost_spec : forall s, In s lost <-> s < ns /\ alook s (ssub m2) = None).
    { intros s. unfold lost. rewrite filter_In, Hsp, in_seq. unfold subnet_is_none, get_subnet_src. rewrite M'.
      split; intros [H1 H2]; (split; [lia|]).
      - rewrite <- (Hss s) by lia. destruct (alook s (ssub (k_mst w1))); [discriminate|reflexivity].
      - rewrite (Hss s) by lia. rewrite H2. reflexivity. }
    assert (Hlost_fc : forall s, In s lost -> fcs_of s E = []).
    { intros s Hs. apply Hlost_spec in Hs. destruct Hs as [_ Hs].
      destruct (fcs_of s E) as [|dc l] eqn:Ef; [reflexivity|]. exfalso.
      assert (Hin : In dc (fcs_of s E)) by (rewrite Ef; left; reflexivity).
      apply in_fcs_of in Hin. destruct Hin as (d & c & _ & Hin).
      destruct (i_edge _ _ _ HI s d) as [j [Hj _]]; [apply in_map_iff; exists (s, d, c); split; [reflexivity|exact Hin]|]. congruence. }
    set (R2 := k_R2 w1).
    set (lostp := fun s : nat => ((qitem R2 E s, (None, R2)) : pair_t)).
    set (pairs := concat (map fst bs) ++ map lostp lost).
    exists w', (flat_map blk_s bs ++ map Some lost), (flat_map blk_d bs ++ repeat None (length lost)), pairs.
    split; [reflexivity|].
    (* the composed optimum *)
    set (gs := map (fun e : sets => map (raw_item w1) (fst e)) es ++ map (fun s => [qitem R2 E s]) lost).
    set (ls := map fst bs ++ map (fun s => [lostp s]) lost).
    assert (Hq0 : forall s, In s lost -> qitem R2 E s = (s, [(None, R2)])).
    { intros s Hs. unfold qitem. rewrite (Hlost_fc s Hs). reflexivity. }
    assert (Hopt : is_opt (concat gs) (concat ls)).
    { apply is_opt_concat.
      - apply (all_disj_bound gs (map snd es ++ map (fun _ => []) lost)).
        + unfold gs. apply Forall2_app.
          * apply Forall2_maps. intros e He. apply entry_gdests. rewrite Forall_forall in Hok. apply Hok. exact He.
          * apply Forall2_maps. intros s Hs. rewrite (Hq0 s Hs). intros k Hk. cbn in Hk. exact Hk.
        + rewrite concat_app, concat_nils, app_nil_r, Hes. apply (inv_nodup_dsts nd E m2 HI).
      - unfold gs, ls. apply Forall2_app.
        + apply (Forall2_map2 (blk_ok w1) is_opt _ fst es bs); [|exact HF2]. intros e b _ [Hb _]. exact Hb.
        + apply Forall2_maps. intros s Hs. unfold lostp. rewrite (Hq0 s Hs). apply is_opt_single.
          * left. reflexivity.
          * intros c [<-|[]]. cbn. lia. }
    assert (Hperm : Permutation (concat (map fst es) ++ lost) (seq 0 ns)).
    { apply NoDup_Permutation; [|apply seq_NoDup|].
      - apply NoDup_app_intro; [exact Hnd|unfold lost; apply NoDup_filter; rewrite Hsp; apply seq_NoDup|].
        intros s H1 H2. rewrite Hes in H1. apply (in_concat_srcs nd E m2 HI) in H1. apply Hlost_spec in H2. tauto.
      - intros s. rewrite in_app_iff, in_seq. split.
        + intros [H|H]; [apply HL1 in H; lia|apply Hlost_spec in H; lia].
        + intros H. destruct (alook s (ssub m2)) as [i|] eqn:Ei.
          * left. rewrite Hes. apply (in_concat_srcs nd E m2 HI). congruence.
          * right. apply Hlost_spec. split; [lia|exact Ei]. }
    assert (Hitems : Permutation (concat gs) (qitems R2 E ns)).
    { unfold gs. rewrite concat_app, concat_singletons, concat_map_fst.
      rewrite (map_ext_in (raw_item w1) (qitem R2 E)).
      - rewrite <- map_app. unfold qitems. apply Permutation_map. exact Hperm.
      - intros s Hs. unfold raw_item, qitem. rewrite (Hfc s (HL1 s Hs)). reflexivity. }
    assert (Hpairs : concat ls = pairs) by (unfold ls, pairs; rewrite concat_app, concat_singletons; reflexivity).
    assert (Hopt' : is_opt (qitems R2 E ns) pairs) by (rewrite <- Hpairs; eapply is_opt_perm; [exact Hitems|exact Hopt]).
    split; [exact Hopt'|].
    split.
    { rewrite links_of_app by apply blks_len. rewrite links_of_blks, (links_of_lost lostp lost).
      - unfold pairs. rewrite !map_app. reflexivity.
      - intros s. split; reflexivity. }
    split.
    { rewrite somes_app, somes_blks_s, somes_map_some.
      replace lost with (map fst (map fst (map lostp lost))) at 1
        by (rewrite !map_map; cbn; apply map_id).
      rewrite <- !map_app. fold pairs.
      destruct Hopt' as [Hp _].
      replace (seq 0 ns) with (map fst (qitems R2 E ns)) by (unfold qitems; rewrite map_map; cbn; apply map_id).
      apply Permutation_map. exact Hp. }
    split.
    { rewrite somes_app, somes_repeat_none, app_nil_r.
      eapply Permutation_trans; [apply (blks_dests w1 es bs Hok HokD HF2)|].
      rewrite Hes. apply (inv_dsts_perm nd E m2 HI). }
    split; [rewrite !app_length, blks_len, map_length, repeat_length; reflexivity|].
    split; [rewrite combine_app by apply blks_len; apply Forall_app; split; [apply good_blks|apply good_lost]|].
    split; [exact F'|exact M'].
Qed.
End AssignLinksOpt.

(* ================= (c) the KD-tree query primitive ================= *)
(* Row of destination d: every source within range (weighted squared distance <= R2) exactly once, at its
   squared distance, and nothing else.  [sps] are the positions the source tree was built from. *)
Definition row_ok (m : metric) (sps : list pt) (d : pt) (row : list (nat * Z)) : Prop :=
  NoDup (map fst row) /\
  forall s c, In (s, c) row <-> exists sp, nth_error sps s = Some sp /\ c = d2w (mw m) sp d /\ (c <= mR2 m)%Z.
Definition nearest_first (row : list (nat * Z)) : Prop :=
  sorted (map (fun e : nat * Z => (Some (fst e), snd e)) row).
(* what the optimality proof needs of the primitive ... *)
Definition query_exact (m : metric) (sps ds : list pt) (q : kdq) : Prop := Forall2 (row_ok m sps) ds q.
(* ... and the primitive as documented: exactly the sources within range, nearest first (the order within a
   row only decides dictionary ids and tie-breaking, never the cost of the result) *)
Definition query_ok (m : metric) (sps ds : list pt) (q : kdq) : Prop :=
  Forall2 (fun d row => row_ok m sps d row /\ nearest_first row) ds q.
Lemma query_ok_exact m sps ds q : query_ok m sps ds q -> query_exact m sps ds q.
Proof. unfold query_ok, query_exact. induction 1 as [|d row ds q [H _] _ IH]; constructor; assumption. Qed.

Lemma fcs_of_app s a b : fcs_of s (a ++ b) = fcs_of s a ++ fcs_of s b.
Proof. unfold fcs_of. apply flat_map_app. Qed.

Lemma fcs_row_out s i : forall row : list (nat * Z), (forall c, ~ In (s, c) row) ->
  fcs_of s (map (fun e : nat * Z => (fst e, i, snd e)) row) = [].
Proof.
  induction row as [|[s' c'] row IH]; intros H; [reflexivity|]. unfold fcs_of in *. cbn [map flat_map fst snd].
  destruct (Nat.eqb_spec s' s) as [->|_]; [exfalso; apply (H c'); left; reflexivity|].
  cbn [app]. apply IH. intros c Hc. apply (H c). right. exact Hc.
Qed.
Lemma fcs_row_in s i c : forall row : list (nat * Z), NoDup (map fst row) -> In (s, c) row ->
  fcs_of s (map (fun e : nat * Z => (fst e, i, snd e)) row) = [(Some i, c)].
Proof.
  induction row as [|[s' c'] row IH]; intros Hn Hin; [destruct Hin|].
  cbn [map fst] in Hn. inversion Hn as [|? ? Hni Hn']; subst.
  change (map (fun e : nat * Z => (fst e, i, snd e)) ((s', c') :: row))
    with ([(s', i, c')] ++ map (fun e : nat * Z => (fst e, i, snd e)) row).
  rewrite fcs_of_app. destruct Hin as [Heq|Hin].
  - inversion Heq; subst. rewrite fcs_row_out.
    + unfold fcs_of. cbn. rewrite Nat.eqb_refl. reflexivity.
    + intros c0 Hc0. apply Hni. apply in_map_iff. exists (s, c0). split; [reflexivity|exact Hc0].
  - rewrite (IH Hn' Hin). unfold fcs_of. cbn.
    destruct (Nat.eqb_spec s' s) as [->|_]; [|reflexivity].
    exfalso. apply Hni. apply in_map_iff. exists (s, c). split; [reflexivity|exact Hin].
Qed.

Lemma fcs_rows m sps s sp : nth_error sps s = Some sp -> forall ds q, Forall2 (row_ok m sps) ds q -> forall j,
  fcs_of s (flat_map (fun ir : nat * list (nat * Z) => map (fun e : nat * Z => (fst e, fst ir, snd e)) (snd ir))
                     (combine (seq j (length q)) q))
  = real_cands m sp ds j.
Proof.
  intros Hsp. induction 1 as [|d row ds q [Hn Hrow] _ IH]; intros j; [reflexivity|].
  cbn [length seq combine flat_map fst snd real_cands]. rewrite fcs_of_app, IH.
  destruct (Z.leb_spec (d2w (mw m) sp d) (mR2 m)) as [Hle|Hgt].
  - rewrite (fcs_row_in s j (d2w (mw m) sp d) row Hn); [reflexivity|]. apply Hrow. exists sp. auto.
  - rewrite fcs_row_out; [reflexivity|]. intros c Hc. apply Hrow in Hc. destruct Hc as (sp' & H1 & H2 & H3).
    rewrite Hsp in H1. inversion H1; subst sp'. lia.
Qed.

(* forward_cands = the model's real candidates: item_ok / "forward_cands are the real candidates" is no longer
   a free hypothesis but follows from the hypothesis on the primitive *)
Theorem gen_real_cands m sps ds q s sp :
  query_exact m sps ds q -> nth_error sps s = Some sp -> fcs_of s (qedges q) = real_cands m sp ds 0.
Proof. intros Hq Hsp. unfold qedges, enumerate. apply (fcs_rows m sps s sp Hsp ds q Hq 0). Qed.

Lemma qitem_cands m sps ds q s sp :
  query_exact m sps ds q -> nth_error sps s = Some sp ->
  qitem (mR2 m) (qedges q) s = (s, cands_of m (mR2 m) sp ds).
Proof. intros Hq Hsp. unfold qitem, cands_of. rewrite (gen_real_cands m sps ds q s sp Hq Hsp), sort_cands_c. reflexivity. Qed.

Lemma qitems_items_of m pred st ds q :
  query_exact m (map (pred (now st)) (live st)) ds q ->
  qitems (mR2 m) (qedges q) (length (live st)) = items_of m pred st ds.
Proof.
  intros Hq. unfold qitems, items_of.
  assert (G : forall l pre, live st = pre ++ l ->
            map (qitem (mR2 m) (qedges q)) (seq (length pre) (length l))
            = mapi_from (fun i s => (i, cands_of m (mR2 m) (pred (now st) s) ds)) (length pre) l).
  { induction l as [|x l IH]; intros pre Hl; [reflexivity|]. cbn [length seq map mapi_from]. f_equal.
    - apply (qitem_cands m _ ds q _ _ Hq). rewrite Hl, map_app, nth_error_app2 by (rewrite map_length; lia).
      rewrite map_length, Nat.sub_diag. reflexivity.
    - specialize (IH (pre ++ [x])). rewrite app_length in IH. cbn [length] in IH. rewrite Nat.add_1_r in IH.
      apply IH. rewrite <- app_assoc. exact Hl. }
  apply (G (live st) []). reflexivity.
Qed.

Lemma Forall2_in_r {A B} (R : A -> B -> Prop) l1 l2 y : Forall2 R l1 l2 -> In y l2 -> exists x, In x l1 /\ R x y.
Proof.
  induction 1 as [|a b l1 l2 Hab _ IH]; intros H; [destruct H|]. destruct H as [<-|H]; [exists a; split; [left; reflexivity|exact Hab]|].
  destruct (IH H) as [x [Hx Hr]]. exists x. split; [right; exact Hx|exact Hr].
Qed.

Lemma query_edges m sps ds q : metric_ok m -> query_exact m sps ds q ->
  forall e, In e (qedges q) -> fst (fst e) < length sps /\ (0 <= snd e <= mR2 m)%Z.
Proof.
  intros [Hw _] Hq e He. unfold qedges in He. apply in_flat_map in He. destruct He as [[i row] [Hi He]].
  apply in_map_iff in He. destruct He as [[s c] [<- Hsc]]. cbn [fst snd] in *.
  unfold enumerate in Hi. apply in_combine_r in Hi.
  destruct (Forall2_in_r _ _ _ _ Hq Hi) as [d [_ [_ Hrow]]]. apply Hrow in Hsc. destruct Hsc as (sp & H1 & H2 & H3).
  split; [apply nth_error_Some; congruence|]. split; [subst c; apply d2w_nonneg; exact Hw|exact H3].
Qed.

Lemma Forall2_len {A B} (R : A -> B -> Prop) l1 l2 : Forall2 R l1 l2 -> length l1 = length l2.
Proof. induction 1; cbn; congruence. Qed.

Lemma oversize_dec ms es : oversize_in ms es \/ ~ oversize_in ms es.
Proof.
  induction es as [|e es [IH|IH]].
  - right. intros [e [[] _]].
  - left. destruct IH as [e' [H1 H2]]. exists e'. split; [right; exact H1|exact H2].
  - destruct (Nat.lt_ge_cases ms (length (fst e))) as [H|H].
    + left. exists e. split; [left; reflexivity|exact H].
    + right. intros [e' [[<-|H1] H2]]; [lia|]. apply IH. exists e'. split; assumption.
Qed.

(* ================= the size clause in terms of Model.Link.components ================= *)
(* The dictionary entries with more than ms >= 1 sources correspond to the groups of [components] (the
   grouping C02_step_optimal is stated on) with more than ms sources. *)
Lemma chain_step_or_eq g a b : Connected.chain g a b -> a = b \/ reals (snd a) <> [].
Proof.
  destruct 1 as [x Hx|x y z Hx Hy [k [Hk _]] _]; [left; reflexivity|right].
  intros E. rewrite E in Hk. destruct Hk.
Qed.

Lemma nodup_map_concat_in {A B} (f : A -> B) (g : list A) : forall gs, In g gs -> NoDup (map f (concat gs)) -> NoDup (map f g).
Proof.
  induction gs as [|g0 gs IH]; intros Hin Hn; [destruct Hin|]. cbn in Hn. rewrite map_app in Hn.
  destruct Hin as [->|Hin]; [apply NoDup_app_l in Hn; exact Hn|apply IH; [exact Hin|apply NoDup_app_r in Hn; exact Hn]].
Qed.

Section SizeClause.
Variables (nd ns : nat) (R2 : Z) (E : list (nat * nat * Z)) (m2 : mst).
Let es := map edge_of E.
Let its := qitems R2 E ns.
Hypothesis HI : Inv nd es m2.
Hypothesis Hsrc : forall e, In e E -> fst (fst e) < ns.

Lemma qitems_fst : map fst its = seq 0 ns.
Proof. unfold its, qitems. rewrite map_map. cbn. apply map_id. Qed.
Lemma qitems_nodup : NoDup (map fst its).
Proof. rewrite qitems_fst. apply seq_NoDup. Qed.
Lemma qitems_in s : s < ns -> In (qitem R2 E s) its.
Proof. intros H. unfold its, qitems. apply in_map. apply in_seq. lia. Qed.
Lemma qitems_inv x : In x its -> x = qitem R2 E (fst x).
Proof. unfold its, qitems. intros H. apply in_map_iff in H. destruct H as [s [<- _]]. reflexivity. Qed.

Lemma qitem_reals s d : In d (reals (snd (qitem R2 E s))) <-> exists c, In (s, d, c) E.
Proof.
  unfold qitem. cbn [snd]. rewrite in_reals. split.
  - intros [c Hc]. apply in_app_or in Hc. destruct Hc as [Hc|[Hc|[]]]; [|discriminate].
    apply (Permutation_in _ (sort_cands_perm _)) in Hc. apply in_fcs_of in Hc. destruct Hc as (d' & c' & Heq & Hin).
    inversion Heq; subst. exists c'. exact Hin.
  - intros [c Hc]. exists c. apply in_or_app. left. apply (Permutation_in _ (Permutation_sym (sort_cands_perm _))).
    apply in_fcs_of. exists d, c. auto.
Qed.

Lemma qitems_edges : edges_of its es.
Proof.
  intros s d. split.
  - intros H. destruct (in_edge E s d H) as [c Hc]. exists (snd (qitem R2 E s)). split.
    + change (s, snd (qitem R2 E s)) with (qitem R2 E s). apply qitems_in. apply (Hsrc _ Hc).
    + apply qitem_reals. exists c. exact Hc.
  - intros [c [Hin Hd]]. apply qitems_inv in Hin. cbn [fst] in Hin. inversion Hin; subst c.
    apply qitem_reals in Hd. destruct Hd as [c Hc]. apply (edge_in E s d c Hc).
Qed.

Theorem oversize_components (ms : nat) : 1 <= ms ->
  (oversize_in ms (map snd (subs m2)) <-> exists g, In g (components its) /\ ms < length g).
Proof.
  intros Hms.
  destruct (subnets_match_components nd its es m2 qitems_nodup qitems_edges HI) as [Hmatch _].
  destruct (components_spec its) as [Hpw Hperm].
  split.
  - intros [v [Hv Hlt]]. apply in_map_iff in Hv. destruct Hv as [[i v'] [<- Hiv]]. cbn [snd] in *.
    pose proof (inv_entry_in nd E m2 HI i v' Hiv) as Hf.
    assert (Hx : forall s, In s (fst v') -> In (qitem R2 E s) its /\ reals (snd (qitem R2 E s)) <> [] /\ vsub m2 (inl s) = Some i).
    { intros s Hs. destruct (inv_src_cands nd E m2 HI i v' s Hf Hs) as (_ & _ & d & c & Hin).
      split; [apply qitems_in; apply (Hsrc _ Hin)|]. split.
      - intros Hnil. assert (Hd : In d (reals (snd (qitem R2 E s)))) by (apply qitem_reals; exists c; exact Hin).
        rewrite Hnil in Hd. destruct Hd.
      - apply (i_sub _ _ _ HI i v' (inl s) Hf). exact Hs. }
    destruct (fst v') as [|s0 rest] eqn:Ev; [cbn in Hlt; lia|].
    destruct (Hx s0 (or_introl eq_refl)) as (H0in & H0r & H0id).
    destruct (comps_cover its _ H0in) as [g [Hg H0g]]. exists g. split; [exact Hg|].
    assert (Hincl : incl (map (qitem R2 E) (s0 :: rest)) g).
    { intros x Hxin. apply in_map_iff in Hxin. destruct Hxin as [s [<- Hs]]. destruct (Hx s Hs) as (Hsin & Hsr & Hsid).
      destruct (proj2 (Hmatch _ _ H0in Hsin H0r Hsr)) as [g' [Hg' [H0g' Hsg']]]; [cbn [fst qitem]; congruence|].
      destruct (pw_disj_In _ g g' Hpw Hg Hg') as [->|Hdis]; [exact Hsg'|]. exfalso.
      destruct (reals (snd (qitem R2 E s0))) as [|k r] eqn:Er; [congruence|].
      apply (Hdis k); [apply (in_gdests g (qitem R2 E s0) k H0g)|apply (in_gdests g' (qitem R2 E s0) k H0g')];
        rewrite Er; left; reflexivity. }
    assert (Hnd : NoDup (map (qitem R2 E) (s0 :: rest))).
    { apply (NoDup_map_inv fst). rewrite map_map. cbn [qitem fst]. rewrite map_id. rewrite <- Ev.
      apply (i_nodup _ _ _ HI i v' Hf). }
    pose proof (NoDup_incl_length Hnd Hincl) as Hle. rewrite map_length in Hle. lia.
  - intros [g [Hg Hlt]].
    assert (Hgn : NoDup (map fst g)).
    { apply (nodup_map_concat_in fst g (components its) Hg).
      eapply Permutation_NoDup; [apply Permutation_map, Permutation_sym; exact Hperm|apply qitems_nodup]. }
    destruct g as [|x [|y g']] eqn:Eg; [cbn in Hlt; lia|cbn in Hlt; lia|]. rewrite <- Eg in *.
    assert (Hxg : In x g) by (rewrite Eg; left; reflexivity).
    assert (Hyg : In y g) by (rewrite Eg; right; left; reflexivity).
    assert (Hxy : fst x <> fst y).
    { rewrite Eg in Hgn. cbn in Hgn. inversion Hgn; subst. intros Heq. apply H1. left. symmetry. exact Heq. }
    pose proof (Connected.components_connected its) as Hconn. rewrite Forall_forall in Hconn. specialize (Hconn g Hg).
    assert (Hreal : forall z, In z g -> reals (snd z) <> []).
    { intros z Hz.
      assert (Hz' : exists z', In z' g /\ fst z' <> fst z).
      { destruct (Nat.eq_dec (fst z) (fst x)) as [Ee|Ne]; [exists y; split; [exact Hyg|congruence]|exists x; split; [exact Hxg|congruence]]. }
      destruct Hz' as [z' [Hz'g Hne]]. destruct (chain_step_or_eq g z z' (Hconn z z' Hz Hz'g)) as [->|H]; [congruence|exact H]. }
    assert (Hits : forall z, In z g -> In z its) by (intros z Hz; eapply comps_incl; eassumption).
    destruct (has_edge_id nd its es m2 x qitems_edges HI (Hits x Hxg) (Hreal x Hxg)) as [i Hi].
    destruct (i_in _ _ _ HI (inl (fst x)) i Hi) as [v [Hv _]].
    exists v. split; [apply in_map_iff; exists (i, v); split; [reflexivity|apply sfind_in; exact Hv]|].
    assert (Hincl : incl (map fst g) (fst v)).
    { intros s Hs. apply in_map_iff in Hs. destruct Hs as [z [<- Hz]].
      assert (Hid : vsub m2 (inl (fst z)) = Some i).
      { rewrite <- Hi. symmetry. apply (proj1 (Hmatch x z (Hits x Hxg) (Hits z Hz) (Hreal x Hxg) (Hreal z Hz))).
        exists g. auto. }
      destruct (i_in _ _ _ HI (inl (fst z)) i Hid) as [v' [Hv' Hin]]. rewrite Hv in Hv'. inversion Hv'; subst v'. exact Hin. }
    pose proof (NoDup_incl_length Hgn Hincl) as Hle. rewrite map_length in Hle.
    eapply Nat.lt_le_trans; [exact Hlt|exact Hle].
Qed.
End SizeClause.

(* ================= the headline ================= *)
(* ONE GENERATED STEP.  The world w stands for the linker just after update_hash: its source points are the
   candidate sources of the model state st (k_srcs w = live st: previous frame and remembered ones), its
   destination points the new frame; q is the result of the KD-tree query, assumed to list for every
   destination exactly the sources within search_range (at the positions pred predicts), each at its squared
   distance -- so every accepted candidate costs at most the null link.  Then the generated
   Subnets(...) ; assign_links
     - raises SubnetOversizeException exactly when some subnet of the dictionary (a connected component of the
       candidate graph, C02_generated_subnets_connected) has more than MAX_SUB_NET_SIZE sources, and raises
       nothing else;
     - otherwise returns (spl, dpl) whose links (source, destination or None) are those of an assignment that
       is is_opt over items_of: over ALL candidate sources at once, one-to-one, within range, of minimal total
       (squared displacements + search_range**2 per source left unlinked);  every source occurs exactly once
       in spl, every destination exactly once in dpl (the unlinked ones paired with None: new trajectories),
       which are the preconditions of C02_generated_apply_links. *)
Theorem gen_step_optimal (ord : list nat -> list nat) (m : metric) (pred : nat -> src -> pt) (st : lstate)
        (q : kdq) (w : lk) :
  (forall l, Permutation (ord l) l) ->
  metric_ok m -> 1 <= k_max_size w -> k_srcs w = live st -> k_R2 w = mR2 m ->
  query_exact m (map (pred (now st)) (live st)) (k_dests w) q ->
  let its := items_of m pred st (k_dests w) in
  exists w1, py_Subnets_init q w = FDone w1 tt /\
    (py_Linker_assign_links ord w1 = FFail XSubnetOversizeException
       <-> exists e, In e (dict_values w1) /\ k_max_size w < length (fst e)) /\
    ((exists e, In e (dict_values w1) /\ k_max_size w < length (fst e))
       <-> exists g, In g (components its) /\ k_max_size w < length g) /\
    (forall x, py_Linker_assign_links ord w1 = FFail x -> x = XSubnetOversizeException) /\
    (forall w2 spl dpl, py_Linker_assign_links ord w1 = FDone w2 (spl, dpl) ->
       exists pairs, is_opt its pairs /\ links_of spl dpl = map forget (map strip pairs) /\
         Permutation (somes spl) (seq 0 (length (live st))) /\
         Permutation (somes dpl) (seq 0 (length (k_dests w))) /\
         length spl = length dpl /\ (forall sd, In sd (combine spl dpl) -> sd <> (None, None)) /\
         same_frame w1 w2).
Proof.
  intros Hord Hm Hms Hsrcs HR2 Hq its.
  pose proof (query_edges m _ _ q Hm Hq) as Hedges. rewrite map_length in Hedges.
  assert (Hlq : length q = length (k_dests w)) by (symmetry; eapply Forall2_len; exact Hq).
  destruct (gen_subnets_init q w Hlq) as (w1 & m2 & Ei & _ & HI & Hsim & Hfc & Hlost & E1 & E2 & _ & _ & _ & _ & _ & _ & E9 & E10).
  { intros e He. rewrite Hsrcs. apply Hedges. exact He. }
  cbn zeta in *. exists w1. split; [exact Ei|].
  assert (Hcomp : (exists e, In e (dict_values w1) /\ k_max_size w < length (fst e))
                  <-> exists g, In g (components its) /\ k_max_size w < length g).
  { unfold its. rewrite <- (qitems_items_of m pred st (k_dests w) q Hq).
    unfold dict_values. destruct Hsim as [-> _]. rewrite <- Hsrcs.
    apply (oversize_components (length (k_dests w)) (length (k_srcs w)) (mR2 m) (qedges q) m2 HI); [|exact Hms].
    intros e He. rewrite Hsrcs. apply Hedges. exact He. }
  destruct (assign_links_opt ord Hord w1 (qedges q) m2) as [Hov Hfine].
  - rewrite E2. exact HI.
  - rewrite E1, E2. exact Hsim.
  - rewrite E1. exact Hfc.
  - intros e He. rewrite E1, Hsrcs. apply Hedges. exact He.
  - intros e He. rewrite E10, HR2. apply Hedges. exact He.
  - rewrite E10, HR2. apply Hm.
  - rewrite E9. exact Hms.
  - exact Hlost.
  - cbn zeta in Hov, Hfine. rewrite E9, E10, E1, E2, HR2, Hsrcs in *. fold (oversize_in (k_max_size w) (dict_values w1)).
    destruct (oversize_dec (k_max_size w) (dict_values w1)) as [Ho|Hno].
    + rewrite (Hov Ho). split; [tauto|]. split; [exact Hcomp|]. split; [intros x Hx; inversion Hx; reflexivity|intros; discriminate].
    + destruct (Hfine Hno) as (w2 & spl & dpl & pairs & Er & Hopt & Hl & Hps & Hpd & Hlen & Hgood & Hfr & _).
      rewrite Er. split; [split; [discriminate|intros Ho; contradiction]|]. split; [exact Hcomp|]. split; [intros; discriminate|].
      intros w2' spl' dpl' Heq. inversion Heq; subst w2' spl' dpl'. exists pairs.
      rewrite (qitems_items_of m pred st (k_dests w) q Hq) in Hopt.
      split; [exact Hopt|]. split; [exact Hl|]. split; [exact Hps|]. split; [exact Hpd|]. split; [exact Hlen|].
      rewrite Forall_forall in Hgood. split; [exact Hgood|exact Hfr].
Qed.


(* ================= non-vacuity ================= *)
(* sources at 0, 3, 20 (tracks 0 1 2), new frame at 1, 4, 40, search_range 5: the exact query lists sources 0 and 1
   for destinations 0 and 1 (nearest first), nobody for destination 2.  Greedy nearest-neighbour would be the same
   here; what matters is that [query_ok] holds of a query with competition, and what the generated step returns. *)
Definition ex_metric : metric := {| mw := [1%Z]; mR2 := 25%Z |}.
Definition ex_state : lstate :=
  {| live := [ {| s_lab := 0; s_pos := [0%Z]; s_seen := 0 |}; {| s_lab := 1; s_pos := [3%Z]; s_seen := 0 |};
               {| s_lab := 2; s_pos := [20%Z]; s_seen := 0 |} ]; now := 1; next_id := 3 |}.
Definition ex_dests : list pt := [[1%Z]; [4%Z]; [40%Z]].
Definition ex_query : kdq := [[(0, 1%Z); (1, 4%Z)]; [(1, 1%Z); (0, 16%Z)]; []].
Definition ex_world : lk :=
  mk_lk (live ex_state) ex_dests 1 [] {| subs := []; ssub := [(7, 3)]; dsub := [(0, 5)] |} true [] [] [[]] 1 3 30 25%Z.

Lemma ex_query_ok : query_ok ex_metric (map (no_pred (now ex_state)) (live ex_state)) ex_dests ex_query.
Proof.
  unfold query_ok, ex_query, ex_dests.
  assert (Hs : forall (P : Prop) s (sp : pt), nth_error (map (no_pred (now ex_state)) (live ex_state)) s = Some sp ->
              (sp = [0%Z] -> s = 0 -> P) -> (sp = [3%Z] -> s = 1 -> P) -> (sp = [20%Z] -> s = 2 -> P) -> P).
  { intros P s sp H H0 H1 H2. destruct s as [|[|[|s]]]; cbn in H; inversion H; auto. destruct s; discriminate. }
  assert (Hnd2 : forall a b : nat, a <> b -> NoDup [a; b]).
  { intros a b Hab. constructor; [intros [H|[]]; congruence|constructor; [intros []|constructor]]. }
  constructor; [|constructor; [|constructor; [|constructor]]].
  - split; [split|].
    + cbn. apply Hnd2. discriminate.
    + intros s c. split.
      * intros [H|[H|[]]]; inversion H; subst; eexists; (split; [reflexivity|split; [reflexivity|cbn; lia]]).
      * intros (sp & H1 & -> & H3). apply (Hs _ s sp H1); intros -> ->; cbn in *; try lia; auto.
    + unfold nearest_first. cbn. repeat constructor; cbn; lia.
  - split; [split|].
    + cbn. apply Hnd2. discriminate.
    + intros s c. split.
      * intros [H|[H|[]]]; inversion H; subst; eexists; (split; [reflexivity|split; [reflexivity|cbn; lia]]).
      * intros (sp & H1 & -> & H3). apply (Hs _ s sp H1); intros -> ->; cbn in *; try lia; auto.
    + unfold nearest_first. cbn. repeat constructor; cbn; lia.
  - split; [split|].
    + constructor.
    + intros s c. split; [intros []|].
      intros (sp & H1 & -> & H3). apply (Hs _ s sp H1); intros -> ->; cbn in *; lia.
    + constructor.
Qed.

(* ================= Linker.next_level: links AND labels ================= *)
(* The whole generated next_level = update_hash ; Subnets(...) ; assign_links ; apply_links, with the memory queue
   qq of Model/MemQueue.v standing for mem_set / mem_history: it raises SubnetOversizeException exactly when a
   group of [components] is oversize and raises nothing else; otherwise the track ids it writes on the new frame
   and the memory it keeps are those of apply_links (LinkstepApply.gen_apply_links_spec) on the links of an
   is_opt assignment. *)
Theorem gen_next_level_optimal (ord : list nat -> list nat) (ordp : list src -> list src) (m : metric)
        (pred : nat -> src -> pt) (st : lstate) (qq : qstate) (q : kdq) (w : lk) (coords : list pt) (t : nat) :
  (forall l, Permutation (ord l) l) ->
  metric_ok m -> 1 <= k_max_size w -> k_R2 w = mR2 m ->
  hash_srcs w ++ ordp (k_mem_set w) = live st ->
  query_exact m (map (pred (now st)) (live st)) coords q ->
  q_mem qq = map key_of (k_mem_set w) -> q_hist qq = map (map key_of) (k_mem_history w) ->
  k_memory w <= length (k_mem_history w) -> NoDup (map key_of (live st)) ->
  let its := items_of m pred st coords in
  let r := py_Linker_next_level ord ordp q w coords t in
  (r = FFail XSubnetOversizeException <-> exists g, In g (components its) /\ k_max_size w < length g) /\
  (forall x, r = FFail x -> x = XSubnetOversizeException) /\
  (forall w3 u, r = FDone w3 u ->
     exists spl dpl pairs, is_opt its pairs /\ links_of spl dpl = map forget (map strip pairs) /\
       Permutation (somes dpl) (seq 0 (length coords)) /\
       k_counter w3 = k_counter w + length (births spl dpl) /\
       (forall j, j < length coords ->
          alook j (k_dtrack w3) = Some (match source_of (links_of spl dpl) j with
                                        | Some i => lab_of st i
                                        | None => k_counter w + index_of j (births spl dpl) end)) /\
       (forall k, In k (map key_of (k_mem_set w3)) <-> In k (q_mem (q_step (k_memory w) (live st) (links_of spl dpl) qq))) /\
       k_dests w3 = coords /\ k_now w3 = t).
Proof.
  intros Hord Hm Hms HR2 Hsrcs Hq Hqm Hqh Hml Hkeys its r. subst r. rewrite gen_next_level_eq.
  set (w0 := update_hash_abs ordp w coords t).
  assert (Hlq : length q = length (k_dests w0)) by (symmetry; eapply Forall2_len; exact Hq).
  pose proof (query_edges m _ _ q Hm Hq) as Hedges. rewrite map_length in Hedges.
  destruct (gen_subnets_init q w0 Hlq) as (w1' & m2 & Ei' & _ & _ & _ & _ & _ & E1 & E2 & E3 & E4 & E5 & E6 & E7 & E8 & E9 & E10).
  { intros e He. change (k_srcs w0) with (hash_srcs w ++ ordp (k_mem_set w)). rewrite Hsrcs. apply Hedges. exact He. }
  destruct (gen_step_optimal ord m pred st q w0 Hord Hm Hms Hsrcs HR2 Hq) as (w1 & Ei & Hov & Hcomp & Hx & Hdone).
  rewrite Ei in Ei'. inversion Ei'; subst w1'. rewrite Ei.
  change (k_max_size w0) with (k_max_size w) in *. change (k_dests w0) with coords in *. fold its in Hcomp, Hdone.
  destruct (py_Linker_assign_links ord w1) as [w2 [spl dpl]|x] eqn:Ea.
  - destruct (Hdone w2 spl dpl eq_refl) as (pairs & Hopt & Hl & Hps & Hpd & Hlen & Hgood & Hfr).
    destruct Hfr as (F1 & F2 & F3 & F4 & F5 & F6 & F7 & F8 & F9 & F10 & F11).
    destruct (gen_apply_links_spec w2 spl dpl st qq) as (w3 & Eap & Hcnt & Hlab & _ & Hmem & _ & _ & _ & Hd3 & Hn3 & _).
    + rewrite F1, E1. exact Hsrcs.
    + rewrite F5, E4. reflexivity.
    + rewrite F6, E5. exact Hqm.
    + rewrite F7, E6. exact Hqh.
    + rewrite F8, F7, E7, E6. exact Hml.
    + exact Hlen.
    + exact Hgood.
    + eapply Permutation_NoDup; [apply Permutation_sym; exact Hps|apply seq_NoDup].
    + intros s Hs. apply (Permutation_in _ Hps) in Hs. apply in_seq in Hs. lia.
    + eapply Permutation_NoDup; [apply Permutation_sym; exact Hpd|apply seq_NoDup].
    + exact Hkeys.
    + cbn [fst snd]. rewrite Eap. split; [split; [discriminate|]|].
      * intros Hg. apply Hcomp in Hg. apply Hov in Hg. discriminate.
      * split; [intros; discriminate|]. intros w3' u Heq. inversion Heq; subst w3'.
        exists spl, dpl, pairs. split; [exact Hopt|]. split; [exact Hl|]. split; [exact Hpd|].
        split; [rewrite Hcnt, F9, E8; reflexivity|]. split.
        { intros j Hj. rewrite (Hlab j).
          - rewrite F9, E8. reflexivity.
          - apply (Permutation_in _ (Permutation_sym Hpd)). apply in_seq. lia. }
        split; [rewrite F8, E7 in Hmem; exact Hmem|]. split; [rewrite Hd3, F2, E2; reflexivity|rewrite Hn3, F3, E3; reflexivity].
  - split; [|split; [|intros; discriminate]].
    + split.
      * intros Hr. inversion Hr; subst x. apply Hcomp. apply Hov. reflexivity.
      * intros Hg. apply Hcomp in Hg. apply Hov in Hg. inversion Hg; subst. reflexivity.
    + intros x' Hr. inversion Hr; subst x'. apply Hx. reflexivity.
Qed.
